#!/bin/bash
# Builds the framework offline: Lean library + driver, Go harness against /repo.
set -e
cd "$(dirname "$0")"
export GOFLAGS=-mod=mod GOPROXY=off
(cd lean && lake build 2>&1 | tail -3)
mkdir -p .build
cp /repo/go.sum harness/go.sum
(cd harness && go build -tags verif -o ../.build/vcheck ./cmd/vcheck)
echo setup-ok
