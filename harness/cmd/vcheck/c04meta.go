package main

import (
	"bytes"
	"fmt"
	"reflect"
	"regexp"
	"regexp/syntax"
	"sort"
	"strings"
	"sync"
	"time"
	"unicode/utf8"
	"unsafe"

	"github.com/coregx/coregex/dfa/lazy"
	"github.com/coregx/coregex/dfa/onepass"
	"github.com/coregx/coregex/meta"
	"github.com/coregx/coregex/nfa"
)

// c04MetaFindAllTie: the Lean model of the ENUMERATION LOOPS INSIDE THE META ENGINE (Cx.MetaFindAll = meta/findall.go:
// FindAllIndicesStreaming with the CharClassSearcher streaming branch, findAllIndicesLoop with the always-anchored shortcut and
// the direct forward / reverse DFA branch (`useDFADirect`), Count, findSubmatchAtWithState and the FindAllSubmatch loop) is run
// with the flags of the real compiled engine (read by reflection) and with the single-search oracles given as tables recorded from
// the REAL components (port of tools/fidelity/metafindall):
//
//	findat    (*Engine).findIndicesAtWithState(h, a, state) for every offset a — the unexported function the loops call, reached
//	          with go:linkname on a state taken with getSearchState;  fi = Engine.FindIndices(h)
//	fwd/rev   e.dfa.SearchAt(cache, h, a) for every a and e.reverseDFA.SearchReverse(cache, h, a, end) for every a whose forward
//	          answer is the end of a non-empty window (the only questions the direct branch asks): the engine's own lazy DFAs
//	          (unexported fields), fresh caches
//	cc        e.charClassSearcher.FindAllIndices(h, nil)
//	onepass   e.onepass.Search / SearchLongest (the one the mode selects);  pikecaps = state.pikevm.SearchWithSlotTableCapturesAt(h, a)
//	          for every a;  inspan = state.pikevm.SearchWithCapturesInSpan(h, s, e) for every span of findat
//
// The MODEL runs the loops (`metafindall both | sub | subat`); its answers must be what the real Engine.FindAllIndicesStreaming(h, n, nil),
// Engine.Count(h, n) and the spans of Engine.FindAllSubmatch(h, n) are for n ∈ {-1, 0, 1, 2, 3}, and what Engine.FindSubmatchAt
// (= findSubmatchAtWithState on a pooled state) returns at every offset.  On ASCII haystacks the real answers must be regexp's
// (FindAllIndex / FindAllSubmatchIndex; the engine's n = 0 means "no limit" for FindAllIndicesStreaming; leftmost-longest regexp
// for the `longest` variant, a separately compiled engine with SetLongest(true)).
//
// Patterns: the shapes of every strategy meta.Compile selects (from the generator of the fidelity program), filed under the strategy
// they really select, up to a budget per strategy; the look-behind and nested-literal probes of C04 (`\b[a-z]`, `(?m)^\w`,
// `abc|cd|d|…72 words` on "abcd") always take part; in the thorough tier mutants fill the budgets.  Haystacks: at most 14 bytes
// (longer only when the pattern's matches are), derived from sampled matches, plus a few with multi-byte runes and (thorough)
// invalid bytes for the empty-match stepping (`nextPos`): those are compared with the model only.
//
// HYPOTHESES of the C04 theorems about these loops, checked on the recorded tables: FindOK of the findIndicesAtWithState table (by
// the driver: `findok=`), and DirectOK for the engines that take the direct branch: dfa.SearchAt(a) = end of findat[a],
// SearchReverse(a, end) = start of findat[a].  Also: the model's `useDFADirect` == the guard recomputed from the engine's fields and
// the caches of its pooled SearchState; the exported FindIndicesAt == findIndicesAtWithState at every offset.
func c04MetaFindAllTie(r *Report) {
	t0 := time.Now()
	defer func() { r.Extra["wall_s:c04MetaFindAllTie"] = time.Since(t0).Seconds() }()
	budget, tries, nHay, nMB := 25, 0, 24, 6
	deadline := 11 * time.Second
	thorough := r.Tier == "thorough"
	if thorough {
		budget, tries, nHay, nMB = 100, 12000, 36, 10
		deadline = 44 * time.Second
	}
	root := NewRNG(r.Seed)

	// ---- candidates: probes (always used), the shapes of every strategy, then mutants; filed under the strategy they select ----
	type cand struct {
		p, base string
		k       meta.Strategy
		must    bool
	}
	var cands []cand
	for _, p := range faProbes() {
		cands = append(cands, cand{p, p, -1, true})
	}
	shapes := map[meta.Strategy][]string{}
	for i, k := range faKinds {
		shapes[k] = faShapes(k, root.Fork(0xFA11+uint64(i)), budget)
	}
	// round-robin over the strategies, so that a deadline cuts every family alike
	for j := 0; ; j++ {
		any := false
		for _, k := range faKinds {
			if j < len(shapes[k]) {
				cands = append(cands, cand{shapes[k][j], shapes[k][j], k, false})
				any = true
			}
		}
		if !any {
			break
		}
	}
	used := map[meta.Strategy]int{}
	seen := map[string]bool{}
	var pats []*faPat
	full := func() bool {
		for _, k := range faKinds {
			if used[k] < budget {
				return false
			}
		}
		return true
	}
	for i := 0; i < len(cands)+tries; i++ {
		if i >= len(cands) && full() {
			break
		}
		if time.Since(t0) > deadline/3 {
			r.Dist["c04meta:candidate-search-stopped-by-deadline"]++
			break
		}
		rng := root.Fork(0xFA77 + uint64(i))
		var c cand
		if i < len(cands) {
			c = cands[i]
		} else {
			k := faKinds[0]
			for _, k2 := range faKinds {
				if used[k2] < used[k] {
					k = k2
				}
			}
			base := shapes[k][rng.Intn(len(shapes[k]))]
			if len(base) > 200 {
				continue
			}
			c = cand{MutatePattern(rng, base), base, k, false}
		}
		if seen[c.p] {
			continue
		}
		seen[c.p] = true
		tc := time.Now()
		p, why, structural := newFAPat(c.p, c.base)
		if structural {
			r.Violate("the meta engine no longer has the fields the enumeration-loop model is parameterised by: "+why,
				map[string]any{"pattern": c.p, "correspondence": "Cx.MetaFindAll vs meta/findall.go"}, true)
			return
		}
		if p == nil {
			if why != "" {
				r.Dist["c04meta:skipped:"+why]++
			}
			continue
		}
		if i >= len(cands) && time.Since(tc) > 400*time.Millisecond {
			r.Dist["c04meta:skipped:mutant slow to compile"]++
			continue
		}
		if !c.must && used[p.k] >= budget {
			continue
		}
		if i < len(cands) && !c.must && p.k != c.k {
			r.Dist["c04meta:shape-goes-elsewhere:"+faStratNames[c.k]+"->"+p.ks]++
		}
		p.idx = len(pats)
		if !c.must { // the probes come on top of the budgets
			used[p.k]++
		}
		pats = append(pats, p)
		r.Dist["c04meta:patterns:"+p.ks]++
		if i >= len(cands) {
			r.Dist["c04meta:patterns:"+p.ks+":mutants"]++
		}
		for _, f := range p.vs[0].features(p) {
			r.Dist["c04meta:feature:"+f]++
			r.Dist["c04meta:feature:"+p.ks+":"+f]++
		}
	}
	for _, k := range faKinds {
		if used[k] == 0 {
			r.Dist["c04meta:strategy-without-patterns:"+faStratNames[k]]++
		}
	}

	// ---- per pattern: the longest variant, haystacks, oracle tables, the real answers (parallel; engines are not shared) ----
	var wg sync.WaitGroup
	ch := make(chan *faPat)
	for w := 0; w < 8; w++ {
		wg.Add(1)
		go func() {
			defer wg.Done()
			for p := range ch {
				if time.Since(t0) > deadline*2/3 {
					p.skipped = "deadline"
					continue
				}
				p.evaluate(root.Fork(0xFA99+uint64(p.idx)), nHay, nMB, thorough)
			}
		}()
	}
	for _, p := range pats {
		ch <- p
	}
	close(ch)
	wg.Wait()

	var cases []*faCase
	for _, p := range pats {
		if p.structural != "" {
			r.Violate("the meta engine no longer has the fields the enumeration-loop model is parameterised by: "+p.structural,
				map[string]any{"pattern": p.p, "correspondence": "Cx.MetaFindAll vs meta/findall.go"}, true)
			return
		}
		if p.skipped != "" {
			r.Dist["c04meta:pattern-skipped:"+p.skipped]++
		}
		for k, n := range p.dist {
			r.Dist["c04meta:"+k] += n
		}
		for _, v := range p.violations {
			r.Violate(v.What, v.Replay, v.NoFail)
		}
		cases = append(cases, p.cases...)
	}

	// ---- the model ---------------------------------------------------------------------------------------------------------
	reqs := make([]string, 0, 3*len(cases))
	for _, c := range cases {
		reqs = append(reqs, c.reqBoth, c.reqSub, c.reqSubAt)
	}
	tl := time.Now()
	ans, err := RunLean(reqs)
	r.Extra["wall_s:c04MetaFindAllTie:lean"] = time.Since(tl).Seconds()
	if err != nil || len(ans) != len(reqs) {
		r.Violate(fmt.Sprintf("Lean driver failed on the enumeration-loop tie: %v", err), map[string]any{"correspondence": "Cx.MetaFindAll"}, true)
		return
	}
	r.Dist["c04meta:model requests"] += len(reqs)
	reported := map[string]bool{}
	nViol := 0
	once := func(key string) bool {
		if reported[key] || nViol >= 60 {
			return false
		}
		reported[key] = true
		nViol++
		return true
	}
	tLongest := r.Tie("meta.Engine.FindAllIndicesStreaming / Count / FindAllSubmatch after SetLongest(true) == regexp with Longest() (all strategies; ASCII haystacks)")
	tFindOK := r.Tie("hypothesis FindOK of the meta-engine enumeration theorems holds for the real findIndicesAtWithState table")
	tDirOK := r.Tie("hypothesis DirectOK: dfa.SearchAt / reverseDFA.SearchReverse == end / start of findIndicesAtWithState (engines that take the direct DFA branch)")
	tGuard := r.Tie("Cx.MetaFindAll.useDFADirect == the guard recomputed from the engine's fields and its pooled SearchState")
	tSame := r.Tie("meta.Engine.FindIndicesAt == findIndicesAtWithState at every offset")
	for i, c := range cases {
		t, p := c.t, c.t.pat
		ks := p.ks
		tAll := r.Tie(fmt.Sprintf("Cx.MetaFindAll.findAllIndicesStreaming == meta.Engine.FindAllIndicesStreaming (%s)", ks))
		tCnt := r.Tie(fmt.Sprintf("Cx.MetaFindAll.count == meta.Engine.Count (%s)", ks))
		tSub := r.Tie(fmt.Sprintf("Cx.MetaFindAll.findAllSubmatch == spans of meta.Engine.FindAllSubmatch (%s)", ks))
		tSubAt := r.Tie(fmt.Sprintf("Cx.MetaFindAll.findSubmatchAtWithState == span of meta.Engine.FindSubmatchAt at every offset (%s)", ks))
		tStd := r.Tie(fmt.Sprintf("meta.Engine.FindAllIndicesStreaming / Count / FindAllSubmatch == regexp.FindAllIndex / FindAllSubmatchIndex (%s; ASCII haystacks)", ks))
		r.Dist["c04meta:cases:"+ks+"/"+t.variant]++
		switch {
		case c.ascii:
			r.Dist["c04meta:haystacks:ASCII"]++
		case utf8.Valid(c.h):
			r.Dist["c04meta:haystacks:valid UTF-8 with multi-byte runes"]++
		default:
			r.Dist["c04meta:haystacks:ill-formed UTF-8"]++
		}
		r.Case("metafindall\x00"+ks+"\x00"+t.variant+"\x00"+p.p+"\x00"+string(c.h), c.nMatches >= 2 || c.hasEmpty)
		if c.nMatches >= 2 {
			r.Dist["c04meta:cases with >= 2 matches"]++
		}
		if c.hasEmpty {
			r.Dist["c04meta:cases with an empty match"]++
		}
		replay := func(extra map[string]any) map[string]any {
			m := map[string]any{"pattern": p.p, "haystack_hex": hexOf(c.h), "strategy": p.k.String(), "variant": t.variant, "longest": t.longest, "flags": t.flags, "request": c.reqBoth}
			for k, v := range extra {
				m[k] = v
			}
			return m
		}
		tag := fmt.Sprintf("%s [%s]", p.k, t.variant)
		aBoth := strings.Split(ans[3*i], " | ")
		aSub := strings.Split(ans[3*i+1], " | ")
		aSubAt := strings.Split(ans[3*i+2], ";")
		if len(aBoth) != len(faNs) || len(aSub) != len(faNs) || len(aSubAt) != len(c.h)+1 || faField(aBoth[0], "all") == "" {
			tAll.Cases++
			tAll.Disagreements++
			r.Violate(fmt.Sprintf("Cx.MetaFindAll model: malformed answer %.80q / %.80q / %.80q", ans[3*i], ans[3*i+1], ans[3*i+2]),
				replay(map[string]any{"correspondence": "Cx.MetaFindAll", "request_sub": c.reqSub}), true)
			continue
		}
		// hypotheses on the recorded tables
		tFindOK.Cases++
		if faField(aBoth[0], "findok") != "1" {
			if c.ascii {
				tFindOK.Disagreements++
				if once("findok\x00" + ks + p.p) {
					r.Violate(fmt.Sprintf("%s: the findIndicesAtWithState table of %q on %q violates FindOK (hypothesis of the C04 enumeration theorems): %s", tag, clip(p.p, 90), c.h, strings.Join(c.findat, ",")),
						replay(map[string]any{"findat": strings.Join(c.findat, ","), "hypothesis": "Cx.FindOK of the real single-search table"}), false)
				}
			} else {
				// the recorded UTF-8 behaviour of the engines (open findings of C01-C03: a search can start inside an encoded rune)
				tFindOK.Skipped++
				r.Dist["c04meta:FindOK fails on a non-ASCII haystack (UTF-8 findings of C01-C03)"]++
			}
		}
		if t.direct {
			tDirOK.Cases++
			if c.directViol != "" {
				tDirOK.Disagreements++
				if once("directok\x00" + ks + p.p) {
					r.Violate(fmt.Sprintf("%s: the DFA pair of %q on %q does not answer like findIndicesAtWithState (hypothesis DirectOK of the direct-branch theorems): %s", tag, clip(p.p, 90), c.h, c.directViol),
						replay(map[string]any{"detail": c.directViol, "findat": strings.Join(c.findat, ","), "hypothesis": "DirectOK"}), !c.ascii)
				}
			}
		}
		tGuard.Cases++
		if (faField(aBoth[0], "direct") == "1") != t.direct {
			tGuard.Disagreements++
			if once("guard\x00" + ks + t.variant) {
				r.Violate(fmt.Sprintf("%s: useDFADirect: the Lean model says %s, the engine's fields and pooled state give %v (pattern %q, flags %s)", tag, faField(aBoth[0], "direct"), t.direct, clip(p.p, 90), t.flags),
					replay(map[string]any{"correspondence": "Cx.MetaFindAll.useDFADirect vs meta/findall.go, meta/search_state.go"}), true)
			}
		}
		tSame.Cases++
		if c.atDiff != "" {
			tSame.Disagreements++
			if once("same\x00" + ks + p.p) {
				r.Violate(fmt.Sprintf("%s: FindIndicesAt and findIndicesAtWithState differ for %q on %q: %s", tag, clip(p.p, 90), c.h, c.atDiff),
					replay(map[string]any{"detail": c.atDiff, "api": "FindIndicesAt"}), false)
			}
		}
		for j, n := range faNs {
			mAll, mCount, mSub := faField(aBoth[j], "all"), faField(aBoth[j], "count"), aSub[j]
			// real vs regexp (ASCII haystacks)
			stdOK := true
			if c.ascii {
				std := func(api, real, want string) {
					tStd.Cases++
					if t.longest {
						tLongest.Cases++
					}
					if real == want {
						return
					}
					stdOK = false
					tStd.Disagreements++
					if t.longest {
						tLongest.Disagreements++
					}
					if once("std\x00" + ks + t.variant + p.p) {
						r.Violate(fmt.Sprintf("%s: %s(n=%d) of %q on %q: coregex=%s regexp=%s", tag, api, n, clip(p.p, 90), c.h, real, want),
							replay(map[string]any{"api": api, "n": n, "coregex": real, "regexp": want}), false)
					}
				}
				std("FindAllIndicesStreaming", c.realAll[j], c.wantAll[j])
				std("Count", c.realCount[j], c.wantCount[j])
				std("FindAllSubmatch", c.realSub[j], c.wantSub[j])
			} else {
				tStd.Skipped += 3
			}
			model := func(tie *TieStat, api, fn, m, real string) {
				tie.Cases++
				if m == real {
					return
				}
				tie.Disagreements++
				if once("model\x00" + api + ks + t.variant + p.p) {
					r.Violate(fmt.Sprintf("%s: %s(n=%d): the code and the Lean model differ on %q, haystack %q: code=%s model=%s", tag, api, n, clip(p.p, 90), c.h, real, m),
						replay(map[string]any{"api": api, "n": n, "code": real, "model": m, "request_sub": c.reqSub, "correspondence": "Cx.MetaFindAll." + fn + " vs meta/findall.go"}), stdOK)
				}
			}
			model(tAll, "FindAllIndicesStreaming", "findAllIndicesStreaming", mAll, c.realAll[j])
			model(tCnt, "Count", "count", mCount, c.realCount[j])
			model(tSub, "FindAllSubmatch", "findAllSubmatch", mSub, c.realSub[j])
		}
		for a := range c.subAtReal {
			tSubAt.Cases++
			if aSubAt[a] != c.subAtReal[a] {
				tSubAt.Disagreements++
				if once("subat\x00" + ks + t.variant + p.p) {
					r.Violate(fmt.Sprintf("%s: FindSubmatchAt at=%d: the code and the Lean model differ on %q, haystack %q: code=%s model=%s", tag, a, clip(p.p, 90), c.h, c.subAtReal[a], aSubAt[a]),
						replay(map[string]any{"api": "FindSubmatchAt", "at": a, "code": c.subAtReal[a], "model": aSubAt[a], "request_subat": c.reqSubAt,
							"correspondence": "Cx.MetaFindAll.findSubmatchAtWithState vs meta/findall.go"}), true)
				}
			}
		}
	}
	smp := map[string]any{"enumeration_loop_tie": "shapes of every strategy (+ mutants in the thorough tier) filed under the strategy they select; variants default / longest; n in {-1,0,1,2,3}"}
	for _, k := range []meta.Strategy{meta.UseDFA, meta.UseNFA, meta.UseCharClassSearcher, meta.UseAhoCorasick} {
		if s := shapes[k]; len(s) >= 3 {
			smp[faStratNames[k]] = []string{clip(s[0], 60), clip(s[1], 60), clip(s[2], 60)}
		}
	}
	r.Sample(smp)
}

func clip(s string, n int) string {
	if len(s) > n {
		return s[:n] + "…"
	}
	return s
}

//go:linkname faFindIndicesAtWithState github.com/coregx/coregex/meta.(*Engine).findIndicesAtWithState
func faFindIndicesAtWithState(e *meta.Engine, haystack []byte, at int, state *meta.SearchState) (start, end int, found bool)

//go:linkname faGetSearchState github.com/coregx/coregex/meta.(*Engine).getSearchState
func faGetSearchState(e *meta.Engine) *meta.SearchState

//go:linkname faPutSearchState github.com/coregx/coregex/meta.(*Engine).putSearchState
func faPutSearchState(e *meta.Engine, s *meta.SearchState)

var faNs = []int{-1, 0, 1, 2, 3}

// every strategy meta.Compile produces (UseOnePass is declared but never selected: the one-pass DFA is a field of the others)
var faKinds = []meta.Strategy{meta.UseNFA, meta.UseDFA, meta.UseBoth, meta.UseBoundedBacktracker, meta.UseCharClassSearcher, meta.UseCompositeSearcher,
	meta.UseBranchDispatch, meta.UseDigitPrefilter, meta.UseTeddy, meta.UseAhoCorasick, meta.UseAnchoredLiteral, meta.UseReverseAnchored,
	meta.UseReverseSuffix, meta.UseReverseSuffixSet, meta.UseReverseInner, meta.UseMultilineReverseSuffix}

// the names the driver parses (`flags`)
var faStratNames = map[meta.Strategy]string{
	meta.UseNFA: "nfa", meta.UseDFA: "dfa", meta.UseBoth: "both", meta.UseReverseAnchored: "reverseAnchored",
	meta.UseReverseSuffix: "reverseSuffix", meta.UseOnePass: "onePass", meta.UseReverseInner: "reverseInner",
	meta.UseBoundedBacktracker: "boundedBacktracker", meta.UseTeddy: "teddy", meta.UseReverseSuffixSet: "reverseSuffixSet",
	meta.UseCharClassSearcher: "charClassSearcher", meta.UseCompositeSearcher: "compositeSearcher",
	meta.UseBranchDispatch: "branchDispatch", meta.UseDigitPrefilter: "digitPrefilter", meta.UseAhoCorasick: "ahoCorasick",
	meta.UseAnchoredLiteral: "anchoredLiteral", meta.UseMultilineReverseSuffix: "multilineReverseSuffix",
}

// faProbes: always used, whatever they select — the look-behind and nested-literal probes of C04 (a match that begins with an
// assertion, resumed right behind the previous match; a literal inside another one), empty matches next to non-empty ones
func faProbes() []string {
	return append(append([]string{}, lookbehindProbes...), `a*`, `\b`, `(?m)^`, `a|ab`, `\w+`, `^a*`, `x*|xy`, `(?i)a*b?`, `(a*)(b*)`, `é*`)
}

// faShapes: the candidate list of one strategy (from the generator of tools/fidelity/metafindall: faOwnPatterns and the borrowed
// generators), the ones with the most to enumerate first; budget = patterns wanted (some candidates go elsewhere)
func faShapes(k meta.Strategy, rng *RNG, budget int) []string {
	switch k {
	case meta.UseNFA:
		// nullable patterns and assertions
		return []string{`a*?`, `(?:ab)*`, `a?`, `a??`, `x*y*`, `(?:)`, `|a`, `a|`, `a*|b`, `(?:a*)*`, `.*`, `.*?`, `(?s).*`, `a{0,2}`, `(?:a|)+`, `\B`, `(?m)$`,
			`(?m)^$`, `\ba*`, `(?i)a*`, `(?i)[a-c]*x?`, `(?m)^a`, `(?m)^a*`, `(?m)^\w+`, `(?m)^foo$`, `(?m)\w+\.txt$`, `(?i)\bfoo\b`, `a*|ab`, `\bfoo\b`, `\b\w+\b`,
			`\ba`, `a\b`, `a*b*`, `(?:|a)*`, `(?:a|)*`, `x?y?`, `[a-c]*x?`, `a??b?`, `(?:a|b)*?c?`, `(?:é|a)*x?`, `\ba+`, `\bab|cd\b`, `(?m)^ab+`, `\b(?:foo|bar)\b`}
	case meta.UseDFA:
		// the direct forward / reverse DFA branch; leftmost-first != leftmost-longest first (the `!e.longest` guard)
		return []string{`a|ab`, `[ab]|[ab][ab]`, `ab|a`, `a|ab|abc`, `abc|ab|a`, `(?:a|ab)(?:c|bcd)`, `(?:a|ab)+`, `mon|month`, `foo|foobar`, `foobar|foo`,
			`[a-c]|[a-c]{2}`, `(?:ab|abc|abcd)x?`, `(a)(b)`, `(a+)(b*)`, `(\w+)@(\w+)`, `(foo|bar)(\d+)`, `(?:(a)|(b))+`, `(a*)b`, `(ab)+`, `((a)|(b))c`,
			`(?i)(abc)(\d)`, `(abc|abd)(x)`, `(a)|b`, `(é+)(a*)`, `abc`, `a`, `ab+c`, `a[bc]+d`, `abc\d+`, `a.c`, `a\wc`, `é`, `é+`, `日本`, `a.b`, `(?s)a.b`, `ab\d+`,
			`^ab|^cd`, `^a|^b`, `a.*b.*c`, `foo.*bar.*baz`, `(?i)a+b`, `(?i)ab*c`, `(?i)(?:foo|bar)\d`, `ab\w*`, `abx?`, `a+b+c+`, `a.*?b`, `ab+?`, `a|bc`, `ab\w{8}`}
	case meta.UseBoth:
		return []string{`.`, `(?s).`, `..`, `.\b`, `(.)+`, `(.)(\d)`, `([a-c]|.)+`, `(\w|.)x`, `(a|ab)(c|bcd)(d*)`, `(a.*)(b.*)c`, `\d+(?:st|nd|rd|th)`,
			`[0-9]+(?:st|nd|rd|th)`, `\d{2}(?:st|nd|rd|th)`, `(\d+)(?:st|nd|rd|th)`, `\d+?(?:st|nd|rd|th)`, `\d+(?:px|em|pt)`, `\w{6}$|\w{5}`, `\w{8}\b|\w{7}`,
			`\w{4}a\w{4}`, `(?:ab|cd)\w{8}`, `\b\w{9}`, `(?m).*z$`, `(?i)hello world`, `(?i)select|insert|update`, `(?i)abcdefghij\d`, `(?i)hello|world wide web stuff`,
			`(?:.*a|b+)z`, `(?:.*a|b+)xy`, `(?:a|.+b)z`, `(?:a|.+b)xy`, `(?i)abcabcabcabcabcabc`, `(?i)needle in a haystack`, `(?i)(?:abc|abd|abe|abf|abg|abh)xyz`,
			`(?i)\bfoo bar baz qux\b`, `a\w{8}|b\w{8}`, `[a-c]x\w{9}`, `(?m)^\w{9}`, `\d{1,3}(?:st|nd|rd|th)`, `[0-5]+(?:st|nd|rd|th)`}
	case meta.UseBoundedBacktracker:
		// nullable classes, start-anchored (always anchored) patterns, captures over classes
		return []string{`(?:a|b)*`, `[a-c]*`, `\w*`, `\d*`, `[^a]*`, `\s*`, `^`, `^$`, `(?:é|a)*`, `[é日]*`, `[^é]*`, `[^a]+`, `^a`, `^a+b`, `^abc`, `^(a|b)+`, `^\d+`,
			`^\w+`, `^.*`, `^.*b`, `^a?b?`, `\Aab`, `^(a)(b)?`, `^(?:ab|a)c`, `^[a-c]+\d`, `(a|b)(c|d)`, `a|b`, `(a|b)*`, `(?i)^abc`, `(?i)^(foo|bar)`, `^(\w+)\s(\w+)`,
			`^(\d+)-(\d+)`, `^(a+)(b+)`, `^(\w+)=(\w*)$`, `[é-ü]+`, `\pL+`, `[^\x00-\x7f]+`, `(?:\w\d){5}`, `^ab`, `\S+`, `\W+`, `\D+`, `([a-c])+`, `[a-c]+?`, `\w{2,}`,
			`(a|b|c)+`, `([a-c]+)(\d+)`, `^(?:foo|bar|baz)\d`, `^foo`, `^abc$`, `^(GET|POST|PUT)`, `^(?:ab|cd)+`, `[a-c]*?\d`}
	case meta.UseCharClassSearcher:
		// the streaming branch of FindAllIndicesStreaming
		return []string{`\d+`, `[a-z]+`, `[a-c]+`, `\s+`, `[a-zA-Z0-9_]+`, `(?i)[a-c]+`, `(?:a|b)+`, `[0-9]+`, `[0-5]+`, `[A-Z]+`, `[a-f0-9]+`, `[x-z]+`, `[a-z0-9]+`,
			`[ -~]+`, `[aeiou]+`, `[ab]+`, `[[:alpha:]]+`, `[[:punct:]]+`, `[.,;]+`, `(?:[a-c])+`, `[\x00-\x7f]+`, `[_a-z]+`, `[0-9a-fA-F]+`, `(?:x|y|z)+`, `[\t ]+`,
			`[a-m]+`, `[n-z]+`, `[1-9]+`, `[+-]+`, `[#@]+`, `[a-c1-3]+`, `[ \n]+`, `[a-cx-z]+`, `[b-y]+`}
	case meta.UseCompositeSearcher:
		return []string{`\d+[a-z]+`, `[a-z]+\d+`, `[a-c]+[x-z]+\d+`, `\w+\s+`, `[a-c]+\d*`, `[a-c]{3}[x-z]{4}\d`, `\w{3}\d{3}\w`, `(?:a|b)\d`, `[a-c]+[x-z]*\d?`, `[a-c]\w{7}`,
			`[ab]{4}\d{4}`, `(?:a|b)\w{8}`, `\d\w{8}`, `\w+\s+\w+`, `\d[a-z]+`, `\d\s\w+`, `\d[a-c]`, `\d[a-c]+\d`, `\d[a-c]?\d`, `\d[a-c]{2}`, `\d[x-z]+[a-c]`, `\d[.,]\d`,
			`[0-9][a-z]+`, `[0-9]+[a-c]?\d`, `\d+\s\w+`, `\d+[a-c]`, `[a-c][a-c]*`, `\s+\w+`, `[a-c]+[x-z]+`, `[a-c]+\s*\d+`, `[a-z]+[0-9]*[a-z]`, `\w+\d`, `[a-c]*\d+`, `\d+[a-c]+\d`}
	case meta.UseBranchDispatch:
		return []string{`^(\d+|ab|c)`, `^(foo|bar|baz)`, `^(foo|bar)`, `^(?:a+|b+)`, `^(x|yz|\d)`, `^(ab|cd|ef)`, `^(?:ab|cd)`, `^(?:\d+|[a-z]+)`, `^(a\d|b\w+|c)`, `^(?:foo\d*|bar)`,
			`\A(?:ab|cd)`, `^((a)|(b)c)`, `^(?:[a-c]+|[x-z]+)`, `^(?:日本|ab)`, `^(?:1|22|333)`, `^(?:-\d+|\+\d+)`, `^(?:ab?|c)`, `^(?:a{2}|b{3})`, `^(?:abc|de|f)`, `^(?:\s+|\w+)`,
			`^(?:http|ftp|mailto)`, `^(?:he|she|it)`, `^(?:a(?:b|c)|d)`, `^(?:[0-4]x|[5-9]y)`, `^(\d\d|[a-f]+)`, `^(?:a*b|c)`, `^(?:x\d*|y\d*)`, `^(?:ab|b|c)`, `^(a+|b)(c)?`,
			`^(?:[ab]c|d)`, `^(?:a|bc|de)`, `^(?:\d|[a-c]x)`}
	case meta.UseDigitPrefilter:
		return []string{`\d|\d\d`, `(\d+)\.(\d+)`, `(\d\d)-(\d\d)`, `\d+\.\d+`, `\d{2}:\d{2}`, `1\d*`, `\d+\b`, `(\d)+x?`, `\d+\.\d+\.\d+`, `\d\.\d+`, `\d[a-z]*X`, `\d[a-z0-9]*X`,
			`\d-\d{4}`, `\d\b`, `\d:\d\d`, `\dx?y`, `\d.`, `\d(?:\.\d+)?`, `\d%`, `\d,\d{3}`, `\d\w*z`, `\d +[a-z]`, `\d\b\w`, `\d\.\d*`, `\d(?:x|yz)`, `\d\s*,`, `\d(?s:.)x`, `\da+b+`,
			`[0-9]\.\d+`, `[0-9]x?y`, `[0-9][a-z]*X`, `[0-9]\b`, `[0-9].`, `[0-9]%`, `\d+[eE][+-]?\d+`, `0x[0-9a-f]+`}
	case meta.UseTeddy:
		return []string{`(?i)abc`, `(?i)foo|bar`, `(?i)a[bc]d`, `(foo)|(bar)|(baz)`, `foo|bar|baz`, `foo|bar|baz|qux|quux|corge|grault|garply|waldo`, `ab(?:c|d)`, `abc(?:c|d)`,
			`(?:ab|cd)\d`, `x(?:ab|cd)`, `abc|abd`, `(?:abc|abd)\d`, `foo|bar`, `(?:foo|bar)\d`, `abc|xyz|bca`, `abc|bcd|cda`, `aaa|aab|abb`, `(?:abcd|bc)\d`, `x(?:abcd|bc)`,
			`(?m)^foo|^bar`, `(?m)^(?:foo|bar)`, `(?:abc|bcd|cde|def|efg)x`, `(?:foo|bar)(?:baz|qux)`, `(?:abca|bcab|cabc)`, `abc|abd\d`, `a[bc]d`, `[ab]cd`, `ab[cd]ef`,
			`abc|abcd|abcde`, `abcde|abcd|abc`, `abcd|bcd`, `bcd|abcd`, `aaaa|aaa`, `aaa|aaaa`, `25[0-5]|2[0-4][0-9]`, `[a-d][a-c][x-z]`, `\d(?:st|nd|rd|th)`, `abab|baba`, `xyz|abcxyz`}
	case meta.UseAhoCorasick:
		// literal sets beyond Teddy: nested literals in both orders (the automaton reports the occurrence that ends first), class
		// products, generated word sets over small alphabets (many matches in a short haystack)
		ps := []string{"rdqs1b|dqs|" + manyLiterals(70), "dqs|rdqs1b|" + manyLiterals(70), manyLiterals(70) + "|xbcd|xbc", manyLiterals(40) + "|abcab|bca|ab|b", manyLiterals(70),
			`(\d)(\d)%`, `(\d)(\d)(?:a|b)c`, `(\d)(\d)(?:x|yz)`, `[a-j][a-j]x`, `[0-9][a-f]z`, `(?i)[a-d][a-d]k`}
		// (port of ahoCandidates: 65+ words over 12..36 letters — smaller alphabets do not leave 65 literals after the extractor's
		// reduction —, with infixes, suffixes, prefixes and extensions of words of the set planted before or after them)
		alphas := []string{"abcdefghijkl", "abcdefghijklmnop", "abcdefghijklmnopqrst", "rdqs1bxyzwvu", "abcdefghijklmnopqrstuvwxyz", "abcdefghijklmnopqrstuvwxyz0123456789"}
		for i := 0; i < 2*budget+8; i++ {
			al := alphas[i%len(alphas)]
			minLen, maxLen := 2, 5
			switch {
			case i%7 == 0:
				minLen, maxLen = 1, 4
			case i%3 == 0:
				minLen, maxLen = 3, 5
			}
			ws := m2WordPool(rng, al, 66+rng.Intn(40), minLen, maxLen, i%5 == 4)
			if len(ws) < 65 {
				continue
			}
			seen := map[string]bool{}
			for _, w := range ws {
				seen[w] = true
			}
			for j := 0; j < 6 && i%5 != 4; j++ {
				w := ws[rng.Intn(len(ws))]
				var v string
				switch rng.Intn(4) {
				case 0:
					if len(w) >= 3 {
						v = w[1 : len(w)-1]
					}
				case 1:
					v = w[1:]
				case 2:
					v = w[:len(w)-1]
				default:
					v = w + string(al[rng.Intn(len(al))]) + string(al[rng.Intn(len(al))])
				}
				if v != "" && !seen[v] {
					seen[v] = true
					if rng.Bool() {
						ws = append(ws, v)
					} else {
						ws = append([]string{v}, ws...)
					}
				}
			}
			ps = append(ps, strings.Join(ws, "|"))
		}
		return ps
	case meta.UseAnchoredLiteral:
		// always anchored: at most one match
		return []string{`^foo.*bar$`, `^a.*z$`, `^a.*b$`, `^(?:a.*b)$`, `\Aa.*b\z`, `^.*b$`, `^(?:.*b)$`, `\A.*b\z`, `^ab.*c$`, `\Aab.*c\z`, `^.*?b$`, `^/.*\.php$`, `^(?:/.*\.php)$`,
			`^/.*[\w-]+\.php$`, `^a.*bc$`, `\Aa.*bc\z`, `^.*abc$`, `\A.*abc\z`, `^.*\.txt$`, `\A.*\.txt\z`, `^x.*yz$`, `^.+ab$`, `^(?:.+ab)$`, `\A.+ab\z`, `^(?:ab.*c)$`, `^(?:.*?b)$`,
			`\A.*?b\z`, `^(?:a.*bc)$`, `^(?:.*abc)$`, `^(?:x.*yz)$`, `^a.+b$`, `^ab.+cd$`}
	case meta.UseReverseAnchored:
		return []string{`$`, `\z`, `a*$`, `a$`, `ab$`, `\w+$`, `a+$`, `ab\z`, `(?:foo|bar)$`, `\d$`, `\d+$`, `\d{2}$`, `\d{1,3}$`, `[0-5]+$`, `[1-9]\d*$`, `(\d+)$`, `(?:\d\d)+$`, `\d*\d$`,
			`(?:1|2)$`, `(?:12|3)$`, `(?:\d|\d\d)$`, `\d+?$`, `1?2$`, `(\d)(\d)$`, `abc$`, `(abc)$`, `abc\z`, `[13579]$`, `\d\d?$`, `\w{9}$`, `a?$`, `[a-c]*$`, `(a|b)*$`}
	case meta.UseReverseSuffix:
		return []string{`.*z`, `.*\.txt`, `\w+\.com`, `[a-z]+xy`, `(.*)z`, `(\w+)\.txt`, `(?:[a-c]{2}\d){2}x`, `[\p{Greek}a-c]+x`, `\d+[a-z]*X`, `\d+[a-z0-9]*X`, `\d+x?y`, `\d+%`,
			`\d+\w*z`, `\d+(?:a|b)c`, `\d+\s*,`, `\d+(?s:.)x`, `[0-9]+[a-z]*X`, `[0-9]+x?y`, `[0-9]+%`, `\d{2}[a-z]*X`, `\d{2}x?y`, `\d{2}%`, `\d{2}\w*z`, `\d{2}\s*,`, `\d{1,3}[a-z]*X`,
			`\d{1,3}x?y`, `\d{1,3}%`, `\d{1,3}\w*z`, `\d{1,3}\s*,`, `[a-c]+z`, `\w+xy`, `.+z`, `[a-z]*\.t`}
	case meta.UseReverseSuffixSet:
		return []string{`(?i)[a-z]+\.txt`, `(?i)[a-z]+\.com`, `.*\.(?:txt|log|md)`, `.*(?:foo|bar)`, `.*(?:\.txt|\.csv)`, `.*(?:aab|aba)`, `.*\.(txt|log)`, `.*(foo|bar|baz)`,
			`.*(?:abc|xbd)`, `.*_(?:one|two)`, `.*(?:\.go|\.rs|\.py)`, `.+\.(?:txt|log|md)`, `.+(?:foo|bar)`, `.+(?:aab|aba)`, `.+(foo|bar|baz)`, `.+(?:abc|xbd)`,
			`[a-z]+\.(?:txt|log|md)`, `[a-z]+(?:foo|bar)`, `[a-z]+(?:aab|aba)`, `[a-z]+(foo|bar|baz)`, `[a-z]+_(?:one|two)`, `\w+\.(?:txt|log|md)`, `\w+(?:foo|bar)`,
			`\w+(?:aab|aba)`, `\w+(foo|bar|baz)`, `\w+(?:abc|xbd)`, `.*?\.(?:txt|log|md)`, `.*?(?:foo|bar)`, `.*?(?:aab|aba)`, `.*?(foo|bar|baz)`, `[a-c]+(?:aab|aba)`, `.+(?:\.go|\.rs|\.py)`}
	case meta.UseReverseInner:
		return []string{`\w+@\w+\.\w+`, `[a-c]+@[a-c]+`, `.*zz*`, `.*@.*`, `.*@.+`, `.*@[a-z]+`, `.*@\d+`, `.*@\w*`, `.*@[0-9]*x?`, `.*@.*?`, `.*@(?s:.*)`, `.*@[a-z]*`, `.*@.+?`,
			`.*@\d*[a-z]*`, `.*@[ab]*`, `.*@.*\d`, `.*@(.*)`, `.*@[^\n]*`, `.*@a*`, `.*@(?:a|b)*`, `.*@.{0,2}`, `.*@[a-z]+?`, `.*foo.*`, `.*foo.+`, `.*foo[a-z]+`, `.*foo\d+`, `.*foo\w*`,
			`.*foo.*?`, `.*ab.*`, `.*ab.+`, `.*ab[a-z]*`, `[a-c]+ab[a-c]+`, `\w+-\w+`}
	case meta.UseMultilineReverseSuffix:
		return []string{`(?m)^.*\.php`, `(?m)^.*z`, `(?m)^.*xy`, `(?m)^.*\.t`, `(?m)^.*!`, `(?m)^.*zz`, `(?m)^.*end`, `(?m)^.+\.php`, `(?m)^.+z`, `(?m)^.+xy`, `(?m)^.+!`, `(?m)^.+zz`,
			`(?m)^.+end`, `(?m)^.*?\.php`, `(?m)^.*?z`, `(?m)^.*?xy`, `(?m)^.*?!`, `(?m)^.*?zz`, `(?m)^.*?end`, `(?m)^.*[\w-]+\.php`, `(?m)^.*[\w-]+z`, `(?m)^.*[\w-]+xy`,
			`(?m)^.*[\w-]+!`, `(?m)^.*a.*z`, `(?m)^.*a.*xy`, `(?m)^.*a.*!`, `(?m)^.+?z`, `(?m)^.+?xy`, `(?m)^.+?!`, `(?m)^.*(?:\.php)`, `(?m)^.*ab`, `(?m)^.*\d`}
	}
	return nil
}

// the fields of meta.Engine / meta.SearchState the tie reads (a missing or retyped one is a structural change the model does not follow)
var faEngineFields = map[string]reflect.Type{"longest": reflect.TypeOf(false), "isStartAnchored": reflect.TypeOf(false), "strategy": reflect.TypeOf(meta.UseNFA),
	"dfa": reflect.TypeOf((*lazy.DFA)(nil)), "reverseDFA": reflect.TypeOf((*lazy.DFA)(nil)), "charClassSearcher": reflect.TypeOf((*nfa.CharClassSearcher)(nil)),
	"onepass": reflect.TypeOf((*onepass.DFA)(nil)), "nfa": nfaPtrType}

var faStateFields = map[string]reflect.Type{"dfaCache": reflect.TypeOf((*lazy.DFACache)(nil)), "revDFACache": reflect.TypeOf((*lazy.DFACache)(nil)),
	"pikevm": reflect.TypeOf((*nfa.PikeVM)(nil)), "onepassCache": reflect.TypeOf((*onepass.Cache)(nil))}

func faCheckFields(v reflect.Value, want map[string]reflect.Type, owner string) string {
	names := make([]string, 0, len(want))
	for n := range want {
		names = append(names, n)
	}
	sort.Strings(names)
	for _, n := range names {
		if f := v.FieldByName(n); !f.IsValid() || f.Type() != want[n] {
			return owner + "." + n + " " + want[n].String()
		}
	}
	return ""
}

func faPtr(v reflect.Value, name string) unsafe.Pointer {
	f := v.FieldByName(name)
	if !f.IsValid() || f.IsNil() {
		return nil
	}
	return unsafe.Pointer(f.Pointer())
}

// faPat: one pattern; vs = its engines (default, longest), evaluated on the same haystacks
type faPat struct {
	idx        int
	k          meta.Strategy
	ks         string
	p, base    string
	ast        *syntax.Regexp
	std        *regexp.Regexp
	vs         []*faTarget
	cases      []*faCase
	dist       map[string]int
	violations []Violation
	structural string
	skipped    string
}

// faTarget: one compiled engine of a pattern in one variant, with everything findall.go reads
type faTarget struct {
	pat      *faPat
	variant  string // default | longest
	eng      *meta.Engine
	re       *regexp.Regexp // the mode's regexp (leftmost-first, or Longest())
	flags    string
	longest  bool
	dfa      *lazy.DFA
	rdfa     *lazy.DFA
	ccs      *nfa.CharClassSearcher
	op       *onepass.DFA
	ncap     int
	anchored bool
	direct   bool // the engine's useDFADirect, recomputed here from its fields and the caches of its pooled state
}

type faCase struct {
	t                           *faTarget
	h                           []byte
	ascii                       bool
	reqBoth, reqSub, reqSubAt   string
	findat                      []string
	realAll, realCount, realSub []string // per n of faNs
	wantAll, wantCount, wantSub []string // regexp (ASCII haystacks)
	subAtReal                   []string
	atDiff, directViol          string
	nMatches                    int
	hasEmpty                    bool
}

func (t *faTarget) features(p *faPat) []string {
	var fs []string
	mark := func(c bool, s string) {
		if c {
			fs = append(fs, s)
		}
	}
	mark(t.direct, "useDFADirect")
	mark(t.anchored, "alwaysAnchored")
	mark(t.ccs != nil && p.k == meta.UseCharClassSearcher, "streaming (CharClassSearcher)")
	mark(t.op != nil, "onepass")
	mark(t.ncap > 1, "captures")
	mark(p.std.MatchString(""), "nullable")
	mark(strings.Contains(p.p, "(?i)"), "(?i)")
	mark(t.dfa != nil && t.rdfa != nil, "DFA pair present")
	mark(lookRe.MatchString(p.p), "assertion")
	return fs
}

var lookRe = regexp.MustCompile(`\\b|\\B|\(\?m\)|\^|\$|\\A|\\z`)

// newFAPat: the pattern must compile under regexp and coregex; ("", false) = silently not ours; (why, true) = the structs changed
func newFAPat(p, base string) (*faPat, string, bool) {
	std, err := regexp.Compile(p)
	if err != nil {
		return nil, "", false
	}
	ast, err := syntax.Parse(p, syntax.Perl)
	if err != nil {
		return nil, "", false
	}
	fp := &faPat{p: p, base: base, ast: ast, std: std, dist: map[string]int{}}
	t, why, structural := newFATarget(fp, "default")
	if t == nil {
		return nil, why, structural
	}
	fp.k = t.eng.Strategy()
	fp.ks = faStratNames[fp.k]
	if fp.ks == "" {
		return nil, "strategy " + fp.k.String() + " unknown to the model", true
	}
	t.flags = fp.ks + t.flags
	fp.vs = []*faTarget{t}
	return fp, "", false
}

func newFATarget(fp *faPat, variant string) (*faTarget, string, bool) {
	var eng *meta.Engine
	if res := guard(stratTimeout, func() string {
		var e error
		eng, e = meta.Compile(fp.p)
		if e != nil {
			return "ERR"
		}
		return ""
	}); res != "" || eng == nil {
		if res == "TIMEOUT" || strings.HasPrefix(res, "PANIC") {
			return nil, "meta.Compile " + strings.SplitN(res, ":", 2)[0], false
		}
		return nil, "", false
	}
	ev := reflect.ValueOf(eng).Elem()
	if why := faCheckFields(ev, faEngineFields, "meta.Engine"); why != "" {
		return nil, why, true
	}
	t := &faTarget{pat: fp, variant: variant, eng: eng, re: fp.std}
	if variant == "longest" {
		eng.SetLongest(true)
		t.re = regexp.MustCompile(fp.p)
		t.re.Longest()
	}
	t.longest = ev.FieldByName("longest").Bool()
	if t.longest != (variant == "longest") {
		return nil, "meta.Engine.longest does not follow SetLongest", true
	}
	t.dfa = (*lazy.DFA)(faPtr(ev, "dfa"))
	t.rdfa = (*lazy.DFA)(faPtr(ev, "reverseDFA"))
	t.ccs = (*nfa.CharClassSearcher)(faPtr(ev, "charClassSearcher"))
	t.op = (*onepass.DFA)(faPtr(ev, "onepass"))
	nf := (*nfa.NFA)(faPtr(ev, "nfa"))
	if nf == nil {
		return nil, "meta.Engine.nfa is nil", true
	}
	t.ncap = nf.CaptureCount()
	t.anchored = nf.IsAlwaysAnchored()
	t.flags = ":" + b01(t.longest) + b01(t.dfa != nil) + b01(t.rdfa != nil) + b01(t.anchored) + b01(ev.FieldByName("isStartAnchored").Bool()) +
		b01(t.ccs != nil) + b01(t.op != nil) + fmt.Sprintf(":%d", t.ncap)
	// the caches of the pooled state, as newSearchState allocates them
	st := faGetSearchState(eng)
	if st == nil {
		return nil, "getSearchState returned nil", true
	}
	sv := reflect.ValueOf(st).Elem()
	if why := faCheckFields(sv, faStateFields, "meta.SearchState"); why != "" {
		faPutSearchState(eng, st)
		return nil, why, true
	}
	k := eng.Strategy()
	t.direct = !t.longest && (k == meta.UseDFA || k == meta.UseBoth) && t.dfa != nil && t.rdfa != nil &&
		!sv.FieldByName("dfaCache").IsNil() && !sv.FieldByName("revDFACache").IsNil()
	faPutSearchState(eng, st)
	return t, "", false
}

func faSpans(ms [][2]int) string {
	if len(ms) == 0 {
		return "-"
	}
	ss := make([]string, len(ms))
	for i, m := range ms {
		ss[i] = fmt.Sprintf("%d.%d", m[0], m[1])
	}
	return strings.Join(ss, ",")
}

func faLocs(ms [][]int) string {
	if len(ms) == 0 {
		return "-"
	}
	ss := make([]string, len(ms))
	for i, m := range ms {
		ss[i] = fmt.Sprintf("%d.%d", m[0], m[1])
	}
	return strings.Join(ss, ",")
}

func faField(ans, key string) string {
	for _, f := range strings.Fields(ans) {
		if strings.HasPrefix(f, key+"=") {
			return f[len(key)+1:]
		}
	}
	return ""
}

// evaluate: the longest variant, haystacks, requests and real answers of one pattern
func (p *faPat) evaluate(rng *RNG, nHay, nMB int, thorough bool) {
	defer func() {
		if x := recover(); x != nil {
			p.violations = append(p.violations, Violation{What: fmt.Sprintf("%s: panic while enumerating %q: %v", p.k, p.p, x),
				Replay: map[string]any{"pattern": p.p, "strategy": p.k.String(), "panic": fmt.Sprint(x)}, NoFail: false})
		}
	}()
	tl, why, structural := newFATarget(p, "longest")
	if structural {
		p.structural = why
		return
	}
	if tl == nil {
		p.dist["variant-skipped:longest:"+why]++
	} else if tl.eng.Strategy() != p.k {
		p.dist["variant-skipped:longest:strategy not stable across compilations"]++
	} else {
		tl.flags = p.ks + tl.flags
		p.vs = append(p.vs, tl)
	}
	hays := faHaystacks(rng, p, nHay, nMB, thorough)
	for _, t := range p.vs {
		for _, h := range hays {
			c := t.run(h)
			p.cases = append(p.cases, c)
			p.dist["start offsets"] += len(h) + 1
		}
	}
}

// run: the tables of one haystack (port of tools/fidelity/metafindall (*faTarget).requests) and the real answers
func (t *faTarget) run(h []byte) *faCase {
	n := len(h)
	eng := t.eng
	c := &faCase{t: t, h: h, ascii: isASCIIBytes(h)}
	state := faGetSearchState(eng)
	findat := make([]string, n+1)
	spans := make([][2]int, n+1)
	found := make([]bool, n+1)
	for a := 0; a <= n; a++ {
		s, e, f := faFindIndicesAtWithState(eng, h, a, state)
		findat[a] = "x"
		if f {
			findat[a] = fmt.Sprintf("%d.%d", s, e)
			spans[a], found[a] = [2]int{s, e}, true
		}
	}
	c.findat = findat
	fi := "x"
	if s, e, f := eng.FindIndices(h); f {
		fi = fmt.Sprintf("%d.%d", s, e)
	}
	fwd, rev := "-", "-"
	if t.dfa != nil && t.rdfa != nil {
		fc, rc := t.dfa.NewCache(), t.rdfa.NewCache()
		fs := make([]string, n+1)
		var rs []string
		viol := func(a int, what string) {
			if c.directViol == "" {
				c.directViol = fmt.Sprintf("at=%d: %s (findIndicesAtWithState: %s)", a, what, findat[a])
			}
		}
		for a := 0; a <= n; a++ {
			e := t.dfa.SearchAt(fc, h, a)
			fs[a] = "x"
			switch {
			case e >= 0 && e != a:
				fs[a] = fmt.Sprint(e)
				if s := t.rdfa.SearchReverse(rc, h, a, e); s >= 0 {
					rs = append(rs, fmt.Sprintf("%d.%d.%d", a, e, s))
					if !(found[a] && spans[a] == [2]int{s, e}) {
						viol(a, fmt.Sprintf("SearchAt=%d SearchReverse=%d", e, s))
					}
				} else {
					viol(a, fmt.Sprintf("SearchAt=%d SearchReverse=%d", e, s))
				}
			case e >= 0:
				fs[a] = fmt.Sprint(e)
				if !(found[a] && spans[a] == [2]int{a, a}) {
					viol(a, fmt.Sprintf("SearchAt=%d (empty match)", e))
				}
			case found[a]:
				viol(a, "SearchAt=-1")
			}
		}
		fwd = strings.Join(fs, ",")
		if len(rs) > 0 {
			rev = strings.Join(rs, ",")
		}
	}
	cc := "-"
	if t.ccs != nil {
		cc = faSpans(t.ccs.FindAllIndices(h, nil))
	}
	// capture-producing oracles
	op := "x"
	if t.op != nil && t.ncap > 0 {
		cache := onepass.NewCache(t.ncap)
		var slots []int
		if t.longest {
			slots = t.op.SearchLongest(h, cache)
		} else {
			slots = t.op.Search(h, cache)
		}
		if len(slots) >= 2 && slots[0] >= 0 && slots[1] >= 0 {
			op = fmt.Sprintf("%d.%d", slots[0], slots[1])
		}
	}
	pv := (*nfa.PikeVM)(faPtr(reflect.ValueOf(state).Elem(), "pikevm"))
	pk := make([]string, n+1)
	var ins []string
	seen := map[[2]int]bool{}
	for a := 0; a <= n; a++ {
		pk[a] = "x"
		if pv == nil {
			continue
		}
		if m := pv.SearchWithSlotTableCapturesAt(h, a); m != nil {
			pk[a] = fmt.Sprintf("%d.%d", m.Start, m.End)
		}
		if found[a] && !seen[spans[a]] {
			seen[spans[a]] = true
			if m := pv.SearchWithCapturesInSpan(h, spans[a][0], spans[a][1]); m != nil {
				ins = append(ins, fmt.Sprintf("%d.%d.%d.%d", spans[a][0], spans[a][1], m.Start, m.End))
			}
		}
	}
	faPutSearchState(eng, state)
	inspan := "-"
	if len(ins) > 0 {
		inspan = strings.Join(ins, ",")
	}
	ns := make([]string, len(faNs))
	for i, k := range faNs {
		ns[i] = fmt.Sprint(k)
	}
	base := strings.Join([]string{t.flags, strings.Join(ns, ","), hexOf(h), strings.Join(findat, ","), fi, fwd, rev, cc}, " ")
	caps := strings.Join([]string{op, strings.Join(pk, ","), inspan}, " ")
	c.reqBoth = "metafindall both " + base
	c.reqSub = "metafindall sub " + base + " " + caps
	c.reqSubAt = "metafindall subat " + base + " " + caps

	// the real answers (exported API: the engine takes its own pooled state)
	c.subAtReal = make([]string, n+1)
	for a := 0; a <= n; a++ {
		c.subAtReal[a] = "none"
		if m := eng.FindSubmatchAt(h, a); m != nil {
			c.subAtReal[a] = fmt.Sprintf("%d.%d", m.Start(), m.End())
		}
		s, e, f := eng.FindIndicesAt(h, a)
		if got := map[bool]string{true: fmt.Sprintf("%d.%d", s, e), false: "x"}[f]; got != findat[a] && c.atDiff == "" {
			c.atDiff = fmt.Sprintf("at=%d: FindIndicesAt=%s findIndicesAtWithState=%s", a, got, findat[a])
		}
	}
	for _, k := range faNs {
		all := eng.FindAllIndicesStreaming(h, k, nil)
		c.realAll = append(c.realAll, faSpans(all))
		c.realCount = append(c.realCount, fmt.Sprint(eng.Count(h, k)))
		var subs [][2]int
		for _, m := range eng.FindAllSubmatch(h, k) {
			subs = append(subs, [2]int{m.Start(), m.End()})
		}
		c.realSub = append(c.realSub, faSpans(subs))
		if k == -1 {
			c.nMatches = len(all)
			for _, m := range all {
				if m[0] == m[1] {
					c.hasEmpty = true
				}
			}
		}
		if c.ascii {
			// the engine's n = 0 is "no limit" for FindAllIndicesStreaming: regexp's -1
			rn := k
			if k == 0 {
				rn = -1
			}
			c.wantAll = append(c.wantAll, faLocs(t.re.FindAllIndex(h, rn)))
			c.wantCount = append(c.wantCount, fmt.Sprint(len(t.re.FindAllIndex(h, k))))
			c.wantSub = append(c.wantSub, faLocs(t.re.FindAllSubmatchIndex(h, k)))
		}
	}
	return c
}

// faAlphabet: a few bytes the pattern speaks about (port of mfAlphabet of the fidelity program), and a filler
func faAlphabet(p string) []byte {
	var al []byte
	has := func(c byte) bool { return bytes.IndexByte(al, c) >= 0 }
	esc := false
	for i := 0; i < len(p) && len(al) < 4; i++ {
		c := p[i]
		if esc {
			esc = false
			continue
		}
		if c == '\\' {
			esc = true
			continue
		}
		if c == '(' && i+1 < len(p) && p[i+1] == '?' { // skip flag groups `(?i)`, `(?m:`
			for i < len(p) && p[i] != ')' && p[i] != ':' {
				i++
			}
			continue
		}
		if (c >= 'a' && c <= 'z' || c >= 'A' && c <= 'Z' || c >= '0' && c <= '9' || c == '@' || c == ' ') && !has(c) {
			al = append(al, c)
		}
	}
	if strings.Contains(p, `\d`) && !has('1') {
		al = append(al, '1')
	}
	if strings.Contains(p, "(?i)") && len(al) > 0 && al[0] >= 'a' && al[0] <= 'z' {
		al = append(al, al[0]-32)
	}
	al = append(al, '#')
	if strings.Contains(p, "(?m)") || strings.Contains(p, `\s`) || strings.Contains(p, "[^") || strings.Contains(p, ".") {
		al = append(al, '\n')
	}
	return al
}

// faNestedWords: for a plain alternation of words, a word w that contains another word v of the set (the k-th such pair)
func faNestedWords(p string, k int) (w, v []byte) {
	ws := strings.Split(p, "|")
	if len(ws) < 2 || len(ws) > 400 {
		return nil, nil
	}
	for _, x := range ws {
		if x == "" || strings.ContainsAny(x, `\.+*?()[]{}^$`) {
			return nil, nil
		}
	}
	var pairs [][2]string
	for _, x := range ws {
		for _, y := range ws {
			if len(y) < len(x) && strings.Contains(x, y) {
				pairs = append(pairs, [2]string{x, y})
			}
		}
	}
	if len(pairs) == 0 {
		return nil, nil
	}
	q := pairs[k%len(pairs)]
	return []byte(q[0]), []byte(q[1])
}

// faHaystacks: nHay ASCII haystacks of at most 14 bytes (longer only when the pattern's matches are): empty, sampled matches alone,
// adjacent, separated by a filler / a newline / a space, a match cut short followed by a whole one, words and lines for patterns with
// assertions and literal sets, random strings over the pattern's alphabet; then nMB haystacks with multi-byte runes around sampled
// matches (the empty-match stepping), in the thorough tier also invalid bytes.
func faHaystacks(rng *RNG, p *faPat, nHay, nMB int, thorough bool) [][]byte {
	sample := func() []byte {
		b := 40
		return stratASCII(sampleMatch(rng, p.ast, nil, &b))
	}
	rank := func(x []byte) int { // matching, non-empty, short
		k := len(x)
		if len(x) == 0 {
			k += 1000
		}
		if !p.std.Match(x) {
			k += 2000
		}
		return k
	}
	m, m2 := sample(), sample()
	for i := 0; i < 6; i++ {
		if x := sample(); rank(x) < rank(m) {
			m2, m = m, x
		} else if rank(x) < rank(m2) && !bytes.Equal(x, m) {
			m2 = x
		}
	}
	maxLen := 14
	if len(m) > 6 {
		maxLen = 2*len(m) + 3
		if maxLen > 80 {
			maxLen = 80
		}
	}
	var hs [][]byte
	seen := map[string]bool{}
	limit := nHay
	add := func(parts ...[]byte) {
		h := bytes.Join(parts, nil)
		for len(h) > maxLen { // cut at a rune boundary
			_, w := utf8.DecodeLastRune(h)
			h = h[:len(h)-w]
		}
		if !seen[string(h)] && len(hs) < limit {
			seen[string(h)] = true
			hs = append(hs, append([]byte(nil), h...))
		}
	}
	al := faAlphabet(p.p)
	f := []byte{'#'}
	for _, c := range []byte("# -x9") {
		if !p.std.Match([]byte{c}) {
			f = []byte{c}
			break
		}
	}
	nl, sp := []byte("\n"), []byte(" ")
	cut := m
	if len(m) > 1 {
		cut = m[:len(m)-1]
	}
	random := func() []byte {
		w := make([]byte, 4+rng.Intn(maxLen-3))
		for i := range w {
			w[i] = al[rng.Intn(len(al))]
		}
		return w
	}
	add()
	add(m, m2)
	if w, v := faNestedWords(p.p, p.idx); w != nil { // a literal of the set inside another one
		add(w, f, v, w)
	}
	if p.k == meta.UseAhoCorasick || lookRe.MatchString(p.p) {
		add([]byte(lookbehindHays[p.idx%2]))                         // "abcd", "abcd xabcd"
		add([]byte(lookbehindHays[2+p.idx%(len(lookbehindHays)-2)])) // words and lines
	}
	add(m, f, m2, f, m)
	add(cut, f, m)
	add(m, nl, m2)
	add(m)
	add(random())
	add(f, m, sp, m2)
	add(m2, m, m)
	for tries := 0; len(hs) < nHay && tries < 30; tries++ {
		if tries%2 == 0 {
			add(random())
		} else if g := GenHaystack(rng, p.ast, true); len(g) <= 4096 {
			add(g)
		}
	}
	// multi-byte runes (valid UTF-8), then invalid bytes
	limit = nHay + nMB
	mbs := []string{"aé", "éa日b", "aéé", "日本語", "a\U0001F600b", "é", "ab日", "é日"}
	add([]byte("é"), m, []byte("日"), m2)
	add(m, []byte("é"), m2)
	add([]byte(mbs[p.idx%len(mbs)]))
	add(m, []byte("\U0001F600"), f, m2)
	add([]byte(mbs[(p.idx+3)%len(mbs)]))
	add([]byte("日"), m, m)
	if thorough {
		limit += 2
		add([]byte([]string{"é\xffa", "\x80a", "a\xc3"}[p.idx%3]))
		hs2 := append(append([]byte(nil), m...), 0xff)
		if len(hs) < limit && len(hs2)+len(m2) <= maxLen {
			hs = append(hs, append(hs2, m2...))
		}
	}
	return hs
}
