package main

import (
	"fmt"
	"regexp"
	"regexp/syntax"
	"sort"
	"strings"
	"time"
	_ "unsafe"

	"github.com/coregx/coregex/meta"
)

// c02GuardsTie: the Lean transliterations of the strategy GUARDS of the meta engine (Cx.Model.Guards: the AST predicates of
// meta/strategy.go, meta/compile.go, meta/reverse_inner.go that route a pattern away from the engines that cannot express it; what
// they guarantee is proved in Cx.Proofs.Guards, restated as C02_guard_* in Cx/Properties/C02b.lean) must answer what the real,
// unexported functions answer (reached with go:linkname) on the AST meta.Compile hands them: syntax.Parse(pattern, syntax.Perl), NOT
// simplified (meta/compile.go l.58: CompileWithConfig parses and passes the tree to CompileRegexp as it is).
//
// Inputs: every corpus pattern; the strategy templates of c19.go / c02strat.go / c02meta2.go; every subtree of these ASTs; and the SYSTEMATIC family
// base[ wrapper[ inner ] ]: every inner node kind a guard asks about (\b \B ^ $ (?m)^ (?m)$ \A \z, lazy * + ? {n,m}, (?i) literals with
// a non-ASCII rune / with a non-ASCII fold partner, an empty alternative, a '\n' literal, a negated class, dot, (?s)dot, …) under
// every operator (bare, capture, named capture, * + ? {2} {1,3} {2,} and their lazy forms, concatenation left / middle / right,
// alternation first / last, two operators deep) in the hole of the base shapes of every strategy.  The typical slip of such a guard
// is a case missing in its switch: then it does not see the node under that operator.
//
// One `guards all <ast>` request per distinct AST; per guard the tie "Cx.Guards.<name> == meta.<name>".  The parser normal form the
// exactness theorems assume (Cx.Guards.normalForm) is checked on every AST as well.  A disagreement is a violation; a failing input
// is then searched: the pattern is compiled and, if the strategy selected is one the guard protects, generated haystacks are run
// against regexp.
func c02GuardsTie(r *Report) {
	t0 := time.Now()
	defer func() { r.Extra["wall_s:c02GuardsTie"] = time.Since(t0).Seconds() }()
	root := NewRNG(r.Seed)

	// the order of `guards all` is the driver's: ask for it
	ans, err := RunLean([]string{"guards names -"})
	if err != nil || len(ans) != 1 {
		r.Violate("guards tie: the Lean driver does not answer `guards names`: "+fmt.Sprint(err), map[string]any{"request": "guards names -"}, true)
		return
	}
	names := strings.Split(ans[0], ",")
	col := map[string]int{}
	for i, n := range names {
		col[n] = i
	}
	for _, g := range guardFns {
		if _, ok := col[g.name]; !ok {
			r.Violate("guards tie: the Lean driver has no guard named "+g.name, map[string]any{"names": ans[0]}, true)
			return
		}
	}
	if _, ok := col["normalForm"]; !ok {
		r.Violate("guards tie: the Lean driver has no normalForm column", map[string]any{"names": ans[0]}, true)
		return
	}

	// ---- inputs ----
	type input struct {
		p, family string
		re        *syntax.Regexp
		wire      string
	}
	var ins []input
	seenWire := map[string]bool{}
	skipped, parseErr := 0, 0
	add := func(p, family string) {
		re, err := syntax.Parse(p, syntax.Perl)
		if err != nil {
			parseErr++
			return
		}
		w := astWire(re)
		if strings.ContainsAny(w, " \n\r\t") || len(w) > 200000 {
			skipped++ // not encodable as one driver token
			return
		}
		if seenWire[w] {
			return
		}
		seenWire[w] = true
		ins = append(ins, input{p, family, re, w})
		r.Dist["guards:"+family]++
	}
	for _, p := range corpusPatterns {
		add(p, "corpus")
	}
	for _, p := range c19Seeds {
		add(p, "template")
	}
	var kinds []int
	for k := range stratShapes {
		kinds = append(kinds, int(k))
	}
	sort.Ints(kinds)
	for _, k := range kinds {
		for _, p := range stratShapes[meta.Strategy(k)] {
			add(p, "template")
		}
	}
	for i, k := range m2Kinds {
		for _, p := range m2Shapes(k, root.Fork(0x6A0+uint64(i)), 60) {
			add(p, "template")
		}
	}
	for _, p := range guardExtra {
		add(p, "template")
	}
	// the systematic family: the full base x inner x wrapper product (the model answers ~20k ASTs in about a second)
	n := 0
	for _, b := range guardBases {
		for _, in := range guardInner {
			for _, w := range guardWrappers {
				n++
				add(strings.Replace(b, "HOLE", strings.Replace(w, "N", in, 1), 1), "systematic")
			}
		}
	}
	// every SUBTREE of the above is an AST too: the helpers (isWildcardOp, isOptionalElement, containsAnchor, …) and isStartAnchorOnly
	// (applied to the prefix portion of a pattern) are asked about inner nodes, not about whole patterns
	top := len(ins)
	for i := 0; i < top; i++ {
		var walk func(x *syntax.Regexp)
		walk = func(x *syntax.Regexp) {
			for _, c := range x.Sub {
				w := astWire(c)
				if !seenWire[w] && !strings.ContainsAny(w, " \n\r\t") {
					seenWire[w] = true
					ins = append(ins, input{c.String(), "subtree", c, w})
					r.Dist["guards:subtree"]++
				}
				walk(c)
			}
		}
		walk(ins[i].re)
	}
	r.Extra["guards_inputs"] = map[string]int{"asts": len(ins), "systematic_product": n, "not_encodable_skipped": skipped, "parse_errors": parseErr}

	// ---- model ----
	reqs := make([]string, len(ins))
	for i, in := range ins {
		reqs[i] = "guards all " + in.wire
	}
	model, err := RunLean(reqs)
	if err != nil {
		r.Violate("guards tie: Lean driver failed: "+err.Error(), map[string]any{"requests": len(reqs)}, true)
		return
	}

	// ---- compare ----
	nfTie := r.Tie("Cx.Guards.normalForm holds on the parsed AST (hypothesis of the C02_guard_*_exact theorems)")
	reported := map[string]bool{}
	differ := map[string][]guardDiff{}
	for i, in := range ins {
		cols := strings.Split(model[i], ",")
		if len(cols) != len(names) {
			r.Violate(fmt.Sprintf("guards tie: the Lean driver answered %q for %q", clip(model[i], 80), in.p), map[string]any{"pattern": in.p, "request": clip(reqs[i], 400)}, true)
			continue
		}
		nontrivial := false
		for _, g := range guardFns {
			t := r.Tie("Cx.Guards." + g.name + " == meta." + g.name)
			t.Cases++
			real, ok := guardCall(g.fn, in.re)
			if !ok {
				t.Skipped++ // the real function panicked (only canMatchEmpty can, on an operator node without operand: never parsed)
				continue
			}
			want := fmt.Sprint(real)
			if real {
				nontrivial = true
				r.Dist["guards_true:"+g.name]++
			}
			if cols[col[g.name]] == want {
				continue
			}
			t.Disagreements++
			if len(differ[g.name]) < 80 {
				differ[g.name] = append(differ[g.name], guardDiff{i, want, cols[col[g.name]]})
			}
		}
		nfTie.Cases++
		if cols[col["normalForm"]] != "true" {
			nfTie.Disagreements++
			if !reported["normalForm"] {
				reported["normalForm"] = true
				r.Violate(fmt.Sprintf("the AST syntax.Parse builds for %q is not in the normal form the guard theorems assume (Cx.Guards.normalForm)", in.p),
					map[string]any{"pattern": in.p, "request": clip(reqs[i], 2000)}, true)
			}
		}
		r.Case("guards:"+in.p, nontrivial)
	}
	// a disagreement is a violation; a failing input is searched among the disagreeing patterns (those that select a strategy the
	// guard protects), at most ~3 s per guard
	for _, g := range guardFns {
		ds := differ[g.name]
		if len(ds) == 0 {
			continue
		}
		first := ds[0]
		what, replay, found := "", map[string]any{}, false
		at := first
		deadline := time.Now().Add(3 * time.Second)
		for _, d := range ds {
			w, rp, ok := guardFindFailing(root.Fork(uint64(d.i)+0x9000), g, ins[d.i].p, ins[d.i].re)
			if what == "" {
				what, replay = w, rp
			}
			if ok {
				what, replay, found, at = w, rp, true, d
				break
			}
			if time.Now().After(deadline) {
				break
			}
		}
		in := ins[at.i]
		msg := fmt.Sprintf("Lean model of the strategy guard meta.%s and the code differ on %q: code=%s model=%s (%d+ disagreeing ASTs)", g.name, in.p, at.code, at.model, len(ds))
		replay["correspondence"] = "Cx.Guards." + g.name + " vs meta." + g.name
		replay["pattern"] = in.p
		replay["request"] = clip(reqs[at.i], 2000)
		replay["code"] = at.code
		replay["model"] = at.model
		r.Violate(msg+"; "+what, replay, !found)
	}
	r.Sample(map[string]any{"guards_tie": "Cx.Guards.* == meta.* on " + fmt.Sprint(len(ins)) + " distinct ASTs", "inner": guardInner[:8], "wrappers": guardWrappers[:8], "bases": guardBases[:8]})
}

type guardDiff struct {
	i           int
	code, model string
}

type guardFn struct {
	name string
	fn   func(*syntax.Regexp) bool
	// the strategies whose correctness rests on the guard (a wrong answer can only hurt under these)
	protects []meta.Strategy
}

var guardReverse = []meta.Strategy{meta.UseReverseAnchored, meta.UseReverseSuffix, meta.UseReverseSuffixSet, meta.UseReverseInner, meta.UseMultilineReverseSuffix}

var guardFns = []guardFn{
	{"hasWordBoundary", gHasWordBoundary, append([]meta.Strategy{meta.UseDFA}, guardReverse...)},
	{"hasNonGreedyQuantifier", gHasNonGreedyQuantifier, []meta.Strategy{meta.UseDFA}},
	{"hasAnchorAssertions", gHasAnchorAssertions, append([]meta.Strategy{meta.UseDFA, meta.UseBoundedBacktracker, meta.UseTeddy, meta.UseAhoCorasick}, guardReverse...)},
	{"hasMultilineLineAnchor", gHasMultilineLineAnchor, []meta.Strategy{meta.UseDFA, meta.UseTeddy}},
	{"canMatchEmpty", gCanMatchEmpty, []meta.Strategy{meta.UseDFA, meta.UseBoth, meta.UseNFA}},
	{"canMatchNewline", gCanMatchNewline, guardReverse},
	{"isSafeForReverseSuffix", gIsSafeForReverseSuffix, []meta.Strategy{meta.UseReverseSuffix, meta.UseReverseSuffixSet}},
	{"isSafeForReverseInner", gIsSafeForReverseInner, []meta.Strategy{meta.UseReverseInner}},
	{"isSafeForMultilineReverseSuffix", gIsSafeForMultilineReverseSuffix, []meta.Strategy{meta.UseMultilineReverseSuffix}},
	{"isSimpleCharClass", gIsSimpleCharClass, []meta.Strategy{meta.UseBoundedBacktracker}},
	{"isDigitLeadPattern", gIsDigitLeadPattern, []meta.Strategy{meta.UseDigitPrefilter}},
	{"isDigitRunSkipSafe", gIsDigitRunSkipSafe, []meta.Strategy{meta.UseDigitPrefilter}},
	{"hasWordBoundaryAnchorCombo", gHasWordBoundaryAnchorCombo, []meta.Strategy{meta.UseDFA}},
	{"hasCaseInsensitiveUnicode", gHasCaseInsensitiveUnicode, []meta.Strategy{meta.UseDFA}},
	{"hasNonLineAnchors", gHasNonLineAnchors, []meta.Strategy{meta.UseTeddy, meta.UseDFA}},
	{"lineAnchorLeadsEveryBranch", gLineAnchorLeadsEveryBranch, []meta.Strategy{meta.UseTeddy, meta.UseDFA}},
	{"isStartAnchorOnly", gIsStartAnchorOnly, []meta.Strategy{meta.UseReverseInner}},
	// helpers of the above
	{"containsAnchor", gContainsAnchor, []meta.Strategy{meta.UseReverseSuffix, meta.UseReverseSuffixSet}},
	{"isWildcardSubexpression", gIsWildcardSubexpression, []meta.Strategy{meta.UseReverseSuffix, meta.UseReverseSuffixSet}},
	{"containsLineStartAnchor", gContainsLineStartAnchor, []meta.Strategy{meta.UseMultilineReverseSuffix}},
	{"containsWildcard", gContainsWildcard, []meta.Strategy{meta.UseMultilineReverseSuffix}},
	{"isWildcardOp", gIsWildcardOp, []meta.Strategy{meta.UseMultilineReverseSuffix}},
	{"isOptionalElement", gIsOptionalElement, []meta.Strategy{meta.UseDigitPrefilter}},
	{"isOptionalDigitOnly", gIsOptionalDigitOnly, []meta.Strategy{meta.UseDigitPrefilter}},
}

func guardCall(f func(*syntax.Regexp) bool, re *syntax.Regexp) (res, ok bool) {
	defer func() {
		if recover() != nil {
			res, ok = false, false
		}
	}()
	return f(re), true
}

// guardFindFailing: the pattern on which model and code disagree is compiled; if the strategy chosen is one the guard protects, the
// engine is run against regexp on generated (ASCII) haystacks.
func guardFindFailing(rng *RNG, g guardFn, p string, re *syntax.Regexp) (string, map[string]any, bool) {
	replay := map[string]any{}
	eng, err := meta.Compile(p)
	std, err2 := regexp.Compile(p)
	if err != nil || err2 != nil {
		return "the pattern does not compile, no failing input searched", replay, false
	}
	k := eng.Strategy()
	replay["strategy"] = k.String()
	protected := false
	for _, s := range g.protects {
		if s == k {
			protected = true
		}
	}
	if !protected {
		return fmt.Sprintf("the pattern selects %s, which does not rest on this guard: no failing input searched", k), replay, false
	}
	for i := 0; i < 400; i++ {
		h := GenHaystack(rng, re, true)
		if len(h) > 4096 {
			continue
		}
		s, e, ok := eng.FindIndices(h)
		want := std.FindIndex(h)
		got := "nil"
		if ok {
			got = fmt.Sprintf("[%d %d]", s, e)
		}
		exp := "nil"
		if want != nil {
			exp = fmt.Sprintf("[%d %d]", want[0], want[1])
		}
		if got != exp {
			replay["haystack_hex"] = hexOf(h)
			replay["api"] = "Engine.FindIndices"
			replay["coregex"] = got
			replay["regexp"] = exp
			return fmt.Sprintf("failing input under %s: FindIndices on %q gives %s, regexp %s", k, clip(string(h), 60), got, exp), replay, true
		}
		// the enumeration (the direct forward/reverse DFA branch of findAllIndicesLoop is where the DFA pair is used)
		all := eng.FindAllIndicesStreaming(h, -1, nil)
		wall := std.FindAllIndex(h, -1)
		gotAll, expAll := fmt.Sprint(all), "["
		for j, w := range wall {
			if j > 0 {
				expAll += " "
			}
			expAll += fmt.Sprintf("[%d %d]", w[0], w[1])
		}
		expAll += "]"
		if gotAll != expAll {
			replay["haystack_hex"] = hexOf(h)
			replay["api"] = "Engine.FindAllIndicesStreaming"
			replay["coregex"] = clip(gotAll, 300)
			replay["regexp"] = clip(expAll, 300)
			return fmt.Sprintf("failing input under %s: FindAllIndicesStreaming on %q gives %s, regexp %s", k, clip(string(h), 60), clip(gotAll, 80), clip(expAll, 80)), replay, true
		}
		if eng.IsMatch(h) != (want != nil) {
			replay["haystack_hex"] = hexOf(h)
			replay["api"] = "Engine.IsMatch"
			replay["coregex"] = fmt.Sprint(eng.IsMatch(h))
			replay["regexp"] = fmt.Sprint(want != nil)
			return fmt.Sprintf("failing input under %s: IsMatch on %q gives %v, regexp %v", k, clip(string(h), 60), eng.IsMatch(h), want != nil), replay, true
		}
	}
	return fmt.Sprintf("400 generated haystacks under %s agree with regexp", k), replay, false
}

// the node kinds the guards ask about
var guardInner = []string{`\b`, `\B`, `^`, `$`, `(?m:^)`, `(?m:$)`, `\A`, `\z`,
	`a*?`, `a+?`, `a??`, `a{2,3}?`, `(?U:a*)`,
	`(?i:é)`, `(?i:k)`, `(?i:[é])`, `(?i:s)`,
	`(?:|a)`, `(?:a|)`, `\n`, `[^x]`, `.`, `(?s:.)`, `\d`, `[0-9]+`, `(?:)`, `a`}

// N under every operator
var guardWrappers = []string{`N`, `(N)`, `(?P<g>N)`, `(?:N)*`, `(?:N)+`, `(?:N)?`, `(?:N){2}`, `(?:N){1,3}`, `(?:N){2,}`,
	`(?:N)*?`, `(?:N)+?`, `(?:N)??`, `(?:N){1,3}?`, `(?:N)pq`, `p(?:N)q`, `pq(?:N)`, `(?:N|pq)`, `(?:pq|N)`, `(?:(?:(?:N)p)+|q)`, `(?:q|((?:N){2}))*r`}

// the shapes of every strategy with a hole
var guardBases = []string{`HOLE`, `HOLEabc`, `abcHOLE`, `abHOLEcd`, `.*HOLE\.txt`, `.+HOLE\.txt`, `[a-z]+HOLE\.txt`, `HOLE.*\.txt`, `.*\.txtHOLE`,
	`.*HOLE\.(?:txt|log|md)`, `.*connectionHOLE.*`, `[a-z]+HOLE@[a-z]+\.[a-z]+`, `\w+HOLE/[^?]*`, `(?m)^.*HOLE\.php`, `(?m)^/HOLE.*end`, `(?m)^HOLE.+z`,
	`HOLEabc$`, `[a-z]+HOLE\z`, `^HOLEabc`, `^(?:fooHOLE|bar)`, `\d+HOLE`, `HOLE\d+\.\d+`, `\d+HOLE\.\d+\.\d+`, `[0-9]+HOLE[a-z]*X`,
	`(?:fooHOLE|bar|bazz)`, `(?:foo|bar|bazz)HOLE`, `HOLE(?:foo|bar|bazz)`, `[a-z]+HOLE`, `[a-z]+HOLE[0-9]+`, `(a|b|c)+HOLE`, `fooHOLE\d+`, `(?i)fooHOLE`,
	`HOLE|abc`, `(HOLE)(x+)`, `a*HOLEb*c*`, `(?:HOLE\w+ ?){2}$`, `\w{2,8}HOLE\.txt`, `(.*)HOLE\.txt`, `ERRORHOLE.*timeout`, `(?s).*HOLE@x`,
	`HOLE(?:` + guardWords(70) + `)`}

// shapes aimed at single guards (boundaries of their whitelists)
var guardExtra = []string{`\d+`, `[0-9]*x`, `\d{2,}x`, `(\d+)x`, `[0-5]+x`, `\d+?x`, `(?:\d+x)y`, `((\d+)x)`, `[0-9]{2,5}x`, `\d*`, `[1-9]?\d`, `(?:5|6x)?7`, `(?:[0-9])?a`, `\d?\d?x`, `[0-9]{0,2}[0-9]`,
	`(?:25[0-5]|2[0-4][0-9])`, `(?:1|a)`, `1|`, `(?:12)*3`, `(?:1*)2`, `(1)?2`, `(?:a?)?1`, `^`, `^+`, `^^`, `(^)`, `(?:^)*`, `(?:^)?x`, `(?m:^)+`, `\A\A`, `(?:)`, `(?:^|\A)`, `(?:^$)`,
	`(?m)^foo|^bar`, `(?m)^foo|bar`, `(?m)(?:^foo)`, `(?m)^(?:foo|bar)`, `(?m)foo^bar`, `(?m)^foo$`, `(?m)(^foo)|(^bar)`, `(?m)^foo\b`, `(?m)^^foo`, `(?m)(?:^|^)foo`, `(?m)^(?:^foo|bar)`,
	`[a-z]`, `[a-z]+[0-9]*`, `([a-z])+`, `(?:[a-z]{2,3})?`, `[a-z]+x`, `(?:[a-z]|ab)+`, `(?:[a-z]+)([0-9])`,
	`(.*)foo`, `(.+)(foo)`, `((.*)foo)`, `(?:.*)foo`, `.*.*foo`, `.+a?b`, `.*[^ ]*foo`, `(?:^a){1,2}b`, `.+(^b)`, `(.+^)b`, `x{1,2}foo`, `(x){1,5}$y`, `.*a$b`, `.*(a|$)bc`, `a?.*foo`, `(?:.*)+foo`,
	`(?m)^.*\.php`, `(?m)^[^x]+\.txt`, `(?m)^(?s:.)*\.php`, `(?m)^.*a\nb`, `((?m)^.*\.php)`, `(?m)(^).*\.php`, `(?m)^[a-z]+\.php`, `(?m)^[a-z]*\.php`, `(?m)(?:^.*|^a)z`, `(?m)^(?:.*)z`, `(?m).*^z`,
	`(?i)привет`, `(?i)[а-я]+`, `(?i)straße`, `(?i)k`, `(?i)[k]`, `(?i)é|a`, `привет`, `(?i:a)é`, `\x{212a}`, `(?i)\x{212a}`}

func guardWords(n int) string {
	w := make([]string, n)
	for i := range w {
		w[i] = fmt.Sprintf("w%c%c%d", 'a'+byte(i%7), 'k'+byte(i%11), i)
	}
	return strings.Join(w, "|")
}

//go:linkname gHasWordBoundary github.com/coregx/coregex/meta.hasWordBoundary
func gHasWordBoundary(re *syntax.Regexp) bool

//go:linkname gHasNonGreedyQuantifier github.com/coregx/coregex/meta.hasNonGreedyQuantifier
func gHasNonGreedyQuantifier(re *syntax.Regexp) bool

//go:linkname gHasAnchorAssertions github.com/coregx/coregex/meta.hasAnchorAssertions
func gHasAnchorAssertions(re *syntax.Regexp) bool

//go:linkname gHasMultilineLineAnchor github.com/coregx/coregex/meta.hasMultilineLineAnchor
func gHasMultilineLineAnchor(re *syntax.Regexp) bool

//go:linkname gCanMatchEmpty github.com/coregx/coregex/meta.canMatchEmpty
func gCanMatchEmpty(re *syntax.Regexp) bool

//go:linkname gCanMatchNewline github.com/coregx/coregex/meta.canMatchNewline
func gCanMatchNewline(re *syntax.Regexp) bool

//go:linkname gIsSafeForReverseSuffix github.com/coregx/coregex/meta.isSafeForReverseSuffix
func gIsSafeForReverseSuffix(re *syntax.Regexp) bool

//go:linkname gIsSafeForReverseInner github.com/coregx/coregex/meta.isSafeForReverseInner
func gIsSafeForReverseInner(re *syntax.Regexp) bool

//go:linkname gIsSafeForMultilineReverseSuffix github.com/coregx/coregex/meta.isSafeForMultilineReverseSuffix
func gIsSafeForMultilineReverseSuffix(re *syntax.Regexp) bool

//go:linkname gIsSimpleCharClass github.com/coregx/coregex/meta.isSimpleCharClass
func gIsSimpleCharClass(re *syntax.Regexp) bool

//go:linkname gIsDigitLeadPattern github.com/coregx/coregex/meta.isDigitLeadPattern
func gIsDigitLeadPattern(re *syntax.Regexp) bool

//go:linkname gIsDigitRunSkipSafe github.com/coregx/coregex/meta.isDigitRunSkipSafe
func gIsDigitRunSkipSafe(re *syntax.Regexp) bool

//go:linkname gHasWordBoundaryAnchorCombo github.com/coregx/coregex/meta.hasWordBoundaryAnchorCombo
func gHasWordBoundaryAnchorCombo(re *syntax.Regexp) bool

//go:linkname gHasCaseInsensitiveUnicode github.com/coregx/coregex/meta.hasCaseInsensitiveUnicode
func gHasCaseInsensitiveUnicode(re *syntax.Regexp) bool

//go:linkname gHasNonLineAnchors github.com/coregx/coregex/meta.hasNonLineAnchors
func gHasNonLineAnchors(re *syntax.Regexp) bool

//go:linkname gLineAnchorLeadsEveryBranch github.com/coregx/coregex/meta.lineAnchorLeadsEveryBranch
func gLineAnchorLeadsEveryBranch(re *syntax.Regexp) bool

//go:linkname gIsStartAnchorOnly github.com/coregx/coregex/meta.isStartAnchorOnly
func gIsStartAnchorOnly(re *syntax.Regexp) bool

//go:linkname gContainsAnchor github.com/coregx/coregex/meta.containsAnchor
func gContainsAnchor(re *syntax.Regexp) bool

//go:linkname gIsWildcardSubexpression github.com/coregx/coregex/meta.isWildcardSubexpression
func gIsWildcardSubexpression(re *syntax.Regexp) bool

//go:linkname gContainsLineStartAnchor github.com/coregx/coregex/meta.containsLineStartAnchor
func gContainsLineStartAnchor(re *syntax.Regexp) bool

//go:linkname gContainsWildcard github.com/coregx/coregex/meta.containsWildcard
func gContainsWildcard(re *syntax.Regexp) bool

//go:linkname gIsWildcardOp github.com/coregx/coregex/meta.isWildcardOp
func gIsWildcardOp(re *syntax.Regexp) bool

//go:linkname gIsOptionalElement github.com/coregx/coregex/meta.isOptionalElement
func gIsOptionalElement(re *syntax.Regexp) bool

//go:linkname gIsOptionalDigitOnly github.com/coregx/coregex/meta.isOptionalDigitOnly
func gIsOptionalDigitOnly(re *syntax.Regexp) bool
