package main

import (
	"bytes"
	_ "embed"
	"encoding/json"
	"fmt"
	"regexp/syntax"
	"strings"
	"unicode/utf8"
)

// RNG is splitmix64; every random choice of a run derives from one state seeded by VERIF_SEED.
type RNG struct{ s uint64 }

func NewRNG(seed uint64) *RNG { return &RNG{s: seed*0x9E3779B97F4A7C15 + 0x1234567} }

func (r *RNG) Next() uint64 {
	r.s += 0x9E3779B97F4A7C15
	z := r.s
	z = (z ^ (z >> 30)) * 0xBF58476D1CE4E5B9
	z = (z ^ (z >> 27)) * 0x94D049BB133111EB
	return z ^ (z >> 31)
}
func (r *RNG) Intn(n int) int {
	if n <= 0 {
		return 0
	}
	return int(r.Next() % uint64(n))
}
func (r *RNG) Bool() bool        { return r.Next()&1 == 1 }
func (r *RNG) Chance(p int) bool { return r.Intn(100) < p }
func (r *RNG) Pick(l []string) string {
	return l[r.Intn(len(l))]
}

// Fork derives an independent stream (so adding cases to one family does not shift another).
func (r *RNG) Fork(tag uint64) *RNG { return NewRNG(r.s ^ (tag * 0xD6E8FEB86659FD93)) }

//go:embed corpus_patterns.txt
var corpusRaw string

var corpusPatterns = func() []string {
	var out []string
	for _, l := range strings.Split(corpusRaw, "\n") {
		if l == "" {
			continue
		}
		var s string
		if json.Unmarshal([]byte(l), &s) == nil {
			out = append(out, s)
		} else if l[0] != '"' {
			out = append(out, l) // a line that is not a JSON string is the pattern itself
		}
	}
	return out
}()

// GenOpts restricts the grammar.
type GenOpts struct {
	ASCIIOnly bool // only ASCII literals/classes in the pattern
	NoLook    bool // no look-around
	NoLazy    bool
	NoFold    bool
	NoCaps    bool
	MaxDepth  int
}

var litASCII = []string{"a", "b", "c", "x", "y", "z", "A", "B", "0", "1", "9", " ", "_", "-", "@", "/", `\.`, "foo", "bar", "ab", "ba"}
var litUni = []string{"é", "я", "世", "😀", "ß", "K", "ſ", "σ", "ς", "пр", "K"}
var clsASCII = []string{"[a-c]", "[^a]", `\d`, `\w`, `\s`, `\D`, `\W`, `\S`, "[a-cx-z]", "[[:alpha:]]", "[0-9a-f]", "[ab]", "[^ab\\n]", ".", "(?s:.)", "[a-zA-Z_]", `[^\s]`, `[\w-]`}
var clsUni = []string{`\pL`, `\p{Greek}`, `[а-я]`, `[^а-я]`, `[é-ü]`, `\PL`, `[\x{80}-\x{7ff}]`, `[\x{10000}-\x{10ffff}]`, `[^\x00-\x7f]`, `[a-zé]`, `\pN`}
var looks = []string{"^", "$", `\A`, `\z`, `\b`, `\B`, "(?m:^)", "(?m:$)"}

func genAtom(r *RNG, o GenOpts) string {
	k := r.Intn(100)
	switch {
	case k < 40:
		if !o.ASCIIOnly && r.Chance(15) {
			return r.Pick(litUni)
		}
		return r.Pick(litASCII)
	case k < 80:
		if !o.ASCIIOnly && r.Chance(15) {
			return r.Pick(clsUni)
		}
		return r.Pick(clsASCII)
	case k < 90:
		if o.NoLook {
			return r.Pick(litASCII)
		}
		return r.Pick(looks)
	default:
		return r.Pick(litASCII)
	}
}

func genNode(r *RNG, o GenOpts, depth int) string {
	if depth >= o.MaxDepth {
		return genAtom(r, o)
	}
	k := r.Intn(100)
	switch {
	case k < 30:
		return genAtom(r, o)
	case k < 50: // concat
		n := 2 + r.Intn(3)
		var sb strings.Builder
		for i := 0; i < n; i++ {
			sb.WriteString(genNode(r, o, depth+1))
		}
		return sb.String()
	case k < 62: // alternation
		n := 2 + r.Intn(3)
		parts := make([]string, n)
		for i := range parts {
			if r.Chance(8) {
				parts[i] = ""
			} else {
				parts[i] = genNode(r, o, depth+1)
			}
		}
		return "(?:" + strings.Join(parts, "|") + ")"
	case k < 82: // repetition
		sub := genNode(r, o, depth+1)
		if !isSingleAtom(sub) {
			sub = "(?:" + sub + ")"
		}
		ops := []string{"*", "+", "?", "{2}", "{1,3}", "{2,}", "{0,2}", "{0}", "{3,5}"}
		op := r.Pick(ops)
		if !o.NoLazy && r.Chance(25) {
			op += "?"
		}
		return sub + op
	case k < 92: // group
		sub := genNode(r, o, depth+1)
		switch {
		case o.NoCaps || r.Chance(30):
			return "(?:" + sub + ")"
		case r.Chance(20):
			return "(?P<n" + string(rune('a'+r.Intn(3))) + ">" + sub + ")"
		default:
			return "(" + sub + ")"
		}
	default: // flags
		sub := genNode(r, o, depth+1)
		fl := []string{"i", "s", "m", "U", "is", "im"}
		f := r.Pick(fl)
		if o.NoFold && strings.Contains(f, "i") {
			f = "s"
		}
		if o.NoLazy && f == "U" {
			f = "s"
		}
		if o.NoLook && strings.Contains(f, "m") {
			f = "s"
		}
		return "(?" + f + ":" + sub + ")"
	}
}

func isSingleAtom(s string) bool {
	if len(s) == 0 {
		return false
	}
	if utf8.RuneCountInString(s) == 1 && !strings.ContainsAny(s, `\^$.|?*+()[]{}`) {
		return true
	}
	if s == "." {
		return true
	}
	if len(s) == 2 && s[0] == '\\' {
		return true
	}
	if s[0] == '[' && strings.Count(s, "[") == 1 && s[len(s)-1] == ']' {
		return true
	}
	return false
}

// GenPattern returns a pattern that regexp/syntax accepts (retrying on the rare rejection, e.g. repeat-of-repeat limits).
func GenPattern(r *RNG, o GenOpts) string {
	if o.MaxDepth == 0 {
		o.MaxDepth = 3
	}
	for {
		p := genNode(r, o, 0)
		if _, err := syntax.Parse(p, syntax.Perl); err == nil && len(p) > 0 {
			return p
		}
	}
}

// MutatePattern applies one syntactic edit to a (corpus) pattern; result is checked to parse.
func MutatePattern(r *RNG, p string) string {
	for try := 0; try < 20; try++ {
		var q string
		switch r.Intn(14) {
		case 0:
			q = p + r.Pick(litASCII)
		case 1:
			q = r.Pick(litASCII) + p
		case 2:
			q = "(" + p + ")"
		case 3:
			q = "(?i)" + p
		case 4: // toggle lazy after a quantifier
			idx := indexAnyFrom(p, "*+?}", r.Intn(len(p)+1))
			if idx >= 0 {
				q = p[:idx+1] + "?" + p[idx+1:]
			}
		case 5:
			q = p + r.Pick(looks)
		case 6:
			q = r.Pick(looks) + p
		case 7:
			q = p + "|" + GenPattern(r, GenOpts{MaxDepth: 1})
		case 8:
			q = "(?:" + p + ")" + r.Pick([]string{"*", "+", "?", "{2}"})
		case 9: // insert a look-around somewhere
			i := r.Intn(len(p) + 1)
			q = p[:i] + r.Pick(looks) + p[i:]
		case 10: // replace one ASCII letter by a non-ASCII one
			i := r.Intn(len(p))
			if p[i] >= 'a' && p[i] <= 'z' && (i == 0 || p[i-1] != '\\') {
				q = p[:i] + r.Pick(litUni) + p[i+1:]
			}
		case 11:
			q = p + GenPattern(r, GenOpts{MaxDepth: 1})
		case 12:
			q = "(?s)" + p
		case 13:
			q = "(?m)" + p
		}
		if q == "" {
			continue
		}
		if _, err := syntax.Parse(q, syntax.Perl); err == nil {
			return q
		}
	}
	return p
}

// MutateAST applies one STRUCTURAL edit at a random node of the parsed pattern: the node is wrapped in a unary operator
// (capture, *, +, ?, counted repeats, lazy forms, (?i:)) and/or a look-around assertion is put in front of or behind it INSIDE
// the wrapper.  This is the family the strategy guards (hasWordBoundary, hasNonGreedyQuantifier, canMatchEmpty, isSafeFor…) must
// see through: an assertion or a lazy quantifier below every kind of operator.  The result is checked to parse.
func MutateAST(r *RNG, p string) string {
	const ph = `\x{e000}`
	for try := 0; try < 12; try++ {
		re, err := syntax.Parse(p, syntax.Perl)
		if err != nil {
			return p
		}
		var nodes []*syntax.Regexp
		var walk func(n *syntax.Regexp)
		walk = func(n *syntax.Regexp) {
			nodes = append(nodes, n)
			for _, c := range n.Sub {
				walk(c)
			}
		}
		walk(re)
		n := nodes[r.Intn(len(nodes))]
		sub := n.String()
		*n = syntax.Regexp{Op: syntax.OpLiteral, Rune: []rune{0xe000}}
		full := re.String()
		if !strings.Contains(full, ph) {
			continue
		}
		inner := "(?:" + sub + ")"
		switch r.Intn(4) {
		case 0:
			inner = r.Pick(looks) + inner
		case 1:
			inner = inner + r.Pick(looks)
		case 2:
			inner = "(?:" + r.Pick(looks) + inner + r.Pick([]string{"", "", r.Pick(litASCII)}) + ")"
		}
		wrap := r.Pick([]string{"%s", "(%s)", "(?:%s)*", "(?:%s)+", "(?:%s)?", "(?:%s){2}", "(?:%s){1,3}", "(?:%s){2,}", "(?:%s){1,3}?", "(?:%s)*?", "(?:%s)+?", "(?i:%s)", "(?:%s){0,2}"})
		q := strings.Replace(full, ph, "(?:"+fmt.Sprintf(wrap, "(?:"+inner+")")+")", 1)
		if _, err := syntax.Parse(q, syntax.Perl); err == nil && q != p {
			return q
		}
	}
	return p
}

func indexAnyFrom(s, chars string, from int) int {
	if from >= len(s) {
		from = 0
	}
	if i := strings.IndexAny(s[from:], chars); i >= 0 {
		return from + i
	}
	return strings.IndexAny(s, chars)
}

// ---- haystacks -------------------------------------------------------------------------------

var ctxBytes = [][]byte{[]byte("\n"), []byte(" "), []byte("a"), []byte("_"), []byte("9"), []byte("é"), []byte("世"), {0xff}, {0xc3}, []byte("-")}

// sampleMatch emits a string in (or near) the language of re by a random walk over the AST.
func sampleMatch(r *RNG, re *syntax.Regexp, out []byte, budget *int) []byte {
	if *budget <= 0 {
		return out
	}
	*budget--
	switch re.Op {
	case syntax.OpLiteral:
		for _, c := range re.Rune {
			if re.Flags&syntax.FoldCase != 0 && r.Bool() {
				c = flipCase(c)
			}
			out = utf8.AppendRune(out, c)
		}
	case syntax.OpCharClass:
		if len(re.Rune) > 0 {
			i := r.Intn(len(re.Rune)/2) * 2
			lo, hi := re.Rune[i], re.Rune[i+1]
			c := lo
			if hi > lo {
				span := int(hi - lo)
				if span > 40 && r.Chance(70) {
					span = 40
				}
				c = lo + rune(r.Intn(span+1))
			}
			out = utf8.AppendRune(out, c)
		}
	case syntax.OpAnyCharNotNL, syntax.OpAnyChar:
		alts := []string{"a", "b", "x", " ", "1", "é", "世", "\xff", "_"}
		out = append(out, r.Pick(alts)...)
	case syntax.OpCapture, syntax.OpConcat:
		for _, s := range re.Sub {
			out = sampleMatch(r, s, out, budget)
		}
	case syntax.OpAlternate:
		out = sampleMatch(r, re.Sub[r.Intn(len(re.Sub))], out, budget)
	case syntax.OpStar:
		for n := r.Intn(4); n > 0; n-- {
			out = sampleMatch(r, re.Sub[0], out, budget)
		}
	case syntax.OpPlus:
		for n := 1 + r.Intn(3); n > 0; n-- {
			out = sampleMatch(r, re.Sub[0], out, budget)
		}
	case syntax.OpQuest:
		if r.Bool() {
			out = sampleMatch(r, re.Sub[0], out, budget)
		}
	case syntax.OpRepeat:
		n := re.Min
		if re.Max < 0 {
			n += r.Intn(3)
		} else if re.Max > re.Min {
			n += r.Intn(re.Max - re.Min + 1)
		}
		if n > 6 {
			n = 6
		}
		for ; n > 0; n-- {
			out = sampleMatch(r, re.Sub[0], out, budget)
		}
	}
	return out
}

// sampleStretched emits a string in the language of re in which ONE unbounded repetition (the first one the walk meets) is
// iterated `reps` times: matches longer than any internal window (4096-byte prefix checks, 100-byte estimates, 64-byte vector
// blocks, visited-table limits for small inputs).  *done reports whether a loop was stretched.
func sampleStretched(r *RNG, re *syntax.Regexp, out []byte, reps int, done *bool) []byte {
	switch re.Op {
	case syntax.OpCapture, syntax.OpConcat:
		for _, s := range re.Sub {
			out = sampleStretched(r, s, out, reps, done)
		}
		return out
	case syntax.OpAlternate:
		return sampleStretched(r, re.Sub[r.Intn(len(re.Sub))], out, reps, done)
	case syntax.OpStar, syntax.OpPlus:
		if !*done {
			*done = true
			for n := 0; n < reps && len(out) < 3*reps; n++ {
				b := 6
				out = sampleMatch(r, re.Sub[0], out, &b)
			}
			return out
		}
	case syntax.OpRepeat:
		if !*done && re.Max < 0 {
			*done = true
			for n := 0; n < reps+re.Min && len(out) < 3*reps; n++ {
				b := 6
				out = sampleMatch(r, re.Sub[0], out, &b)
			}
			return out
		}
	}
	b := 40
	return sampleMatch(r, re, out, &b)
}

// thresholdProbes: shapes whose matches extend with the input (start-anchored with a dot loop, class loops before a literal) — run
// first by the enumeration / relation checks on haystacks stretched across the internal size thresholds (4096-byte ASCII prefix
// check, window and estimate sizes).
var thresholdProbes = []string{`^a.*b`, `^.+b`, `^(\w+) .*b`, `^[a-z]+.*x`, `^a.*`, `^.*?b`, `(?s)^a.*b`, `^a[^\n]*b`, `a.*b`, `[a-z]+.*x`, `^(?:a|b).*c`, `^x.{2,}y`}

// lookbehindProbes: shapes whose match can begin right where the previous match ended and depends on the byte BEFORE that position
// (a search resumed on a re-sliced haystack sees a text start there); run first by the enumeration / replace / relation checks.
var lookbehindProbes = []string{"abc|cd|d|" + manyLiterals(72), "cd|abc|d|bcd|" + manyLiterals(72), `\d\d\b`, `\b[a-z]`, `\b\w`, `\B\w`, `(?m)^\w`, `\b\d{2}`, `\b[a-z]{3}`, `\b\w\b`, `(?m)^.`, `\B.`, `\b[a-z]|\d`, `(?m)^[a-z]{2}`}

// lookbehindHays: words and lines for lookbehindProbes.
var lookbehindHays = []string{"abcd", "abcd xabcd", "111", "1111 22", "hello big world", "ab cd", "1234 56", "abc\ndef", "abcdef ghi", "a1 b22 c333", "xy\nzz\n\nq"}

// GenStretched returns a haystack with one loop of the pattern iterated a few thousand times (ASCII), then possibly a multi-byte
// rune and a second sampled match; nil if the pattern has no unbounded loop.
func GenStretched(r *RNG, re *syntax.Regexp) []byte {
	return GenStretchedVariant(r, re, r.Intn(3)*r.Intn(2), r.Chance(70))
}

// GenStretchedVariant: the stretched match loses its last `trim` bytes (the long attempt fails at its very end; a match of another
// shape follows inside / behind it), then comes a multi-byte rune if `nonASCII`, then a second sampled match.
func GenStretchedVariant(r *RNG, re *syntax.Regexp, trim int, nonASCII bool) []byte {
	done := false
	var h []byte
	if r.Chance(30) {
		h = append(h, "0 "...)
	}
	h = sampleStretched(r, re, h, 4090+r.Intn(40), &done)
	if !done {
		return nil
	}
	if trim > 0 && len(h) > trim+2 {
		h = h[:len(h)-trim]
	}
	if nonASCII {
		h = append(h, "é"...)
	}
	b := 40
	return sampleMatch(r, re, h, &b)
}

func flipCase(c rune) rune {
	switch {
	case c >= 'a' && c <= 'z':
		return c - 32
	case c >= 'A' && c <= 'Z':
		return c + 32
	}
	return c
}

// GenHaystack derives a haystack from the pattern: a sampled match with context, mutated; or random noise.
func GenHaystack(r *RNG, re *syntax.Regexp, asciiOnly bool) []byte {
	var h []byte
	mode := r.Intn(100)
	switch {
	case mode < 3:
		// a LONG match: one loop of the pattern iterated ~4200-5200 times, ASCII first, then possibly a multi-byte rune and
		// a second (short) sampled match
		done := false
		if r.Chance(40) {
			h = append(h, ctxBytes[r.Intn(len(ctxBytes))]...)
		}
		h = sampleStretched(r, re, h, 4200+r.Intn(1000), &done)
		if done {
			if r.Chance(60) && !asciiOnly {
				h = append(h, "é"...)
			}
			b := 40
			h = sampleMatch(r, re, h, &b)
			if asciiOnly {
				for i, b := range h {
					if b >= 0x80 {
						h[i] = 'a' + b%26
					}
				}
			}
			return h
		}
		h = h[:0]
		fallthrough
	case mode < 5:
		return nil
	case mode < 70:
		nm := 1 + r.Intn(3)
		for i := 0; i < nm; i++ {
			if r.Chance(60) {
				// one context piece, sometimes two or three: what stands directly before a match and what stands before THAT differ
				// (a start state chosen for one of them is wrong for the other: " aport" for \bport)
				for k := 1 + r.Intn(10)/7 + r.Intn(10)/9; k > 0; k-- {
					h = append(h, ctxBytes[r.Intn(len(ctxBytes))]...)
				}
			}
			b := 40
			h = sampleMatch(r, re, h, &b)
		}
		if r.Chance(50) {
			h = append(h, ctxBytes[r.Intn(len(ctxBytes))]...)
		}
	case mode < 80:
		// a failed attempt directly followed by (or overlapping) a successful one: a sampled match cut short and then a full
		// sampled match starting k bytes before the cut's end (k = 0: adjacent; k > 0: the two overlap, as "ab"+"aba" = "ababa"
		// for the suffix literal "aba"). Candidate loops that resume after a rejected candidate, and engines that keep
		// per-attempt state (capture slots, visited entries), are only exercised by such inputs.
		b := 40
		first := sampleMatch(r, re, nil, &b)
		if r.Chance(40) && len(first) > 2 {
			// m[j:] + m[k:], j < k: the head of the match is missing (a candidate that fails) and its tail is repeated
			// ("aba" + "ba" = "ababa": the occurrence at 0 has nothing before it, the overlapping one at 2 has)
			j := r.Intn(len(first) - 1)
			k := j + 1 + r.Intn(len(first)-j-1)
			h = append(append(h, first[j:]...), first[k:]...)
			if r.Chance(30) {
				h = append(h, first[k:]...)
			}
			if asciiOnly {
				for i, b := range h {
					if b >= 0x80 {
						h[i] = 'a' + b%26
					}
				}
			}
			return h
		}
		b = 40
		second := sampleMatch(r, re, nil, &b)
		if r.Chance(40) {
			h = append(h, ctxBytes[r.Intn(len(ctxBytes))]...)
		}
		if len(first) > 1 {
			cut := 1 + r.Intn(len(first)-1)
			h = append(h, first[:cut]...)
			if r.Chance(50) && len(second) > 1 {
				// overlap: drop from the front of `second` a prefix that equals a suffix of what was written, if there is one
				for k := min(len(h), len(second)-1); k > 0; k-- {
					if bytes.HasSuffix(h, second[:k]) {
						second = second[k:]
						break
					}
				}
			} else if r.Chance(30) {
				h = append(h, "_ x\n"[r.Intn(4)])
			}
		}
		h = append(h, second...)
		if r.Chance(30) {
			h = append(h, ctxBytes[r.Intn(len(ctxBytes))]...)
		}
	default:
		n := r.Intn(12)
		alpha := []byte("abcxyzAB019 _-@/.\n")
		for i := 0; i < n; i++ {
			h = append(h, alpha[r.Intn(len(alpha))])
		}
	}
	// mutations
	for m := r.Intn(3); m > 0 && len(h) > 0; m-- {
		i := r.Intn(len(h))
		switch r.Intn(4) {
		case 0:
			h = append(h[:i:i], h[i+1:]...)
		case 1:
			h = append(h[:i:i], append([]byte{h[i]}, h[i:]...)...)
		case 2:
			h[i] = "abx1 \n_"[r.Intn(7)]
		case 3:
			if !asciiOnly {
				h[i] = byte(0x80 + r.Intn(0x80))
			}
		}
	}
	if asciiOnly {
		for i, b := range h {
			if b >= 0x80 {
				h[i] = 'a' + b%26
			}
		}
	}
	if len(h) > 200 {
		h = h[:200]
	}
	return h
}
