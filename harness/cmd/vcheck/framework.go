package main

import (
	"bufio"
	"bytes"
	"crypto/sha1"
	"encoding/hex"
	"encoding/json"
	"flag"
	"fmt"
	"os"
	"os/exec"
	"path/filepath"
	"sort"
	"strings"
	"sync"
	"time"
)

// ---- Lean driver -------------------------------------------------------------------------------

var verifDir = "/verif"

// RunLean answers the requests through cxdrv; large batches are split over up to 16 driver processes
// (requests are independent; order of answers is preserved).
func RunLean(lines []string) ([]string, error) {
	if len(lines) < 48 {
		return runLeanOne(lines)
	}
	const k = 16
	// striped assignment (request i -> worker i mod k) balances batches whose cost varies along the list
	parts := make([][]string, k)
	for i, l := range lines {
		parts[i%k] = append(parts[i%k], l)
	}
	res := make([][]string, k)
	errs := make([]error, k)
	var wg sync.WaitGroup
	for i := 0; i < k; i++ {
		wg.Add(1)
		go func(i int) {
			defer wg.Done()
			res[i], errs[i] = runLeanOne(parts[i])
		}(i)
	}
	wg.Wait()
	out := make([]string, len(lines))
	for i := 0; i < k; i++ {
		if errs[i] != nil {
			return nil, errs[i]
		}
		for j, a := range res[i] {
			out[j*k+i] = a
		}
	}
	return out, nil
}

func runLeanOne(lines []string) ([]string, error) {
	if len(lines) == 0 {
		return nil, nil
	}
	bin := filepath.Join(verifDir, "lean/.lake/build/bin/cxdrv")
	var in bytes.Buffer
	for _, l := range lines {
		if strings.ContainsAny(l, "\n\r") {
			return nil, fmt.Errorf("request contains newline: %q", l)
		}
		in.WriteString(l)
		in.WriteByte('\n')
	}
	cmd := exec.Command(bin)
	cmd.Stdin = &in
	var out, errb bytes.Buffer
	cmd.Stdout = &out
	cmd.Stderr = &errb
	if err := cmd.Run(); err != nil {
		return nil, fmt.Errorf("cxdrv: %v: %s", err, errb.String())
	}
	var res []string
	sc := bufio.NewScanner(&out)
	sc.Buffer(make([]byte, 1<<20), 1<<26)
	for sc.Scan() {
		res = append(res, sc.Text())
	}
	if len(res) != len(lines) {
		return nil, fmt.Errorf("cxdrv answered %d lines for %d requests", len(res), len(lines))
	}
	return res, nil
}

func hexOf(b []byte) string {
	if len(b) == 0 {
		return "-"
	}
	return hex.EncodeToString(b)
}

// ---- known findings ----------------------------------------------------------------------------

// Finding is one entry of /verif/known_findings.json. An open finding is identified by its Signature:
// every listed key must equal the corresponding attribute of a failing case (attributes a check attaches to a
// failure: api family, strategy, kind of difference, syntactic pattern features, haystack features, call site).
// Example is a concrete witness replayed on every run.
type Finding struct {
	ID        string            `json:"id"`
	Property  string            `json:"property"`
	Status    string            `json:"status"` // open | fixed
	Commit    string            `json:"commit,omitempty"`
	What      string            `json:"what"`
	Signature map[string]string `json:"signature,omitempty"`
	Example   map[string]string `json:"example,omitempty"`
}

type KnownFile struct {
	Findings []Finding `json:"findings"`
}

func loadKnown() []Finding {
	var kf KnownFile
	b, err := os.ReadFile(filepath.Join(verifDir, "known_findings.json"))
	if err != nil {
		return nil
	}
	if err := json.Unmarshal(b, &kf); err != nil {
		fmt.Fprintln(os.Stderr, "known_findings.json:", err)
		os.Exit(2)
	}
	return kf.Findings
}

// matchKnown returns the open finding of this property whose signature is satisfied by attrs.
// A signature value may list alternatives separated by '|'; a key prefixed with '!' must be absent/false.
func matchKnown(known []Finding, prop string, attrs map[string]string) *Finding {
	for i := range known {
		f := &known[i]
		if f.Status != "open" || f.Property != prop || len(f.Signature) == 0 {
			continue
		}
		ok := true
		for k, v := range f.Signature {
			if strings.HasPrefix(k, "!") {
				if attrs[k[1:]] != "" && attrs[k[1:]] != "false" {
					ok = false
				}
				continue
			}
			hit := false
			for _, alt := range strings.Split(v, "|") {
				if attrs[k] == alt {
					hit = true
				}
			}
			if !hit {
				ok = false
			}
		}
		if ok {
			return f
		}
	}
	return nil
}

// ---- report / evidence -------------------------------------------------------------------------

type Violation struct {
	What   string         `json:"what"`
	Replay map[string]any `json:"replay"`
	NoFail bool           `json:"no_failing_input_found,omitempty"`
}

type Report struct {
	Property string
	Tier     string
	Seed     uint64
	Start    time.Time

	Evaluations int
	distinct    map[string]bool
	Rule        string
	Samples     []any
	Ties        map[string]*TieStat
	Dist        map[string]int // input distribution counters
	Violations  []Violation
	KnownHits   map[string]int
	KnownFirst  map[string]map[string]string // finding id -> first case of this run that matched its signature
	KnownSeen   map[string]string            // finding id -> what (example still failing)
	Notes       []string
	Extra       map[string]any
	Exhaustive  bool
}

type TieStat struct {
	Cases         int `json:"cases"`
	Disagreements int `json:"disagreements"`
	Skipped       int `json:"skipped_hypothesis_not_met,omitempty"`
}

func NewReport(prop, tier string, seed uint64) *Report {
	return &Report{Property: prop, Tier: tier, Seed: seed, Start: time.Now(), distinct: map[string]bool{}, Ties: map[string]*TieStat{},
		Dist: map[string]int{}, KnownHits: map[string]int{}, KnownFirst: map[string]map[string]string{}, KnownSeen: map[string]string{}, Extra: map[string]any{}}
}

func (r *Report) Tie(name string) *TieStat {
	t := r.Ties[name]
	if t == nil {
		t = &TieStat{}
		r.Ties[name] = t
	}
	return t
}

// Known records a case explained by an open finding.
func (r *Report) Known(f *Finding, example map[string]string) {
	r.KnownHits[f.ID]++
	if r.KnownFirst[f.ID] == nil {
		r.KnownFirst[f.ID] = example
	}
}

// Case counts one evaluated case; key identifies it for distinctness; nontrivial per the check's rule.
func (r *Report) Case(key string, nontrivial bool) {
	r.Evaluations++
	if nontrivial {
		r.distinct[key] = true
	}
}

func (r *Report) Sample(v any) {
	if len(r.Samples) < 8 {
		r.Samples = append(r.Samples, v)
	}
}

func (r *Report) Violate(what string, replay map[string]any, noFail bool) {
	// de-duplicate by what
	for _, v := range r.Violations {
		if v.What == what {
			return
		}
	}
	r.Violations = append(r.Violations, Violation{What: what, Replay: replay, NoFail: noFail})
}

// Finish prints KNOWN-FINDING / VIOLATION lines, writes replays and evidence; returns the exit code.
func (r *Report) Finish(proofFile string) int {
	type proofInfo struct {
		Obligations  int            `json:"obligations"`
		Discharged   int            `json:"discharged"`
		Theorems     []string       `json:"theorems"`
		Axioms       map[string]any `json:"axioms"`
		CheckerCmd   string         `json:"checker_cmd"`
		TrustedBase  []string       `json:"trusted_base"`
		Level        string         `json:"level"`
		Assumptions  []string       `json:"assumptions"`
		ProofFailure string         `json:"proof_failure"`
	}
	var pi proofInfo
	if proofFile != "" {
		if b, err := os.ReadFile(proofFile); err == nil {
			json.Unmarshal(b, &pi)
		}
	}
	if pi.Level == "" {
		pi.Level = "proof"
	}
	if pi.Assumptions == nil {
		pi.Assumptions = []string{}
	}
	if pi.TrustedBase == nil {
		pi.TrustedBase = []string{}
	}
	if pi.ProofFailure != "" {
		r.Violate("proof step failed: "+pi.ProofFailure, map[string]any{"theorem_or_check": pi.ProofFailure}, true)
	}
	var kids []string
	for id := range r.KnownSeen {
		kids = append(kids, id)
	}
	sort.Strings(kids)
	for _, id := range kids {
		fmt.Printf("KNOWN-FINDING: property=%s %s [%s; %d further cases in this run matched its signature]\n", r.Property, r.KnownSeen[id], id, r.KnownHits[id])
	}
	code := 0
	os.MkdirAll(filepath.Join(verifDir, "replays", r.Property), 0o755)
	for _, v := range r.Violations {
		code = 1
		v.Replay["property"] = r.Property
		v.Replay["tier"] = r.Tier
		v.Replay["seed"] = r.Seed
		v.Replay["what"] = v.What
		b, _ := json.MarshalIndent(v.Replay, "", " ")
		h := sha1.Sum(b)
		path := filepath.Join(verifDir, "replays", r.Property, hex.EncodeToString(h[:6])+".json")
		os.WriteFile(path, b, 0o644)
		suffix := ""
		if v.NoFail {
			suffix = " no-failing-input-found"
		}
		fmt.Printf("VIOLATION property=%s replay=%s%s\n", r.Property, path, suffix)
		fmt.Printf("  %s\n", v.What)
	}
	cov := map[string]any{
		"evaluations":         r.Evaluations,
		"distinct_nontrivial": len(r.distinct),
		"rule":                r.Rule,
		"samples":             r.Samples,
		"obligations":         pi.Obligations,
		"discharged":          pi.Discharged,
		"checker_cmd":         pi.CheckerCmd,
		"trusted_base":        pi.TrustedBase,
		"theorems":            pi.Theorems,
		"axioms":              pi.Axioms,
		"ties":                r.Ties,
		"input_distribution":  r.Dist,
		"known_finding_hits":  r.KnownHits,
		"known_finding_first": r.KnownFirst,
		"notes":               r.Notes,
	}
	if r.Exhaustive {
		cov["exhaustive"] = true
	}
	for k, v := range r.Extra {
		cov[k] = v
	}
	if cov["samples"] == nil || len(r.Samples) == 0 {
		cov["samples"] = []any{"(no case sampled)"}
	}
	ev := map[string]any{
		"property_id": r.Property,
		"tier":        r.Tier,
		"seed":        r.Seed,
		"level":       pi.Level,
		"coverage":    cov,
		"assumptions": pi.Assumptions,
		"wall_s":      time.Since(r.Start).Seconds(),
		"violations":  len(r.Violations),
	}
	b, _ := json.MarshalIndent(ev, "", " ")
	os.MkdirAll(filepath.Join(verifDir, "evidence"), 0o755)
	if err := os.WriteFile(filepath.Join(verifDir, "evidence", r.Property+".json"), b, 0o644); err != nil {
		fmt.Fprintln(os.Stderr, "evidence:", err)
		return 2
	}
	fmt.Printf("%s tier=%s seed=%d evaluations=%d distinct=%d violations=%d wall=%.1fs\n", r.Property, r.Tier, r.Seed, r.Evaluations,
		len(r.distinct), len(r.Violations), time.Since(r.Start).Seconds())
	return code
}

// ---- dispatch ----------------------------------------------------------------------------------

type checkFn func(r *Report, known []Finding)

var checks = map[string]checkFn{}

func cmdCheck(args []string) int {
	if len(args) < 1 {
		fmt.Fprintln(os.Stderr, "usage: vcheck check <Cnn> [-tier quick|thorough] [-seed N] [-proof file] [-replay file]")
		return 2
	}
	prop := args[0]
	fs := flag.NewFlagSet("check", flag.ExitOnError)
	tier := fs.String("tier", "quick", "")
	seed := fs.Uint64("seed", 1, "")
	proof := fs.String("proof", "", "")
	vd := fs.String("verif", "/verif", "")
	fs.Parse(args[1:])
	verifDir = *vd
	fn := checks[prop]
	if fn == nil {
		fmt.Fprintln(os.Stderr, "no check for", prop)
		return 2
	}
	r := NewReport(prop, *tier, *seed)
	fn(r, loadKnown())
	return r.Finish(*proof)
}
