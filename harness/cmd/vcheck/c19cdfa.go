package main

import (
	"fmt"
	"regexp"
	"regexp/syntax"
	"runtime"
	"strings"
	"sync"
	"time"

	"github.com/coregx/coregex/nfa"
)

// c19CompositeDFATie: the Lean model Cx.CompDfa (Cx.Model.CompositeDfa, driver `re-cdfa …`) of nfa/composite_dfa.go against the
// real CompositeSequenceDFA, on templates (2–9 char-class parts with +, *, ?, {n,}, {n,m}; overlapping classes; minimums so
// large that the constructor gives up) and their one-node mutants:
//
//	per pattern     IsCompositeSequenceDFAPattern and (NewCompositeSequenceDFA != nil)                model == code
//	per haystack    IsMatch, SearchAt at every offset, on ALL haystacks over the template's alphabet (one representative byte per
//	                class region + a byte outside) up to length 5 (quick) / 6 (thorough), plus long run-structured haystacks for
//	                patterns whose minimums do not fit                                                 model == code
//	property        for the patterns IsCompositeCharClassPattern accepts too (what meta requires before it builds the DFA):
//	                IsMatch / SearchAt of the real DFA == regexp
func c19CompositeDFATie(r *Report) {
	t0 := time.Now()
	defer func() { r.Extra["wall_s:c19CompositeDFATie"] = time.Since(t0).Seconds() }()
	L := 5
	if r.Tier == "thorough" {
		L = 6
	}
	root := NewRNG(r.Seed ^ 0xCDFA)
	type pat struct {
		p, alpha string
		re       *syntax.Regexp
		std      *regexp.Regexp
		wire     string
		pred, ok bool // IsCompositeSequenceDFAPattern, constructor non-nil
		ccp      bool
		d        *nfa.CompositeSequenceDFA
		sumMin   int
		expected []string // the sweep, token by token, as the real code answers it
	}
	var pats []*pat
	seen := map[string]bool{}
	add := func(p, alpha string) {
		if seen[p] {
			return
		}
		seen[p] = true
		re, err := syntax.Parse(p, syntax.Perl)
		if err != nil {
			return
		}
		std, err := regexp.Compile(p)
		if err != nil {
			return
		}
		pats = append(pats, &pat{p: p, alpha: alpha, re: re, std: std, wire: astWire(re)})
	}
	for i, t := range c19CdfaTemplates {
		add(t.p, t.alpha)
		if t.noMutants {
			continue
		}
		for _, m := range c19Mutants(root.Fork(uint64(i)+1), t.p) {
			add(m, t.alpha)
		}
	}

	hays := func(alpha string, l int) [][]byte {
		var out [][]byte
		var gen func(pre []byte, l int)
		gen = func(pre []byte, l int) {
			out = append(out, append([]byte(nil), pre...))
			if l == 0 {
				return
			}
			for _, b := range []byte(alpha) {
				gen(append(pre, b), l-1)
			}
		}
		gen(nil, l)
		return out
	}
	tok := func(s, e int, ok bool) string {
		if !ok {
			return "n"
		}
		return fmt.Sprintf("%d,%d", s, e)
	}

	type cs struct {
		pt        *pat
		kind, req string
		want      string
		h         []byte
		at        int
		sweep     bool
	}
	var cases []cs
	tPred := r.Tie("Cx.CompDfa.isCompositeSequenceDFAPattern == nfa.IsCompositeSequenceDFAPattern")
	tNew := r.Tie("Cx.CompDfa.newCompositeSequenceDFA accepts == (nfa.NewCompositeSequenceDFA != nil)")
	tIsM := r.Tie("Cx.CompDfa.isMatch == nfa CompositeSequenceDFA.IsMatch")
	tSrch := r.Tie("Cx.CompDfa.searchAt == nfa CompositeSequenceDFA.SearchAt")
	pSrch := r.Tie("nfa CompositeSequenceDFA.SearchAt == regexp (patterns IsCompositeCharClassPattern accepts too)")
	pIsM := r.Tie("nfa CompositeSequenceDFA.IsMatch == regexp.Match (patterns IsCompositeCharClassPattern accepts too)")
	reported := map[string]bool{}
	propFail := func(pt *pat, api string, h []byte, at int, got, want string) {
		if reported["prop\x00"+pt.p] {
			return
		}
		reported["prop\x00"+pt.p] = true
		r.Violate(fmt.Sprintf("CompositeSequenceDFA accepts %q (and so does IsCompositeCharClassPattern) but is not exact: %s on %q at=%d gives %s, regexp %s", pt.p, api, h, at, got, want),
			map[string]any{"pattern": pt.p, "searcher": "CompositeSequenceDFA", "op": api, "haystack_hex": hexOf(h), "at": at, "coregex": got, "regexp": want, "api": "CompositeSequenceDFA." + api}, false)
	}
	// the real code: patterns in parallel (every pattern has its own DFA), one guard per pattern
	type longCase struct {
		h               []byte
		at              int
		search, isMatch string
	}
	type propMiss struct {
		api       string
		h         []byte
		at        int
		got, want string
	}
	type goRes struct {
		crash           string
		long            []longCase
		nSrch, nIsM     int // property comparisons
		badSrch, badIsM int
		first           *propMiss
	}
	results := make([]goRes, len(pats))
	runOne := func(pt *pat, res *goRes) {
		pt.pred = nfa.IsCompositeSequenceDFAPattern(pt.re)
		pt.ccp = nfa.IsCompositeCharClassPattern(pt.re)
		pt.d = nfa.NewCompositeSequenceDFA(pt.re)
		pt.ok = pt.d != nil
		if pt.re.Op == syntax.OpConcat {
			for _, s := range pt.re.Sub {
				switch s.Op {
				case syntax.OpPlus, syntax.OpCharClass:
					pt.sumMin++
				case syntax.OpRepeat:
					pt.sumMin += s.Min
				}
			}
		}
		if pt.d == nil {
			return
		}
		d, prop := pt.d, pt.ccp
		miss := func(api string, h []byte, at int, got, want string) {
			if res.first == nil {
				res.first = &propMiss{api, append([]byte(nil), h...), at, got, want}
			}
		}
		one := func(h []byte, at int) string {
			s, e, ok := d.SearchAt(h, at)
			got := tok(s, e, ok)
			if prop {
				res.nSrch++
				loc := pt.std.FindIndex(h[at:])
				want := "n"
				if loc != nil {
					want = fmt.Sprintf("%d,%d", loc[0]+at, loc[1]+at)
				}
				if got != want {
					res.badSrch++
					miss("SearchAt", h, at, got, want)
				}
			}
			return got
		}
		isM := func(h []byte) string {
			got := "F"
			if d.IsMatch(h) {
				got = "T"
			}
			if prop {
				res.nIsM++
				want := "F"
				if pt.std.Match(h) {
					want = "T"
				}
				if got != want {
					res.badIsM++
					miss("IsMatch", h, 0, got, want)
				}
			}
			return got
		}
		var exp []string
		for _, h := range hays(pt.alpha, L) {
			exp = append(exp, isM(h))
			for at := 0; at <= len(h); at++ {
				exp = append(exp, one(h, at))
			}
		}
		pt.expected = exp
		// a failed attempt directly followed by a full match that starts INSIDE the bytes the attempt consumed: m[:cut] + m for sampled
		// matches m (a search that resumes behind the byte that killed the attempt instead of one byte further skips it)
		{
			srng := NewRNG(uint64(len(pt.p))*0x9E37 + 7)
			for k := 0; k < 4; k++ {
				b := 24
				m := sampleMatch(srng, pt.re, nil, &b)
				if len(m) == 0 || len(m) > 16 || !isASCIIBytes(m) {
					continue
				}
				for cut := 1; cut < len(m); cut++ {
					h := append(append([]byte(nil), m[:cut]...), m...)
					mm := "false"
					if isM(h) == "T" {
						mm = "true"
					}
					w := one(h, 0)
					if w == "n" {
						w = "nil"
					}
					res.long = append(res.long, longCase{h, 0, w, mm})
				}
			}
		}
		if pt.sumMin > L {
			for _, h := range c19CdfaLongHays(pt.p, pt.alpha, pt.sumMin) {
				m := "false"
				if isM(h) == "T" {
					m = "true"
				}
				for _, at := range []int{0, 1, len(h) / 3, len(h) / 2} {
					w := one(h, at)
					if w == "n" {
						w = "nil"
					}
					res.long = append(res.long, longCase{h, at, w, m})
				}
			}
		}
	}
	var wg sync.WaitGroup
	ch := make(chan int)
	for w := 0; w < runtime.NumCPU(); w++ {
		wg.Add(1)
		go func() {
			defer wg.Done()
			for i := range ch {
				i := i
				results[i].crash = guard(2*time.Minute, func() string { runOne(pats[i], &results[i]); return "" })
			}
		}()
	}
	for i := range pats {
		ch <- i
	}
	close(ch)
	wg.Wait()
	for i, pt := range pats {
		res := &results[i]
		if res.crash != "" {
			r.Violate(fmt.Sprintf("CompositeSequenceDFA: the real code on %q (predicate, constructor, IsMatch / SearchAt on all haystacks over %q up to length %d): %s", pt.p, pt.alpha, L, res.crash),
				map[string]any{"pattern": pt.p, "searcher": "CompositeSequenceDFA", "alphabet": pt.alpha}, false)
			continue
		}
		r.Case(pt.p+"\x00cdfa", pt.pred || pt.ok)
		if pt.pred {
			r.Dist["accepted:CompositeSequenceDFA(predicate)"]++
		}
		if pt.ok {
			r.Dist["accepted:CompositeSequenceDFA(constructed)"]++
		}
		if pt.pred && !pt.ok {
			r.Dist["CompositeSequenceDFA:predicate-true-constructor-gives-up"]++
		}
		cases = append(cases, cs{pt: pt, kind: "pred", req: "re-cdfa pred - " + pt.wire, want: fmt.Sprint(pt.pred)},
			cs{pt: pt, kind: "new", req: "re-cdfa new - " + pt.wire, want: fmt.Sprint(pt.ok)})
		if pt.d == nil {
			continue
		}
		if pt.ccp {
			r.Dist["CompositeSequenceDFA:also-IsCompositeCharClassPattern"]++
		}
		pSrch.Cases += res.nSrch
		pSrch.Disagreements += res.badSrch
		pIsM.Cases += res.nIsM
		pIsM.Disagreements += res.badIsM
		if m := res.first; m != nil {
			propFail(pt, m.api, m.h, m.at, m.got, m.want)
		}
		cases = append(cases, cs{pt: pt, kind: "sweep", sweep: true, req: fmt.Sprintf("re-cdfa sweep %s %d %s", hexOf([]byte(pt.alpha)), L, pt.wire)})
		last := ""
		for _, lc := range res.long {
			if string(lc.h) != last {
				last = string(lc.h)
				cases = append(cases, cs{pt: pt, kind: "ismatch", h: lc.h, req: fmt.Sprintf("re-cdfa ismatch %s %s", hexOf(lc.h), pt.wire), want: lc.isMatch})
			}
			cases = append(cases, cs{pt: pt, kind: "search", h: lc.h, at: lc.at, req: fmt.Sprintf("re-cdfa search %d %s %s", lc.at, hexOf(lc.h), pt.wire), want: lc.search})
		}
	}
	var reqs []string
	for _, c := range cases {
		reqs = append(reqs, c.req)
	}
	ans, err := RunLean(reqs)
	if err != nil || len(ans) != len(reqs) {
		r.Violate(fmt.Sprintf("Lean driver failed on the CompositeSequenceDFA tie: %v", err), map[string]any{"correspondence": "Cx.CompDfa vs nfa/composite_dfa.go"}, true)
		return
	}
	modelFail := func(pt *pat, what string, req string, code, model string) {
		if reported["model\x00"+pt.p] {
			return
		}
		reported["model\x00"+pt.p] = true
		r.Violate(fmt.Sprintf("Lean model of CompositeSequenceDFA and the code differ: %s of %q: code=%s model=%s", what, pt.p, code, model),
			map[string]any{"correspondence": "Cx.CompDfa vs nfa/composite_dfa.go", "pattern": pt.p, "request": req, "code": code, "model": model}, false)
	}
	for i, c := range cases {
		a := ans[i]
		if a == "" || a == "none" || strings.HasPrefix(a, "bad") || strings.HasPrefix(a, "error") {
			tPred.Cases++
			tPred.Disagreements++
			r.Violate(fmt.Sprintf("CompositeSequenceDFA model: unusable driver answer %.40q for pattern %q", a, c.pt.p), map[string]any{"request": c.req, "pattern": c.pt.p}, true)
			continue
		}
		switch c.kind {
		case "pred", "new":
			t := tPred
			if c.kind == "new" {
				t = tNew
			}
			t.Cases++
			if a != c.want {
				t.Disagreements++
				modelFail(c.pt, map[string]string{"pred": "IsCompositeSequenceDFAPattern", "new": "NewCompositeSequenceDFA != nil"}[c.kind], c.req, c.want, a)
			}
		case "ismatch":
			tIsM.Cases++
			if a != c.want {
				tIsM.Disagreements++
				modelFail(c.pt, fmt.Sprintf("IsMatch(%q)", c.h), c.req, c.want, a)
			}
		case "search":
			tSrch.Cases++
			if a != c.want {
				tSrch.Disagreements++
				modelFail(c.pt, fmt.Sprintf("SearchAt(%q, %d)", c.h, c.at), c.req, c.want, a)
			}
		case "sweep":
			g := c.pt.expected
			if a == "nil-dfa" {
				tNew.Cases++
				tNew.Disagreements++
				modelFail(c.pt, "constructor (sweep not compared)", c.req, "non-nil", "nil")
				continue
			}
			m := strings.Split(a, ";")
			if len(m) != len(g) {
				tSrch.Cases++
				tSrch.Disagreements++
				r.Violate(fmt.Sprintf("CompositeSequenceDFA sweep of %q: %d tokens from the model, %d from the code", c.pt.p, len(m), len(g)), map[string]any{"request": c.req, "pattern": c.pt.p}, true)
				continue
			}
			j := 0
			for _, h := range hays(c.pt.alpha, L) {
				tIsM.Cases++
				if g[j] != m[j] {
					tIsM.Disagreements++
					modelFail(c.pt, fmt.Sprintf("IsMatch(%q)", h), fmt.Sprintf("re-cdfa ismatch %s %s", hexOf(h), c.pt.wire), g[j], m[j])
				}
				j++
				for at := 0; at <= len(h); at++ {
					tSrch.Cases++
					if g[j] != m[j] {
						tSrch.Disagreements++
						modelFail(c.pt, fmt.Sprintf("SearchAt(%q, %d)", h, at), fmt.Sprintf("re-cdfa search %d %s %s", at, hexOf(h), c.pt.wire), g[j], m[j])
					}
					j++
				}
			}
		}
	}
}

type cdfaTemplate struct {
	p, alpha  string
	noMutants bool
}

// templates (from tools/fidelity/cdfa): alphabet = one byte per region of the classes + a byte no class has
var c19CdfaTemplates = func() []cdfaTemplate {
	var out []cdfaTemplate
	add := func(alpha string, noMut bool, ps ...string) {
		for _, p := range ps {
			out = append(out, cdfaTemplate{p, alpha, noMut})
		}
	}
	// what the DFA is for: 2–4 unbounded parts, disjoint and overlapping classes
	add("ab1 ", false, `[a-z]+[0-9]+`, `[a-z]{2,}[0-9]+`, `[a-z]+[0-9]{2,}`, `[a-z]{3,}[0-9]{2,}`, `[0-9]+[a-z]+`, `[a-z]+[0-9]+[a-z]+`, `[a-z]+[0-9]+[a-z]+[0-9]+`,
		`[a-z0-9]+[0-9]+`, `[a-z]+[a-z0-9]+`, `[a-z0-9]+[a-z]+[0-9]+`, `[a-zA-Z]+\d+`, `[a-z]+[^a-z]+`, `[^0-9]+[0-9]+`)
	add("abc1", false, `[ab]+[bc]+`, `[ab]{2,}[bc]+`, `[ab]+[bc]{2,}`, `[ab]+[ab]+`, `[ab]{2,}[ab]{3,}`, `[ab]+[bc]+[ca]+`, `[ab]{2,}[bc]{2,}[ca]{2,}`, `[abc]+[bc]+[c1]+`,
		`[ab]+[bc]+[ab]+[bc]+`, `[ab]+[ab]+[ab]+`, `[bc]+[ab]+`, `[abc]+[ab]+[a1]+`, `[ab]{3,}[bc]+[ab]{2,}`)
	add("a1_ .", false, `\w+\d+\w+`, `\d+\s+\w+`, `\w+\s+\d+`, `\w+\d+`, `\w{2,}\d+\w+`, `\S+\s+\S+`, `\w+\W+\w+`, `\D+\d+`, `\w+\w+`, `\w+\d+\s+\w+\d+`)
	add("a1. ", false, `[a-z]+[0-9]+[a-z]+[.,]+`, `[a-z]+[.,]+[0-9]+`, `[a-z.]+[0-9.]+[a-z]+[.,]+`)
	// parts the DFA cannot do: the predicate must say no
	add("ab1 ", false, `[a-z]{2,3}[0-9]+`, `[a-z]+[0-9]{2}`, `[a-z][0-9]+`, `[a-z]?[0-9]+`, `[a-z]+[0-9]*`, `[a-z]*[0-9]+`, `[a-z]+[0-9]?[a-z]+`, `[a-z]+[0-9]{1,2}[a-z]+`,
		`[a-z]{1,1000}[0-9]+`, `[a-z]{0,}[0-9]+`, `[a-z]{1,}[0-9]{1,}`)
	// non-greedy, case folding, Latin-1: accepted by the DFA predicate only
	add("ab1 ", false, `[a-z]+?[0-9]+`, `[a-z]+[0-9]+?`, `(?U)[a-z]{2,}[0-9]{2,}`)
	add("abc1", false, `[ab]+?[bc]+`, `[ab]+?[bc]+?[ca]+?`)
	add("aA1k", false, `(?i)[a-c]+[0-9]+`, `(?i)[k]+[0-9]+`)
	add("a1\xc3\xa9\xe9", false, `[a-z\x{e9}]+[0-9]+`, `[a-z]+[\x{80}-\x{ff}]+`)
	// 5–9 parts (9 = too many)
	add("ab1 ", true, `[a-z]+[0-9]+[a-z]+[0-9]+[a-z]+`, `[a-z]+[0-9]+[a-z]+[0-9]+[a-z]+[0-9]+[a-z]+[0-9]+`, `[a-z]+[0-9]+[a-z]+[0-9]+[a-z]+[0-9]+[a-z]+[0-9]+[a-z]+`)
	add("abc1", true, `[ab]+[bc]+[ca]+[ab]+[bc]+[ca]+[ab]+[bc]+`, `[ab]+[ab]+[ab]+[ab]+[ab]+[ab]+[ab]+[ab]+`, `[ab]+[ab]+[ab]+[ab]+[ab]+[ab]+[ab]+[ab]+[ab]+`)
	// large minimums: the 64-configuration limit of the predicate, and the 1024-state limit that makes the constructor give up
	for _, n := range []int{8, 31, 32, 62, 63, 64, 65} {
		add("ab1 ", true, fmt.Sprintf(`[a-z]{%d,}[0-9]+`, n), fmt.Sprintf(`[a-z]+[0-9]{%d,}`, n))
		add("abc1", true, fmt.Sprintf(`[ab]{%d,}[bc]+`, n))
	}
	add("ab1 ", true, `[a-z]{31,}[0-9]{32,}`, `[a-z]{32,}[0-9]{32,}`, `[a-z]{32,}[0-9]{33,}`, `[a-z]{21,}[0-9]{21,}[a-z]{22,}`, `[a-z]{1,}[0-9]{1,}[a-z]{62,}`, `[a-z]{40,}[0-9]{24,}`,
		`[a-z0-9]{30,}[0-9]{30,}`, `[a-z0-9]{20,}[a-z]{20,}[0-9]{20,}`)
	add("abc1", true, `[ab]{20,}[ab]{20,}[ab]{20,}`, `[ab]{30,}[bc]{30,}`, `[ab]{20,}[bc]{20,}`, `[ab]{20,}[bc]{20,}[ca]{20,}`, `[ab]{12,}[bc]{12,}[ca]{12,}`, `[ab]{8,}[bc]{8,}[ca]{8,}`,
		`[ab]{6,}[bc]{6,}[ca]{6,}`, `[ab]{4,}[bc]{4,}[ca]{4,}`, `[ab]{16,}[bc]{16,}[ca]{16,}[ab]{16,}`, `[ab]{5,}[bc]{5,}[ca]{5,}[ab]{5,}[bc]{5,}[ca]{5,}`,
		`[ab]{3,}[bc]{3,}[ca]{3,}[ab]{3,}[bc]{3,}[ca]{3,}[ab]{3,}[bc]{3,}`, `[abc]{21,}[bc]{21,}[c1]{21,}`, `[abc]{8,}[ab]{8,}[bc]{8,}[ca]{8,}`, `[ab]{60,}[bc]{4,}`, `[ab]{4,}[bc]{60,}`, `[ab]{10,}[bc]{10,}`)
	add("a1_ .", true, `\w{20,}\d{20,}\w{20,}`, `\w{10,}\d{10,}\w{10,}`, `\w{6,}\d{6,}\w{6,}`, `\w{8,}\d{8,}\w{8,}\d{8,}`, `\w{20,}\w{20,}\w{20,}`, `\w{32,}\s{32,}`)
	return out
}()

// c19CdfaLongHays: deterministic long haystacks for a pattern whose minimums do not fit in the swept haystacks: runs of the
// alphabet's bytes of lengths around the minimums (tools/fidelity/cdfa).
func c19CdfaLongHays(p, alpha string, sumMin int) [][]byte {
	al := []byte(alpha)
	var out [][]byte
	seed := uint32(2463534242)
	for _, c := range []byte(p) {
		seed = seed*31 + uint32(c)
	}
	rnd := func(n int) int {
		seed ^= seed << 13
		seed ^= seed >> 17
		seed ^= seed << 5
		return int(seed % uint32(n))
	}
	total := 2*sumMin + 20
	for k := 0; k < 6; k++ {
		var h []byte
		for len(h) < total {
			b := al[rnd(len(al))]
			run := 1
			switch rnd(4) {
			case 0:
				run = 1 + rnd(3)
			case 1:
				run = sumMin/2 + rnd(8)
			case 2:
				run = sumMin/3 + rnd(5)
			default:
				run = 1 + rnd(sumMin+4)
			}
			if k == 0 {
				run = sumMin + 2 // long homogeneous runs of every byte in turn
				b = al[(len(h)/run)%len(al)]
			}
			for i := 0; i < run; i++ {
				h = append(h, b)
			}
		}
		out = append(out, h)
	}
	return out
}
