package main

import (
	"encoding/hex"
	"fmt"
	"regexp"
	"regexp/syntax"
	"strings"
	"time"
	"unicode"
	"unicode/utf8"

	"github.com/coregx/coregex"
	"github.com/coregx/coregex/meta"
)

func init() { checks["C08"] = checkC08 }

var tmplPieces = []string{"$", "$$", "$0", "$1", "$2", "$10", "${1}", "${2}x", "${", "}", "$na", "${na}", "${nb}", "$nb_", "$1x", "$01", "${01}",
	"x", "-", " ", "$é", "${é}", "$\xff", "${na", "$_", "${12345678901}", "$9", "ab", "$na$nb", "\\$1",
	// name runes outside ASCII: decimal digits (Nd), letters, and number-like runes that are neither (Nl, No) — after $n, $name and inside ${…}
	"$1٣", "${na٣}", "$٣", "${٣}", "$na٣", "$1é", "$naé", "${1٣}", "$１", "${na１}", "$1ⅷ", "$na²", "${naⅷ}", "$_٣", "$2३x"}

func genTemplate(r *RNG) string {
	n := 1 + r.Intn(4)
	var sb strings.Builder
	for i := 0; i < n; i++ {
		sb.WriteString(r.Pick(tmplPieces))
	}
	return sb.String()
}

// extraNameRunes lists the non-ASCII runes of the template that unicode counts as letter/digit (the Lean models take the set as a parameter).
func extraNameRunes(t string) string {
	var out []string
	seen := map[rune]bool{}
	for _, rn := range t {
		if rn >= 0x80 && rn != utf8.RuneError && !seen[rn] && (unicode.IsLetter(rn) || unicode.IsDigit(rn)) {
			seen[rn] = true
			out = append(out, fmt.Sprint(int(rn)))
		}
	}
	if len(out) == 0 {
		return "-"
	}
	return strings.Join(out, ",")
}

func namesHex(names []string) string {
	if len(names) == 0 {
		return "none"
	}
	p := make([]string, len(names))
	for i, n := range names {
		p[i] = hexOf([]byte(n))
	}
	return strings.Join(p, ",")
}

func intsCSV(a []int) string {
	if len(a) == 0 {
		return "-"
	}
	p := make([]string, len(a))
	for i, v := range a {
		p[i] = fmt.Sprint(v)
	}
	return strings.Join(p, ",")
}

func unhex(s string) string {
	if s == "-" {
		return ""
	}
	b, _ := hex.DecodeString(s)
	return string(b)
}

// runeAligned checks Cx.RuneAligned on a recorded table: a match never ends strictly inside the code point at the search position.
func runeAligned(rows [][]int, h []byte) bool {
	for pos, row := range rows {
		if row == nil || pos >= len(h) {
			continue
		}
		_, w := utf8.DecodeRune(h[pos:])
		if pos < row[1] && pos+w > row[1] {
			return false
		}
	}
	return true
}

type c08case struct {
	kind, api, pattern string
	h                  []byte
	req                string // Lean request computing the model's answer
	got, want          string // implementation, regexp
	hyp                bool
	strat              string
	detail             string
}

func checkC08(r *Report, known []Finding) {
	r.Rule = "Expand: template grammar ($, $$, $n, $nn, ${n}, $name, ${name}, malformed, non-ASCII names) x match vectors (unset, out of range) x named groups; " +
		"Split: n in {-1,0,1,2,3,5} over recorded FindAllStringIndex results; Replace*: recorded FindIndicesAt/FindSubmatchAt tables at every offset fed to the Lean replace-loop model " +
		"(literal, function and template replacement) — model must equal the API; a case is a violation only if the API also differs from regexp; " +
		"non-trivial = template contains '$' / at least one match; distinct by full case"
	nE, nP, nh := 8000, 1500, 5
	if r.Tier == "thorough" {
		nE, nP, nh = 30000, 5000, 8
	}
	root := NewRNG(r.Seed)
	var cases []*c08case
	// ---- Expand / ExpandString: pure functions, compared directly on generated inputs
	groupPats := []string{`(a)(b)?`, `(?P<na>a+)(?P<nb>b)?(c)`, `(?P<na>x)|(?P<na>y)`, `a`, `(((a)))(?P<nb>)`, `(?P<n_1>a)(b)`}
	for i := 0; i < nE; i++ {
		rng := root.Fork(uint64(i) + 10)
		p := groupPats[rng.Intn(len(groupPats))]
		std := regexp.MustCompile(p)
		cx, err := coregex.Compile(p)
		if err != nil {
			continue
		}
		t := genTemplate(rng)
		src := []byte("aabcxyz-é")
		ng := std.NumSubexp() + 1
		var m []int
		nm := ng
		switch rng.Intn(6) {
		case 0:
			nm = rng.Intn(ng + 1) // short match vector
		case 1:
			nm = ng + 2
		}
		for g := 0; g < nm; g++ {
			if rng.Chance(25) {
				m = append(m, -1, -1)
			} else {
				a := rng.Intn(len(src) + 1)
				b := a + rng.Intn(len(src)+1-a)
				m = append(m, a, b)
			}
		}
		if rng.Chance(10) && len(m) > 0 {
			m = m[:len(m)-1] // odd length
		}
		want := string(std.Expand(nil, []byte(t), src, m))
		got := guard(5*time.Second, func() string { return string(cx.Expand(nil, []byte(t), src, m)) })
		gotS := guard(5*time.Second, func() string { return string(cx.ExpandString([]byte("pre:"), t, string(src), m)) })
		wantS := string(std.ExpandString([]byte("pre:"), t, string(src), m))
		args := fmt.Sprintf("%s %s %s %s %s", extraNameRunes(t), hexOf([]byte(t)), hexOf(src), intsCSV(m), namesHex(std.SubexpNames()))
		cases = append(cases,
			&c08case{kind: "expand", api: "Expand", pattern: p, h: src, req: "expand " + args, got: got, want: want, hyp: true, detail: fmt.Sprintf("template=%q match=%v", t, m)},
			&c08case{kind: "stdexpand", api: "regexp.Expand (spec validation)", pattern: p, h: src, req: "stdexpand " + args, got: want, want: want, hyp: true, detail: fmt.Sprintf("template=%q match=%v", t, m)},
			&c08case{kind: "expandS", api: "ExpandString", pattern: p, h: src, req: "", got: gotS, want: wantS, hyp: true, detail: fmt.Sprintf("template=%q match=%v", t, m)},
		)
		r.Case("E\x00"+p+"\x00"+t+fmt.Sprint(m), strings.Contains(t, "$"))
		r.Dist["expand-cases"]++
		if i < 2 {
			r.Sample(map[string]any{"api": "Expand", "pattern": p, "template": t, "match": m, "coregex": got, "regexp": want})
		}
	}
	// ---- QuoteMeta is C09's; Split and Replace* over recorded tables
	opts := GenOpts{MaxDepth: 2}
	deadline := time.Now().Add(8 * time.Minute)
	for i := 0; i < nP && time.Now().Before(deadline); i++ {
		rng := root.Fork(uint64(i) + 100000)
		var p string
		switch i % 4 {
		case 0:
			p = GenPattern(rng, GenOpts{MaxDepth: 2})
			if rng.Bool() {
				p = "(?:" + p + ")*"
			}
		case 1:
			p = "(" + GenPattern(rng, GenOpts{MaxDepth: 1}) + ")(?P<na>" + GenPattern(rng, GenOpts{MaxDepth: 1}) + ")?"
		default:
			p = patternSource(rng, i, opts)
		}
		if i < len(lookbehindProbes) {
			p = lookbehindProbes[i]
		}
		std, err := regexp.Compile(p)
		if err != nil {
			continue
		}
		var cx *coregex.Regex
		var eng *meta.Engine
		if guard(10*time.Second, func() string {
			var e error
			if cx, e = coregex.Compile(p); e != nil {
				return "ERR"
			}
			if eng, e = meta.Compile(p); e != nil {
				return "ERR"
			}
			return ""
		}) != "" {
			continue
		}
		strat := eng.Strategy().String()
		r.Dist["strategy:"+strat]++
		ast, _ := syntax.Parse(p, syntax.Perl)
		nhp := nh
		if i < len(lookbehindProbes) {
			nhp = nh + len(lookbehindHays)
		}
		for k := 0; k < nhp; k++ {
			h := GenHaystack(rng, ast, false)
			if k >= nh {
				h = []byte(lookbehindHays[k-nh])
			}
			if len(h) > 40 {
				h = h[:40]
			}
			s := string(h)
			res := guard(20*time.Second, func() string {
				tbl, rows := findTable(eng, h, false)
				ctbl, crows := findTable(eng, h, true)
				fok := findOK(rows, len(h)) && findOK(crows, len(h)) && runeAligned(rows, h) && runeAligned(crows, h)
				ws := widthsOf(h)
				t, ct := strings.Join(tbl, ","), strings.Join(ctbl, ",")
				add := func(kind, api, req, got, want string) {
					cases = append(cases, &c08case{kind: kind, api: api, pattern: p, h: h, req: req, got: got, want: want, hyp: fok, strat: strat})
				}
				for _, rp := range []string{"X", "", "<>"} {
					req := fmt.Sprintf("replace %s %s %s lit:%s", hexOf(h), ws, t, hexOf([]byte(rp)))
					add("replace", "ReplaceAllLiteral/"+rp, req, string(cx.ReplaceAllLiteral(h, []byte(rp))), string(std.ReplaceAllLiteral(h, []byte(rp))))
					add("replace", "ReplaceAllLiteralString/"+rp, req, cx.ReplaceAllLiteralString(s, rp), std.ReplaceAllLiteralString(s, rp))
					add("replace", "ReplaceAll/"+rp, req, string(cx.ReplaceAll(h, []byte(rp))), string(std.ReplaceAll(h, []byte(rp))))
				}
				reqW := fmt.Sprintf("replace %s %s %s wrap", hexOf(h), ws, t)
				add("replace", "ReplaceAllFunc", reqW, string(cx.ReplaceAllFunc(h, func(m []byte) []byte { return []byte("<" + string(m) + ">") })),
					string(std.ReplaceAllFunc(h, func(m []byte) []byte { return []byte("<" + string(m) + ">") })))
				add("replace", "ReplaceAllStringFunc", reqW, cx.ReplaceAllStringFunc(s, func(m string) string { return "<" + m + ">" }),
					std.ReplaceAllStringFunc(s, func(m string) string { return "<" + m + ">" }))
				for _, tm := range []string{"[$1]", "${1}x$0", "$na-$2", "$$"} {
					req := fmt.Sprintf("replace %s %s %s tmpl:%s:%s", hexOf(h), ws, ct, hexOf([]byte(tm)), namesHex(std.SubexpNames()))
					add("replace", "ReplaceAll/"+tm, req, string(cx.ReplaceAll(h, []byte(tm))), string(std.ReplaceAll(h, []byte(tm))))
					add("replace", "ReplaceAllString/"+tm, req, cx.ReplaceAllString(s, tm), std.ReplaceAllString(s, tm))
				}
				for _, n := range []int{-1, 0, 1, 2, 3, 5} {
					ms := cx.FindAllStringIndex(s, n)
					pe := "0"
					if p == "" {
						pe = "1"
					}
					req := fmt.Sprintf("split %s %s %d %s", pe, hexOf(h), n, spansStr(ms))
					enc := func(parts []string) string {
						if parts == nil {
							return "nil"
						}
						if len(parts) == 0 {
							return "empty"
						}
						q := make([]string, len(parts))
						for i, x := range parts {
							q[i] = hexOf([]byte(x))
						}
						return strings.Join(q, ",")
					}
					add("split", fmt.Sprintf("Split/%d", n), req, enc(cx.Split(s, n)), enc(std.Split(s, n)))
				}
				return fmt.Sprint(len(std.FindAllIndex(h, -1)))
			})
			if strings.HasPrefix(res, "PANIC") || res == "TIMEOUT" {
				attrs := map[string]string{"api": "replace", "strategy": strat, "kind": strings.ToLower(strings.SplitN(res, ":", 2)[0])}
				if f := matchKnown(known, "C08", attrs); f != nil {
					r.Known(f, map[string]string{"pattern": p, "haystack_hex": hexOf(h)})
				} else {
					r.Violate(fmt.Sprintf("Replace/Split of %q on %q: %s", p, h, res), map[string]any{"pattern": p, "haystack_hex": hexOf(h), "result": res}, false)
				}
				continue
			}
			r.Case("R\x00"+p+"\x00"+s, res != "0")
		}
	}
	var reqs []string
	idx := map[int]int{}
	for i, c := range cases {
		if c.req != "" {
			idx[i] = len(reqs)
			reqs = append(reqs, c.req)
		}
	}
	ans, err := RunLean(reqs)
	if err != nil {
		r.Violate("Lean driver failed: "+err.Error(), map[string]any{"correspondence": "C08 models"}, true)
		return
	}
	inc := 0
	for i, c := range cases {
		model := ""
		hasModel := false
		if k, ok := idx[i]; ok {
			hasModel = true
			model = ans[k]
			if c.kind != "split" {
				model = unhex(model)
			}
		}
		t := r.Tie(c.kind + ": Lean model == implementation")
		t.Cases++
		if !c.hyp {
			t.Skipped++
		}
		if c.kind == "stdexpand" { // spec validation: Lean's transliteration of regexp.expand vs the real regexp
			if model != c.want {
				t.Disagreements++
				r.Violate(fmt.Sprintf("spec validation: Cx.Std.stdExpand disagrees with regexp.Expand: %s model=%q regexp=%q", c.detail, model, c.want),
					map[string]any{"correspondence": "Cx.Std.stdExpand vs regexp.Expand", "request": c.req, "regexp": c.want, "model": model}, true)
			}
			continue
		}
		if hasModel && model == c.got && c.got == c.want {
			continue
		}
		if !hasModel && c.got == c.want {
			continue
		}
		if hasModel && model != c.got {
			t.Disagreements++
		}
		if c.got == c.want {
			inc++
			continue
		}
		if hasModel && model == c.got && c.kind != "expand" && !isASCIIBytes(c.h) {
			// the loop did what the model says on the engine's own table; the difference from regexp comes from the
			// single-match function on a non-ASCII haystack: the recorded UTF-8 behaviour of the engines (open findings of C01-C03).
			// On ASCII input the same situation IS reported below: the output is not stdlib's, whatever layer is to blame.
			r.Dist["explained-by-engine-table(non-ASCII haystack: UTF-8 findings of C01-C03)"]++
			continue
		}
		fam := c.api
		if j := strings.IndexByte(fam, '/'); j >= 0 {
			fam = fam[:j]
		}
		attrs := map[string]string{"api": fam, "strategy": c.strat, "kind": diffKind(fmt.Sprintf("%q", c.want), fmt.Sprintf("%q", c.got))}
		if !utf8.Valid(c.h) {
			attrs["hay"] = "ill-formed"
		}
		if f := matchKnown(known, "C08", attrs); f != nil {
			r.Known(f, map[string]string{"pattern": c.pattern, "haystack_hex": hexOf(c.h), "api": c.api})
			continue
		}
		r.Violate(fmt.Sprintf("%s of %q on %q %s [%s]: coregex=%q regexp=%q model=%q", c.api, c.pattern, c.h, c.detail, c.strat, c.got, c.want, model),
			map[string]any{"pattern": c.pattern, "haystack_hex": hexOf(c.h), "api": c.api, "detail": c.detail, "coregex": c.got, "regexp": c.want, "model": model,
				"request": c.req, "strategy": c.strat}, false)
	}
	r.Extra["tie_inconclusive_api_equals_regexp"] = inc
	replayKnownExamples(r, known, "C08")
}
