package main

func cmdCheck(args []string) int { return 0 }
