package main

import (
	"fmt"
	"regexp"
	"regexp/syntax"
	"strings"
	"sync"
	"time"
	"unicode/utf8"

	"github.com/coregx/coregex"
	"github.com/coregx/coregex/meta"
)

// e2eSpec describes one end-to-end differential against regexp (the authority the properties name).
type e2eSpec struct {
	prop     string
	obs      []Obs
	longest  bool
	np, nh   int // quick
	npT, nhT int // thorough
	nontriv  func(want string) bool
	posix    bool
	probes   []string // shapes aimed at this property's mechanisms: run first, before the corpus
}

var slowE2E sync.Mutex

type e2eDis struct {
	p, api, want, got, strat string
	h                        []byte
}

// runE2E generates patterns/haystacks, compares every observation of coregex with regexp, classifies disagreements
// against the known findings of the property and reports the rest.
func runE2E(r *Report, known []Finding, sp e2eSpec) {
	np, nh := sp.np, sp.nh
	if r.Tier == "thorough" {
		np, nh = sp.npT, sp.nhT
	}
	root := NewRNG(r.Seed)
	type job struct {
		i int
		p string
		r *RNG
	}
	jobs := make(chan job, 64)
	var mu sync.Mutex
	var dis []e2eDis
	var wg sync.WaitGroup
	deadline := time.Now().Add(10 * time.Minute)
	for w := 0; w < 12; w++ {
		wg.Add(1)
		go func() {
			defer wg.Done()
			for j := range jobs {
				if time.Now().After(deadline) {
					continue
				}
				var std *regexp.Regexp
				var err error
				if sp.posix {
					std, err = regexp.CompilePOSIX(j.p)
				} else {
					std, err = regexp.Compile(j.p)
				}
				if err != nil {
					continue
				}
				var cx *coregex.Regex
				if guard(10*time.Second, func() string {
					var e error
					if sp.posix {
						cx, e = coregex.CompilePOSIX(j.p)
					} else {
						cx, e = coregex.Compile(j.p)
					}
					if e != nil {
						return "ERR:" + e.Error()
					}
					return ""
				}) != "" {
					continue // acceptance is C09's subject
				}
				if sp.longest {
					std.Longest()
					cx.Longest()
				}
				strat := strategyOf(j.p)
				flags := syntax.Flags(syntax.Perl)
				if sp.posix {
					flags = syntax.POSIX
				}
				ast, _ := syntax.Parse(j.p, flags)
				var local []e2eDis
				nontriv := 0
				nhp := nh
				ctxPairs := []string{" a", "- 9", "a ", "ab", "  ", "a\n", "\na", "_-"}
				if j.i < len(sp.probes) {
					// probes also meet inputs stretched across the internal budgets and windows, in systematic variants, and a sampled
					// match behind every combination of (word / non-word) x (word / non-word) context bytes: the byte before a candidate
					// and the byte before THAT decide assertions and start states
					nhp = nh + 24 + len(ctxPairs) + 6
				}
				for k := 0; k < nhp; k++ {
					h := GenHaystack(j.r, ast, false)
					if k >= nh+24+len(ctxPairs) {
						// a failed attempt directly followed by a match that starts inside the bytes it consumed: m[:cut] + m
						b := 30
						m := sampleMatch(j.r, ast, nil, &b)
						if len(m) > 1 {
							h = append(append([]byte(nil), m[:1+j.r.Intn(len(m)-1)]...), m...)
						}
					} else if k >= nh+24 {
						b := 40
						h = sampleMatch(j.r, ast, []byte(ctxPairs[k-nh-24]), &b)
						if j.r.Bool() {
							h = append(h, ' ')
						}
					} else if k >= nh {
						v := k - nh
						if sh := GenStretchedVariant(j.r, ast, v%3, v%6 >= 3 && v%12 < 6); sh != nil {
							h = sh
						}
					}
					if k%7 == 6 { // a long one: window logic, prefilter blocks
						var big []byte
						for len(big) < 400 {
							big = append(big, GenHaystack(j.r, ast, false)...)
							big = append(big, " \n"[j.r.Intn(2)])
						}
						h = big
					}
					for _, o := range sp.obs {
						want := o.Fn(std, h)
						got := guard(10*time.Second, func() string { return o.Fn(cx, h) })
						if got == "TIMEOUT" {
							// slow is not wrong: repeated alone with a long deadline (the workers share the machine); a call that still does
							// not come back is reported as it is
							slowE2E.Lock()
							got = guard(180*time.Second, func() string { return o.Fn(cx, h) })
							slowE2E.Unlock()
						}
						if sp.nontriv != nil && sp.nontriv(want) {
							nontriv++
						}
						if want != got {
							local = append(local, e2eDis{p: j.p, api: o.API, want: want, got: got, strat: strat, h: h})
						}
					}
				}
				mu.Lock()
				r.Dist["strategy:"+strat]++
				for k := 0; k < nh; k++ {
					r.Evaluations++
				}
				if nontriv > 0 {
					r.distinct[j.p] = true
				}
				dis = append(dis, local...)
				mu.Unlock()
			}
		}()
	}
	opts := GenOpts{MaxDepth: 3}
	for i := 0; i < np; i++ {
		rg := root.Fork(uint64(i) + 1)
		p := patternSource(rg, i, opts)
		if i < len(sp.probes) {
			p = sp.probes[i]
		} else if j := i - len(sp.probes); j < len(corpusPatterns) && np >= 2*len(corpusPatterns) {
			p = corpusPatterns[j] // the regression corpus is replayed in full, in order, before anything is generated
		}
		if sp.posix && strings.ContainsAny(p, `\?`) && strings.Contains(p, `(?`) {
			continue
		}
		jobs <- job{i, p, rg}
	}
	close(jobs)
	wg.Wait()
	t := r.Tie("coregex API == regexp API on generated (pattern, haystack)")
	t.Cases = r.Evaluations * len(sp.obs)
	reported := map[string]bool{}
	shrunk := 0
	for _, d := range dis {
		t.Disagreements++
		fam := d.api
		if j := strings.IndexByte(fam, '/'); j >= 0 {
			fam = fam[:j]
		}
		attrs := map[string]string{"api": fam, "strategy": d.strat, "kind": diffKind(d.want, d.got)}
		if ast, err := syntax.Parse(d.p, syntax.Perl); err == nil {
			for _, tg := range featuresOf(ast).Tags() {
				attrs[tg] = "true"
			}
		}
		if !utf8.Valid(d.h) {
			attrs["hay"] = "ill-formed"
		} else if len(d.h) != utf8.RuneCount(d.h) {
			attrs["hay"] = "multibyte"
		} else {
			attrs["hay"] = "ascii"
		}
		attrs["pf"] = primaryFeature(attrs)
		if f := matchKnown(known, sp.prop, attrs); f != nil {
			r.Known(f, map[string]string{"pattern": d.p, "haystack_hex": hexOf(d.h), "api": d.api, "regexp": d.want, "coregex": d.got})
			continue
		}
		key := d.p + "\x00" + fam
		if reported[key] {
			continue
		}
		reported[key] = true
		hh := d.h
		if len(hh) > 120 {
			hh = hh[:120]
		}
		rep := map[string]any{"pattern": d.p, "haystack_hex": hexOf(d.h), "api": d.api, "coregex": d.got, "regexp": d.want, "strategy": d.strat, "longest": sp.longest, "attrs": attrs,
			"learn_signature": learnSignature(attrs)}
		what := fmt.Sprintf("%s of %q on %q [%s]: coregex=%.200s regexp=%.200s", d.api, d.p, hh, d.strat, d.got, d.want)
		if shrunk < 25 {
			// a locally minimal witness of the same disagreement (the classification above uses the case as generated)
			shrunk++
			for _, o := range sp.obs {
				if o.API == d.api {
					sp2, sh2, w2, g2 := shrinkE2E(d.p, d.h, o, sp.longest, sp.posix, 400)
					if w2 != "" && (len(sp2) < len(d.p) || len(sh2) < len(d.h)) {
						rep["shrunk"] = map[string]string{"pattern": sp2, "haystack_hex": hexOf(sh2), "coregex": g2, "regexp": w2, "strategy": strategyOf(sp2)}
						what += fmt.Sprintf("; shrunk: %q on %q [%s]: coregex=%.80s regexp=%.80s", sp2, sh2, strategyOf(sp2), g2, w2)
					}
				}
			}
		}
		r.Violate(what, rep, false)
	}
	if len(dis) == 0 || true {
		r.Sample(map[string]any{"apis": func() []string {
			var a []string
			for _, o := range sp.obs {
				a = append(a, o.API)
			}
			return a
		}(), "patterns": np, "haystacks_per_pattern": nh})
	}
	_ = meta.UseNFA
}

// primaryFeature names the single most telling attribute of a disagreement, in a fixed priority order; known findings
// of the end-to-end properties are keyed by (strategy, primary feature).
func primaryFeature(a map[string]string) string {
	if a["hay"] == "ill-formed" {
		return "ill-formed-haystack"
	}
	// a multi-byte haystack comes first: the byte-level engines step byte by byte, so a match (an empty one, one starting with
	// an assertion, one starting with a class that has an invalid-byte branch) can start or end INSIDE an encoded rune, whatever
	// else the pattern contains
	if a["nonascii"] == "true" && a["hay"] == "multibyte" {
		return "nonascii-class-on-multibyte"
	}
	if a["hay"] == "multibyte" {
		return "multibyte-haystack"
	}
	for _, f := range []string{"wordb", "linea", "texta", "fold", "lazy"} {
		if a[f] == "true" {
			return f
		}
	}
	if a["nonascii"] == "true" {
		return "nonascii-class"
	}
	if a["emptyok"] == "true" {
		return "emptyok"
	}
	return "plain"
}

// brokenStrategies: dispatch paths that disagree with regexp in many independent ways; their end-to-end findings are
// recorded per strategy, the comparatively clean strategies per (strategy, primary feature).
var brokenStrategies = map[string]bool{}

// learnSignature is the signature under which a new end-to-end disagreement would be recorded as a finding.
func learnSignature(a map[string]string) map[string]string {
	// the three UTF-8 classes have ONE root cause each, in the automaton all strategies share (byte-level classes with an
	// invalid-byte branch; byte-wise stepping of unanchored searches), so they are keyed by the feature alone
	switch a["pf"] {
	case "ill-formed-haystack", "nonascii-class-on-multibyte", "multibyte-haystack":
		return map[string]string{"pf": a["pf"]}
	}
	if brokenStrategies[a["strategy"]] {
		return map[string]string{"strategy": a["strategy"]}
	}
	return map[string]string{"strategy": a["strategy"], "pf": a["pf"]}
}
