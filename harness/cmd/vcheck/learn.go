package main

import (
	"encoding/json"
	"fmt"
	"os"
	"path/filepath"
	"sort"
	"strings"
)

// cmdLearn (maintenance tool, never run by a check): runs a property's check over a range of seeds with the current known
// findings, groups the remaining violations by (strategy, primary feature) and prints ready-to-review known-finding entries.
var learnTier = "quick"

func cmdLearn(args []string) int {
	prop := args[0]
	if len(args) > 3 {
		learnTier = args[3]
	}
	from, to := 1, 10
	if len(args) > 2 {
		fmt.Sscan(args[1], &from)
		fmt.Sscan(args[2], &to)
	}
	fn := checks[prop]
	type ent struct {
		n  int
		ex map[string]any
	}
	groups := map[string]*ent{}
	for s := from; s <= to; s++ {
		r := NewReport(prop, learnTier, uint64(s))
		fn(r, loadKnown())
		for _, v := range r.Violations {
			sig, _ := v.Replay["learn_signature"].(map[string]string)
			if sig == nil {
				fmt.Println("UNKEYED:", v.What)
				continue
			}
			var ks []string
			for k, x := range sig {
				ks = append(ks, k+"="+x)
			}
			sort.Strings(ks)
			k := strings.Join(ks, ";")
			if groups[k] == nil {
				groups[k] = &ent{ex: v.Replay}
			}
			groups[k].n++
		}
	}
	var keys []string
	for k := range groups {
		keys = append(keys, k)
	}
	sort.Strings(keys)
	var out []Finding
	for _, k := range keys {
		g := groups[k]
		sig := g.ex["learn_signature"].(map[string]string)
		id := prop + "-e2e"
		for _, f := range []string{"config", "strategy", "pf"} {
			if sig[f] != "" {
				id += "-" + sig[f]
			}
		}
		if len(sig) == 1 && sig["pf"] == "ill-formed-haystack" {
			id = prop + "-e2e-illformed"
		}
		f := Finding{ID: id, Property: prop, Status: "open",
			What:      fmt.Sprintf("disagreement class %s, e.g. %v of %q: coregex=%.60v expected=%.60v", k, g.ex["api"], g.ex["pattern"], g.ex["coregex"], g.ex["regexp"]),
			Signature: sig,
			Example:   map[string]string{"pattern": fmt.Sprint(g.ex["pattern"]), "haystack_hex": fmt.Sprint(g.ex["haystack_hex"]), "api": fmt.Sprint(g.ex["api"])}}
		if lg, _ := g.ex["longest"].(bool); lg {
			f.Example["longest"] = "true"
		}
		if c, ok := g.ex["config"].(string); ok {
			f.Example["config"] = c
			f.Example["kind"] = "config"
		}
		if rel, ok := g.ex["relation"].(string); ok {
			f.Example["kind"] = "relation"
			f.Example["relation"] = rel
		}
		out = append(out, f)
		fmt.Printf("%4d %s\n", g.n, k)
	}
	b, _ := json.MarshalIndent(out, "", " ")
	os.WriteFile(filepath.Join(os.TempDir(), "learn_"+prop+".json"), b, 0o644)
	fmt.Println("wrote", filepath.Join(os.TempDir(), "learn_"+prop+".json"), len(out), "entries")
	return 0
}
