package main

import (
	"encoding/json"
	"fmt"
	"os"
	"path/filepath"
	"sort"
)

// cmdLearn (maintenance tool, never run by a check): runs a property's check over a range of seeds with the current known
// findings, groups the remaining violations by (strategy, primary feature) and prints ready-to-review known-finding entries.
func cmdLearn(args []string) int {
	prop := args[0]
	from, to := 1, 10
	if len(args) > 2 {
		fmt.Sscan(args[1], &from)
		fmt.Sscan(args[2], &to)
	}
	fn := checks[prop]
	type ent struct {
		n  int
		ex map[string]any
	}
	groups := map[string]*ent{}
	for s := from; s <= to; s++ {
		r := NewReport(prop, "quick", uint64(s))
		fn(r, loadKnown())
		for _, v := range r.Violations {
			a, _ := v.Replay["attrs"].(map[string]string)
			if a == nil {
				fmt.Println("UNKEYED:", v.What)
				continue
			}
			k := a["strategy"] + "|" + a["pf"]
			if groups[k] == nil {
				groups[k] = &ent{ex: v.Replay}
			}
			groups[k].n++
		}
	}
	var keys []string
	for k := range groups {
		keys = append(keys, k)
	}
	sort.Strings(keys)
	var out []Finding
	for _, k := range keys {
		g := groups[k]
		a := g.ex["attrs"].(map[string]string)
		f := Finding{ID: fmt.Sprintf("%s-e2e-%s-%s", prop, a["strategy"], a["pf"]), Property: prop, Status: "open",
			What: fmt.Sprintf("under strategy %s, patterns/inputs with primary feature %q disagree with regexp, e.g. %s of %q: coregex=%.60v regexp=%.60v",
				a["strategy"], a["pf"], g.ex["api"], g.ex["pattern"], g.ex["coregex"], g.ex["regexp"]),
			Signature: map[string]string{"strategy": a["strategy"], "pf": a["pf"]},
			Example:   map[string]string{"pattern": fmt.Sprint(g.ex["pattern"]), "haystack_hex": fmt.Sprint(g.ex["haystack_hex"]), "api": fmt.Sprint(g.ex["api"])}}
		if lg, _ := g.ex["longest"].(bool); lg {
			f.Example["longest"] = "true"
		}
		out = append(out, f)
		fmt.Printf("%4d %s\n", g.n, k)
	}
	b, _ := json.MarshalIndent(out, "", " ")
	os.WriteFile(filepath.Join(os.TempDir(), "learn_"+prop+".json"), b, 0o644)
	fmt.Println("wrote", filepath.Join(os.TempDir(), "learn_"+prop+".json"), len(out), "entries")
	return 0
}
