package main

import (
	"fmt"
	"regexp"
	"regexp/syntax"
	"runtime"
	"strings"
	"time"

	"github.com/coregx/coregex"
	"github.com/coregx/coregex/dfa/lazy"
	"github.com/coregx/coregex/nfa"
)

func init() { checks["C13"] = checkC13 }

func checkC13(r *Report, known []Finding) {
	r.Rule = "histories: (a) visited-table model vs BacktrackerState over sequences of searches of growing/shrinking lengths incl. > 65536 generation bumps (Generation, len, cap after every call); " +
		"(b) one aged value vs a fresh value per call: every call of a generated history (mixed APIs, haystack lengths growing and shrinking, runtime.GC between calls) must return what a freshly " +
		"compiled Regex returns; (c) lazy DFA with one reused cache (tiny capacities, clears) vs a fresh cache per call; (d) backtracker state reused across the generation wrap vs fresh state; " +
		"non-trivial = the call finds a match; distinct by (pattern, history index)"
	root := NewRNG(r.Seed)
	// ---- (a) visited model vs real state
	{
		n, _ := nfa.NewDefaultCompiler().Compile(`ab`)
		bt := nfa.NewBoundedBacktracker(n)
		st := nfa.NewBacktrackerState()
		ns := bt.NumStates()
		var ops, obs []string
		rng := root.Fork(1)
		record := func() { obs = append(obs, fmt.Sprintf("%d:%d:%d", st.Generation, len(st.Visited), cap(st.Visited))) }
		tinv := r.Tie("BacktrackerState invariant: every stamp in the backing array <= Generation (after every call)")
		staleReported := false
		calls := 70000 // more than one full period of the uint16 generation counter (one bump per call)
		if r.Tier == "thorough" {
			calls = 200000
		}
		for i := 0; i < calls; i++ {
			ln := []int{0, 1, 3, 10, 40, 100, 150}[rng.Intn(7)]
			h := []byte(strings.Repeat("z", ln))
			if rng.Chance(30) {
				bt.IsMatchWithState(h, st)
				ops = append(ops, fmt.Sprintf("r%d", ns*(ln+1)))
				record()
			} else if rng.Chance(25) {
				// leftmost-longest mode: like leftmost-first, one reset and the table shared by all start positions (an entry is only
				// left by a configuration explored completely without a match, whatever the start)
				at := 0
				if ln > 0 {
					at = rng.Intn(ln + 1)
				}
				st.Longest = true
				bt.SearchAtWithState(h, at, st)
				st.Longest = false
				ops = append(ops, fmt.Sprintf("r%d", ns*(ln-at+1)))
				record()
			} else {
				at := 0
				if ln > 0 {
					at = rng.Intn(ln + 1)
				}
				bt.SearchAtWithState(h, at, st) // leftmost-first mode: one reset, the table is shared by all start positions
				ops = append(ops, fmt.Sprintf("r%d", ns*(ln-at+1)))
				record()
			}
			r.Case(fmt.Sprintf("vis\x00%d", i), true)
			// the inductive invariant behind vis_fresh_*: no stamp anywhere in the backing array (also beyond len) is newer than
			// the current generation, so the next bump makes every entry unvisited
			if !staleReported {
				full := st.Visited[:cap(st.Visited)]
				for k, v := range full {
					if v > st.Generation {
						staleReported = true
						tinv.Disagreements++
						r.Violate(fmt.Sprintf("visited table after call %d (%s): entry %d of the backing array (len %d, cap %d) carries stamp %d > current generation %d; it becomes a false 'visited' when the counter reaches it on a longer input",
							i, ops[len(ops)-1], k, len(st.Visited), cap(st.Visited), v, st.Generation),
							map[string]any{"correspondence": "invariant of Cx.State.Vis (stamps <= generation) on nfa.BacktrackerState", "call_index": i, "entry": k, "stamp": v, "generation": st.Generation,
								"history": "pattern ab; calls are IsMatchWithState / SearchAtWithState (leftmost-first and leftmost-longest) on z^n, n in {0,1,3,10,40,100,150}, seed-derived"}, false)
						break
					}
				}
				tinv.Cases++
			}
		}
		ans, err := RunLean([]string{"vis " + strings.Join(ops, ",")})
		if err != nil {
			r.Violate("Lean driver failed: "+err.Error(), map[string]any{"correspondence": "C13 visited model"}, true)
			return
		}
		got := strings.Split(ans[0], ",")
		t := r.Tie("Cx.State.Vis model == BacktrackerState (Generation, len, cap) after every search")
		// cap: the model's backing array has exactly the largest size ever requested; Go's make gives exactly n as well
		for i := range obs {
			if obs[i] == "-" {
				continue
			}
			t.Cases++
			if i >= len(got) || got[i] != obs[i] {
				t.Disagreements++
				g := "?"
				if i < len(got) {
					g = got[i]
				}
				r.Violate(fmt.Sprintf("visited table: after op %d (%s) implementation gen:len:cap=%s model=%s", i, ops[i], obs[i], g),
					map[string]any{"correspondence": "Cx.State.Vis vs nfa.BacktrackerState", "op_index": i, "ops_prefix": strings.Join(ops[:min(i+1, 60)], ","), "implementation": obs[i], "model": g}, false)
				break
			}
		}
		r.Sample(map[string]any{"visited_ops": strings.Join(ops[:12], ","), "implementation": obs[:12]})
	}
	// ---- (d) reuse across the generation wrap vs fresh state
	{
		t := r.Tie("backtracker: reused state across the uint16 generation wrap == fresh state")
		for _, p := range []string{`ab`, `a+b`, `(a|b)*c`, `\bx`} {
			n, err := nfa.NewDefaultCompiler().Compile(p)
			if err != nil {
				continue
			}
			bt := nfa.NewBoundedBacktracker(n)
			st := nfa.NewBacktrackerState()
			long := []byte("zzzzzzzz ab aab abc x")
			short := []byte("z")
			bt.IsMatchWithState(long, st)
			bt.IsMatchWithState(long, st)
			for i := 0; i < 66000; i++ {
				bt.IsMatchWithState(short, st)
				if i%997 == 0 || st.Generation < 4 {
					t.Cases++
					a := bt.IsMatchWithState(long, st)
					s1, e1, ok1 := bt.SearchAtWithState(long, 0, st)
					fs := nfa.NewBacktrackerState()
					b := bt.IsMatchWithState(long, fs)
					s2, e2, ok2 := bt.SearchAtWithState(long, 0, nfa.NewBacktrackerState())
					if a != b || s1 != s2 || e1 != e2 || ok1 != ok2 {
						t.Disagreements++
						r.Violate(fmt.Sprintf("backtracker %q: after %d searches on one state (generation %d) IsMatch=%v Search=%d,%d,%v; fresh state IsMatch=%v Search=%d,%d,%v",
							p, i+3, st.Generation, a, s1, e1, ok1, b, s2, e2, ok2),
							map[string]any{"pattern": p, "history": fmt.Sprintf("2 long, %d short, then long", i+1), "haystack": string(long)}, false)
						break
					}
				}
			}
			r.Case("wrap\x00"+p, true)
		}
	}
	// ---- (c) lazy DFA: reused cache vs fresh cache
	np := 120
	if r.Tier == "thorough" {
		np = 1500
	}
	{
		t := r.Tie("lazy DFA: one reused cache == fresh cache per call")
		for i := 0; i < np; i++ {
			rng := root.Fork(uint64(i) + 1000)
			p := patternSource(rng, i, GenOpts{MaxDepth: 2})
			n, err := nfa.NewDefaultCompiler().Compile(p)
			if err != nil || n.States() > 300 {
				continue
			}
			ast, _ := syntax.Parse(p, syntax.Perl)
			feat := featuresOf(ast)
			for _, capb := range []int{700, 3000, 2 << 20} {
				cfg := lazy.DefaultConfig().WithCacheCapacity(capb).WithMaxCacheClears(3).WithPrefilter(false)
				d, err := lazy.CompileWithConfig(n, cfg)
				if err != nil {
					continue
				}
				aged := d.NewCache()
				for k := 0; k < 25; k++ {
					h := GenHaystack(rng, ast, false)
					at := 0
					if len(h) > 0 && rng.Chance(40) {
						at = rng.Intn(len(h) + 1)
					}
					t.Cases++
					var a1, a2 string
					res := guard(10*time.Second, func() string {
						a1 = fmt.Sprint(d.IsMatch(aged, h), d.SearchAt(aged, h, at))
						fc := d.NewCache()
						a2 = fmt.Sprint(d.IsMatch(fc, h), d.SearchAt(d.NewCache(), h, at))
						return ""
					})
					r.Case(fmt.Sprintf("dfa\x00%s\x00%d\x00%d", p, capb, k), strings.HasPrefix(a2, "true"))
					if res != "" || a1 != a2 {
						t.Disagreements++
						attrs := map[string]string{"engine": "lazydfa", "kind": "history", "cap": map[bool]string{true: "default", false: "small"}[capb >= 1<<20]}
						for _, tg := range feat.Tags() {
							attrs[tg] = "true"
						}
						if f := matchKnown(known, "C13", attrs); f != nil {
							r.Known(f, map[string]string{"pattern": p, "haystack_hex": hexOf(h), "at": fmt.Sprint(at), "cap": fmt.Sprint(capb), "aged": a1, "fresh": a2})
							continue
						}
						r.Violate(fmt.Sprintf("lazy DFA %q cap=%d: call %d on %q at=%d: reused cache (IsMatch SearchAt)=%s fresh cache=%s %s", p, capb, k, h, at, a1, a2, res),
							map[string]any{"pattern": p, "capacity": capb, "call_index": k, "haystack_hex": hexOf(h), "at": at, "aged": a1, "fresh": a2}, false)
					}
				}
			}
		}
	}
	// ---- (b2) capture scratch: optional groups that take part in one search and not in the next, failed attempts in between
	{
		t := r.Tie("Regex captures: aged value == fresh value over histories in which optional groups come and go")
		tmpl := []string{`^(a+)(b)?a*c`, `^(a)?(b)?c`, `^(\w+)(?:=(\w+))? *;`, `(\d+)?-x`, `(a)?c+b`, `^(?:(a)|(b)|(ab))*c`, `^(\d+)(?:\.(\d+))?(?:-(\w+))?$`,
			`(?P<sign>[+-])?\d+\.\d+`, `^(\w+?)(\d)?\w*;`, `(x)?(y)?z`, `^(?:(foo)|(bar))?baz`, `(a)|(b)|(c)`, `(?i)(h\w+) (w\w+)`, `(x*)(x?)(y)?`, `(?i)(content-\w+):\s*(\S+)?`}
		nb := np / 2
		for i := 0; i < len(tmpl)+nb; i++ {
			rng := root.Fork(uint64(i) + 70000)
			var p string
			if i < len(tmpl) {
				p = tmpl[i]
			} else {
				p = "(" + GenPattern(rng, GenOpts{MaxDepth: 1, NoLook: true}) + ")?" + GenPattern(rng, GenOpts{MaxDepth: 1}) + "(" + GenPattern(rng, GenOpts{MaxDepth: 1, NoLook: true}) + ")?"
				if rng.Bool() {
					p = "^" + p
				}
			}
			if _, err := regexp.Compile(p); err != nil {
				continue
			}
			aged, err := coregex.Compile(p)
			if err != nil {
				continue
			}
			ast, _ := syntax.Parse(p, syntax.Perl)
			strat := strategyOf(p)
			for k := 0; k < 24; k++ {
				b := 30
				h := sampleMatch(rng, ast, nil, &b)
				switch k % 4 {
				case 1:
					if len(h) > 0 {
						h = h[:len(h)-1] // a failed (or shorter) attempt that has already written capture positions
					}
				case 2:
					h = append([]byte("~ "), h...)
				case 3:
					h = append(h, h...)
				}
				if len(h) > 60 {
					h = h[:60]
				}
				if k%3 == 2 {
					aged.FindIndex(h) // a plain find in between: the engines share slot tables between the two kinds of search
					aged.Match(h)
				}
				for _, o := range []Obs{obsSubmatch()[0], obsFindAll([]int{-1})[4]} {
					t.Cases++
					var a1, a2 string
					res := guard(20*time.Second, func() string {
						a1 = o.Fn(aged, h)
						fresh, e := coregex.Compile(p)
						if e != nil {
							return "ERR"
						}
						a2 = o.Fn(fresh, h)
						return ""
					})
					r.Case(fmt.Sprintf("caps\x00%s\x00%d\x00%s", p, k, o.API), a2 != "nil" && a2 != "[]")
					if res != "" || a1 != a2 {
						t.Disagreements++
						r.Violate(fmt.Sprintf("%s of %q [%s], call %d of a history on %q: aged value=%s fresh value=%s %s", o.API, p, strat, k, h, a1, a2, res),
							map[string]any{"pattern": p, "strategy": strat, "api": o.API, "call_index": k, "haystack_hex": hexOf(h), "aged": a1, "fresh": a2}, false)
						break
					}
				}
			}
		}
	}
	// ---- (b) API level: aged value vs fresh value
	{
		t := r.Tie("Regex: aged value == fresh value, call by call")
		obs := append(append(append(obsMatch(), obsFind()[:1]...), obsSubmatch()[:1]...), obsFindAll([]int{-1})[:1]...)
		obs = append(obs, obsExtra()[1]) // Count/-1
		for i := 0; i < np; i++ {
			rng := root.Fork(uint64(i) + 50000)
			p := patternSource(rng, i, GenOpts{MaxDepth: 2})
			if _, err := regexp.Compile(p); err != nil {
				continue
			}
			var aged *coregex.Regex
			if guard(10*time.Second, func() string {
				var e error
				aged, e = coregex.Compile(p)
				if e != nil {
					return "ERR"
				}
				return ""
			}) != "" {
				continue
			}
			ast, _ := syntax.Parse(p, syntax.Perl)
			strat := strategyOf(p)
			r.Dist["strategy:"+strat]++
			// history: haystack lengths grow and shrink; a few long ones to fill caches
			for k := 0; k < 18; k++ {
				h := GenHaystack(rng, ast, false)
				if k%6 == 5 {
					var big []byte
					for len(big) < 3000 {
						big = append(big, GenHaystack(rng, ast, false)...)
						big = append(big, ' ')
					}
					h = big
				}
				if k%7 == 3 {
					runtime.GC()
				}
				o := obs[rng.Intn(len(obs))]
				t.Cases++
				var a1, a2 string
				res := guard(20*time.Second, func() string {
					a1 = o.Fn(aged, h)
					fresh, e := coregex.Compile(p)
					if e != nil {
						return "ERR"
					}
					a2 = o.Fn(fresh, h)
					return ""
				})
				r.Case(fmt.Sprintf("api\x00%s\x00%d", p, k), a2 != "false" && a2 != "nil" && a2 != "0")
				if res != "" || a1 != a2 {
					t.Disagreements++
					attrs := map[string]string{"strategy": strat, "kind": "history", "api": strings.SplitN(o.API, "/", 2)[0]}
					if f := matchKnown(known, "C13", attrs); f != nil {
						r.Known(f, map[string]string{"pattern": p, "haystack_hex": hexOf(h), "api": o.API, "aged": a1, "fresh": a2})
						continue
					}
					hh := h
					if len(hh) > 80 {
						hh = hh[:80]
					}
					r.Violate(fmt.Sprintf("%s of %q [%s], call %d of the history on %q…: aged value=%s fresh value=%s %s", o.API, p, strat, k, hh, a1, a2, res),
						map[string]any{"pattern": p, "strategy": strat, "api": o.API, "call_index": k, "haystack_hex": hexOf(h), "aged": a1, "fresh": a2}, false)
				}
			}
		}
	}
	replayKnownExamples(r, known, "C13")
}

func init() {
	exampleReplayers["dfa-history"] = func(f Finding) bool {
		p := f.Example["pattern"]
		n, err := nfa.NewDefaultCompiler().Compile(p)
		if err != nil {
			return true
		}
		ast, _ := syntax.Parse(p, syntax.Perl)
		d, err := lazy.CompileWithConfig(n, lazy.DefaultConfig().WithPrefilter(false))
		if err != nil {
			return true
		}
		aged := d.NewCache()
		rng := NewRNG(12345)
		for k := 0; k < 200; k++ {
			h := GenHaystack(rng, ast, false)
			if fmt.Sprint(d.IsMatch(aged, h), d.SearchAt(aged, h, 0)) != fmt.Sprint(d.IsMatch(d.NewCache(), h), d.SearchAt(d.NewCache(), h, 0)) {
				return true
			}
		}
		return false
	}
	exampleReplayers["api-history"] = func(f Finding) bool {
		p := f.Example["pattern"]
		aged, err := coregex.Compile(p)
		if err != nil {
			return true
		}
		ast, _ := syntax.Parse(p, syntax.Perl)
		rng := NewRNG(12345)
		for k := 0; k < 300; k++ {
			h := GenHaystack(rng, ast, false)
			if k%6 == 5 {
				var big []byte
				for len(big) < 3000 {
					big = append(big, GenHaystack(rng, ast, false)...)
					big = append(big, ' ')
				}
				h = big
			}
			fresh, _ := coregex.Compile(p)
			if aged.Match(h) != fresh.Match(h) || fmt.Sprint(aged.FindAllIndex(h, -1)) != fmt.Sprint(fresh.FindAllIndex(h, -1)) {
				return true
			}
		}
		return false
	}
}
