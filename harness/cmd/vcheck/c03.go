package main

import (
	"bytes"
	"fmt"
	"regexp"
	"regexp/syntax"
	"strings"
	"sync"
	"time"
	"unicode/utf8"

	"github.com/coregx/coregex"
	"github.com/coregx/coregex/meta"
)

func init() {
	checks["C03"] = checkC03
	checks["C10"] = checkC10
	checks["C11"] = checkC11
	checks["C12"] = checkC12
}

func checkC03(r *Report, known []Finding) {
	r.Rule = "end-to-end: FindSubmatch, FindStringSubmatch, FindSubmatchIndex, FindStringSubmatchIndex, FindReaderSubmatchIndex vs regexp on capture-bearing patterns (nested, repeated, lazy, " +
		"empty and optional groups; corpus/mutation/grammar) x haystacks derived from the pattern incl. the empty haystack; number of groups = NumSubexp()+1; the capture engines are tied to the " +
		"reference on dumped NFAs by the C14/C03 engine ties; non-trivial = a match with at least one group set; distinct by pattern"
	obs := append(obsSubmatch(), obsReader()[2], Obs{"len(FindSubmatchIndex)==2*(NumSubexp+1)", func(re StdAPI, h []byte) string {
		m := re.FindSubmatchIndex(h)
		if m == nil {
			return "nil"
		}
		return fmt.Sprint(len(m) == 2*(re.NumSubexp()+1))
	}})
	// a plain find BEFORE the capture searches of every haystack: the engines share per-search tables between the two kinds of search
	obs = append([]Obs{obsFind()[0]}, obs...)
	runE2E(r, known, e2eSpec{prop: "C03", obs: obs, np: 5000, nh: 12, npT: 24000, nhT: 16, nontriv: func(w string) bool { return w != "nil" && strings.Count(w, " ") >= 3 }})
	c03EngineTies(r, known, NewRNG(r.Seed))
	c03SpecValidation(r, NewRNG(r.Seed))
	replayKnownExamples(r, known, "C03")
}

func checkC10(r *Report, known []Finding) {
	r.Rule = "leftmost-longest mode: after Longest() (and for CompilePOSIX) Match, FindIndex, FindSubmatchIndex, FindAllIndex, ReplaceAllString vs regexp in the same mode, on alternations whose " +
		"earlier branch is a prefix of a later one under every strategy template, corpus/mutation/grammar patterns; isolation: Longest on a Copy or on a second Regex of the same pattern leaves " +
		"the first in leftmost-first mode; non-trivial = a match exists; distinct by pattern"
	obs := []Obs{obsMatch()[0], obsFind()[0], obsSubmatch()[0], obsFindAll([]int{-1})[0], obsReplace([]string{"<$0>"})[1]}
	obs = append(obs, obsReplace([]string{"X"})[1], obsReplace([]string{"X"})[3]) // the literal replacement loops search on their own path (no captures)
	obs = append(obs, obsSplit([]int{-1})...)
	obs = append(obs, Obs{"Count", func(re StdAPI, h []byte) string {
		if cx, ok := re.(*coregex.Regex); ok {
			return fmt.Sprint(cx.Count(h, -1))
		}
		return fmt.Sprint(len(re.FindAllIndex(h, -1)))
	}})
	// shapes for which the mode matters on the paths that have their own engines: lazy quantifiers and prefix alternations under the
	// backtracker strategy (ASCII variant: patterns with a dot), the DFA strategies (Count / FindAll loops) and start-anchored forms
	probes := []string{`^.*?b`, `^.+?b`, `.*?b`, `^a.*?b`, `(?s)^.*?x`, `[ab]|[ab][ab]`, `[a-c]x|[a-c]x[a-c]`, `x[ab]|x[ab][ab]c`, `foo\d|foo\d\dz?`, `[a-z]+?`, `[a-z]??[a-z][0-9]*?`,
		`(a|ab)(c|bcd)`, `\w+?\s`, `^(?:a|ab)+?`, `.+?`, `(?:.|ab)+?c?`,
		// literal engines (Teddy, Aho-Corasick): a later alternative that extends an earlier one
		`cat|dog|catalog`, `mon|tue|month`, `http|ftp|https`, `GET|POST|GETX`, manyLiterals(70) + "|aekX|aekXy", `foo|foobar|bar`}
	runE2E(r, known, e2eSpec{prop: "C10", obs: obs, longest: true, np: 4000, nh: 10, npT: 18000, nhT: 14, probes: probes, nontriv: func(w string) bool { return w != "nil" && w != "false" }})
	c02MetaFindTie(r) // its longest / squeeze+longest variants: the core dispatch after SetLongest(true) vs Cx.MetaFind (flag L) and regexp with Longest()
	// inputs beyond the capacity of the bounded backtracker (32M visited entries): the fallback engines must honour the mode as well
	{
		tb := r.Tie("longest mode on inputs larger than the bounded backtracker's capacity == regexp")
		for _, c := range []struct {
			p    string
			n    int
			tail string
		}{{`[a-z]+?`, 7 << 20, "5b"}, {`[a-z]??[a-z][0-9]*?`, 7 << 20, ""}} {
			std := regexp.MustCompile(c.p)
			std.Longest()
			cx, err := coregex.Compile(c.p)
			if err != nil {
				continue
			}
			cx.Longest()
			h := append(bytes.Repeat([]byte("a"), c.n), c.tail...)
			want := fmt.Sprint(std.FindIndex(h))
			got := guard(240*time.Second, func() string { return fmt.Sprint(cx.FindIndex(h)) })
			tb.Cases++
			r.Case("big\x00"+c.p, true)
			if got != want {
				tb.Disagreements++
				r.Violate(fmt.Sprintf("FindIndex of %q with Longest() on %d x \"a\" + %q: coregex=%s regexp=%s", c.p, c.n, c.tail, got, want),
					map[string]any{"pattern": c.p, "haystack": fmt.Sprintf("%d x 'a' + %q", c.n, c.tail), "longest": true, "coregex": got, "regexp": want}, false)
			}
		}
	}
	// isolation
	t := r.Tie("Longest() on a Copy / a second value does not change the first")
	root := NewRNG(r.Seed ^ 0x10)
	for i := 0; i < 300; i++ {
		rng := root.Fork(uint64(i) + 1)
		p := patternSource(rng, i, GenOpts{MaxDepth: 2})
		if _, err := regexp.Compile(p); err != nil {
			continue
		}
		a, err := coregex.Compile(p)
		if err != nil {
			continue
		}
		ast, _ := syntax.Parse(p, syntax.Perl)
		h := GenHaystack(rng, ast, false)
		before := guard(10*time.Second, func() string { return fmt.Sprint(a.FindIndex(h), a.FindAllIndex(h, -1)) })
		c := a.Copy()
		c.Longest()
		b, _ := coregex.Compile(p)
		b.Longest()
		b.FindIndex(h)
		c.FindIndex(h)
		after := guard(10*time.Second, func() string { return fmt.Sprint(a.FindIndex(h), a.FindAllIndex(h, -1)) })
		t.Cases++
		if before != after {
			t.Disagreements++
			attrs := map[string]string{"kind": "mode-leak", "strategy": strategyOf(p)}
			if f := matchKnown(known, "C10", attrs); f != nil {
				r.Known(f, map[string]string{"pattern": p, "haystack_hex": hexOf(h)})
				continue
			}
			r.Violate(fmt.Sprintf("Longest() on a copy changed the original: %q on %q before=%s after=%s", p, h, before, after),
				map[string]any{"pattern": p, "haystack_hex": hexOf(h), "before": before, "after": after}, false)
		}
	}
	replayKnownExamples(r, known, "C10")
}

// checkC11: relations between the views of ONE compiled value; no oracle, so inputs can be large.
func checkC11(r *Report, known []Finding) {
	r.Rule = "relations between views of one Regex on one haystack (no oracle): Match <=> FindIndex != nil; Find/FindString/group 0 of FindSubmatch = haystack sliced at FindIndex; string/bytes/" +
		"reader variants agree (valid UTF-8); FindAll(n) = prefix of FindAll(-1) whose head is FindIndex; Count/AllIndex/AppendAllIndex = FindAllIndex; FindAllSubmatchIndex group 0 = FindAllIndex; " +
		"engine API (IsMatch, FindIndices, FindIndicesAt 0, Find, FindAt 0, FindSubmatch, Count) = top-level API; haystacks up to 64 KiB; non-trivial = a match exists; distinct by (pattern, haystack)"
	np, nh := 2000, 6
	if r.Tier == "thorough" {
		np, nh = 15000, 12
	}
	root := NewRNG(r.Seed)
	type dis struct{ p, rel, detail, strat, hay string }
	var mu sync.Mutex
	var all []dis
	var wg sync.WaitGroup
	jobs := make(chan int, 64)
	for w := 0; w < 12; w++ {
		wg.Add(1)
		go func() {
			defer wg.Done()
			for i := range jobs {
				rng := root.Fork(uint64(i) + 1)
				p := patternSource(rng, i, GenOpts{MaxDepth: 3})
				if i < len(thresholdProbes) {
					p = thresholdProbes[i]
				} else if j := i - len(thresholdProbes); j < len(lookbehindProbes) {
					p = lookbehindProbes[j]
				}
				if _, err := regexp.Compile(p); err != nil {
					continue
				}
				var cx *coregex.Regex
				var eng *meta.Engine
				if guard(10*time.Second, func() string {
					var e error
					if cx, e = coregex.Compile(p); e != nil {
						return "ERR"
					}
					if eng, e = meta.Compile(p); e != nil {
						return "ERR"
					}
					return ""
				}) != "" {
					continue
				}
				strat := eng.Strategy().String()
				ast, _ := syntax.Parse(p, syntax.Perl)
				var local []dis
				for k := 0; k < nh; k++ {
					h := GenHaystack(rng, ast, false)
					if i < len(thresholdProbes) && k < 3 {
						if sh := GenStretched(rng, ast); sh != nil {
							h = sh
						}
					} else if j := i - len(thresholdProbes); j >= 0 && j < len(lookbehindProbes) && k < nh-1 {
						h = []byte(lookbehindHays[(k+j)%len(lookbehindHays)])
					}
					if k == nh-1 { // large input: window logic, caches
						var big []byte
						target := 4096 << uint(rng.Intn(5))
						for len(big) < target {
							big = append(big, GenHaystack(rng, ast, true)...)
							big = append(big, " \n,"[rng.Intn(3)])
						}
						h = big
					}
					res := guard(30*time.Second, func() string {
						var bad []string
						chk := func(rel string, ok bool, detail string) {
							if !ok {
								bad = append(bad, rel+"\x01"+detail)
							}
						}
						loc := cx.FindIndex(h)
						s := string(h)
						chk("Match<=>FindIndex!=nil", cx.Match(h) == (loc != nil), fmt.Sprintf("Match=%v FindIndex=%v", cx.Match(h), loc))
						if loc != nil {
							chk("Find==h[FindIndex]", string(cx.Find(h)) == string(h[loc[0]:loc[1]]) && cx.FindString(s) == s[loc[0]:loc[1]], fmt.Sprintf("Find=%q loc=%v", cx.Find(h), loc))
						} else {
							chk("Find==nil", cx.Find(h) == nil && cx.FindString(s) == "", "")
						}
						sm := cx.FindSubmatchIndex(h)
						chk("FindSubmatchIndex[0:2]==FindIndex", (sm == nil) == (loc == nil) && (sm == nil || (sm[0] == loc[0] && sm[1] == loc[1])), fmt.Sprintf("sub=%v loc=%v", sm, loc))
						chk("bytes==string", fmt.Sprint(cx.FindStringIndex(s)) == fmt.Sprint(loc) && cx.MatchString(s) == cx.Match(h) && fmt.Sprint(cx.FindStringSubmatchIndex(s)) == fmt.Sprint(sm), "")
						if utf8.Valid(h) {
							chk("reader==string", fmt.Sprint(cx.FindReaderIndex(strings.NewReader(s))) == fmt.Sprint(loc) && cx.MatchReader(strings.NewReader(s)) == cx.Match(h), "")
						}
						all := cx.FindAllIndex(h, -1)
						if loc != nil {
							chk("head(FindAll)==FindIndex", len(all) > 0 && all[0][0] == loc[0] && all[0][1] == loc[1], fmt.Sprintf("all[0]=%v loc=%v", first2(all), loc))
						} else {
							chk("FindAll==nil", len(all) == 0, "")
						}
						for _, n := range []int{1, 2, 3} {
							pre := all
							if len(pre) > n {
								pre = pre[:n]
							}
							chk("FindAll(n)==prefix", fmt.Sprint(cx.FindAllIndex(h, n)) == fmt.Sprint(pre) || (len(pre) == 0 && cx.FindAllIndex(h, n) == nil), fmt.Sprintf("n=%d", n))
						}
						chk("Count==len(FindAll)", cx.Count(h, -1) == len(all), fmt.Sprintf("Count=%d len=%d", cx.Count(h, -1), len(all)))
						var it [][]int
						for m := range cx.AllIndex(h) {
							it = append(it, []int{m[0], m[1]})
						}
						chk("AllIndex==FindAll", fmt.Sprint(it) == fmt.Sprint(all) || (len(it) == 0 && len(all) == 0), fmt.Sprintf("iter=%d all=%d", len(it), len(all)))
						app := cx.AppendAllIndex(nil, h, -1)
						chk("AppendAllIndex==FindAll", len(app) == len(all), fmt.Sprintf("append=%d all=%d", len(app), len(all)))
						asm := cx.FindAllSubmatchIndex(h, -1)
						okg := len(asm) == len(all)
						for i := 0; okg && i < len(asm); i++ {
							okg = asm[i][0] == all[i][0] && asm[i][1] == all[i][1]
						}
						chk("FindAllSubmatch.group0==FindAll", okg, fmt.Sprintf("submatches=%d all=%d", len(asm), len(all)))
						// engine API
						es, ee, ef := eng.FindIndices(h)
						chk("Engine.FindIndices==FindIndex", ef == (loc != nil) && (!ef || (es == loc[0] && ee == loc[1])), fmt.Sprintf("engine=%d,%d,%v loc=%v", es, ee, ef, loc))
						as, ae, af := eng.FindIndicesAt(h, 0)
						chk("Engine.FindIndicesAt(0)==FindIndices", af == ef && (!af || (as == es && ae == ee)), fmt.Sprintf("at0=%d,%d,%v", as, ae, af))
						chk("Engine.IsMatch==Match", eng.IsMatch(h) == cx.Match(h), "")
						m := eng.Find(h)
						chk("Engine.Find==FindIndex", (m != nil) == (loc != nil) && (m == nil || (m.Start() == loc[0] && m.End() == loc[1])), "")
						chk("Engine.Count==Count", eng.Count(h, -1) == cx.Count(h, -1), "")
						return strings.Join(bad, "\x02") + "\x03" + fmt.Sprint(loc != nil)
					})
					mu.Lock()
					r.Case(p+"\x00"+string(h[:min(len(h), 64)])+fmt.Sprint(len(h)), strings.HasSuffix(res, "true"))
					r.Dist["strategy:"+strat]++
					if len(h) > 4000 {
						r.Dist["haystack>4KiB"]++
					}
					mu.Unlock()
					if res == "TIMEOUT" {
						// the whole bundle of ~20 views did not finish in 30 s: slow is not this property's subject (C05 measures work);
						// only a single call that does not come back is reported
						if guard(120*time.Second, func() string { cx.Match(h); cx.FindIndex(h); return "" }) == "" {
							mu.Lock()
							r.Notes = append(r.Notes, fmt.Sprintf("slow: the views of %.40q on %d bytes took more than 30 s in total (Match and FindIndex alone return)", p, len(h)))
							mu.Unlock()
							continue
						}
					}
					if strings.HasPrefix(res, "PANIC") || res == "TIMEOUT" {
						local = append(local, dis{p, "no-panic/terminates", res + fmt.Sprintf(" len=%d", len(h)), strat, hayKind(h)})
						continue
					}
					body := res[:strings.IndexByte(res, '\x03')]
					if body == "" {
						continue
					}
					for _, b := range strings.Split(body, "\x02") {
						f := strings.SplitN(b, "\x01", 2)
						hh := h
						if len(hh) > 60 {
							hh = hh[:60]
						}
						local = append(local, dis{p, f[0], fmt.Sprintf("%s on %q (len %d)", f[1], hh, len(h)), strat, hayKind(h)})
					}
				}
				mu.Lock()
				all = append(all, local...)
				mu.Unlock()
			}
		}()
	}
	for i := 0; i < np; i++ {
		jobs <- i
	}
	close(jobs)
	wg.Wait()
	t := r.Tie("relations between views hold")
	t.Cases = r.Evaluations * 20
	seen := map[string]bool{}
	for _, d := range all {
		t.Disagreements++
		attrs := map[string]string{"relation": d.rel, "strategy": d.strat, "kind": "views-disagree", "hay": d.hay}
		if ast, err := syntax.Parse(d.p, syntax.Perl); err == nil {
			for _, tg := range featuresOf(ast).Tags() {
				attrs[tg] = "true"
			}
		}
		attrs["pf"] = primaryFeature(attrs)
		if f := matchKnown(known, "C11", attrs); f != nil {
			r.Known(f, map[string]string{"pattern": d.p, "relation": d.rel, "detail": d.detail})
			continue
		}
		key := d.p + "\x00" + d.rel
		if seen[key] {
			continue
		}
		seen[key] = true
		r.Violate(fmt.Sprintf("views disagree for %q [%s]: %s — %s", d.p, d.strat, d.rel, d.detail),
			map[string]any{"pattern": d.p, "relation": d.rel, "detail": d.detail, "strategy": d.strat, "attrs": attrs, "api": d.rel, "learn_signature": learnSignature(attrs)}, false)
	}
	r.Sample(map[string]any{"relations": []string{"Match<=>FindIndex!=nil", "Find==h[FindIndex]", "FindSubmatchIndex[0:2]==FindIndex", "bytes==string", "reader==string", "head(FindAll)==FindIndex",
		"FindAll(n)==prefix", "Count==len(FindAll)", "AllIndex==FindAll", "AppendAllIndex==FindAll", "FindAllSubmatch.group0==FindAll", "Engine.*==top-level"}})
	c04MetaFindAllTie(r) // Engine.FindAllIndicesStreaming / Count / FindAllSubmatch / FindSubmatchAt / FindIndicesAt are views of the same loops: vs Cx.MetaFindAll, each other and regexp
	replayKnownExamples(r, known, "C11")
}

func first2(a [][]int) []int {
	if len(a) == 0 {
		return nil
	}
	return a[0]
}

// checkC12: every valid configuration must give the default configuration's answers, which must be the NFA-only answers.
func checkC12(r *Report, known []Finding) {
	r.Rule = "configuration lattice (DFA on/off, prefilter on/off, MaxDFAStates 1/2/10/default, DeterminizationLimit 10/1000, MinLiteralLen 1/3, MaxLiterals 1/2/64/256, ASCII optimisation on/off) x " +
		"patterns from corpus/mutation/grammar x haystacks: Match, FindIndex, FindSubmatchIndex, FindAllIndex under each configuration must equal the default configuration and the NFA-only " +
		"configuration (DFA and prefilter off); CPU masking is covered by the C18/C16 worker runs; non-trivial = a match exists; distinct by (pattern, config)"
	np, nh := 1500, 6
	if r.Tier == "thorough" {
		np, nh = 6000, 10
	}
	root := NewRNG(r.Seed)
	type cfgT struct {
		name string
		c    meta.Config
	}
	var cfgs []cfgT
	base := meta.DefaultConfig()
	add := func(name string, f func(c *meta.Config)) {
		c := base
		f(&c)
		if c.Validate() == nil {
			cfgs = append(cfgs, cfgT{name, c})
		}
	}
	add("nfa-only", func(c *meta.Config) { c.EnableDFA = false; c.EnablePrefilter = false })
	add("no-dfa", func(c *meta.Config) { c.EnableDFA = false })
	add("no-prefilter", func(c *meta.Config) { c.EnablePrefilter = false })
	add("MaxDFAStates=1", func(c *meta.Config) { c.MaxDFAStates = 1 })
	add("MaxDFAStates=10", func(c *meta.Config) { c.MaxDFAStates = 10 })
	add("DeterminizationLimit=10", func(c *meta.Config) { c.DeterminizationLimit = 10 })
	add("MinLiteralLen=1", func(c *meta.Config) { c.MinLiteralLen = 1 })
	add("MinLiteralLen=3", func(c *meta.Config) { c.MinLiteralLen = 3 })
	add("MaxLiterals=1", func(c *meta.Config) { c.MaxLiterals = 1 })
	add("MaxLiterals=2", func(c *meta.Config) { c.MaxLiterals = 2 })
	add("MaxLiterals=256", func(c *meta.Config) { c.MaxLiterals = 256 })
	add("no-ascii-opt", func(c *meta.Config) { c.EnableASCIIOptimization = false })
	obs := []Obs{obsMatch()[0], obsFind()[0], obsSubmatch()[0], obsFindAll([]int{-1})[0]}
	type dis struct {
		p, cfg, api, def, got, strat, refStrat string
		h                                      []byte
	}
	var mu, slowMu sync.Mutex
	var all []dis
	var wg sync.WaitGroup
	jobs := make(chan int, 64)
	for w := 0; w < 12; w++ {
		wg.Add(1)
		go func() {
			defer wg.Done()
			for i := range jobs {
				rng := root.Fork(uint64(i) + 1)
				p := patternSource(rng, i, GenOpts{MaxDepth: 3})
				if probes := limitProbePatterns(); i < len(probes) {
					p = probes[i] // shapes aimed at the literal limits run first, under every configuration
				}
				if _, err := regexp.Compile(p); err != nil {
					continue
				}
				var def *coregex.Regex
				if guard(10*time.Second, func() string {
					var e error
					def, e = coregex.Compile(p)
					if e != nil {
						return "ERR"
					}
					return ""
				}) != "" {
					continue
				}
				defStrat := strategyOf(p)
				ast, _ := syntax.Parse(p, syntax.Perl)
				var hays [][]byte
				for k := 0; k < nh; k++ {
					hays = append(hays, GenHaystack(rng, ast, false))
				}
				if i < len(limitProbePatterns()) {
					// the probes need every branch of their alternation in some haystack: distinct unmutated samples of the language
					seenS := map[string]bool{}
					for k := 0; k < 60 && len(seenS) < 14; k++ {
						b := 40
						m := sampleMatch(rng, ast, nil, &b)
						if !seenS[string(m)] {
							seenS[string(m)] = true
							hays = append(hays, m, append(append([]byte("zz "), m...), "; "...))
						}
					}
				}
				var local []dis
				// besides the fixed lattice, every pattern gets one configuration whose numeric limits rotate with the pattern index, so
				// that a run sweeps EVERY small value of every limit (a limit is typically mishandled at one exact value: a closure that
				// lands on DeterminizationLimit, an alternation with MaxLiterals+1 branches, a literal of MinLiteralLen-1 bytes)
				rot := base
				rot.DeterminizationLimit = 10 + (i*7)%54
				rot.MaxDFAStates = uint32(1 + (i*5)%48)
				rot.MaxLiterals = 1 + (i*3)%20
				rot.MinLiteralLen = 1 + i%4
				pcfgs := cfgs
				if rot.Validate() == nil {
					pcfgs = append(append([]cfgT(nil), cfgs...), cfgT{fmt.Sprintf("DeterminizationLimit=%d,MaxDFAStates=%d,MaxLiterals=%d,MinLiteralLen=%d", rot.DeterminizationLimit, rot.MaxDFAStates, rot.MaxLiterals, rot.MinLiteralLen), rot},
						cfgT{fmt.Sprintf("DeterminizationLimit=%d", rot.DeterminizationLimit), func() meta.Config { c := base; c.DeterminizationLimit = rot.DeterminizationLimit; return c }()},
						cfgT{fmt.Sprintf("MaxLiterals=%d", rot.MaxLiterals), func() meta.Config { c := base; c.MaxLiterals = rot.MaxLiterals; return c }()})
				}
				for _, cf := range pcfgs {
					var cx *coregex.Regex
					if guard(10*time.Second, func() string {
						var e error
						cx, e = coregex.CompileWithConfig(p, cf.c)
						if e != nil {
							return "ERR"
						}
						return ""
					}) != "" {
						continue
					}
					for _, h := range hays {
						for _, o := range obs {
							a := guard(10*time.Second, func() string { return o.Fn(def, h) })
							b := guard(10*time.Second, func() string { return o.Fn(cx, h) })
							// slow is not wrong (work is C05's subject): a call that misses the deadline while twelve workers share the
							// machine is repeated alone with a long deadline; only a call that does not come back at all counts
							if a == "TIMEOUT" {
								slowMu.Lock()
								a = guard(180*time.Second, func() string { return o.Fn(def, h) })
								slowMu.Unlock()
								mu.Lock()
								r.Dist["slow-call-retried-alone"]++
								mu.Unlock()
							}
							if b == "TIMEOUT" {
								slowMu.Lock()
								b = guard(180*time.Second, func() string { return o.Fn(cx, h) })
								slowMu.Unlock()
								mu.Lock()
								r.Dist["slow-call-retried-alone"]++
								mu.Unlock()
							}
							if a != b {
								local = append(local, dis{p, cf.name, o.API, a, b, defStrat, "", h})
							}
						}
					}
					mu.Lock()
					r.Case(p+"\x00"+cf.name, true)
					mu.Unlock()
				}
				mu.Lock()
				r.Dist["default-strategy:"+defStrat]++
				all = append(all, local...)
				mu.Unlock()
			}
		}()
	}
	for i := 0; i < np; i++ {
		jobs <- i
	}
	close(jobs)
	wg.Wait()
	t := r.Tie("results under every configuration == results under the default configuration")
	t.Cases = r.Evaluations * nh * len(obs)
	seen := map[string]bool{}
	for _, d := range all {
		t.Disagreements++
		attrs := map[string]string{"config": d.cfg, "strategy": d.strat, "kind": "config-changes-answer", "api": strings.SplitN(d.api, "/", 2)[0]}
		if ast, err := syntax.Parse(d.p, syntax.Perl); err == nil {
			for _, tg := range featuresOf(ast).Tags() {
				attrs[tg] = "true"
			}
		}
		if !utf8.Valid(d.h) {
			attrs["hay"] = "ill-formed"
		} else if len(d.h) != utf8.RuneCount(d.h) {
			attrs["hay"] = "multibyte"
		} else {
			attrs["hay"] = "ascii"
		}
		attrs["pf"] = primaryFeature(attrs)
		if f := matchKnown(known, "C12", attrs); f != nil {
			r.Known(f, map[string]string{"pattern": d.p, "config": d.cfg, "api": d.api, "haystack_hex": hexOf(d.h), "default": d.def, "configured": d.got})
			continue
		}
		key := d.p + "\x00" + d.cfg
		if seen[key] {
			continue
		}
		seen[key] = true
		r.Violate(fmt.Sprintf("%s of %q on %q: default configuration [%s] gives %.120s, configuration %s gives %.120s", d.api, d.p, d.h, d.strat, d.def, d.cfg, d.got),
			map[string]any{"pattern": d.p, "config": d.cfg, "api": d.api, "haystack_hex": hexOf(d.h), "default": d.def, "configured": d.got, "strategy": d.strat, "attrs": attrs,
				"coregex": d.got, "regexp": d.def, "learn_signature": func() map[string]string {
					if attrs["pf"] == "ill-formed-haystack" {
						return learnSignature(attrs)
					}
					if strings.HasPrefix(d.cfg, "MaxLiterals=") || strings.HasPrefix(d.cfg, "DeterminizationLimit=") || strings.HasPrefix(d.cfg, "MaxDFAStates=") || strings.HasPrefix(d.cfg, "MinLiteralLen=") {
						return map[string]string{"config": d.cfg}
					}
					return learnSignature(attrs)
				}()}, false)
	}
	// model tie: Validate (meta/config.go) vs the Lean transliteration on boundary values of every field, all switch settings
	{
		tv := r.Tie("Lean model of Config.Validate == meta.Config.Validate (accept/reject and offending field)")
		b2 := func(b bool) string {
			if b {
				return "1"
			}
			return "0"
		}
		vals := map[string][]int{
			"ms": {0, 1, 2, 10000, 999999, 1000000, 1000001, 4294967295},
			"dl": {-1, 0, 9, 10, 11, 1000, 99999, 100000, 100001},
			"ml": {-1, 0, 1, 2, 63, 64, 65},
			"mx": {-1, 0, 1, 2, 256, 999, 1000, 1001},
			"dp": {-1, 0, 9, 10, 11, 100, 999, 1000, 1001},
		}
		vr := root.Fork(0xC0F16)
		var cfgv []meta.Config
		var reqs []string
		dflt := meta.DefaultConfig()
		nv := 4000
		if r.Tier == "thorough" {
			nv = 60000
		}
		for i := 0; i < nv; i++ {
			c := dflt
			pick := func(k string, d int) int {
				if vr.Intn(3) == 0 {
					return d
				}
				v := vals[k]
				if vr.Intn(8) == 0 {
					return vr.Intn(200000) - 10
				}
				return v[vr.Intn(len(v))]
			}
			c.EnableDFA, c.EnablePrefilter, c.EnableASCIIOptimization = vr.Intn(4) != 0, vr.Intn(4) != 0, vr.Intn(2) == 0
			ms := pick("ms", 10000)
			if ms < 0 {
				ms = 0
			}
			c.MaxDFAStates = uint32(ms)
			c.DeterminizationLimit, c.MinLiteralLen, c.MaxLiterals, c.MaxRecursionDepth = pick("dl", 1000), pick("ml", 1), pick("mx", 256), pick("dp", 100)
			cfgv = append(cfgv, c)
			reqs = append(reqs, fmt.Sprintf("config validate %s %s %d %d %d %d %d %s", b2(c.EnableDFA), b2(c.EnablePrefilter), c.MaxDFAStates, c.DeterminizationLimit,
				c.MinLiteralLen, c.MaxLiterals, c.MaxRecursionDepth, b2(c.EnableASCIIOptimization)))
		}
		reqs = append(reqs, "config default")
		ans, err := RunLean(reqs)
		if err != nil || len(ans) != len(reqs) {
			r.Violate(fmt.Sprintf("model driver failed on the Validate tie: %v", err), map[string]any{"kind": "driver"}, true)
		} else {
			for i, c := range cfgv {
				tv.Cases++
				got := "ok"
				if e := c.Validate(); e != nil {
					got = "?"
					if ce, ok := e.(*meta.ConfigError); ok {
						got = ce.Field
					}
					r.Dist["validate:rejected:"+got]++
				} else {
					r.Dist["validate:accepted"]++
					// an accepted configuration must also compile a trivial pattern
					if _, e := coregex.CompileWithConfig("a+b", c); e != nil {
						tv.Disagreements++
						r.Violate(fmt.Sprintf("configuration %+v passes Validate but CompileWithConfig fails: %v", c, e), map[string]any{"kind": "config", "config": fmt.Sprintf("%+v", c)}, false)
					}
				}
				if got != ans[i] {
					tv.Disagreements++
					r.Violate(fmt.Sprintf("Validate(%+v): code says %s, Lean model says %s", c, got, ans[i]), map[string]any{"kind": "model-tie", "request": reqs[i], "go": got, "lean": ans[i]}, true)
				}
			}
			d := fmt.Sprintf("%t %t %d %d %d %d %d %t", dflt.EnableDFA, dflt.EnablePrefilter, dflt.MaxDFAStates, dflt.DeterminizationLimit, dflt.MinLiteralLen, dflt.MaxLiterals, dflt.MaxRecursionDepth, dflt.EnableASCIIOptimization)
			tv.Cases++
			if d != ans[len(ans)-1] {
				tv.Disagreements++
				r.Violate(fmt.Sprintf("DefaultConfig(): code %s, Lean model %s", d, ans[len(ans)-1]), map[string]any{"kind": "model-tie", "go": d, "lean": ans[len(ans)-1]}, true)
			}
		}
	}
	var names []string
	for _, c := range cfgs {
		names = append(names, c.name)
	}
	r.Sample(map[string]any{"configurations": names})
	replayKnownExamples(r, known, "C12")
}

func hayKind(h []byte) string {
	if !utf8.Valid(h) {
		return "ill-formed"
	}
	if len(h) != utf8.RuneCount(h) {
		return "multibyte"
	}
	return "ascii"
}
