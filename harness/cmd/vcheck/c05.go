package main

import (
	"bufio"
	"bytes"
	"encoding/binary"
	"fmt"
	"os"
	"os/exec"
	"path/filepath"
	"runtime/coverage"
	"strconv"
	"strings"
	"time"

	"github.com/coregx/coregex"
	"github.com/coregx/coregex/nfa"
)

func init() { checks["C05"] = checkC05 }

// sumCounters decodes the counter data runtime/coverage.WriteCounters emits (ULEB128 flavour) and returns the sum of all
// basic-block execution counters: the deterministic work measure the property names.
func sumCounters(b []byte) (uint64, error) {
	if len(b) < 32 || string(b[:4]) != "\x00\x63\x77\x6d" {
		return 0, fmt.Errorf("bad counter file header")
	}
	flavor := b[24]
	off := 32
	var total uint64
	uleb := func() (uint64, error) {
		var v uint64
		var shift uint
		for {
			if off >= len(b) {
				return 0, fmt.Errorf("truncated uleb")
			}
			c := b[off]
			off++
			v |= uint64(c&0x7f) << shift
			if c&0x80 == 0 {
				return v, nil
			}
			shift += 7
		}
	}
	for off+16 <= len(b) {
		if string(b[off:off+4]) == "\x00\x63\x77\x6d" { // footer
			break
		}
		fcn := binary.LittleEndian.Uint64(b[off:])
		strLen := binary.LittleEndian.Uint32(b[off+8:])
		argLen := binary.LittleEndian.Uint32(b[off+12:])
		off += 16 + int(strLen) + int(argLen)
		for off%4 != 0 {
			off++
		}
		for i := uint64(0); i < fcn; i++ {
			var n uint64
			var err error
			if flavor == 2 { // CtrULeb128
				if n, err = uleb(); err != nil {
					return 0, err
				}
				if _, err = uleb(); err != nil {
					return 0, err
				}
				if _, err = uleb(); err != nil {
					return 0, err
				}
				for k := uint64(0); k < n; k++ {
					v, err := uleb()
					if err != nil {
						return 0, err
					}
					total += v
				}
			} else { // raw uint32
				if off+12 > len(b) {
					return 0, fmt.Errorf("truncated")
				}
				n = uint64(binary.LittleEndian.Uint32(b[off:]))
				off += 12
				for k := uint64(0); k < n; k++ {
					total += uint64(binary.LittleEndian.Uint32(b[off:]))
					off += 4
				}
			}
		}
	}
	return total, nil
}

type c05family struct {
	pattern string
	unit    string // haystack = unit repeated to length n (+ tail)
	tail    string
	head    string // fixed prefix of the haystack
	headRun string // unit of a prefix that grows with n: repeated to length n/16 (keeps every single scan under a fixed budget)
}

// key names the input family in reports (the repeated unit, with the prefix when there is one).
func (f c05family) key() string {
	if f.head == "" && f.headRun == "" {
		return f.unit
	}
	return fmt.Sprintf("%s(%s)^(n/16)|%s", f.head, f.headRun, f.unit)
}

func (f c05family) haystack(n int) []byte {
	h := []byte(f.head)
	if f.headRun != "" {
		h = append(h, strings.Repeat(f.headRun, n/16/len(f.headRun)+1)[:n/16]...)
	}
	h = append(h, strings.Repeat(f.unit, n/len(f.unit)+1)[:n]...)
	return append(h, f.tail...)
}

var c05Families = []c05family{
	{pattern: `([a-z])+[0-9]`, unit: "a", tail: ""}, {pattern: `(a|b)*c`, unit: "ab", tail: ""}, {pattern: `(x+x+)+y`, unit: "x", tail: ""}, {pattern: `(a*)*b`, unit: "a", tail: ""}, {pattern: `a{1,30}b`, unit: "a", tail: ""},
	{pattern: `foo.*?bar`, unit: "foo", tail: ""}, {pattern: `.*error.*`, unit: "erro", tail: ""}, {pattern: `.*error.*`, unit: "error\n", tail: ""}, {pattern: `\w+@\w+\.com`, unit: "a@", tail: ""}, {pattern: `.*\.txt$`, unit: ".txt", tail: "x"},
	{pattern: `\d+\.\d+\.\d+`, unit: "1.", tail: ""}, {pattern: `[^,]+,`, unit: "a", tail: ""}, {pattern: `(?i)hello`, unit: "hell", tail: ""}, {pattern: `error|warning|fatal`, unit: "erro", tail: ""}, {pattern: `\bfoo\b`, unit: "foo_", tail: ""},
	{pattern: `[a-z]+[a-z]+[0-9]`, unit: "a", tail: ""}, {pattern: `[a-z]+[0-9]+`, unit: "a", tail: ""}, {pattern: `^(\w+)\s(\w+)$`, unit: "a", tail: ""}, {pattern: `(\w+)@(\w+)\.(\w+)`, unit: "a@", tail: ""}, {pattern: `[a-z]+connection[a-z]+`, unit: "connectio", tail: ""},
	{pattern: `(?m)^/.*\.php`, unit: "/.ph", tail: ""}, {pattern: `.*\.(txt|log|md)`, unit: ".tx", tail: ""}, {pattern: `\d{1,3}\.\d{1,3}\.\d{1,3}\.\d{1,3}`, unit: "1.2.", tail: ""}, {pattern: `(foo|bar|baz)qux`, unit: "fooqu", tail: ""}, {pattern: `x*`, unit: "y", tail: ""},
	{pattern: `(?s)a.+b`, unit: "a", tail: ""}, {pattern: `"[^"]*"`, unit: "\"a", tail: ""}, {pattern: `<.*?>`, unit: "<a", tail: ""}, {pattern: `(\d+)-(\d+)-(\d+)`, unit: "1-", tail: ""}, {pattern: `^.*foo.*bar$`, unit: "fooba", tail: ""},
	// every suffix / inner / digit candidate is a near miss whose verification scans back (or forward) over the whole run
	{pattern: `[0-9][a-z.]+\.txt`, unit: ".txt", tail: ""}, {pattern: `[0-9][a-z.]+\.(txt|log|dat)`, unit: ".txt", tail: ""}, {pattern: `[0-9][a-z0-9]*X`, unit: "1", tail: ""}, {pattern: `\bab[a-z]*X`, unit: "ab ", tail: ""},
	{pattern: `[a-z.]+connect[a-z.]+X`, unit: "connect", tail: ""}, {pattern: `[0-9]+[a-z]*\.com`, unit: "1a.co", tail: ""}, {pattern: `(?i)[0-9][a-z]*error`, unit: "erro", tail: ""},
	// ONE long line dense in suffix candidates (the multiline strategy must not re-verify the line per candidate); digit runs behind
	// a prefix that keeps each single scan cheap (a per-scan budget instead of an accumulated one lets all of them through)
	{pattern: `(?m)^/.*[0-9]\.php`, unit: "a.php", head: "/"}, {pattern: `(?m)^GET .*[\w-]+\.html$`, unit: "x.html ", head: "GET "},
	{pattern: `[0-9][a-z0-9]*X`, unit: "7", headRun: "a"}, {pattern: `[0-9][a-z0-9]*X|7Y`, unit: "7", headRun: "k"}, {pattern: `\d[\da-z]*_id`, unit: "9", headRun: "z"},
}

func c05Worker(maxN, from int) int {
	w := bufio.NewWriter(os.Stdout)
	defer w.Flush()
	measure := func(f func()) uint64 {
		if err := coverage.ClearCounters(); err != nil {
			fmt.Fprintf(w, "ERROR clear: %v\n", err)
			return 0
		}
		f()
		var buf bytes.Buffer
		if err := coverage.WriteCounters(&buf); err != nil {
			fmt.Fprintf(w, "ERROR write: %v\n", err)
			return 0
		}
		s, err := sumCounters(buf.Bytes())
		if err != nil {
			fmt.Fprintf(w, "ERROR decode: %v\n", err)
		}
		return s
	}
	if from == 0 {
		// compile time: pattern size doubling (first worker only)
		for _, gen := range []struct {
			name string
			f    func(k int) string
		}{
			{"a{k}", func(k int) string { return fmt.Sprintf("a{%d}", k) }},
			{"(ab|cd){k}", func(k int) string { return fmt.Sprintf("(ab|cd){%d}", k) }},
			{"k alternatives", func(k int) string {
				var p []string
				for i := 0; i < k; i++ {
					p = append(p, fmt.Sprintf("w%dx", i))
				}
				return strings.Join(p, "|")
			}},
			{"nested groups", func(k int) string { return strings.Repeat("(", k) + "a" + strings.Repeat(")", k) }},
		} {
			for k := 50; k <= 800; k *= 2 {
				p := gen.f(k)
				work := measure(func() { coregex.Compile(p) })
				fmt.Fprintf(w, "COMPILE\t%s\t%d\t%d\n", gen.name, k, work)
			}
		}
	}
	for fi, fam := range c05Families {
		if fi < from {
			continue
		}
		re, err := coregex.Compile(fam.pattern)
		if err != nil {
			continue
		}
		states := 0
		if n, err := nfa.NewDefaultCompiler().Compile(fam.pattern); err == nil {
			states = n.States()
		}
		strat := strategyOf(fam.pattern)
		for _, api := range []string{"Match", "FindIndex", "FindSubmatchIndex"} {
			for n := 512; n <= maxN; n *= 2 {
				h := fam.haystack(n)
				done := make(chan uint64, 1)
				go func() {
					call := func() {
						switch api {
						case "Match":
							re.Match(h)
						case "FindIndex":
							re.FindIndex(h)
						default:
							re.FindSubmatchIndex(h)
						}
					}
					// the work of ONE call = the minimum over up to three identical calls: one-off work that is not a function of
					// the input (a sync.Pool miss after a GC rebuilding the per-search state, lazy initialisation) shows up in one of
					// them only; repetitions are skipped when a call is slow (then such noise is negligible anyway)
					t0 := time.Now()
					best := measure(call)
					for rep := 0; rep < 2 && time.Since(t0) < 700*time.Millisecond; rep++ {
						if v := measure(call); v < best {
							best = v
						}
					}
					done <- best
				}()
				select {
				case work := <-done:
					fmt.Fprintf(w, "WORK\t%s\t%s\t%s\t%s\t%d\t%d\t%d\n", fam.pattern, strconv.Quote(fam.key()), strat, api, states, n, work)
				case <-time.After(20 * time.Second):
					fmt.Fprintf(w, "TIMEOUT\t%s\t%s\t%s\t%s\t%d\t%d\t%d\n", fam.pattern, strconv.Quote(fam.key()), strat, api, states, n, fi)
					w.Flush()
					os.Exit(0) // the stuck search keeps burning CPU: stop this worker; the parent reports what was measured
				}
			}
			w.Flush()
		}
	}
	fmt.Fprintln(w, "DONE")
	return 0
}

// (pattern, unit) pairs for which the current run measured superlinear work or a timeout
var c05Superlinear = map[string]bool{}

func checkC05(r *Report, known []Finding) {
	r.Rule = "work = sum of executed basic blocks of library code (coverage counters, atomic mode, cleared around ONE call; minimum over up to three identical calls, which removes one-off initialisation work) for Match / FindIndex / FindSubmatchIndex on adversarial families " +
		"(near-miss repetitions per strategy: candidate-dense inputs, overlapping classes, repeated suffixes, digit runs, classic ReDoS shapes) at n = 512 … 8192 (32768 thorough); the property's own shape " +
		"check: doubling n must at most ~double the work (violation: ratio > 2.6 at the largest doubling, or > 2.3 at the two largest doublings in a row; a single jump followed by ~2 is a change of regime between two linear engines); compile work for pattern-size doublings must stay polynomial (ratio <= 9); " +
		"non-trivial = every measured call; distinct by (pattern, input family, api, n)"
	maxN := 8192
	if r.Tier == "thorough" {
		maxN = 32768
	}
	bin := filepath.Join(verifDir, ".build", "vcheck-cover")
	cmd := exec.Command("go", "build", "-cover", "-covermode=atomic", "-coverpkg=github.com/coregx/coregex/...,verif/harness/cmd/vcheck", "-tags", "verif", "-o", bin, "./cmd/vcheck")
	cmd.Dir = filepath.Join(verifDir, "harness")
	cmd.Env = append(os.Environ(), "GOFLAGS=-mod=mod", "GOPROXY=off")
	if out, err := cmd.CombinedOutput(); err != nil {
		r.Violate("coverage build failed: "+string(out), map[string]any{"check": "go build -cover"}, true)
		return
	}
	os.MkdirAll(filepath.Join(verifDir, ".build", "covdata"), 0o755)
	var out []byte
	for from := 0; from < len(c05Families); {
		run := exec.Command(bin, "c05worker", fmt.Sprint(maxN), fmt.Sprint(from))
		run.Env = append(os.Environ(), "GOCOVERDIR="+filepath.Join(verifDir, ".build", "covdata"))
		o, _ := run.Output()
		out = append(out, o...)
		next := len(c05Families)
		for _, l := range strings.Split(string(o), "\n") {
			if strings.HasPrefix(l, "TIMEOUT") {
				f := strings.Split(l, "\t")
				fmt.Sscan(f[len(f)-1], &next)
				next++
			}
		}
		from = next
	}
	os.RemoveAll(filepath.Join(verifDir, ".build", "covdata"))
	type key struct{ pat, unit, strat, api string }
	series := map[key]map[int]uint64{}
	states := map[key]int{}
	var order []key
	comp := map[string]map[int]uint64{}
	var timeouts []string
	for _, l := range strings.Split(string(out), "\n") {
		f := strings.Split(l, "\t")
		if strings.HasPrefix(l, "ERROR") {
			r.Violate("work counter unavailable: "+l, map[string]any{"check": "runtime/coverage counters"}, true)
			return
		}
		switch f[0] {
		case "WORK":
			k := key{f[1], f[2], f[3], f[4]}
			var st, n int
			var wk uint64
			fmt.Sscan(f[5], &st)
			fmt.Sscan(f[6], &n)
			fmt.Sscan(f[7], &wk)
			if series[k] == nil {
				series[k] = map[int]uint64{}
				order = append(order, k)
			}
			series[k][n] = wk
			states[k] = st
			r.Case(l, true)
		case "TIMEOUT":
			timeouts = append(timeouts, l)
			k := key{f[1], f[2], f[3], f[4]}
			c05Superlinear[k.pat+"\x00"+k.unit] = true
			attrs := map[string]string{"strategy": f[3], "kind": "superlinear", "api": f[4]}
			if kf := matchKnown(known, "C05", attrs); kf != nil {
				r.Known(kf, map[string]string{"pattern": k.pat, "unit": k.unit, "api": k.api, "n": f[6], "result": "timeout 20s"})
			} else {
				r.Violate(fmt.Sprintf("%s of %q [%s] on %q^n did not finish within 20 s at n=%s", f[4], f[1], f[3], f[2], f[6]),
					map[string]any{"pattern": f[1], "unit": f[2], "api": f[4], "n": f[6], "strategy": f[3]}, false)
			}
		case "COMPILE":
			var k int
			var wk uint64
			fmt.Sscan(f[2], &k)
			fmt.Sscan(f[3], &wk)
			if comp[f[1]] == nil {
				comp[f[1]] = map[int]uint64{}
			}
			comp[f[1]][k] = wk
		case "ERROR":
			r.Violate("work counter unavailable: "+l, map[string]any{"check": "runtime/coverage counters"}, true)
			return
		}
	}
	t := r.Tie("work(2n) <= 2.6 * work(n): search")
	for _, k := range order {
		s := series[k]
		// superlinear growth persists: it shows at the LAST doubling (ratio > 2.6), or at the two doublings before the largest size
		// in a row (> 2.3 each). One isolated jump followed by a ratio of ~2 is a change of regime between two linear ones (the
		// bounded backtracker hands over to the Pike VM above its visited-table limit), not superlinear work.
		ratioAt := func(n int) float64 {
			if n < 1024 || s[n] == 0 || s[n/2] == 0 {
				return 0
			}
			return float64(s[n]) / float64(s[n/2])
		}
		// the largest size actually measured (a timeout removes the larger ones; timeouts are reported separately)
		top := maxN
		for top >= 2048 && s[top] == 0 {
			top /= 2
		}
		last, prev := ratioAt(top), ratioAt(top/2)
		worst, at := last, top
		if last == 0 {
			continue
		}
		t.Cases++
		r.Dist["strategy:"+k.strat]++
		superlinear := last > 2.6 || (last > 2.3 && prev > 2.3)
		if !superlinear {
			if prev > 2.6 {
				r.Dist["regime-change(one jump, linear on both sides)"]++
			}
			continue
		}
		t.Disagreements++
		c05Superlinear[k.pat+"\x00"+k.unit] = true
		attrs := map[string]string{"strategy": k.strat, "kind": "superlinear", "api": k.api}
		if kf := matchKnown(known, "C05", attrs); kf != nil {
			r.Known(kf, map[string]string{"pattern": k.pat, "unit": k.unit, "api": k.api, "ratio": fmt.Sprintf("%.2f", worst)})
			continue
		}
		r.Violate(fmt.Sprintf("%s of %q [%s, %d NFA states] on %q^n: work %d at n=%d vs %d at n=%d (x%.2f for a doubling)", k.api, k.pat, k.strat, states[k], k.unit, s[at], at, s[at/2], at/2, worst),
			map[string]any{"pattern": k.pat, "unit": k.unit, "api": k.api, "strategy": k.strat, "work": s, "ratio": worst}, false)
	}
	tc := r.Tie("compile work polynomial in pattern size")
	for name, s := range comp {
		tc.Cases++
		if s[800] > 0 && s[400] > 0 && float64(s[800])/float64(s[400]) > 9 {
			tc.Disagreements++
			r.Violate(fmt.Sprintf("compile work for %s grows x%.1f when the size doubles (400 -> 800)", name, float64(s[800])/float64(s[400])), map[string]any{"family": name, "work": s}, false)
		}
	}
	if len(order) > 0 {
		k := order[0]
		r.Sample(map[string]any{"pattern": k.pat, "haystack": k.unit + "^n", "api": k.api, "strategy": k.strat, "work_by_n": series[k]})
		k = order[len(order)/2]
		r.Sample(map[string]any{"pattern": k.pat, "haystack": k.unit + "^n", "api": k.api, "strategy": k.strat, "work_by_n": series[k]})
	}
	r.Extra["timeouts"] = timeouts
	c05DigitBudgetTie(r) // the candidate budget of UseDigitPrefilter: scans of the model's trace == Stats(), cost <= 35·(|h|−at) + 4096
	replayKnownExamples(r, known, "C05")
}

func init() {
	// a work finding is re-measured by the run of the check itself (deterministic counters): its example still fails iff this run
	// measured superlinear work (or a timeout) for the example's (pattern, input family)
	exampleReplayers["work"] = func(f Finding) bool { return c05Superlinear[f.Example["pattern"]+"\x00"+f.Example["unit"]] }
}
