package main

import (
	"encoding/hex"
	"fmt"
	"regexp"
	"regexp/syntax"
	"strconv"
	"strings"
	"time"

	"github.com/coregx/coregex/dfa/lazy"
	"github.com/coregx/coregex/nfa"
)

func init() {
	checks["C14"] = checkC14
	exampleReplayers["engine"] = replayEngineExample
}

// replayEngineExample re-runs a lazy-DFA witness (default capacity, prefilter off) against the Lean reference.
func replayEngineExample(f Finding) bool {
	p := f.Example["pattern"]
	h, err := hex.DecodeString(strings.TrimPrefix(f.Example["haystack_hex"], "-"))
	if err != nil {
		return true
	}
	at, _ := strconv.Atoi(f.Example["at"])
	n, err := nfa.NewDefaultCompiler().Compile(p)
	if err != nil {
		return true
	}
	capb, clears := 2<<20, 5
	fmt.Sscanf(f.Example["config"], "cap=%d,clears=%d", &capb, &clears)
	d, err := lazy.CompileWithConfig(n, lazy.DefaultConfig().WithCacheCapacity(capb).WithMaxCacheClears(clears).WithPrefilter(false))
	if err != nil {
		return true
	}
	c := d.NewCache()
	dump := dumpNFA(n)
	// The witness is the pattern + configuration: the standard short-haystack enumeration (one reused cache, as in the
	// check, because several of these defects only show on a cache that has been used) followed by the recorded haystack.
	var hays [][]byte
	reps := byteClassReps(n)
	if len(reps) > 6 {
		reps = reps[:6]
	}
	var gen func(prefix []byte, l int)
	gen = func(prefix []byte, l int) {
		hays = append(hays, append([]byte(nil), prefix...))
		if l == 0 {
			return
		}
		for _, b := range reps {
			gen(append(prefix, b), l-1)
		}
	}
	gen(nil, 3)
	hays = append(hays, h)
	var reqs, gots []string
	for _, hh := range hays {
		hh := hh
		for a := 0; a <= len(hh); a++ {
			a := a
			if f.Example["op"] == "IsMatch" {
				if a > 0 {
					break
				}
				gots = append(gots, guard(10*time.Second, func() string { return fmt.Sprint(d.IsMatch(c, hh)) }))
				reqs = append(reqs, fmt.Sprintf("bt ismatch 0 %s %s", hexOf(hh), dump))
			} else {
				gots = append(gots, guard(10*time.Second, func() string { return fmt.Sprint(d.SearchAt(c, hh, a)) }))
				reqs = append(reqs, fmt.Sprintf("bt search %d %s %s", a, hexOf(hh), dump))
			}
		}
	}
	_ = at
	ans, err := RunLean(reqs)
	if err != nil {
		return true
	}
	for i, want := range ans {
		if f.Example["op"] != "IsMatch" {
			if want == "nil" {
				want = "-1"
			} else {
				want = want[strings.IndexByte(want, ',')+1:]
			}
		}
		if gots[i] != want {
			return true
		}
	}
	return false
}

// dumpNFA serialises an NFA through its exported accessors in the format Cx.Driver.parseNfa reads.
func dumpNFA(n *nfa.NFA) string {
	var sb strings.Builder
	fmt.Fprintf(&sb, "%d/%d/", n.StartAnchored(), n.StartUnanchored())
	for i := 0; i < n.States(); i++ {
		if i > 0 {
			sb.WriteByte(';')
		}
		s := n.State(nfa.StateID(i))
		switch s.Kind() {
		case nfa.StateMatch:
			sb.WriteString("M")
		case nfa.StateByteRange:
			lo, hi, nx := s.ByteRange()
			fmt.Fprintf(&sb, "B.%d.%d.%d", lo, hi, nx)
		case nfa.StateSparse:
			sb.WriteString("S.")
			for j, t := range s.Transitions() {
				if j > 0 {
					sb.WriteByte('_')
				}
				fmt.Fprintf(&sb, "%d-%d-%d", t.Lo, t.Hi, t.Next)
			}
		case nfa.StateSplit:
			l, r := s.Split()
			fmt.Fprintf(&sb, "P.%d.%d", l, r)
		case nfa.StateEpsilon:
			fmt.Fprintf(&sb, "E.%d", s.Epsilon())
		case nfa.StateCapture:
			idx, st, nx := s.Capture()
			b := 0
			if st {
				b = 1
			}
			fmt.Fprintf(&sb, "C.%d.%d.%d", idx, b, nx)
		case nfa.StateFail:
			sb.WriteString("F")
		case nfa.StateLook:
			k, nx := s.Look()
			fmt.Fprintf(&sb, "L.%d.%d", int(k), nx)
		case nfa.StateRuneAny:
			fmt.Fprintf(&sb, "A.%d", s.RuneAny())
		case nfa.StateRuneAnyNotNL:
			fmt.Fprintf(&sb, "N.%d", s.RuneAnyNotNL())
		default:
			sb.WriteString("F")
		}
	}
	return sb.String()
}

func spanStr(s, e int, ok bool) string {
	if !ok {
		return "nil"
	}
	return fmt.Sprintf("%d,%d", s, e)
}

// byteClassReps: one representative byte per class of the NFA's byte-class map, plus a few fixed bytes.
func byteClassReps(n *nfa.NFA) []byte {
	bc := n.ByteClasses()
	seen := map[byte]bool{}
	var reps []byte
	for b := 0; b < 256; b++ {
		c := bc.Get(byte(b))
		if !seen[c] {
			seen[c] = true
			reps = append(reps, byte(b))
		}
	}
	return reps
}

type engCase struct {
	pattern, engine, op string
	h                   []byte
	at                  int
	req                 string
	got                 string
	cfg                 string
}

// checkC14: every engine, driven directly on the dumped NFA, against the Lean backtracker model on the SAME NFA
// (proved sound and complete for the path relation `Accepts`, leftmost start, first end in priority order).
func checkC14(r *Report, known []Finding) {
	r.Rule = "pattern from corpus/mutation/grammar; NFA compiled by nfa.NewCompiler and dumped through exported accessors; haystacks: exhaustive over byte-class " +
		"representatives up to length L plus pattern-derived samples; every start offset; engines driven directly (PikeVM entry points, BoundedBacktracker *WithState with a " +
		"reused state, lazy DFA with tiny caches and clear limits); reference = Lean model Cx.Nfa.btSearchAt/btIsMatch on the dumped NFA; " +
		"non-trivial = reference finds a match; distinct by (pattern, haystack, offset)"
	np, L, nh := 800, 3, 6
	if r.Tier == "thorough" {
		np, L, nh = 2500, 4, 12
	}
	root := NewRNG(r.Seed)
	var cases []*engCase
	type dfaSession struct {
		pattern, cfg, req string
		ops, real         []string
	}
	var dfaSessions []dfaSession
	deadline := time.Now().Add(12 * time.Minute)
	for i := 0; i < np && time.Now().Before(deadline); i++ {
		rng := root.Fork(uint64(i) + 1)
		p := patternSource(rng, i, GenOpts{MaxDepth: 2})
		if _, err := regexp.Compile(p); err != nil {
			continue
		}
		ast, _ := syntax.Parse(p, syntax.Perl)
		var n *nfa.NFA
		if guard(10*time.Second, func() string {
			var err error
			n, err = nfa.NewDefaultCompiler().Compile(p)
			if err != nil {
				return "ERR"
			}
			return ""
		}) != "" || n == nil {
			r.Dist["nfa-compile-rejected"]++
			continue
		}
		if n.States() > 400 {
			r.Dist["nfa-too-large-skipped"]++
			continue
		}
		dump := dumpNFA(n)
		pike := nfa.NewPikeVM(n)
		pikeL := nfa.NewPikeVM(n)
		// hypotheses of the Pike theorems, decided on the dumped NFA
		hypOK := n.StartAnchored() != n.StartUnanchored()
		for si := 0; si < n.States(); si++ {
			st := n.State(nfa.StateID(si))
			switch st.Kind() {
			case nfa.StateRuneAny, nfa.StateRuneAnyNotNL:
				hypOK = false
			case nfa.StateSparse:
				ts := st.Transitions()
				for a := range ts {
					for b := a + 1; b < len(ts); b++ {
						if ts[a].Lo <= ts[b].Hi && ts[b].Lo <= ts[a].Hi {
							hypOK = false
						}
					}
				}
			}
		}
		if hypOK {
			r.Dist["pike-theorem-hypotheses-hold"]++
		} else {
			r.Dist["pike-theorem-hypotheses-fail(anchored/overlapping sparse/rune states)"]++
		}
		bt := nfa.NewBoundedBacktracker(n)
		btState := nfa.NewBacktrackerState()
		// lazy DFA configurations: tiny caches force clears and fallbacks
		type dcfg struct {
			name              string
			d                 *lazy.DFA
			c                 *lazy.DFACache
			capb, clears, det int
			ops, real         *[]string // the session on this cache, replayed through the Lean lazy-DFA model
		}
		var dfas []dcfg
		for _, capb := range []int{1, 700, 4000, 2 << 20} {
			for _, clears := range []int{0, 2} {
				cfg := lazy.DefaultConfig().WithCacheCapacity(capb).WithMaxCacheClears(clears).WithPrefilter(false)
				if d, err := lazy.CompileWithConfig(n, cfg); err == nil && d != nil {
					dfas = append(dfas, dcfg{fmt.Sprintf("cap=%d,clears=%d", capb, clears), d, d.NewCache(), capb, clears, 1000, &[]string{}, &[]string{}})
				}
			}
		}
		// determinisation limits: two small limits that rotate with the pattern index (over a run every value 1..24 meets many automata;
		// a limit is mishandled, if at all, when a successor set lands exactly on it), on a roomy cache so that the limit is what gives up
		for _, det := range []int{1 + i%12, 13 + (i/3)%12} {
			cfg := lazy.DefaultConfig().WithCacheCapacity(2 << 20).WithMaxCacheClears(2).WithPrefilter(false).WithDeterminizationLimit(det)
			if d, err := lazy.CompileWithConfig(n, cfg); err == nil && d != nil {
				dfas = append(dfas, dcfg{fmt.Sprintf("cap=%d,clears=2,det=%d", 2<<20, det), d, d.NewCache(), 2 << 20, 2, det, &[]string{}, &[]string{}})
			}
		}
		var hays [][]byte
		reps := byteClassReps(n)
		if len(reps) > 6 {
			reps = reps[:6]
		}
		var gen func(prefix []byte, l int)
		gen = func(prefix []byte, l int) {
			hays = append(hays, append([]byte(nil), prefix...))
			if l == 0 {
				return
			}
			for _, b := range reps {
				gen(append(prefix, b), l-1)
			}
		}
		if len(reps) <= 4 {
			gen(nil, L)
		} else {
			gen(nil, L-1)
		}
		for k := 0; k < nh; k++ {
			h := GenHaystack(rng, ast, false)
			if len(h) > 40 {
				h = h[:40]
			}
			hays = append(hays, h)
		}
		for _, h := range hays {
			h := h
			for at := 0; at <= len(h); at++ {
				if at > 0 && len(h) > 8 && at%3 != 0 {
					continue
				}
				at := at
				reqS := fmt.Sprintf("bt search %d %s %s", at, hexOf(h), dump)
				add := func(engine, op, cfg, req string, f func() string) {
					got := guard(10*time.Second, f)
					cases = append(cases, &engCase{pattern: p, engine: engine, op: op, h: h, at: at, req: req, got: got, cfg: cfg})
				}
				add("pikevm", "SearchAt", "", reqS, func() string { s, e, ok := pike.SearchAt(h, at); return spanStr(s, e, ok) })
				add("pikevm", "SearchWithSlotTableAt", "", reqS, func() string {
					s, e, ok := pike.SearchWithSlotTableAt(h, at, nfa.SearchModeFind)
					return spanStr(s, e, ok)
				})
				add("backtracker", "SearchAtWithState", "", reqS, func() string {
					if !bt.CanHandle(len(h) - at) {
						return "declined"
					}
					s, e, ok := bt.SearchAtWithState(h, at, btState)
					return spanStr(s, e, ok)
				})
				// the Lean Pike model (proved equal to the reference under hypotheses checked below) against the real VM
				add("pikevm", "SearchWithSlotTableAt~model", "", fmt.Sprintf("pike search %d %s %s", at, hexOf(h), dump), func() string {
					s, e, ok := pike.SearchWithSlotTableAt(h, at, nfa.SearchModeFind)
					return spanStr(s, e, ok)
				})
				add("pikevm", "SearchWithSlotTableAt(longest)~model", "", fmt.Sprintf("pike longest %d %s %s", at, hexOf(h), dump), func() string {
					pikeL.SetLongest(true)
					s, e, ok := pikeL.SearchWithSlotTableAt(h, at, nfa.SearchModeFind)
					return spanStr(s, e, ok)
				})
				if at == 0 {
					add("pikevm", "IsMatch~model", "", fmt.Sprintf("pike ismatch 0 %s %s", hexOf(h), dump), func() string { return fmt.Sprint(pike.IsMatch(h)) })
					reqM := fmt.Sprintf("bt ismatch 0 %s %s", hexOf(h), dump)
					add("pikevm", "IsMatch", "", reqM, func() string { return fmt.Sprint(pike.IsMatch(h)) })
					add("backtracker", "IsMatchWithState", "", reqM, func() string {
						if !bt.CanHandle(len(h)) {
							return "declined"
						}
						return fmt.Sprint(bt.IsMatchWithState(h, btState))
					})
					for _, dc := range dfas {
						dc := dc
						add("lazydfa", "IsMatch", dc.name, reqM, func() string { return fmt.Sprint(dc.d.IsMatch(dc.c, h)) })
						*dc.ops = append(*dc.ops, fmt.Sprintf("M.0.%s", hexOf(h)))
						*dc.real = append(*dc.real, map[string]string{"true": "t", "false": "f"}[cases[len(cases)-1].got])
					}
				}
				for _, dc := range dfas {
					dc := dc
					// forward DFA reports the END of the leftmost-first match from `at`
					add("lazydfa", "SearchAt(end)", dc.name, "end:"+reqS, func() string { return fmt.Sprint(dc.d.SearchAt(dc.c, h, at)) })
					*dc.ops = append(*dc.ops, fmt.Sprintf("S.%d.%s", at, hexOf(h)))
					*dc.real = append(*dc.real, cases[len(cases)-1].got)
				}
			}
		}
		// one model session per (pattern, cache configuration): the same calls in the same order on one cache
		if n.States() <= 150 {
			bc := n.ByteClasses()
			cls := make([]byte, 256)
			for b := 0; b < 256; b++ {
				cls[b] = bc.Get(byte(b))
			}
			for _, dc := range dfas {
				if len(*dc.ops) == 0 {
					continue
				}
				dfaSessions = append(dfaSessions, dfaSession{pattern: p, cfg: dc.name, ops: *dc.ops, real: *dc.real,
					req: fmt.Sprintf("dfa fwd %d %d %d %d %s %s %s", dc.d.AlphabetLen(), dc.capb, dc.clears, dc.det, hexOf(cls), dump, strings.Join(*dc.ops, ";"))})
			}
		}
	}
	// ---- model tie: Lean lazy-DFA model (cache, clears, give-up) == real lazy DFA, call by call
	{
		var sreqs []string
		for _, ss := range dfaSessions {
			sreqs = append(sreqs, ss.req)
		}
		sans, err := RunLean(sreqs)
		if err != nil || len(sans) != len(sreqs) {
			r.Violate(fmt.Sprintf("Lean driver failed on the lazy DFA sessions: %v", err), map[string]any{"correspondence": "C14 lazy DFA model"}, true)
		} else {
			t := r.Tie("Lean lazy-DFA model (Cx.Dfa: determinize, cache, clear, give-up) == dfa/lazy, call by call on one reused cache")
			for i, ss := range dfaSessions {
				got := strings.Split(sans[i], ",")
				if len(got) != len(ss.real) {
					t.Cases++
					t.Disagreements++
					r.Violate(fmt.Sprintf("lazy DFA model session on %q [%s]: model answered %.60q for %d calls", ss.pattern, ss.cfg, sans[i], len(ss.real)),
						map[string]any{"pattern": ss.pattern, "config": ss.cfg, "request": ss.req, "correspondence": "Cx.Dfa vs dfa/lazy"}, true)
					continue
				}
				for k := range got {
					t.Cases++
					if got[k] == "G" {
						r.Dist["dfa-model:gave-up(NFA fallback)"]++
						continue
					}
					if got[k] != ss.real[k] {
						t.Disagreements++
						r.Violate(fmt.Sprintf("lazy DFA model vs code on %q [%s]: call %d (%s) code=%s model=%s", ss.pattern, ss.cfg, k, ss.ops[k], ss.real[k], got[k]),
							map[string]any{"pattern": ss.pattern, "config": ss.cfg, "call_index": k, "call": ss.ops[k], "code": ss.real[k], "model": got[k], "request": ss.req,
								"correspondence": "Cx.Dfa vs dfa/lazy"}, true)
						break
					}
				}
			}
		}
	}
	var reqs []string
	for _, c := range cases {
		reqs = append(reqs, strings.TrimPrefix(c.req, "end:"))
	}
	// identical requests are answered once
	uniq := map[string]int{}
	var ureqs []string
	for _, q := range reqs {
		if _, ok := uniq[q]; !ok {
			uniq[q] = len(ureqs)
			ureqs = append(ureqs, q)
		}
	}
	ans, err := RunLean(ureqs)
	if err != nil {
		r.Violate("Lean driver failed: "+err.Error(), map[string]any{"correspondence": "C14 engines vs Cx.Nfa backtracker model"}, true)
		return
	}
	// second pass for the forward DFA: when its end differs from the leftmost-first end, is it at least the end of
	// SOME match starting at the leftmost start (priority-only difference), or no match at all?
	endsReq := map[int]int{}
	var ereqs []string
	for i, c := range cases {
		if !strings.HasPrefix(c.req, "end:") {
			continue
		}
		want := ans[uniq[reqs[i]]]
		if want == "nil" || c.got == "-1" || c.got == "declined" {
			continue
		}
		if want[strings.IndexByte(want, ',')+1:] != c.got {
			endsReq[i] = len(ereqs)
			parts := strings.SplitN(reqs[i], " ", 5) // bt search <at> <hex> <nfa>
			ereqs = append(ereqs, fmt.Sprintf("btend %s %s %s %s", parts[2], c.got, parts[3], parts[4]))
		}
	}
	eans, err := RunLean(ereqs)
	if err != nil {
		r.Violate("Lean driver failed: "+err.Error(), map[string]any{"correspondence": "C14 engines vs Cx.Nfa backtracker model"}, true)
		return
	}
	for i, c := range cases {
		want := ans[uniq[reqs[i]]]
		kind := ""
		if strings.HasPrefix(c.req, "end:") {
			if want == "nil" {
				want = "-1"
			} else {
				want = want[strings.IndexByte(want, ',')+1:]
			}
			if k, ok := endsReq[i]; ok {
				switch eans[k] {
				case "leftmost":
					kind = "end-priority"
				case "other-start":
					kind = "end-of-later-start"
				default:
					kind = "end-invalid"
				}
			}
		}
		key := c.pattern + "\x00" + string(c.h) + "\x00" + fmt.Sprint(c.at)
		r.Case(key, want != "nil" && want != "false" && want != "-1")
		t := r.Tie(c.engine + "." + c.op + " == Cx.Nfa reference on the dumped NFA")
		t.Cases++
		r.Dist["engine:"+c.engine]++
		if c.got == want || c.got == "declined" {
			if c.got == "declined" {
				r.Dist["declined"]++
			}
			continue
		}
		t.Disagreements++
		if kind == "" {
			kind = diffKind(want, c.got)
			if want == "-1" {
				kind = "extra"
			} else if c.got == "-1" {
				kind = "missing"
			}
		}
		attrs := map[string]string{"engine": c.engine, "op": c.op, "kind": kind}
		if ast, err := syntax.Parse(c.pattern, syntax.Perl); err == nil {
			for _, tg := range featuresOf(ast).Tags() {
				attrs[tg] = "true"
			}
		}
		if f := matchKnown(known, "C14", attrs); f != nil {
			r.Known(f, map[string]string{"kind": "engine", "engine": c.engine, "op": c.op, "pattern": c.pattern, "haystack_hex": hexOf(c.h),
				"at": fmt.Sprint(c.at), "config": c.cfg, "got": c.got, "want": want})
			continue
		}
		r.Violate(fmt.Sprintf("%s.%s %s on pattern %q haystack %q at=%d: engine=%s reference(NFA model)=%s [%s]", c.engine, c.op, c.cfg, c.pattern, c.h, c.at, c.got, want, kind),
			map[string]any{"pattern": c.pattern, "haystack_hex": hexOf(c.h), "at": c.at, "engine": c.engine, "op": c.op, "config": c.cfg, "engine_answer": c.got,
				"reference": want, "kind": kind, "request": strings.TrimPrefix(c.req, "end:")}, false)
		if len(r.Violations) > 4000 {
			break
		}
	}
	if len(cases) > 0 {
		c := cases[len(cases)/2]
		r.Sample(map[string]any{"pattern": c.pattern, "haystack": fmt.Sprintf("%q", c.h), "at": c.at, "engine": c.engine, "op": c.op, "answer": c.got})
	}
	// the one-pass DFA and the Pike VM's capture entry points are engines of this property too: their model ties (build accept/reject,
	// Search/IsMatch at every offset against the proved-equal Lean models and the reference) are shared with C03
	c14ReverseTie(r)
	c03EngineTies(r, known, NewRNG(r.Seed^0xC14))
	replayKnownExamples(r, known, "C14")
}
