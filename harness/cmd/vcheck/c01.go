package main

import (
	"fmt"
	"reflect"
	"regexp"
	"regexp/syntax"
	"strings"
	"sync"
	"time"
	"unicode/utf8"

	"github.com/coregx/coregex"
	"github.com/coregx/coregex/meta"
	"github.com/coregx/coregex/nfa"
)

func init() {
	checks["C01"] = checkC01
	checks["C02"] = checkC02
}

// astSexp serialises a parsed (unsimplified) regexp in the grammar Cx.DriverCompile reads; ok=false outside the
// fragment the Lean compile model covers (case folding, non-ASCII classes, dot).
func astSexp(re *syntax.Regexp) (string, bool) {
	g := func(re *syntax.Regexp) string {
		if re.Flags&syntax.NonGreedy != 0 {
			return "0"
		}
		return "1"
	}
	subs := func(op string) (string, bool) {
		parts := []string{op}
		for _, s := range re.Sub {
			x, ok := astSexp(s)
			if !ok {
				return "", false
			}
			parts = append(parts, x)
		}
		return "(" + strings.Join(parts, ",") + ")", true
	}
	switch re.Op {
	case syntax.OpEmptyMatch:
		return "(empty)", true
	case syntax.OpLiteral:
		if re.Flags&syntax.FoldCase != 0 {
			return "", false
		}
		var b []byte
		for _, r := range re.Rune {
			b = utf8.AppendRune(b, r)
		}
		return "(lit," + hexOf(b) + ")", true
	case syntax.OpCharClass:
		if len(re.Rune) == 0 {
			return "(cls)", true
		}
		var rs []string
		for i := 0; i+1 < len(re.Rune); i += 2 {
			if re.Rune[i+1] > 0x7f {
				return "", false
			}
			rs = append(rs, fmt.Sprintf("%02x-%02x", re.Rune[i], re.Rune[i+1]))
		}
		return "(cls," + strings.Join(rs, "_") + ")", true
	case syntax.OpBeginText:
		return "(look,0)", true
	case syntax.OpEndText:
		return "(look,1)", true
	case syntax.OpBeginLine:
		return "(look,2)", true
	case syntax.OpEndLine:
		return "(look,3)", true
	case syntax.OpWordBoundary:
		return "(look,4)", true
	case syntax.OpNoWordBoundary:
		return "(look,5)", true
	case syntax.OpCapture:
		x, ok := astSexp(re.Sub[0])
		return fmt.Sprintf("(cap,%d,%s)", re.Cap, x), ok
	case syntax.OpStar, syntax.OpPlus, syntax.OpQuest:
		x, ok := astSexp(re.Sub[0])
		name := map[syntax.Op]string{syntax.OpStar: "star", syntax.OpPlus: "plus", syntax.OpQuest: "quest"}[re.Op]
		return fmt.Sprintf("(%s,%s,%s)", name, g(re), x), ok
	case syntax.OpRepeat:
		x, ok := astSexp(re.Sub[0])
		mx := "inf"
		if re.Max >= 0 {
			mx = fmt.Sprint(re.Max)
		}
		return fmt.Sprintf("(rep,%s,%d,%s,%s)", g(re), re.Min, mx, x), ok
	case syntax.OpConcat:
		return subs("cat")
	case syntax.OpAlternate:
		return subs("alt")
	}
	return "", false
}

// compileTie: the Lean transliteration of nfa/compile.go (for which compile_lang is proved) must produce the NFA the
// real compiler produces; a structural difference falls back to comparing the two automata's languages on all short inputs.
func compileTie(r *Report, known []Finding, prop string, n int) {
	root := NewRNG(r.Seed ^ 0xC0117)
	type cc struct{ p, sexp, dump string }
	var cases []cc
	for i := 0; i < n; i++ {
		rng := root.Fork(uint64(i) + 1)
		p := GenPattern(rng, GenOpts{ASCIIOnly: true, NoFold: true, MaxDepth: 3})
		if strings.Contains(p, ".") && !strings.Contains(p, `\.`) {
			continue
		}
		re, err := syntax.Parse(p, syntax.Perl)
		if err != nil {
			continue
		}
		sx, ok := astSexp(re)
		if !ok {
			continue
		}
		var nf *nfa.NFA
		if guard(10*time.Second, func() string {
			var e error
			nf, e = nfa.NewDefaultCompiler().CompileRegexp(re)
			if e != nil {
				return "ERR"
			}
			return ""
		}) != "" || nf == nil {
			continue
		}
		cases = append(cases, cc{p, sx, dumpNFA(nf)})
	}
	var reqs []string
	for _, c := range cases {
		reqs = append(reqs, "compileu "+c.sexp)
	}
	ans, err := RunLean(reqs)
	if err != nil {
		r.Violate("Lean driver failed: "+err.Error(), map[string]any{"correspondence": "compile model"}, true)
		return
	}
	t := r.Tie("Lean compile model (compile_lang proved) == NFA produced by nfa.Compiler")
	for i, c := range cases {
		t.Cases++
		r.Case("compile\x00"+c.p, true)
		if ans[i] == c.dump {
			continue
		}
		// structural difference: decide language equality on every haystack over {a,b,1,\n,' '} up to length 3
		alpha := []byte("ab1\n ")
		var hays [][]byte
		var gen func(pre []byte, l int)
		gen = func(pre []byte, l int) {
			hays = append(hays, append([]byte(nil), pre...))
			if l == 0 {
				return
			}
			for _, b := range alpha {
				gen(append(pre, b), l-1)
			}
		}
		gen(nil, 3)
		var q []string
		for _, h := range hays {
			q = append(q, fmt.Sprintf("bt search 0 %s %s", hexOf(h), ans[i]), fmt.Sprintf("bt search 0 %s %s", hexOf(h), c.dump))
		}
		differs := ""
		if strings.HasPrefix(ans[i], "error") || ans[i] == "bad-op" {
			differs = "model compiler answered " + ans[i]
		} else if a2, err := RunLean(q); err == nil {
			for k := 0; k+1 < len(a2); k += 2 {
				if a2[k] != a2[k+1] {
					differs = fmt.Sprintf("on %q: model-NFA %s, real NFA %s", hays[k/2], a2[k], a2[k+1])
					break
				}
			}
		}
		if differs == "" {
			r.Dist["compile-structure-differs-language-equal"]++
			continue
		}
		t.Disagreements++
		// search for a property-level failure: does coregex disagree with regexp on this pattern?
		fail := ""
		if std, err := regexp.Compile(c.p); err == nil {
			if cx, err := coregex.Compile(c.p); err == nil {
				for _, h := range hays {
					if std.Match(h) != cx.Match(h) || fmt.Sprint(std.FindIndex(h)) != fmt.Sprint(cx.FindIndex(h)) {
						fail = fmt.Sprintf("%q: regexp %v %v, coregex %v %v", h, std.Match(h), std.FindIndex(h), cx.Match(h), cx.FindIndex(h))
						break
					}
				}
			}
		}
		r.Violate(fmt.Sprintf("the NFA compiled for %q is not the NFA of the proved compile model (%s); end-to-end: %s", c.p, differs, map[bool]string{true: fail, false: "no failing input found"}[fail != ""]),
			map[string]any{"pattern": c.p, "sexp": c.sexp, "model_nfa": ans[i], "real_nfa": c.dump, "difference": differs, "failing_input": fail,
				"theorem": "Cx.Compile.compile_lang applies to the model NFA only"}, fail == "")
	}
}

func checkC01(r *Report, known []Finding) {
	r.Rule = "(a) compile tie: generated ASTs of the modelled fragment -> Lean compile model vs the real NFA (state-by-state; language comparison on all inputs of length <= 3 as fallback); " +
		"(b) end-to-end: Match, MatchString, MatchReader and the package-level functions vs regexp on patterns from corpus/mutation/grammar x haystacks derived from the pattern " +
		"(valid, multi-byte and ill-formed UTF-8, long inputs); non-trivial = pattern has a matching haystack in the sample; distinct by pattern"
	n := 500
	if r.Tier == "thorough" {
		n = 5000
	}
	compileTie(r, known, "C01", n)
	c02RevSuffixTie(r) // IsMatch of the reverse-suffix strategy vs its Lean model and regexp
	c02StrategyTies(r) // the same for reverse inner / reverse anchored / reverse suffix set / multiline reverse suffix
	c02MetaFindTie(r)  // IsMatch (and FindIndices) of the core dispatch vs Cx.MetaFind and regexp
	c01BigInputs(r)    // Match on inputs around the capacity limits of the engines (non-ASCII: the ASCII variants do not apply)
	c02MetaFind2Tie(r) // IsMatch of UseDigitPrefilter / UseTeddy / UseBoundedBacktracker vs Cx.MetaFind2 and regexp
	obs := append(obsMatch(), obsReader()[0], Obs{"pkg.MatchString", func(re StdAPI, h []byte) string {
		p := re.String()
		if _, ok := re.(*coregex.Regex); ok {
			m, err := coregex.MatchString(p, string(h))
			return fmt.Sprint(m, err == nil)
		}
		m, err := regexp.MatchString(p, string(h))
		return fmt.Sprint(m, err == nil)
	}})
	runE2E(r, known, e2eSpec{prop: "C01", obs: obs, np: 5000, nh: 12, npT: 24000, nhT: 16, probes: e2eProbes, nontriv: func(w string) bool { return strings.HasPrefix(w, "true") }})
	replayKnownExamples(r, known, "C01")
}

func checkC02(r *Report, known []Finding) {
	r.Rule = "end-to-end: Find, FindString, FindIndex, FindStringIndex, FindReaderIndex vs regexp on patterns from corpus/mutation/grammar x haystacks derived from the pattern (valid, " +
		"multi-byte, ill-formed, long > 100 bytes); the engines underneath are tied to the proved reference by the C14 check; non-trivial = a match exists; distinct by pattern"
	obs := append(obsFind(), obsReader()[1])
	obs = append(obs, obsEngineFind()...)
	runE2E(r, known, e2eSpec{prop: "C02", obs: obs, np: 5000, nh: 12, npT: 24000, nhT: 16, probes: e2eProbes, nontriv: func(w string) bool { return w != "nil" && w != `""` }})
	c02ReverseTie(r)
	c02RevSuffixTie(r)
	c02StrategyTies(r)
	c02MetaFindTie(r)  // core dispatch (UseNFA / UseDFA / UseBoth / UseBoundedBacktracker) vs Cx.MetaFind and regexp
	c02MetaFind2Tie(r) // strategy loops (UseDigitPrefilter with its candidate budget, UseTeddy, IsMatch of UseBoundedBacktracker) vs Cx.MetaFind2 and regexp
	c02GuardsTie(r)    // the strategy guards (AST predicates of meta/strategy.go, compile.go, reverse_inner.go) vs Cx.Guards, on every corpus pattern, the strategy templates and every inner node under every operator
	replayKnownExamples(r, known, "C02")
}

// c02ReverseTie: the Lean transliteration of nfa/reverse.go (Cx.Rev.reverse) must produce, state by state, the automaton the
// real nfa.ReverseAnchored / nfa.Reverse build, and the hypotheses of the reversal theorem (RevHyp) must hold for the forward
// automaton; then C02_reverse_automaton_language applies to that automaton for every haystack.
func c02ReverseTie(r *Report) {
	np := 220
	if r.Tier == "thorough" {
		np = 2500
	}
	root := NewRNG(r.Seed)
	type cs struct{ p, kind, req, want string }
	var cases []cs
	for i := 0; i < np; i++ {
		rng := root.Fork(0x4E7 + uint64(i))
		p := patternSource(rng, i, GenOpts{MaxDepth: 3, NoLook: true})
		if i < 8 {
			p = []string{`z*azb`, `a*b*c`, `(?:ab)*c`, `[a-z]*keyword`, `(a|ab)*c`, `(?:xa|y[a-c])e`, `é*x`, `a.+b`}[i]
		}
		ast, err := syntax.Parse(p, syntax.Perl)
		if err != nil || featuresOf(ast).WordB || featuresOf(ast).LineA || featuresOf(ast).TextA {
			continue
		}
		var n *nfa.NFA
		if guard(10*time.Second, func() string {
			var e error
			n, e = nfa.NewDefaultCompiler().Compile(p)
			if e != nil {
				return "ERR"
			}
			return ""
		}) != "" || n == nil || n.States() > 300 {
			continue
		}
		d := dumpNFA(n)
		cases = append(cases, cs{p, "hyp", "rev hyps " + d, "true"})
		for _, anch := range []int{1, 0} {
			var rv *nfa.NFA
			if guard(10*time.Second, func() string {
				if anch == 1 {
					rv = nfa.ReverseAnchored(n)
				} else {
					rv = nfa.Reverse(n)
				}
				return ""
			}) != "" || rv == nil {
				continue
			}
			cases = append(cases, cs{p, map[int]string{1: "ReverseAnchored", 0: "Reverse"}[anch], fmt.Sprintf("rev nfa %d %s", anch, d), dumpNFA(rv)})
		}
		r.Case("rev\x00"+p, true)
	}
	var reqs []string
	for _, c := range cases {
		reqs = append(reqs, c.req)
	}
	ans, err := RunLean(reqs)
	if err != nil || len(ans) != len(reqs) {
		r.Violate(fmt.Sprintf("Lean driver failed on the reverse-automaton tie: %v", err), map[string]any{"correspondence": "Cx.Rev vs nfa/reverse.go"}, true)
		return
	}
	t := r.Tie("Lean transliteration of nfa/reverse.go == nfa.ReverseAnchored / nfa.Reverse, state by state (and RevHyp holds)")
	for i, c := range cases {
		t.Cases++
		got := ans[i]
		if c.kind == "hyp" {
			got = strings.SplitN(got, ",", 2)[0]
		}
		if got == c.want {
			continue
		}
		t.Disagreements++
		r.Violate(fmt.Sprintf("reverse automaton of %q (%s): the code and the Lean transliteration differ: code=%.120s lean=%.120s", c.p, c.kind, c.want, got),
			map[string]any{"pattern": c.p, "kind": c.kind, "request": c.req, "code": c.want, "lean": got, "correspondence": "Cx.Rev.reverse vs nfa/reverse.go"}, true)
	}
}

// c02RevSuffixTie: for generated patterns that select UseReverseSuffix, the Lean model of meta/reverse_suffix.go
// (Cx.RevSuffix, run with oracles derived by brute force from regexp's own answers on every substring) must return what
// the real searcher returns, at every start offset, and what regexp returns.  The three parameters the constructor
// computed (suffix literal, matchStartZero, lineBounded) are read from the compiled engine by reflection.
func c02RevSuffixTie(r *Report) {
	shapes := []string{`[a-z]+\.txt`, `.*\.txt`, `.*?\.txt`, `\w+@\w+\.com`, `[0-9][a-z.]+\.txt`, `(?s).*z`, `.+keyword`, `[a-z]+aba`, `.+aba`, `\w+abab`, `[^\s]+\.\.`, `(?:a|bc)+xyz`,
		`[a-c]*?foo`, `(?s).+?end`, `[^\n]+;`, `(\w+)=end`, `.*connection.*?timeout`, `x[ab]*y+\.log`, `.*foo.*bar`}
	root := NewRNG(r.Seed)
	type cs struct {
		p, req, got, std string
		h                []byte
		at               int
	}
	var cases []cs
	used := 0
	for i := 0; i < 400 && used < 40; i++ {
		rng := root.Fork(0x25F + uint64(i))
		var p string
		if i < len(shapes) {
			p = shapes[i]
		} else {
			p = MutatePattern(rng, shapes[rng.Intn(len(shapes))])
		}
		std, err := regexp.Compile(p)
		if err != nil {
			continue
		}
		eng, err := meta.Compile(p)
		if err != nil || eng.Strategy() != meta.UseReverseSuffix {
			continue
		}
		sf := reflect.ValueOf(eng).Elem().FieldByName("reverseSuffixSearcher")
		if !sf.IsValid() || sf.IsNil() {
			continue
		}
		s := sf.Elem()
		fb, fz, fl := s.FieldByName("suffixBytes"), s.FieldByName("matchStartZero"), s.FieldByName("lineBounded")
		if !fb.IsValid() || !fz.IsValid() || !fl.IsValid() {
			r.Violate("the reverse-suffix searcher no longer has the fields the model is parameterised by (suffixBytes, matchStartZero, lineBounded)",
				map[string]any{"pattern": p, "correspondence": "Cx.RevSuffix vs meta/reverse_suffix.go"}, true)
			return
		}
		suffix := append([]byte(nil), fb.Bytes()...)
		if len(suffix) == 0 {
			continue
		}
		used++
		full := regexp.MustCompile(`\A(?:` + p + `)\z`)
		flags := fmt.Sprintf("%d%d", map[bool]int{false: 0, true: 1}[fz.Bool()], map[bool]int{false: 0, true: 1}[fl.Bool()])
		ast, _ := syntax.Parse(p, syntax.Perl)
		var hays [][]byte
		hays = append(hays, nil, suffix, append(append([]byte("a"), suffix...), suffix...), append(append([]byte("a\n"), suffix...), '\n'))
		// occurrences of the suffix that OVERLAP a rejected occurrence: suffix[:k] + suffix, bare and behind one byte ("ab"+"aba" = "ababa",
		// "." + ".." = "..."): a candidate loop that resumes behind the rejected occurrence instead of one byte further never sees them
		for k := 1; k < len(suffix); k++ {
			ov := append(append([]byte(nil), suffix[:k]...), suffix...)
			if !utf8.Valid(ov) || !utf8.Valid(suffix[len(suffix)-k:]) {
				continue // cutting a multi-byte literal inside a rune gives ill-formed input: the recorded UTF-8 findings, not this tie's subject
			}
			hays = append(hays, ov, append([]byte("a"), ov...), append(append([]byte(nil), ov...), suffix[len(suffix)-k:]...))
		}
		for k := 0; k < 10; k++ {
			h := GenHaystack(rng, ast, true)
			if len(h) > 18 {
				h = h[:18]
			}
			hays = append(hays, h)
		}
		r.Case("rsfx\x00"+p, true)
		for _, h := range hays {
			var mt []string
			for a := 0; a <= len(h); a++ {
				for e := a; e <= len(h); e++ {
					if full.Match(h[a:e]) {
						// regexp on the substring loses the context; only assertion-free patterns select this strategy
						mt = append(mt, fmt.Sprintf("%d.%d", a, e))
					}
				}
			}
			mts := "-"
			if len(mt) > 0 {
				mts = strings.Join(mt, ",")
			}
			var ref []string
			for a := 0; a <= len(h); a++ {
				loc := std.FindIndex(h[a:])
				if loc == nil {
					ref = append(ref, "x")
				} else {
					ref = append(ref, fmt.Sprintf("%d.%d", loc[0]+a, loc[1]+a))
				}
			}
			for at := 0; at <= len(h); at++ {
				for _, mode := range []string{"00", "11", "20"} {
					got := "none"
					if s, e, ok := eng.FindIndicesAt(h, at); ok {
						got = fmt.Sprintf("%d.%d", s, e)
					}
					if at == 0 {
						got += fmt.Sprintf(" %v", eng.IsMatch(h))
					}
					cases = append(cases, cs{p, fmt.Sprintf("revsuffix run %d %s %s %s%s %s %s", at, hexOf(h), hexOf(suffix), flags, mode, mts, strings.Join(ref, ",")), got, ref[at], h, at})
				}
			}
		}
	}
	var reqs []string
	for _, c := range cases {
		reqs = append(reqs, c.req)
	}
	ans, err := RunLean(reqs)
	if err != nil || len(ans) != len(reqs) {
		r.Violate(fmt.Sprintf("Lean driver failed on the reverse-suffix strategy tie: %v", err), map[string]any{"correspondence": "Cx.RevSuffix"}, true)
		return
	}
	t := r.Tie("Lean model of the reverse-suffix strategy (brute-force oracles, 3 cut-off policies) == meta.Engine under UseReverseSuffix == regexp")
	for i, c := range cases {
		t.Cases++
		f := strings.Fields(ans[i])
		if len(f) < 2 {
			t.Disagreements++
			r.Violate("reverse-suffix model: malformed answer "+ans[i], map[string]any{"request": c.req}, true)
			continue
		}
		model := f[0]
		if c.at == 0 {
			model += " " + f[1]
		}
		stdWant := strings.ReplaceAll(c.std, "x", "none")
		codeSpan := strings.Fields(c.got)[0]
		if model == c.got && codeSpan == stdWant {
			continue
		}
		t.Disagreements++
		if gf := strings.Fields(c.got); c.at == 0 && len(gf) == 2 && gf[1] != fmt.Sprint(strings.Contains(strings.Join(strings.Split(c.req, " ")[len(strings.Split(c.req, " "))-1:], ""), ".")) {
			// IsMatch of the real engine disagrees with regexp (the reference table has a span somewhere iff regexp matches)
			r.Violate(fmt.Sprintf("UseReverseSuffix: IsMatch of %q on %q: coregex=%s, regexp=%v (FindIndicesAt from 0: %s; model: %s)", c.p, c.h, gf[1], !(gf[1] == "true"), gf[0], model),
				map[string]any{"pattern": c.p, "haystack_hex": hexOf(c.h), "api": "Match", "coregex": gf[1], "model": model, "request": c.req}, false)
		} else if codeSpan != stdWant {
			r.Violate(fmt.Sprintf("UseReverseSuffix: FindIndicesAt of %q on %q at=%d: coregex=%s regexp=%s (model=%s)", c.p, c.h, c.at, codeSpan, stdWant, f[0]),
				map[string]any{"pattern": c.p, "haystack_hex": hexOf(c.h), "at": c.at, "coregex": codeSpan, "regexp": stdWant, "model": f[0], "request": c.req}, false)
		} else {
			r.Violate(fmt.Sprintf("reverse-suffix strategy: the code and the Lean model differ on %q, haystack %q at=%d: code=%s model=%s", c.p, c.h, c.at, c.got, model),
				map[string]any{"pattern": c.p, "haystack_hex": hexOf(c.h), "at": c.at, "code": c.got, "model": model, "request": c.req, "correspondence": "Cx.RevSuffix vs meta/reverse_suffix.go"}, true)
		}
	}
}

// e2eProbes: shapes whose strategies keep budgets, windows or candidate loops (digit prefilter with its scan budget, reverse
// strategies, start-anchored dot loops): they run first and also on stretched haystacks.
// manyLiterals builds an alternation of n distinct 3-letter words (no word occurs inside another).
func manyLiterals(n int) string {
	var ws []string
	for i := 0; i < n; i++ {
		ws = append(ws, fmt.Sprintf("%c%c%c", 'a'+i%26, 'e'+(i/2)%20, 'k'+(i*7)%15))
	}
	return strings.Join(ws, "|")
}

var e2eProbes = []string{
	// literal alternations large enough for the Aho-Corasick strategy (> 64) and for Fat Teddy (33..64), with a literal that occurs
	// INSIDE another one, listed before or after it: the automaton behind both reports the occurrence that ends first
	"rdqs1b|dqs|" + manyLiterals(70), "dqs|rdqs1b|" + manyLiterals(70), manyLiterals(70) + "|xbcd|xbc", "xbcd|" + manyLiterals(20) + "|xbc|" + manyLiterals(40)[80:],
	manyLiterals(40) + "|abcab|bca", `25[0-5]|2[0-4][0-9]`, manyLiterals(70),
	// class products large enough for the literal engines, WITH position assertions (the literal engines match wherever the literal occurs)
	`\d\d\b`, `[a-j][a-j]\b`, `\b(\d)(\d)`, `(?m)^(?:` + manyLiterals(70) + `)`, `(?:` + manyLiterals(70) + `)\b`, `[a-h][a-h]\B`, `\b[0-9][a-f]`, `[0-9][0-9a-f]*h|[0-9]+px`, `[0-9][a-z0-9]*X|7Y`, `(\d[\da-z]*_id|\d{4}-\d{2})`, `[0-9]+[a-z]*\.com`, `\d+\.\d+\.\d+`,
	`[a-z]+\.txt`, `\w+@\w+\.com`, `.*error.*`, `[a-z ]+connection[a-z ]+[0-9]`, `(?m)^/.*[0-9]\.php`, `^a.*b`, `^.+b`, `\bport.\d+`, `\Bion.\w`,
	`[a-z]+[a-z]+[0-9]`, `(foo|bar)+x`, `"[^"]*"`,
	// class sequences of three and more parts (composite sequence DFA: a failed attempt followed by a match that starts inside it)
	`[a-z]+[0-9]+[a-z]+[.,]+`, `[0-9]+\s+[0-9]+\s+[a-z]+`, `[A-Z]+[a-z]+[A-Z]+[a-z]+[0-9]+`, `[ab]{2,}[bc]{2,}[ca]{2,}`}

var engCache sync.Map // pattern -> *meta.Engine

// obsEngineFind: meta.Engine.Find / FindAt (the *Match-returning entry points have their own per-strategy code in meta/find.go)
// against regexp; for at > 0 only on patterns without look-around, where regexp's answer on h[at:] shifted by at is the answer.
func obsEngineFind() []Obs {
	engOf := func(p string) *meta.Engine {
		if v, ok := engCache.Load(p); ok {
			e, _ := v.(*meta.Engine)
			return e
		}
		e, err := meta.Compile(p)
		if err != nil {
			e = nil
		}
		engCache.Store(p, e)
		return e
	}
	span := func(m *meta.Match) string {
		if m == nil {
			return "nil"
		}
		return fmt.Sprintf("[%d %d]", m.Start(), m.End())
	}
	return []Obs{
		{"Engine.Find", func(re StdAPI, h []byte) string {
			if _, ok := re.(*coregex.Regex); ok {
				if e := engOf(re.String()); e != nil {
					return span(e.Find(h))
				}
				return "skip"
			}
			if engOf(re.String()) == nil {
				return "skip"
			}
			return fmtInts(re.FindIndex(h))
		}},
		{"Engine.FindAt", func(re StdAPI, h []byte) string {
			ast, err := syntax.Parse(re.String(), syntax.Perl)
			if err != nil || engOf(re.String()) == nil {
				return "skip"
			}
			if f := featuresOf(ast); f.WordB || f.LineA || f.TextA {
				return "skip"
			}
			var out []string
			for _, at := range []int{1, len(h) / 2, len(h)} {
				if at < 0 || at > len(h) {
					continue
				}
				if _, ok := re.(*coregex.Regex); ok {
					out = append(out, span(engOf(re.String()).FindAt(h, at)))
				} else if loc := re.FindIndex(h[at:]); loc != nil {
					out = append(out, fmt.Sprintf("[%d %d]", loc[0]+at, loc[1]+at))
				} else {
					out = append(out, "nil")
				}
			}
			return strings.Join(out, ",")
		}},
	}
}

// c01BigInputs: Match / MatchString on haystacks of 0.8 - 3 MB, ASCII and non-ASCII, for start-anchored dot patterns under the
// backtracker strategy: the boolean dispatch chooses between the ASCII backtracker, the full one and the Pike VM by size checks
// that differ per automaton; an input one engine cannot handle must go to the next, never be answered "false".
func c01BigInputs(r *Report) {
	t := r.Tie("Match on 0.8 - 3 MB inputs (ASCII and non-ASCII) == regexp")
	sizes := []int{800000, 1800000}
	if r.Tier == "thorough" {
		sizes = []int{400000, 800000, 1300000, 1800000, 2300000, 3000000}
	}
	for _, c := range []struct{ p, head, unit, tail string }{
		{`^/.*[\w-]+\.php`, "/", "é", "x.php"}, {`^(\w+)\s.*=`, "key ", "é", "="}, {`^ERROR: .*timeout`, "ERROR: ", "日本語", " timeout"}, {`^/.*[\w-]+\.php`, "/", "a", "x.php"},
	} {
		std := regexp.MustCompile(c.p)
		cx, err := coregex.Compile(c.p)
		if err != nil {
			continue
		}
		for _, n := range sizes {
			for _, withTail := range []bool{true, false} {
				h := []byte(c.head + strings.Repeat(c.unit, n/len(c.unit)))
				if withTail {
					h = append(h, c.tail...)
				}
				want := fmt.Sprint(std.Match(h))
				got := guard(240*time.Second, func() string { return fmt.Sprint(cx.Match(h)) })
				t.Cases++
				r.Case(fmt.Sprintf("big\x00%s\x00%s\x00%d\x00%v", c.p, c.unit, n, withTail), want == "true")
				if got != want {
					t.Disagreements++
					r.Violate(fmt.Sprintf("Match of %q on %q + %d bytes of %q + %q: coregex=%s regexp=%s", c.p, c.head, n, c.unit, map[bool]string{true: c.tail, false: ""}[withTail], got, want),
						map[string]any{"pattern": c.p, "haystack": fmt.Sprintf("%q + %q x %d + tail(%v)", c.head, c.unit, n/len(c.unit), withTail), "coregex": got, "regexp": want, "api": "Match"}, false)
				}
			}
		}
	}
}
