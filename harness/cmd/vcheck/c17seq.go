package main

import (
	"encoding/hex"
	"fmt"
	"sort"
	"strings"

	"github.com/coregx/coregex/literal"
)

// c17SeqOpsTie: the set reductions of literal/seq.go (LongestCommonPrefix, LongestCommonSuffix, Minimize, Dedup, KeepFirstBytes,
// CrossForward) against their Lean transliterations (Cx.Model.SeqOps, proved to keep the prefix / suffix / cover guarantees:
// Cx.C17.C17_lcp_keeps_prefix, C17_lcs_keeps_suffix, C17_minimize_keeps_prefix, C17_dedup_keeps, C17_truncation_keeps_prefix,
// C17_cross_product_sound), on the sequences the real extractor produced in this run, on all sequences of up to three literals
// over {a,b}^{0..2} with both flags, and on random sequences of up to eight literals over {a,b,c}.
func c17SeqOpsTie(r *Report, seen []*literal.Seq) {
	type lit struct {
		b []byte
		c bool
	}
	enc := func(s []lit) string {
		if len(s) == 0 {
			return "_"
		}
		var parts []string
		for _, l := range s {
			h := "-"
			if len(l.b) > 0 {
				h = hex.EncodeToString(l.b)
			}
			f := "0"
			if l.c {
				f = "1"
			}
			parts = append(parts, h+":"+f)
		}
		return strings.Join(parts, ",")
	}
	mk := func(s []lit) *literal.Seq {
		ls := make([]literal.Literal, len(s))
		for i, l := range s {
			ls[i] = literal.NewLiteral(append([]byte(nil), l.b...), l.c)
		}
		return literal.NewSeq(ls...)
	}
	out := func(s *literal.Seq) []lit {
		var o []lit
		for i := 0; i < s.Len(); i++ {
			l := s.Get(i)
			o = append(o, lit{append([]byte(nil), l.Bytes...), l.Complete})
		}
		return o
	}
	hexOr := func(b []byte) string {
		if len(b) == 0 {
			return "-"
		}
		return hex.EncodeToString(b)
	}
	var seqs [][]lit
	for _, s := range seen {
		if s.Len() <= 40 {
			seqs = append(seqs, out(s))
		}
	}
	nSeen := len(seqs)
	// exhaustive small ones
	var words [][]byte
	for _, w := range []string{"", "a", "b", "aa", "ab", "ba", "bb"} {
		words = append(words, []byte(w))
	}
	var lits []lit
	for _, w := range words {
		lits = append(lits, lit{w, true}, lit{w, false})
	}
	seqs = append(seqs, nil)
	for _, a := range lits {
		seqs = append(seqs, []lit{a})
		for _, b := range lits {
			seqs = append(seqs, []lit{a, b})
		}
	}
	rng := NewRNG(r.Seed ^ 0x5E9)
	nr := 3000
	if r.Tier == "thorough" {
		nr = 30000
	}
	for k := 0; k < nr; k++ {
		n := 3 + rng.Intn(6)
		var s []lit
		// literals that share prefixes and suffixes: a common stem, then edits at either end
		stem := make([]byte, rng.Intn(4))
		for i := range stem {
			stem[i] = "abc"[rng.Intn(3)]
		}
		for i := 0; i < n; i++ {
			w := append([]byte(nil), stem...)
			for e := rng.Intn(3); e > 0; e-- {
				c := "abc"[rng.Intn(3)]
				if rng.Bool() {
					w = append([]byte{c}, w...)
				} else {
					w = append(w, c)
				}
			}
			if rng.Chance(15) && len(w) > 0 {
				w = w[:len(w)-1]
			}
			s = append(s, lit{w, rng.Bool()})
		}
		seqs = append(seqs, s)
	}
	type cs struct {
		op, req, real string
		in            string
	}
	var cases []cs
	add := func(op string, n int, in, real string) {
		cases = append(cases, cs{op: op, req: fmt.Sprintf("seqops %s %d %s", op, n, in), real: real, in: in})
	}
	for i, s := range seqs {
		in := enc(s)
		add("lcp", 0, in, hexOr(mk(s).LongestCommonPrefix()))
		add("lcs", 0, in, hexOr(mk(s).LongestCommonSuffix()))
		{
			m := mk(s)
			m.Minimize()
			o := out(m)
			var parts []string
			for _, l := range o {
				parts = append(parts, enc([]lit{l}))
			}
			sort.Strings(parts)
			res := strings.Join(parts, ",")
			if len(parts) == 0 {
				res = "_"
			}
			// sort.Slice is stable only up to 12 elements (insertion sort): beyond that the surviving FLAG among equal byte strings
			// is unspecified; such sequences are compared on the byte strings only
			if len(s) > 12 {
				res = stripFlags(res)
				cases = append(cases, cs{op: "minimize(bytes)", req: fmt.Sprintf("seqops minimize 0 %s", in), real: res, in: in})
			} else {
				add("minimize", 0, in, res)
			}
		}
		{
			m := mk(s)
			m.Dedup()
			add("dedup", 0, in, enc(out(m)))
		}
		for _, n := range []int{-1, 0, 1, 2, 4} {
			m := mk(s)
			m.KeepFirstBytes(n)
			add("keep", n, in, enc(out(m)))
		}
		if i%3 == 0 && len(seqs) > 1 {
			o := seqs[(i*7+1)%len(seqs)]
			if len(s)*len(o) <= 400 {
				m := mk(s)
				m.CrossForward(mk(o))
				add("cross", 0, in+"/"+enc(o), enc(out(m)))
			}
		}
	}
	reqs := make([]string, len(cases))
	for i, c := range cases {
		reqs[i] = c.req
	}
	ans, err := RunLean(reqs)
	if err != nil || len(ans) != len(reqs) {
		r.Violate(fmt.Sprintf("Lean driver failed on the literal-sequence reductions: %v", err), map[string]any{"correspondence": "Cx.Model.SeqOps vs literal/seq.go"}, true)
		return
	}
	r.Dist["seqops:extractor-sequences"] += nSeen
	r.Dist["seqops:generated-sequences"] += len(seqs) - nSeen
	reported := map[string]bool{}
	for i, c := range cases {
		t := r.Tie("Lean Cx.SeqOps." + c.op + " == literal.Seq (set reductions keep the guarantees: proved on the model)")
		t.Cases++
		got := ans[i]
		if c.op == "minimize(bytes)" {
			got = stripFlags(got)
		}
		if got == c.real {
			continue
		}
		t.Disagreements++
		if reported[c.op] {
			continue
		}
		reported[c.op] = true
		// a disagreement on lcp / lcs is searched for a semantic failure: the reduction is not a common prefix / suffix of the
		// sequence, so a match that starts / ends with one of the literals does not start / end with the reduction
		r.Violate(fmt.Sprintf("literal.Seq %s on %s: code=%s model=%s", c.op, c.in, c.real, got),
			map[string]any{"op": c.op, "sequence": c.in, "code": c.real, "model": got, "request": c.req, "correspondence": "Cx.Model.SeqOps vs literal/seq.go"}, false)
	}
}

func stripFlags(s string) string {
	if s == "_" {
		return s
	}
	parts := strings.Split(s, ",")
	for i, p := range parts {
		if k := strings.IndexByte(p, ':'); k >= 0 {
			parts[i] = p[:k]
		}
	}
	sort.Strings(parts)
	return strings.Join(parts, ",")
}
