package main

import (
	"bufio"
	"bytes"
	"fmt"
	"os"
	"os/exec"
	"strings"
	"syscall"

	"github.com/coregx/coregex/simd"
)

func init() { checks["C18"] = checkC18 }

// guardedBuf returns a slice of n bytes whose last byte is the last byte before an inaccessible page (atEnd)
// or whose first byte is the first byte after one (!atEnd); the data pages are made read-only after filling.
type guarded struct {
	mem  []byte
	page int
}

func newGuarded() *guarded {
	page := os.Getpagesize()
	mem, err := syscall.Mmap(-1, 0, 4*page, syscall.PROT_READ|syscall.PROT_WRITE, syscall.MAP_ANON|syscall.MAP_PRIVATE)
	if err != nil {
		panic(err)
	}
	syscall.Mprotect(mem[0:page], syscall.PROT_NONE)
	syscall.Mprotect(mem[3*page:4*page], syscall.PROT_NONE)
	return &guarded{mem: mem, page: page}
}

// place copies data so that it ends right before the trailing guard page (atEnd) or starts right after the leading one.
func (g *guarded) place(data []byte, atEnd bool) []byte {
	syscall.Mprotect(g.mem[g.page:3*g.page], syscall.PROT_READ|syscall.PROT_WRITE)
	var s []byte
	if atEnd {
		s = g.mem[3*g.page-len(data) : 3*g.page : 3*g.page]
	} else {
		s = g.mem[g.page : g.page+len(data) : g.page+len(data)]
	}
	copy(s, data)
	syscall.Mprotect(g.mem[g.page:3*g.page], syscall.PROT_READ) // writes fault too
	return s
}

func naiveIdx(h []byte, p func(byte) bool) int {
	for i, b := range h {
		if p(b) {
			return i
		}
	}
	return -1
}

func isWordB(b byte) bool {
	return b >= 'A' && b <= 'Z' || b >= 'a' && b <= 'z' || b >= '0' && b <= '9' || b == '_'
}

// c18Worker enumerates length x placement x hit position for every primitive, compares with the one-line scalar
// definition in-process, and prints: "MISMATCH …" lines, "SAMPLE <request> <answer>" lines for the Lean model, "DONE n".
func c18Worker(maxLen int, thorough bool) int {
	w := bufio.NewWriter(os.Stdout)
	defer w.Flush()
	g := newGuarded()
	n := 0
	mism := 0
	sample := 0
	var table [256]bool
	for b := 0; b < 256; b++ {
		table[b] = b%7 == 3 || b == 'x'
	}
	fill := []byte{'a', 0x00, 0xff, 'z'}
	for ln := 0; ln <= maxLen; ln++ {
		for _, atEnd := range []bool{true, false} {
			for hit := -1; hit < ln; hit++ {
				if !thorough && ln > 40 && hit >= 0 && hit%3 != 0 && hit != ln-1 {
					continue
				}
				for fi, fb := range fill {
					if !thorough && fi > 1 && ln > 24 {
						continue
					}
					data := bytes.Repeat([]byte{fb}, ln)
					check := func(name string, got, want int, req string) {
						n++
						if got != want {
							mism++
							fmt.Fprintf(w, "MISMATCH %s len=%d atEnd=%v hit=%d fill=%#x got=%d want=%d\n", name, ln, atEnd, hit, fb, got, want)
						}
						if req != "" && (n%97 == 0) && sample < 4000 {
							sample++
							fmt.Fprintf(w, "SAMPLE %s %d\n", req, got)
						}
					}
					// single needle
					nd := byte('N')
					if hit >= 0 {
						data[hit] = nd
					}
					h := g.place(data, atEnd)
					check("Memchr", simd.Memchr(h, nd), naiveIdx(h, func(b byte) bool { return b == nd }), fmt.Sprintf("memchr %d %s", nd, hexOf(h)))
					check("Memchr2", simd.Memchr2(h, 'Q', nd), naiveIdx(h, func(b byte) bool { return b == nd || b == 'Q' }), fmt.Sprintf("memchr %d,%d %s", 'Q', nd, hexOf(h)))
					check("Memchr3", simd.Memchr3(h, 'Q', 'R', nd), naiveIdx(h, func(b byte) bool { return b == nd || b == 'Q' || b == 'R' }), fmt.Sprintf("memchr %d,%d,%d %s", 'Q', 'R', nd, hexOf(h)))
					// byte pair at offset 1..3
					for off := 1; off <= 3; off++ {
						if hit >= 0 && hit+off < ln {
							d2 := append([]byte(nil), data...)
							d2[hit+off] = 'P'
							h2 := g.place(d2, atEnd)
							want := -1
							for i := 0; i+off < len(h2); i++ {
								if h2[i] == nd && h2[i+off] == 'P' {
									want = i
									break
								}
							}
							check("MemchrPair", simd.MemchrPair(h2, nd, 'P', off), want, "")
						}
					}
					// classes: digit, word, table and negations, ASCII tests
					d3 := append([]byte(nil), data...)
					for i := range d3 {
						d3[i] = '-'
					}
					if hit >= 0 {
						d3[hit] = '7'
					}
					h3 := g.place(d3, atEnd)
					check("MemchrDigit", simd.MemchrDigit(h3), naiveIdx(h3, func(b byte) bool { return b >= '0' && b <= '9' }), "")
					check("MemchrWord", simd.MemchrWord(h3), naiveIdx(h3, isWordB), "")
					if ln > 0 {
						at := ln / 2
						wantAt := -1
						for i := at; i < len(h3); i++ {
							if h3[i] >= '0' && h3[i] <= '9' {
								wantAt = i
								break
							}
						}
						check("MemchrDigitAt", simd.MemchrDigitAt(h3, at), wantAt, "")
					}
					d4 := bytes.Repeat([]byte{'w'}, ln)
					if hit >= 0 {
						d4[hit] = 0xE9
					}
					h4 := g.place(d4, atEnd)
					check("MemchrNotWord", simd.MemchrNotWord(h4), naiveIdx(h4, func(b byte) bool { return !isWordB(b) }), "")
					asc := 0
					if simd.IsASCII(h4) {
						asc = 1
					}
					wantAsc := 1
					if hit >= 0 {
						wantAsc = 0
					}
					check("IsASCII", asc, wantAsc, fmt.Sprintf("isascii %s", hexOf(h4)))
					check("FirstNonASCII", simd.FirstNonASCII(h4), hit, "")
					cnt := 0
					if hit >= 0 {
						cnt = 1
					}
					check("CountNonASCII", simd.CountNonASCII(h4), cnt, "")
					d5 := bytes.Repeat([]byte{'a'}, ln)
					if hit >= 0 {
						d5[hit] = 'x'
					}
					h5 := g.place(d5, atEnd)
					check("MemchrInTable", simd.MemchrInTable(h5, &table), naiveIdx(h5, func(b byte) bool { return table[b] }), "")
					d6 := bytes.Repeat([]byte{'x'}, ln)
					if hit >= 0 {
						d6[hit] = 'a'
					}
					h6 := g.place(d6, atEnd)
					check("MemchrNotInTable", simd.MemchrNotInTable(h6, &table), naiveIdx(h6, func(b byte) bool { return !table[b] }), "")
					// substring search: needles of several lengths planted at `hit`, with near misses before it
					for _, needle := range [][]byte{[]byte("Nq"), []byte("Nqz"), []byte("NqzNqy"), []byte("Nabcdefghijklmnopqrstuvwxyz0123456789")} {
						if hit >= 0 && hit+len(needle) <= ln {
							d7 := append([]byte(nil), data...)
							if hit >= 2 {
								d7[hit-2] = needle[0] // near miss
							}
							copy(d7[hit:], needle)
							h7 := g.place(d7, atEnd)
							check("Memmem", simd.Memmem(h7, needle), bytes.Index(h7, needle), fmt.Sprintf("naivememmem %s %s", hexOf(h7), hexOf(needle)))
						} else if hit < 0 {
							h7 := g.place(data, atEnd)
							check("Memmem", simd.Memmem(h7, needle), bytes.Index(h7, needle), "")
						}
					}
				}
			}
		}
	}
	// adversarial data for the SWAR / mask arithmetic: bytes adjacent to the needles (needle^1, needle±1, needle|0x80), the
	// needles themselves in the wrong order, zero and 0xff, at every length and both placements, several draws per length;
	// borrow propagation in the zero-byte trick and AND-ed candidate masks only go wrong on such neighbours
	adv := NewRNG(0xC18)
	const n1, n2 = byte('f'), byte('x')
	alpha := []byte{n1, n1 ^ 1, n1 - 1, n1 + 1, n1 | 0x80, n2, n2 ^ 1, n2 - 1, n2 + 1, n2 | 0x80, 0, 0xff, '.', '.', '.', '.'}
	draws := 6
	if thorough {
		draws = 40
	}
	for ln := 0; ln <= maxLen; ln++ {
		for d := 0; d < draws; d++ {
			data := make([]byte, ln)
			for i := range data {
				data[i] = alpha[adv.Intn(len(alpha))]
			}
			for _, atEnd := range []bool{true, false} {
				h := g.place(data, atEnd)
				chk := func(name string, got, want int) {
					n++
					if got != want {
						mism++
						fmt.Fprintf(w, "MISMATCH %s adversarial data=%s atEnd=%v got=%d want=%d\n", name, hexOf(h), atEnd, got, want)
					}
				}
				chk("Memchr", simd.Memchr(h, n1), naiveIdx(h, func(b byte) bool { return b == n1 }))
				chk("Memchr2", simd.Memchr2(h, n1, n2), naiveIdx(h, func(b byte) bool { return b == n1 || b == n2 }))
				chk("Memchr3", simd.Memchr3(h, n1, n2, 0), naiveIdx(h, func(b byte) bool { return b == n1 || b == n2 || b == 0 }))
				for off := 1; off <= 4; off++ {
					for _, pr := range [][2]byte{{n1, n2}, {n2, n1}, {n1, n1}, {0, 0xff}} {
						want := -1
						for i := 0; i+off < len(h); i++ {
							if h[i] == pr[0] && h[i+off] == pr[1] {
								want = i
								break
							}
						}
						chk("MemchrPair", simd.MemchrPair(h, pr[0], pr[1], off), want)
					}
				}
				for _, needle := range [][]byte{{n1, n2}, {n1, n1 ^ 1, n2}, {n2, n1, n1}, {n1, '.', n2, '.'}} {
					chk("Memmem", simd.Memmem(h, needle), bytes.Index(h, needle))
				}
				asc := 0
				if simd.IsASCII(h) {
					asc = 1
				}
				wa := 1
				fn := naiveIdx(h, func(b byte) bool { return b >= 0x80 })
				if fn >= 0 {
					wa = 0
				}
				chk("IsASCII", asc, wa)
				chk("FirstNonASCII", simd.FirstNonASCII(h), fn)
			}
		}
	}
	// class primitives on EVERY byte value: one byte of each value 0..255 at several positions (inside a full 32-byte block, in a
	// 16-byte block, in the tail) of a run of non-members / members — a vectorised range test built from compares, folds and
	// subtractions misclassifies specific VALUES (a case fold maps 0x10..0x19 onto the digits), not specific positions
	{
		chk := func(name string, h []byte, got, want int) {
			n++
			if got != want {
				mism++
				fmt.Fprintf(w, "MISMATCH %s byte-value data=%s got=%d want=%d\n", name, hexOf(h), got, want)
			}
		}
		isDigitB := func(b byte) bool { return b >= '0' && b <= '9' }
		for _, ln := range []int{20, 40, 70, 100} {
			for _, pos := range []int{0, 7, 17, 35, 66, ln - 1} {
				if pos >= ln {
					continue
				}
				for v := 0; v < 256; v++ {
					for _, atEnd := range []bool{true, false} {
						d := bytes.Repeat([]byte{' '}, ln) // no member of any class
						d[pos] = byte(v)
						h := g.place(d, atEnd)
						chk("MemchrWord", h, simd.MemchrWord(h), naiveIdx(h, isWordB))
						chk("MemchrDigit", h, simd.MemchrDigit(h), naiveIdx(h, isDigitB))
						chk("MemchrInTable", h, simd.MemchrInTable(h, &table), naiveIdx(h, func(b byte) bool { return table[b] }))
						d2 := bytes.Repeat([]byte{'a'}, ln) // a member of the word class and of the table
						d2[pos] = byte(v)
						h2 := g.place(d2, atEnd)
						chk("MemchrNotWord", h2, simd.MemchrNotWord(h2), naiveIdx(h2, func(b byte) bool { return !isWordB(b) }))
						chk("MemchrNotInTable", h2, simd.MemchrNotInTable(h2, &table), naiveIdx(h2, func(b byte) bool { return !table[b] }))
						chk("FirstNonASCII", h2, simd.FirstNonASCII(h2), naiveIdx(h2, func(b byte) bool { return b >= 0x80 }))
					}
				}
			}
		}
	}
	// substring search with PERIODIC content and long needles: a^k b in a^m b (k up to 70: beyond the 32-byte prefix the long-needle
	// path compares separately), (ab)^k c in (ab)^m c, and a needle whose rare byte sits first / in the middle / last; after a
	// rejected candidate the search must resume one byte further, not one block further
	{
		for k := 1; k <= 70; k += 1 + k/24 {
			for m := k; m <= k+70; m += 1 + (m-k)/20 {
				for _, unit := range []string{"a", "ab", "-"} {
					needle := append(bytes.Repeat([]byte(unit), k), 'X')
					hay := append(append([]byte("q"), bytes.Repeat([]byte(unit), m)...), "X tail"...)
					for _, atEnd := range []bool{true, false} {
						h := g.place(hay, atEnd)
						n++
						if got, want := simd.Memmem(h, needle), bytes.Index(h, needle); got != want {
							mism++
							fmt.Fprintf(w, "MISMATCH Memmem periodic needle=%s(%d)X hay=%s(%d)X got=%d want=%d\n", unit, k, unit, m, got, want)
						}
						needle2 := append([]byte{'X'}, bytes.Repeat([]byte(unit), k)...)
						hay2 := append(append([]byte("X"), bytes.Repeat([]byte(unit), k/2)...), append([]byte{'X'}, bytes.Repeat([]byte(unit), m)...)...)
						h2 := g.place(hay2, atEnd)
						n++
						if got, want := simd.Memmem(h2, needle2), bytes.Index(h2, needle2); got != want {
							mism++
							fmt.Fprintf(w, "MISMATCH Memmem periodic needle=X%s(%d) got=%d want=%d\n", unit, k, got, want)
						}
					}
				}
			}
		}
	}
	fmt.Fprintf(w, "DONE %d %d\n", n, mism)
	return 0
}

func checkC18(r *Report, known []Finding) {
	r.Rule = "every primitive of package simd x every length 0..L x placement against an inaccessible page (buffer ends at / starts at the guard; data pages read-only) x " +
		"every hit position (and none) x fill byte, run twice in worker processes: vector extensions enabled and masked (GODEBUG=cpu.avx2=off,cpu.ssse3=off,cpu.sse41=off); " +
		"each result compared in-process with the one-line scalar definition; a sample of the cases is replayed through the Lean models (memchrNGeneric, isASCIIGeneric, naiveMemmem); " +
		"non-trivial = a hit exists; distinct by construction (enumeration)"
	maxLen := 130
	if r.Tier == "thorough" {
		maxLen = 200
	}
	self, _ := os.Executable()
	var samples []string
	for _, mode := range []string{"vector", "masked"} {
		cmd := exec.Command(self, "c18worker", fmt.Sprint(maxLen), r.Tier)
		cmd.Env = os.Environ()
		if mode == "masked" {
			cmd.Env = append(cmd.Env, "GODEBUG=cpu.avx2=off,cpu.ssse3=off,cpu.sse41=off,cpu.avx=off")
		}
		out, err := cmd.CombinedOutput()
		tie := r.Tie("simd primitives (" + mode + ") == scalar definition, guard pages")
		done := false
		for _, l := range strings.Split(string(out), "\n") {
			switch {
			case strings.HasPrefix(l, "MISMATCH"):
				tie.Disagreements++
				r.Violate(fmt.Sprintf("simd (%s): %s", mode, l), map[string]any{"mode": mode, "case": l}, false)
			case strings.HasPrefix(l, "SAMPLE "):
				samples = append(samples, l[7:])
			case strings.HasPrefix(l, "DONE"):
				var n, m int
				fmt.Sscanf(l, "DONE %d %d", &n, &m)
				tie.Cases += n
				r.Evaluations += n
				done = true
			}
		}
		if err != nil || !done {
			tail := string(out)
			if len(tail) > 1500 {
				tail = tail[len(tail)-1500:]
			}
			r.Violate(fmt.Sprintf("simd worker (%s) crashed (fault on a guard page, panic or write to read-only data): %v", mode, err),
				map[string]any{"mode": mode, "output_tail": tail}, false)
		}
	}
	// Lean models on the sampled cases
	var reqs, gots []string
	for _, s := range samples {
		i := strings.LastIndexByte(s, ' ')
		reqs = append(reqs, s[:i])
		gots = append(gots, s[i+1:])
	}
	ans, err := RunLean(reqs)
	if err != nil {
		r.Violate("Lean driver failed: "+err.Error(), map[string]any{"correspondence": "C18 SWAR models"}, true)
		return
	}
	tie := r.Tie("Lean SWAR model == implementation")
	for i := range reqs {
		tie.Cases++
		want := ans[i]
		got := gots[i]
		if strings.HasPrefix(reqs[i], "isascii") {
			if got == "1" {
				got = "true"
			} else {
				got = "false"
			}
		}
		r.distinct[reqs[i]] = true
		if want != got {
			tie.Disagreements++
			r.Violate(fmt.Sprintf("simd vs Lean model: %s: implementation=%s model=%s", reqs[i], got, want), map[string]any{"request": reqs[i], "implementation": got, "model": want}, false)
		}
	}
	if len(reqs) > 0 {
		r.Sample(map[string]any{"request": reqs[0], "implementation": gots[0], "model": ans[0]})
		r.Sample(map[string]any{"request": reqs[len(reqs)/2], "implementation": gots[len(reqs)/2], "model": ans[len(reqs)/2]})
	}
	r.Exhaustive = true
}
