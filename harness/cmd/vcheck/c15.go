package main

import (
	"encoding/hex"
	"fmt"
	"regexp"
	"regexp/syntax"
	"strconv"
	"strings"
	"time"
	"unicode"
	"unicode/utf8"

	"github.com/coregx/coregex"
	"github.com/coregx/coregex/nfa"
)

func init() { checks["C15"] = checkC15 }

// classRanges returns the rune ranges regexp considers members of a single-rune pattern (class, literal, dot),
// or nil if the pattern is not a single-rune construct.
func classRanges(p string) ([][2]rune, bool) {
	re, err := syntax.Parse(p, syntax.Perl)
	if err != nil {
		return nil, false
	}
	for re.Op == syntax.OpCapture {
		re = re.Sub[0]
	}
	switch re.Op {
	case syntax.OpCharClass:
		var out [][2]rune
		for i := 0; i+1 < len(re.Rune); i += 2 {
			out = append(out, [2]rune{re.Rune[i], re.Rune[i+1]})
		}
		return out, true
	case syntax.OpLiteral:
		if len(re.Rune) != 1 {
			return nil, false
		}
		r := re.Rune[0]
		out := [][2]rune{{r, r}}
		if re.Flags&syntax.FoldCase != 0 {
			for f := unicode.SimpleFold(r); f != r; f = unicode.SimpleFold(f) {
				out = append(out, [2]rune{f, f})
			}
		}
		return out, true
	case syntax.OpAnyChar:
		return [][2]rune{{0, 0x10FFFF}}, true
	case syntax.OpAnyCharNotNL:
		return [][2]rune{{0, 9}, {11, 0x10FFFF}}, true
	}
	return nil, false
}

func rangesArg(rs [][2]rune) string {
	if len(rs) == 0 {
		return ""
	}
	p := make([]string, len(rs))
	for i, r := range rs {
		p[i] = fmt.Sprintf("%d-%d", r[0], r[1])
	}
	return strings.Join(p, "_")
}

var c15Classes = []string{
	`\d`, `\D`, `\w`, `\W`, `\s`, `\S`, `[a-z]`, `[^a]`, `[^a-z0-9]`, `[[:alpha:]]`, `[[:^alpha:]]`, `[[:punct:]]`, `[\x00-\x7f]`, `[^\x00-\x7f]`,
	`[\x{7f}-\x{80}]`, `[\x{7ff}-\x{800}]`, `[\x{d7ff}-\x{e000}]`, `[\x{ffff}-\x{10000}]`, `[\x{10ffff}]`, `[\x{80}-\x{10ffff}]`, `[\x{800}-\x{ffff}]`, `[\x{fffd}]`, `[^\x{fffd}]`,
	`\pL`, `\PL`, `\pN`, `\p{Greek}`, `\P{Greek}`, `\p{Han}`, `\pZ`, `\p{Lu}`, `\p{Cyrillic}`, `[é-ü]`, `[а-я]`, `[^а-я]`, `[a-zé]`, `[\x{1f600}-\x{1f64f}]`, `[αβγ]`, `[世界]`,
	`.`, `(?s:.)`, `é`, `世`, `😀`, `a`, `(?i:k)`, `(?i:K)`, `(?i:é)`, `(?i:ſ)`, `(?i:σ)`, `(?i:s)`, `(?i:[k])`, `(?i:[a-z])`, `(?i:\pL)`, `(?i:ß)`, `(?i:я)`, `(?i:Ω)`, `[\x{e000}-\x{f8ff}]`,
	`[\x{0}-\x{10ffff}]`, `[^\n]`, `[\x{80}-\x{7ff}]`, `[\x{10000}-\x{10ffff}]`, `[\x{1}-\x{d7ff}]`, `[\x{e0}-\x{ef}]`,
}

func checkC15(r *Report, known []Finding) {
	r.Rule = "inventory of single-rune constructs (Perl/POSIX/Unicode classes, negations, boundary ranges around 0x7F/0x80, 0x7FF/0x800, 0xD7FF/0xE000, 0xFFFF/0x10000, 0x10FFFF, case-folded " +
		"literals and classes, dot in both modes, random unions) x compilation mode (default, sparse-dot, ASCII-only for runes < 128): the NFA fragment compiled by nfa.NewCompiler is dumped and the Lean " +
		"checker decides, for EVERY code point and every ill-formed string of <= 2 bytes (3 over boundary bytes), acceptance == regexp membership; each instance is exhaustive; " +
		"non-trivial = class is non-empty; distinct by (class, mode)"
	classes := append([]string(nil), c15Classes...)
	rng := NewRNG(r.Seed)
	nrand := 6
	if r.Tier == "thorough" {
		nrand = 60
	}
	for i := 0; i < nrand; i++ {
		var sb strings.Builder
		sb.WriteString("[")
		if rng.Chance(30) {
			sb.WriteString("^")
		}
		for k := 1 + rng.Intn(4); k > 0; k-- {
			lo := rune(rng.Intn(0x11000))
			if rng.Chance(40) {
				lo = []rune{0x7e, 0x7f, 0x7fe, 0x7ff, 0xd7fe, 0xe000, 0xfffe, 0xffff, 0x10fffe}[rng.Intn(9)]
			}
			hi := lo + rune(rng.Intn(0x900))
			if hi > 0x10ffff {
				hi = 0x10ffff
			}
			if lo >= 0xd800 && lo <= 0xdfff {
				lo = 0xe000
			}
			if hi >= 0xd800 && hi <= 0xdfff {
				hi = 0xe000
			}
			if hi < lo {
				hi = lo
			}
			fmt.Fprintf(&sb, `\x{%x}-\x{%x}`, lo, hi)
		}
		sb.WriteString("]")
		classes = append(classes, sb.String())
	}
	if r.Tier != "thorough" {
		// quick: a rotating third of the inventory plus the boundary classes (every instance is exhaustive over all runes)
		var sel []string
		for i, c := range classes {
			if i%3 == int(r.Seed%3) || strings.Contains(c, `\x{`) || strings.HasPrefix(c, "(?i") || c == "." {
				sel = append(sel, c)
			}
		}
		classes = sel
	}
	type inst struct {
		cls, mode, req string
		ranges         [][2]rune
	}
	var insts []inst
	for _, c := range classes {
		rs, ok := classRanges(c)
		if !ok {
			continue
		}
		modes := []struct {
			name string
			cfg  nfa.CompilerConfig
			hi   int
		}{
			{"default", nfa.CompilerConfig{UTF8: true, MaxRecursionDepth: 100}, 0x10FFFF},
			{"sparse-dot", nfa.CompilerConfig{UTF8: true, UseRuneStates: true, MaxRecursionDepth: 100}, 0x10FFFF},
			{"ascii-only", nfa.CompilerConfig{UTF8: true, ASCIIOnly: true, MaxRecursionDepth: 100}, 127},
		}
		for mi, m := range modes {
			if r.Tier != "thorough" && mi == 1 && c != "." && c != "(?s:.)" && !strings.HasPrefix(c, `[^`) && len(c)%4 != 0 {
				continue // sparse-dot mode only changes how dot-like constructs are compiled; sampled for the rest in the quick tier
			}
			var n *nfa.NFA
			if guard(20*time.Second, func() string {
				var err error
				n, err = nfa.NewCompiler(m.cfg).Compile(c)
				if err != nil {
					return "ERR"
				}
				return ""
			}) != "" || n == nil {
				r.Dist["compile-rejected:"+m.name]++
				continue
			}
			insts = append(insts, inst{cls: c, mode: m.name, ranges: rs, req: fmt.Sprintf("classcheck 0 %d %s %s", m.hi, rangesArg(rs), dumpNFA(n))})
			r.Dist["mode:"+m.name]++
		}
	}
	var reqs []string
	for _, in := range insts {
		reqs = append(reqs, in.req)
	}
	ans, err := RunLean(reqs)
	if err != nil {
		r.Violate("Lean driver failed: "+err.Error(), map[string]any{"correspondence": "C15 class checker"}, true)
		return
	}
	t := r.Tie("verified class checker: byte automaton == UTF-8 of the class, all runes + ill-formed strings")
	for i, in := range insts {
		t.Cases++
		r.Case(in.cls+"\x00"+in.mode, len(in.ranges) > 0)
		r.Evaluations += 0x10FFFF / 16 // each instance sweeps every code point (count kept modest: not per-rune)
		a := ans[i]
		if a == "ok" {
			continue
		}
		t.Disagreements++
		// build the replay: the offending rune / bytes, confirmed end-to-end on coregex vs regexp
		var w []byte
		kind := "rune"
		if strings.HasPrefix(a, "fail:rune:") {
			parts := strings.Split(a, ":")
			rv, _ := strconv.Atoi(parts[2])
			w = utf8.AppendRune(nil, rune(rv))
		} else if strings.HasPrefix(a, "fail:bytes:") {
			w, _ = hex.DecodeString(strings.TrimPrefix(a, "fail:bytes:"))
			kind = "ill-formed"
		}
		pat := `^(?:` + in.cls + `)$`
		want := regexp.MustCompile(pat).Match(w)
		got := "?"
		if cx, err := coregex.Compile(pat); err == nil {
			got = fmt.Sprint(cx.Match(w))
		}
		attrs := map[string]string{"kind": kind, "mode": in.mode}
		if strings.HasPrefix(in.cls, "(?i") {
			attrs["fold"] = "true"
		}
		if in.cls == "." || in.cls == "(?s:.)" {
			attrs["dot"] = "true"
		}
		if f := matchKnown(known, "C15", attrs); f != nil {
			r.Known(f, map[string]string{"class": in.cls, "mode": in.mode, "witness_hex": hexOf(w), "checker": a})
			continue
		}
		r.Violate(fmt.Sprintf("class %s (%s mode): the compiled byte automaton and regexp disagree on %q (checker: %s); end-to-end Match(%q): coregex=%s regexp=%v",
			in.cls, in.mode, w, a, pat, got, want),
			map[string]any{"class": in.cls, "mode": in.mode, "witness_hex": hexOf(w), "checker": a, "pattern": pat, "coregex": got, "regexp": want}, false)
	}
	// ---- case-folded literals over the whole fold table: every rune with a non-trivial SimpleFold orbit, compiled as (?i:r), must
	// accept exactly the encodings of its orbit (checked on the dumped automaton by the reference matcher for each orbit member and
	// its neighbours). Quick: every such rune that is not a letter (combining marks, Roman numerals, circled letters, …) plus a
	// seeded sample of letters; thorough: the whole table.
	{
		tf := r.Tie("(?i:r) for runes of the fold table: automaton accepts exactly the SimpleFold orbit (members and neighbours, reference matcher on the dumped NFA)")
		var foldRunes []rune
		for c := rune(0x41); c <= 0x1E943; c++ {
			if unicode.SimpleFold(c) != c {
				foldRunes = append(foldRunes, c)
			}
		}
		frng := NewRNG(r.Seed).Fork(0xF01D)
		type fq struct {
			lit  rune
			x    rune
			want bool
			req  string
		}
		var fqs []fq
		for _, c := range foldRunes {
			if r.Tier != "thorough" && unicode.IsLetter(c) && frng.Intn(20) != 0 {
				continue
			}
			pat := fmt.Sprintf(`(?i:\x{%x})`, c)
			var n *nfa.NFA
			if guard(10*time.Second, func() string {
				var err error
				n, err = nfa.NewCompiler(nfa.CompilerConfig{UTF8: true, MaxRecursionDepth: 100}).Compile(pat)
				if err != nil {
					return "ERR"
				}
				return ""
			}) != "" || n == nil {
				continue
			}
			d := dumpNFA(n)
			orbit := map[rune]bool{c: true}
			for f := unicode.SimpleFold(c); f != c; f = unicode.SimpleFold(f) {
				orbit[f] = true
			}
			seen := map[rune]bool{}
			for m := range orbit {
				for _, x := range []rune{m - 1, m, m + 1} {
					if x < 0 || x > 0x10FFFF || (x >= 0xD800 && x <= 0xDFFF) || seen[x] {
						continue
					}
					seen[x] = true
					fqs = append(fqs, fq{c, x, orbit[x], fmt.Sprintf("bt search 0 %s %s", hexOf(utf8.AppendRune(nil, x)), d)})
				}
			}
			r.Case(fmt.Sprintf("fold\x00%x", c), true)
		}
		var freqs []string
		for _, q := range fqs {
			freqs = append(freqs, q.req)
		}
		fans, err := RunLean(freqs)
		if err != nil || len(fans) != len(freqs) {
			r.Violate(fmt.Sprintf("Lean driver failed on the fold-literal sweep: %v", err), map[string]any{"correspondence": "C15 fold literals"}, true)
		} else {
			for i, q := range fqs {
				tf.Cases++
				enc := utf8.AppendRune(nil, q.x)
				got := fans[i] == fmt.Sprintf("0,%d", len(enc))
				if got == q.want {
					continue
				}
				tf.Disagreements++
				pat := fmt.Sprintf(`^(?i:\x{%x})$`, q.lit)
				e2e := "?"
				if cx, err := coregex.Compile(pat); err == nil {
					e2e = fmt.Sprint(cx.Match(enc))
				}
				attrs := map[string]string{"kind": "rune", "mode": "default", "fold": "true"}
				if f := matchKnown(known, "C15", attrs); f != nil {
					r.Known(f, map[string]string{"class": pat, "witness_hex": hexOf(enc)})
					continue
				}
				r.Violate(fmt.Sprintf("(?i:%q) U+%04X: the compiled automaton accepts %q (U+%04X) = %v, the fold orbit says %v; end-to-end Match(%q): coregex=%s regexp=%v",
					q.lit, q.lit, enc, q.x, got, q.want, pat, e2e, q.want),
					map[string]any{"class": pat, "witness_hex": hexOf(enc), "pattern": pat, "coregex": e2e, "regexp": q.want}, false)
			}
		}
	}
	// ---- regenerated tie for the class compiler: the byte-range sequences along all paths of the automaton the real compiler
	// emitted must be LITERALLY the output of the Lean transliteration of compileCharClass (Cx.Utf8Range.classSeqs); then
	// C15_class_language / C15_dumped_class_automaton_exact hold for that automaton and every byte string. Cheap (no rune sweep),
	// so it also runs on a stream of generated multi-range classes around every encoding boundary.
	{
		tp := r.Tie("paths of the compiled class automaton == Lean transliteration of compileCharClass (Cx.Utf8Range.classSeqs), literally")
		type pinst struct{ cls, mode, req string }
		var pins []pinst
		isClass := func(c string) bool {
			re, err := syntax.Parse(c, syntax.Perl)
			if err != nil {
				return false
			}
			for re.Op == syntax.OpCapture {
				re = re.Sub[0]
			}
			return re.Op == syntax.OpCharClass
		}
		var cls []string
		for _, c := range classes {
			if isClass(c) {
				cls = append(cls, c)
			}
		}
		bounds := []rune{0, 0x7F, 0x80, 0x7FF, 0x800, 0xFFF, 0x1000, 0xCFFF, 0xD000, 0xD7FF, 0xD800, 0xDFFF, 0xE000, 0xFFFF, 0x10000, 0x3FFFF, 0x40000, 0xFFFFF, 0x100000, 0x10FFFF}
		ng := 500
		if r.Tier == "thorough" {
			ng = 6000
		}
		grng := NewRNG(r.Seed).Fork(0xC15)
		pick := func() rune {
			b := bounds[grng.Intn(len(bounds))]
			switch grng.Intn(4) {
			case 0:
				return b
			case 1:
				if b > 0 {
					return b - 1
				}
				return b
			case 2:
				if b < 0x10FFFF {
					return b + 1
				}
				return b
			}
			return rune(grng.Intn(0x110000))
		}
		for i := 0; i < ng; i++ {
			var sb strings.Builder
			sb.WriteString("[")
			if grng.Intn(5) == 0 {
				sb.WriteString("^")
			}
			for k := 1 + grng.Intn(4); k > 0; k-- {
				a, b := pick(), pick()
				if a > b {
					a, b = b, a
				}
				if grng.Intn(3) == 0 {
					b = a + rune(grng.Intn(300)) // small ranges: the literal-alternation path (at most 256 runes)
					if b > 0x10FFFF {
						b = 0x10FFFF
					}
				}
				fmt.Fprintf(&sb, `\x{%x}-\x{%x}`, a, b)
			}
			sb.WriteString("]")
			if isClass(sb.String()) {
				cls = append(cls, sb.String())
			}
		}
		for ci, c := range cls {
			rs, ok := classRanges(c)
			if !ok || len(rs) == 0 {
				continue
			}
			cfg := nfa.CompilerConfig{UTF8: true, MaxRecursionDepth: 100}
			mode := "default"
			if ci%3 == 1 {
				cfg.UseRuneStates = true
				mode = "sparse-dot"
			}
			var n *nfa.NFA
			if guard(20*time.Second, func() string {
				var err error
				n, err = nfa.NewCompiler(cfg).Compile(c)
				if err != nil {
					return "ERR"
				}
				return ""
			}) != "" || n == nil {
				continue
			}
			pins = append(pins, pinst{c, mode, fmt.Sprintf("utf8range nfa %s %s", rangesArg(rs), dumpNFA(n))})
		}
		var preqs []string
		for _, q := range pins {
			preqs = append(preqs, q.req)
		}
		pans, err := RunLean(preqs)
		if err != nil || len(pans) != len(preqs) {
			r.Violate(fmt.Sprintf("Lean driver failed on the class-compiler tie: %v", err), map[string]any{"correspondence": "C15 class compiler model"}, true)
		} else {
			for i, q := range pins {
				tp.Cases++
				r.Case("paths\x00"+q.cls+"\x00"+q.mode, true)
				if pans[i] == "ok" {
					continue
				}
				tp.Disagreements++
				// the model no longer describes the compiler: look for a concrete input on which the automaton is wrong
				w, found := classWitness(q.cls)
				what := fmt.Sprintf("class %s (%s mode): the automaton emitted by the compiler is not the one the Lean transliteration of compileCharClass predicts (%.80s)", q.cls, q.mode, pans[i])
				if found {
					what += fmt.Sprintf("; failing input %q: coregex and regexp disagree on ^(?:%s)$", w, q.cls)
				}
				r.Violate(what, map[string]any{"class": q.cls, "mode": q.mode, "model_answer": pans[i], "request": q.req, "witness_hex": hexOf(w),
					"correspondence": "Cx.Utf8Range.classSeqs vs nfa.Compiler (compileCharClass)"}, !found)
			}
		}
	}
	r.Exhaustive = true
	if len(insts) > 0 {
		r.Sample(map[string]any{"class": insts[0].cls, "mode": insts[0].mode, "ranges": insts[0].ranges, "checker": ans[0]})
		r.Sample(map[string]any{"class": insts[len(insts)/2].cls, "mode": insts[len(insts)/2].mode, "checker": ans[len(insts)/2]})
	}
	replayKnownExamples(r, known, "C15")
}

// classWitness searches for a byte string on which coregex and regexp disagree for ^(?:cls)$: the encodings of the runes
// at and next to every range boundary of the class, raw surrogate encodings, overlong forms, lone lead/continuation bytes.
func classWitness(cls string) ([]byte, bool) {
	pat := `^(?:` + cls + `)$`
	std, err := regexp.Compile(pat)
	if err != nil {
		return nil, false
	}
	cx, err := coregex.Compile(pat)
	if err != nil {
		return nil, false
	}
	var cands [][]byte
	rs, _ := classRanges(cls)
	enc := func(r rune) []byte {
		if r < 0 || r > 0x10FFFF {
			return nil
		}
		if r >= 0xD800 && r <= 0xDFFF { // raw three-byte form (ill-formed)
			return []byte{0xE0 | byte(r>>12), 0x80 | byte(r>>6)&0x3F, 0x80 | byte(r)&0x3F}
		}
		return utf8.AppendRune(nil, r)
	}
	for _, rg := range rs {
		for _, b := range []rune{rg[0], rg[1]} {
			for d := rune(-2); d <= 2; d++ {
				if e := enc(b + d); e != nil {
					cands = append(cands, e)
				}
			}
		}
	}
	for _, b := range []rune{0x7F, 0x80, 0x7FF, 0x800, 0xFFF, 0x1000, 0xCFFF, 0xD000, 0xD7FF, 0xD800, 0xDBFF, 0xDFFF, 0xE000, 0xFFFF, 0x10000, 0x3FFFF, 0x40000, 0xFFFFF, 0x100000, 0x10FFFF} {
		cands = append(cands, enc(b))
	}
	cands = append(cands, []byte{0xC0, 0x80}, []byte{0xC1, 0xBF}, []byte{0xE0, 0x80, 0x80}, []byte{0xE0, 0x9F, 0xBF}, []byte{0xF0, 0x80, 0x80, 0x80}, []byte{0xF0, 0x8F, 0xBF, 0xBF},
		[]byte{0xF4, 0x90, 0x80, 0x80}, []byte{0xF5, 0x80, 0x80, 0x80}, []byte{0x80}, []byte{0xBF}, []byte{0xC3}, []byte{0xFF}, []byte{0xE4, 0xB8}, []byte{0xF0, 0x9F, 0x98})
	for _, w := range cands {
		if std.Match(w) != cx.Match(w) {
			return w, true
		}
	}
	return nil, false
}
