package main

import "fmt"

var extraCmds = map[string]func([]string) int{}

func init() {
	extraCmds["rwfacts"] = func(args []string) int {
		f, err := receiverWriteFacts("/repo")
		if err != nil {
			fmt.Println("error:", err)
			return 2
		}
		for _, x := range f {
			fmt.Println(x)
		}
		return 0
	}
}
