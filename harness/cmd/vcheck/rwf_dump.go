package main

import (
	"fmt"
	"sort"
	"strings"
)

var extraCmds = map[string]func([]string) int{}

func init() {
	extraCmds["rwfacts"] = func(args []string) int {
		f, err := receiverWriteFacts("/repo")
		if err != nil {
			fmt.Println("error:", err)
			return 2
		}
		for _, x := range f {
			fmt.Println(x)
		}
		fmt.Println("per-search by ownership:", ownedDump("/repo"))
		return 0
	}
}

// ownedDump lists the types the transitive-ownership rule treats as per-search (for review).
func ownedDump(repo string) []string {
	base := func(t string) bool {
		for _, suf := range []string{"State", "Cache", "Set", "Table", "Queue", "Stack", "Config", "Compiler", "Extractor", "Seq", "Iter", "Error", "Stats", "Pool", "Slots", "Buf", "Budget"} {
			if strings.HasSuffix(t, suf) {
				return true
			}
		}
		return false
	}
	var l []string
	for k := range ownedOnlyTypes(repo, base) {
		l = append(l, k)
	}
	sort.Strings(l)
	return l
}
