package main

import (
	"regexp/syntax"
	"sort"
	"strings"
)

// PatFeatures are the syntactic features used in known-finding signatures.
type PatFeatures struct {
	WordB, LineA, TextA, Lazy, Fold, Alt, Cap, Rep, Dot, NonASCII, EmptyOK bool
}

func walk(re *syntax.Regexp, f func(*syntax.Regexp)) {
	f(re)
	for _, s := range re.Sub {
		walk(s, f)
	}
}

func canBeEmpty(re *syntax.Regexp) bool {
	switch re.Op {
	case syntax.OpEmptyMatch, syntax.OpStar, syntax.OpQuest, syntax.OpBeginLine, syntax.OpEndLine, syntax.OpBeginText,
		syntax.OpEndText, syntax.OpWordBoundary, syntax.OpNoWordBoundary:
		return true
	case syntax.OpLiteral:
		return len(re.Rune) == 0
	case syntax.OpPlus, syntax.OpCapture:
		return canBeEmpty(re.Sub[0])
	case syntax.OpRepeat:
		return re.Min == 0 || canBeEmpty(re.Sub[0])
	case syntax.OpConcat:
		for _, s := range re.Sub {
			if !canBeEmpty(s) {
				return false
			}
		}
		return true
	case syntax.OpAlternate:
		for _, s := range re.Sub {
			if canBeEmpty(s) {
				return true
			}
		}
		return false
	}
	return false
}

func featuresOf(re *syntax.Regexp) PatFeatures {
	var f PatFeatures
	walk(re, func(n *syntax.Regexp) {
		switch n.Op {
		case syntax.OpWordBoundary, syntax.OpNoWordBoundary:
			f.WordB = true
		case syntax.OpBeginLine, syntax.OpEndLine:
			f.LineA = true
		case syntax.OpBeginText, syntax.OpEndText:
			f.TextA = true
		case syntax.OpAlternate:
			f.Alt = true
		case syntax.OpCapture:
			f.Cap = true
		case syntax.OpStar, syntax.OpPlus, syntax.OpQuest, syntax.OpRepeat:
			f.Rep = true
			if n.Flags&syntax.NonGreedy != 0 {
				f.Lazy = true
			}
		case syntax.OpAnyChar, syntax.OpAnyCharNotNL:
			f.Dot = true
		case syntax.OpLiteral:
			if n.Flags&syntax.FoldCase != 0 {
				f.Fold = true
			}
			for _, r := range n.Rune {
				if r >= 0x80 {
					f.NonASCII = true
				}
			}
		case syntax.OpCharClass:
			for _, r := range n.Rune {
				if r >= 0x80 {
					f.NonASCII = true
				}
			}
		}
	})
	f.EmptyOK = canBeEmpty(re)
	return f
}

func (f PatFeatures) Tags() []string {
	var t []string
	add := func(b bool, s string) {
		if b {
			t = append(t, s)
		}
	}
	add(f.WordB, "wordb")
	add(f.LineA, "linea")
	add(f.TextA, "texta")
	add(f.Lazy, "lazy")
	add(f.Fold, "fold")
	add(f.Alt, "alt")
	add(f.Cap, "cap")
	add(f.Rep, "rep")
	add(f.Dot, "dot")
	add(f.NonASCII, "nonascii")
	add(f.EmptyOK, "emptyok")
	sort.Strings(t)
	return t
}

func hayTags(h []byte) []string {
	var t []string
	nl, hi := false, false
	for _, b := range h {
		if b == '\n' {
			nl = true
		}
		if b >= 0x80 {
			hi = true
		}
	}
	if nl {
		t = append(t, "hay-nl")
	}
	if hi {
		t = append(t, "hay-nonascii")
	}
	return t
}

// diffKind names how two canonical results differ, coarsely.
func diffKind(want, got string) string {
	switch {
	case strings.HasPrefix(got, "PANIC"):
		return "panic"
	case got == "TIMEOUT":
		return "timeout"
	case want == "true" && got == "false":
		return "false-negative"
	case want == "false" && got == "true":
		return "false-positive"
	case (want == "nil" || want == `""`) && got != want:
		return "extra"
	case (got == "nil" || got == `""`) && got != want:
		return "missing"
	default:
		return "differs"
	}
}
