package main

import (
	"flag"
	"fmt"
	"regexp"
	"regexp/syntax"
	"sort"
	"strings"
	"sync"
	"time"

	"github.com/coregx/coregex"
	"github.com/coregx/coregex/meta"
)

// Disagreement is one (pattern, haystack, api) on which coregex and regexp differ.
type Disagreement struct {
	Pattern  string `json:"pattern"`
	Haystack string `json:"haystack_hex"`
	HayQ     string `json:"haystack_quoted"`
	API      string `json:"api"`
	Want     string `json:"regexp"`
	Got      string `json:"coregex"`
	Strategy string `json:"strategy"`
	Longest  bool   `json:"longest,omitempty"`
}

func strategyOf(p string) string {
	defer func() { recover() }()
	e, err := meta.Compile(p)
	if err != nil {
		return "ERR"
	}
	return e.Strategy().String()
}

// patternSource yields the i-th pattern of a run: corpus, mutated corpus, or grammar.
func patternSource(r *RNG, i int, o GenOpts) string {
	switch {
	case i%8 == 5:
		return MutateAST(r, corpusPatterns[r.Intn(len(corpusPatterns))])
	case i%4 == 0:
		return corpusPatterns[r.Intn(len(corpusPatterns))]
	case i%4 == 1:
		return MutatePattern(r, corpusPatterns[r.Intn(len(corpusPatterns))])
	case i%4 == 2:
		return GenPattern(r, o)
	default:
		o2 := o
		o2.MaxDepth = 2
		return GenPattern(r, o2)
	}
}

func obsBySet(set string) []Obs {
	var obs []Obs
	for _, s := range strings.Split(set, ",") {
		switch s {
		case "match":
			obs = append(obs, obsMatch()...)
		case "find":
			obs = append(obs, obsFind()...)
		case "sub":
			obs = append(obs, obsSubmatch()...)
		case "all":
			obs = append(obs, obsFindAll([]int{-1, 0, 1, 2})...)
		case "replace":
			obs = append(obs, obsReplace([]string{"X", "", "$0", "[$1]", "${1}x", "$$", "$na", "$10"})...)
		case "split":
			obs = append(obs, obsSplit([]int{-1, 0, 1, 2, 3})...)
		case "reader":
			obs = append(obs, obsReader()...)
		}
	}
	return obs
}

func cmdExplore(args []string) int {
	fs := flag.NewFlagSet("explore", flag.ExitOnError)
	seed := fs.Uint64("seed", 1, "seed")
	np := fs.Int("n", 2000, "patterns")
	nh := fs.Int("hay", 12, "haystacks per pattern")
	set := fs.String("set", "match,find", "observation sets")
	ascii := fs.Bool("ascii", false, "ASCII only")
	longest := fs.Bool("longest", false, "leftmost-longest mode")
	show := fs.Int("show", 3, "samples per group")
	only := fs.String("only", "", "only this pattern")
	fs.Parse(args)

	obs := obsBySet(*set)
	opts := GenOpts{ASCIIOnly: *ascii, MaxDepth: 3}
	root := NewRNG(*seed)
	type job struct {
		i int
		p string
		r *RNG
	}
	jobs := make(chan job, 64)
	var mu sync.Mutex
	var dis []Disagreement
	npat, ncases := 0, 0
	var wg sync.WaitGroup
	for w := 0; w < 16; w++ {
		wg.Add(1)
		go func() {
			defer wg.Done()
			for j := range jobs {
				std, err := regexp.Compile(j.p)
				if err != nil {
					continue
				}
				var cx *coregex.Regex
				cerr := guard(10*time.Second, func() string {
					var e error
					cx, e = coregex.Compile(j.p)
					if e != nil {
						return "ERR:" + e.Error()
					}
					return ""
				})
				if cerr != "" {
					mu.Lock()
					dis = append(dis, Disagreement{Pattern: j.p, API: "Compile", Want: "ok", Got: cerr, Strategy: "-"})
					mu.Unlock()
					continue
				}
				if *longest {
					std.Longest()
					cx.Longest()
				}
				strat := strategyOf(j.p)
				ast, _ := syntax.Parse(j.p, syntax.Perl)
				var local []Disagreement
				for k := 0; k < *nh; k++ {
					h := GenHaystack(j.r, ast, *ascii)
					for _, o := range obs {
						want := o.Fn(std, h)
						got := guard(5*time.Second, func() string { return o.Fn(cx, h) })
						if want != got {
							local = append(local, Disagreement{Pattern: j.p, Haystack: fmt.Sprintf("%x", h), HayQ: fmt.Sprintf("%q", h),
								API: o.API, Want: want, Got: got, Strategy: strat, Longest: *longest})
						}
					}
				}
				mu.Lock()
				npat++
				ncases += *nh
				dis = append(dis, local...)
				mu.Unlock()
			}
		}()
	}
	if *only != "" {
		jobs <- job{0, *only, root.Fork(0)}
	} else {
		for i := 0; i < *np; i++ {
			r := root.Fork(uint64(i) + 1)
			jobs <- job{i, patternSource(r, i, opts), r}
		}
	}
	close(jobs)
	wg.Wait()

	// group by (strategy, api family), distinct patterns
	type key struct{ strat, api string }
	groups := map[key][]Disagreement{}
	pats := map[string]bool{}
	for _, d := range dis {
		api := d.API
		if i := strings.IndexByte(api, '/'); i >= 0 {
			api = api[:i]
		}
		k := key{d.Strategy, api}
		groups[k] = append(groups[k], d)
		pats[d.Pattern] = true
	}
	var keys []key
	for k := range groups {
		keys = append(keys, k)
	}
	sort.Slice(keys, func(i, j int) bool {
		if keys[i].strat != keys[j].strat {
			return keys[i].strat < keys[j].strat
		}
		return keys[i].api < keys[j].api
	})
	fmt.Printf("patterns=%d cases=%d disagreements=%d distinct-patterns=%d\n", npat, ncases, len(dis), len(pats))
	for _, k := range keys {
		g := groups[k]
		dp := map[string]bool{}
		for _, d := range g {
			dp[d.Pattern] = true
		}
		fmt.Printf("== %s / %s : %d (patterns %d)\n", k.strat, k.api, len(g), len(dp))
		shown := map[string]bool{}
		c := 0
		for _, d := range g {
			if shown[d.Pattern] {
				continue
			}
			shown[d.Pattern] = true
			fmt.Printf("   %q on %s [%s]: regexp=%s coregex=%s\n", d.Pattern, d.HayQ, d.API, d.Want, d.Got)
			c++
			if c >= *show {
				break
			}
		}
	}
	return 0
}
