package main

import (
	"fmt"
	"regexp"
	"regexp/syntax"
	"strings"
	"time"
	"unicode"

	"github.com/coregx/coregex/dfa/onepass"
	"github.com/coregx/coregex/nfa"
)

// c03EngineTies drives the two capture engines directly on NFAs dumped from the real compiler:
//   - nfa.PikeVM.SearchWithSlotTableCapturesAt  vs  the Lean transliteration `Caps.pikeCaps` (model tie) and vs the
//     reference `Caps.btCaps` (first accepting path of the priority DFS with slot writes; theorem pikeCaps_eq_btCaps)
//   - onepass.Build / DFA.Search  vs  the Lean transliteration (`Caps.OnePass.build/search`) and vs the anchored reference
//     `Caps.btCapsAnchored` for every non-nil answer (theorem onepass_eq_btCaps gives the converse direction only)
func c03EngineTies(r *Report, known []Finding, root *RNG) {
	np := 400
	if r.Tier == "thorough" {
		np = 900
	}
	fixed := []string{`(a)(b)?`, `(a|ab)(c|bcd)(d*)`, `(a+)(b+)?`, `((a)|(b))*`, `(a*)*`, `(a*)+`, `(?:(a)|b)*`, `()`, `(a*)`, `((?:x)?)`, `(a+?)`, `(a|ab)*`, `(\b)`, `(a)\b(b)`, `(\w+)\B`,
		`a*(b)`, `(.+)b`, `^(\d+)-(\d+)$`, `(?m)^(\w+)=(\w*)$`, `(x*)(y?)`, `(a??)(a*)`, `(é+)(.)`, `(?:(a)|(b)|(c))+`, `(a{2,3}?)(a*)`, `([a-c]+)([b-d]+)`,
		`(a)?x?b`, `(a)?(b)?c`, `(\d+)?[a-z]?;`, `^(?:-(\d+)|(\w*))`, `^(?:x|(y*))`, `^(?:foo|(\d*))`, `^(?:#(\w+)|(\d*)) ?`, `^(a)?(?:b|(c*))`, `(?:(a)|b)(?:(c)|d)?`,
		// alternatives that end in the same byte and reach the same state but open different groups (one-pass conflict on the slot mask)
		`(?:x|(y*)x)`, `^(?:-|(\d*)-)(\d+)`, `(?:(y*)x|x)`, `(\w*):|:`, `^(?:a|(b?)a)c`, `(?:(a)?b|b)`}
	type cs struct {
		p, kind, req, got, desc string
		h                       []byte
		at                      int
	}
	var cases []cs
	for i := 0; i < np; i++ {
		rng := root.Fork(0xCA95 + uint64(i))
		var p string
		if i < len(fixed) {
			p = fixed[i]
		} else {
			p = patternSource(rng, i, GenOpts{MaxDepth: 3})
		}
		std, err := regexp.Compile(p)
		if err != nil || std.NumSubexp() == 0 {
			continue
		}
		var n *nfa.NFA
		if guard(10*time.Second, func() string {
			var e error
			n, e = nfa.NewDefaultCompiler().Compile(p)
			if e != nil {
				return "ERR"
			}
			return ""
		}) != "" || n == nil || n.States() > 400 {
			continue
		}
		ast, _ := syntax.Parse(p, syntax.Perl)
		ng := n.CaptureCount()
		d := dumpNFA(n)
		vm := nfa.NewPikeVM(n)
		var hays [][]byte
		hays = append(hays, nil)
		if i < len(fixed) {
			// inputs on which one alternative / one attempt sets a group and the winning one does not
			for _, w := range []string{"ax_b", "ab c", "12q ;", "-12", "x", "foo", "#tag ", "ac", "bd", "a_b", "xb b"} {
				hays = append(hays, []byte(w))
			}
		}
		for k := 0; k < 6; k++ {
			h := GenHaystack(rng, ast, false)
			if len(h) > 24 {
				h = h[:24]
			}
			hays = append(hays, h)
		}
		r.Case("caps\x00"+p, true)
		for _, h := range hays {
			for at := 0; at <= len(h); at++ {
				var got string
				res := guard(10*time.Second, func() string {
					got = intsStr(capsOfMatch(vm.SearchWithSlotTableCapturesAt(h, at), ng))
					return ""
				})
				if res != "" {
					r.Violate(fmt.Sprintf("PikeVM.SearchWithSlotTableCapturesAt(%q, %d) on %q: %s", h, at, p, res), map[string]any{"pattern": p, "haystack_hex": hexOf(h), "at": at, "engine": "pikevm-captures"}, false)
					continue
				}
				cases = append(cases, cs{p, "pike-model", fmt.Sprintf("caps pike %d %d %s %s", at, 2*ng, hexOf(h), d), got, "", h, at})
				cases = append(cases, cs{p, "pike-ref", fmt.Sprintf("caps ref %d %d %s %s", at, 2*ng, hexOf(h), d), got, "", h, at})
			}
		}
		// one-pass DFA on the anchored automaton, compiled the way meta.buildOnePassDFA does
		var an *nfa.NFA
		if guard(10*time.Second, func() string {
			c := nfa.NewCompiler(nfa.CompilerConfig{UTF8: true, Anchored: true, DotNewline: false, MaxRecursionDepth: 100})
			var e error
			an, e = c.CompileRegexp(ast)
			if e != nil {
				return "ERR"
			}
			return ""
		}) != "" || an == nil {
			continue
		}
		ad := dumpNFA(an)
		ang := an.CaptureCount()
		dfa, berr := onepass.Build(an)
		b := "ok"
		if berr != nil || dfa == nil {
			b = "reject"
		}
		cases = append(cases, cs{p, "onepass-build", fmt.Sprintf("caps onepass-build 0 %d - %s", 2*ang, ad), b, "", nil, 0})
		r.Dist["onepass:"+b]++
		if b == "ok" {
			for _, h := range hays {
				cache := onepass.NewCache(dfa.NumCaptures())
				var gs string
				if guard(10*time.Second, func() string {
					g := dfa.Search(h, cache)
					if g == nil {
						gs = "nil"
					} else {
						gs = intsStr(append([]int(nil), g...))
					}
					return ""
				}) != "" {
					continue
				}
				cases = append(cases, cs{p, "onepass-model", fmt.Sprintf("caps onepass 0 %d %s %s", 2*ang, hexOf(h), ad), gs, "", h, 0})
				if gs != "nil" {
					cases = append(cases, cs{p, "onepass-ref", fmt.Sprintf("caps refa 0 %d %s %s", 2*ang, hexOf(h), ad), gs, "", h, 0})
				}
			}
		}
	}
	var reqs []string
	for _, c := range cases {
		reqs = append(reqs, c.req)
	}
	ans, err := RunLean(reqs)
	if err != nil || len(ans) != len(reqs) {
		r.Violate(fmt.Sprintf("Lean driver failed on the capture-engine ties: %v", err), map[string]any{"correspondence": "C03 capture engines"}, true)
		return
	}
	names := map[string]string{
		"pike-model":    "Lean Caps.pikeCaps == nfa.PikeVM.SearchWithSlotTableCapturesAt (model tie)",
		"pike-ref":      "nfa.PikeVM capture search == reference Caps.btCaps on the dumped NFA",
		"onepass-build": "Lean OnePass.build accepts == onepass.Build accepts (model tie)",
		"onepass-model": "Lean OnePass.search == onepass.DFA.Search (model tie)",
		"onepass-ref":   "onepass.DFA.Search non-nil answer == anchored reference Caps.btCapsAnchored",
	}
	for i, c := range cases {
		t := r.Tie(names[c.kind])
		t.Cases++
		if ans[i] == c.got {
			continue
		}
		t.Disagreements++
		model := strings.HasSuffix(c.kind, "-model") || c.kind == "onepass-build"
		attrs := map[string]string{"engine": strings.SplitN(c.kind, "-", 2)[0], "kind": c.kind}
		if c.at == len(c.h) {
			attrs["at"] = "end"
		}
		if ast, e := syntax.Parse(c.p, syntax.Perl); e == nil {
			for _, tg := range featuresOf(ast).Tags() {
				attrs[tg] = "true"
			}
		}
		if f := matchKnown(known, r.Property, attrs); f != nil {
			r.Known(f, map[string]string{"pattern": c.p, "haystack_hex": hexOf(c.h), "at": fmt.Sprint(c.at), "engine": c.got, "lean": ans[i]})
			continue
		}
		what := fmt.Sprintf("%s: pattern %q haystack %q at=%d: code=%s lean=%s", names[c.kind], c.p, c.h, c.at, c.got, ans[i])
		// a broken model tie is not by itself a violation of C03: it is reported with no-failing-input-found unless the
		// end-to-end comparison of this run (same patterns are in its corpus) shows a capture difference
		r.Violate(what, map[string]any{"pattern": c.p, "haystack_hex": hexOf(c.h), "at": c.at, "request": c.req, "code": c.got, "lean": ans[i], "attrs": attrs,
			"correspondence": names[c.kind]}, model)
	}
}

func intsStr(a []int) string {
	if a == nil {
		return "nil"
	}
	s := make([]string, len(a))
	for i, v := range a {
		s[i] = fmt.Sprint(v)
	}
	return strings.Join(s, ",")
}

func capsOfMatch(m *nfa.MatchWithCaptures, ngroups int) []int {
	if m == nil {
		return nil
	}
	out := make([]int, 0, 2*ngroups)
	for i := 0; i < ngroups; i++ {
		if i < len(m.Captures) && m.Captures[i] != nil {
			out = append(out, m.Captures[i][0], m.Captures[i][1])
		} else {
			out = append(out, -1, -1)
		}
	}
	return out
}

// dumpProg: the toolchain's own compiled program for p (syntax.Compile(re.Simplify())), in the wire format of
// Cx.Driver.parseProg; case folding of single-rune instructions is expanded to explicit ranges (unicode.SimpleFold orbit).
func dumpProg(p string, flags syntax.Flags) (string, int, bool) {
	re, err := syntax.Parse(p, flags)
	if err != nil {
		return "", 0, false
	}
	ncap := re.MaxCap()
	prog, err := syntax.Compile(re.Simplify())
	if err != nil {
		return "", 0, false
	}
	var parts []string
	for i := range prog.Inst {
		in := &prog.Inst[i]
		switch in.Op {
		case syntax.InstAlt, syntax.InstAltMatch:
			parts = append(parts, fmt.Sprintf("A.%d.%d", in.Out, in.Arg))
		case syntax.InstCapture:
			parts = append(parts, fmt.Sprintf("C.%d.%d", in.Out, in.Arg))
		case syntax.InstEmptyWidth:
			parts = append(parts, fmt.Sprintf("E.%d.%d", in.Out, in.Arg))
		case syntax.InstMatch:
			parts = append(parts, "M")
		case syntax.InstFail:
			parts = append(parts, "F")
		case syntax.InstNop:
			parts = append(parts, fmt.Sprintf("N.%d", in.Out))
		case syntax.InstRuneAny:
			parts = append(parts, fmt.Sprintf("Y.%d", in.Out))
		case syntax.InstRuneAnyNotNL:
			parts = append(parts, fmt.Sprintf("Z.%d", in.Out))
		case syntax.InstRune, syntax.InstRune1:
			var rs []string
			if len(in.Rune) == 1 {
				r0 := in.Rune[0]
				rs = append(rs, fmt.Sprintf("%d-%d", r0, r0))
				if syntax.Flags(in.Arg)&syntax.FoldCase != 0 {
					for f := unicode.SimpleFold(r0); f != r0; f = unicode.SimpleFold(f) {
						rs = append(rs, fmt.Sprintf("%d-%d", f, f))
					}
				}
			} else {
				for k := 0; k+1 < len(in.Rune); k += 2 {
					rs = append(rs, fmt.Sprintf("%d-%d", in.Rune[k], in.Rune[k+1]))
				}
			}
			parts = append(parts, fmt.Sprintf("R.%d.%s", in.Out, strings.Join(rs, "_")))
		default:
			return "", 0, false
		}
	}
	cond := int(prog.StartCond())
	return fmt.Sprintf("%d/%d/%d/%s", prog.Start, cond, prog.NumCap, strings.Join(parts, ";")), 2 * (ncap + 1), true
}

// c03SpecValidation: the Lean transliteration of regexp's own backtracker (Cx.GoRef, run on the toolchain's compiled
// program) must return what the real regexp package returns — this is what "equals regexp" means on the Lean side.
func c03SpecValidation(r *Report, root *RNG) {
	np := 600
	if r.Tier == "thorough" {
		np = 2500
	}
	type cs struct {
		p, req, want string
		h            []byte
		lg           bool
	}
	var cases []cs
	for i := 0; i < np; i++ {
		rng := root.Fork(0x60EF + uint64(i))
		p := patternSource(rng, i, GenOpts{MaxDepth: 3})
		std, err := regexp.Compile(p)
		if err != nil {
			continue
		}
		dump, nslots, ok := dumpProg(p, syntax.Perl)
		if !ok || len(dump) > 6000 {
			continue
		}
		ast, _ := syntax.Parse(p, syntax.Perl)
		stdL := regexp.MustCompile(p)
		stdL.Longest()
		for k := 0; k < 5; k++ {
			h := GenHaystack(rng, ast, false)
			if len(h) > 48 {
				h = h[:48]
			}
			if k == 0 {
				h = nil
			}
			for _, lg := range []bool{false, true} {
				re := std
				if lg {
					re = stdL
				}
				cases = append(cases, cs{p, fmt.Sprintf("goref %d %d 0 %s %s", map[bool]int{false: 0, true: 1}[lg], nslots, hexOf(h), dump), intsStr(re.FindSubmatchIndex(h)), h, lg})
			}
		}
		r.Case("goref\x00"+p, true)
	}
	var reqs []string
	for _, c := range cases {
		reqs = append(reqs, c.req)
	}
	ans, err := RunLean(reqs)
	if err != nil || len(ans) != len(reqs) {
		r.Violate(fmt.Sprintf("Lean driver failed on the GoRef validation: %v", err), map[string]any{"correspondence": "Cx.GoRef vs regexp"}, true)
		return
	}
	t := r.Tie("spec validation: Lean Cx.GoRef (regexp's backtracker on syntax.Prog) == regexp.FindSubmatchIndex (leftmost-first and Longest)")
	for i, c := range cases {
		t.Cases++
		got := strings.ReplaceAll(ans[i], " ", "")
		if got == c.want {
			continue
		}
		t.Disagreements++
		r.Violate(fmt.Sprintf("Lean reference Cx.GoRef disagrees with regexp on %q haystack %q longest=%v: lean=%s regexp=%s (the specification side is wrong, not the library)", c.p, c.h, c.lg, got, c.want),
			map[string]any{"pattern": c.p, "haystack_hex": hexOf(c.h), "longest": c.lg, "request": c.req, "lean": got, "regexp": c.want, "correspondence": "Cx.GoRef vs regexp"}, true)
	}
}
