package main

import (
	"fmt"
	"regexp"
	"regexp/syntax"
	"strings"
	"time"
	"unicode/utf8"

	"github.com/coregx/coregex"
	"github.com/coregx/coregex/meta"
)

func init() { checks["C04"] = checkC04 }

// findTable records at -> FindIndicesAt(h, at) (or FindSubmatchAt when caps) of the real engine for every offset.
func findTable(eng *meta.Engine, h []byte, caps bool) (tbl []string, rows [][]int) {
	for at := 0; at <= len(h); at++ {
		var row []int
		if caps {
			m := eng.FindSubmatchAt(h, at)
			if m != nil {
				for g := 0; g < m.NumCaptures(); g++ {
					idx := m.GroupIndex(g)
					if len(idx) >= 2 {
						row = append(row, idx[0], idx[1])
					} else {
						row = append(row, -1, -1)
					}
				}
			}
		} else {
			s, e, ok := eng.FindIndicesAt(h, at)
			if ok {
				row = []int{s, e}
			}
		}
		rows = append(rows, row)
		if row == nil {
			tbl = append(tbl, "x")
		} else {
			parts := make([]string, len(row))
			for i, v := range row {
				parts[i] = fmt.Sprint(v)
			}
			tbl = append(tbl, strings.Join(parts, "."))
		}
	}
	return
}

// findOK checks the engine contract the loop theorems assume (Cx.FindOK) on a recorded table.
func findOK(rows [][]int, n int) bool {
	for at, row := range rows {
		if row == nil {
			continue
		}
		s, e := row[0], row[1]
		if !(at <= s && s <= e && e <= n) {
			return false
		}
		for p := at; p <= s; p++ {
			q := rows[p]
			if q == nil || q[0] != s || q[1] != e {
				return false
			}
		}
	}
	return true
}

func widthsOf(h []byte) string {
	w := make([]string, len(h)+1)
	for i := range h {
		_, sz := utf8.DecodeRune(h[i:])
		w[i] = fmt.Sprint(sz)
	}
	w[len(h)] = "0"
	return strings.Join(w, ",")
}

func spansStr(a [][]int) string {
	if len(a) == 0 {
		return "-"
	}
	parts := make([]string, len(a))
	for i, m := range a {
		q := make([]string, len(m))
		for j, v := range m {
			q[j] = fmt.Sprint(v)
		}
		parts[i] = strings.Join(q, ".")
	}
	return strings.Join(parts, ",")
}

func pairs2(a [][2]int) [][]int {
	out := make([][]int, len(a))
	for i, m := range a {
		out[i] = []int{m[0], m[1]}
	}
	return out
}

type c04case struct {
	pattern string
	h       []byte
	strat   string
	// requests and what to compare them with
	reqs   []string
	apis   []string
	gots   []string // implementation's answer, canonical
	wants  []string // regexp's answer for the same API, canonical
	fok    bool
	hasEmp bool
}

func checkC04(r *Report, known []Finding) {
	r.Rule = "pattern from corpus/mutation/grammar (one PRNG), haystack sampled from the pattern's language and mutated (valid and ill-formed UTF-8); " +
		"per case: the real engine's FindIndicesAt/FindSubmatchAt table at every offset is recorded, the Lean loop models run over it and must equal every enumeration API's output; " +
		"non-trivial = the enumeration has >= 2 matches or contains an empty match; distinct by (pattern, haystack)"
	np, nh := 2000, 6
	if r.Tier == "thorough" {
		np, nh = 6000, 10
	}
	root := NewRNG(r.Seed)
	opts := GenOpts{MaxDepth: 3}
	var cases []*c04case
	ns := []int{-1, 1, 2, 3}
	deadline := time.Now().Add(10 * time.Minute)
	for i := 0; i < np && time.Now().Before(deadline); i++ {
		rng := root.Fork(uint64(i) + 1)
		var p string
		if i%3 == 0 {
			// bias towards patterns that can match empty: the loops' interesting rules
			p = GenPattern(rng, GenOpts{MaxDepth: 2})
			if rng.Bool() {
				p = "(?:" + p + ")*"
			}
		} else {
			p = patternSource(rng, i, opts)
		}
		if i < len(lookbehindProbes) {
			p = lookbehindProbes[i]
		}
		std, err := regexp.Compile(p)
		if err != nil {
			continue
		}
		var cx *coregex.Regex
		var eng *meta.Engine
		if guard(10*time.Second, func() string {
			var e error
			cx, e = coregex.Compile(p)
			if e != nil {
				return "ERR"
			}
			eng, e = meta.Compile(p)
			if e != nil {
				return "ERR"
			}
			return ""
		}) != "" {
			r.Dist["compile-rejected"]++
			continue
		}
		strat := eng.Strategy().String()
		r.Dist["strategy:"+strat]++
		ast, _ := syntax.Parse(p, syntax.Perl)
		anch := "0"
		if eng.IsStartAnchored() {
			anch = "1"
		}
		nhp := nh
		if i < len(lookbehindProbes) {
			nhp = nh + len(lookbehindHays)
		}
		for k := 0; k < nhp; k++ {
			h := GenHaystack(rng, ast, false)
			if k >= nh {
				h = []byte(lookbehindHays[k-nh])
			}
			if len(h) > 60 {
				h = h[:60]
			}
			c := &c04case{pattern: p, h: h, strat: strat}
			res := guard(20*time.Second, func() string {
				tbl, rows := findTable(eng, h, false)
				ctbl, crows := findTable(eng, h, true)
				c.fok = findOK(rows, len(h)) && findOK(crows, len(h))
				ws := widthsOf(h)
				t, ct := strings.Join(tbl, ","), strings.Join(ctbl, ",")
				add := func(api, req, got, want string) {
					c.apis = append(c.apis, api)
					c.reqs = append(c.reqs, req)
					c.gots = append(c.gots, got)
					c.wants = append(c.wants, want)
				}
				for _, n := range ns {
					want := spansStr(std.FindAllIndex(h, n))
					reqA := fmt.Sprintf("loop A %d %d %s %s %s", n, len(h), ws, anch, t)
					add(fmt.Sprintf("FindAllIndex/%d", n), reqA, spansStr(cx.FindAllIndex(h, n)), want)
					add(fmt.Sprintf("FindAllStringIndex/%d", n), reqA, spansStr(cx.FindAllStringIndex(string(h), n)), want)
					dst := [][2]int{{7, 9}}
					app := cx.AppendAllIndex(dst, h, n)
					gotApp := "lost-dst"
					if len(app) >= 1 && app[0] == [2]int{7, 9} {
						gotApp = spansStr(pairs2(app[1:]))
					}
					add(fmt.Sprintf("AppendAllIndex/%d", n), reqA, gotApp, want)
					// Count: compare the number of matches
					reqB := fmt.Sprintf("loop B %d %d %s 0 %s", n, len(h), ws, t)
					add(fmt.Sprintf("Count/%d", n), "len:"+reqB, fmt.Sprint(cx.Count(h, n)), fmt.Sprint(len(std.FindAllIndex(h, n))))
					reqBC := fmt.Sprintf("loop B %d %d %s 0 %s", n, len(h), ws, ct)
					add(fmt.Sprintf("FindAllSubmatchIndex/%d", n), reqBC, spansStr(cx.FindAllSubmatchIndex(h, n)), spansStr(std.FindAllSubmatchIndex(h, n)))
				}
				var it [][]int
				for m := range cx.AllIndex(h) {
					it = append(it, []int{m[0], m[1]})
				}
				all := std.FindAllIndex(h, -1)
				add("AllIndex", fmt.Sprintf("loop C -1 %d %s 0 %s", len(h), ws, t), spansStr(it), spansStr(all))
				// early break after two
				var it2 [][]int
				for m := range cx.AllStringIndex(string(h)) {
					it2 = append(it2, []int{m[0], m[1]})
					if len(it2) == 2 {
						break
					}
				}
				add("AllStringIndex/break2", fmt.Sprintf("loop A 2 %d %s 0 %s", len(h), ws, t), spansStr(it2), spansStr(std.FindAllIndex(h, 2)))
				// n == 0
				if cx.FindAllIndex(h, 0) != nil || cx.Count(h, 0) != 0 || cx.FindAllSubmatchIndex(h, 0) != nil || len(cx.AppendAllIndex([][2]int{{7, 9}}, h, 0)) != 1 {
					add("n==0", "", "non-empty", "-")
				}
				for _, m := range all {
					if m[0] == m[1] {
						c.hasEmp = true
					}
				}
				return fmt.Sprint(len(all))
			})
			if strings.HasPrefix(res, "PANIC") || res == "TIMEOUT" {
				attrs := map[string]string{"api": "enumeration", "strategy": strat, "kind": strings.ToLower(strings.SplitN(res, ":", 2)[0])}
				if f := matchKnown(known, "C04", attrs); f != nil {
					r.KnownHits[f.ID]++
				} else {
					r.Violate(fmt.Sprintf("enumeration of %q on %q: %s", p, h, res),
						map[string]any{"pattern": p, "haystack_hex": hexOf(h), "result": res}, false)
				}
				continue
			}
			nm := 0
			fmt.Sscan(res, &nm)
			r.Case(p+"\x00"+string(h), nm >= 2 || c.hasEmp)
			if nm >= 2 {
				r.Dist["matches>=2"]++
			}
			if c.hasEmp {
				r.Dist["has-empty-match"]++
			}
			if !utf8.Valid(h) {
				r.Dist["hay-ill-formed"]++
			} else if len(h) != utf8.RuneCount(h) {
				r.Dist["hay-multibyte"]++
			}
			cases = append(cases, c)
		}
	}
	// one batch through the Lean driver
	var reqs []string
	for _, c := range cases {
		for _, q := range c.reqs {
			reqs = append(reqs, strings.TrimPrefix(q, "len:"))
		}
	}
	// the n==0 pseudo request has an empty line: replace by a no-op decode
	for i, q := range reqs {
		if q == "" {
			reqs[i] = "decode - 0"
		}
	}
	ans, err := RunLean(reqs)
	if err != nil {
		r.Violate("Lean driver failed: "+err.Error(), map[string]any{"correspondence": "C04 loop models vs enumeration APIs"}, true)
		return
	}
	k := 0
	tie := r.Tie("loop-model(FindIndicesAt table) == enumeration API")
	inc := 0
	for _, c := range cases {
		for i := range c.reqs {
			model := ans[k]
			k++
			if c.reqs[i] == "" { // n==0 direct check
				model = "-"
			} else if strings.HasPrefix(c.reqs[i], "len:") {
				if model == "-" {
					model = "0"
				} else {
					model = fmt.Sprint(strings.Count(model, ",") + 1)
				}
			}
			tie.Cases++
			if !c.fok {
				tie.Skipped++
			}
			got, want := c.gots[i], c.wants[i]
			if model == got {
				if got != want {
					// the loop did what the model says on the engine's own table, and still the enumeration is not regexp's: the table
					// (the single-match function at a resume offset) is wrong. On non-ASCII haystacks that is the recorded UTF-8 behaviour
					// of the engines (open findings of C01-C03); on ASCII input it is a violation of THIS property.
					if !isASCIIBytes(c.h) {
						r.Dist["explained-by-engine-table(non-ASCII haystack: UTF-8 findings of C01-C03)"]++
						continue
					}
					r.Violate(fmt.Sprintf("%s of %q on %q [%s]: coregex=%s regexp=%s (the loop model over the engine's own FindIndicesAt table gives the same: the table is wrong at a resume offset)", c.apis[i], c.pattern, c.h, c.strat, got, want),
						map[string]any{"pattern": c.pattern, "haystack_hex": hexOf(c.h), "api": c.apis[i], "coregex": got, "regexp": want, "model": model, "strategy": c.strat, "request": c.reqs[i]}, false)
				}
				continue
			}
			tie.Disagreements++
			if got == want {
				inc++ // the API agrees with regexp; the recorded table is not what the loop saw (engine-side inconsistency: C02/C11)
				continue
			}
			api := c.apis[i]
			fam := api
			if j := strings.IndexByte(fam, '/'); j >= 0 {
				fam = fam[:j]
			}
			attrs := map[string]string{"api": fam, "strategy": c.strat, "kind": diffKind(want, got)}
			if !utf8.Valid(c.h) {
				attrs["hay"] = "ill-formed"
			}
			if f := matchKnown(known, "C04", attrs); f != nil {
				r.KnownHits[f.ID]++
				continue
			}
			r.Violate(fmt.Sprintf("%s of %q on %q [%s]: coregex=%s regexp=%s loop-model-over-recorded-table=%s", api, c.pattern, c.h, c.strat, got, want, model),
				map[string]any{"pattern": c.pattern, "haystack_hex": hexOf(c.h), "api": api, "coregex": got, "regexp": want, "model": model,
					"strategy": c.strat, "request": c.reqs[i], "find_ok": c.fok}, false)
		}
		if len(r.Samples) < 6 && len(c.reqs) > 0 && c.hasEmp {
			r.Sample(map[string]any{"pattern": c.pattern, "haystack": fmt.Sprintf("%q", c.h), "strategy": c.strat, "FindAllIndex(-1)": c.gots[0], "request": c.reqs[0]})
		}
	}
	r.Extra["tie_inconclusive_api_equals_regexp"] = inc
	c04MetaFindAllTie(r) // the loops inside the meta engine (meta/findall.go: streaming, direct DFA branch, Count, FindAllSubmatch) vs Cx.MetaFindAll and regexp
	replayKnownExamples(r, known, "C04")
}

// replayKnownExamples re-runs the concrete witness of every open finding of this property and registers those that still fail.
func replayKnownExamples(r *Report, known []Finding, prop string) {
	for _, f := range known {
		if f.Property != prop || f.Status != "open" {
			continue
		}
		if stillFails(f) {
			r.KnownSeen[f.ID] = f.What
		} else {
			r.Notes = append(r.Notes, "open finding "+f.ID+" no longer reproduces on its example")
		}
	}
}
