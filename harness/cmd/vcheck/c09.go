package main

import (
	"fmt"
	"regexp"
	"regexp/syntax"
	"strings"
	"time"
	"unicode/utf8"

	"github.com/coregx/coregex"
)

func init() { checks["C09"] = checkC09 }

func errStr(err error) string {
	if err == nil {
		return "<nil>"
	}
	return err.Error()
}

func panicText(f func()) (s string) {
	defer func() {
		if r := recover(); r != nil {
			s = fmt.Sprint(r)
		}
	}()
	f()
	return "<no panic>"
}

// genPatternString: valid patterns, near-valid edits of them, and limit probes.
func genPatternString(r *RNG, i int) string {
	if i%23 == 7 {
		// wide (not deep) patterns: many atoms, assertions, groups and alternatives side by side; the parser accepts them
		// whatever their width, so must every limit of the compiler that is meant to bound DEPTH
		atom := r.Pick([]string{`\bab\b,`, "^a$\n", `a`, `(?:a|b)`, `[a-c]`, `\d+`, `x?`, `(a)`, `\Aa\z|`, `\B.`, `(?m:^)b(?m:$)`, `a|`})
		n := []int{20, 99, 101, 120, 250, 501, 1001}[r.Intn(7)]
		switch r.Intn(3) {
		case 0:
			return strings.Repeat(atom, n) + "|foo"
		case 1:
			if n > 1000 {
				n = 1000
			}
			return fmt.Sprintf("(?:%s){%d}|foo", strings.TrimSuffix(atom, "|"), n)
		default:
			return "(?:" + strings.Repeat(atom, n) + ")+z"
		}
	}
	switch i % 10 {
	case 0, 1, 2:
		return patternSource(r, i, GenOpts{MaxDepth: 3})
	case 3, 4: // near-valid: random edit of a valid pattern
		p := []byte(patternSource(r, i, GenOpts{MaxDepth: 2}))
		if len(p) == 0 {
			return "("
		}
		k := r.Intn(len(p))
		junk := []string{"(", ")", "[", "]", "{", "}", "*", "+", "?", "\\", "|", "^", "$", "(?", "(?P<", "{2,1}", "{1001}", "\\8", "\\pX", "[a-", "[z-a]", "(?i", "\xff", "**", "(?P<n>a)(?P<n>b)"}
		switch r.Intn(3) {
		case 0:
			return string(p[:k]) + r.Pick(junk) + string(p[k:])
		case 1:
			return string(p[:k]) + string(p[k+1:])
		default:
			return string(p[:k]) + r.Pick(junk)
		}
	case 5: // nesting depth probes around coregex's old limit and the parser's limit
		n := []int{1, 50, 99, 100, 101, 150, 400, 998, 999, 1000, 1001}[r.Intn(11)]
		open := []string{"(", "(?:", "(?P<x>"}[r.Intn(3)]
		return strings.Repeat(open, n) + "a" + strings.Repeat(")", n)
	case 6: // repetition limits
		return r.Pick([]string{"a{1000}", "a{1001}", "a{999,1000}", "(a{500}){3}", "(a{1000}){1000}", "((a{10}){10}){10}", "a{0}", "a{0,0}", "a{2,}", "(?:a{2}){2}",
			"[a-z]{1000}", "\\pL{20}", "(?:(?:a{100}){100}){100}", "a{,2}", "a{1,2,3}", "x{2}{3}"})
	case 7: // empty classes / no-match, flags, odd but valid
		return r.Pick([]string{`[^\x00-\x{10FFFF}]`, `a[^\x00-\x{10FFFF}]b`, `[^\x00-\x{10FFFF}]*`, `(?:)`, ``, `|`, `a||b`, `(?i)(?-i)a`, `(?U)a+?`, `\Q.*\E`, `\C`, `\z`, `\Z`,
			`(?P<name>a)`, `(?<name>a)`, `(?P<n1>a)(?P<n2>b)(c)`, `(?P<a>x)|(?P<a>y)`, `\x{110000}`, `\x{10FFFF}`, `[[:word:]]`, `[[:foo:]]`, `\pZ`, `\p{Han}`, `\p{Nope}`})
	case 8:
		return GenPattern(r, GenOpts{MaxDepth: 4})
	default:
		// literal-prefix shapes
		return r.Pick([]string{"abc", "abc.*", "a{2}b", "(abc)d", "^abc", "abc$", "(?i)abc", "ab|ac", "a+b", "héllo wörld", "(a)(b)c+", "a(?:b)c", "a\\.b", `\Qa.b\E`, "aé世x*", "(?s)a.b", "a{1}b"}) +
			r.Pick([]string{"", "", "x", "+", "?"})
	}
}

func checkC09(r *Report, known []Finding) {
	r.Rule = "strings offered as patterns: valid (corpus/mutations/grammar), near-valid single edits, limit probes (nesting 1..1001, repeat bounds, size limits), POSIX-only rejections; " +
		"compared with regexp: error presence and text for Compile/CompilePOSIX/MustCompile, String, NumSubexp, SubexpNames, SubexpIndex, LiteralPrefix, Marshal/Unmarshal, Copy+Longest isolation; " +
		"QuoteMeta: Lean model == implementation, Lean spec == regexp, Compile(QuoteMeta(s)) matches exactly s; non-trivial = the string contains a regexp metacharacter; distinct by string"
	n := 6000
	if r.Tier == "thorough" {
		n = 80000
	}
	root := NewRNG(r.Seed)
	report := func(api, p, want, got string) {
		attrs := map[string]string{"api": api, "kind": diffKind(want, got)}
		if f := matchKnown(known, "C09", attrs); f != nil {
			r.Known(f, map[string]string{"pattern": p, "api": api, "regexp": want, "coregex": got})
			return
		}
		pp := p
		if len(pp) > 120 {
			pp = pp[:60] + "…" + pp[len(pp)-40:]
		}
		r.Violate(fmt.Sprintf("%s(%q): coregex=%s regexp=%s", api, pp, got, want), map[string]any{"pattern": p, "api": api, "coregex": got, "regexp": want}, false)
	}
	var qreqs []string
	var qwant []string
	var qkind []string
	deadline := time.Now().Add(8 * time.Minute)
	for i := 0; i < n && time.Now().Before(deadline); i++ {
		rng := root.Fork(uint64(i) + 1)
		p := genPatternString(rng, i)
		r.Case(p, strings.ContainsAny(p, `\[](){}*+?|^$.`))
		std, e1 := regexp.Compile(p)
		var cx *coregex.Regex
		var e2 error
		t0 := time.Now()
		res := guard(20*time.Second, func() string { cx, e2 = coregex.Compile(p); return "" })
		if d := time.Since(t0); d > 2*time.Second {
			r.Notes = append(r.Notes, fmt.Sprintf("slow compile %.1fs: %.60q", d.Seconds(), p))
		}
		if res != "" {
			report("Compile", p, errStr(e1), res)
			continue
		}
		t := r.Tie("Compile: error presence and text")
		t.Cases++
		if errStr(e1) != errStr(e2) {
			t.Disagreements++
			report("Compile", p, errStr(e1), errStr(e2))
		}
		if e1 != nil {
			r.Dist["regexp-rejects"]++
		} else {
			r.Dist["regexp-accepts"]++
		}
		// POSIX
		stdp, p1 := regexp.CompilePOSIX(p)
		var p2 error
		var cxp *coregex.Regex
		posixMeta := func() {}
		if guard(20*time.Second, func() string { cxp, p2 = coregex.CompilePOSIX(p); return "" }) == "" {
			tp := r.Tie("CompilePOSIX: error presence and text")
			tp.Cases++
			if errStr(p1) != errStr(p2) {
				tp.Disagreements++
				report("CompilePOSIX", p, errStr(p1), errStr(p2))
			}
			if p1 == nil && p2 == nil {
				// metadata of the POSIX value, queried before or after the Perl value's (no answer may depend on which mode of
				// the same pattern text was asked first)
				posixMeta = func() {
					tpm := r.Tie("metadata accessors (CompilePOSIX value)")
					c := func(api, want, got string) {
						tpm.Cases++
						if want != got {
							tpm.Disagreements++
							report(api+"(POSIX)", p, want, got)
						}
					}
					a1, b1 := stdp.LiteralPrefix()
					a2, b2 := cxp.LiteralPrefix()
					c("LiteralPrefix", fmt.Sprintf("%q,%v", a1, b1), fmt.Sprintf("%q,%v", a2, b2))
					c("String", stdp.String(), cxp.String())
					c("NumSubexp", fmt.Sprint(stdp.NumSubexp()), fmt.Sprint(cxp.NumSubexp()))
					c("SubexpNames", fmt.Sprintf("%q", stdp.SubexpNames()), fmt.Sprintf("%q", cxp.SubexpNames()))
					cc := cxp.Copy()
					a3, b3 := cc.LiteralPrefix()
					c("Copy.LiteralPrefix", fmt.Sprintf("%q,%v", a1, b1), fmt.Sprintf("%q,%v", a3, b3))
				}
			}
		}
		if i%2 == 0 {
			posixMeta()
		}
		if i%50 == 0 {
			w := panicText(func() { regexp.MustCompile(p) })
			g := panicText(func() { coregex.MustCompile(p) })
			if w != g {
				report("MustCompile", p, w, g)
			}
			w = panicText(func() { regexp.MustCompilePOSIX(p) })
			g = panicText(func() { coregex.MustCompilePOSIX(p) })
			if w != g {
				report("MustCompilePOSIX", p, w, g)
			}
		}
		if e1 != nil || e2 != nil {
			continue
		}
		tm := r.Tie("metadata accessors")
		cmp := func(api, want, got string) {
			tm.Cases++
			if want != got {
				tm.Disagreements++
				report(api, p, want, got)
			}
		}
		cmp("String", std.String(), cx.String())
		cmp("NumSubexp", fmt.Sprint(std.NumSubexp()), fmt.Sprint(cx.NumSubexp()))
		cmp("SubexpNames", fmt.Sprintf("%q", std.SubexpNames()), fmt.Sprintf("%q", cx.SubexpNames()))
		for _, nm := range append(std.SubexpNames(), "", "zz", "name") {
			cmp("SubexpIndex", fmt.Sprint(std.SubexpIndex(nm)), fmt.Sprint(cx.SubexpIndex(nm)))
		}
		lp1, c1 := std.LiteralPrefix()
		lp2, c2 := cx.LiteralPrefix()
		cmp("LiteralPrefix", fmt.Sprintf("%q,%v", lp1, c1), fmt.Sprintf("%q,%v", lp2, c2))
		m1, _ := std.MarshalText()
		m2, me := cx.MarshalText()
		cmp("MarshalText", string(m1), string(m2)+errSuffix(me))
		var u coregex.Regex
		ue := u.UnmarshalText(m1)
		cmp("UnmarshalText", "<nil>|"+std.String(), errStr(ue)+"|"+u.String())
		// UnmarshalText into a value that is ALREADY compiled — in POSIX syntax, or switched to leftmost-longest — must reset it to
		// what Compile(text) gives (regexp: `*re = *newRE`): same metadata, same (leftmost-first, Perl) behaviour
		if sp, e1 := regexp.CompilePOSIX(p); e1 == nil {
			if cp2, e2 := coregex.CompilePOSIX(p); e2 == nil {
				sl, cl := regexp.MustCompile(p), coregex.MustCompile(p)
				sl.Longest()
				cl.Longest()
				e3, e4 := sp.UnmarshalText(m1), cp2.UnmarshalText(m1)
				e5, e6 := sl.UnmarshalText(m1), cl.UnmarshalText(m1)
				a1, b1 := sp.LiteralPrefix()
				a2, b2 := cp2.LiteralPrefix()
				cmp("UnmarshalText(into POSIX value)", fmt.Sprintf("%v|%s|%q,%v", e3, sp.String(), a1, b1), fmt.Sprintf("%v|%s|%q,%v", e4, cp2.String(), a2, b2))
				ast, _ := syntax.Parse(p, syntax.Perl)
				hr := root.Fork(uint64(i) + 424242)
				for k := 0; k < 3; k++ {
					h := GenHaystack(hr, ast, true)
					if len(h) > 60 {
						h = h[:60]
					}
					cmp(fmt.Sprintf("UnmarshalText(into POSIX value).FindIndex on %q", h), fmt.Sprint(sp.FindIndex(h)), fmt.Sprint(cp2.FindIndex(h)))
					cmp(fmt.Sprintf("UnmarshalText(into Longest value).FindIndex on %q", h), fmt.Sprintf("%v%v|%v", e5, e6, sl.FindIndex(h)), fmt.Sprintf("%v%v|%v", e5, e6, cl.FindIndex(h)))
				}
			}
		}
		// Copy + Longest isolation (C10 shares this)
		probe := "aab ab abab"
		before := fmt.Sprint(cx.FindStringIndex(probe))
		cp := cx.Copy()
		cp.Longest()
		cmp("Copy/Longest-isolation", before, fmt.Sprint(cx.FindStringIndex(probe)))
		cmp("Copy/String", std.String(), cp.String())
		if i%2 == 1 {
			posixMeta()
		}
	}
	// QuoteMeta
	qs := []string{"", "a", ".", `\`, `a.b*c`, `[x]{2}^$|()+?`, "é.世", "\xff.\xfe", `\\.\`, "plain text", "$1", "a\nb"}
	for i := 0; i < 400; i++ {
		rng := root.Fork(uint64(i) + 777777)
		ln := rng.Intn(12)
		b := make([]byte, ln)
		alpha := []byte(`ab.\+*?()|[]{}^$-é` + "\xff\n ")
		for j := range b {
			b[j] = alpha[rng.Intn(len(alpha))]
		}
		qs = append(qs, string(b))
	}
	for _, s := range qs {
		r.Case("Q\x00"+s, strings.ContainsAny(s, `\.+*?()|[]{}^$`))
		w := regexp.QuoteMeta(s)
		g := coregex.QuoteMeta(s)
		qreqs = append(qreqs, "quotemeta "+hexOf([]byte(s)), "stdquotemeta "+hexOf([]byte(s)))
		qwant = append(qwant, g, w)
		qkind = append(qkind, "model", "spec")
		if w != g {
			report("QuoteMeta", s, fmt.Sprintf("%q", w), fmt.Sprintf("%q", g))
		}
		if utf8.ValidString(s) {
			if cx, err := coregex.Compile(g); err != nil {
				report("Compile(QuoteMeta)", s, "<nil>", errStr(err))
			} else {
				loc := cx.FindStringIndex("zz" + s + "zz")
				if s != "" && (loc == nil || loc[0] != 2 || loc[1] != 2+len(s)) {
					report("Compile(QuoteMeta).Find", s, fmt.Sprint([]int{2, 2 + len(s)}), fmt.Sprint(loc))
				}
			}
		}
	}
	ans, err := RunLean(qreqs)
	if err != nil {
		r.Violate("Lean driver failed: "+err.Error(), map[string]any{"correspondence": "C09 QuoteMeta models"}, true)
		return
	}
	for i := range qreqs {
		t := r.Tie("QuoteMeta: Lean " + qkind[i] + " == " + map[string]string{"model": "coregex.QuoteMeta", "spec": "regexp.QuoteMeta"}[qkind[i]])
		t.Cases++
		if unhex(ans[i]) != qwant[i] {
			t.Disagreements++
			r.Violate(fmt.Sprintf("QuoteMeta %s: Lean=%q Go=%q", qkind[i], unhex(ans[i]), qwant[i]),
				map[string]any{"correspondence": "Cx QuoteMeta " + qkind[i], "request": qreqs[i], "go": qwant[i], "lean": unhex(ans[i])}, qkind[i] == "spec")
		}
	}
	r.Sample(map[string]any{"pattern": `(?P<n1>a)(?P<n2>b)(c)`, "checked": "Compile error text, String, NumSubexp, SubexpNames, SubexpIndex, LiteralPrefix, Marshal/Unmarshal, Copy"})
	r.Sample(map[string]any{"quotemeta": qs[4], "lean_model": unhex(ans[8]), "coregex": qwant[8]})
	_ = syntax.Perl
	replayKnownExamples(r, known, "C09")
}

func errSuffix(err error) string {
	if err == nil {
		return ""
	}
	return "|err:" + err.Error()
}
