package main

import (
	"fmt"
	"io"
	"regexp"
	"strings"
	"time"

	"github.com/coregx/coregex"
)

// StdAPI is the method set shared by *regexp.Regexp and *coregex.Regex (the drop-in surface).
type StdAPI interface {
	Match(b []byte) bool
	MatchString(s string) bool
	MatchReader(r io.RuneReader) bool
	Find(b []byte) []byte
	FindIndex(b []byte) []int
	FindString(s string) string
	FindStringIndex(s string) []int
	FindReaderIndex(r io.RuneReader) []int
	FindSubmatch(b []byte) [][]byte
	FindSubmatchIndex(b []byte) []int
	FindStringSubmatch(s string) []string
	FindStringSubmatchIndex(s string) []int
	FindReaderSubmatchIndex(r io.RuneReader) []int
	FindAll(b []byte, n int) [][]byte
	FindAllIndex(b []byte, n int) [][]int
	FindAllString(s string, n int) []string
	FindAllStringIndex(s string, n int) [][]int
	FindAllSubmatch(b []byte, n int) [][][]byte
	FindAllSubmatchIndex(b []byte, n int) [][]int
	FindAllStringSubmatch(s string, n int) [][]string
	FindAllStringSubmatchIndex(s string, n int) [][]int
	ReplaceAll(src, repl []byte) []byte
	ReplaceAllString(src, repl string) string
	ReplaceAllLiteral(src, repl []byte) []byte
	ReplaceAllLiteralString(src, repl string) string
	ReplaceAllFunc(src []byte, repl func([]byte) []byte) []byte
	ReplaceAllStringFunc(src string, repl func(string) string) string
	Expand(dst []byte, template []byte, src []byte, match []int) []byte
	ExpandString(dst []byte, template string, src string, match []int) []byte
	Split(s string, n int) []string
	NumSubexp() int
	SubexpNames() []string
	SubexpIndex(name string) int
	LiteralPrefix() (string, bool)
	String() string
	Longest()
	MarshalText() ([]byte, error)
}

var _ StdAPI = (*regexp.Regexp)(nil)
var _ StdAPI = (*coregex.Regex)(nil)

// guard runs f with panic capture and a deadline; a timeout leaves the goroutine behind (reported, never retried).
func guard(d time.Duration, f func() string) (res string) {
	ch := make(chan string, 1)
	go func() {
		defer func() {
			if r := recover(); r != nil {
				ch <- fmt.Sprintf("PANIC:%v", r)
			}
		}()
		ch <- f()
	}()
	select {
	case s := <-ch:
		return s
	case <-time.After(d):
		return "TIMEOUT"
	}
}

func fmtInts(a []int) string {
	if a == nil {
		return "nil"
	}
	return fmt.Sprint(a)
}
func fmtIntss(a [][]int) string {
	if a == nil {
		return "nil"
	}
	return fmt.Sprint(a)
}
func fmtBytess(a [][]byte) string {
	if a == nil {
		return "nil"
	}
	var sb strings.Builder
	sb.WriteByte('[')
	for i, x := range a {
		if i > 0 {
			sb.WriteByte(' ')
		}
		if x == nil {
			sb.WriteString("nil")
		} else {
			fmt.Fprintf(&sb, "%q", x)
		}
	}
	sb.WriteByte(']')
	return sb.String()
}
func fmtStrs(a []string) string {
	if a == nil {
		return "nil"
	}
	return fmt.Sprintf("%q", a)
}
func fmtBytes(b []byte) string {
	if b == nil {
		return "nil"
	}
	return fmt.Sprintf("%q", b)
}

// An Obs is one observation: API name (with its extra arguments) -> canonical result.
type Obs struct {
	API string
	Fn  func(re StdAPI, h []byte) string
}

func nsOf(n int) string { return fmt.Sprintf("%d", n) }

// Observation sets per property. Every function is pure in (re, h).
func obsMatch() []Obs {
	return []Obs{
		{"Match", func(re StdAPI, h []byte) string { return fmt.Sprint(re.Match(h)) }},
		{"MatchString", func(re StdAPI, h []byte) string { return fmt.Sprint(re.MatchString(string(h))) }},
	}
}
func obsFind() []Obs {
	return []Obs{
		{"FindIndex", func(re StdAPI, h []byte) string { return fmtInts(re.FindIndex(h)) }},
		{"FindStringIndex", func(re StdAPI, h []byte) string { return fmtInts(re.FindStringIndex(string(h))) }},
		{"Find", func(re StdAPI, h []byte) string { return fmtBytes(re.Find(h)) }},
		{"FindString", func(re StdAPI, h []byte) string { return fmt.Sprintf("%q", re.FindString(string(h))) }},
	}
}
func obsSubmatch() []Obs {
	return []Obs{
		{"FindSubmatchIndex", func(re StdAPI, h []byte) string { return fmtInts(re.FindSubmatchIndex(h)) }},
		{"FindStringSubmatchIndex", func(re StdAPI, h []byte) string { return fmtInts(re.FindStringSubmatchIndex(string(h))) }},
		{"FindSubmatch", func(re StdAPI, h []byte) string { return fmtBytess(re.FindSubmatch(h)) }},
		{"FindStringSubmatch", func(re StdAPI, h []byte) string { return fmtStrs(re.FindStringSubmatch(string(h))) }},
	}
}
func obsFindAll(ns []int) []Obs {
	var out []Obs
	for _, n := range ns {
		n := n
		out = append(out,
			Obs{"FindAllIndex/" + nsOf(n), func(re StdAPI, h []byte) string { return fmtIntss(re.FindAllIndex(h, n)) }},
			Obs{"FindAllStringIndex/" + nsOf(n), func(re StdAPI, h []byte) string { return fmtIntss(re.FindAllStringIndex(string(h), n)) }},
			Obs{"FindAll/" + nsOf(n), func(re StdAPI, h []byte) string { return fmtBytess(re.FindAll(h, n)) }},
			Obs{"FindAllString/" + nsOf(n), func(re StdAPI, h []byte) string { return fmtStrs(re.FindAllString(string(h), n)) }},
			Obs{"FindAllSubmatchIndex/" + nsOf(n), func(re StdAPI, h []byte) string { return fmtIntss(re.FindAllSubmatchIndex(h, n)) }},
			Obs{"FindAllStringSubmatchIndex/" + nsOf(n), func(re StdAPI, h []byte) string {
				return fmtIntss(re.FindAllStringSubmatchIndex(string(h), n))
			}},
			Obs{"FindAllSubmatch/" + nsOf(n), func(re StdAPI, h []byte) string {
				r := re.FindAllSubmatch(h, n)
				if r == nil {
					return "nil"
				}
				var sb strings.Builder
				for _, m := range r {
					sb.WriteString(fmtBytess(m))
				}
				return sb.String()
			}},
			Obs{"FindAllStringSubmatch/" + nsOf(n), func(re StdAPI, h []byte) string {
				r := re.FindAllStringSubmatch(string(h), n)
				if r == nil {
					return "nil"
				}
				return fmt.Sprintf("%q", r)
			}},
		)
	}
	return out
}

func obsReplace(repls []string) []Obs {
	var out []Obs
	for _, rp := range repls {
		rp := rp
		out = append(out,
			Obs{"ReplaceAll/" + rp, func(re StdAPI, h []byte) string { return fmtBytes(re.ReplaceAll(h, []byte(rp))) }},
			Obs{"ReplaceAllString/" + rp, func(re StdAPI, h []byte) string { return fmt.Sprintf("%q", re.ReplaceAllString(string(h), rp)) }},
			Obs{"ReplaceAllLiteral/" + rp, func(re StdAPI, h []byte) string { return fmtBytes(re.ReplaceAllLiteral(h, []byte(rp))) }},
			Obs{"ReplaceAllLiteralString/" + rp, func(re StdAPI, h []byte) string {
				return fmt.Sprintf("%q", re.ReplaceAllLiteralString(string(h), rp))
			}},
		)
	}
	out = append(out,
		Obs{"ReplaceAllFunc", func(re StdAPI, h []byte) string {
			return fmtBytes(re.ReplaceAllFunc(h, func(m []byte) []byte { return []byte(fmt.Sprintf("<%s>", m)) }))
		}},
		Obs{"ReplaceAllStringFunc", func(re StdAPI, h []byte) string {
			return fmt.Sprintf("%q", re.ReplaceAllStringFunc(string(h), func(m string) string { return "<" + m + ">" }))
		}},
	)
	return out
}

func obsSplit(ns []int) []Obs {
	var out []Obs
	for _, n := range ns {
		n := n
		out = append(out, Obs{"Split/" + nsOf(n), func(re StdAPI, h []byte) string { return fmtStrs(re.Split(string(h), n)) }})
	}
	return out
}

func obsReader() []Obs {
	return []Obs{
		{"MatchReader", func(re StdAPI, h []byte) string { return fmt.Sprint(re.MatchReader(strings.NewReader(string(h)))) }},
		{"FindReaderIndex", func(re StdAPI, h []byte) string { return fmtInts(re.FindReaderIndex(strings.NewReader(string(h)))) }},
		{"FindReaderSubmatchIndex", func(re StdAPI, h []byte) string {
			return fmtInts(re.FindReaderSubmatchIndex(strings.NewReader(string(h))))
		}},
	}
}

// obsExtra: observations that exist only on coregex are compared against the regexp API they must equal.
func obsExtra() []Obs {
	var out []Obs
	out = append(out, Obs{"AllIndex", func(re StdAPI, h []byte) string {
		if cx, ok := re.(*coregex.Regex); ok {
			var it [][]int
			for m := range cx.AllIndex(h) {
				it = append(it, []int{m[0], m[1]})
			}
			return fmtIntss(it)
		}
		return fmtIntss(re.FindAllIndex(h, -1))
	}})
	for _, n := range []int{-1, 1, 2, 3} {
		n := n
		out = append(out, Obs{"Count/" + nsOf(n), func(re StdAPI, h []byte) string {
			if cx, ok := re.(*coregex.Regex); ok {
				return fmt.Sprint(cx.Count(h, n))
			}
			return fmt.Sprint(len(re.FindAllIndex(h, n)))
		}}, Obs{"AppendAllIndex/" + nsOf(n), func(re StdAPI, h []byte) string {
			if cx, ok := re.(*coregex.Regex); ok {
				a := cx.AppendAllIndex([][2]int{{7, 9}}, h, n)
				if len(a) == 0 || a[0] != [2]int{7, 9} {
					return "lost-dst"
				}
				var it [][]int
				for _, m := range a[1:] {
					it = append(it, []int{m[0], m[1]})
				}
				return fmtIntss(it)
			}
			return fmtIntss(re.FindAllIndex(h, n))
		}})
	}
	return out
}
