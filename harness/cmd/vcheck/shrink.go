package main

import (
	"regexp"
	"regexp/syntax"
	"time"

	"github.com/coregx/coregex"
)

// shrinkE2E reduces a disagreement (coregex != regexp for one observation) to a local minimum: haystack first (remove
// chunks, then single bytes), then the pattern (replace a node by one of its children, drop an alternative / concatenation
// element, lower repeat bounds), then the haystack again. Every candidate must still compile in both libraries and still
// disagree. budget bounds the number of evaluations.
func shrinkE2E(p string, h []byte, o Obs, longest, posix bool, budget int) (string, []byte, string, string) {
	compile := func(p string) (StdAPI, StdAPI, bool) {
		var std *regexp.Regexp
		var cx *coregex.Regex
		var e1, e2 error
		if posix {
			std, e1 = regexp.CompilePOSIX(p)
		} else {
			std, e1 = regexp.Compile(p)
		}
		if e1 != nil {
			return nil, nil, false
		}
		ok := guard(5*time.Second, func() string {
			if posix {
				cx, e2 = coregex.CompilePOSIX(p)
			} else {
				cx, e2 = coregex.Compile(p)
			}
			return ""
		}) == ""
		if !ok || e2 != nil {
			return nil, nil, false
		}
		if longest {
			std.Longest()
			cx.Longest()
		}
		return std, cx, true
	}
	evals := 0
	var lastW, lastG string
	fails := func(p string, h []byte) bool {
		if evals >= budget {
			return false
		}
		evals++
		std, cx, ok := compile(p)
		if !ok {
			return false
		}
		w := o.Fn(std, h)
		g := guard(5*time.Second, func() string { return o.Fn(cx, h) })
		if w != g {
			lastW, lastG = w, g
			return true
		}
		return false
	}
	if !fails(p, h) {
		return p, h, "", ""
	}
	bestW, bestG := lastW, lastG
	shrinkHay := func() {
		for chunk := len(h) / 2; chunk >= 1; chunk /= 2 {
			for i := 0; i+chunk <= len(h); {
				cand := append(append([]byte(nil), h[:i]...), h[i+chunk:]...)
				if fails(p, cand) {
					h = cand
					bestW, bestG = lastW, lastG
				} else {
					i += chunk
				}
			}
		}
	}
	shrinkHay()
	// pattern candidates from the AST
	for round := 0; round < 6; round++ {
		re, err := syntax.Parse(p, syntax.Perl)
		if posix {
			re, err = syntax.Parse(p, syntax.POSIX)
		}
		if err != nil {
			break
		}
		improved := false
		var cands []string
		var walkC func(n *syntax.Regexp, rebuild func(*syntax.Regexp) string)
		walkC = func(n *syntax.Regexp, rebuild func(*syntax.Regexp) string) {
			// replace n by each of its children
			for _, s := range n.Sub {
				cands = append(cands, rebuild(s))
			}
			switch n.Op {
			case syntax.OpConcat, syntax.OpAlternate:
				if len(n.Sub) > 1 {
					for i := range n.Sub {
						c := *n
						c.Sub = append(append([]*syntax.Regexp(nil), n.Sub[:i]...), n.Sub[i+1:]...)
						cands = append(cands, rebuild(&c))
					}
				}
			case syntax.OpRepeat:
				c := *n
				if c.Min > 0 {
					c.Min--
					if c.Max >= 0 && c.Max > c.Min+1 {
						c.Max = c.Min + 1
					}
					cands = append(cands, rebuild(&c))
				}
			case syntax.OpLiteral:
				if len(n.Rune) > 1 {
					c := *n
					c.Rune = n.Rune[:len(n.Rune)/2]
					cands = append(cands, rebuild(&c))
					c2 := *n
					c2.Rune = n.Rune[len(n.Rune)/2:]
					cands = append(cands, rebuild(&c2))
				}
			}
			for i, s := range n.Sub {
				i, s := i, s
				walkC(s, func(r *syntax.Regexp) string {
					c := *n
					c.Sub = append([]*syntax.Regexp(nil), n.Sub...)
					c.Sub[i] = r
					return rebuild(&c)
				})
			}
		}
		walkC(re, func(r *syntax.Regexp) string { return r.String() })
		for _, c := range cands {
			if len(c) < len(p) && fails(c, h) {
				p = c
				bestW, bestG = lastW, lastG
				improved = true
				break
			}
		}
		if !improved {
			break
		}
	}
	shrinkHay()
	return p, h, bestW, bestG
}
