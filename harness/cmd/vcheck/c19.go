package main

import (
	"fmt"
	"regexp"
	"regexp/syntax"
	"strings"
	"time"

	"github.com/coregx/coregex/meta"
	"github.com/coregx/coregex/nfa"
)

func init() { checks["C19"] = checkC19 }

// astWire serialises a parsed regexp for Cx.DriverFast: preorder, node = op/flags/nsub/runes/min/max.
func astWire(re *syntax.Regexp) string {
	var nodes []string
	var walkN func(r *syntax.Regexp)
	walkN = func(r *syntax.Regexp) {
		fl := 0
		if r.Flags&syntax.NonGreedy != 0 {
			fl |= 1
		}
		if r.Flags&syntax.FoldCase != 0 {
			fl |= 2
		}
		rs := make([]string, len(r.Rune))
		for i, x := range r.Rune {
			rs[i] = fmt.Sprint(int(x))
		}
		nodes = append(nodes, fmt.Sprintf("%d/%d/%d/%s/%d/%d", int(r.Op), fl, len(r.Sub), strings.Join(rs, "."), r.Min, r.Max))
		for _, s := range r.Sub {
			walkN(s)
		}
	}
	walkN(re)
	return strings.Join(nodes, ",")
}

// fast-path templates and their one-node mutations (the boundary of each applicability whitelist)
var c19Seeds = []string{`[a-z]+`, `\d+`, `\w+`, `[0-9a-f]+`, `\s+`, `[a-z]+[0-9]+`, `[a-z]+\d*x?`, `\d{1,3}[a-c]{2}`, `[a-z]{1,2}[0-9]+`, `[a-z]{2,3}[0-9]`, `[0-9]{1,3}[a-c]`, `[ab]+[bc]+`, `[a-z]+[a-z]+[0-9]`, `\w+\s\d+`,
	`^(foo|bar|qux)`, `^(\d+|UUID|hex32)`, `^(?:GET|POST|PUT)`, `^(get|post)`, `^(kb|mb)`, `^(ab|cd)`, `^([a-c]+|x|yz)`,
	`^/.*\.php$`, `\A/.*\.php$`, `\Aab.+cd$`, `^api/.*\.json$`, `^.*\.txt$`, `^/.*[\w-]+\.php$`, `^prefix.*suffix$`, `^/.*[\w\s-]+\.txt$`, `^.*\s+END$`, `^x.*[\s]+y$`, `^a.*[^b]+b$`, `^abc.*bcd$`, `^ab.*ab$`, `^hello.+lox$`, `^aa.*a$`, `^abc`, `^[a-c]x`, `^(?:ab|cd)+x`}

func c19Mutants(r *RNG, p string) []string {
	out := []string{p}
	add := func(q string) {
		if _, err := syntax.Parse(q, syntax.Perl); err == nil {
			out = append(out, q)
		}
	}
	add(p + "?")       // lazy on a trailing quantifier / optional
	add("(?U)" + p)    // swap greediness
	add("(?i)" + p)    // case folding
	add("(?s)" + p)    // dot-all
	add("(?m)" + p)    // multi-line anchors
	add(p + "e")       // trailing concatenation
	add(p + `\b`)      // look-around after
	add(`\b` + p)      // look-around before
	add("(" + p + ")") // capture wrapping
	add(strings.Replace(p, "a", "é", 1))
	add(strings.Replace(p, "[a-z]", `[a-z\x{e9}]`, 1))
	add(strings.Replace(p, "+", "{0}", 1))
	add(strings.Replace(p, "+", "+?", 1))
	add(strings.Replace(p, "*", "*?", 1))
	add(strings.Replace(p, "|", "|(?m:$)|", 1))
	for i := 0; i < 2; i++ {
		add(MutatePattern(r, p))
	}
	return out
}

func checkC19(r *Report, known []Finding) {
	r.Rule = "fast-path templates (char-class repetition, composite class sequences, branch dispatch, anchored literal, first-byte filter) and every one-node mutation of them (lazy flag, (?U), " +
		"fold flag, (?s), (?m), trailing concatenation, look-around before/after, capture wrapping, non-ASCII / Latin-1 class member, {0}, empty-width alternative): (a) model tie — the Lean " +
		"transliterations (predicates, constructors, searchers; exactness proved on explicit fragments) must equal the real predicates/searchers on exhaustive short haystacks, all offsets; " +
		"(b) property — whenever a fast path accepts the pattern, its answer must equal the reference matcher Cx.Ref.refFind (validated against regexp); non-trivial = the fast path accepts the pattern; distinct by (pattern, searcher)"
	root := NewRNG(r.Seed)
	var pats []string
	seen := map[string]bool{}
	// every seed first, then the mutants mutation by mutation across all seeds: a budget cut never drops a whole template family
	var cols [][]string
	for i, s := range c19Seeds {
		cols = append(cols, c19Mutants(root.Fork(uint64(i)+1), s))
	}
	for k := 0; ; k++ {
		any := false
		for _, col := range cols {
			if k < len(col) {
				any = true
				if m := col[k]; !seen[m] {
					seen[m] = true
					pats = append(pats, m)
				}
			}
		}
		if !any {
			break
		}
	}
	if r.Tier != "thorough" && len(pats) > 700 {
		pats = pats[:700]
	}
	alpha := []byte("ab1 ")
	L := 4
	if r.Tier == "thorough" {
		L = 5
	}
	type cs struct {
		p, searcher, op, req, got string
		h                         []byte
		at                        int
		prop                      bool // property-level comparison (real searcher vs reference) rather than model tie
		want                      string
	}
	var cases []cs
	deadline := time.Now().Add(8 * time.Minute)
	for _, p := range pats {
		if time.Now().After(deadline) {
			break
		}
		re, err := syntax.Parse(p, syntax.Perl)
		if err != nil {
			continue
		}
		std := regexp.MustCompile(p)
		wire := astWire(re)
		// haystacks: exhaustive over a small alphabet chosen from the pattern's own bytes
		al := append([]byte(nil), alpha...)
		for _, c := range []byte(p) {
			if (c >= 'a' && c <= 'z' || c >= 'A' && c <= 'Z' || c >= '0' && c <= '9' || c == '/' || c == '.') && !strings.ContainsRune(string(al), rune(c)) && len(al) < 7 {
				al = append(al, c)
			}
		}
		var hays [][]byte
		var gen func(pre []byte, l int)
		gen = func(pre []byte, l int) {
			hays = append(hays, append([]byte(nil), pre...))
			if l == 0 {
				return
			}
			for _, b := range al {
				gen(append(pre, b), l-1)
			}
		}
		ll := L
		if len(al) > 5 {
			ll = L - 1
		}
		gen(nil, ll)
		hays = append(hays, []byte("a\nb"), []byte("é1"), []byte("/x.php"), []byte("/a\n.php"), []byte("ABab"), []byte("fooe"), []byte("abe"), []byte("abc1"), []byte("wxyz7"), []byte("1234a"))
		// matches of the pattern itself, and every way of putting a newline / space / class byte into one: the anchored-literal matcher
		// splits a match into prefix, wildcard span, class bridge and suffix by scanning from both ends — what each scan may take
		// depends on exactly these bytes
		if meta.DetectAnchoredLiteral(re) != nil {
			srng := NewRNG(r.Seed ^ uint64(len(p))*0x9E37)
			seenM := map[string]bool{}
			for k := 0; k < 40 && len(seenM) < 10; k++ {
				b := 30
				m := sampleMatch(srng, re, nil, &b)
				for i, c := range m {
					if c >= 0x80 {
						m[i] = 'a' + c%26
					}
				}
				if len(m) > 24 || seenM[string(m)] {
					continue
				}
				seenM[string(m)] = true
				hays = append(hays, m)
				// excisions m[:i]+m[j:]: prefix and suffix literal then meet or overlap (share bytes) in a haystack shorter than both together
				if len(m) <= 12 {
					for i := 0; i <= len(m); i++ {
						for j := i + 1; j <= len(m); j++ {
							hays = append(hays, append(append([]byte(nil), m[:i]...), m[j:]...))
						}
					}
				}
				for i := 0; i <= len(m); i++ {
					for _, ins := range []byte{'\n', ' ', '-'} {
						hays = append(hays, append(append(append([]byte(nil), m[:i]...), ins), m[i:]...))
						if i < len(m) {
							rep := append([]byte(nil), m...)
							rep[i] = ins
							hays = append(hays, rep)
						}
					}
				}
			}
		}
		// fold partners outside ASCII: k/K fold to U+212A (Kelvin sign), s/S to U+017F (long s); a case-insensitive fast path that
		// only thinks of the two ASCII cases is wrong exactly there
		if strings.Contains(p, "(?i") {
			var extra [][]byte
			for _, w := range []string{"post /x", "POST", "get", "kb", "mb", "Kb", "hex32", "suffix", "prefixsuffix", "api/x.json", "yz", "x"} {
				for _, rp := range [][2]string{{"s", "ſ"}, {"S", "ſ"}, {"k", "\u212a"}, {"K", "\u212a"}} {
					if strings.Contains(w, rp[0]) {
						extra = append(extra, []byte(strings.Replace(w, rp[0], rp[1], 1)))
					}
				}
				extra = append(extra, []byte(w))
			}
			hays = append(hays, extra...)
		}
		// (1) CharClassSearcher
		isCC := nfa.IsSimpleCharClassPlus(re)
		cases = append(cases, cs{p: p, searcher: "CharClassSearcher", op: "predicate", req: "re-ccs " + wire, got: func() string {
			rs := nfa.ExtractCharClassRanges(re)
			if rs == nil {
				return "nil"
			}
			var parts []string
			for _, x := range rs {
				parts = append(parts, fmt.Sprintf("%d-%d", x[0], x[1]))
			}
			return strings.Join(parts, "_")
		}()})
		var ccs *nfa.CharClassSearcher
		if isCC {
			ccs = nfa.NewCharClassSearcher(nfa.ExtractCharClassRanges(re), 1)
		}
		// (2) CompositeSearcher
		isComp := nfa.IsCompositeCharClassPattern(re)
		var comp *nfa.CompositeSearcher
		if isComp {
			comp = nfa.NewCompositeSearcher(re)
		}
		cases = append(cases, cs{p: p, searcher: "CompositeSearcher", op: "predicate", req: "re-composite is 0 - " + wire, got: fmt.Sprint(isComp)})
		// (3) anchored literal
		info := meta.DetectAnchoredLiteral(re)
		// (4) branch dispatch
		isBD := nfa.IsBranchDispatchPattern(re)
		cases = append(cases, cs{p: p, searcher: "BranchDispatcher", op: "predicate", req: "re-bd is - " + wire, got: fmt.Sprint(isBD)})
		// (5) first-byte rejection filter
		fbGo := "nil"
		fb := nfa.ExtractFirstBytes(re)
		if fb != nil {
			var tbl [32]byte
			for b := 0; b < 256; b++ {
				if fb.Contains(byte(b)) {
					tbl[b/8] |= 1 << (b % 8)
				}
			}
			fbGo = fmt.Sprintf("%d/%v/%s", fb.Count(), fb.IsComplete(), hexOf(tbl[:]))
		}
		cases = append(cases, cs{p: p, searcher: "FirstBytes", op: "predicate", req: "re-fb " + wire, got: fbGo})
		if fb != nil && fb.IsComplete() {
			r.Dist["accepted:FirstBytes(complete)"]++
			// the property itself on the real code: a non-empty match at offset 0 starts with a byte of the set
			anch, err := regexp.Compile(`^(?:` + p + `)`)
			if err == nil {
				fbHays := append([][]byte(nil), hays...)
				for _, x := range []string{"k", "K", "\u212a", "s", "S", "\u017f", "é", "É", "\n", "ß", "世", "0", "_", " "} {
					fbHays = append(fbHays, []byte(x), []byte(x+"a"), []byte(x+"1"))
				}
				for _, h := range fbHays {
					if len(h) == 0 {
						continue
					}
					loc := anch.FindIndex(h)
					want := "in-set-or-no-match"
					got := want
					if loc != nil && loc[1] > 0 && !fb.Contains(h[0]) {
						got = fmt.Sprintf("match [0,%d] starts with byte %#x which is not in the complete set", loc[1], h[0])
					}
					cases = append(cases, cs{p: p, searcher: "FirstBytes", op: "filter", h: h, got: got, prop: true, want: want})
				}
			}
		}
		// (6) whatever the predicates say, when the meta engine SELECTS one of the fast-path strategies for the pattern its
		// answers must be regexp's (a selection guard dropped in meta/strategy.go is invisible to the predicate-level ties)
		if eng, err := meta.Compile(p); err == nil {
			switch st := eng.Strategy(); st {
			case meta.UseAnchoredLiteral, meta.UseCharClassSearcher, meta.UseCompositeSearcher, meta.UseBranchDispatch:
				r.Dist["selected:"+st.String()]++
				extra := [][]byte{[]byte("/index.php\nnext line"), []byte("/index.php\n"), []byte("ab__cd\nx"), []byte("ab\ncd"), []byte("abxcd")}
				for _, h := range append(append([][]byte(nil), hays...), extra...) {
					wantM := fmt.Sprint(std.Match(h))
					cases = append(cases, cs{p: p, searcher: "Engine[" + st.String() + "]", op: "IsMatch", h: h, got: guard(5*time.Second, func() string { return fmt.Sprint(eng.IsMatch(h)) }), prop: true, want: wantM})
					loc := std.FindIndex(h)
					want := "nil"
					if loc != nil {
						want = fmt.Sprintf("%d,%d", loc[0], loc[1])
					}
					gotF := guard(5*time.Second, func() string { s0, e0, ok := eng.FindIndices(h); return spanStr(s0, e0, ok) })
					cases = append(cases, cs{p: p, searcher: "Engine[" + st.String() + "]", op: "FindIndices", h: h, got: gotF, prop: true, want: want})
				}
			}
		}
		r.Case(p+"\x00predicates", isCC || isComp || info != nil || isBD)
		if isCC {
			r.Dist["accepted:CharClassSearcher"]++
		}
		if isComp {
			r.Dist["accepted:CompositeSearcher"]++
		}
		if info != nil {
			r.Dist["accepted:AnchoredLiteral"]++
		}
		if isBD {
			r.Dist["accepted:BranchDispatch"]++
		}
		for _, h := range hays {
			h := h
			for at := 0; at <= len(h); at++ {
				if at > 0 && (len(h) > 3 && at != len(h)/2) {
					continue
				}
				at := at
				ref := fmt.Sprintf("re-ref %d %s %s", at, hexOf(h), wire)
				if ccs != nil {
					s, e, ok := ccs.SearchAt(h, at)
					got := spanStr(s, e, ok)
					cases = append(cases, cs{p: p, searcher: "CharClassSearcher", op: "SearchAt", h: h, at: at, req: ref, got: got, prop: true})
				}
				if comp != nil {
					got := guard(5*time.Second, func() string { s, e, ok := comp.SearchAt(h, at); return spanStr(s, e, ok) })
					cases = append(cases, cs{p: p, searcher: "CompositeSearcher", op: "SearchAt", h: h, at: at, req: fmt.Sprintf("re-composite search %d %s %s", at, hexOf(h), wire), got: got})
					cases = append(cases, cs{p: p, searcher: "CompositeSearcher", op: "SearchAt", h: h, at: at, req: ref, got: got, prop: true})
					// the transliteration of the code as it is (ordered-list simulation, Cx.CompSim: proved equal to the backtracking model above)
					cases = append(cases, cs{p: p, searcher: "CompositeSearcher(simulation model)", op: "SearchAt", h: h, at: at, req: fmt.Sprintf("re-csim search %d %s %s", at, hexOf(h), wire), got: got})
				}
				if at == 0 {
					if info != nil {
						got := guard(5*time.Second, func() string { return fmt.Sprint(meta.MatchAnchoredLiteral(h, info)) })
						cases = append(cases, cs{p: p, searcher: "AnchoredLiteral", op: "Match", h: h, req: fmt.Sprintf("re-anchlit match %s %s", hexOf(h), wire), got: got})
						cases = append(cases, cs{p: p, searcher: "AnchoredLiteral", op: "Match", h: h, got: got, prop: true, want: fmt.Sprint(std.Match(h))})
					}
					if isBD {
						// the dispatcher meta builds: searched through the engine (strategy may still fall back)
						if eng, err := meta.Compile(p); err == nil && eng.Strategy() == meta.UseBranchDispatch {
							s, e, ok := eng.FindIndices(h)
							got := spanStr(s, e, ok)
							cases = append(cases, cs{p: p, searcher: "BranchDispatcher", op: "Search", h: h, req: fmt.Sprintf("re-bd search %s %s", hexOf(h), wire), got: got})
							loc := std.FindIndex(h)
							want := "nil"
							if loc != nil {
								want = fmt.Sprintf("%d,%d", loc[0], loc[1])
							}
							cases = append(cases, cs{p: p, searcher: "BranchDispatcher", op: "Search", h: h, got: got, prop: true, want: want})
						}
					}
				}
			}
		}
		if ccs != nil {
			for _, h := range hays[:min(len(hays), 200)] {
				got := ccs.FindAllIndices(h, nil)
				var parts []string
				for _, m := range got {
					parts = append(parts, fmt.Sprintf("%d.%d", m[0], m[1]))
				}
				g := strings.Join(parts, ",")
				if g == "" {
					g = "-"
				}
				cases = append(cases, cs{p: p, searcher: "CharClassSearcher", op: "FindAllIndices", h: h, got: g, prop: true, want: spansStr(std.FindAllIndex(h, -1))})
			}
		}
	}
	var reqs []string
	idx := map[int]int{}
	for i, c := range cases {
		if c.req != "" {
			idx[i] = len(reqs)
			reqs = append(reqs, c.req)
		}
	}
	ans, err := RunLean(reqs)
	if err != nil {
		r.Violate("Lean driver failed: "+err.Error(), map[string]any{"correspondence": "C19 fast-path models"}, true)
		return
	}
	reported := map[string]bool{}
	for i, c := range cases {
		want := c.want
		if k, ok := idx[i]; ok {
			want = ans[k]
		}
		name := c.searcher + "." + c.op + " == Lean model"
		if c.prop {
			name = c.searcher + "." + c.op + " == reference (exact on what it accepts)"
		}
		t := r.Tie(name)
		t.Cases++
		if want == c.got {
			continue
		}
		t.Disagreements++
		kind := "model-tie"
		if c.prop {
			kind = "not-exact"
		}
		attrs := map[string]string{"searcher": c.searcher, "kind": kind}
		if ast, err := syntax.Parse(c.p, syntax.Perl); err == nil {
			for _, tg := range featuresOf(ast).Tags() {
				attrs[tg] = "true"
			}
		}
		attrs["pf"] = primaryFeature(attrs)
		if f := matchKnown(known, "C19", attrs); f != nil {
			r.Known(f, map[string]string{"pattern": c.p, "searcher": c.searcher, "haystack_hex": hexOf(c.h), "at": fmt.Sprint(c.at), "got": c.got, "want": want})
			continue
		}
		key := c.p + "\x00" + c.searcher + kind
		if reported[key] {
			continue
		}
		reported[key] = true
		if c.prop {
			r.Violate(fmt.Sprintf("%s accepts %q but is not exact: %s on %q at=%d gives %s, reference %s", c.searcher, c.p, c.op, c.h, c.at, c.got, want),
				map[string]any{"pattern": c.p, "searcher": c.searcher, "op": c.op, "haystack_hex": hexOf(c.h), "at": c.at, "searcher_answer": c.got, "reference": want, "attrs": attrs,
					"api": c.searcher + "." + c.op, "coregex": c.got, "regexp": want, "learn_signature": map[string]string{"searcher": c.searcher, "kind": kind, "pf": attrs["pf"]}}, false)
		} else {
			r.Violate(fmt.Sprintf("Lean model of %s and the code differ: %s of %q on %q at=%d: code=%s model=%s", c.searcher, c.op, c.p, c.h, c.at, c.got, want),
				map[string]any{"correspondence": "Cx.Fast model vs " + c.searcher, "pattern": c.p, "request": c.req, "code": c.got, "model": want}, false)
		}
	}
	c02StrategyTies(r)    // the reverse-suffix-set / inner / anchored / multiline searchers are fast paths of this property too (models under C02)
	c19CompositeDFATie(r) // CompositeSequenceDFA (nfa/composite_dfa.go) vs its Lean model Cx.CompDfa, and vs regexp where meta uses it
	r.Sample(map[string]any{"seed_templates": c19Seeds[:8], "mutations": "lazy, (?U), (?i), (?s), (?m), trailing literal, \\b before/after, capture, non-ASCII member, Latin-1 member, {0}, lazy quantifier, empty-width alternative"})
	c02GuardsTie(r) // the strategy guards that decide which fast path / engine a pattern may reach vs Cx.Guards
	replayKnownExamples(r, known, "C19")
}
