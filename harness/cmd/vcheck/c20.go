package main

import (
	"bytes"
	"fmt"
	"regexp"
	"regexp/syntax"
	"runtime"
	"strings"
	"testing"
	"time"

	"github.com/coregx/coregex"
	"github.com/coregx/coregex/dfa/lazy"
	"github.com/coregx/coregex/meta"
	"github.com/coregx/coregex/nfa"
)

func init() { checks["C20"] = checkC20 }

func checkC20(r *Report, known []Finding) {
	r.Rule = "(a) lazy DFA driven with capacities 1 B .. 2 MB and clear limits on cache-churning inputs: MemoryUsage() after every search must stay within the proved bound " +
		"capacity + 48 + 16 + 8*stride + maxStateBytes; (b) visited table length <= MaxVisitedSize after every search that passed CanHandle; (c) heap held per Regex after 1500 and " +
		"3000 searches in shuffled order (after GC) must not grow; (d) AllocsPerRun == 0 after warm-up for Match, MatchString, engine FindIndices, Count, AllIndex, AppendAllIndex into a sufficient buffer; " +
		"non-trivial = the workload creates DFA states / finds matches; distinct by (pattern, configuration)"
	root := NewRNG(r.Seed)
	np := 60
	if r.Tier == "thorough" {
		np = 600
	}
	// ---- (a) + (b)
	ta := r.Tie("lazy DFA MemoryUsage <= capacity + one state (Cx.C20.C20_cache_bound)")
	tb := r.Tie("backtracker cap(Visited) <= MaxVisitedSize, for every history of input sizes")
	for i := 0; i < np; i++ {
		rng := root.Fork(uint64(i) + 1)
		p := patternSource(rng, i, GenOpts{MaxDepth: 2})
		n, err := nfa.NewDefaultCompiler().Compile(p)
		if err != nil || n.States() > 400 {
			continue
		}
		ast, _ := syntax.Parse(p, syntax.Perl)
		var hays [][]byte
		for k := 0; k < 30; k++ {
			h := GenHaystack(rng, ast, false)
			if k%5 == 4 {
				var big []byte
				for len(big) < 2000 {
					big = append(big, GenHaystack(rng, ast, false)...)
				}
				h = big
			}
			hays = append(hays, h)
		}
		for _, capb := range []int{1, 300, 1000, 5000, 2 << 20} {
			for _, clears := range []int{0, 5, 1000} {
				cfg := lazy.DefaultConfig().WithCacheCapacity(capb).WithMaxCacheClears(clears).WithPrefilter(false)
				d, err := lazy.CompileWithConfig(n, cfg)
				if err != nil {
					continue
				}
				c := d.NewCache()
				stride := d.AlphabetLen()
				bound := capb + 48 + 16 + 8*stride + 4*n.States() + 256
				peak := 0
				for _, h := range hays {
					guard(10*time.Second, func() string { d.IsMatch(c, h); d.SearchAt(c, h, 0); return "" })
					ta.Cases++
					mu := c.MemoryUsage()
					if mu > peak {
						peak = mu
					}
					if mu > bound {
						ta.Disagreements++
						r.Violate(fmt.Sprintf("lazy DFA cache of %q: MemoryUsage()=%d exceeds capacity %d + one state (%d) after searching %d bytes (stride %d, %d NFA states)",
							p, mu, capb, bound-capb, len(h), stride, n.States()),
							map[string]any{"pattern": p, "capacity": capb, "max_clears": clears, "memory_usage": mu, "bound": bound, "haystack_hex": hexOf(h[:min(len(h), 200)])}, false)
						break
					}
				}
				r.Case(fmt.Sprintf("dfa\x00%s\x00%d\x00%d", p, capb, clears), peak > 0)
			}
		}
		bt := nfa.NewBoundedBacktrackerSmall(n)
		st := nfa.NewBacktrackerState()
		for _, h := range hays {
			if !bt.CanHandle(len(h)) {
				r.Dist["backtracker-declined"]++
				continue
			}
			guard(10*time.Second, func() string { bt.SearchAtWithState(h, 0, st); bt.IsMatchWithState(h, st); return "" })
			tb.Cases++
			// what the state HOLDS is the capacity of the table, not the length in use
			if cap(st.Visited) > bt.MaxVisitedSize() {
				tb.Disagreements++
				r.Violate(fmt.Sprintf("backtracker visited table of %q holds %d entries (len %d), limit %d", p, cap(st.Visited), len(st.Visited), bt.MaxVisitedSize()),
					map[string]any{"pattern": p, "visited_cap": cap(st.Visited), "visited_len": len(st.Visited), "limit": bt.MaxVisitedSize()}, false)
			}
		}
		// histories of growing inputs up to the largest admitted one: however the table grows (exactly, geometrically), it must stay
		// within the limit — the memory a Regex holds must not depend on the ORDER in which input sizes arrived
		if maxIn := bt.MaxInputSize(); maxIn > 8 {
			for _, hist := range [][]int{{maxIn * 3 / 5, maxIn}, {maxIn / 2, maxIn*3/4 + 1, maxIn}, {1, maxIn / 3, maxIn*2/3 + 1, maxIn - 1}} {
				st2 := nfa.NewBacktrackerState()
				for _, ln := range hist {
					if ln < 0 || !bt.CanHandle(ln) {
						continue
					}
					h := bytes.Repeat([]byte("hello_wide_world "), ln/17+1)[:ln]
					guard(20*time.Second, func() string { bt.SearchAtWithState(h, 0, st2); return "" })
					tb.Cases++
					if cap(st2.Visited) > bt.MaxVisitedSize() {
						tb.Disagreements++
						r.Violate(fmt.Sprintf("backtracker visited table of %q holds %d entries after searching inputs of lengths %v (limit %d)", p, cap(st2.Visited), hist, bt.MaxVisitedSize()),
							map[string]any{"pattern": p, "visited_cap": cap(st2.Visited), "history_lengths": hist, "limit": bt.MaxVisitedSize()}, false)
						break
					}
				}
			}
		}
	}
	// ---- (c) + (d): per-strategy templates
	templates := []string{`foo.*?bar`, `\d+`, `[a-z]+[0-9]+`, `(foo|bar|baz)qux`, `^(\d+|UUID|hex32)`, `.*\.txt$`, `\w+@\w+\.com`, `(?i)hello`, `error|warning|fatal`,
		`\d{1,3}\.\d{1,3}`, `(?m)^/.*\.php`, `.*error.*`, `^/api/.*\.json$`, `a(b|c)*d`, `[^,]+,`, `(\w+)\s(\w+)`, `x*`, `hello`, `\bfoo\b`, `.*\.(txt|log|md)`, `(\w{2,8})+`, `^\w+(-\w+)*`}
	tc := r.Tie("heap per Regex does not grow with the number of searches")
	td := r.Tie("documented zero-allocation calls allocate nothing after warm-up")
	for ti, p := range templates {
		if _, err := regexp.Compile(p); err != nil {
			continue
		}
		cx, err := coregex.Compile(p)
		if err != nil {
			continue
		}
		eng, _ := meta.Compile(p)
		strat := eng.Strategy().String()
		r.Dist["strategy:"+strat]++
		ast, _ := syntax.Parse(p, syntax.Perl)
		rng := root.Fork(uint64(ti) + 9000)
		var hays [][]byte
		for k := 0; k < 40; k++ {
			h := GenHaystack(rng, ast, true)
			if k%4 == 3 {
				var big []byte
				for len(big) < 4000 {
					big = append(big, GenHaystack(rng, ast, true)...)
					big = append(big, ' ')
				}
				h = big
			}
			hays = append(hays, h)
		}
		heapAfter := func(rounds int) uint64 {
			for i := 0; i < rounds; i++ {
				h := hays[rng.Intn(len(hays))]
				cx.Match(h)
				cx.FindIndex(h)
				cx.Count(h, -1)
			}
			runtime.GC()
			runtime.GC()
			var ms runtime.MemStats
			runtime.ReadMemStats(&ms)
			return ms.HeapAlloc
		}
		heapAfter(300) // warm-up
		h1 := heapAfter(1500)
		h2 := heapAfter(1500)
		tc.Cases++
		r.Case("heap\x00"+p, true)
		if h2 > h1+(256<<10) {
			tc.Disagreements++
			attrs := map[string]string{"strategy": strat, "kind": "heap-growth"}
			if f := matchKnown(known, "C20", attrs); f != nil {
				r.Known(f, map[string]string{"pattern": p})
			} else {
				r.Violate(fmt.Sprintf("heap held grows with searches for %q [%s]: %d bytes after 1800 searches, %d after 3300", p, strat, h1, h2),
					map[string]any{"pattern": p, "strategy": strat, "heap_1": h1, "heap_2": h2}, false)
			}
		}
		// allocations
		h := hays[3]
		small := hays[0]
		buf := make([][2]int, 0, 4096)
		smallStr := string(small)
		calls := []struct {
			name string
			f    func()
		}{
			{"Match", func() { cx.Match(h) }},
			{"MatchString", func() { cx.MatchString(smallStr) }},
			{"Engine.IsMatch", func() { eng.IsMatch(h) }},
			{"Engine.FindIndices", func() { eng.FindIndices(h) }},
			{"Count", func() { cx.Count(h, -1) }},
			{"AllIndex", func() {
				for range cx.AllIndex(h) {
				}
			}},
			{"AppendAllIndex", func() { buf = cx.AppendAllIndex(buf[:0], h, -1) }},
		}
		// the same calls on a haystack of ~100 KB: per-search tables sized by the input (visited table, slot tables) must be
		// kept by the pooled state, not re-allocated per call
		var large []byte
		for len(large) < 100000 {
			large = append(large, hays[3]...)
			large = append(large, ' ')
		}
		for _, name := range []string{"Match", "Engine.IsMatch", "Engine.FindIndices", "Count"} {
			name := name
			var f func()
			switch name {
			case "Match":
				f = func() { cx.Match(large) }
			case "Engine.IsMatch":
				f = func() { eng.IsMatch(large) }
			case "Engine.FindIndices":
				f = func() { eng.FindIndices(large) }
			default:
				f = func() { cx.Count(large, -1) }
			}
			if guard(20*time.Second, func() string { f(); return "" }) != "" {
				continue // too slow on this input: C05's subject, not measured here
			}
			calls = append(calls, struct {
				name string
				f    func()
			}{name + "(100KB)", f})
		}
		// AppendAllIndex into a caller-supplied buffer that is exactly sufficient, on a long haystack with few matches: the result
		// must live IN that buffer (no allocation, same backing array), whatever the length of the haystack suggests
		{
			long := append(bytes.Repeat([]byte{0}, 7000), hays[3]...)
			if ms := regexp.MustCompile(p).FindAllIndex(long, -1); len(ms) > 0 && len(ms) <= 48 {
				fixed := make([][2]int, 0, len(ms)+1)
				var res [][2]int
				aliased := true
				calls = append(calls, struct {
					name string
					f    func()
				}{"AppendAllIndex(exact buffer, 7KB)", func() {
					res = cx.AppendAllIndex(fixed[:0], long, -1)
					if len(res) > 0 && &res[0] != &fixed[:1][0] {
						aliased = false
					}
				}})
				defer func(p string) {
					if !aliased {
						td.Disagreements++
						r.Violate(fmt.Sprintf("AppendAllIndex on %q ignores a sufficient caller buffer (cap %d for %d matches) on a 7 KB haystack: the result is a fresh slice", p, cap(fixed), len(ms)),
							map[string]any{"pattern": p, "buffer_cap": cap(fixed), "matches": len(ms), "haystack": "7000 x 0x00 + " + fmt.Sprintf("%q", hays[3])}, false)
					}
				}(p)
			}
		}
		for _, c := range calls {
			c.f()
			c.f()
			td.Cases++
			runs := 20
			if strings.HasSuffix(c.name, "(100KB)") {
				runs = 4
			}
			allocs := testing.AllocsPerRun(runs, c.f)
			r.Case("alloc\x00"+p+"\x00"+c.name, true)
			if allocs > 0 {
				td.Disagreements++
				attrs := map[string]string{"api": strings.TrimSuffix(c.name, "(100KB)"), "strategy": strat, "kind": "allocates"}
				if f := matchKnown(known, "C20", attrs); f != nil {
					r.Known(f, map[string]string{"pattern": p, "api": c.name, "allocs": fmt.Sprint(allocs)})
					continue
				}
				r.Violate(fmt.Sprintf("%s on %q [%s] allocates %.1f objects per call after warm-up (haystack %d bytes)", c.name, p, strat, allocs, len(h)),
					map[string]any{"pattern": p, "strategy": strat, "api": c.name, "allocs_per_run": allocs, "haystack_hex": hexOf(h[:min(len(h), 300)])}, false)
			}
		}
	}
	r.Sample(map[string]any{"pattern": templates[0], "checked": "heap plateau and AllocsPerRun for 7 calls"})
	r.Sample(map[string]any{"dfa_capacity_bytes": []int{1, 300, 1000, 5000, 2 << 20}, "max_clears": []int{0, 5, 1000}})
	replayKnownExamples(r, known, "C20")
}

func init() {
	exampleReplayers["alloc"] = func(f Finding) bool {
		eng, err := meta.Compile(f.Example["pattern"])
		if err != nil {
			return true
		}
		h := []byte("xx error yy\nzz error\n" + string(make([]byte, 3000)))
		eng.FindIndices(h)
		eng.FindIndices(h)
		return testing.AllocsPerRun(20, func() { eng.FindIndices(h) }) > 0
	}
}
