package main

import (
	"bytes"
	"encoding/hex"
	"fmt"
	"regexp"
	"regexp/syntax"
	"strings"
	"time"

	"github.com/coregx/coregex/literal"
	"github.com/coregx/coregex/nfa"
)

func init() { checks["C17"] = checkC17 }

func seqHex(s *literal.Seq) (string, [][]byte) {
	if s == nil || s.Len() == 0 {
		return "none", nil
	}
	var parts []string
	var lits [][]byte
	for i := 0; i < s.Len(); i++ {
		b := s.Get(i).Bytes
		lits = append(lits, b)
		parts = append(parts, hexOf(b))
	}
	return strings.Join(parts, ","), lits
}

func propHolds(kind string, lits [][]byte, m []byte) bool {
	for _, l := range lits {
		switch kind {
		case "prefix":
			if bytes.HasPrefix(m, l) {
				return true
			}
		case "suffix":
			if bytes.HasSuffix(m, l) {
				return true
			}
		default:
			if bytes.Contains(m, l) {
				return true
			}
		}
	}
	return false
}

// limitProbePatterns: alternations INSIDE a concatenation whose branch count crosses the small limits (MaxLiterals 1, 2, 8) and in
// which a short branch is a prefix (or a suffix) of a longer one (shared by C17 and C12).
func limitProbePatterns() []string {
	var fixed []string
	for _, k := range []int{2, 3, 4, 9, 10} {
		var alts []string
		for j := 0; j < k; j++ {
			w := fmt.Sprintf("g%c%c", 'a'+j%5, 'm'+j%3)
			if j%2 == 1 {
				w = alts[j-1] + "all" // the previous short branch is a prefix of this one
			}
			alts = append(alts, w)
		}
		a := strings.Join(alts, "|")
		fixed = append(fixed, "(?:"+a+") /", "(?:"+a+")[0-9]+x", "x(?:"+a+")", `\b(?:`+a+"): ", "(?:"+a+")(?:"+a+")")
	}
	return append(fixed, `(?:get|put|getall) /`, `(?:err|warn|error): `, `(?:GET|POST|GETX) (/[a-z]+)`, `[a-z]+(?:ing|ang|ring)`, `.*(?:a\.txt|\.dat|b\.txt)`)
}

// c17BaseKind maps a case kind to the guarantee the verified checker decides for it.
func c17BaseKind(kind string) string {
	switch kind {
	case "inner-reverse":
		return "inner"
	case "prefix-lcp":
		return "prefix"
	case "suffix-lcs":
		return "suffix"
	}
	return kind
}

func checkC17(r *Report, known []Finding) {
	r.Rule = "pattern from corpus/mutation/grammar x extractor limits (MaxLiterals 1,2,8,64; MaxLiteralLen 1,2,4,64; MaxClassSize 1,3,10): the sequences returned by ExtractPrefixes/ExtractSuffixes/" +
		"ExtractInner(ForReverseSearch) are checked by the verified Lean checker (Cx.LitCheck.checkPrefix/Suffix/Inner: product of the dumped NFA with the literal automaton; `ok` is a proof for ALL " +
		"matches in ALL haystacks); a failing check yields a witness string that is validated against regexp (`^(?:p)$` matches it and no literal is a prefix/suffix/infix) before it counts; " +
		"complete literals must themselves match; non-trivial = the sequence is non-empty; distinct by (pattern, limits, kind)"
	np := 3000
	if r.Tier == "thorough" {
		np = 15000
	}
	root := NewRNG(r.Seed)
	type lcase struct {
		p, kind, cfg, req string
		lits              [][]byte
		partial           bool
	}
	var cases []lcase
	var seqOpsSeen []*literal.Seq // sequences the real extractor produced: inputs of the set-reduction tie
	cfgs := []literal.ExtractorConfig{literal.DefaultConfig()}
	for _, ml := range []int{1, 2, 8} {
		for _, mll := range []int{1, 4} {
			c := literal.DefaultConfig()
			c.MaxLiterals = ml
			c.MaxLiteralLen = mll
			c.MaxClassSize = 3
			cfgs = append(cfgs, c)
		}
	}
	// the configuration the meta engine uses (meta/compile.go: MaxLiterals from meta.Config, default 256; cross-product limit left at its default)
	metaCfg := literal.ExtractorConfig{MaxLiterals: 256, MaxLiteralLen: 64, MaxClassSize: 10}
	cfgs = append(cfgs, metaCfg)
	// fixed families aimed at the limits and at case folding: alternations whose literal count crosses MaxLiterals (64) and the
	// cross-product limit (250) inside a multi-literal branch, and case-folded literals over every ASCII letter (k and s fold to
	// U+212A and U+017F)
	var fixed []string
	for _, k := range []int{61, 63, 64, 247, 249, 250, 252} {
		var alts []string
		for j := 0; j < k; j++ {
			alts = append(alts, fmt.Sprintf("w%03d", j))
		}
		fixed = append(fixed, strings.Join(alts, "|")+"|[xyz]foo|bar", strings.Join(alts, "|")+"|q[0-4]r[5-9]|bar", "(?:"+strings.Join(alts, "|")+"|[xyz]foo)tail")
	}
	for c := 'a'; c <= 'z'; c++ {
		if c%3 == 0 || c == 'k' || c == 's' {
			fixed = append(fixed, fmt.Sprintf("(?i)%cq7", c), fmt.Sprintf(".*(?i:x%c)", c), fmt.Sprintf("(?i:a%cy)[0-9]+", c))
		}
	}
	fixed = append(fixed, `(?i)sky`, `(?i)kelvin scale`, `(?i:ask)[0-9]+`, `.*(?i:desk)`, `(?i)straße|maße`)
	// alternations INSIDE a concatenation whose branch count crosses the small limits (MaxLiterals 1, 2, 8) and in which a short
	// branch is a prefix (or a suffix) of a longer one: trimming to the first bytes and de-duplicating must not leave an "exact"
	// literal that stands for the longer branch too. These always run under every extractor configuration.
	allCfgFrom := len(fixed)
	fixed = append(fixed, limitProbePatterns()...)
	allCfgTo := len(fixed)
	tcomp := r.Tie("complete literals are themselves matches (regexp)")
	deadline := time.Now().Add(8 * time.Minute)
	for i := 0; i < np && time.Now().Before(deadline); i++ {
		rng := root.Fork(uint64(i) + 1)
		p := patternSource(rng, i, GenOpts{MaxDepth: 3})
		if i < len(fixed) {
			p = fixed[i]
		}
		ast, err := syntax.Parse(p, syntax.Perl)
		if err != nil {
			continue
		}
		var n *nfa.NFA
		if guard(10*time.Second, func() string {
			var e error
			n, e = nfa.NewDefaultCompiler().Compile(p)
			if e != nil {
				return "ERR"
			}
			return ""
		}) != "" || n == nil || n.States() > 3000 {
			continue
		}
		dump := dumpNFA(n)
		full := regexp.MustCompile(`^(?:` + p + `)$`)
		ncfg := 1
		if i%3 == 0 || (i >= allCfgFrom && i < allCfgTo) {
			ncfg = len(cfgs)
		}
		for ci := 0; ci < ncfg; ci++ {
			cfg := cfgs[ci]
			if i < len(fixed) && ci == 0 {
				cfg = metaCfg // the fixed families always run under the meta engine's limits (and under the others when i%3 == 0)
			}
			cfgName := fmt.Sprintf("MaxLiterals=%d,MaxLiteralLen=%d,MaxClassSize=%d", cfg.MaxLiterals, cfg.MaxLiteralLen, cfg.MaxClassSize)
			var pre, suf, inn *literal.Seq
			var innR *literal.InnerLiteralInfo
			if guard(10*time.Second, func() string {
				ex := literal.New(cfg)
				pre = ex.ExtractPrefixes(ast)
				suf = ex.ExtractSuffixes(ast)
				inn = ex.ExtractInner(ast)
				innR = ex.ExtractInnerForReverseSearch(ast)
				return ""
			}) != "" {
				r.Violate(fmt.Sprintf("literal extraction of %q panicked or hung", p), map[string]any{"pattern": p, "config": cfgName}, false)
				continue
			}
			add := func(kind string, s *literal.Seq) {
				if s == nil {
					return
				}
				hx, lits := seqHex(s)
				r.Case(p+"\x00"+cfgName+"\x00"+kind, len(lits) > 0)
				if len(lits) == 0 {
					r.Dist[kind+":empty"]++
					return
				}
				r.Dist[kind+":non-empty"]++
				k := c17BaseKind(kind)
				cases = append(cases, lcase{p: p, kind: kind, cfg: cfgName, req: fmt.Sprintf("litcheck %s %s %s", k, dump, hx), lits: lits, partial: s.IsPartialCoverage()})
				// set reductions keep the guarantee: the longest common prefix / suffix of the sequence (what the strategies search for:
				// meta/reverse_suffix.go, reverse_suffix_multiline.go, strategy.go) is itself a necessary prefix / suffix of every match
				if kind == "prefix" || kind == "suffix" {
					var red []byte
					rk := "prefix-lcp"
					if kind == "prefix" {
						red = s.LongestCommonPrefix()
					} else {
						red = s.LongestCommonSuffix()
						rk = "suffix-lcs"
					}
					seqOpsSeen = append(seqOpsSeen, s.Clone())
					if len(red) > 0 {
						r.Case(p+"\x00"+cfgName+"\x00"+rk, true)
						cases = append(cases, lcase{p: p, kind: rk, cfg: cfgName, req: fmt.Sprintf("litcheck %s %s %s", k, dump, hex.EncodeToString(red)), lits: [][]byte{red}, partial: s.IsPartialCoverage()})
					}
				}
				// complete literals
				for j := 0; j < s.Len(); j++ {
					l := s.Get(j)
					if f := featuresOf(ast); l.Complete && kind == "prefix" && !f.WordB && !f.LineA && !f.TextA {
						tcomp.Cases++
						if !full.Match(l.Bytes) {
							tcomp.Disagreements++
							attrs := map[string]string{"kind": "complete-not-a-match", "limits": map[bool]string{true: "default", false: "non-default"}[ci == 0]}
							for _, tg := range featuresOf(ast).Tags() {
								attrs[tg] = "true"
							}
							if f := matchKnown(known, "C17", attrs); f != nil {
								r.Known(f, map[string]string{"pattern": p, "literal_hex": hexOf(l.Bytes), "config": cfgName})
								continue
							}
							r.Violate(fmt.Sprintf("prefix literal %q of %q is marked complete but is not a match of the pattern (%s)", l.Bytes, p, cfgName),
								map[string]any{"pattern": p, "literal_hex": hexOf(l.Bytes), "config": cfgName}, false)
						}
					}
				}
			}
			add("prefix", pre)
			add("suffix", suf)
			add("inner", inn)
			if innR != nil {
				add("inner-reverse", innR.Literals)
			}
		}
	}
	var reqs []string
	for _, c := range cases {
		reqs = append(reqs, c.req)
	}
	ans, err := RunLean(reqs)
	if err != nil {
		r.Violate("Lean driver failed: "+err.Error(), map[string]any{"correspondence": "C17 verified literal checker"}, true)
		return
	}
	incon := 0
	for i, c := range cases {
		t := r.Tie("verified checker: extracted " + c.kind + " literals are necessary for every match")
		t.Cases++
		a := ans[i]
		if a == "ok" {
			r.Dist["proved-for-all-matches"]++
			continue
		}
		if c.partial {
			r.Dist["flagged-partial-coverage"]++
			continue
		}
		if !strings.HasPrefix(a, "fail:") || a == "fail:fuel" {
			incon++
			continue
		}
		w, _ := hex.DecodeString(strings.TrimPrefix(strings.TrimPrefix(a, "fail:"), "-"))
		full, err := regexp.Compile(`^(?:` + c.p + `)$`)
		k := c17BaseKind(c.kind)
		if err != nil || !full.Match(w) || propHolds(k, c.lits, w) {
			incon++ // witness only feasible when look-around is ignored: neither proved nor refuted for this instance
			continue
		}
		t.Disagreements++
		ast, _ := syntax.Parse(c.p, syntax.Perl)
		attrs := map[string]string{"kind": c.kind, "limits": map[bool]string{true: "default", false: "non-default"}[strings.HasPrefix(c.cfg, "MaxLiterals=64,MaxLiteralLen=64")]}
		for _, tg := range featuresOf(ast).Tags() {
			attrs[tg] = "true"
		}
		if len(c.lits) >= 64 {
			attrs["full"] = "true"
		}
		if f := matchKnown(known, "C17", attrs); f != nil {
			r.Known(f, map[string]string{"pattern": c.p, "kind": c.kind, "config": c.cfg, "witness_hex": hexOf(w)})
			continue
		}
		r.Violate(fmt.Sprintf("%s literals of %q (%s) are not necessary: %q matches the pattern but %s none of %q", c.kind, c.p, c.cfg, w,
			map[string]string{"prefix": "starts with", "suffix": "ends with", "inner": "contains"}[k], c.lits),
			map[string]any{"pattern": c.p, "kind": c.kind, "config": c.cfg, "witness_hex": hexOf(w), "literals": fmt.Sprintf("%q", c.lits)}, false)
	}
	r.Extra["inconclusive_look_crossing_or_fuel"] = incon
	if len(cases) > 0 {
		c := cases[0]
		r.Sample(map[string]any{"pattern": c.p, "kind": c.kind, "literals": fmt.Sprintf("%q", c.lits), "checker": ans[0]})
		c = cases[len(cases)/2]
		r.Sample(map[string]any{"pattern": c.p, "kind": c.kind, "literals": fmt.Sprintf("%q", c.lits), "checker": ans[len(cases)/2]})
	}
	c17SeqOpsTie(r, seqOpsSeen)
	replayKnownExamples(r, known, "C17")
}
