package main

import (
	"bytes"
	"fmt"
	"reflect"
	"regexp"
	"regexp/syntax"
	"sort"
	"strings"
	"sync"
	"sync/atomic"
	"time"
	"unsafe"

	"github.com/coregx/ahocorasick"
	"github.com/coregx/coregex/dfa/lazy"
	"github.com/coregx/coregex/meta"
	"github.com/coregx/coregex/nfa"
	"github.com/coregx/coregex/prefilter"
)

// c02MetaFind2Tie: the Lean model of the REMAINING strategy loops of the meta engine (Cx.MetaFind2 = the UseDigitPrefilter and
// UseTeddy functions of meta/find_indices.go, meta/ismatch.go, meta/find.go and isMatchBoundedBacktracker) is run with the flags
// of the real compiled engine (read by reflection) and with component oracles given as tables (port of
// tools/fidelity/metafind2):
//
//	digitPrefilter.Find, prefilter.Find / FindMatch / IsComplete / LiteralLen, fatTeddyFallback.Find / FindAt / IsMatch,
//	FirstByteSet.Contains, CanHandle, anchoredSuffix, digitRunSkipSafe                                    the REAL objects
//	`stop` of dfa.SearchAtAnchoredStopAt                                                                 the REAL lazy DFA
//	`end` of SearchAtAnchoredStopAt, Pike VM, IsMatchAt, FindAt, the backtrackers                        brute force from regexp
//
// One place where /repo (21d622b) has moved on from the text the model transliterates is bridged HERE: findTeddyAt called the
// ANCHORED search fatTeddyFallback.FindAt(h, at) and now calls Find(h, at); the model still reads its oracle `fatFindAt` there,
// which is therefore given the answers of the real Find(h, at).  The offsets > 0 of Fat Teddy patterns below 64 bytes
// (`25[0-5]|2[0-4][0-9]` on "x 255" at 1) are thus decided by the regexp tie; the model tie covers the guards around the call.
//
// The MODEL runs the loops (`metafind2 all.<st>`); its answers must be what the real Engine.FindIndices, FindIndicesAt at every
// start offset, IsMatch, Find and FindAt return, and those must be what regexp returns (in the context of the whole haystack, see
// c02MetaFindTie).  UseAhoCorasick is left out (its model is being revised).
//
// Variants (a separately compiled engine each): default; `longest` for UseDigitPrefilter / UseTeddy (SetLongest(true):
// searchStrategy() answers UseNFA, IsMatch keeps the strategy loop; Pike VM oracle = regexp with Longest()); `squeeze` for
// UseBoundedBacktracker (maxVisitedSize of the real backtrackers cut down to 4 x numStates, so that CanHandle fails beyond 3 bytes).
//
// LOOP LEVEL (UseDigitPrefilter, haystacks >= 5000 bytes dense in digits, sparse tables).  With correct components a wrong
// candidate loop can still give right answers at quadratic cost, so the loop is observed through Engine.Stats(): one DFASearches
// per anchored verification scan, one NFASearches per Pike VM fallback.  The instrumented model (`cost.digit`, `cost.ismatch`)
// lists the scans of its trace; their number must be the real one.  COST: the bytes read by the anchored scans plus the fallback
// searches must stay within (32+3)·(|h|−at) + 4096 — for the model's trace, and for the REAL run: the k scans Stats() counts are
// the first k candidates (digitPrefilter.Find / the digit-run skip, walked here without any budget logic) with the real stops.
//
// ENGINE CHOICE.  (a) UseBoundedBacktracker IsMatch: as in c02MetaFindTie, a backtracker ran inside the real call iff reset left
// its trace in a pooled BacktrackerState; the model is asked a second time with both backtracker answers set to "no match".
// (b) Fat Teddy: the fallback automaton ran iff Stats().AhoCorasickSearches moved; the model is asked a second time with the
// fallback's tables emptied.  On a call that finds a match the model's answer changes exactly when it consulted the component.
//
// HYPOTHESES of the C02 theorems about these loops, checked on the real components where the tables are built:
// digitPrefilter.Find = least digit position; SearchAtAnchoredStopAt: end = regexp's anchored leftmost-first end, at < stop <= len;
// Teddy FindMatch = leftmost-first reference (complete prefilters); fatTeddyFallback.Find = reference below 64 bytes.
func c02MetaFind2Tie(r *Report) { m2Run(r, false) }

// c05DigitBudgetTie: the loop-level part of c02MetaFind2Tie alone (UseDigitPrefilter on long digit-run haystacks: scans of the
// model's trace == Stats(), cost bound on the model's trace and on the real run) — the linear-work claim of C05 for this loop.
func c05DigitBudgetTie(r *Report) { m2Run(r, true) }

var m2Kinds = []meta.Strategy{meta.UseDigitPrefilter, meta.UseTeddy, meta.UseBoundedBacktracker}

var m2Tag = map[meta.Strategy]string{meta.UseDigitPrefilter: "digit", meta.UseTeddy: "teddy", meta.UseBoundedBacktracker: "bt"}

const (
	m2BudgetFactor    = 32   // candidateBudgetFactor (find_indices.go), told to the model
	m2BudgetAllowance = 4096 // candidateBudgetAllowance
	m2FatThreshold    = 64   // fatTeddySmallHaystackThreshold (find.go)
)

func m2Run(r *Report, costOnly bool) {
	name := "c02MetaFind2Tie"
	if costOnly {
		name = "c05DigitBudgetTie"
	}
	t0 := time.Now()
	defer func() { r.Extra["wall_s:"+name] = time.Since(t0).Seconds() }()
	budget, tries, nHay, nLong := 40, 1500, 14, 6
	deadline := 20 * time.Second
	fillCap := 300 * time.Millisecond
	if r.Tier == "thorough" {
		budget, tries, nHay, nLong = 160, 12000, 18, 14
		deadline = 200 * time.Second
		fillCap = 3 * time.Second
	}
	kinds := m2Kinds
	if costOnly {
		kinds = m2Kinds[:1]
	}
	root := NewRNG(r.Seed)
	dpfx := "c02meta2:"
	if costOnly {
		dpfx = "c05digit:"
	}

	// ---- candidates: shapes of every strategy (3/4 of the budget at most), then mutants; filed under the strategy they select ----
	type cand struct {
		p, base string
		k       meta.Strategy
	}
	shapes := map[meta.Strategy][]string{}
	var cands []cand
	for i, k := range kinds {
		shapes[k] = m2Shapes(k, root.Fork(0x5A17+uint64(i)), budget)
		for _, s := range shapes[k] {
			cands = append(cands, cand{s, s, k})
		}
	}
	wanted := map[meta.Strategy]bool{}
	for _, k := range kinds {
		wanted[k] = true
	}
	used := map[meta.Strategy]int{}
	seen := map[string]bool{}
	var targets []*m2Target
	full := func() bool {
		for _, k := range kinds {
			if used[k] < budget {
				return false
			}
		}
		return true
	}
	for i := 0; i < len(cands)+tries && !full(); i++ {
		if time.Since(t0) > deadline/4 {
			r.Dist[dpfx+"candidate-search-stopped-by-deadline"]++
			break
		}
		rng := root.Fork(0x4D32 + uint64(i))
		var c cand
		limit := budget
		if i < len(cands) {
			c = cands[i]
			limit = budget * 3 / 4
		} else {
			k := kinds[0]
			for _, k2 := range kinds {
				if used[k2] < used[k] {
					k = k2
				}
			}
			base := shapes[k][rng.Intn(len(shapes[k]))]
			c = cand{MutatePattern(rng, base), base, k}
		}
		if seen[c.p] {
			continue
		}
		seen[c.p] = true
		tc := time.Now()
		t, why := newM2Target(c.p, c.base)
		if t == nil {
			if why != "" {
				r.Dist[dpfx+"skipped:"+why]++
			}
			continue
		}
		if !wanted[t.k] || used[t.k] >= limit {
			if i < len(cands) && t.k != c.k {
				r.Dist[dpfx+"shape-goes-elsewhere:"+t.k.String()]++
			}
			continue
		}
		e, why, structural := newM2Engine(t, "")
		if structural {
			r.Violate("the meta engine no longer has the fields the strategy-loop model is parameterised by: "+why,
				map[string]any{"pattern": c.p, "correspondence": "Cx.MetaFind2 vs meta/find_indices.go, meta/ismatch.go, meta/find.go"}, true)
			return
		}
		if e == nil {
			r.Dist[dpfx+"skipped:"+why]++
			continue
		}
		if i >= len(cands) && time.Since(tc) > 400*time.Millisecond {
			r.Dist[dpfx+"skipped:mutant slow to compile"]++
			continue
		}
		t.vs = []*m2Engine{e}
		t.idx = len(targets)
		used[t.k]++
		targets = append(targets, t)
		r.Case("metafind2\x00"+t.k.String()+"\x00"+c.p, true)
		r.Dist[dpfx+"patterns:"+t.k.String()]++
		if i >= len(cands) {
			r.Dist[dpfx+"patterns:"+t.k.String()+":mutants"]++
		}
		for _, f := range e.features(t) {
			r.Dist[dpfx+"feature:"+m2Tag[t.k]+":"+f]++
		}
	}

	// ---- per target: variants, haystacks, oracle tables, the real answers (parallel over targets; engines are not shared) ----
	var wg sync.WaitGroup
	ch := make(chan *m2Target)
	for w := 0; w < 8; w++ {
		wg.Add(1)
		go func() {
			defer wg.Done()
			for t := range ch {
				if time.Since(t0) > deadline*3/4 {
					t.skipped = "deadline"
					continue
				}
				t.evaluate(root.Fork(0x6D32+uint64(t.idx)), nHay, nLong, costOnly, r.Tier == "thorough", fillCap, t0.Add(deadline*3/4))
			}
		}()
	}
	// long-running targets first (digit: the long haystacks)
	order := append([]*m2Target(nil), targets...)
	sort.SliceStable(order, func(i, j int) bool {
		return order[i].k == meta.UseDigitPrefilter && order[j].k != meta.UseDigitPrefilter
	})
	for _, t := range order {
		ch <- t
	}
	close(ch)
	wg.Wait()

	var cases []*m2Case
	for _, t := range targets {
		if t.structural != "" {
			r.Violate("the meta engine no longer has the fields the strategy-loop model is parameterised by: "+t.structural,
				map[string]any{"pattern": t.p, "correspondence": "Cx.MetaFind2 vs meta/find_indices.go, meta/ismatch.go, meta/find.go"}, true)
			return
		}
		if t.skipped != "" {
			r.Dist[dpfx+"target-skipped:"+t.skipped]++
		}
		for k, n := range t.dist {
			r.Dist[dpfx+k] += n
		}
		for k, s := range t.ties {
			ts := r.Tie(k)
			ts.Cases += s.Cases
			ts.Disagreements += s.Disagreements
			ts.Skipped += s.Skipped
		}
		for _, v := range t.violations {
			r.Violate(v.What, v.Replay, v.NoFail)
		}
		cases = append(cases, t.cases...)
	}

	// ---- the model ---------------------------------------------------------------------------------------------------------
	var reqs []string
	for _, c := range cases {
		c.ri = len(reqs)
		reqs = append(reqs, c.req)
		if c.reqProbe != "" {
			reqs = append(reqs, c.reqProbe)
		}
	}
	tl := time.Now()
	ans, err := RunLean(reqs)
	r.Extra["wall_s:"+name+":lean"] = time.Since(tl).Seconds()
	if err != nil || len(ans) != len(reqs) {
		r.Violate(fmt.Sprintf("Lean driver failed on the strategy-loop tie: %v", err), map[string]any{"correspondence": "Cx.MetaFind2"}, true)
		return
	}
	r.Dist[dpfx+"model requests"] += len(reqs)
	cmp := &m2Compare{r: r, dpfx: dpfx, reported: map[string]bool{}}
	for _, c := range cases {
		probe := ""
		if c.reqProbe != "" {
			probe = ans[c.ri+1]
		}
		if c.long {
			cmp.long(c, ans[c.ri])
		} else {
			cmp.short(c, ans[c.ri], probe)
		}
	}
	if cmp.maxRatio > 0 {
		r.Extra[name+":max cost/(|h|-at) of a model trace"] = cmp.maxRatio
		r.Extra[name+":max cost/(|h|-at) of a real run"] = cmp.maxRatioReal
	}
	smp := map[string]any{"strategy_loop_tie": "shapes + mutants filed under the strategy they select; variants default / longest (digit, teddy) / squeeze (bt)"}
	for _, k := range kinds {
		if len(shapes[k]) >= 4 {
			smp[m2Tag[k]] = shapes[k][:4]
		}
	}
	r.Sample(smp)
}

// ---- shapes (from the generator of tools/fidelity/metafind2) ----------------------------------------------------------------------

func m2Shuffle(rng *RNG, l []string) []string {
	l = append([]string(nil), l...)
	for i := len(l) - 1; i > 0; i-- {
		j := rng.Intn(i + 1)
		l[i], l[j] = l[j], l[i]
	}
	return l
}

func m2WordPool(rng *RNG, alpha string, n, minLen, maxLen int, noNesting bool) []string {
	seen := map[string]bool{}
	var ws []string
	for tries := 0; len(ws) < n && tries < 40*n; tries++ {
		b := make([]byte, minLen+rng.Intn(maxLen-minLen+1))
		for i := range b {
			b[i] = alpha[rng.Intn(len(alpha))]
		}
		w := string(b)
		ok := !seen[w]
		if ok && noNesting {
			for _, v := range ws {
				if strings.Contains(v, w) || strings.Contains(w, v) {
					ok = false
					break
				}
			}
		}
		if ok {
			seen[w] = true
			ws = append(ws, w)
		}
	}
	return ws
}

// m2Shapes: the candidate list of one strategy, the fixed ones first.  budget = patterns wanted (some candidates go elsewhere).
func m2Shapes(k meta.Strategy, rng *RNG, budget int) []string {
	switch k {
	case meta.UseDigitPrefilter:
		// failed anchored scans run far on the first ones (the budget matters), then special forms, then head x tail
		ps := []string{`[0-9][0-9a-f]*h|[0-9]+px`, `[0-9][a-z0-9]*X`, `\d[a-z]*X`, `[0-9][a-z0-9]*X|[0-9]+%`, `\d[a-z]*X|\d+:\d\d`, `\d+[a-c]*\d+[x-z]`, `\d(?:[a-c]|\d)*z`, `[0-9]+\.[0-9]+|[0-9]+`, `1a2b|2c`, `\d+a|\d+b`,
			`\d{3}-\d{4}`, `\d{1,3}\.\d{1,3}\.\d{1,3}\.\d{1,3}`, `(?:25[0-5]|2[0-4]\d|1?\d?\d)\.\d+`, `\d+(?:px|em|pt)`, `0x[0-9a-f]+`, `\d[a-c]\d|\d[x-z]`, `[0-4]\d*[5-9][a-c]`,
			`1[0-9][0-9]|2[0-4][0-9]`, `\d+[eE][+-]?\d+`, `(\d+)-(\d+)`, `\d+\s*(?:kb|mb|gb)`, `0[0-7]*[89]`, `1\d*2`, `(?:\d[a-c])+x`, `\d{4}-\d{2}-\d{2}`, `\d{1,2}:\d{2}`, `\d+\.\d+\.\d+`,
			`\d+(?:,\d{3})*`, `\d+(?:\.\d+)?[a-z]`, `\d+:\d+:\d+`, `\d+/\d+`}
		heads := []string{`\d`, `[0-9]`, `\d+`, `[0-9]+`, `\d{2}`, `\d{1,3}`, `\d{2,}`, `[0-5]`, `[0-5]+`, `[1-9]\d*`, `(\d+)`, `(?:\d\d)+`, `\d*\d`,
			`[0-9]?[0-9]`, `(?:1|2)`, `(?:12|3)`, `(?:\d|\d\d)`, `\d+?`, `\d*?\d`, `1?2`, `[0-9]*[0-9]`, `(\d)(\d)`, `[1-9]`, `\d{3}`, `(?:\d{2})?\d`,
			`[0-9]{1,2}`, `(?:0|1\d)`, `[13579]`, `\d\d?`}
		tails := []string{`\.\d+`, `[a-z]*X`, `[a-z0-9]*X`, `-\d{4}`, `\b`, `[a-z]+`, `(?:st|nd|rd|th)`, `\s\w+`, `:\d\d`, `x?y`, `[^0-9]`, `.`,
			`(?:\.\d+)?`, `%`, `[a-c]`, `,\d{3}`, `\w*z`, `\D+`, ` +[a-z]`, `(?:a|b)c`, `$`, `\b\w`, `[a-c]+\d`, `(?:[a-c]\d)+`, `[a-c]?\d`, `\.\d*`,
			`[a-c]{2}`, `(?:x|yz)`, `\s*,`, `[a-z]*\d[a-z]*X`, `[x-z]+[a-c]`, `[.,]\d`, `\D\d`, `(?s:.)x`, `[a-c]*?\d`, `a+b+`, ``}
		var cross []string
		for _, h := range heads {
			for _, tl := range tails {
				cross = append(cross, h+tl)
			}
		}
		cross = m2Shuffle(rng, cross)
		if budget <= 40 {
			ps = ps[:18]
		}
		if len(cross) > 3*budget {
			cross = cross[:3*budget]
		}
		return append(ps, cross...)
	case meta.UseTeddy:
		// Fat Teddy with the Aho-Corasick fallback (33..64 literals, none inside another one) first
		ps := []string{`25[0-5]|2[0-4][0-9]`, `[a-d][a-c][x-z]`, `a[a-f][a-f]`, `[a-c][a-c][a-c][a-b]`, `(?:ab|cd)[a-d][a-e]`, `x[0-9][a-d]`, `k[a-h][a-h]`, `[ab][ab][ab][ab][ab][ab]`}
		for i := 0; i < 2+budget/20; i++ {
			al := []string{"abcdefgh", "abcdefghijkl", "rdqs1bxyz"}[i%3]
			ps = append(ps, strings.Join(m2WordPool(rng, al, 33+rng.Intn(30), 3, 5, true), "|"))
		}
		fixed := []string{`foo|bar|baz`, `foo|bar`, `rdqs1b|dqs`, `(foo|bar|baz)`, `foo|foobar`, `foobar|foo`, `abc|abcd|abcde`, `abcde|abcd|abc`,
			`abc|bcd|cde`, `aaa|aab|aba`, `abcd|bcd`, `bcd|abcd`, `abab|baba`, `hello|world`, `(?:abc|abd)`, `(abc)|(abd)`, `abc|xbc`, `xyz|abcxyz`,
			`abcxyz|xyz`, `aaaa|aaa`, `aaa|aaaa`, `ab[cd]e|xyz`, `ab[cd]|[cd]ab`, `(?i)abc`, `(?i)foo|bar`, `(?m)^foo|^bar`, `(?m)^(?:foo|bar)`,
			`foo|bar|`, `mon|month`, `month|mon`, `abc|abc`, `a[bc]d|a[bc]de`, `tic|tac|toe`, `cat|dog|cow|pig|hen`,
			`[ab][cd][ef]`, `x[ab]y|y[ab]x`, `abca|bcab|cabc`, `error|warn|info|debug|trace`, `GET|POST|PUT|DELETE|PATCH`}
		fixed = m2Shuffle(rng, fixed)
		if budget <= 40 {
			fixed = fixed[:16]
		}
		ps = append(ps, fixed...)
		alphas := []string{"ab", "abc", "abcd", "ab1", "rdqs1b"}
		for i := 0; i < 2*budget; i++ {
			al := alphas[i%len(alphas)]
			var n int
			switch {
			case i%5 == 4:
				n = 33 + rng.Intn(32) // Fat Teddy, nested literals likely: no fallback
			case i%5 == 3:
				n = 9 + rng.Intn(24)
			default:
				n = 2 + rng.Intn(7)
			}
			maxLen := 5
			if n > 20 {
				maxLen = 7
			}
			if len(al) == 2 && n > 40 {
				maxLen = 8
			}
			ps = append(ps, strings.Join(m2WordPool(rng, al, n, 3, maxLen, false), "|"))
		}
		return ps
	}
	// UseBoundedBacktracker: the anchoredSuffix / anchoredFirstBytes / ASCII-backtracker families first
	ps := []string{`^/.*\.php`, `^/.*[\w-]+\.php`, `^(?:/.*\.php)$`, `^/.*[\w-]+\.php$`, `^.*\.txt`, `^.*\.txt$`, `^\w+@\w+\.com$`, `^\w+@\w+\.com`, `^\d+px$`, `^\d+px`, `^.*abc$`, `^.*abc`,
		`^a.*bc$`, `^x.*yz`}
	bodies := []string{`a+b`, `a.*b`, `[a-c]+\d`, `(a|b)+`, `\d+`, `a*`, `a*b`, `.*b`, `.+`, `(?:ab|a)c`, `\w+\s`, `a.b`, `a?b?`, `(a*)(b*)`,
		`[a-c]{2,}x`, `x[a-c]*`, `.`, `ab*c`, `(ab)+`, `(?:a|bc)d`, `a.*`, `ab.*c`, `a(?:b|c)*d`, `[^a]b`, `a+?b`, `a*?b`, `.*?b`, `(?:|a)b`, `\d{2}`,
		`[ab][ab]`, `a.?b`, `.a`, `..`, `a..b`, `/.*\.php`, `/.*[\w-]+\.php`, `a.*bc`, `.*abc`, `[a-c]*abc`, `\w+@\w+\.com`, `(\d+|ab|c)`,
		`(?:\d+|ab)x`, `.*\.txt`, `a[a-c]*bb`, `(a|b)*abb`, `x.*yz`, `[a-c]+cba`, `.+ab`, `\d+px`, `a+`, `(a+)(b+)`, `.*`}
	var gen []string
	for _, b := range bodies {
		gen = append(gen, `^`+b, `^`+b+`$`, `^(?:`+b+`)$`, `\A`+b+`\z`)
	}
	gen = append(gen, `(a|b|c)+`, `([a-c])+\d`, `([a-c])+`, `(\d)+x?`, `[a-c]+[x-z]*\d?`, `([ab])([cd])`, `(a|b)(c|d)*`, `([a-c])*x`, `([a-c]+)(\d+)`, `(\w)+`,
		`(\w)(\d)`, `([a-c]){2}`, `([a-c]){1,2}\d`, `(a|b)+?`, `([a-c])+?\d`, `([a-c])*?x`, `(\d)+?`, `[a-c]+?`, `[a-c]*?\d`, `([ab])??c`, `[a-c]+?[0-9]??`)
	gen = m2Shuffle(rng, gen)
	if len(gen) > 2*budget {
		gen = gen[:2*budget]
	}
	return append(ps, gen...)
}

// ---- targets and engines ------------------------------------------------------------------------------------------------------

// the fields of meta.Engine the tie reads on top of mfEngineFields (a missing or retyped one is a structural change)
var m2EngineFields = map[string]reflect.Kind{"digitPrefilter": reflect.Pointer, "digitRunSkipSafe": reflect.Bool, "ahoCorasick": reflect.Pointer,
	"fatTeddyFallback": reflect.Pointer, "anchoredSuffix": reflect.Slice}

var (
	m2DigitPtrType = reflect.TypeOf((*prefilter.DigitPrefilter)(nil))
	m2DFAPtrType   = reflect.TypeOf((*lazy.DFA)(nil))
	m2AhoPtrType   = reflect.TypeOf((*ahocorasick.Automaton)(nil))
)

type m2Engine struct {
	variant  string // "" | longest | squeeze
	eng      *meta.Engine
	flags    string
	pf       prefilter.Prefilter
	fm       mfFindMatcher
	litLen   int
	dp       *prefilter.DigitPrefilter
	dfa      *lazy.DFA
	cache    *lazy.DFACache
	fat      *ahocorasick.Automaton
	bt, abt  *nfa.BoundedBacktracker
	fbHex    string
	suffix   []byte
	longest  bool
	skip     bool
	anchored bool
	// the pooled backtracker states a search of this engine can run on (engine-choice probe, see mfEngine)
	engState *atomic.Pointer[meta.SearchState]
	btPools  []*atomic.Pointer[nfa.BacktrackerState]
}

func (e *m2Engine) name() string {
	if e.variant == "" {
		return "default"
	}
	return e.variant
}

func (e *m2Engine) btRan(call func()) bool {
	p := &mfEngine{engState: e.engState, btPools: e.btPools}
	return p.btRan(call)
}

func (e *m2Engine) features(t *m2Target) []string {
	var fs []string
	mark := func(c bool, s string) {
		if c {
			fs = append(fs, s)
		}
	}
	mark(e.pf != nil, "prefilter")
	mark(e.fm != nil, "prefilter with FindMatch")
	mark(e.pf != nil && e.litLen > 0, "literalLen > 0")
	mark(e.pf != nil && !e.pf.IsComplete(), "prefilter incomplete")
	mark(e.dfa != nil, "dfa")
	mark(e.abt != nil, "ascii backtracker")
	mark(e.fbHex != "*", "anchoredFirstBytes")
	mark(len(e.suffix) > 0, "anchoredSuffix")
	mark(e.anchored, "alwaysAnchored")
	mark(e.skip, "digitRunSkipSafe")
	mark(e.fat != nil, "fatTeddyFallback")
	mark(t.hasLook, "look-around")
	return fs
}

type m2Target struct {
	idx        int
	k          meta.Strategy
	p, base    string
	ast        *syntax.Regexp
	std, stdL  *regexp.Regexp
	ctx, ctxL  *mfCtx
	hasLook    bool
	vs         []*m2Engine
	cases      []*m2Case
	dist       map[string]int
	ties       map[string]*TieStat
	violations []Violation
	vseen      map[string]bool
	structural string
	skipped    string
	eng0       *meta.Engine
}

func (t *m2Target) tie(name string) *TieStat {
	s := t.ties[name]
	if s == nil {
		s = &TieStat{}
		t.ties[name] = s
	}
	return s
}

func (t *m2Target) violate(key, what string, replay map[string]any, noFail bool) {
	if t.vseen[key] {
		return
	}
	t.vseen[key] = true
	t.violations = append(t.violations, Violation{What: what, Replay: replay, NoFail: noFail})
}

// m2Case: one request to the model with the real answers it is compared with
type m2Case struct {
	t        *m2Target
	e        *m2Engine
	h        []byte
	desc     string // long haystacks: how it was made
	long     bool
	fn       string // all.<st> | cost.digit | cost.ismatch | findat.digit | ismatch.digit
	at       int
	req      string
	reqProbe string
	ri       int
	ref      []string // regexp in the mode of the engine, per start offset (long: only the offsets asked)
	refIs    bool
	// short
	realFI, realFind string
	realAt, realFA   []string
	realIs           bool
	ranIs            bool // bt: a backtracker ran inside IsMatch
	fatFind, fatIs   bool // Fat Teddy: Stats().AhoCorasickSearches moved
	fatFA            []bool
	// long
	realAns             string // FindIndices (at = 0) / FindIndicesAt / IsMatch
	realAns2            string // at = 0: FindIndicesAt(h, 0)
	scans, nfaS         uint64
	scans2, nfaS2       uint64
	realCost, realCost2 int
	walkOK              bool
}

func newM2Target(p, base string) (*m2Target, string) {
	std, err := regexp.Compile(p)
	if err != nil {
		return nil, ""
	}
	ast, err := syntax.Parse(p, syntax.Perl)
	if err != nil {
		return nil, ""
	}
	var eng *meta.Engine
	if res := guard(stratTimeout, func() string {
		var e error
		eng, e = meta.Compile(p)
		if e != nil {
			return "ERR"
		}
		return ""
	}); res != "" || eng == nil {
		if res == "TIMEOUT" || strings.HasPrefix(res, "PANIC") {
			return nil, "meta.Compile " + strings.SplitN(res, ":", 2)[0]
		}
		return nil, ""
	}
	k := eng.Strategy()
	if _, ok := m2Tag[k]; !ok {
		return nil, ""
	}
	stdL := regexp.MustCompile(p)
	stdL.Longest()
	return &m2Target{k: k, p: p, base: base, ast: ast, std: std, stdL: stdL, ctx: &mfCtx{p: p, re: map[int]*regexp.Regexp{}},
		ctxL: &mfCtx{p: p, longest: true, re: map[int]*regexp.Regexp{}}, dist: map[string]int{}, ties: map[string]*TieStat{}, vseen: map[string]bool{}, eng0: eng}, ""
}

// newM2Engine compiles the pattern anew and reads the engine; (nil, why, false) = not usable; (nil, why, true) = the structs changed
func newM2Engine(t *m2Target, variant string) (*m2Engine, string, bool) {
	eng := t.eng0
	t.eng0 = nil
	if eng == nil && (guard(stratTimeout, func() string {
		var e error
		eng, e = meta.Compile(t.p)
		if e != nil {
			return "ERR"
		}
		return ""
	}) != "" || eng == nil) {
		return nil, "meta.Compile failed the second time", false
	}
	if eng.Strategy() != t.k {
		return nil, "strategy not stable across compilations", false
	}
	ev := reflect.ValueOf(eng).Elem()
	var names []string
	kinds := map[string]reflect.Kind{}
	for n, kd := range mfEngineFields {
		names, kinds[n] = append(names, n), kd
	}
	for n, kd := range m2EngineFields {
		names, kinds[n] = append(names, n), kd
	}
	sort.Strings(names)
	for _, n := range names {
		if f := ev.FieldByName(n); !f.IsValid() || f.Kind() != kinds[n] {
			return nil, "meta.Engine." + n, true
		}
	}
	if ev.FieldByName("prefilter").Type() != mfPrefilterT || ev.FieldByName("nfa").Type() != nfaPtrType || ev.FieldByName("boundedBacktracker").Type() != mfBTPtrType ||
		ev.FieldByName("asciiBoundedBacktracker").Type() != mfBTPtrType || ev.FieldByName("anchoredFirstBytes").Type() != mfFBPtrType ||
		ev.FieldByName("digitPrefilter").Type() != m2DigitPtrType || ev.FieldByName("dfa").Type() != m2DFAPtrType ||
		ev.FieldByName("fatTeddyFallback").Type() != m2AhoPtrType || ev.FieldByName("ahoCorasick").Type() != m2AhoPtrType ||
		ev.FieldByName("anchoredSuffix").Type().Elem().Kind() != reflect.Uint8 {
		return nil, "meta.Engine: type of prefilter / nfa / backtrackers / anchoredFirstBytes / digitPrefilter / dfa / fatTeddyFallback / ahoCorasick / anchoredSuffix", true
	}
	if f := ev.FieldByName("localState"); !f.IsValid() || f.Type() != reflect.TypeOf((*atomic.Pointer[meta.SearchState])(nil)).Elem() {
		return nil, "meta.Engine.localState atomic.Pointer[SearchState]", true
	}
	if f, ok := reflect.TypeOf((*meta.SearchState)(nil)).Elem().FieldByName("backtracker"); !ok || f.Type != reflect.TypeOf((*nfa.BacktrackerState)(nil)) {
		return nil, "meta.SearchState.backtracker *nfa.BacktrackerState", true
	}
	ptr := func(name string) unsafe.Pointer {
		if f := ev.FieldByName(name); !f.IsNil() {
			return unsafe.Pointer(f.Pointer())
		}
		return nil
	}
	e := &m2Engine{variant: variant, eng: eng, fbHex: "*"}
	if pff := ev.FieldByName("prefilter"); !pff.IsNil() {
		e.pf = *(*prefilter.Prefilter)(unsafe.Pointer(pff.UnsafeAddr()))
		e.fm, _ = e.pf.(mfFindMatcher)
		e.litLen = e.pf.LiteralLen()
	}
	e.bt = (*nfa.BoundedBacktracker)(ptr("boundedBacktracker"))
	e.abt = (*nfa.BoundedBacktracker)(ptr("asciiBoundedBacktracker"))
	e.dp = (*prefilter.DigitPrefilter)(ptr("digitPrefilter"))
	e.fat = (*ahocorasick.Automaton)(ptr("fatTeddyFallback"))
	if q := ptr("dfa"); q != nil {
		e.dfa = (*lazy.DFA)(q)
		e.cache = e.dfa.NewCache()
	}
	nf := (*nfa.NFA)(ptr("nfa"))
	if nf == nil {
		return nil, "meta.Engine.nfa is nil", true
	}
	if t.vs == nil {
		t.hasLook = len(lookKinds(nf)) > 0
	}
	if q := ptr("anchoredFirstBytes"); q != nil {
		fb := (*nfa.FirstByteSet)(q)
		var bs []byte
		for c := 0; c < 256; c++ {
			if fb.Contains(byte(c)) {
				bs = append(bs, byte(c))
			}
		}
		e.fbHex = hexOf(bs)
	}
	e.suffix = append([]byte(nil), ev.FieldByName("anchoredSuffix").Bytes()...)
	e.skip = ev.FieldByName("digitRunSkipSafe").Bool()
	for _, b := range []*nfa.BoundedBacktracker{e.bt, e.abt} {
		if b == nil {
			continue
		}
		bv := reflect.ValueOf(b).Elem()
		for n, kd := range map[string]reflect.Kind{"numStates": reflect.Int, "maxVisitedSize": reflect.Int} {
			if f := bv.FieldByName(n); !f.IsValid() || f.Kind() != kd {
				return nil, "nfa.BoundedBacktracker." + n, true
			}
		}
		f := bv.FieldByName("localState")
		if !f.IsValid() || f.Type() != reflect.TypeOf((*atomic.Pointer[nfa.BacktrackerState])(nil)).Elem() {
			return nil, "nfa.BoundedBacktracker.localState atomic.Pointer[BacktrackerState]", true
		}
		e.btPools = append(e.btPools, (*atomic.Pointer[nfa.BacktrackerState])(unsafe.Pointer(f.UnsafeAddr())))
	}
	e.engState = (*atomic.Pointer[meta.SearchState])(unsafe.Pointer(ev.FieldByName("localState").UnsafeAddr()))
	if variant == "squeeze" {
		if e.bt == nil {
			return nil, "squeeze: no backtracker", false
		}
		for _, b := range []*nfa.BoundedBacktracker{e.bt, e.abt} {
			if b != nil {
				bv := reflect.ValueOf(b).Elem()
				*(*int)(unsafe.Pointer(bv.FieldByName("maxVisitedSize").UnsafeAddr())) = 4 * int(bv.FieldByName("numStates").Int())
			}
		}
	}
	if variant == "longest" {
		eng.SetLongest(true)
	}
	e.longest = ev.FieldByName("longest").Bool()
	if e.longest != (variant == "longest") {
		return nil, "meta.Engine.longest does not follow SetLongest", true
	}
	e.anchored = nf.IsAlwaysAnchored()
	// LPCMVDENAFYGSHT
	e.flags = b01(e.longest) + b01(e.pf != nil) + b01(e.pf != nil && e.pf.IsComplete()) + b01(e.fm != nil) + b01(ev.FieldByName("prefilterPartialCoverage").Bool()) +
		b01(e.dfa != nil) + b01(ev.FieldByName("canMatchEmpty").Bool()) + b01(e.bt != nil) + b01(e.abt != nil) + b01(e.fbHex != "*") + b01(e.anchored) +
		b01(e.dp != nil) + b01(e.skip) + b01(ptr("ahoCorasick") != nil) + b01(e.fat != nil)
	eng.IsMatch(nil) // warm-up: the engine's one-slot state cache is filled by the first search
	return e, "", false
}

// ---- references and tables ------------------------------------------------------------------------------------------------------

var m2None = [2]int{-1, -1}

// m2Sparse: run-length encoding of a table: `lo-hi=v,…` (entries equal to dflt are dropped)
func m2Sparse(vals []string, dflt string) string {
	var items []string
	for i := 0; i < len(vals); {
		j := i
		for j+1 < len(vals) && vals[j+1] == vals[i] {
			j++
		}
		if vals[i] != dflt {
			if j == i {
				items = append(items, fmt.Sprintf("%d=%s", i, vals[i]))
			} else {
				items = append(items, fmt.Sprintf("%d-%d=%s", i, j, vals[i]))
			}
		}
		i = j + 1
	}
	if len(items) == 0 {
		return "-"
	}
	return strings.Join(items, ",")
}

// m2Fill: the span from every offset of a LOOK-FREE pattern (h[a:] is then the context), one regexp search per distinct match:
// the answer from `a` is the answer from every offset up to its start.  firstOnly: the offsets up to the first match only.
func m2Fill(re *regexp.Regexp, h []byte, firstOnly bool, limit time.Duration) ([][2]int, bool) {
	n := len(h)
	out := make([][2]int, n+1)
	for i := range out {
		out[i] = m2None
	}
	t0 := time.Now()
	for a := 0; a <= n; {
		loc := re.FindIndex(h[a:])
		if loc == nil {
			break
		}
		s, e := loc[0]+a, loc[1]+a
		for b := a; b <= s; b++ {
			out[b] = [2]int{s, e}
		}
		a = s + 1
		if firstOnly {
			break
		}
		if time.Since(t0) > limit {
			return nil, false
		}
	}
	return out, true
}

// refs: leftmost-first and leftmost-longest spans from every offset, in the context of the whole haystack
func (t *m2Target) refs(h []byte, wantLong bool) (first, long [][2]int, ok bool) {
	if isASCIIBytes(h) && len(h) <= 48 {
		anchF, ok := t.ctx.anchTable(h)
		if !ok {
			return nil, nil, false
		}
		first = mfSpans(anchF)
		if wantLong {
			anchL, ok := t.ctxL.anchTable(h)
			if !ok {
				return nil, nil, false
			}
			long = mfSpans(anchL)
		}
	} else {
		if t.hasLook {
			return nil, nil, false
		}
		if first, ok = m2Fill(t.std, h, false, 2*time.Second); !ok {
			return nil, nil, false
		}
		if wantLong {
			if long, ok = m2Fill(t.stdL, h, false, 2*time.Second); !ok {
				return nil, nil, false
			}
		}
	}
	if mfSpanStr(first[0], "none") != stratSpan(t.std.FindIndex(h)) || (wantLong && mfSpanStr(long[0], "none") != stratSpan(t.stdL.FindIndex(h))) {
		t.violate("harness-ref", fmt.Sprintf("harness: the in-context reference disagrees with regexp.FindIndex at offset 0 for %q on %q", t.p, m2Clip(h)),
			map[string]any{"pattern": t.p, "haystack_hex": hexOf(h)}, true)
		return nil, nil, false
	}
	return first, long, true
}

func m2Clip(h []byte) string {
	if len(h) > 80 {
		return fmt.Sprintf("%s…(%d bytes)", h[:60], len(h))
	}
	return string(h)
}

func m2NaiveDigit(h []byte, a int) int {
	for i := a; i < len(h); i++ {
		if h[i] >= '0' && h[i] <= '9' {
			return i
		}
	}
	return -1
}

// token positions of a `metafind2` request
const (
	m2kFn    = 1
	m2kAt    = 4
	m2kFat   = 15
	m2kFatAt = 16
	m2kBools = 17
)

// tokens: the tables of one (engine, haystack) — port of tools/fidelity/metafind2 (*m2Target).request; the component contracts
// are checked where the real components are asked.  stops[d] = `stop` of the real SearchAtAnchoredStopAt at digit position d.
func (e *m2Engine) tokens(t *m2Target, h []byte, first, refs [][2]int) (toks []string, stops []int, ok bool) {
	n := len(h)
	ks := t.k.String()
	replay := func(extra map[string]any) map[string]any {
		m := map[string]any{"pattern": t.p, "haystack_hex": hexOf(h), "strategy": ks, "variant": e.name(), "flags": e.flags}
		for k, v := range extra {
			m[k] = v
		}
		return m
	}
	col := func() []string { return make([]string, n+1) }
	pikeV, imV, findV := col(), col(), col()
	for a := 0; a <= n; a++ {
		pikeV[a] = mfSpanStr(refs[a], "x")
		imV[a], findV[a] = "0", "x"
		if first[a][0] >= 0 {
			imV[a], findV[a] = "1", fmt.Sprint(first[a][1])
		}
	}
	dig, anch := "-", "-"
	stops = make([]int, n+1)
	if e.dp != nil {
		tDig := t.tie("hypothesis of the digit-loop theorems: digitPrefilter.Find(h, a) is the least digit position >= a")
		dv := col()
		for a := 0; a <= n; a++ {
			p := e.dp.Find(h, a)
			tDig.Cases++
			if p != m2NaiveDigit(h, a) {
				tDig.Disagreements++
				t.violate("dig", fmt.Sprintf("digitPrefilter.Find(%q, %d) = %d, the least digit position is %d (pattern %q)", m2Clip(h), a, p, m2NaiveDigit(h, a), t.p),
					replay(map[string]any{"at": a, "component": "prefilter.DigitPrefilter.Find"}), true)
			}
			dv[a] = "x"
			if p >= 0 {
				dv[a] = fmt.Sprint(p)
			}
		}
		dig = m2Sparse(dv, "x")
		if n >= 2048 && tDig.Disagreements == 0 {
			dig = "=" // the table IS the model's memchrDigit (just checked entry by entry): spare the driver 5000 entries
		}
		if e.dfa != nil {
			tEnd := t.tie("hypothesis of the digit-loop theorems: dfa.SearchAtAnchoredStopAt(h, d) ends where regexp's leftmost-first match starting exactly at d ends")
			tStop := t.tie("hypothesis of the digit-loop cost theorem: d < stop <= len(h) for dfa.SearchAtAnchoredStopAt(h, d)")
			av := col()
			for a := 0; a <= n; a++ {
				av[a] = "x"
				if a < n && h[a] >= '0' && h[a] <= '9' {
					want := -1
					if first[a][0] == a {
						want = first[a][1]
					}
					end, stop := e.dfa.SearchAtAnchoredStopAt(e.cache, h, a)
					stops[a] = stop
					tEnd.Cases++
					if end != want {
						tEnd.Disagreements++
						t.violate("anch", fmt.Sprintf("%s [%s]: dfa.SearchAtAnchoredStopAt of %q on %q at %d: end=%d, regexp's anchored leftmost-first end is %d", ks, e.name(), t.p, m2Clip(h), a, end, want),
							replay(map[string]any{"at": a, "component": "lazy.DFA.SearchAtAnchoredStopAt", "end": end, "regexp": want}), true)
					}
					tStop.Cases++
					if stop <= a || stop > n {
						tStop.Disagreements++
						t.violate("stop", fmt.Sprintf("%s [%s]: dfa.SearchAtAnchoredStopAt of %q on %q at %d: stop=%d outside (at, len]", ks, e.name(), t.p, m2Clip(h), a, stop),
							replay(map[string]any{"at": a, "component": "lazy.DFA.SearchAtAnchoredStopAt", "stop": stop}), true)
					}
					if want >= 0 {
						av[a] = fmt.Sprintf("%d:%d", want, stop)
					} else {
						av[a] = fmt.Sprintf("x:%d", stop)
					}
				}
			}
			anch = m2Sparse(av, "x")
		}
	}
	pf, pfm := "-", "-"
	if e.pf != nil {
		ps, ms := col(), col()
		var tPfm *TieStat
		if e.fm != nil && t.k == meta.UseTeddy && !e.longest {
			tPfm = t.tie("hypothesis of the Teddy theorems (PfMatchOK): prefilter.FindMatch(h, a) is the leftmost-first match from a")
		}
		for a := 0; a <= n; a++ {
			ps[a], ms[a] = "x", "x"
			if p := e.pf.Find(h, a); p >= 0 {
				ps[a] = fmt.Sprint(p)
			}
			if e.fm != nil {
				if s, en := e.fm.FindMatch(h, a); s >= 0 {
					ms[a] = fmt.Sprintf("%d.%d", s, en)
				}
				if tPfm != nil {
					tPfm.Cases++
					if ms[a] != mfSpanStr(first[a], "x") {
						tPfm.Disagreements++
						t.violate("pfm", fmt.Sprintf("%s: prefilter.FindMatch of %.120q on %q at %d: %s, regexp %s", ks, t.p, m2Clip(h), a, ms[a], mfSpanStr(first[a], "x")),
							replay(map[string]any{"at": a, "component": "prefilter FindMatch", "coregex": ms[a], "regexp": mfSpanStr(first[a], "x")}), true)
					}
				}
			}
		}
		pf = m2Sparse(ps, "x")
		if e.fm != nil {
			pfm = m2Sparse(ms, "x")
		}
	}
	fat, fatat := "-", "-"
	bools := []byte("00000")
	if first[0][0] >= 0 {
		bools[0], bools[1], bools[2] = '1', '1', '1'
	}
	if e.fat != nil {
		// BRIDGE: the model's findTeddyAt still reads the oracle `fatFindAt` (the fallback's ANCHORED search, as the code did before
		// 21d622b); the code now calls fatTeddyFallback.Find(h, at) there, so the `fatat` table is given the answers of Find.
		vs := col()
		var tFat *TieStat
		if !e.longest && n < m2FatThreshold {
			tFat = t.tie("hypothesis of the Fat Teddy theorems: fatTeddyFallback.Find(h, a) is the leftmost-first match from a (haystacks < 64 bytes)")
		}
		for a := 0; a <= n; a++ {
			vs[a] = "x"
			if m, f := e.fat.Find(h, a); f {
				vs[a] = fmt.Sprintf("%d.%d", m.Start, m.End)
			}
			if tFat != nil {
				tFat.Cases++
				if vs[a] != mfSpanStr(first[a], "x") {
					tFat.Disagreements++
					t.violate("fat", fmt.Sprintf("%s: fatTeddyFallback.Find of %.120q on %q at %d: %s, regexp %s", ks, t.p, m2Clip(h), a, vs[a], mfSpanStr(first[a], "x")),
						replay(map[string]any{"at": a, "component": "fatTeddyFallback.Find", "coregex": vs[a], "regexp": mfSpanStr(first[a], "x")}), true)
				}
			}
		}
		fat = m2Sparse(vs, "x")
		fatat = fat
		if e.fat.IsMatch(h) {
			bools[4] = '1'
		}
	}
	// CanHandle(k) = k <= limit, read off the real object for every k that can occur
	limit := func(b *nfa.BoundedBacktracker) (int, bool) {
		if b == nil {
			return 0, true
		}
		lim, closed := -1, false
		for k := 0; k <= n; k++ {
			if b.CanHandle(k) {
				if closed {
					return 0, false
				}
				lim = k
			} else {
				closed = true
			}
		}
		if !closed {
			return n + 1<<20, true
		}
		return lim, lim >= 0
	}
	btLimit, ok1 := limit(e.bt)
	aLimit, ok2 := limit(e.abt)
	if !ok1 || !ok2 {
		return nil, nil, false
	}
	nums := fmt.Sprintf("%d,%d,%d,%d,%d,%d", e.litLen, btLimit, aLimit, m2BudgetFactor, m2BudgetAllowance, m2FatThreshold)
	im, find := "=", "=" // derived by the driver: "pike is some" (true in both modes), "the end of pike" (leftmost-first mode only)
	if n < 2048 {
		im = m2Sparse(imV, "0")
	}
	if n < 2048 || e.longest {
		find = m2Sparse(findV, "x")
	}
	toks = []string{"metafind2", "all." + m2Tag[t.k], e.flags, nums, "*", hexOf(h), hexOf(e.suffix), m2Sparse(pikeV, "x"), im, find,
		dig, anch, pf, pfm, "-", fat, fatat, string(bools), e.fbHex}
	return toks, stops, true
}

// ---- haystacks ------------------------------------------------------------------------------------------------------------------

// words of an alternation of plain literals
func m2LitWords(p string) []string {
	p = strings.TrimSuffix(strings.TrimPrefix(p, "("), ")")
	var ws []string
	for _, w := range strings.Split(p, "|") {
		ok := w != ""
		for i := 0; i < len(w); i++ {
			if !(w[i] >= 'a' && w[i] <= 'z' || w[i] >= '0' && w[i] <= '9' || w[i] >= 'A' && w[i] <= 'Z') {
				ok = false
			}
		}
		if ok {
			ws = append(ws, w)
		}
	}
	return ws
}

var m2NonASCIIRisk = regexp.MustCompile(`\[\^|\\[DSWPp]|\(\?i|[^\x00-\x7f]`)

// m2Haystacks: about nHay short haystacks: those of the core-dispatch tie (empty, sampled matches with fillers, a match cut short
// followed by a whole one, the prefilter's literal alone / doubled, pattern-derived random ones), then the strategy's own:
//
//	digit   digits with separators; candidates that are rejected in front of a match
//	teddy   the words alone, cut, overlapped, concatenated; "x " + match (offsets > 0); Fat Teddy: 63 / 64 bytes and beyond (the
//	        fallback threshold), a match at the very end
//	bt      a match followed by more text (anchoredSuffix on patterns that are not end-anchored), inputs beyond 3 bytes (squeeze),
//	        valid non-ASCII text when the pattern has no class that could split a rune (known findings elsewhere)
func m2Haystacks(rng *RNG, t *m2Target, nHay int) [][]byte {
	e0 := t.vs[0]
	own := 5
	shim := &mfTarget{ast: t.ast, std: t.std, vs: []*mfEngine{{pf: e0.pf}}}
	hs := mfHaystacks(rng, shim, 2, nHay-own)
	seen := map[string]bool{}
	for _, h := range hs {
		seen[string(h)] = true
	}
	capLen := 48
	room := nHay
	add := func(parts ...[]byte) {
		h := bytes.Join(parts, nil)
		if len(h) > capLen || seen[string(h)] || len(hs) >= room {
			return
		}
		seen[string(h)] = true
		hs = append(hs, h)
	}
	sample := func() []byte {
		var m []byte
		for i := 0; i < 6; i++ {
			b := 60
			x := stratASCII(sampleMatch(rng, t.ast, nil, &b))
			if m == nil || (t.std.Match(x) && (!t.std.Match(m) || len(x) < len(m))) {
				m = x
			}
		}
		if len(m) > 24 {
			m = m[:24]
		}
		return m
	}
	m, m2 := sample(), sample()
	switch t.k {
	case meta.UseDigitPrefilter:
		seps := []byte{' '}
		for _, c := range []byte("aXx.-:,%zbch") {
			if strings.IndexByte(t.p, c) >= 0 && len(seps) < 5 {
				seps = append(seps, c)
			}
		}
		run := func(n int) []byte {
			w := make([]byte, n)
			for i := range w {
				if rng.Intn(5) == 0 {
					w[i] = seps[rng.Intn(len(seps))]
				} else {
					w[i] = byte('0' + rng.Intn(10))
				}
			}
			return w
		}
		add([]byte("120937"), seps[len(seps)-1:], m)
		add(run(8 + rng.Intn(12)))
		add([]byte("12"), m, []byte("7"))
		add(run(6), m2)
		add([]byte("9 "), m, []byte(" 0"))
		add(run(14 + rng.Intn(10)))
	case meta.UseTeddy:
		add([]byte("x "), m) // offsets > 0: `25[0-5]|2[0-4][0-9]` on "x 255" at 1
		if ws := m2LitWords(t.p); len(ws) > 0 {
			a, b := ws[rng.Intn(len(ws))], ws[rng.Intn(len(ws))]
			add([]byte(a[:len(a)-1] + b))
			add([]byte(a[1:] + a))
			add([]byte(a + b))
			add([]byte(a[:1+rng.Intn(len(a))] + b + "#" + a))
			add([]byte("#" + b))
		} else {
			add(m[:len(m)/2], m2)
			add(m, m2, m)
		}
		add(m2, []byte(" "), m)
		if e0.fat != nil {
			capLen, room = 100, nHay+4
			pad := func(k int) []byte {
				if k < 0 {
					k = 0
				}
				return bytes.Repeat([]byte("#"), k)
			}
			add(pad(63-len(m)), m)   // 63 bytes: the fallback, match at the very end
			add(pad(64-len(m2)), m2) // 64 bytes: Fat Teddy itself
			add(pad(40), m[:len(m)/2], pad(30), m, []byte(" "), m2)
			w := make([]byte, 70+rng.Intn(20))
			al := append([]byte(nil), m...)
			al = append(append(al, m2...), '#')
			for i := range w {
				w[i] = al[rng.Intn(len(al))]
			}
			add(w)
		}
	default:
		add(m, []byte("/x"))
		add(m, m2)
		add([]byte("x"), m)
		add(m, []byte("\n"))
		if !m2NonASCIIRisk.MatchString(t.p) {
			add(m, []byte("é"))
			add([]byte("é"), m)
			add([]byte("aéb"))
		}
		add(m2, m, m2)
	}
	return hs
}

type m2Hay struct {
	h    []byte
	desc string
}

// m2LongHays: haystacks of >= 5000 bytes dense in digits (thorough: also four boundary ones of 2081..4097 bytes) on which failed
// anchored scans can run far.  The prefix of letters gives single scans an allowance (32 x progress) the SUM of the scans must
// still respect; "0" + letters + a match of another alternative puts a match inside the window of the scan that exhausts the budget.
func m2LongHays(rng *RNG, t *m2Target, nLong int, thorough bool) []m2Hay {
	mk := func(n int, f func(i int) byte) []byte {
		w := make([]byte, n)
		for i := range w {
			w[i] = f(i)
		}
		return w
	}
	b := 60
	m := stratASCII(sampleMatch(rng, t.ast, nil, &b))
	for i := 0; i < 6 && !t.std.Match(m); i++ {
		b = 60
		m = stratASCII(sampleMatch(rng, t.ast, nil, &b))
	}
	cat := func(parts ...string) []byte { return []byte(strings.Join(parts, "")) }
	n := 5000 + rng.Intn(400)
	base := mk(7000, func(i int) byte {
		if i%3 == 0 {
			return byte('0' + i%10)
		}
		return byte('a' + i%26)
	})
	hs := []m2Hay{
		{mk(5000, func(i int) byte { return byte('0' + i%10) }), "5000 digits"},
		{cat(strings.Repeat("a", 5000/16), strings.Repeat("7", 5000)), `"a"^312 "7"^5000`},
		{cat("0", strings.Repeat("a", 5000), "12px"), `"0" "a"^5000 "12px"`},
		{cat(strings.Repeat("a", n/16), strings.Repeat("7", n), string(m)), fmt.Sprintf(`"a"^%d "7"^%d + a sampled match`, n/16, n)},
		{cat("0", strings.Repeat("a", n), string(m)), fmt.Sprintf(`"0" "a"^%d + a sampled match`, n)},
		{cat(string(base), ".5 12:30 1-2345 7z"), "7000 digits/letters + \".5 12:30 1-2345 7z\""},
		{mk(6000, func(i int) byte {
			if i%97 == 96 {
				return 'a'
			}
			return byte('1' + i%9)
		}), "6000 digits, an 'a' every 97"},
		{mk(5200, func(i int) byte {
			if rng.Intn(6) == 0 {
				return "ab.-:x "[rng.Intn(7)]
			}
			return byte('0' + rng.Intn(10))
		}), "5200 random digits with separators"},
		{base, "7000 digits/letters"},
		{cat(string(base), "X"), "7000 digits/letters + X"},
	}
	// boundary haystacks: when every failed scan reads to the end, the budget test is met with equality / missed by one
	for _, k := range []int{4096, 4097, 2081, 2082} {
		hs = append(hs, m2Hay{mk(k, func(i int) byte {
			if i == 1 {
				return 'a'
			}
			return byte('0' + i%10)
		}), fmt.Sprintf("%d digits, 'a' at 1 (budget boundary)", k)})
	}
	if len(hs) > nLong {
		hs = hs[:nLong]
	}
	return hs
}

// ---- evaluation: requests and the real answers ------------------------------------------------------------------------------------

func m2MatchStr(m *meta.Match) string {
	if m == nil {
		return "none"
	}
	return fmt.Sprintf("%d.%d", m.Start(), m.End())
}

func (t *m2Target) evaluate(rng *RNG, nHay, nLong int, costOnly, thorough bool, fillCap time.Duration, stopAt time.Time) {
	defer func() {
		if p := recover(); p != nil {
			t.violate("panic", fmt.Sprintf("%s: panic while evaluating %q: %v", t.k, t.p, p),
				map[string]any{"pattern": t.p, "strategy": t.k.String(), "panic": fmt.Sprint(p)}, false)
		}
	}()
	if !costOnly {
		v := "longest"
		if t.k == meta.UseBoundedBacktracker {
			v = "squeeze"
		}
		e, why, structural := newM2Engine(t, v)
		if structural {
			t.structural = why
			return
		}
		if e == nil {
			t.dist["variant-skipped:"+why]++
		} else {
			t.vs = append(t.vs, e)
		}
		wantLong := t.k != meta.UseBoundedBacktracker
		for _, h := range m2Haystacks(rng, t, nHay) {
			if t.k == meta.UseBoundedBacktracker && !isASCIIBytes(h) {
				// IsMatch only reads offset 0: regexp on the whole haystack is the reference
				first := make([][2]int, len(h)+1)
				for i := range first {
					first[i] = m2None
				}
				if loc := t.std.FindIndex(h); loc != nil {
					for a := 0; a <= loc[0]; a++ {
						first[a] = [2]int{loc[0], loc[1]}
					}
				}
				t.dist["haystacks:"+m2Tag[t.k]+":non-ASCII"]++
				for _, e := range t.vs {
					t.shortCase(e, h, first, first)
				}
				continue
			}
			first, long, ok := t.refs(h, wantLong)
			if !ok {
				t.dist["haystack-skipped:no in-context reference"]++
				continue
			}
			t.dist["haystacks:"+m2Tag[t.k]]++
			if len(h) >= m2FatThreshold {
				t.dist["haystacks:"+m2Tag[t.k]+":>= 64 bytes"]++
			}
			for _, e := range t.vs {
				refs := first
				if e.longest {
					refs = long
				}
				t.shortCase(e, h, first, refs)
			}
		}
	}
	if t.k != meta.UseDigitPrefilter {
		return
	}
	if t.hasLook {
		t.dist["long haystacks skipped: look-around (no reference from slices)"]++
		return
	}
	for _, lh := range m2LongHays(rng, t, nLong, thorough) {
		if time.Now().After(stopAt) {
			t.dist["long haystacks skipped: deadline"]++
			continue
		}
		first, ok := m2Fill(t.std, lh.h, false, fillCap)
		if !ok {
			t.dist["long haystacks skipped: reference too slow (a long match from every offset)"]++
			continue
		}
		if mfSpanStr(first[0], "none") != stratSpan(t.std.FindIndex(lh.h)) {
			t.violate("harness-ref", fmt.Sprintf("harness: the slice reference disagrees with regexp.FindIndex at offset 0 for %q on %s", t.p, lh.desc), map[string]any{"pattern": t.p}, true)
			continue
		}
		t.dist["long haystacks"]++
		for _, e := range t.vs {
			refs := first
			if e.longest {
				refs, _ = m2Fill(t.stdL, lh.h, true, fillCap)
			}
			t.longCases(rng, e, lh, first, refs, thorough)
		}
	}
}

// shortCase: `all.<st>` on one (engine, haystack), every offset
func (t *m2Target) shortCase(e *m2Engine, h []byte, first, refs [][2]int) {
	n := len(h)
	toks, _, ok := e.tokens(t, h, first, refs)
	if !ok {
		t.dist["haystack-skipped:CanHandle not monotone"]++
		return
	}
	c := &m2Case{t: t, e: e, h: h, fn: toks[m2kFn], ref: make([]string, n+1), refIs: first[0][0] >= 0}
	for a := range c.ref {
		c.ref[a] = mfSpanStr(refs[a], "none")
	}
	c.req = strings.Join(toks, " ")
	if t.k == meta.UseBoundedBacktracker {
		// engine-choice probe: both backtrackers answer "no match"
		b := []byte(toks[m2kBools])
		b[1], b[2] = '0', '0'
		p := append([]string(nil), toks...)
		p[m2kBools] = string(b)
		c.reqProbe = strings.Join(p, " ")
		c.ranIs = e.btRan(func() { c.realIs = e.eng.IsMatch(h) })
		t.cases = append(t.cases, c)
		return
	}
	aho := func(call func()) bool {
		b := e.eng.Stats().AhoCorasickSearches
		call()
		return e.eng.Stats().AhoCorasickSearches != b
	}
	if e.fat != nil {
		// engine-choice probe: the fallback automaton finds nothing
		b := []byte(toks[m2kBools])
		b[4] = '0'
		p := append([]string(nil), toks...)
		p[m2kFat], p[m2kFatAt], p[m2kBools] = "-", "-", string(b)
		c.reqProbe = strings.Join(p, " ")
	}
	s, en, found := e.eng.FindIndices(h)
	c.realFI = stratSpan3(s, en, found)
	c.realAt, c.realFA, c.fatFA = make([]string, n+1), make([]string, n+2), make([]bool, n+2)
	for at := 0; at <= n; at++ {
		s, en, found := e.eng.FindIndicesAt(h, at)
		c.realAt[at] = stratSpan3(s, en, found)
	}
	for at := 0; at <= n+1; at++ {
		c.fatFA[at] = aho(func() { c.realFA[at] = m2MatchStr(e.eng.FindAt(h, at)) })
	}
	c.fatFind = aho(func() { c.realFind = m2MatchStr(e.eng.Find(h)) })
	c.fatIs = aho(func() { c.realIs = e.eng.IsMatch(h) })
	t.cases = append(t.cases, c)
	t.dist["start offsets"] += n + 1
}

// longCases: the instrumented twins on one long haystack (default engine), or the plain functions at offset 0 (longest engine)
func (t *m2Target) longCases(rng *RNG, e *m2Engine, lh m2Hay, first, refs [][2]int, thorough bool) {
	h := lh.h
	n := len(h)
	toks, stops, ok := e.tokens(t, h, first, refs)
	if !ok {
		t.dist["haystack-skipped:CanHandle not monotone"]++
		return
	}
	mk := func(fn string, at int) *m2Case {
		p := append([]string(nil), toks...)
		p[m2kFn], p[m2kAt] = fn, fmt.Sprint(at)
		c := &m2Case{t: t, e: e, h: h, desc: lh.desc, long: true, fn: fn, at: at, req: strings.Join(p, " "), ref: []string{mfSpanStr(refs[at], "none")}, refIs: first[0][0] >= 0}
		t.cases = append(t.cases, c)
		return c
	}
	if e.longest {
		c := mk("findat.digit", 0)
		s, en, found := e.eng.FindIndices(h)
		c.realAns = stratSpan3(s, en, found)
		s, en, found = e.eng.FindIndicesAt(h, 0)
		c.realAns2 = stratSpan3(s, en, found)
		c = mk("ismatch.digit", 0)
		c.realAns = fmt.Sprint(e.eng.IsMatch(h))
		return
	}
	stat := func(call func()) (uint64, uint64) {
		e.eng.ResetStats()
		call()
		s := e.eng.Stats()
		return s.DFASearches, s.NFASearches
	}
	// the REAL cost: the k scans the statistics count are the first k candidates from `at` (no budget logic here), with the
	// real stops; a Pike VM fallback reads from the last candidate + 1 to the end at most
	walk := func(at int, k, pike uint64) (int, bool) {
		cost, pos, last := 0, at, -1
		for i := uint64(0); i < k; i++ {
			d := -1
			if pos < n {
				d = m2NaiveDigit(h, pos)
			}
			if d < 0 {
				return cost, false // more scans than candidates
			}
			cost += stops[d] - d
			last = d
			pos = d + 1
			if e.skip {
				for pos < n && h[pos] >= '0' && h[pos] <= '9' {
					pos++
				}
			}
		}
		if pike > 0 && last >= 0 {
			cost += n - (last + 1)
		}
		return cost, true
	}
	ats := []int{0, 1 + rng.Intn(400), n / 3}
	if !thorough {
		ats = []int{0, ats[1+rng.Intn(2)]}
	}
	for _, at := range ats {
		c := mk("cost.digit", at)
		if at == 0 {
			c.scans, c.nfaS = stat(func() {
				s, en, found := e.eng.FindIndices(h)
				c.realAns = stratSpan3(s, en, found)
			})
			c.scans2, c.nfaS2 = stat(func() {
				s, en, found := e.eng.FindIndicesAt(h, 0)
				c.realAns2 = stratSpan3(s, en, found)
			})
			var ok2 bool
			c.realCost2, ok2 = walk(0, c.scans2, c.nfaS2)
			c.realCost, c.walkOK = walk(0, c.scans, c.nfaS)
			c.walkOK = c.walkOK && ok2
		} else {
			c.scans, c.nfaS = stat(func() {
				s, en, found := e.eng.FindIndicesAt(h, at)
				c.realAns = stratSpan3(s, en, found)
			})
			c.realCost, c.walkOK = walk(at, c.scans, c.nfaS)
		}
	}
	c := mk("cost.ismatch", 0)
	c.scans, c.nfaS = stat(func() { c.realAns = fmt.Sprint(e.eng.IsMatch(h)) })
	c.realCost, c.walkOK = walk(0, c.scans, 0)
}

// ---- comparison ---------------------------------------------------------------------------------------------------------------------

type m2Compare struct {
	r                      *Report
	dpfx                   string
	reported               map[string]bool
	maxRatio, maxRatioReal float64
}

func (m *m2Compare) once(key string) bool {
	if m.reported[key] {
		return false
	}
	m.reported[key] = true
	return true
}

func m2Field(a, key string) string {
	for _, f := range strings.Fields(a) {
		if strings.HasPrefix(f, key+"=") {
			return f[len(key)+1:]
		}
	}
	return ""
}

func m2SlashField(a, key string) string {
	for _, f := range strings.Split(a, "/") {
		if strings.HasPrefix(f, key+"=") {
			return f[len(key)+1:]
		}
	}
	return ""
}

func (m *m2Compare) replay(c *m2Case, extra map[string]any) map[string]any {
	out := map[string]any{"pattern": c.t.p, "haystack_hex": hexOf(c.h), "strategy": c.t.k.String(), "variant": c.e.name(), "longest": c.e.longest, "flags": c.e.flags, "model_function": c.fn}
	if c.long {
		out["haystack"] = c.desc
		out["at"] = c.at
	} else {
		out["request"] = c.req
	}
	for k, v := range extra {
		out[k] = v
	}
	return out
}

// std / model: one comparison real vs regexp and model vs real
func (m *m2Compare) pair(c *m2Case, api string, at int, model, real, ref string, tModel, tStd *TieStat, corr string) {
	r, t, e := m.r, c.t, c.e
	ks := t.k.String()
	var tLongest *TieStat
	if e.longest {
		tLongest = r.Tie("meta.Engine.FindIndices / FindIndicesAt / IsMatch / Find / FindAt after SetLongest(true) == regexp with Longest() (UseDigitPrefilter, UseTeddy)")
		tLongest.Cases++
	}
	stdOK := real == ref
	tStd.Cases++
	if !stdOK {
		tStd.Disagreements++
		if tLongest != nil {
			tLongest.Disagreements++
		}
		if m.once("std\x00" + api + ks + t.p) {
			r.Violate(fmt.Sprintf("%s [%s]: %s of %.160q on %q at=%d: coregex=%s regexp=%s (model=%s)", ks, e.name(), api, t.p, m2Clip(c.h), at, real, ref, model),
				m.replay(c, map[string]any{"api": api, "at": at, "coregex": real, "regexp": ref, "model": model}), false)
		}
	}
	tModel.Cases++
	if model != real {
		tModel.Disagreements++
		if stdOK && m.once("model\x00"+api+ks+t.p) {
			r.Violate(fmt.Sprintf("%s [%s]: %s: the code and the Lean model differ on %.160q, haystack %q at=%d: code=%s model=%s regexp=%s", ks, e.name(), api, t.p, m2Clip(c.h), at, real, model, ref),
				m.replay(c, map[string]any{"api": api, "at": at, "code": real, "model": model, "correspondence": corr}), true)
		}
	}
}

func (m *m2Compare) bad(c *m2Case, ans string) {
	t := m.r.Tie(fmt.Sprintf("Cx.MetaFind2.findIndicesAt == meta.Engine.FindIndicesAt (%s)", c.t.k))
	t.Cases++
	t.Disagreements++
	m.r.Violate(fmt.Sprintf("Cx.MetaFind2 model: malformed answer %.100q to %s for %q", ans, c.fn, c.t.p), m.replay(c, map[string]any{"correspondence": "Cx.MetaFind2"}), true)
}

func (m *m2Compare) short(c *m2Case, ans, probe string) {
	r, t, e := m.r, c.t, c.e
	k := t.k
	ks := k.String()
	n := len(c.h)
	r.Dist[m.dpfx+"cases:"+m2Tag[k]+"/"+e.name()]++
	if k == meta.UseBoundedBacktracker {
		im, imN := m2Field(ans, "im"), m2Field(probe, "im")
		if (im != "true" && im != "false") || (imN != "true" && imN != "false") {
			m.bad(c, ans)
			return
		}
		m.pair(c, "IsMatch", 0, im, fmt.Sprint(c.realIs), fmt.Sprint(c.refIs),
			r.Tie("Cx.MetaFind2.isMatchBoundedBacktracker == meta.Engine.IsMatch (UseBoundedBacktracker)"),
			r.Tie("meta.Engine.IsMatch == regexp.Match (UseBoundedBacktracker; first-byte / suffix rejections, ASCII backtracker, CanHandle fallbacks)"),
			"Cx.MetaFind2.isMatchBoundedBacktracker vs meta/ismatch.go")
		tEng := r.Tie("Cx.MetaFind2.isMatchBoundedBacktracker consults a backtracker exactly when meta.Engine.IsMatch runs one (calls with a match; UseBoundedBacktracker)")
		if im != "true" || !c.realIs {
			tEng.Skipped++
			return
		}
		tEng.Cases++
		r.Dist[m.dpfx+"engine choice:bt"+map[bool]string{true: ":a backtracker ran", false: ":no backtracker ran"}[c.ranIs]]++
		if (imN != im) != c.ranIs {
			tEng.Disagreements++
			if m.once("engine\x00" + t.p) {
				who := map[bool]string{true: "a backtracker", false: "no backtracker"}
				r.Violate(fmt.Sprintf("%s [%s]: IsMatch of %q on %q: the code runs %s, the Lean model consults %s", ks, e.name(), t.p, m2Clip(c.h), who[c.ranIs], who[imN != im]),
					m.replay(c, map[string]any{"api": "IsMatch", "code_runs_backtracker": c.ranIs, "model_consults_backtracker": imN != im, "request_without_backtracker": c.reqProbe,
						"correspondence": "Cx.MetaFind2.isMatchBoundedBacktracker (ASCII / CanHandle guards) vs meta/ismatch.go"}), true)
			}
		}
		return
	}
	fi, im := m2Field(ans, "fi"), m2Field(ans, "im")
	ats, fas := strings.Split(m2Field(ans, "at"), ";"), strings.Split(m2Field(ans, "fa"), ";")
	if fi == "" || im == "" || len(ats) != n+1 || len(fas) != n+2 {
		m.bad(c, ans)
		return
	}
	tFI := r.Tie(fmt.Sprintf("Cx.MetaFind2.findIndices == meta.Engine.FindIndices (%s)", ks))
	tAt := r.Tie(fmt.Sprintf("Cx.MetaFind2.findIndicesAt == meta.Engine.FindIndicesAt (%s)", ks))
	tIs := r.Tie(fmt.Sprintf("Cx.MetaFind2.isMatch == meta.Engine.IsMatch (%s)", ks))
	tFA := r.Tie(fmt.Sprintf("Cx.MetaFind2.engineFindAt == meta.Engine.Find / FindAt (%s)", ks))
	tStd := r.Tie(fmt.Sprintf("meta.Engine.FindIndices / FindIndicesAt == regexp (%s; leftmost match starting at or after the offset, in the context of the whole haystack)", ks))
	tStdFA := r.Tie(fmt.Sprintf("meta.Engine.Find / FindAt == regexp (%s; leftmost match starting at or after the offset, in the context of the whole haystack)", ks))
	tStdIs := r.Tie(fmt.Sprintf("meta.Engine.IsMatch == regexp.Match (%s)", ks))
	corr := "Cx.MetaFind2 vs meta/find_indices.go"
	m.pair(c, "FindIndices", 0, fi, c.realFI, c.ref[0], tFI, tStd, corr)
	for at := 0; at <= n; at++ {
		m.pair(c, "FindIndicesAt", at, ats[at], c.realAt[at], c.ref[at], tAt, tStd, corr)
		m.pair(c, "FindAt", at, fas[at], c.realFA[at], c.ref[at], tFA, tStdFA, "Cx.MetaFind2.engineFindAt vs meta/find.go")
	}
	m.pair(c, "FindAt", n+1, fas[n+1], c.realFA[n+1], "none", tFA, tStdFA, "Cx.MetaFind2.engineFindAt vs meta/find.go")
	m.pair(c, "Find", 0, fas[0], c.realFind, c.ref[0], tFA, tStdFA, "Cx.MetaFind2.engineFindAt vs meta/find.go")
	m.pair(c, "IsMatch", 0, im, fmt.Sprint(c.realIs), fmt.Sprint(c.refIs), tIs, tStdIs, "Cx.MetaFind2.isMatch vs meta/ismatch.go")
	if probe == "" {
		return
	}
	// Fat Teddy: the fallback automaton is consulted exactly when the code runs it
	fasN, imN := strings.Split(m2Field(probe, "fa"), ";"), m2Field(probe, "im")
	if len(fasN) != n+2 || imN == "" {
		m.bad(c, probe)
		return
	}
	tEng := r.Tie("Cx.MetaFind2 consults the Fat Teddy fallback exactly when meta.Engine runs it (Stats().AhoCorasickSearches; Find, FindAt, IsMatch; calls with a match)")
	choice := func(api string, at int, with, without, real string, ran bool) {
		if with == "none" || with == "false" || with != real {
			tEng.Skipped++
			return
		}
		tEng.Cases++
		r.Dist[m.dpfx+"engine choice:fat teddy"+map[bool]string{true: ":the fallback ran", false: ":Teddy ran"}[ran]]++
		if (with != without) != ran {
			tEng.Disagreements++
			if m.once("fat\x00" + t.p) {
				who := map[bool]string{true: "the Aho-Corasick fallback", false: "the Teddy prefilter"}
				r.Violate(fmt.Sprintf("%s [%s]: %s of %.160q on %q at=%d: the code runs %s, the Lean model consults %s (answer %s either way)", ks, e.name(), api, t.p, m2Clip(c.h), at, who[ran], who[with != without], real),
					m.replay(c, map[string]any{"api": api, "at": at, "code_runs_fallback": ran, "model_consults_fallback": with != without, "request_without_fallback": c.reqProbe,
						"correspondence": "Cx.MetaFind2.findTeddy / findTeddyAt / isMatchTeddy (fatTeddyFallback, 64-byte threshold) vs meta/find.go, meta/ismatch.go"}), true)
			}
		}
	}
	for at := 0; at <= n+1; at++ {
		choice("FindAt", at, fas[at], fasN[at], c.realFA[at], c.fatFA[at])
	}
	choice("Find", 0, fas[0], fasN[0], c.realFind, c.fatFind)
	choice("IsMatch", 0, im, imN, fmt.Sprint(c.realIs), c.fatIs)
}

func (m *m2Compare) long(c *m2Case, ans string) {
	r, t, e := m.r, c.t, c.e
	ks := t.k.String()
	r.Dist[m.dpfx+"long cases:"+c.fn+"/"+e.name()]++
	tFI := r.Tie(fmt.Sprintf("Cx.MetaFind2.findIndices == meta.Engine.FindIndices (%s)", ks))
	tAt := r.Tie(fmt.Sprintf("Cx.MetaFind2.findIndicesAt == meta.Engine.FindIndicesAt (%s)", ks))
	tIs := r.Tie(fmt.Sprintf("Cx.MetaFind2.isMatch == meta.Engine.IsMatch (%s)", ks))
	tStd := r.Tie(fmt.Sprintf("meta.Engine.FindIndices / FindIndicesAt == regexp (%s; leftmost match starting at or after the offset, in the context of the whole haystack)", ks))
	tStdIs := r.Tie(fmt.Sprintf("meta.Engine.IsMatch == regexp.Match (%s)", ks))
	corr := "Cx.MetaFind2 (digit loop) vs meta/find_indices.go, meta/ismatch.go"
	isIM := strings.HasSuffix(c.fn, "ismatch") || strings.HasPrefix(c.fn, "ismatch")
	model := ans
	if strings.HasPrefix(c.fn, "cost.") {
		model = strings.SplitN(ans, "/", 2)[0]
	}
	if model == "" || model == "bad-op" {
		m.bad(c, ans)
		return
	}
	if isIM {
		m.pair(c, "IsMatch", 0, model, c.realAns, fmt.Sprint(c.refIs), tIs, tStdIs, corr)
	} else if c.at == 0 {
		m.pair(c, "FindIndices", 0, model, c.realAns, c.ref[0], tFI, tStd, corr)
		m.pair(c, "FindIndicesAt", 0, model, c.realAns2, c.ref[0], tAt, tStd, corr)
	} else {
		m.pair(c, "FindIndicesAt", c.at, model, c.realAns, c.ref[0], tAt, tStd, corr)
	}
	if !strings.HasPrefix(c.fn, "cost.") {
		return
	}
	// the loop: scans of the model's trace vs the statistics of the real run
	var cost, bound int
	if _, err := fmt.Sscanf(m2SlashField(ans, "cost"), "%d", &cost); err != nil {
		m.bad(c, ans)
		return
	}
	fmt.Sscanf(m2SlashField(ans, "bound"), "%d", &bound)
	n := len(c.h)
	if want := (m2BudgetFactor+3)*(n-c.at) + m2BudgetAllowance; bound != want {
		r.Violate(fmt.Sprintf("Cx.MetaFind2 model: bound=%d, expected 35*(|h|-at)+4096 = %d", bound, want), m.replay(c, map[string]any{"correspondence": "Cx.MetaFind2"}), true)
		return
	}
	nScans := uint64(0)
	if sc := m2SlashField(ans, "scans"); sc != "-" && sc != "" {
		nScans = uint64(len(strings.Split(sc, ",")))
	}
	wantNFA := uint64(0)
	if m2SlashField(ans, "pike") != "-" {
		wantNFA = 1
	}
	if m2SlashField(ans, "im") != "-" {
		r.Dist[m.dpfx+"long cases:budget fallback taken ("+c.fn+")"]++
	}
	api := map[bool]string{true: "IsMatch", false: "FindIndices / FindIndicesAt"}[isIM]
	tScan := r.Tie("Cx.MetaFind2 digit loop (instrumented) == meta.Engine.Stats(): number of anchored verification scans (DFASearches) and of Pike VM fallbacks (NFASearches); FindIndices, FindIndicesAt, IsMatch on digit-run haystacks >= 5000 bytes")
	runs := [][2]uint64{{c.scans, c.nfaS}}
	if !isIM && c.at == 0 {
		runs = append(runs, [2]uint64{c.scans2, c.nfaS2})
	}
	for _, s := range runs {
		tScan.Cases++
		if s[0] != nScans || (!isIM && s[1] != wantNFA) {
			tScan.Disagreements++
			if m.once("scan\x00" + api + t.p) {
				r.Violate(fmt.Sprintf("%s: %s of %q on %s at=%d: the code makes %d anchored scans and %d Pike VM searches, the trace of the Lean model has %d and %d (answers: code %s, model %s)", ks, api, t.p, c.desc, c.at, s[0], s[1], nScans, wantNFA, c.realAns, model),
					m.replay(c, map[string]any{"api": api, "code_scans": s[0], "code_pike": s[1], "model_scans": nScans, "model_pike": wantNFA,
						"correspondence": "Cx.MetaFind2.digitLoopT / isMatchDigitLoopT (candidateBudget.charge) vs meta/find_indices.go, meta/ismatch.go"}), true)
			}
		}
	}
	tCost := r.Tie("UseDigitPrefilter linear work, MODEL trace on the real stops: bytes read by anchored scans + fallback searches <= 35·(|h|−at) + 4096 (haystacks >= 5000 bytes)")
	tCost.Cases++
	if cost > bound {
		tCost.Disagreements++
		if m.once("costM\x00" + t.p) {
			r.Violate(fmt.Sprintf("%s: %s of %q on %s at=%d: the trace of the Lean model reads %d bytes, the bound is %d", ks, api, t.p, c.desc, c.at, cost, bound),
				m.replay(c, map[string]any{"api": api, "cost": cost, "bound": bound, "theorem": "C02/C05 digit-loop cost bound (hypothesis stop <= len)"}), true)
		}
	}
	tCostR := r.Tie("UseDigitPrefilter linear work, REAL run: the scans Stats() counts (first k candidates, real stops) + the Pike VM fallback read <= 35·(|h|−at) + 4096 bytes (haystacks >= 5000 bytes)")
	costs := []int{c.realCost}
	if !isIM && c.at == 0 {
		costs = append(costs, c.realCost2)
	}
	for _, rc := range costs {
		tCostR.Cases++
		if !c.walkOK || rc > bound {
			tCostR.Disagreements++
			if m.once("costR\x00" + api + t.p) {
				r.Violate(fmt.Sprintf("%s: %s of %q on %s (%d bytes) at=%d: the code's %d anchored scans read %d bytes (walk ok: %v), the bound is 35*(|h|-at)+4096 = %d (model trace: %d scans, %d bytes)", ks, api, t.p, c.desc, n, c.at, c.scans, rc, c.walkOK, bound, nScans, cost),
					m.replay(c, map[string]any{"api": api, "code_scans": c.scans, "code_cost": rc, "bound": bound, "model_cost": cost}), false)
			}
		}
		if n > c.at {
			if q := float64(rc) / float64(n-c.at); q > m.maxRatioReal {
				m.maxRatioReal = q
			}
		}
	}
	if n > c.at {
		if q := float64(cost) / float64(n-c.at); q > m.maxRatio {
			m.maxRatio = q
		}
	}
}
