package main

import (
	"bytes"
	"fmt"
	"reflect"
	"regexp"
	"regexp/syntax"
	"sort"
	"strings"
	"time"
	"unsafe"

	"github.com/coregx/coregex/dfa/lazy"
	"github.com/coregx/coregex/literal"
	"github.com/coregx/coregex/meta"
	"github.com/coregx/coregex/nfa"
)

// c02StrategyTies: the Lean models of the four remaining reverse strategies of the meta engine
//
//	UseReverseInner            Cx.RevInner             meta/reverse_inner.go
//	UseReverseAnchored         Cx.RevAnchored          meta/reverse_anchored.go
//	UseReverseSuffixSet        Cx.RevSuffixSet         meta/reverse_suffix_set.go
//	UseMultilineReverseSuffix  Cx.MultilineRevSuffix   meta/reverse_suffix_multiline.go
//
// run with the parameters the real constructor computed (read from the compiled engine by reflection) and with oracles derived
// by brute force from regexp's answers, must return what the real searcher returns (FindIndicesAt at every start offset,
// IsMatch), and the real searcher must return what regexp returns.  The reference for a start offset at > 0 is regexp's
// leftmost-first match among the matches that start at or after `at` IN THE CONTEXT of the whole haystack
// (`\A(?s:.{s})(pattern)`), not FindIndex(h[at:]): the latter forgets what stands before `at`.
//
// The HYPOTHESIS tie: every theorem about these strategies assumes that the reverse lazy DFAs are configured with
// BreakAtMatch = false and that the automaton they reverse has no look-around states other than the ones the strategy
// compensates (none for inner / suffix set; the trailing `$` / `\z` for reverse anchored).  Both are checked on every searcher
// obtained; a violated hypothesis is reported together with a failing input if the search finds one.
func c02StrategyTies(r *Report) {
	t0 := time.Now()
	defer func() { r.Extra["wall_s:c02StrategyTies"] = time.Since(t0).Seconds() }()
	budget, tries, nGen := 40, 1200, 5
	if r.Tier == "thorough" {
		budget, tries, nGen = 160, 6000, 8
	}
	root := NewRNG(r.Seed)

	// candidates: every shape of every strategy, then mutants; a candidate is filed under the strategy it actually selects
	type cand struct{ p, base string }
	var cands []cand
	for _, k := range stratKinds {
		for _, s := range stratShapes[k] {
			cands = append(cands, cand{s, s})
		}
	}
	used := map[meta.Strategy]int{}
	seen := map[string]bool{}
	var targets []*stratTarget
	broken := false
	full := func() bool {
		for _, k := range stratKinds {
			if used[k] < budget {
				return false
			}
		}
		return true
	}
	for i := 0; i < len(cands)+tries && !full() && !broken; i++ {
		rng := root.Fork(0x5747 + uint64(i))
		var c cand
		if i < len(cands) {
			c = cands[i]
		} else {
			// mutants of the shapes of the strategy that is furthest from its budget
			k := stratKinds[0]
			for _, k2 := range stratKinds {
				if used[k2] < used[k] {
					k = k2
				}
			}
			base := stratShapes[k][rng.Intn(len(stratShapes[k]))]
			c = cand{MutatePattern(rng, base), base}
		}
		if seen[c.p] {
			continue
		}
		seen[c.p] = true
		std, err := regexp.Compile(c.p)
		if err != nil {
			continue
		}
		var eng *meta.Engine
		if guard(stratTimeout, func() string {
			var e error
			eng, e = meta.Compile(c.p)
			if e != nil {
				return "ERR"
			}
			return ""
		}) != "" || eng == nil {
			continue
		}
		k := eng.Strategy()
		if _, ok := stratField[k]; !ok {
			if i < len(cands) {
				r.Dist["c02strat:shape-goes-elsewhere:"+k.String()]++
			}
			continue
		}
		if used[k] >= budget {
			continue
		}
		t, why, structural := newStratTarget(c.p, c.base, k, eng, std)
		if structural {
			r.Violate("the "+k.String()+" searcher no longer has the fields the model is parameterised by: "+why,
				map[string]any{"pattern": c.p, "correspondence": stratModel[k] + " vs " + stratFile[k]}, true)
			broken = true
			break
		}
		if t == nil {
			r.Dist["c02strat:skipped:"+why]++
			continue
		}
		used[k]++
		targets = append(targets, t)
		r.Case("rstrat\x00"+k.String()+"\x00"+c.p, true)
		r.Dist["c02strat:patterns:"+k.String()]++
	}
	if broken {
		return
	}

	// ---- the hypothesis tie ------------------------------------------------------------------------------------------
	hyp := r.Tie("hypotheses of the reverse-strategy theorems: every reverse lazy DFA has BreakAtMatch = false and reverses a look-free automaton (trailing $ excepted for UseReverseAnchored)")
	type bamKey struct {
		k     meta.Strategy
		field string
	}
	bam := map[bamKey][]*stratTarget{}
	var bamOrder []bamKey
	for _, t := range targets {
		hyp.Cases++
		if t.hypStructural != "" {
			hyp.Disagreements++
			r.Violate("reverse-strategy hypotheses cannot be checked: "+t.hypStructural, map[string]any{"pattern": t.p, "strategy": t.k.String()}, true)
			continue
		}
		for _, f := range t.bamFields {
			key := bamKey{t.k, f}
			if bam[key] == nil {
				bamOrder = append(bamOrder, key)
			}
			bam[key] = append(bam[key], t)
		}
		if t.lookViolation != "" {
			hyp.Disagreements++
			fail, replay := stratFindFailing(root.Fork(0xFA11), t)
			what := fmt.Sprintf("%s is selected for %q, but %s; the reverse automaton drops every look-around assertion (hypothesis of the %s theorems violated)", t.k, t.p, t.lookViolation, stratModel[t.k])
			if fail != "" {
				what += "; failing input: " + fail
			} else {
				replay = map[string]any{"pattern": t.p}
			}
			replay["strategy"] = t.k.String()
			replay["hypothesis"] = "look-free forward automaton"
			r.Violate(what, replay, fail == "")
		}
	}
	for _, key := range bamOrder {
		ts := bam[key]
		hyp.Disagreements += len(ts)
		fail, replay, pat := "", map[string]any(nil), ts[0].p
		for i, t := range ts {
			if i >= 12 {
				break
			}
			if fail, replay = stratFindFailing(root.Fork(0xFA12+uint64(i)), t); fail != "" {
				pat = t.p
				break
			}
		}
		what := fmt.Sprintf("%s: the reverse lazy DFA `%s` of the searcher is configured with BreakAtMatch = true (%d of the patterns of this run, e.g. %q); every reverse-search theorem (C02_reverse_search_*, %s) assumes false",
			key.k, key.field, len(ts), pat, stratModel[key.k])
		if fail != "" {
			what += "; failing input: " + fail
		} else {
			replay = map[string]any{"pattern": pat}
		}
		replay["strategy"] = key.k.String()
		replay["field"] = key.field
		replay["hypothesis"] = "BreakAtMatch = false"
		r.Violate(what, replay, fail == "")
	}

	// ---- model == real searcher == regexp ----------------------------------------------------------------------------
	type cs struct {
		t             *stratTarget
		h             []byte
		pol, req      string
		real, ref     []string // per start offset (reverse anchored: offset 0 only)
		realIs, refIs bool
		first         bool // first policy of this (pattern, haystack): the real-vs-regexp comparison is counted here
	}
	var cases []cs
	engTie := map[meta.Strategy]*TieStat{}
	for _, k := range stratKinds {
		engTie[k] = r.Tie(fmt.Sprintf("meta.Engine under %s == its %s (FindIndicesAt every offset, IsMatch)", k, stratType[k]))
	}
	for ti, t := range targets {
		if t.lookViolation != "" {
			continue // the tables below are taken on substrings: only meaningful for look-free patterns
		}
		rng := root.Fork(0x4A75 + uint64(ti))
		for hi, h := range stratHaystacks(rng, t, nGen) {
			n := len(h)
			anch := t.ctx.anchTable(h)
			refs := refFromAnch(anch)
			if loc := t.std.FindIndex(h); stratSpan(loc) != refs[0] {
				r.Violate(fmt.Sprintf("harness: the in-context reference disagrees with regexp.FindIndex at offset 0 for %q on %q: %s vs %s", t.p, h, refs[0], stratSpan(loc)),
					map[string]any{"pattern": t.p, "haystack_hex": hexOf(h)}, true)
				continue
			}
			c := cs{t: t, h: h, refIs: refs[0] != "none", first: true}
			et := engTie[t.k]
			switch t.k {
			case meta.UseReverseAnchored:
				srch := (*meta.ReverseAnchoredSearcher)(t.ptr)
				real := "none"
				if m := srch.Find(h); m != nil {
					real = fmt.Sprintf("%d.%d", m.Start(), m.End())
				}
				c.real, c.ref, c.realIs = []string{real}, refs[:1], srch.IsMatch(h)
				s2, e2, ok2 := t.eng.FindIndices(h)
				et.Cases++
				if stratSpan3(s2, e2, ok2) != real || t.eng.IsMatch(h) != c.realIs {
					et.Disagreements++
					r.Violate(fmt.Sprintf("%s: the engine and its searcher differ on %q, haystack %q: engine %s/%v, searcher %s/%v", t.k, t.p, h, stratSpan3(s2, e2, ok2), t.eng.IsMatch(h), real, c.realIs),
						map[string]any{"pattern": t.p, "haystack_hex": hexOf(h)}, true)
				}
				// Engine.FindIndicesAt does not go through the searcher for at > 0: property-level comparison only
				for at := 1; at <= n; at++ {
					s, e, ok := t.eng.FindIndicesAt(h, at)
					c.real = append(c.real, stratSpan3(s, e, ok))
				}
				c.ref = refs
				c.req = fmt.Sprintf("revanch run %s %s %s", hexOf(h), stratPairTable(t.reFull, h), strings.ReplaceAll(refs[0], "none", "x"))
				cases = append(cases, c)
				continue
			}
			c.real = make([]string, n+1)
			c.ref = refs
			for at := 0; at <= n; at++ {
				var s, e int
				var ok bool
				switch t.k {
				case meta.UseReverseInner:
					s, e, ok = (*meta.ReverseInnerSearcher)(t.ptr).FindIndicesAt(h, at)
				case meta.UseReverseSuffixSet:
					s, e, ok = (*meta.ReverseSuffixSetSearcher)(t.ptr).FindIndicesAt(h, at)
				case meta.UseMultilineReverseSuffix:
					s, e, ok = (*meta.MultilineReverseSuffixSearcher)(t.ptr).FindIndicesAt(h, at)
				}
				c.real[at] = stratSpan3(s, e, ok)
				s2, e2, ok2 := t.eng.FindIndicesAt(h, at)
				et.Cases++
				if stratSpan3(s2, e2, ok2) != c.real[at] {
					et.Disagreements++
					r.Violate(fmt.Sprintf("%s: Engine.FindIndicesAt and the searcher differ on %q, haystack %q at=%d: engine %s, searcher %s", t.k, t.p, h, at, stratSpan3(s2, e2, ok2), c.real[at]),
						map[string]any{"pattern": t.p, "haystack_hex": hexOf(h), "at": at}, true)
				}
			}
			switch t.k {
			case meta.UseReverseInner:
				c.realIs = (*meta.ReverseInnerSearcher)(t.ptr).IsMatch(h)
			case meta.UseReverseSuffixSet:
				c.realIs = (*meta.ReverseSuffixSetSearcher)(t.ptr).IsMatch(h)
			case meta.UseMultilineReverseSuffix:
				c.realIs = (*meta.MultilineReverseSuffixSearcher)(t.ptr).IsMatch(h)
			}
			et.Cases++
			if t.eng.IsMatch(h) != c.realIs {
				et.Disagreements++
				r.Violate(fmt.Sprintf("%s: Engine.IsMatch and the searcher differ on %q, haystack %q: engine %v, searcher %v", t.k, t.p, h, !c.realIs, c.realIs),
					map[string]any{"pattern": t.p, "haystack_hex": hexOf(h)}, true)
			}
			as := make([]string, n+1)
			for s := range as {
				as[s] = "x"
				if anch[s] >= 0 {
					as[s] = fmt.Sprint(anch[s])
				}
			}
			rt := strings.ReplaceAll(strings.Join(refs, ","), "none", "x")
			switch t.k {
			case meta.UseReverseInner:
				mt, pre := stratPairTable(t.reFull, h), stratPairTable(t.rePre, h)
				dsl := "x"
				if t.dsl != nil {
					dsl = hexOf(t.dsl)
				}
				pols := []string{"001", stratInnerPolicies[hi%len(stratInnerPolicies)]}
				for pi, pol := range pols {
					c2 := c
					c2.pol, c2.first = pol, pi == 0
					c2.req = fmt.Sprintf("revinner run * %s %s %d %s %s%s%s%s%s %s %s %s %s", hexOf(h), stratHexList(t.lits), t.innerLen, dsl,
						b01(t.nullable), b01(t.startAnch), b01(t.exact), b01(t.lb), pol, mt, pre, rt, strings.Join(as, ","))
					cases = append(cases, c2)
				}
			case meta.UseReverseSuffixSet:
				mt := stratPairTable(t.reFull, h)
				pols := []string{stratSetPolicies[hi%len(stratSetPolicies)], stratSetPolicies[(hi/len(stratSetPolicies)+hi+1)%len(stratSetPolicies)]}
				for pi, pol := range pols {
					c2 := c
					c2.pol, c2.first = pol, pi == 0
					c2.req = fmt.Sprintf("revsfxset run * %s %s %s%s%s %s %s", hexOf(h), stratHexList(t.lits), b01(t.mz), b01(t.lb), pol, mt, rt)
					cases = append(cases, c2)
				}
			case meta.UseMultilineReverseSuffix:
				c.req = fmt.Sprintf("mlrevsfx run * %s %s %s %s %s %d %s", hexOf(h), stratHexList(t.lits), hexOf(t.prefix), hexOf(t.suf), b01(t.shape), t.minGap, strings.Join(as, ","))
				cases = append(cases, c)
			}
		}
	}
	var reqs []string
	for _, c := range cases {
		reqs = append(reqs, c.req)
	}
	ans, err := RunLean(reqs)
	if err != nil || len(ans) != len(reqs) {
		r.Violate(fmt.Sprintf("Lean driver failed on the reverse-strategy ties: %v", err), map[string]any{"correspondence": "Cx.RevInner / RevAnchored / RevSuffixSet / MultilineRevSuffix"}, true)
		return
	}
	reported := map[string]bool{}
	once := func(key string) bool {
		if reported[key] {
			return false
		}
		reported[key] = true
		return true
	}
	for i, c := range cases {
		t := c.t
		k := t.k
		tModel := r.Tie(fmt.Sprintf("%s.%s == meta %s.%s", stratModel[k], stratModelFn[k], stratType[k], stratRealFn[k]))
		tModelIs := r.Tie(fmt.Sprintf("%s.isMatch == meta %s.IsMatch", stratModel[k], stratType[k]))
		tStd := r.Tie(fmt.Sprintf("meta %s.%s == regexp (leftmost-first match starting at or after the offset, in the context of the whole haystack)", stratType[k], stratRealFn[k]))
		tStdIs := r.Tie(fmt.Sprintf("meta %s.IsMatch == regexp.Match", stratType[k]))
		// parse the answer: model span per offset + model IsMatch
		var model []string
		var modelIs bool
		bad := false
		if k == meta.UseReverseAnchored {
			f := strings.Fields(ans[i])
			if len(f) != 2 {
				bad = true
			} else {
				model, modelIs = []string{f[0]}, f[1] == "true"
			}
		} else {
			fs := strings.SplitN(ans[i], " ", 2)
			if len(fs) != 2 || !strings.HasPrefix(fs[0], "im=") {
				bad = true
			} else {
				modelIs = fs[0] == "im=true"
				for _, one := range strings.Split(fs[1], ";") {
					if j := strings.IndexByte(one, '/'); j >= 0 {
						one = one[:j]
					}
					model = append(model, one)
				}
				bad = len(model) != len(c.h)+1
			}
		}
		if bad {
			tModel.Cases++
			tModel.Disagreements++
			r.Violate(fmt.Sprintf("%s model: malformed answer %.80q", stratModel[k], ans[i]), map[string]any{"request": c.req, "pattern": t.p}, true)
			continue
		}
		for at := range c.real {
			stdOK := c.real[at] == c.ref[at]
			if c.first {
				tStd.Cases++
				if !stdOK {
					tStd.Disagreements++
					if once("std\x00" + k.String() + t.p) {
						m := "-"
						if at < len(model) {
							m = model[at]
						}
						api := stratRealFn[k]
						if k == meta.UseReverseAnchored && at > 0 {
							api = "Engine.FindIndicesAt"
						}
						r.Violate(fmt.Sprintf("%s: %s of %q on %q at=%d: coregex=%s regexp=%s (model=%s)", k, api, t.p, c.h, at, c.real[at], c.ref[at], m),
							map[string]any{"pattern": t.p, "haystack_hex": hexOf(c.h), "at": at, "api": api, "coregex": c.real[at], "regexp": c.ref[at], "model": m, "request": c.req, "strategy": k.String()}, false)
					}
				}
			}
			if at >= len(model) {
				continue
			}
			tModel.Cases++
			if model[at] != c.real[at] {
				tModel.Disagreements++
				if stdOK && once("model\x00"+k.String()+t.p) {
					r.Violate(fmt.Sprintf("%s: the code and the Lean model differ on %q, haystack %q at=%d (oracle policy %q): code=%s model=%s regexp=%s", k, t.p, c.h, at, c.pol, c.real[at], model[at], c.ref[at]),
						map[string]any{"pattern": t.p, "haystack_hex": hexOf(c.h), "at": at, "code": c.real[at], "model": model[at], "request": c.req, "correspondence": stratModel[k] + " vs " + stratFile[k]}, true)
				}
			}
		}
		if c.first {
			tStdIs.Cases++
			if c.realIs != c.refIs {
				tStdIs.Disagreements++
				if once("stdis\x00" + k.String() + t.p) {
					r.Violate(fmt.Sprintf("%s: IsMatch of %q on %q: coregex=%v, regexp=%v (FindIndicesAt from 0: %s; model IsMatch: %v)", k, t.p, c.h, c.realIs, c.refIs, c.real[0], modelIs),
						map[string]any{"pattern": t.p, "haystack_hex": hexOf(c.h), "api": "Match", "coregex": fmt.Sprint(c.realIs), "regexp": fmt.Sprint(c.refIs), "request": c.req, "strategy": k.String()}, false)
				}
			}
		}
		tModelIs.Cases++
		if modelIs != c.realIs {
			tModelIs.Disagreements++
			if c.realIs == c.refIs && once("modelis\x00"+k.String()+t.p) {
				r.Violate(fmt.Sprintf("%s: IsMatch: the code and the Lean model differ on %q, haystack %q (oracle policy %q): code=%v model=%v", k, t.p, c.h, c.pol, c.realIs, modelIs),
					map[string]any{"pattern": t.p, "haystack_hex": hexOf(c.h), "code": fmt.Sprint(c.realIs), "model": fmt.Sprint(modelIs), "request": c.req, "correspondence": stratModel[k] + " vs " + stratFile[k]}, true)
			}
		}
	}
	r.Sample(map[string]any{"reverse_strategy_ties": "shapes + mutants filed under the strategy they select", "inner": stratShapes[meta.UseReverseInner][:4], "anchored": stratShapes[meta.UseReverseAnchored][:4],
		"suffix_set": stratShapes[meta.UseReverseSuffixSet][:3], "multiline": stratShapes[meta.UseMultilineReverseSuffix][:3]})
}

const stratTimeout = 10 * time.Second

var stratKinds = []meta.Strategy{meta.UseReverseInner, meta.UseReverseAnchored, meta.UseReverseSuffixSet, meta.UseMultilineReverseSuffix}

var stratField = map[meta.Strategy]string{meta.UseReverseInner: "reverseInnerSearcher", meta.UseReverseAnchored: "reverseSearcher",
	meta.UseReverseSuffixSet: "reverseSuffixSetSearcher", meta.UseMultilineReverseSuffix: "multilineReverseSuffixSearcher"}
var stratType = map[meta.Strategy]string{meta.UseReverseInner: "ReverseInnerSearcher", meta.UseReverseAnchored: "ReverseAnchoredSearcher",
	meta.UseReverseSuffixSet: "ReverseSuffixSetSearcher", meta.UseMultilineReverseSuffix: "MultilineReverseSuffixSearcher"}
var stratModel = map[meta.Strategy]string{meta.UseReverseInner: "Cx.RevInner", meta.UseReverseAnchored: "Cx.RevAnchored",
	meta.UseReverseSuffixSet: "Cx.RevSuffixSet", meta.UseMultilineReverseSuffix: "Cx.MultilineRevSuffix"}
var stratModelFn = map[meta.Strategy]string{meta.UseReverseInner: "findIndicesAt", meta.UseReverseAnchored: "find",
	meta.UseReverseSuffixSet: "findIndicesAt", meta.UseMultilineReverseSuffix: "findIndicesAt"}
var stratRealFn = map[meta.Strategy]string{meta.UseReverseInner: "FindIndicesAt", meta.UseReverseAnchored: "Find",
	meta.UseReverseSuffixSet: "FindIndicesAt", meta.UseMultilineReverseSuffix: "FindIndicesAt"}
var stratFile = map[meta.Strategy]string{meta.UseReverseInner: "meta/reverse_inner.go", meta.UseReverseAnchored: "meta/reverse_anchored.go",
	meta.UseReverseSuffixSet: "meta/reverse_suffix_set.go", meta.UseMultilineReverseSuffix: "meta/reverse_suffix_multiline.go"}

// the reverse-DFA fields each searcher must have (a searcher that loses them is a structural change the models do not follow)
var stratRevDFAs = map[meta.Strategy][]string{meta.UseReverseInner: {"reverseDFA", "fullReverseDFA"}, meta.UseReverseAnchored: {"reverseDFA"},
	meta.UseReverseSuffixSet: {"reverseDFA"}, meta.UseMultilineReverseSuffix: nil}

// Shapes meta.Compile dispatches to each strategy (from tools/fidelity/revstrategies), followed by GUARD shapes: look-around
// inside a counted repeat.  The guards go to a forward strategy as long as the selection refuses word boundaries wherever they
// stand; should one of them reach a reverse strategy, the hypothesis tie flags it.
var stratShapes = map[meta.Strategy][]string{
	meta.UseReverseInner: {`\w+/[^?]*`, `[a-z]+@[a-z]+\.[a-z]+`, `\w+@\w+\.\w+`, `.*connection.*`, `.*=.*;.*`, `.+foo.+bar.+`, `[a-z]+foo[a-z]+foo[a-z]*`, `.*\.\d+`,
		`(?U).*foo.*`, `.*fo\no.*`, `.+@\d+`, `[a-z]+\d*@.*`, `(?s).*@[0-9]*x?`, `[^\n]+::\d*[a-z]*`, `.*(?:foo|fob).{0,2}`, `[ab]+x[ab]*`, `.*foo(?s:.*)`, `\S+=\S*`, `\w+\s*@a*`,
		`[a-z]+(?:\b@){1,2}.*`, `.*(?:\bfoo){2}.*`, `(?:x\b){2}.*foo.*`},
	meta.UseReverseAnchored: {`abc$`, `[a-z]+\z`, `.*foo$`, `(a|ab)(c|bcd)\z`, `\d+\.\d+$`, `a.*?b$`, `(?s).*a(?:$)`, `\w+@\w+$`, `(a+)(b*)$`, `a?b?(?:$)`, `(?:a|ab)+$`,
		`.*\.txt$`, `[a-c]{2,3}\z`, `a$|b$`, `.*a$|.*b$`, `a*$|b+$`, `(?:\d{1,3}\.?){4}$`, `(?:[a-z]+,?){3}$`, `$`,
		`(?:\b\d{1,3}\.?){4}$`, `(?:\b\w+ ?){2}$`, `(\b[a-z]+,?){3}$`, `(?:[a-z]+\b.?){2}\z`, `(?:a\b ?){2,3}\z`, `(?:\Bx){2}$`},
	meta.UseReverseSuffixSet: {`.*\.(?:txt|log|md)`, `.+\.(?:txt|log|md)`, `[a-z]+\.(?:txt|log|md)`, `\w+\.(?:txt|log|md)`, `.*?\.(?:txt|log|md)`, `(?s).*\.(?:txt|log|md)`,
		`[0-9][a-z.]+\.(?:txt|log|md)`, `(.*)\.(?:txt|log|md)`, `[^a]+\.(?:txt|log|md)`, `(?i)[a-z]+(?:foo|bar)`, `(?:a|b)+\.(txt|log)`, `.*a+\.(txt|log)`, `(?U).*\.(txt|log)`,
		`.{1,3}\.(txt|log)`, `\w+\s*\.(txt|log)`, `[a-z]+(?:aab|aba)`, `.*(?:aab|aba)`, `\w+_(?:one|two)`,
		`[a-z]+(?:\b\.(?:txt|log)){1,2}`, `.*(?:\b\.txt|\b\.log){1,2}`},
	meta.UseMultilineReverseSuffix: {`(?m)^.*\.php`, `(?m)^.+z`, `(?m)^.*?xy`, `(?m)^.*[\w-]+\.t`, `(?m)^.*a.*!`, `(?m)^/.*end`, `(?m)^/.*?\.php`, `(?m)^/.*[\w-]+z`, `(?m)^a.+(?:\.php)`,
		`(?m)^ab.+!`, `(?m)^(?:a|b).*z`, `(?m)^\d.+\.php`, `(?m)^[a-c].*a.*z`, `((?m)^.*z)`, `(?m)^.*(?:y|x)z`, `(?m)^a*.*z`,
		`(?m)^(?:\b/){1,2}.*\.php`},
}

// extra haystacks of a shape (inherited by its mutants): a REJECTED literal occurrence followed by an accepted one, inputs on which
// the start found by the prefix scan is not the match start, inputs that tell a dropped word boundary
var stratExtraHays = map[string][]string{
	`\w+/[^?]*`:              {"/usr/local/bin?x", "//a/b?", "a/b/c?d/e"},
	`\w+@\w+\.\w+`:           {"@a.b x@y.z", "a@b a@b.c", "a@.b@c.d"},
	`[a-z]+@[a-z]+\.[a-z]+`:  {"@a.b x@y.z", "a@b1 a@b.c"},
	`[a-z]+\d*@.*`:           {"1ab@", "a1b2@x", "12@ ab3@"},
	`\w+\s*@a*`:              {" a @aa", "_ @ b  @a"},
	`.+@\d+`:                 {"@1a@2", "a@b@12"},
	`.+foo.+bar.+`:           {"foobar afoobbarc", "afoo\nbar xfooybarz"},
	`.*=.*;.*`:               {"a=b\n;c=d;e", "=;=;"},
	`[ab]+x[ab]*`:            {"xab abxba", "cabxabxb"},
	`(?:\d{1,3}\.?){4}$`:     {"1.2.3.4", "1234", "12345", "a 10.0.0.255", "1.2.3.4.5"},
	`(?:\b\d{1,3}\.?){4}$`:   {"1.2.3.4", "1234", "12345", "a 10.0.0.255", "1.2.3.4.5"},
	`(?:\b\w+ ?){2}$`:        {"ab", "a b", "ab cd", "abcd"},
	`(\b[a-z]+,?){3}$`:       {"abc", "a,b,c", "ab,c"},
	`(?:[a-z]+,?){3}$`:       {"abc", "a,b,c", "ab,c"},
	`(?:[a-z]+\b.?){2}\z`:    {"ab", "a b", "abc"},
	`(?:a\b ?){2,3}\z`:       {"aa", "a a", "a aa"},
	`(a|ab)(c|bcd)\z`:        {"abcd", "xabc", "abcdabc"},
	`.*\.(?:txt|log|md)`:     {"a.txt.log", ".md\nb.md", "x.tx.log"},
	`[a-z]+\.(?:txt|log|md)`: {".txt a.txt", "a1.log b.md", "ab.mdx.txt"},
	`[a-z]+(?:aab|aba)`:      {"aabaaba", "aaba", "baab aba"},
	`(?m)^/.*end`:            {"x/end\n/aend", "/en\n/end end"},
	`(?m)^.*\.php`:           {"a\nb.php.php\n", ".php\n\n.php"},
	`(?m)^ab.+!`:             {"ab!\nabx!", "xab!!\nab!!"},
}

var stratInnerPolicies = []string{"000", "101", "212", "010", "122", "201", "111", "020", "202"}
var stratSetPolicies = []string{"00", "10", "20", "01", "11", "21"}

type stratTarget struct {
	k       meta.Strategy
	p, base string
	ast     *syntax.Regexp
	std     *regexp.Regexp
	reFull  *regexp.Regexp // \A(?:p)\z
	rePre   *regexp.Regexp // inner: \A(?:prefix portion)\z
	eng     *meta.Engine
	ptr     unsafe.Pointer // the searcher
	ctx     *ctxRef

	lits                           [][]byte
	innerLen                       int
	dsl                            []byte
	nullable, startAnch, exact, lb bool
	mz                             bool
	prefix, suf                    []byte
	shape                          bool
	minGap                         int

	bamFields     []string // reverse DFAs configured with BreakAtMatch = true
	lookViolation string
	hypStructural string
}

func b01(x bool) string {
	if x {
		return "1"
	}
	return "0"
}

func stratSpan(loc []int) string {
	if loc == nil {
		return "none"
	}
	return fmt.Sprintf("%d.%d", loc[0], loc[1])
}

func stratSpan3(s, e int, ok bool) string {
	if !ok {
		return "none"
	}
	return fmt.Sprintf("%d.%d", s, e)
}

func stratHexList(bs [][]byte) string {
	if len(bs) == 0 {
		return "-"
	}
	ss := make([]string, len(bs))
	for i, b := range bs {
		ss[i] = hexOf(b)
	}
	return strings.Join(ss, ",")
}

func stratSeqBytes(s *literal.Seq) [][]byte {
	var out [][]byte
	if s == nil {
		return out
	}
	for i := 0; i < s.Len(); i++ {
		out = append(out, append([]byte(nil), s.Get(i).Bytes...))
	}
	return out
}

// the extractor configuration of meta/compile.go (buildReverseSearchers, default Config)
func stratExtractor() *literal.Extractor {
	return literal.New(literal.ExtractorConfig{MaxLiterals: 256, MaxLiteralLen: 64, MaxClassSize: 10})
}

// pairs of a match relation: every (s, e) with re.Match(h[s:e]) — re must be `\A(?:…)\z`
func stratPairTable(re *regexp.Regexp, h []byte) string {
	var mt []string
	for s := 0; s <= len(h); s++ {
		for e := s; e <= len(h); e++ {
			if re.Match(h[s:e]) {
				mt = append(mt, fmt.Sprintf("%d.%d", s, e))
			}
		}
	}
	if len(mt) == 0 {
		return "-"
	}
	return strings.Join(mt, ",")
}

// ctxRef: the end of regexp's leftmost-first match of the pattern that starts EXACTLY at byte offset s, in the context of the whole
// haystack (look-behind sees what stands before s).  Haystacks are ASCII, so `(?s:.{s})` skips exactly s bytes.
type ctxRef struct {
	p  string
	re map[int]*regexp.Regexp
}

func (c *ctxRef) anchAt(h []byte, s int) int {
	re := c.re[s]
	if re == nil {
		re = regexp.MustCompile(fmt.Sprintf(`\A(?s:.{%d})((?:%s))`, s, c.p))
		c.re[s] = re
	}
	loc := re.FindSubmatchIndex(h)
	if loc == nil {
		return -1
	}
	return loc[3]
}

func (c *ctxRef) anchTable(h []byte) []int {
	a := make([]int, len(h)+1)
	for s := range a {
		a[s] = c.anchAt(h, s)
	}
	return a
}

// refFromAnch: the leftmost-first span among the matches that start at or after every offset
func refFromAnch(anch []int) []string {
	n := len(anch) - 1
	ref := make([]string, n+1)
	for at := n; at >= 0; at-- {
		switch {
		case anch[at] >= 0:
			ref[at] = fmt.Sprintf("%d.%d", at, anch[at])
		case at < n:
			ref[at] = ref[at+1]
		default:
			ref[at] = "none"
		}
	}
	return ref
}

func lookKinds(n *nfa.NFA) map[nfa.Look]bool {
	ks := map[nfa.Look]bool{}
	for i := 0; i < n.States(); i++ {
		if s := n.State(nfa.StateID(i)); s != nil && s.Kind() == nfa.StateLook {
			k, _ := s.Look()
			ks[k] = true
		}
	}
	return ks
}

var lookNames = map[nfa.Look]string{nfa.LookStartText: `\A`, nfa.LookEndText: `\z`, nfa.LookStartLine: `(?m)^`, nfa.LookEndLine: `(?m)$`,
	nfa.LookWordBoundary: `\b`, nfa.LookNoWordBoundary: `\B`}

var lazyDFAPtrType = reflect.TypeOf((*lazy.DFA)(nil))
var nfaPtrType = reflect.TypeOf((*nfa.NFA)(nil))

// newStratTarget reads the searcher of the engine; (nil, why, false) = pattern not usable; (nil, why, true) = the struct changed
func newStratTarget(p, base string, k meta.Strategy, eng *meta.Engine, std *regexp.Regexp) (*stratTarget, string, bool) {
	sf := reflect.ValueOf(eng).Elem().FieldByName(stratField[k])
	if !sf.IsValid() {
		return nil, "meta.Engine has no field " + stratField[k], true
	}
	if sf.Kind() != reflect.Pointer || sf.IsNil() {
		return nil, "no searcher", false
	}
	s := sf.Elem()
	ast, err := syntax.Parse(p, syntax.Perl)
	if err != nil {
		return nil, "parse", false
	}
	reFull, err := regexp.Compile(`\A(?:` + p + `)\z`)
	if err != nil {
		return nil, "regexp", false
	}
	t := &stratTarget{k: k, p: p, base: base, ast: ast, std: std, reFull: reFull, eng: eng, ptr: unsafe.Pointer(sf.Pointer()), ctx: &ctxRef{p: p, re: map[int]*regexp.Regexp{}}}
	need := func(names ...string) string {
		for _, n := range names {
			if !s.FieldByName(n).IsValid() {
				return n
			}
		}
		return ""
	}
	switch k {
	case meta.UseReverseInner:
		if m := need("innerLen", "dotStarLiteral", "prefixNullable", "startAnchored", "exactStart", "lineBounded", "reverseDFA", "fullReverseDFA", "forwardNFA"); m != "" {
			return nil, "ReverseInnerSearcher." + m, true
		}
		info := stratExtractor().ExtractInnerForReverseSearch(ast)
		if info == nil || info.PrefixAST == nil || info.Literals == nil {
			return nil, "no inner info", false
		}
		t.rePre, err = regexp.Compile(`\A(?:` + info.PrefixAST.String() + `)\z`)
		if err != nil {
			return nil, "prefix AST does not print to a pattern", false
		}
		t.lits = stratSeqBytes(info.Literals)
		t.innerLen = int(s.FieldByName("innerLen").Int())
		if d := s.FieldByName("dotStarLiteral"); !d.IsNil() {
			t.dsl = append([]byte{}, d.Bytes()...)
		}
		t.nullable, t.startAnch = s.FieldByName("prefixNullable").Bool(), s.FieldByName("startAnchored").Bool()
		t.exact, t.lb = s.FieldByName("exactStart").Bool(), s.FieldByName("lineBounded").Bool()
	case meta.UseReverseAnchored:
		if m := need("reverseDFA", "forwardPikevm"); m != "" {
			return nil, "ReverseAnchoredSearcher." + m, true
		}
	case meta.UseReverseSuffixSet:
		if m := need("suffixLiterals", "matchStartZero", "lineBounded", "reverseDFA", "forwardNFA"); m != "" {
			return nil, "ReverseSuffixSetSearcher." + m, true
		}
		sl := s.FieldByName("suffixLiterals")
		if sl.Kind() != reflect.Pointer || sl.IsNil() {
			return nil, "no suffix literals", false
		}
		t.lits = stratSeqBytes((*literal.Seq)(unsafe.Pointer(sl.Pointer())))
		t.mz, t.lb = s.FieldByName("matchStartZero").Bool(), s.FieldByName("lineBounded").Bool()
	case meta.UseMultilineReverseSuffix:
		if m := need("prefixBytes", "suffixBytes", "suffixLen", "literalShape", "minGap"); m != "" {
			return nil, "MultilineReverseSuffixSearcher." + m, true
		}
		t.lits = stratSeqBytes(stratExtractor().ExtractSuffixes(ast))
		if pb := s.FieldByName("prefixBytes"); !pb.IsNil() {
			t.prefix = append([]byte{}, pb.Bytes()...)
		}
		t.suf = append([]byte{}, s.FieldByName("suffixBytes").Bytes()...)
		if int(s.FieldByName("suffixLen").Int()) != len(t.suf) {
			return nil, "suffixLen != len(suffixBytes)", false
		}
		t.shape, t.minGap = s.FieldByName("literalShape").Bool(), int(s.FieldByName("minGap").Int())
	}
	if k != meta.UseReverseAnchored && len(t.lits) == 0 {
		return nil, "no literals", false
	}

	// ---- hypotheses: the reverse lazy DFAs
	found := map[string]bool{}
	for i := 0; i < s.NumField(); i++ {
		f, name := s.Field(i), s.Type().Field(i).Name
		if f.Type() != lazyDFAPtrType || !strings.Contains(strings.ToLower(name), "reverse") || f.IsNil() {
			continue
		}
		found[name] = true
		d := f.Elem()
		cfg := d.FieldByName("config")
		if !cfg.IsValid() || !cfg.FieldByName("BreakAtMatch").IsValid() {
			t.hypStructural = "lazy.DFA no longer has config.BreakAtMatch"
			continue
		}
		if cfg.FieldByName("BreakAtMatch").Bool() {
			t.bamFields = append(t.bamFields, name)
		}
		if nf := d.FieldByName("nfa"); nf.IsValid() && nf.Type() == nfaPtrType && !nf.IsNil() {
			if ks := lookKinds((*nfa.NFA)(unsafe.Pointer(nf.Pointer()))); len(ks) > 0 {
				t.lookViolation = "the automaton of the reverse DFA `" + name + "` itself has look-around states"
			}
		} else {
			t.hypStructural = "lazy.DFA no longer has the field nfa *nfa.NFA"
		}
	}
	for _, name := range stratRevDFAs[k] {
		if !found[name] {
			t.hypStructural = fmt.Sprintf("%s has no reverse lazy DFA `%s` any more", stratType[k], name)
		}
	}
	// ---- hypotheses: the forward automaton that gets reversed
	if k != meta.UseMultilineReverseSuffix {
		var fwd *nfa.NFA
		if nf := s.FieldByName("forwardNFA"); nf.IsValid() && nf.Type() == nfaPtrType && !nf.IsNil() {
			fwd = (*nfa.NFA)(unsafe.Pointer(nf.Pointer()))
		} else if n, err := nfa.NewDefaultCompiler().Compile(p); err == nil {
			fwd = n
		}
		if fwd != nil {
			var bad []string
			for lk := range lookKinds(fwd) {
				if k == meta.UseReverseAnchored && lk == nfa.LookEndText {
					continue // compensated: the reverse scan starts at the end of the haystack
				}
				bad = append(bad, lookNames[lk])
			}
			sort.Strings(bad)
			if len(bad) > 0 && t.lookViolation == "" {
				t.lookViolation = "its automaton has the look-around states " + strings.Join(bad, " ")
			}
		}
	}
	return t, "", false
}

func stratASCII(h []byte) []byte {
	for i, b := range h {
		if b >= 0x80 {
			h[i] = 'a' + b%26
		}
	}
	return h
}

func stratSample(rng *RNG, ast *syntax.Regexp) []byte {
	b := 40
	m := stratASCII(sampleMatch(rng, ast, nil, &b))
	if len(m) > 12 {
		m = m[:12]
	}
	return m
}

// stratHaystacks: empty, literal-derived (the literal alone, doubled, with newlines around, an occurrence nothing stands before
// followed by a whole match), candidate-dense, the shape's own extras, and nGen pattern-derived random ones; ASCII, at most 18 bytes.
func stratHaystacks(rng *RNG, t *stratTarget, nGen int) [][]byte {
	var hs [][]byte
	seen := map[string]bool{}
	add := func(parts ...[]byte) {
		h := stratASCII(bytes.Join(parts, nil))
		if len(h) > 18 {
			h = h[:18]
		}
		if !seen[string(h)] {
			seen[string(h)] = true
			hs = append(hs, h)
		}
	}
	m, m2 := stratSample(rng, t.ast), stratSample(rng, t.ast)
	L := m
	if len(t.lits) > 0 {
		L = t.lits[0]
	}
	if t.k == meta.UseMultilineReverseSuffix {
		L = t.suf
	}
	L2 := L
	if len(t.lits) > 1 {
		L2 = t.lits[len(t.lits)-1]
	}
	f := []byte{'a'}
	for _, c := range m {
		if !bytes.Contains(L, []byte{c}) && c != '\n' {
			f = []byte{c}
			break
		}
	}
	nl := []byte("\n")
	add()
	add(L)
	add(L, L2)
	add([]byte("a"), L, L)
	add([]byte("a\n"), L, nl)
	add(L, nl, m)
	add(L, m) // an occurrence with nothing before it, then a whole match
	if len(m) > 1 {
		add(m[:len(m)/2], []byte(" "), m2) // a match cut short, then a whole one
	}
	add(f, L2, nl, f, f, L)
	for _, x := range stratExtraHays[t.base] {
		add([]byte(x))
	}
	// candidate-dense
	add(bytes.Repeat(L, 6))
	add(bytes.Repeat(append(append([]byte{}, f...), L...), 5))
	add(f, bytes.Repeat(L, 3), f, L2, f)
	add(bytes.Repeat(bytes.Join([][]byte{f, f, L, nl}, nil), 3))
	if t.k == meta.UseMultilineReverseSuffix {
		line := bytes.Join([][]byte{t.prefix, f, t.suf}, nil)
		add(line, nl, line)
		add(f, t.suf, nl, t.prefix, t.suf, nl, line)
		add(bytes.Repeat(t.suf, 3), nl, line)
	}
	for k, tries := 0, 0; k < nGen && tries < 40; tries++ {
		before := len(hs)
		add(GenHaystack(rng, t.ast, true))
		if len(hs) > before {
			k++
		}
	}
	return hs
}

// stratFindFailing searches an input on which the real engine (FindIndicesAt at every offset, IsMatch) differs from regexp:
// the tie's own haystacks, more pattern-derived ones, and all strings over a small pattern-derived alphabet up to length 5.
func stratFindFailing(rng *RNG, t *stratTarget) (string, map[string]any) {
	hs := stratHaystacks(rng, t, 60)
	alpha := []byte{}
	addA := func(bs []byte) {
		for _, c := range bs {
			if c < 0x80 && len(alpha) < 4 && !bytes.Contains(alpha, []byte{c}) {
				alpha = append(alpha, c)
			}
		}
	}
	for _, l := range t.lits {
		addA(l[:1])
	}
	for i := 0; i < 6; i++ {
		addA(stratSample(rng, t.ast))
	}
	addA([]byte("a1 ."))
	if !bytes.Contains(alpha, []byte{'\n'}) {
		alpha = append(alpha, '\n')
	}
	var gen func(pre []byte, l int)
	gen = func(pre []byte, l int) {
		hs = append(hs, append([]byte(nil), pre...))
		if l == 0 {
			return
		}
		for _, b := range alpha {
			gen(append(pre, b), l-1)
		}
	}
	gen(nil, 5)
	for _, h := range hs {
		anch := t.ctx.anchTable(h)
		refs := refFromAnch(anch)
		if im := t.eng.IsMatch(h); im != (refs[0] != "none") {
			return fmt.Sprintf("IsMatch of %q on %q: coregex=%v regexp=%v", t.p, h, im, !im),
				map[string]any{"pattern": t.p, "haystack_hex": hexOf(h), "api": "Match", "coregex": fmt.Sprint(im), "regexp": fmt.Sprint(!im)}
		}
		for at := 0; at <= len(h); at++ {
			s, e, ok := t.eng.FindIndicesAt(h, at)
			if got := stratSpan3(s, e, ok); got != refs[at] {
				return fmt.Sprintf("FindIndicesAt of %q on %q at=%d: coregex=%s regexp=%s", t.p, h, at, got, refs[at]),
					map[string]any{"pattern": t.p, "haystack_hex": hexOf(h), "at": at, "api": "FindIndicesAt", "coregex": got, "regexp": refs[at]}
			}
		}
	}
	return "", nil
}
