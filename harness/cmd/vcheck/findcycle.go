package main

import (
	"fmt"
	"regexp/syntax"
)

// cmdFindCycle (maintenance): patterns whose parsed AST has a Sub0 link (parser free-list residue) that closes a cycle.
func cmdFindCycle(args []string) int {
	found := 0
	for seed := 1; seed <= 400 && found < 5; seed++ {
		root := NewRNG(uint64(seed))
		for i := 0; i < 1500; i++ {
			rg := root.Fork(uint64(i) + 1)
			p := patternSource(rg, i, GenOpts{MaxDepth: 3})
			re, err := syntax.Parse(p, syntax.Perl)
			if err != nil {
				continue
			}
			onPath := map[*syntax.Regexp]bool{}
			cyc := false
			var walk func(n *syntax.Regexp, d int)
			walk = func(n *syntax.Regexp, d int) {
				if n == nil || cyc || d > 2000 {
					return
				}
				if onPath[n] {
					cyc = true
					return
				}
				onPath[n] = true
				for _, s := range n.Sub {
					walk(s, d+1)
				}
				for _, s := range n.Sub0 {
					walk(s, d+1)
				}
				delete(onPath, n)
			}
			walk(re, 0)
			if cyc {
				fmt.Printf("%q\n", p)
				found++
				if found >= 5 {
					break
				}
			}
		}
	}
	return 0
}
