package main

import (
	"bufio"
	"bytes"
	"encoding/hex"
	"fmt"
	"os"
	"os/exec"
	"regexp"
	"regexp/syntax"
	"strings"
	"time"
	"unsafe"

	"github.com/coregx/coregex"
)

func init() { checks["C07"] = checkC07 }

var c07Templates = []string{`foo.*?bar`, `\d+`, `[a-z]+[0-9]+`, `(foo|bar|baz)qux`, `^(\d+|UUID|hex32)`, `.*\.txt$`, `\w+@\w+\.com`, `(?i)hello`, `error|warning|fatal`,
	`\d{1,3}\.\d{1,3}`, `(?m)^/.*\.php`, `.*error.*`, `^/api/.*\.json$`, `a(b|c)*d`, `[^,]+,`, `(\w+)\s(\w+)`, `x*`, `hello`, `\bfoo\b`, `.*\.(txt|log|md)`, `^/.*\.php`,
	`(a|ab)(c|bcd)(d*)`, `[a-z]+connection[a-z]+`, `(?s)a.+b`, `\b\w+\b`, `é+`, `[^a]\b`, `(?:)`, `a|b|c|d|e|f|g|h|i|j|k|l|m|n|o|p|q|r|s|t|u|v|w|x|y|z|aa|bb|cc|dd|ee|ff|gg|hh|ii|jj|kk`,
	`.`, `(?s).`, `\pL+`, `(x+x+)+y`, `[[:alpha:]]+\d`,
	// anchored prefix / suffix literals that can overlap in a short haystack
	`^abc.*bcd$`, `^ab.*ab$`, `^hello.+lox$`, `^aa.*a$`}

// wellFormed checks every result of every search API on (re, h) and returns a description of the first problem ("" = fine).
func wellFormed(re *coregex.Regex, h []byte) string {
	n := len(h)
	inb := func(s, e int) bool { return 0 <= s && s <= e && e <= n }
	if loc := re.FindIndex(h); loc != nil {
		if len(loc) != 2 || !inb(loc[0], loc[1]) {
			return fmt.Sprintf("FindIndex=%v outside [0,%d]", loc, n)
		}
		f := re.Find(h)
		if len(f) != loc[1]-loc[0] || (len(f) > 0 && unsafe.SliceData(f) != unsafe.SliceData(h[loc[0]:])) {
			return fmt.Sprintf("Find does not alias the input at FindIndex=%v", loc)
		}
	} else if re.Find(h) != nil {
		return "Find != nil while FindIndex == nil"
	}
	if sm := re.FindSubmatchIndex(h); sm != nil {
		if len(sm) != 2*(re.NumSubexp()+1) || !inb(sm[0], sm[1]) {
			return fmt.Sprintf("FindSubmatchIndex=%v malformed (NumSubexp=%d)", sm, re.NumSubexp())
		}
		for g := 1; 2*g+1 < len(sm); g++ {
			a, b := sm[2*g], sm[2*g+1]
			if (a < 0) != (b < 0) || (a >= 0 && !(sm[0] <= a && a <= b && b <= sm[1])) {
				return fmt.Sprintf("group %d = [%d,%d] not inside the match [%d,%d]", g, a, b, sm[0], sm[1])
			}
		}
		subs := re.FindSubmatch(h)
		for g, sl := range subs {
			if 2*g+1 < len(sm) && sm[2*g] >= 0 && len(sl) > 0 && unsafe.SliceData(sl) != unsafe.SliceData(h[sm[2*g]:]) {
				return fmt.Sprintf("FindSubmatch group %d does not alias the input", g)
			}
		}
	}
	prevS, prevE := -1, -1
	all := re.FindAllIndex(h, -1)
	for _, m := range all {
		if len(m) != 2 || !inb(m[0], m[1]) || m[0] < prevE || m[0] <= prevS {
			return fmt.Sprintf("FindAllIndex not ordered/non-overlapping/in bounds: %v after [%d,%d]", m, prevS, prevE)
		}
		prevS, prevE = m[0], m[1]
	}
	for i, b := range re.FindAll(h, -1) {
		if i < len(all) && len(b) > 0 && unsafe.SliceData(b) != unsafe.SliceData(h[all[i][0]:]) {
			return "FindAll element does not alias the input"
		}
	}
	cnt := 0
	for m := range re.AllIndex(h) {
		if !inb(m[0], m[1]) {
			return fmt.Sprintf("AllIndex yields %v", m)
		}
		cnt++
		if cnt > n+2 {
			return "AllIndex does not terminate (more matches than positions)"
		}
	}
	re.Match(h)
	re.Count(h, -1)
	re.ReplaceAll(h, []byte("$0x"))
	re.Split(string(h), -1)
	return ""
}

// c07Worker: prints TRY <kind> <hex…> before each unit so that a fatal crash names its input; PROBLEM lines for ill-formed
// results / panics; DONE n at the end.
func c07Worker(seed uint64, thorough bool, part string) int {
	w := bufio.NewWriter(os.Stdout)
	defer w.Flush()
	rng := NewRNG(seed)
	n := 0
	try := func(kind string, parts ...[]byte) {
		fmt.Fprintf(w, "TRY %s", kind)
		for _, p := range parts {
			fmt.Fprintf(w, " %s", hexOf(p))
		}
		fmt.Fprintln(w)
		w.Flush()
	}
	safe := func(desc string, f func() string) {
		res := guard(30*time.Second, f)
		if res == "TIMEOUT" {
			// a deadline missed on a busy machine is not a hang: the same call once more with a long deadline
			res = guard(240*time.Second, f)
		}
		n++
		if res != "" {
			fmt.Fprintf(w, "PROBLEM %s: %s\n", desc, res)
		}
	}
	if part == "big" {
		// inputs of several megabytes: the depth of a search must not grow with the haystack (a recursive engine dies with a
		// stack overflow that no recover() can catch: the worker's death, with the input in flight, is the report)
		cases := []struct {
			p, unit string
			n       int
		}{{`^[a-z]+`, "a", 6 << 20}, {`([a-z])+`, "a", 3 << 20}, {`(\w{2,8})+`, "ab", 1 << 20}, {`(?:a|b)*c`, "ab", 2 << 20}, {`[a-z]+[0-9]`, "a", 4 << 20}, {`^.*x`, "a", 6 << 20}}
		if thorough {
			cases = append(cases, struct {
				p, unit string
				n       int
			}{`^[a-z]+`, "a", 24 << 20}, struct {
				p, unit string
				n       int
			}{`(a*)*b`, "a", 4 << 20}, struct {
				p, unit string
				n       int
			}{`((a|b)+)$`, "ab", 3 << 20})
		}
		for _, c := range cases {
			re, err := coregex.Compile(c.p)
			if err != nil {
				continue
			}
			h := bytes.Repeat([]byte(c.unit), c.n)
			try("big", []byte(c.p), []byte(fmt.Sprint(len(h))))
			res := guard(240*time.Second, func() string {
				loc := re.FindIndex(h)
				if loc != nil && (loc[0] < 0 || loc[1] > len(h) || loc[0] > loc[1]) {
					return fmt.Sprintf("FindIndex out of bounds: %v", loc)
				}
				m := re.Match(h)
				if m != (loc != nil) {
					return fmt.Sprintf("Match=%v but FindIndex=%v", m, loc)
				}
				cnt := re.Count(h, 3)
				if (cnt > 0) != m {
					return fmt.Sprintf("Count=%d but Match=%v", cnt, m)
				}
				return ""
			})
			n++
			if res != "" {
				fmt.Fprintf(w, "PROBLEM big input %q on %q x %d: %s\n", c.p, c.unit, c.n, res)
			}
			w.Flush()
		}
		// matches far apart in a haystack beyond the bounded backtracker's capacity, also in leftmost-longest mode (windowed
		// fallbacks translate offsets): every span in bounds, FindAll does not panic, the enumeration equals regexp's
		for _, c := range []struct {
			p       string
			longest bool
		}{{`([a-z]{2,8})+`, true}, {`([a-z]{2,8})+`, false}, {`(\w+)\s(\w+)`, true}, {`[a-z]+[0-9]`, false}} {
			re, err := coregex.Compile(c.p)
			if err != nil {
				continue
			}
			std := regexp.MustCompile(c.p)
			if c.longest {
				re.Longest()
				std.Longest()
			}
			h := append(append(bytes.Repeat([]byte(" "), 2<<20), "foo bar baz qux1 "...), bytes.Repeat([]byte(" "), 3<<19)...)
			try("bigsparse", []byte(c.p), []byte(fmt.Sprint(len(h), c.longest)))
			res := guard(240*time.Second, func() string {
				got := re.FindAllIndex(h, -1)
				for _, m := range got {
					if m[0] < 0 || m[1] > len(h) || m[0] > m[1] {
						return fmt.Sprintf("FindAllIndex span out of bounds: %v (len %d)", m, len(h))
					}
				}
				if want := std.FindAllIndex(h, -1); fmt.Sprint(got) != fmt.Sprint(want) {
					return fmt.Sprintf("FindAllIndex=%v regexp=%v", got, want)
				}
				_ = re.FindAll(h, -1)
				return ""
			})
			n++
			if res != "" {
				fmt.Fprintf(w, "PROBLEM big sparse input %q (longest=%v) on 2 MiB of spaces + \"foo bar baz qux1 \" + 1.5 MiB of spaces: %s\n", c.p, c.longest, res)
			}
			w.Flush()
		}
		fmt.Fprintf(w, "DONE %d\n", n)
		return 0
	}
	if part == "compile" {
		// arbitrary strings as patterns
		np := 3000
		if thorough {
			np = 40000
		}
		alpha := []byte(`ab01.*+?()[]{}|^$\-,:=<>!PpdwsSDWbBAzQEix` + "\xc3\xa9\xff\x00 \n")
		for i := 0; i < np; i++ {
			var p []byte
			switch i % 4 {
			case 0:
				for k := rng.Intn(14); k > 0; k-- {
					p = append(p, alpha[rng.Intn(len(alpha))])
				}
			case 1:
				p = []byte(patternSource(rng, i, GenOpts{MaxDepth: 3}))
				if len(p) > 0 {
					p[rng.Intn(len(p))] = alpha[rng.Intn(len(alpha))]
				}
			case 2:
				p = []byte(genPatternString(rng, 5+(i%5)))
			default:
				p = []byte(patternSource(rng, i, GenOpts{MaxDepth: 4}))
			}
			try("compile", p)
			safe(fmt.Sprintf("Compile(%q)", p), func() string {
				re, err := coregex.Compile(string(p))
				if err != nil || re == nil {
					return ""
				}
				ast, _ := syntax.Parse(string(p), syntax.Perl)
				if ast == nil {
					return ""
				}
				for k := 0; k < 3; k++ {
					h := GenHaystack(rng, ast, false)
					if s := wellFormed(re, h); s != "" {
						return fmt.Sprintf("on %q: %s", h, s)
					}
				}
				return ""
			})
		}
	} else {
		// haystacks against guard pages: every length 0..L, both placements, read-only data
		g := newGuarded()
		maxL := 70
		if thorough {
			maxL = 130
		}
		for _, p := range c07Templates {
			re, err := coregex.Compile(p)
			if err != nil {
				continue
			}
			ast, _ := syntax.Parse(p, syntax.Perl)
			for ln := 0; ln <= maxL; ln++ {
				if !thorough && ln > 34 && ln%3 != 0 {
					continue
				}
				var data []byte
				for len(data) < ln {
					data = append(data, GenHaystack(rng, ast, false)...)
					data = append(data, ' ')
				}
				data = data[:ln]
				variants := [][]byte{data}
				if ln > 0 && (thorough || ln%2 == 1 || ln > 30) {
					// a haystack without any byte of the pattern: prefilter kernels scan it to the very end (and the tail code
					// of a vector kernel runs on exactly ln%32 / ln%16 bytes)
					variants = append(variants, bytes.Repeat([]byte{'q'}, ln), bytes.Repeat([]byte{0xff}, ln))
				}
				for vi := 0; vi < 2*len(variants); vi++ {
					data, atEnd := variants[vi/2], vi%2 == 0
					h := g.place(data, atEnd)
					try("guard", []byte(p), h)
					safe(fmt.Sprintf("%q on %d bytes against the %s guard page", p, ln, map[bool]string{true: "trailing", false: "leading"}[atEnd]), func() string {
						s := wellFormed(re, h)
						if s == "" && !bytes.Equal(h, data) {
							s = "haystack modified"
						}
						return s
					})
				}
			}
		}
		// excisions: a sampled match with every middle piece cut out (m[:i]+m[j:]) — the parts of a pattern then meet or overlap in
		// the haystack (prefix and suffix literals sharing bytes, a repetition shortened below its minimum, a group left empty)
		for _, p := range c07Templates {
			re, err := coregex.Compile(p)
			if err != nil {
				continue
			}
			ast, _ := syntax.Parse(p, syntax.Perl)
			for k := 0; k < 4; k++ {
				budget := 40
				m := sampleMatch(rng, ast, nil, &budget)
				if len(m) > 14 {
					m = m[:14]
				}
				for i := 0; i <= len(m); i++ {
					for j := i + 1; j <= len(m); j++ {
						data := append(append([]byte(nil), m[:i]...), m[j:]...)
						h := g.place(data, (i+j)%2 == 0)
						try("excision", []byte(p), h)
						safe(fmt.Sprintf("%q on the excision %q of the sampled match %q", p, data, m), func() string {
							s := wellFormed(re, h)
							if s == "" && !bytes.Equal(h, data) {
								s = "haystack modified"
							}
							return s
						})
					}
				}
			}
		}
		// large inputs crossing internal thresholds
		for _, p := range []string{`(\w+)\s(\w+)`, `.*error.*`, `[^,]+,`, `(a|b)*c`} {
			re, err := coregex.Compile(p)
			if err != nil {
				continue
			}
			for _, sz := range []int{4095, 4097, 70000, 300000} {
				h := bytes.Repeat([]byte("ab ,errox "), sz/10+1)[:sz]
				try("large", []byte(p), []byte(fmt.Sprint(sz)))
				safe(fmt.Sprintf("%q on %d bytes", p, sz), func() string { return wellFormed(re, h) })
			}
		}
	}
	fmt.Fprintf(w, "DONE %d\n", n)
	return 0
}

func checkC07(r *Report, known []Finding) {
	r.Rule = "worker processes (a crash, fatal error or deadline names the input in flight): (a) arbitrary byte strings, near-valid edits and limit probes offered as patterns, then searched on derived " +
		"haystacks; (b) every search API on strategy templates with the haystack placed against inaccessible pages (ending at / starting at the guard, data pages read-only) for every length 0..70 " +
		"(130 thorough), and on large inputs crossing internal thresholds; on every result: spans in bounds and ordered, groups inside the match, enumerations ordered and non-overlapping, " +
		"returned slices alias the input at the reported offsets, haystack unchanged; non-trivial = the pattern compiles and is searched; distinct by input"
	self, _ := os.Executable()
	for _, part := range []string{"compile", "guard", "big"} {
		cmd := exec.Command(self, "c07worker", fmt.Sprint(r.Seed), r.Tier, part)
		cmd.Env = os.Environ()
		var out bytes.Buffer
		cmd.Stdout = &out
		cmd.Stderr = &out
		err := cmd.Run()
		t := r.Tie("no panic / crash / stray access / ill-formed result: " + part)
		last := ""
		done := false
		for _, l := range strings.Split(out.String(), "\n") {
			switch {
			case strings.HasPrefix(l, "TRY "):
				last = l
				r.distinct[l] = true
			case strings.HasPrefix(l, "PROBLEM "):
				t.Disagreements++
				kind := "ill-formed-result"
				if strings.Contains(l, "PANIC") {
					kind = "panic"
				} else if strings.Contains(l, "TIMEOUT") {
					kind = "timeout"
				}
				attrs := map[string]string{"kind": kind, "part": part}
				if strings.HasPrefix(last, "TRY ") {
					f := strings.Fields(last)
					if len(f) >= 3 {
						if pb, e := hex.DecodeString(strings.TrimPrefix(f[2], "-")); e == nil {
							attrs["strategy"] = strategyOf(string(pb))
						}
					}
				}
				if f := matchKnown(known, "C07", attrs); f != nil {
					r.Known(f, map[string]string{"problem": l, "input": last})
					continue
				}
				r.Violate(l[len("PROBLEM "):], map[string]any{"problem": l, "input_in_flight": last, "attrs": attrs}, false)
			case strings.HasPrefix(l, "DONE"):
				var n int
				fmt.Sscanf(l, "DONE %d", &n)
				t.Cases += n
				r.Evaluations += n
				done = true
			}
		}
		if err != nil || !done {
			tail := out.String()
			if len(tail) > 3000 {
				tail = tail[len(tail)-3000:]
			}
			r.Violate(fmt.Sprintf("worker (%s) died: %v; input in flight: %s", part, err, last), map[string]any{"input_in_flight": last, "output_tail": tail}, false)
		}
	}
	r.Sample(map[string]any{"templates": c07Templates[:6], "placements": []string{"ends at trailing guard page", "starts after leading guard page"}})
	replayKnownExamples(r, known, "C07")
}
