// vcheck — the Go side of the /verif machinery: dumps artifacts from the code under /repo, runs the
// correspondence between the Lean models (through cxdrv) and the implementation, searches for failing
// inputs when a tie breaks, and writes evidence.
package main

import (
	"fmt"
	"os"
)

func main() {
	if len(os.Args) < 2 {
		fmt.Fprintln(os.Stderr, "usage: vcheck <explore|check> ...")
		os.Exit(2)
	}
	switch os.Args[1] {
	case "rwfacts":
		os.Exit(extraCmds["rwfacts"](os.Args[2:]))
	case "explore":
		os.Exit(cmdExplore(os.Args[2:]))
	case "check":
		os.Exit(cmdCheck(os.Args[2:]))
	case "findcycle":
		os.Exit(cmdFindCycle(os.Args[2:]))
	case "learn":
		os.Exit(cmdLearn(os.Args[2:]))
	case "c05worker":
		n := 8192
		from := 0
		fmt.Sscan(os.Args[2], &n)
		if len(os.Args) > 3 {
			fmt.Sscan(os.Args[3], &from)
		}
		os.Exit(c05Worker(n, from))
	case "c07worker":
		var seed uint64 = 1
		fmt.Sscan(os.Args[2], &seed)
		os.Exit(c07Worker(seed, os.Args[3] == "thorough", os.Args[4]))
	case "c06worker":
		var seed uint64 = 1
		rounds := 3
		fmt.Sscan(os.Args[2], &seed)
		fmt.Sscan(os.Args[3], &rounds)
		os.Exit(c06Worker(seed, rounds))
	case "c16worker":
		var seed uint64
		fmt.Sscan(os.Args[2], &seed)
		os.Exit(c16Worker(seed, os.Args[3]))
	case "c18worker":
		n := 130
		fmt.Sscan(os.Args[2], &n)
		os.Exit(c18Worker(n, len(os.Args) > 3 && os.Args[3] == "thorough"))
	default:
		fmt.Fprintln(os.Stderr, "unknown command", os.Args[1])
		os.Exit(2)
	}
}
