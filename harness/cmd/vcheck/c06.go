package main

import (
	"bufio"
	"bytes"
	"fmt"
	"go/ast"
	"go/parser"
	"go/printer"
	"go/token"
	"os"
	"os/exec"
	"path/filepath"
	"regexp"
	"regexp/syntax"
	"sort"
	"strings"
	"sync"

	"github.com/coregx/coregex"
)

func init() { checks["C06"] = checkC06 }

// sharedAccessFacts lists, for the packages that implement searching, every use inside a method of a long-lived shared
// object (the method's receiver: Engine, the reverse searchers, lazy.DFA, CompositeSearcher, BoundedBacktracker users)
// of scratch state that is NOT per-search: receiver.pikevm, receiver.<…>Backtracker.{IsMatch,IsMatchAnchored,Search,SearchAt}
// (the variants that use the engine's internal state), receiver.matchLengths.  Fact = "pkg.Func: expr".
func sharedAccessFacts(repo string, unsafeTypes map[string]bool) ([]string, error) {
	var facts []string
	dirs := []string{"meta", "dfa/lazy", "nfa", "dfa/onepass", "prefilter", "."}
	for _, d := range dirs {
		fs := token.NewFileSet()
		pkgs, err := parser.ParseDir(fs, filepath.Join(repo, d), func(fi os.FileInfo) bool {
			return !strings.HasSuffix(fi.Name(), "_test.go") && !strings.HasSuffix(fi.Name(), "_verif.go")
		}, 0)
		if err != nil {
			return nil, err
		}
		for _, pkg := range pkgs {
			// fields of struct types that hold a simulator with embedded scratch state: *PikeVM / *nfa.PikeVM
			simFields := map[string]map[string]bool{}
			for _, f := range pkg.Files {
				ast.Inspect(f, func(n ast.Node) bool {
					ts, ok := n.(*ast.TypeSpec)
					if !ok {
						return true
					}
					st, ok := ts.Type.(*ast.StructType)
					if !ok {
						return true
					}
					for _, fld := range st.Fields.List {
						var buf bytes.Buffer
						printer.Fprint(&buf, fs, fld.Type)
						t := buf.String()
						bare := strings.TrimPrefix(t, "*")
						if k := strings.LastIndex(bare, "."); k >= 0 {
							bare = bare[k+1:]
						}
						if unsafeTypes[bare] {
							for _, nm := range fld.Names {
								if simFields[ts.Name.Name] == nil {
									simFields[ts.Name.Name] = map[string]bool{}
								}
								simFields[ts.Name.Name][nm.Name] = true
							}
						}
					}
					return true
				})
			}
			for _, f := range pkg.Files {
				for _, decl := range f.Decls {
					fd, ok := decl.(*ast.FuncDecl)
					if !ok || fd.Recv == nil || len(fd.Recv.List) == 0 || len(fd.Recv.List[0].Names) == 0 || fd.Body == nil {
						continue
					}
					recv := fd.Recv.List[0].Names[0].Name
					rt := ""
					switch t := fd.Recv.List[0].Type.(type) {
					case *ast.StarExpr:
						if id, ok := t.X.(*ast.Ident); ok {
							rt = id.Name
						}
					case *ast.Ident:
						rt = t.Name
					}
					name := fd.Name.Name
					// configuration-time methods: not search paths
					if strings.HasPrefix(name, "Set") || strings.HasPrefix(name, "New") || strings.HasPrefix(name, "build") || strings.HasPrefix(name, "Compile") ||
						rt == "PikeVM" || rt == "PikeVMState" || rt == "BoundedBacktracker" || rt == "SearchState" || rt == "Builder" {
						continue
					}
					fn := fmt.Sprintf("%s.(*%s).%s", pkg.Name, rt, name)
					ast.Inspect(fd.Body, func(n ast.Node) bool {
						switch x := n.(type) {
						case *ast.SelectorExpr:
							if id, ok := x.X.(*ast.Ident); ok && id.Name == recv {
								if simFields[rt][x.Sel.Name] {
									facts = append(facts, fn+": "+recv+"."+x.Sel.Name)
								}
							}
						}
						return true
					})
				}
			}
		}
	}
	sort.Strings(facts)
	// de-duplicate
	var out []string
	for i, f := range facts {
		if i == 0 || facts[i-1] != f {
			out = append(out, f)
		}
	}
	return out, nil
}

// slotLoadFacts: the single-slot caches in front of the pools (atomic.Pointer[T] fields: localState, localRun, localScratch, …) hand a
// per-search object to exactly one search only if it is TAKEN with Swap(nil) (or CompareAndSwap); Load() returns the pointer while
// leaving it in the slot for the next goroutine.  Fact = a call <recv>.<slot>.Load() whose result is used for anything but a
// comparison with nil.
func slotLoadFacts(repo string) ([]string, error) {
	var facts []string
	for _, d := range []string{"meta", "dfa/lazy", "nfa", "dfa/onepass", "prefilter", "."} {
		fs := token.NewFileSet()
		pkgs, err := parser.ParseDir(fs, filepath.Join(repo, d), func(fi os.FileInfo) bool {
			return !strings.HasSuffix(fi.Name(), "_test.go") && !strings.HasSuffix(fi.Name(), "_verif.go")
		}, 0)
		if err != nil {
			return nil, err
		}
		for _, pkg := range pkgs {
			slots := map[string]bool{}
			for _, f := range pkg.Files {
				ast.Inspect(f, func(n ast.Node) bool {
					if fld, ok := n.(*ast.Field); ok {
						var buf bytes.Buffer
						printer.Fprint(&buf, fs, fld.Type)
						if strings.HasPrefix(buf.String(), "atomic.Pointer[") {
							for _, nm := range fld.Names {
								slots[nm.Name] = true
							}
						}
					}
					return true
				})
			}
			for _, f := range pkg.Files {
				for _, decl := range f.Decls {
					fd, ok := decl.(*ast.FuncDecl)
					if !ok || fd.Body == nil {
						continue
					}
					var stack []ast.Node
					ast.Inspect(fd.Body, func(n ast.Node) bool {
						if n == nil {
							stack = stack[:len(stack)-1]
							return true
						}
						stack = append(stack, n)
						call, ok := n.(*ast.CallExpr)
						if !ok || len(call.Args) != 0 {
							return true
						}
						sel, ok := call.Fun.(*ast.SelectorExpr)
						if !ok || sel.Sel.Name != "Load" {
							return true
						}
						inner, ok := sel.X.(*ast.SelectorExpr)
						if !ok || !slots[inner.Sel.Name] {
							return true
						}
						// allowed: the result is only compared with nil
						if len(stack) >= 2 {
							if be, ok := stack[len(stack)-2].(*ast.BinaryExpr); ok && (be.Op == token.NEQ || be.Op == token.EQL) {
								other := be.Y
								if be.Y == ast.Expr(call) {
									other = be.X
								}
								if id, ok := other.(*ast.Ident); ok && id.Name == "nil" {
									return true
								}
							}
						}
						facts = append(facts, fmt.Sprintf("%s.%s: %s.Load() at %s is used as a value (a per-search object must be taken out of its slot with Swap(nil))",
							pkg.Name, fd.Name.Name, inner.Sel.Name, fs.Position(call.Pos()).String()[len(repo)+1:]))
						return true
					})
				}
			}
		}
	}
	sort.Strings(facts)
	return facts, nil
}

// stateOwnershipFacts: the getSearchState/putSearchState protocol modelled by Cx.State.Pool assumes that a state is put
// back exactly by the call that took it.  Fact = a putSearchState(x) call (also deferred) for which no statement list
// enclosing the call contains, before it, the assignment x := recv.getSearchState() — i.e. the state was borrowed from a
// caller (a parameter) or taken in a nested branch only, and is returned to the pool while the owner still uses it.
func stateOwnershipFacts(repo string) ([]string, error) {
	var facts []string
	fs := token.NewFileSet()
	pkgs, err := parser.ParseDir(fs, filepath.Join(repo, "meta"), func(fi os.FileInfo) bool {
		return !strings.HasSuffix(fi.Name(), "_test.go") && !strings.HasSuffix(fi.Name(), "_verif.go")
	}, 0)
	if err != nil {
		return nil, err
	}
	isCall := func(e ast.Expr, name string) (*ast.CallExpr, bool) {
		c, ok := e.(*ast.CallExpr)
		if !ok {
			return nil, false
		}
		sel, ok := c.Fun.(*ast.SelectorExpr)
		return c, ok && sel.Sel.Name == name
	}
	for _, pkg := range pkgs {
		for _, f := range pkg.Files {
			for _, decl := range f.Decls {
				fd, ok := decl.(*ast.FuncDecl)
				if !ok || fd.Body == nil || fd.Name.Name == "putSearchState" || fd.Name.Name == "getSearchState" {
					continue
				}
				fn := fd.Name.Name
				var walk func(list []ast.Stmt, owned map[string]bool)
				checkExpr := func(n ast.Node, owned map[string]bool) {
					ast.Inspect(n, func(x ast.Node) bool {
						if _, isLit := x.(*ast.FuncLit); isLit {
							return false
						}
						if c, ok := x.(ast.Expr); ok {
							if call, ok := isCall(c, "putSearchState"); ok && len(call.Args) == 1 {
								if id, ok := call.Args[0].(*ast.Ident); ok && !owned[id.Name] {
									facts = append(facts, fmt.Sprintf("meta.%s: putSearchState(%s) at %s returns a state this call did not take (no %s := getSearchState() in an enclosing statement list before it)",
										fn, id.Name, fs.Position(call.Pos()).String()[len(repo)+1:], id.Name))
								}
							}
						}
						return true
					})
				}
				walk = func(list []ast.Stmt, owned map[string]bool) {
					mine := map[string]bool{}
					for k, v := range owned {
						mine[k] = v
					}
					for _, st := range list {
						switch x := st.(type) {
						case *ast.AssignStmt:
							for i, rhs := range x.Rhs {
								if _, ok := isCall(rhs, "getSearchState"); ok && i < len(x.Lhs) {
									if id, ok := x.Lhs[i].(*ast.Ident); ok {
										mine[id.Name] = true
									}
								}
							}
							checkExpr(x, mine)
						case *ast.BlockStmt:
							walk(x.List, mine)
						case *ast.IfStmt:
							if x.Init != nil {
								checkExpr(x.Init, mine)
							}
							walk(x.Body.List, mine)
							if x.Else != nil {
								walk([]ast.Stmt{x.Else}, mine)
							}
						case *ast.ForStmt:
							walk(x.Body.List, mine)
						case *ast.RangeStmt:
							walk(x.Body.List, mine)
						case *ast.SwitchStmt:
							for _, c := range x.Body.List {
								walk(c.(*ast.CaseClause).Body, mine)
							}
						case *ast.TypeSwitchStmt:
							for _, c := range x.Body.List {
								walk(c.(*ast.CaseClause).Body, mine)
							}
						case *ast.SelectStmt:
							for _, c := range x.Body.List {
								walk(c.(*ast.CommClause).Body, mine)
							}
						case *ast.LabeledStmt:
							walk([]ast.Stmt{x.Stmt}, mine)
						default:
							checkExpr(st, mine)
						}
					}
				}
				walk(fd.Body.List, map[string]bool{})
			}
		}
	}
	sort.Strings(facts)
	return facts, nil
}

var c06Templates = []string{`foo.*?bar`, `\d+`, `[a-z]+[0-9]+`, `(foo|bar|baz)qux`, `^(\d+|UUID|hex32)`, `.*\.txt$`, `\w+@\w+\.com`, `(?i)hello`, `error|warning|fatal`,
	`\d{1,3}\.\d{1,3}`, `(?m)^/.*\.php`, `.*error.*`, `^/api/.*\.json$`, `a(b|c)*d`, `[^,]+,`, `(\w+)\s(\w+)`, `x*`, `hello`, `\bfoo\b`, `.*\.(txt|log|md)`, `^/.*\.php`,
	`(a|ab)(c|bcd)(d*)`, `[a-z]+connection[a-z]+`, `(?s)a.+b`, `\b\w+\b`,
	// one shape per searcher that owns caches of its own (reverse inner through searchSpan, suffix, suffix set, multiline, digit,
	// Aho-Corasick with a nested literal: Pike VM re-scan)
	`[^\s=]+ connection \d+`, `[a-z]+\.txt`, `.*(?:\.txt|\.log)`, `(?m)^GET .*\.html$`, `[0-9][a-z0-9]*X`, "rdqs1b|dqs|" + manyLiterals(70), `^[a-z]+\d$`}

// c06Worker: N goroutines replay the same calls on shared Regex values; results are compared with the sequential ones.
// Prints "MISMATCH …" lines and "DONE n"; the race detector writes its reports to stderr.
func c06Worker(seed uint64, rounds int) int {
	w := bufio.NewWriter(os.Stdout)
	defer w.Flush()
	root := NewRNG(seed)
	obs := append(append(append(obsMatch()[:1], obsFind()[:1]...), obsSubmatch()[:1]...), obsFindAll([]int{-1})[:1]...)
	obs = append(obs, obsReplace([]string{"[$0]"})[0], obsExtra()[1])
	n := 0
	for pi, p := range c06Templates {
		re, err := coregex.Compile(p)
		if err != nil {
			continue
		}
		ast, _ := syntax.Parse(p, syntax.Perl)
		rng := root.Fork(uint64(pi) + 1)
		type call struct {
			o Obs
			h []byte
		}
		var calls []call
		for k := 0; k < 24; k++ {
			h := GenHaystack(rng, ast, true)
			if k%6 == 5 {
				var big []byte
				for len(big) < 1500 {
					big = append(big, GenHaystack(rng, ast, true)...)
					big = append(big, ' ')
				}
				h = big
			}
			calls = append(calls, call{obs[k%len(obs)], h})
		}
		want := make([]string, len(calls))
		fresh, _ := coregex.Compile(p)
		for i, c := range calls {
			want[i] = c.o.Fn(fresh, c.h)
		}
		var wg sync.WaitGroup
		var mu sync.Mutex
		for g := 0; g < 8; g++ {
			wg.Add(1)
			go func(g int) {
				defer wg.Done()
				for rd := 0; rd < rounds; rd++ {
					for i := range calls {
						j := (i*7 + g*3 + rd) % len(calls)
						got := func() (res string) {
							defer func() {
								if x := recover(); x != nil {
									res = fmt.Sprintf("PANIC:%v", x)
								}
							}()
							return calls[j].o.Fn(re, calls[j].h)
						}()
						if got != want[j] {
							mu.Lock()
							fmt.Fprintf(w, "MISMATCH pattern=%q api=%s hay=%x concurrent=%.80s sequential=%.80s\n", p, calls[j].o.API, calls[j].h[:min(len(calls[j].h), 60)], got, want[j])
							mu.Unlock()
						}
					}
				}
			}(g)
		}
		wg.Wait()
		n += len(calls) * 8 * rounds
	}
	fmt.Fprintf(w, "DONE %d\n", n)
	return 0
}

func checkC06(r *Report, known []Finding) {
	r.Rule = "(a) source facts (go/ast over /repo): every use, inside a method of a long-lived shared object, of scratch state that is not per-search (receiver.pikevm, " +
		"receiver.*Backtracker.{IsMatch,Search,…} internal-state variants, receiver.matchLengths) — each fact must be a listed call site; (b) a -race build of the worker: 8 goroutines " +
		"replay strategy-covering calls on shared Regex values, every result compared with the sequential one, every race report attributed to a listed call site or reported; " +
		"non-trivial = the call finds a match; distinct by (pattern, call)"
	// ---- (a) static facts
	rwAll, rwErr := receiverWriteFacts("/repo")
	if rwErr != nil {
		r.Violate("receiver-write fact extraction failed: "+rwErr.Error(), map[string]any{"check": "go/ast fact extractor"}, true)
		return
	}
	facts, err := sharedAccessFacts("/repo", unsafeTypesOf(rwAll))
	if err != nil {
		r.Violate("source-fact extraction failed: "+err.Error(), map[string]any{"check": "go/ast fact extractor"}, true)
		return
	}
	ts := r.Tie("source facts: shared-scratch accesses on search paths are all listed call sites")
	r.Extra["shared_access_facts"] = facts
	for _, f := range facts {
		ts.Cases++
		fn := f[:strings.Index(f, ":")]
		attrs := map[string]string{"site": fn, "kind": "shared-access"}
		if kf := matchKnown(known, "C06", attrs); kf != nil {
			r.Known(kf, map[string]string{"fact": f})
			continue
		}
		ts.Disagreements++
		r.Violate("shared mutable scratch state used on a search path outside the per-search state protocol: "+f,
			map[string]any{"fact": f, "explanation": "a method of a shared object (Engine / searcher / DFA) uses a simulator or buffer with embedded scratch state; two concurrent calls race on it"}, false)
	}
	r.Evaluations += len(facts)
	// ---- (a') ownership facts: hypothesis of the pool protocol model (a state is returned by the call that took it)
	own, err := stateOwnershipFacts("/repo")
	if err != nil {
		r.Violate("ownership-fact extraction failed: "+err.Error(), map[string]any{"check": "go/ast fact extractor"}, true)
		return
	}
	to := r.Tie("source facts: every putSearchState(x) is preceded, in an enclosing statement list, by x := getSearchState()")
	to.Cases += 40
	r.Extra["state_ownership_facts"] = own
	for _, f := range own {
		to.Disagreements++
		attrs := map[string]string{"site": f[:strings.Index(f, ":")], "kind": "borrowed-state-put"}
		if kf := matchKnown(known, "C06", attrs); kf != nil {
			r.Known(kf, map[string]string{"fact": f})
			continue
		}
		r.Violate("per-search state returned to the pool by a call that does not own it: "+f,
			map[string]any{"fact": f, "explanation": "the caller keeps using the state after it was reset and handed to the pool; the next goroutine's getSearchState receives the same SearchState (Cx.State.Pool: the 'held' list would contain it twice)"}, false)
	}
	// ---- (a+) slot facts: a per-search object is taken out of a single-slot cache, never read in place
	if sl, err := slotLoadFacts("/repo"); err != nil {
		r.Violate("slot-fact extraction failed: "+err.Error(), map[string]any{"check": "go/ast fact extractor"}, true)
		return
	} else {
		ts := r.Tie("source facts: objects in atomic single-slot caches are taken with Swap/CompareAndSwap, Load() only tests for nil")
		ts.Cases += 12
		r.Extra["slot_load_facts"] = sl
		for _, f := range sl {
			ts.Disagreements++
			r.Violate("per-search object shared through a cache slot: "+f,
				map[string]any{"fact": f, "explanation": "Load() leaves the object in the slot: the next goroutine (or this one, again) gets the same object while it is in use (Cx.State.Pool: two holders)"}, false)
		}
	}
	// ---- (a'') type-level facts: a shared object is not written during a search
	rw, err := receiverWriteFacts("/repo")
	if err != nil {
		r.Violate("receiver-write fact extraction failed: "+err.Error(), map[string]any{"check": "go/ast fact extractor"}, true)
		return
	}
	tw := r.Tie("source facts: no search-path method writes a field of its (shared) receiver or hands out a pointer to one")
	tw.Cases += 200
	r.Extra["receiver_write_facts"] = rw
	for _, f := range rw {
		site := f[:strings.Index(f, ":")]
		typ := site[:strings.LastIndex(site, ".")]
		if typ == "onepass.(*Builder)" {
			continue // compile-time only: onepass.Build runs once inside Compile, before the Regex is shared
		}
		if typ == "prefilter.(*Tracker)" && !trackerConstructedByLibrary("/repo") {
			continue // a stand-alone wrapper the library never constructs itself (checked: no NewTracker* call outside prefilter/tracker.go and tests)
		}
		tw.Disagreements++
		attrs := map[string]string{"type": typ, "kind": "receiver-write"}
		if kf := matchKnown(known, "C06", attrs); kf != nil {
			r.Known(kf, map[string]string{"fact": f})
			continue
		}
		r.Violate("a method on a search path writes state of its shared receiver: "+f,
			map[string]any{"fact": f, "explanation": "the receiver is reachable from a compiled Regex that several goroutines may use at once; two concurrent calls race on the field"}, false)
	}
	// ---- (b) dynamic: race build
	bin := filepath.Join(verifDir, ".build", "vcheck-race")
	cmd := exec.Command("go", "build", "-race", "-tags", "verif", "-o", bin, "./cmd/vcheck")
	cmd.Dir = filepath.Join(verifDir, "harness")
	cmd.Env = append(os.Environ(), "GOFLAGS=-mod=mod", "GOPROXY=off")
	if out, err := cmd.CombinedOutput(); err != nil {
		r.Violate("race build failed: "+string(out), map[string]any{"check": "go build -race"}, true)
		return
	}
	rounds := 3
	if r.Tier == "thorough" {
		rounds = 25
	}
	run := exec.Command(bin, "c06worker", fmt.Sprint(r.Seed), fmt.Sprint(rounds))
	run.Env = append(os.Environ(), "GORACE=halt_on_error=0 history_size=3")
	var stdout, stderr bytes.Buffer
	run.Stdout = &stdout
	run.Stderr = &stderr
	runErr := run.Run()
	td := r.Tie("concurrent results == sequential results (8 goroutines, shared Regex, -race)")
	done := false
	for _, l := range strings.Split(stdout.String(), "\n") {
		switch {
		case strings.HasPrefix(l, "MISMATCH"):
			td.Disagreements++
			pat := ""
			if m := regexp.MustCompile(`pattern="((?:[^"\\]|\\.)*)"`).FindStringSubmatch(l); m != nil {
				pat = m[1]
			}
			attrs := map[string]string{"kind": "concurrent-result", "strategy": strategyOf(strings.ReplaceAll(pat, `\\`, `\`))}
			if kf := matchKnown(known, "C06", attrs); kf != nil {
				r.Known(kf, map[string]string{"case": l})
				continue
			}
			r.Violate("result under concurrency differs from the sequential result: "+l, map[string]any{"case": l}, false)
		case strings.HasPrefix(l, "DONE"):
			var n int
			fmt.Sscanf(l, "DONE %d", &n)
			td.Cases += n
			r.Evaluations += n
			for i := 0; i < len(c06Templates)*24; i++ {
				r.distinct[fmt.Sprintf("call%d", i)] = true
			}
			done = true
		}
	}
	if !done {
		tail := stderr.String()
		if len(tail) > 2000 {
			tail = tail[len(tail)-2000:]
		}
		r.Violate(fmt.Sprintf("concurrency worker did not finish: %v", runErr), map[string]any{"stderr_tail": tail}, false)
	}
	// race reports
	tr := r.Tie("race detector reports attributed to listed call sites")
	blocks := strings.Split(stderr.String(), "WARNING: DATA RACE")
	frameRe := regexp.MustCompile(`github\.com/coregx/coregex/([a-z/]+)\.(\(\*?[A-Za-z]+\)\.[A-Za-z0-9_]+|[A-Za-z0-9_]+)\(`)
	seen := map[string]bool{}
	for _, b := range blocks[1:] {
		tr.Cases++
		if i := strings.Index(b, "=================="); i >= 0 {
			b = b[:i]
		}
		var fns []string
		for _, m := range frameRe.FindAllStringSubmatch(b, -1) {
			pkg := m[1][strings.LastIndex(m[1], "/")+1:]
			fns = append(fns, pkg+"."+m[2])
		}
		explained := false
		for _, fn := range fns {
			if kf := matchKnown(known, "C06", map[string]string{"site": fn, "kind": "shared-access"}); kf != nil {
				r.Known(kf, map[string]string{"race_through": fn})
				explained = true
				break
			}
		}
		if explained {
			continue
		}
		key := strings.Join(fns, " < ")
		if seen[key] {
			continue
		}
		seen[key] = true
		tr.Disagreements++
		r.Violate("data race on a path that uses no listed shared-access site: "+key, map[string]any{"race_report": b[:min(len(b), 3000)], "frames": fns}, false)
	}
	r.Extra["race_reports"] = len(blocks) - 1
	if len(facts) > 0 {
		r.Sample(map[string]any{"fact": facts[0]})
	} else {
		r.Sample(map[string]any{"shared_access_facts": 0, "receiver_write_facts_considered": len(rw)})
	}
	r.Sample(map[string]any{"worker": "8 goroutines x " + fmt.Sprint(rounds) + " rounds x 24 calls x " + fmt.Sprint(len(c06Templates)) + " patterns", "race_reports": len(blocks) - 1})
	replayKnownExamples(r, known, "C06")
}

func init() {
	exampleReplayers["source-fact"] = func(f Finding) bool {
		rw, err := receiverWriteFacts("/repo")
		if err != nil {
			return true
		}
		facts, err := sharedAccessFacts("/repo", unsafeTypesOf(rw))
		if err != nil {
			return true
		}
		facts = append(facts, rw...)
		for _, x := range facts {
			if strings.HasPrefix(x, f.Example["site"]+":") {
				return true
			}
		}
		return false
	}
	exampleReplayers["concurrent"] = func(f Finding) bool { return true } // reproduced (or not) by the worker run of the same check
}

// receiverWriteFacts: "a shared object is not written during a search".  For every method (of a type declared in the search
// packages) that is not configuration-time, every statement that writes through the receiver — recv.f = …, recv.f[i] = …,
// recv.f.g = …, recv.f++, recv.f op= … — is a fact "pkg.(*T).method: writes recv.f".  Per-search state types (whose values are
// owned by one search: *State, *Cache, builders used at compile time, sets, queues) are excluded by TYPE, not by call site.
func receiverWriteFacts(repo string) ([]string, error) {
	var facts []string
	pooled := pooledOnlyTypes(repo)
	var owned map[string]bool
	perSearch := func(t string) bool {
		if pooled[t] || owned[t] {
			return true
		}
		for _, suf := range []string{"State", "Cache", "Set", "Table", "Queue", "Stack", "Config", "Compiler", "Extractor", "Seq", "Iter", "Error", "Stats", "Pool", "Slots", "Buf", "Budget"} {
			if strings.HasSuffix(t, suf) {
				return true
			}
		}
		return false
	}
	owned = ownedOnlyTypes(repo, func(t string) bool { return perSearch(t) })
	configTime := func(name string) bool {
		for _, pre := range []string{"Set", "New", "new", "build", "Build", "Compile", "compile", "init", "Init", "Reset", "reset", "add", "Add", "With", "Unmarshal", "Longest", "ensure", "lazyInit"} {
			if strings.HasPrefix(name, pre) {
				return true
			}
		}
		return false
	}
	for _, d := range []string{"meta", "dfa/lazy", "nfa", "dfa/onepass", "prefilter", "simd", "literal", "."} {
		fs := token.NewFileSet()
		pkgs, err := parser.ParseDir(fs, filepath.Join(repo, d), func(fi os.FileInfo) bool {
			return !strings.HasSuffix(fi.Name(), "_test.go") && !strings.HasSuffix(fi.Name(), "_verif.go")
		}, 0)
		if err != nil {
			return nil, err
		}
		for _, pkg := range pkgs {
			for _, f := range pkg.Files {
				for _, decl := range f.Decls {
					fd, ok := decl.(*ast.FuncDecl)
					if !ok || fd.Recv == nil || len(fd.Recv.List) == 0 || len(fd.Recv.List[0].Names) == 0 || fd.Body == nil {
						continue
					}
					recv := fd.Recv.List[0].Names[0].Name
					rt := ""
					ptr := false
					switch t := fd.Recv.List[0].Type.(type) {
					case *ast.StarExpr:
						ptr = true
						if id, ok := t.X.(*ast.Ident); ok {
							rt = id.Name
						}
					case *ast.Ident:
						rt = t.Name
					}
					if !ptr || rt == "" || recv == "_" || perSearch(rt) || configTime(fd.Name.Name) {
						continue
					}
					root := func(e ast.Expr) (string, bool) {
						// the first selector below the receiver: recv.f…, or "" if the expression is not rooted at the receiver
						var first string
						for {
							switch x := e.(type) {
							case *ast.SelectorExpr:
								first = x.Sel.Name
								e = x.X
							case *ast.IndexExpr:
								e = x.X
							case *ast.StarExpr:
								e = x.X
							case *ast.ParenExpr:
								e = x.X
							case *ast.SliceExpr:
								e = x.X
							case *ast.Ident:
								return first, x.Name == recv && first != ""
							default:
								return "", false
							}
						}
					}
					fn := fmt.Sprintf("%s.(*%s).%s", pkg.Name, rt, fd.Name.Name)
					seen := map[string]bool{}
					ast.Inspect(fd.Body, func(n ast.Node) bool {
						if _, lit := n.(*ast.FuncLit); lit {
							return true
						}
						var lhs []ast.Expr
						switch x := n.(type) {
						case *ast.AssignStmt:
							if x.Tok != token.DEFINE {
								lhs = x.Lhs
							}
						case *ast.IncDecStmt:
							lhs = []ast.Expr{x.X}
						case *ast.CallExpr:
							// &recv.f handed to a callee (other than sync/atomic): the callee writes the shared field through the pointer
							if sel, ok := x.Fun.(*ast.SelectorExpr); ok {
								if id, ok := sel.X.(*ast.Ident); ok && id.Name == "atomic" {
									return false
								}
							}
							for _, a := range x.Args {
								if u, ok := a.(*ast.UnaryExpr); ok && u.Op == token.AND {
									if fld, ok := root(u.X); ok && !seen["&"+fld] {
										seen["&"+fld] = true
										facts = append(facts, fn+": passes &"+recv+"."+fld)
									}
								}
							}
						}
						for _, l := range lhs {
							if fld, ok := root(l); ok && !seen[fld] {
								seen[fld] = true
								facts = append(facts, fn+": writes "+recv+"."+fld)
							}
						}
						return true
					})
				}
			}
		}
	}
	sort.Strings(facts)
	return facts, nil
}

// trackerConstructedByLibrary: is prefilter.NewTracker / NewTrackerWithConfig called anywhere in non-test library code
// other than prefilter/tracker.go itself?
func trackerConstructedByLibrary(repo string) bool {
	found := false
	filepath.Walk(repo, func(path string, fi os.FileInfo, err error) error {
		if err != nil || fi.IsDir() || !strings.HasSuffix(path, ".go") || strings.HasSuffix(path, "_test.go") || strings.HasSuffix(path, "prefilter/tracker.go") {
			return nil
		}
		b, e := os.ReadFile(path)
		if e == nil && (bytes.Contains(b, []byte("NewTracker(")) || bytes.Contains(b, []byte("NewTrackerWithConfig("))) {
			found = true
		}
		return nil
	})
	return found
}

// unsafeTypesOf: the types that, according to the receiver-write facts, mutate their own state in a search-path method and
// are therefore not safe to share (compile-time builders and the stand-alone Tracker are not reachable from a shared Regex).
func unsafeTypesOf(rw []string) map[string]bool {
	out := map[string]bool{}
	for _, f := range rw {
		site := f[:strings.Index(f, ":")]
		typ := site[:strings.LastIndex(site, ".")] // pkg.(*T)
		if typ == "onepass.(*Builder)" || typ == "prefilter.(*Tracker)" {
			continue
		}
		if a, b := strings.Index(typ, "(*"), strings.Index(typ, ")"); a >= 0 && b > a {
			out[typ[a+2:b]] = true
		}
	}
	return out
}

// ownedOnlyTypes: per-search ownership is transitive.  A struct type T declared in the search packages is per-search if it is
// held — as a field of type T, *T, []T or []*T — ONLY by struct types that are themselves per-search (by `base`, or by this
// rule), and by at least one: a value of T is then reachable only through a per-search owner (a *DFACache, a *SearchState, a
// pooled scratch object), so a method of T that writes its receiver writes per-search state.  A T held by any shared type
// (Engine, DFA, a searcher) is not in the result and stays subject to the receiver-write facts.
func ownedOnlyTypes(repo string, base func(string) bool) map[string]bool {
	holders := map[string]map[string]bool{}
	declared := map[string]bool{}
	for _, d := range []string{"meta", "dfa/lazy", "nfa", "dfa/onepass", "prefilter", "simd", "literal", "."} {
		fs := token.NewFileSet()
		pkgs, err := parser.ParseDir(fs, filepath.Join(repo, d), func(fi os.FileInfo) bool { return !strings.HasSuffix(fi.Name(), "_test.go") }, 0)
		if err != nil {
			continue
		}
		for _, pkg := range pkgs {
			for _, f := range pkg.Files {
				ast.Inspect(f, func(n ast.Node) bool {
					ts, ok := n.(*ast.TypeSpec)
					if !ok {
						return true
					}
					st, ok := ts.Type.(*ast.StructType)
					if !ok {
						return true
					}
					declared[ts.Name.Name] = true
					for _, fld := range st.Fields.List {
						var buf bytes.Buffer
						printer.Fprint(&buf, fs, fld.Type)
						for _, tok := range strings.FieldsFunc(buf.String(), func(r rune) bool {
							return !(r == '_' || r >= 'a' && r <= 'z' || r >= 'A' && r <= 'Z' || r >= '0' && r <= '9')
						}) {
							if holders[tok] == nil {
								holders[tok] = map[string]bool{}
							}
							holders[tok][ts.Name.Name] = true
						}
					}
					return true
				})
			}
		}
	}
	out := map[string]bool{}
	for changed := true; changed; {
		changed = false
		for t, hs := range holders {
			if !declared[t] || out[t] || len(hs) == 0 {
				continue
			}
			all := true
			for s := range hs {
				if s != t && !base(s) && !out[s] {
					all = false
				}
			}
			if all {
				out[t] = true
				changed = true
			}
		}
	}
	return out
}

// pooledOnlyTypes: struct types T that are only ever held through a pool — every struct field whose type mentions T is an
// atomic.Pointer[T] or lives in a sync.Pool-owning struct, and no package-level variable has type T or *T.  A value of such a
// type is owned by one search at a time (acquire … release), so writes to its fields are per-search, not shared.
func pooledOnlyTypes(repo string) map[string]bool {
	type use struct{ ok, bad int }
	uses := map[string]*use{}
	declared := map[string]bool{}
	for _, d := range []string{"meta", "dfa/lazy", "nfa", "dfa/onepass", "prefilter"} {
		fs := token.NewFileSet()
		pkgs, err := parser.ParseDir(fs, filepath.Join(repo, d), func(fi os.FileInfo) bool { return !strings.HasSuffix(fi.Name(), "_test.go") }, 0)
		if err != nil {
			continue
		}
		for _, pkg := range pkgs {
			for _, f := range pkg.Files {
				ast.Inspect(f, func(n ast.Node) bool {
					switch x := n.(type) {
					case *ast.TypeSpec:
						if _, ok := x.Type.(*ast.StructType); ok {
							declared[x.Name.Name] = true
						}
					case *ast.Field:
						var buf bytes.Buffer
						printer.Fprint(&buf, fs, x.Type)
						t := buf.String()
						for name := range declared {
							_ = name
						}
						// record by the bare type names mentioned
						for _, tok := range strings.FieldsFunc(t, func(r rune) bool {
							return !(r == '_' || r >= 'a' && r <= 'z' || r >= 'A' && r <= 'Z' || r >= '0' && r <= '9')
						}) {
							if uses[tok] == nil {
								uses[tok] = &use{}
							}
							if strings.HasPrefix(t, "atomic.Pointer[") {
								uses[tok].ok++
							} else {
								uses[tok].bad++
							}
						}
					}
					return true
				})
			}
		}
	}
	out := map[string]bool{}
	for name, u := range uses {
		if declared[name] && u.ok > 0 {
			// parameters and results of functions are ast.Fields too: a pooled type may be passed around inside its own package;
			// what matters is that no STRUCT holds it other than through the atomic slot — checked separately below
			out[name] = true
		}
	}
	// refine: a struct field (not a parameter) of type *T / T outside an atomic.Pointer disqualifies T
	for _, d := range []string{"meta", "dfa/lazy", "nfa", "dfa/onepass", "prefilter"} {
		fs := token.NewFileSet()
		pkgs, err := parser.ParseDir(fs, filepath.Join(repo, d), func(fi os.FileInfo) bool { return !strings.HasSuffix(fi.Name(), "_test.go") }, 0)
		if err != nil {
			continue
		}
		for _, pkg := range pkgs {
			for _, f := range pkg.Files {
				ast.Inspect(f, func(n ast.Node) bool {
					st, ok := n.(*ast.StructType)
					if !ok {
						return true
					}
					for _, fld := range st.Fields.List {
						var buf bytes.Buffer
						printer.Fprint(&buf, fs, fld.Type)
						t := buf.String()
						if strings.HasPrefix(t, "atomic.Pointer[") || strings.HasPrefix(t, "sync.Pool") {
							continue
						}
						bare := strings.TrimLeft(t, "*[]")
						if k := strings.LastIndex(bare, "."); k >= 0 {
							bare = bare[k+1:]
						}
						delete(out, bare)
					}
					return true
				})
			}
		}
	}
	return out
}
