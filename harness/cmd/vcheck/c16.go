package main

import (
	"bytes"
	"fmt"
	"os"
	"os/exec"
	"reflect"
	"regexp"
	"sort"
	"strings"
	"time"
	"unsafe"

	"github.com/coregx/ahocorasick"
	"github.com/coregx/coregex/literal"
	"github.com/coregx/coregex/prefilter"
)

func init() { checks["C16"] = checkC16 }

func naiveMulti(lits [][]byte, h []byte, start int) int {
	for i := start; i <= len(h); i++ {
		for _, l := range lits {
			if bytes.HasPrefix(h[i:], l) {
				return i
			}
		}
	}
	return -1
}

// litSets: literal sets that select each prefilter implementation (single byte, substring, slim Teddy 2-8 and 9-32,
// fat Teddy 33-64, Aho-Corasick > 64), with shared fingerprints, bucket collisions, prefix relations and mixed lengths.
func litSets(r *RNG) [][][]byte {
	var sets [][][]byte
	mk := func(ss ...string) [][]byte {
		out := make([][]byte, len(ss))
		for i, s := range ss {
			out[i] = []byte(s)
		}
		return out
	}
	sets = append(sets,
		mk("x"), mk("needle"), mk("ab"), mk("bz"), mk("zq"), mk("q8z"), mk("jxk"), mk("foo", "bar"), mk("foo", "fob", "fab"), mk("abc", "abd", "bbc", "bbd"),
		mk("error", "warning", "fatal", "critical"), mk("ab", "abc"), mk("abc", "ab"), mk("aaa", "aab", "aba", "baa"),
		mk("GET", "POST", "PUT", "DELETE", "HEAD", "PATCH", "TRACE", "CONNECT"),
		mk("zzz", "abc", "c11", "c22", "c33", "c44", "c55", "c66", "abcd"), // priority inversion probe: "abc" (id 1) vs "abcd" (id 8, bucket 0)
		mk("abcd", "zzz", "c11", "c22", "c33", "c44", "c55", "c66", "abc"),
		mk("é", "世", "ß"),
		mk("error", "warn", "info"), mk("hello", "foo"), mk("aax", "abc"), mk("abcde", "abcd", "abc", "ab"), // lengths never increasing; shared first bytes
	)
	// generated sets of various sizes
	for _, n := range []int{2, 3, 8, 9, 16, 32, 33, 40, 64, 65, 80} {
		var set [][]byte
		seen := map[string]bool{}
		for len(set) < n {
			ln := 3 + r.Intn(4)
			b := make([]byte, ln)
			for j := range b {
				b[j] = "abcdeqrs01"[r.Intn(10)]
			}
			if !seen[string(b)] {
				seen[string(b)] = true
				set = append(set, b)
			}
		}
		sets = append(sets, set)
		if n == 3 || n == 9 || n == 40 {
			// the same set ordered longest first (mixed lengths whose running minimum only ever decreases)
			d := append([][]byte(nil), set...)
			sort.SliceStable(d, func(i, j int) bool { return len(d[i]) > len(d[j]) })
			sets = append(sets, d)
		}
	}
	return sets
}

func seqOf(lits [][]byte, complete bool) *literal.Seq {
	ls := make([]literal.Literal, len(lits))
	for i, l := range lits {
		ls[i] = literal.NewLiteral(l, complete)
	}
	return literal.NewSeq(ls...)
}

// checkC16 runs the comparison in-process (vector kernels enabled) and once more in a worker process started with the CPU
// vector extensions masked (GODEBUG=cpu.avx2=off,cpu.ssse3=off,…), which selects the scalar candidate finders of Teddy and
// the generic memchr/memmem paths.
func checkC16(r *Report, known []Finding) {
	c16Body(r, known)
	self, _ := os.Executable()
	cmd := exec.Command(self, "c16worker", fmt.Sprint(r.Seed), r.Tier)
	cmd.Env = append(os.Environ(), "GODEBUG=cpu.avx2=off,cpu.ssse3=off,cpu.sse41=off,cpu.avx=off")
	out, err := cmd.CombinedOutput()
	tm := r.Tie("the same comparison with CPU vector extensions masked (scalar fallbacks)")
	done := false
	for _, l := range strings.Split(string(out), "\n") {
		switch {
		case strings.HasPrefix(l, "MISMATCH "):
			tm.Disagreements++
			r.Violate("with vector extensions masked: "+l[len("MISMATCH "):], map[string]any{"mode": "GODEBUG=cpu.avx2=off,cpu.ssse3=off,cpu.sse41=off,cpu.avx=off", "what": l}, false)
		case strings.HasPrefix(l, "DONE "):
			fmt.Sscanf(l, "DONE %d", &tm.Cases)
			done = true
		}
	}
	if err != nil || !done {
		tail := string(out)
		if len(tail) > 2000 {
			tail = tail[len(tail)-2000:]
		}
		r.Violate(fmt.Sprintf("masked prefilter worker died: %v", err), map[string]any{"output_tail": tail}, false)
	}
}

// c16Worker: the body of the check in a process of its own; prints MISMATCH lines for violations that are not known findings.
func c16Worker(seed uint64, tier string) int {
	r := NewReport("C16", tier, seed)
	c16Body(r, loadKnown())
	for _, v := range r.Violations {
		fmt.Printf("MISMATCH %s\n", strings.ReplaceAll(v.What, "\n", " "))
	}
	n := 0
	for _, t := range r.Ties {
		n += t.Cases
	}
	fmt.Printf("DONE %d\n", n)
	return 0
}

func c16Body(r *Report, known []Finding) {
	r.Rule = "literal sets selecting every prefilter implementation (memchr, memmem, slim Teddy, fat Teddy, Aho-Corasick, wrappers, tracker, digit) x systematic haystacks: each literal planted at " +
		"every offset of a window crossing 16/32/64-byte blocks, near-miss literals (one byte off, shared fingerprint), all start offsets near the plant, vector extensions on, and the whole comparison again in a worker process with them masked; " +
		"Find compared with the naive definition and slim Teddy also with the Lean model; complete prefilters compared with regexp on the source alternation; " +
		"non-trivial = a literal occurs at or after start; distinct by (set, haystack, start)"
	root := NewRNG(r.Seed)
	sets := litSets(root.Fork(1))
	maxOff := 70
	if r.Tier == "thorough" {
		maxOff = 140
	}
	type lc struct {
		req, got string
		desc     string
	}
	var lean []lc
	deadline := time.Now().Add(8 * time.Minute)
	for si, lits := range sets {
		if time.Now().After(deadline) {
			break
		}
		type impl struct {
			name string
			pf   prefilter.Prefilter
		}
		var impls []impl
		var teddy *prefilter.Teddy
		if len(lits) >= 2 && len(lits) <= 32 {
			if t := prefilter.NewTeddy(lits, nil); t != nil {
				teddy = t
				impls = append(impls, impl{"Teddy", t})
			}
		}
		if len(lits) >= 33 && len(lits) <= 64 {
			if t := prefilter.NewFatTeddy(lits, nil); t != nil {
				impls = append(impls, impl{"FatTeddy", t})
			}
		}
		if pf := prefilter.NewBuilder(seqOf(lits, true), nil).Build(); pf != nil {
			impls = append(impls, impl{fmt.Sprintf("Builder:%T", pf), pf})
			impls = append(impls, impl{fmt.Sprintf("WrapIncomplete(%T)", pf), prefilter.WrapIncomplete(pf)})
		}
		if len(impls) == 0 {
			continue
		}
		for _, im := range impls {
			r.Dist["impl:"+im.name]++
		}
		// source alternation for the completeness check
		var alts []string
		for _, l := range lits {
			alts = append(alts, regexp.QuoteMeta(string(l)))
		}
		std := regexp.MustCompile(strings.Join(alts, "|"))
		rng := root.Fork(uint64(si) + 100)
		var hays [][]byte
		for off := 0; off <= maxOff; off += 1 + off/24 {
			li := rng.Intn(len(lits))
			h := bytes.Repeat([]byte{'.'}, off)
			h = append(h, lits[li]...)
			h = append(h, bytes.Repeat([]byte{'.'}, rng.Intn(20))...)
			hays = append(hays, h)
			// near miss before the plant: the literal with its last byte changed
			if off > len(lits[li])+2 {
				nm := append([]byte(nil), h...)
				copy(nm[1:], lits[li][:len(lits[li])-1])
				hays = append(hays, nm)
			}
			// two different literals close together
			lj := rng.Intn(len(lits))
			h2 := append(append([]byte(nil), h[:off]...), lits[lj][:1]...)
			h2 = append(h2, lits[li]...)
			h2 = append(h2, lits[lj]...)
			hays = append(hays, h2)
			// a literal ending exactly at the end of the haystack, directly preceded by the first k bytes of another literal
			// (a fingerprint candidate that fails verification right before the real, final occurrence)
			for k := 0; k <= 3; k++ {
				if k > len(lits[lj]) {
					break
				}
				h3 := append(append([]byte(nil), h[:off]...), lits[lj][:k]...)
				h3 = append(h3, lits[li]...)
				hays = append(hays, h3)
			}
			// SWAR borrow neighbours on the scalar path (short haystack): a byte x of the literal directly followed by x^1 makes the
			// word-at-a-time zero test mark a spurious candidate in the same 8-byte block as the real occurrence behind it
			if off <= 16 {
				for k := 0; k < len(lits[li]) && k < 8; k++ {
					x := lits[li][k]
					h4 := append(bytes.Repeat([]byte{'.'}, off), x, x^1)
					h4 = append(h4, lits[li]...)
					h4 = append(h4, "..."...)
					hays = append(hays, h4)
					h5 := append(bytes.Repeat([]byte{'.'}, off), x, x^1, '.')
					h5 = append(h5, lits[li]...)
					hays = append(hays, append(h5, lits[li]...))
					// the literal with x^1 inserted behind its byte k (so that a byte-pair scan sees first byte, borrow artefact and
					// second byte at the pair's distance), directly followed by the real occurrence
					h6 := append(bytes.Repeat([]byte{'.'}, off), lits[li][:k+1]...)
					h6 = append(h6, x^1)
					h6 = append(h6, lits[li][k+1:]...)
					h6 = append(h6, lits[li]...)
					hays = append(hays, append(h6, "xxxxxxx"...))
				}
			}
		}
		hays = append(hays, nil, []byte("."), bytes.Repeat([]byte("."), 100))
		// the (?m)^ wrapper (prefilter.WrapLineAnchor: a candidate counts only at a line start): against its definition, on lines built
		// from the literals — a literal directly behind another one, behind other bytes, behind a newline — from EVERY start offset
		// (a search resumed right behind a previous match starts in the middle of a line)
		if len(impls) > 0 && si%2 == 0 {
			base := impls[0]
			w := prefilter.WrapLineAnchor(base.pf)
			tw := r.Tie("WrapLineAnchor(" + base.name + ").Find == least literal occurrence at a line start, from every start offset")
			var lh [][]byte
			for k := 0; k < 6; k++ {
				a, b, c := lits[rng.Intn(len(lits))], lits[rng.Intn(len(lits))], lits[rng.Intn(len(lits))]
				lh = append(lh, append(append(append(append([]byte(nil), a...), b...), '\n'), c...),
					append(append(append(append([]byte("x"), a...), '\n'), b...), c...),
					append(append(append(append([]byte(nil), a...), "\n\n"...), b...), append([]byte(" "), c...)...),
					append(append(append([]byte("\n"), a...), a...), a...))
			}
			for _, h := range lh {
				for st := 0; st <= len(h); st++ {
					want := -1
					for p := st; p <= len(h); p++ {
						if (p == 0 || h[p-1] == '\n') && naiveMulti(lits, h[:min(len(h), p+64)], p) == p {
							want = p
							break
						}
					}
					got := -2
					if res := guard(5*time.Second, func() string { got = w.Find(h, st); return "" }); res != "" {
						r.Violate(fmt.Sprintf("WrapLineAnchor(%s).Find: %s lits=%q h=%q start=%d", base.name, res, lits, h, st), map[string]any{"impl": base.name, "haystack_hex": hexOf(h), "start": st, "result": res}, false)
						continue
					}
					tw.Cases++
					r.Case(fmt.Sprintf("la\x00%d\x00%s\x00%d", si, h, st), want >= 0)
					if got != want {
						tw.Disagreements++
						// the wrapper inherits what its inner prefilter does: a known finding about the inner one covers it
						attrs := map[string]string{"impl": base.name, "kind": map[bool]string{true: "skips", false: "differs"}[got == -1 || (want >= 0 && got > want)]}
						if f := matchKnown(known, "C16", attrs); f != nil {
							r.Known(f, map[string]string{"impl": "WrapLineAnchor(" + base.name + ")", "haystack_hex": hexOf(h), "start": fmt.Sprint(st)})
							break
						}
						r.Violate(fmt.Sprintf("WrapLineAnchor(%s).Find(%q, %d) = %d, definition = %d; literals %q", base.name, h, st, got, want, lits),
							map[string]any{"impl": "WrapLineAnchor(" + base.name + ")", "literals": fmt.Sprintf("%q", lits), "haystack_hex": hexOf(h), "start": st, "got": got, "want": want}, false)
						break
					}
				}
			}
		}
		// the Aho-Corasick prefilter against its Lean model (Cx.MetaFind2.ahoPrefilterFind, proved to return the least start of an
		// occurrence — C16_ahoCorasick_prefilter_never_skips — GIVEN what the automaton of the dependency does: it reports the occurrence
		// that ends first): the automaton's real Find / FindAt answers are the oracle tables, nested / maxLen are read from the object
		for _, im := range impls {
			acp, ok := im.pf.(*prefilter.AhoCorasickPrefilter)
			if !ok {
				continue
			}
			v := reflect.ValueOf(acp).Elem()
			fac, fn, fm := v.FieldByName("ac"), v.FieldByName("nested"), v.FieldByName("maxLen")
			if !fac.IsValid() || !fn.IsValid() || !fm.IsValid() {
				r.Violate("prefilter.AhoCorasickPrefilter no longer has the fields the model is parameterised by (ac, nested, maxLen)",
					map[string]any{"correspondence": "Cx.MetaFind2.ahoPrefilterFind vs prefilter/ahocorasick.go"}, true)
				break
			}
			auto := *(**ahocorasick.Automaton)(unsafe.Pointer(fac.UnsafeAddr()))
			nested, maxLen := fn.Bool(), int(fm.Int())
			var hexLits []string
			for _, l := range lits {
				hexLits = append(hexLits, hexOf(l))
			}
			lean = append(lean, lc{req: "metafind2 lits nested 0 - " + strings.Join(hexLits, ","), got: map[bool]string{true: "1", false: "0"}[nested], desc: fmt.Sprintf("hasNestedLiteral of %q", lits)},
				lc{req: "metafind2 lits maxlen 0 - " + strings.Join(hexLits, ","), got: fmt.Sprint(maxLen), desc: fmt.Sprintf("litMaxLen of %q", lits)})
			var ah [][]byte
			for k := 0; k < 8; k++ {
				a, b := lits[rng.Intn(len(lits))], lits[rng.Intn(len(lits))]
				ah = append(ah, append(append(append([]byte("x"), a...), b[len(b)/2:]...), a...), append(append([]byte(nil), b[:len(b)/2]...), a...))
			}
			for _, h := range ah {
				if len(h) > 40 {
					h = h[:40]
				}
				var ft, fat, want []string
				for a := 0; a <= len(h); a++ {
					if m, ok := auto.Find(h, a); ok {
						ft = append(ft, fmt.Sprintf("%d.%d", m.Start, m.End))
					} else {
						ft = append(ft, "x")
					}
					if m, ok := auto.FindAt(h, a); ok {
						fat = append(fat, fmt.Sprintf("%d.%d", m.Start, m.End))
					} else {
						fat = append(fat, "x")
					}
					if p := acp.Find(h, a); p >= 0 {
						want = append(want, fmt.Sprint(p))
					} else {
						want = append(want, "x")
					}
				}
				lean = append(lean, lc{req: fmt.Sprintf("metafind2 acpf %d,%d %s %s %s", map[bool]int{true: 1, false: 0}[nested], maxLen, hexOf(h), strings.Join(ft, ","), strings.Join(fat, ",")),
					got: strings.Join(want, ";"), desc: fmt.Sprintf("AhoCorasickPrefilter.Find from every offset of %q (nested=%v, maxLen=%d)", h, nested, maxLen)})
			}
		}
		for _, h := range hays {
			starts := []int{0, 1, len(h) / 2, len(h) - 1, len(h)}
			for _, st := range starts {
				if st < 0 || st > len(h) {
					continue
				}
				want := naiveMulti(lits, h, st)
				r.Case(fmt.Sprintf("%d\x00%s\x00%d", si, h, st), want >= 0)
				for _, im := range impls {
					t := r.Tie(im.name + ".Find == naive multi-literal search")
					t.Cases++
					got := -2
					res := guard(5*time.Second, func() string { got = im.pf.Find(h, st); return "" })
					if res != "" {
						r.Violate(fmt.Sprintf("%s.Find: %s lits=%q h=%q start=%d", im.name, res, lits, h, st), map[string]any{"impl": im.name, "haystack_hex": hexOf(h), "start": st, "result": res}, false)
						continue
					}
					if got != want {
						t.Disagreements++
						attrs := map[string]string{"impl": im.name, "kind": map[bool]string{true: "skips", false: "differs"}[got == -1 || (want >= 0 && got > want)]}
						if f := matchKnown(known, "C16", attrs); f != nil {
							r.Known(f, map[string]string{"impl": im.name, "haystack_hex": hexOf(h), "start": fmt.Sprint(st)})
							continue
						}
						r.Violate(fmt.Sprintf("%s.Find(%q, %d) = %d, naive = %d; literals %q", im.name, h, st, got, want, lits),
							map[string]any{"impl": im.name, "literals": fmt.Sprintf("%q", lits), "haystack_hex": hexOf(h), "start": st, "got": got, "want": want}, false)
					}
					// LiteralLen: a complete prefilter that reports a fixed literal length promises that every match it finds has it
					if im.pf.IsComplete() && im.pf.LiteralLen() > 0 && got >= 0 {
						tl := r.Tie(im.name + ": IsComplete and LiteralLen()=n>0 => the match at Find's position is [pos,pos+n]")
						tl.Cases++
						loc := std.FindIndex(h[got:])
						if loc == nil || loc[0] != 0 || loc[1] != im.pf.LiteralLen() {
							tl.Disagreements++
							r.Violate(fmt.Sprintf("%s is complete with LiteralLen()=%d, Find(%q,%d)=%d, but the alternation %q matches %v there", im.name, im.pf.LiteralLen(), h, st, got, std.String(), loc),
								map[string]any{"impl": im.name, "pattern": std.String(), "literals": fmt.Sprintf("%q", lits), "haystack_hex": hexOf(h), "start": st, "literal_len": im.pf.LiteralLen()}, false)
						}
					}
					// completeness: span must be the leftmost-first match of the alternation
					if mf, ok := im.pf.(prefilter.MatchFinder); ok && im.pf.IsComplete() {
						tc := r.Tie(im.name + ".FindMatch == regexp leftmost-first span of the alternation (IsComplete)")
						tc.Cases++
						s, e := mf.FindMatch(h, st)
						loc := std.FindIndex(h[st:])
						ws, we := -1, -1
						if loc != nil {
							ws, we = loc[0]+st, loc[1]+st
						}
						if s != ws || e != we {
							tc.Disagreements++
							attrs := map[string]string{"impl": im.name, "kind": "complete-span"}
							if f := matchKnown(known, "C16", attrs); f != nil {
								r.Known(f, map[string]string{"impl": im.name, "haystack_hex": hexOf(h), "start": fmt.Sprint(st)})
							} else {
								r.Violate(fmt.Sprintf("%s is complete but FindMatch(%q, %d) = [%d,%d], regexp alternation %q gives [%d,%d]", im.name, h, st, s, e, std.String(), ws, we),
									map[string]any{"impl": im.name, "pattern": std.String(), "haystack_hex": hexOf(h), "start": st, "got": []int{s, e}, "want": []int{ws, we}}, false)
							}
						}
					}
				}
				if teddy != nil && len(lean) < 3000 {
					var ps []string
					for _, l := range lits {
						ps = append(ps, hexOf(l))
					}
					lean = append(lean, lc{req: fmt.Sprintf("teddy find %d %s 1 %s", st, hexOf(h), strings.Join(ps, ",")), got: fmt.Sprint(teddy.Find(h, st)),
						desc: fmt.Sprintf("lits=%q h=%q start=%d", lits, h, st)})
				}
			}
		}
	}
	// digit prefilter and tracker
	dp := prefilter.NewDigitPrefilter()
	for ln := 0; ln < 80; ln++ {
		for hit := -1; hit < ln; hit += 1 + ln/16 {
			h := bytes.Repeat([]byte{'x'}, ln)
			if hit >= 0 {
				h[hit] = '5'
			}
			t := r.Tie("DigitPrefilter.Find == first digit")
			for _, st := range []int{0, ln / 2} {
				t.Cases++
				want := -1
				for i := st; i < ln; i++ {
					if h[i] >= '0' && h[i] <= '9' {
						want = i
						break
					}
				}
				if got := dp.Find(h, st); got != want {
					t.Disagreements++
					r.Violate(fmt.Sprintf("DigitPrefilter.Find(%q,%d)=%d want %d", h, st, got, want), map[string]any{"impl": "DigitPrefilter", "haystack_hex": hexOf(h), "start": st}, false)
				}
			}
		}
	}
	var reqs []string
	for _, c := range lean {
		reqs = append(reqs, c.req)
	}
	ans, err := RunLean(reqs)
	if err != nil {
		r.Violate("Lean driver failed: "+err.Error(), map[string]any{"correspondence": "C16 Teddy model"}, true)
		return
	}
	t := r.Tie("Lean slim-Teddy model (fingerprint length as built) == prefilter.Teddy.Find")
	ta := r.Tie("Lean Aho-Corasick prefilter model (Cx.MetaFind2.ahoPrefilterFind, hasNestedLiteral, litMaxLen) == prefilter.AhoCorasickPrefilter")
	for i, c := range lean {
		tt, what := t, "Teddy.Find"
		if strings.HasPrefix(c.req, "metafind2 ") {
			tt, what = ta, "AhoCorasickPrefilter"
		}
		tt.Cases++
		if ans[i] != c.got {
			tt.Disagreements++
			r.Violate(fmt.Sprintf("%s vs Lean model: %s implementation=%s model=%s", what, c.desc, c.got, ans[i]), map[string]any{"request": c.req, "implementation": c.got, "model": ans[i]}, false)
		}
	}
	if len(lean) > 0 {
		r.Sample(map[string]any{"case": lean[0].desc, "Teddy.Find": lean[0].got, "model": ans[0]})
		r.Sample(map[string]any{"case": lean[len(lean)/2].desc, "Teddy.Find": lean[len(lean)/2].got, "model": ans[len(lean)/2]})
	}
	replayKnownExamples(r, known, "C16")
}

func init() {
	// witness of a prefilter finding: literals (comma separated) and a haystack on which Find differs from the naive search
	exampleReplayers["prefilter"] = func(f Finding) bool {
		var lits [][]byte
		for _, l := range strings.Split(f.Example["literals"], ",") {
			lits = append(lits, []byte(l))
		}
		pf := prefilter.NewBuilder(seqOf(lits, true), nil).Build()
		if pf == nil {
			return false
		}
		h := []byte(f.Example["haystack"])
		return pf.Find(h, 0) != naiveMulti(lits, h, 0)
	}
}
