package main

import (
	"fmt"
	"regexp"
	"regexp/syntax"
	"strconv"
	"strings"

	"github.com/coregx/coregex/dfa/lazy"
	"github.com/coregx/coregex/nfa"
)

// c14ReverseTie: the lazy DFA in REVERSE mode (SearchReverse, SearchReverseLimited, IsMatchReverse and their uncached
// fallback reverseWalk) on the reversed automata nfa.Reverse(N) / nfa.ReverseAnchored(N), built as meta builds every reverse DFA
// (BreakAtMatch = false).  Three comparisons:
//
//	(a) the Lean model Cx.Model.DfaRev (`dfa rev …`, proved: memoisation invisible, result = least start of a match ending at
//	    `end`, -2 only when the automaton is alive at the bound) replays each session call by call on ONE cache, in cache
//	    configurations that force clears and the uncached fallback (1-byte caches, determinisation limit 2);
//	(b) the real answers against the reference computed with regexp: the least s in [start, end] such that the pattern
//	    matches exactly h[s:end] (SearchReverseLimited may answer -2 only with minStart > start) — the failing input is concrete;
//	(c) the hypotheses of the theorems, decided on every dumped reverse automaton: look-free, rune-free, byte classes compatible.
func c14ReverseTie(r *Report) {
	np := 60
	if r.Tier == "thorough" {
		np = 400
	}
	own := []string{`ab`, `a+b`, `[a-z]+[0-9]+`, `foo|bar`, `a|ab`, `(a|ab)(c|bcd)`, `a*?b`, `.*\.txt`, `[a-z]+z`, `(a|b)*abb`, `x+y+z`, `a.*?b`, `(?s).*a`, `[^a]*`, `(a*)*`,
		`\w+@\w+\.com`, `(ab|cd)+e`, `a{1,2}?`, `.*connection.*?timeout`, `é+`, `[^\n]*x`}
	type cfgT struct {
		name              string
		capb, clears, det int
	}
	cfgs := []cfgT{
		{"cap=2097152,clears=5,det=1000", 2 << 20, 5, 1000},
		{"cap=1,clears=0,det=1000", 1, 0, 1000},
		{"cap=1,clears=2,det=1000", 1, 2, 1000},
		{"cap=700,clears=3,det=1000", 700, 3, 1000},
		{"cap=2097152,clears=5,det=2", 2 << 20, 5, 2},
	}
	type sess struct {
		pattern, variant, cfg, req string
		ops, real                  []string
	}
	var sessions []*sess
	var hypReqs []string
	var hypWho []string
	root := NewRNG(r.Seed ^ 0xC14E)
	tRef := r.Tie("lazy DFA reverse searches (SearchReverse / SearchReverseLimited / IsMatchReverse) == least start of a match ending at `end` (regexp reference)")
	used := 0
	for i := 0; used < np && i < 40*np; i++ {
		rng := root.Fork(uint64(i) + 1)
		var p string
		switch {
		case i < len(own):
			p = own[i]
		case i%2 == 0:
			p = corpusPatterns[rng.Intn(len(corpusPatterns))]
		default:
			p = GenPattern(rng, GenOpts{MaxDepth: 2, NoLook: true})
		}
		ref, err := regexp.Compile(`\A(?:` + p + `)\z`)
		if err != nil {
			continue
		}
		fwd, err := nfa.NewCompiler(nfa.CompilerConfig{UTF8: true, MaxRecursionDepth: 100}).Compile(p)
		if err != nil || fwd.States() > 100 {
			continue
		}
		look := false
		for s := 0; s < fwd.States(); s++ {
			if fwd.State(nfa.StateID(s)).Kind() == nfa.StateLook {
				look = true
			}
		}
		if look {
			continue // meta builds reverse DFAs for look-free automata only (C02's strategy guards)
		}
		used++
		ast, _ := syntax.Parse(p, syntax.Perl)
		reps := byteClassReps(fwd)
		if len(reps) > 3 {
			reps = reps[:3]
		}
		var hays [][]byte
		var gen func(prefix []byte, l int)
		gen = func(prefix []byte, l int) {
			hays = append(hays, append([]byte(nil), prefix...))
			if l == 0 {
				return
			}
			for _, b := range reps {
				gen(append(prefix, b), l-1)
			}
		}
		gen(nil, 3)
		for k := 0; k < 5; k++ { // longer ones: the 4x unrolled block of SearchReverse needs at >= start+3
			h := GenHaystack(rng, ast, true)
			if len(h) > 12 {
				h = h[:12]
			}
			hays = append(hays, h)
		}
		for _, variant := range []string{"Reverse", "ReverseAnchored"} {
			var R *nfa.NFA
			if variant == "Reverse" {
				R = nfa.Reverse(fwd)
			} else {
				R = nfa.ReverseAnchored(fwd)
			}
			if R == nil {
				continue
			}
			bc := R.ByteClasses()
			cls := make([]byte, 256)
			for b := 0; b < 256; b++ {
				cls[b] = bc.Get(byte(b))
			}
			dump := dumpNFA(R)
			hypReqs = append(hypReqs, "dfa hyps "+dump, "dfa classcompat "+hexOf(cls)+" "+dump)
			hypWho = append(hypWho, fmt.Sprintf("%q %s", p, variant))
			for ci, cf := range cfgs {
				cfg := lazy.DefaultConfig().WithCacheCapacity(cf.capb).WithMaxCacheClears(cf.clears).WithDeterminizationLimit(cf.det)
				cfg.BreakAtMatch = false
				d, err := lazy.CompileWithConfig(R, cfg)
				if err != nil || d == nil {
					continue
				}
				c := d.NewCache()
				s := &sess{pattern: p, variant: variant, cfg: cf.name}
				for _, h := range hays {
					h := h
					for end := 0; end <= len(h); end++ {
						// acc[x] = the pattern matches exactly h[x:end]
						acc := make([]bool, end+1)
						for x := 0; x <= end; x++ {
							acc[x] = ref.Match(h[x:end])
						}
						for start := 0; start <= end; start++ {
							if len(h) > 6 && start%2 == 1 {
								continue
							}
							want := -1
							for x := start; x <= end; x++ {
								if acc[x] {
									want = x
									break
								}
							}
							start, end := start, end
							call := func(op, real string, ok bool, what string) {
								s.ops = append(s.ops, op)
								s.real = append(s.real, real)
								if start >= end {
									return // degenerate window: the code answers -1 / false whatever the automaton (modelled, not a reference case)
								}
								tRef.Cases++
								r.Case("rev\x00"+p+"\x00"+variant+"\x00"+op, want >= 0)
								if !ok && isASCIIBytes(h) {
									tRef.Disagreements++
									if tRef.Disagreements > 200 {
										return
									}
									r.Violate(fmt.Sprintf("lazydfa.%s on %s of %q [%s] haystack %q start=%d end=%d: engine=%s reference=%d", what, variant, p, cf.name, h, start, end, real, want),
										map[string]any{"pattern": p, "automaton": "nfa." + variant, "haystack_hex": hexOf(h), "start": start, "end": end, "engine": "lazydfa", "op": what,
											"config": cf.name, "engine_answer": real, "reference": want}, false)
								}
							}
							gotR := guardInt(func() int { return d.SearchReverse(c, h, start, end) })
							call(fmt.Sprintf("R.%d.%d.%s", start, end, hexOf(h)), strconv.Itoa(gotR), gotR == want, "SearchReverse")
							gotQ := guardInt(func() int {
								if d.IsMatchReverse(c, h, start, end) {
									return 1
								}
								return 0
							})
							call(fmt.Sprintf("Q.%d.%d.%s", start, end, hexOf(h)), map[int]string{0: "f", 1: "t", -99: "panic"}[gotQ], (gotQ == 1) == (want >= 0), "IsMatchReverse")
							for _, m := range []int{0, start, start + 1, (start + end + 1) / 2, end, end + 1} {
								m := m
								gotL := guardInt(func() int { return d.SearchReverseLimited(c, h, start, end, m) })
								ok := gotL == want || (gotL == lazy.SearchReverseLimitedQuadratic && m > start)
								call(fmt.Sprintf("L.%d.%d.%d.%s", start, end, m, hexOf(h)), strconv.Itoa(gotL), ok, fmt.Sprintf("SearchReverseLimited(minStart=%d)", m))
							}
						}
					}
				}
				s.req = fmt.Sprintf("dfa rev %d %d %d %d %s %s %s", d.AlphabetLen(), cf.capb, cf.clears, cf.det, hexOf(cls), dump, strings.Join(s.ops, ";"))
				sessions = append(sessions, s)
				r.Dist["reverse-dfa-session:"+cf.name]++
				_ = ci
			}
		}
	}
	// (a) the model replays every session
	var reqs []string
	for _, s := range sessions {
		reqs = append(reqs, s.req)
	}
	ans, err := RunLean(append(reqs, hypReqs...))
	if err != nil || len(ans) != len(reqs)+len(hypReqs) {
		r.Violate(fmt.Sprintf("Lean driver failed on the reverse lazy-DFA sessions: %v", err), map[string]any{"correspondence": "Cx.Model.DfaRev vs dfa/lazy"}, true)
		return
	}
	t := r.Tie("Lean reverse lazy-DFA model (Cx.DfaRev: SearchReverse / SearchReverseLimited / IsMatchReverse / reverseWalk) == dfa/lazy, call by call on one reused cache")
	for i, s := range sessions {
		got := strings.Split(ans[i], ",")
		if len(got) != len(s.real) {
			t.Cases++
			t.Disagreements++
			r.Violate(fmt.Sprintf("reverse lazy DFA model session on %s of %q [%s]: model answered %.60q for %d calls", s.variant, s.pattern, s.cfg, ans[i], len(s.real)),
				map[string]any{"pattern": s.pattern, "config": s.cfg, "request": s.req, "correspondence": "Cx.Model.DfaRev vs dfa/lazy"}, true)
			continue
		}
		for k := range got {
			t.Cases++
			if got[k] != s.real[k] {
				t.Disagreements++
				r.Violate(fmt.Sprintf("reverse lazy DFA model vs code on %s of %q [%s]: call %d (%s) code=%s model=%s", s.variant, s.pattern, s.cfg, k, s.ops[k], s.real[k], got[k]),
					map[string]any{"pattern": s.pattern, "automaton": "nfa." + s.variant, "config": s.cfg, "call_index": k, "call": s.ops[k], "code": s.real[k], "model": got[k],
						"request": s.req, "correspondence": "Cx.Model.DfaRev vs dfa/lazy"}, true)
				break
			}
		}
	}
	// (c) hypotheses of the reverse theorems on every reverse automaton
	th := r.Tie("hypotheses of the reverse-search theorems hold on the dumped reverse automaton (lookFreeB, noRuneB, classCompatB, classStepB)")
	for i, who := range hypWho {
		hy := strings.Split(ans[len(reqs)+2*i], ",")
		cc := ans[len(reqs)+2*i+1]
		th.Cases++
		if len(hy) != 8 || hy[1] != "true" || hy[2] != "true" || cc != "true,true" {
			th.Disagreements++
			r.Violate(fmt.Sprintf("reverse automaton of %s does not satisfy the hypotheses of the reverse-search theorems: hyps=%s classcompat=%s", who, ans[len(reqs)+2*i], cc),
				map[string]any{"automaton": who, "hyps": ans[len(reqs)+2*i], "classcompat": cc, "theorem": "Cx.C02.C02_reverse_search_is_longest_reverse_match / C14 reverse"}, true)
		}
	}
}

func guardInt(f func() int) (res int) {
	defer func() {
		if recover() != nil {
			res = -99
		}
	}()
	return f()
}

func isASCIIBytes(h []byte) bool {
	for _, b := range h {
		if b >= 0x80 {
			return false
		}
	}
	return true
}
