package main

import (
	"bytes"
	"fmt"
	"reflect"
	"regexp"
	"regexp/syntax"
	"sort"
	"strings"
	"sync"
	"sync/atomic"
	"time"
	"unsafe"

	"github.com/coregx/coregex/meta"
	"github.com/coregx/coregex/nfa"
	"github.com/coregx/coregex/prefilter"
)

// c02MetaFindTie: the Lean model of the CORE dispatch of the meta engine (Cx.MetaFind = meta/find_indices.go + meta/ismatch.go
// for the strategies UseNFA / UseDFA / UseBoth / UseBoundedBacktracker: prefilter skip-ahead, literal fast paths, the two-pass
// bidirectional DFA search, the engine choice by CanHandle, the ASCII backtracker, the large-input fallbacks) is run with the
// flags of the real compiled engine (read by reflection) and with component oracles given as tables:
//
//	prefilter.Find / FindMatch / IsComplete / LiteralLen, FirstByteSet.Contains, CanHandle / MaxInputSize   the REAL objects
//	Pike VM, backtrackers, forward DFA, reverse DFA                                                        brute force from regexp
//
// (leftmost-first — or leftmost-longest, in the mode the component is configured with — span from every offset IN THE CONTEXT
// of the whole haystack; the match relation on substrings for the reverse DFA; regexp on the slice for the backtracker calls
// that are made on haystack[at:]).  The MODEL does the dispatch (`metafind all.<st>`); its answers must be what the real
// Engine.FindIndices, Engine.FindIndicesAt at every start offset and Engine.IsMatch return, and those must be what regexp
// returns (reference for an offset at > 0: regexp's leftmost match among the matches that start at or after `at` in the context
// of the whole haystack — `\A(?s:.{s})(pattern)` for every s —, not FindIndex(h[at:]), which forgets what stands before `at`).
//
// Variants of every pattern (a separately compiled engine each):
//
//	default
//	longest          SetLongest(true); the model gets flag L, the Pike VM / backtracker oracles are regexp's Longest() answers,
//	                 the DFA oracles stay leftmost-first; reference: regexp with Longest()
//	squeeze          maxVisitedSize of the real backtrackers (unexported, via unsafe) is cut down to 4 or 7 x numStates, so that
//	                 CanHandle fails beyond 3 (6) bytes and the fallback branches run on the short inputs of this tie
//	squeeze+longest  both (the branch `!e.longest && dfa != nil && reverseDFA != nil` of the fallbacks)
//
// Two places where /repo has moved on from the commit the model transliterates (83f9184) are bridged HERE, by the parameters
// the model is told, and are therefore covered by the regexp ties only (not by the model tie):
//
//   - the ASCII check of findIndicesBoundedBacktrackerAt now always covers the whole remaining input: asciiCheckLimit is given as
//     a number larger than any haystack of this tie (no haystack here reaches 4096 bytes anyway);
//   - the backtracker strategy's fallbacks to the bidirectional DFA are guarded by `!e.longest` now: for (UseBoundedBacktracker,
//     longest) the model is told D = 0 (hasDFA occurs in the bt functions of the model only in that conjunction).
//
// The oracle of the ASCII backtracker is computed in the mode its own `internalState.Longest` says (SetLongest reaches it now).
//
// ENGINE CHOICE.  With correct components the Pike VM and the backtrackers give the same answer, so a wrong choice between them
// (the `useBT := boundedBacktracker != nil && !canMatchEmpty` guard, the CanHandle tests) does not show in the answers.  It is
// observed directly: on the real side a call counts as "ran a backtracker" when BoundedBacktracker.reset left its trace in one of
// the pooled BacktrackerStates (generation counter / capacity of the visited table; Engine.localState -> SearchState.backtracker
// and the one-slot caches of the two backtrackers, read via unsafe); on the model side every request is asked a second time with
// the tables of both backtrackers emptied — every path of the model returns the backtracker's answer as it is, so on a call that
// finds a match the model's answer changes exactly when it consulted a backtracker.  The two must agree.
//
// HYPOTHESIS checked on every engine: a reverse lazy DFA exists only for look-free automata (the match-relation table of the
// reverse oracle is taken on substrings, and nfa.Reverse drops assertions).
func c02MetaFindTie(r *Report) {
	t0 := time.Now()
	defer func() { r.Extra["wall_s:c02MetaFindTie"] = time.Since(t0).Seconds() }()
	budget, tries, nGen, nHay := 45, 1500, 4, 14
	deadline := 25 * time.Second
	if r.Tier == "thorough" {
		budget, tries, nGen, nHay = 180, 12000, 8, 18
		deadline = 240 * time.Second
	}
	root := NewRNG(r.Seed)

	// ---- candidates: the shapes of every strategy, then mutants; a candidate is filed under the strategy it selects -------
	type cand struct{ p, base string }
	var cands []cand
	for _, k := range mfKinds {
		for _, s := range mfShapes[k] {
			cands = append(cands, cand{s, s})
		}
	}
	used := map[meta.Strategy]int{}
	seen := map[string]bool{}
	var targets []*mfTarget
	full := func() bool {
		for _, k := range mfKinds {
			if used[k] < budget {
				return false
			}
		}
		return true
	}
	for i := 0; i < len(cands)+tries && !full(); i++ {
		if time.Since(t0) > deadline/3 {
			r.Dist["c02meta:candidate-search-stopped-by-deadline"]++
			break
		}
		rng := root.Fork(0x3E7A + uint64(i))
		var c cand
		if i < len(cands) {
			c = cands[i]
		} else {
			k := mfKinds[0]
			for _, k2 := range mfKinds {
				if used[k2] < used[k] {
					k = k2
				}
			}
			base := mfShapes[k][rng.Intn(len(mfShapes[k]))]
			c = cand{MutatePattern(rng, base), base}
		}
		if seen[c.p] {
			continue
		}
		seen[c.p] = true
		tc := time.Now()
		t, why := newMFTarget(c.p, c.base)
		if t == nil {
			if why != "" {
				r.Dist["c02meta:skipped:"+why]++
			}
			continue
		}
		if used[t.k] >= budget {
			continue
		}
		e, why, structural := newMFEngine(t, "", 0)
		if structural {
			r.Violate("the meta engine no longer has the fields the core-dispatch model is parameterised by: "+why,
				map[string]any{"pattern": c.p, "correspondence": "Cx.MetaFind vs meta/find_indices.go, meta/ismatch.go"}, true)
			return
		}
		if e == nil {
			r.Dist["c02meta:skipped:"+why]++
			continue
		}
		if i >= len(cands) && time.Since(tc) > 400*time.Millisecond {
			r.Dist["c02meta:skipped:mutant slow to compile"]++
			continue
		}
		if i < len(cands) && t.k != mfShapeKind(c.p) {
			r.Dist["c02meta:shape-goes-elsewhere:"+t.k.String()]++
		}
		t.vs = []*mfEngine{e}
		t.idx = len(targets)
		used[t.k]++
		targets = append(targets, t)
		r.Case("metafind\x00"+t.k.String()+"\x00"+c.p, true)
		r.Dist["c02meta:patterns:"+t.k.String()]++
		for _, f := range e.features() {
			r.Dist["c02meta:feature:"+mfTag[t.k]+":"+f]++
		}
	}

	// ---- per target: variants, haystacks, oracle tables, the real answers (parallel over targets; engines are not shared) ----
	var wg sync.WaitGroup
	ch := make(chan *mfTarget)
	for w := 0; w < 8; w++ {
		wg.Add(1)
		go func() {
			defer wg.Done()
			for t := range ch {
				if time.Since(t0) > deadline {
					t.skipped = "deadline"
					continue
				}
				t.evaluate(root.Fork(0x6D66+uint64(t.idx)), nGen, nHay)
			}
		}()
	}
	for _, t := range targets {
		ch <- t
	}
	close(ch)
	wg.Wait()

	hyp := r.Tie("hypothesis of the core-dispatch model's reverse oracle: the engine has a reverse lazy DFA only when its automaton is look-free")
	var cases []*mfCase
	for _, t := range targets {
		if t.structural != "" {
			r.Violate("the meta engine no longer has the fields the core-dispatch model is parameterised by: "+t.structural,
				map[string]any{"pattern": t.p, "correspondence": "Cx.MetaFind vs meta/find_indices.go, meta/ismatch.go"}, true)
			return
		}
		if t.skipped != "" {
			r.Dist["c02meta:target-skipped:"+t.skipped]++
			continue
		}
		for k, n := range t.dist {
			r.Dist[k] += n
		}
		for _, v := range t.violations {
			r.Violate(v.What, v.Replay, v.NoFail)
		}
		hyp.Cases++
		if t.vs[0].hasRev && t.hasLook {
			hyp.Disagreements++
			r.Violate(fmt.Sprintf("%s: the engine compiled for %q has a reverse lazy DFA although its automaton has look-around states; nfa.Reverse drops assertions (hypothesis of the Cx.MetaFind reverse oracle and of the C02 reverse-search theorems)", t.k, t.p),
				map[string]any{"pattern": t.p, "strategy": t.k.String(), "hypothesis": "look-free automaton under the reverse DFA"}, true)
		}
		cases = append(cases, t.cases...)
	}

	// ---- the model ---------------------------------------------------------------------------------------------------------
	reqs := make([]string, 0, 2*len(cases))
	for _, c := range cases {
		reqs = append(reqs, c.req, c.reqNoBT)
	}
	ans, err := RunLean(reqs)
	if err != nil || len(ans) != len(reqs) {
		r.Violate(fmt.Sprintf("Lean driver failed on the core-dispatch tie: %v", err), map[string]any{"correspondence": "Cx.MetaFind"}, true)
		return
	}
	reported := map[string]bool{}
	once := func(key string) bool {
		if reported[key] {
			return false
		}
		reported[key] = true
		return true
	}
	tLongest := r.Tie("meta.Engine.FindIndices / FindIndicesAt / IsMatch after SetLongest(true) == regexp with Longest() (core dispatch: UseNFA, UseDFA, UseBoth, UseBoundedBacktracker)")
	for i, c := range cases {
		t, e := c.t, c.e
		k := t.k
		ks := k.String()
		tFI := r.Tie(fmt.Sprintf("Cx.MetaFind.findIndices == meta.Engine.FindIndices (%s)", ks))
		tAt := r.Tie(fmt.Sprintf("Cx.MetaFind.findIndicesAt == meta.Engine.FindIndicesAt (%s)", ks))
		tStd := r.Tie(fmt.Sprintf("meta.Engine.FindIndices / FindIndicesAt == regexp (%s; leftmost match starting at or after the offset, in the context of the whole haystack)", ks))
		tStdIs := r.Tie(fmt.Sprintf("meta.Engine.IsMatch == regexp.Match (%s)", ks))
		r.Dist["c02meta:cases:"+mfTag[k]+"/"+e.name()]++
		replay := func(extra map[string]any) map[string]any {
			m := map[string]any{"pattern": t.p, "haystack_hex": hexOf(c.h), "strategy": ks, "variant": e.name(), "longest": e.longest, "flags": e.flags, "request": c.req}
			for k, v := range extra {
				m[k] = v
			}
			return m
		}
		fi, ats, im, ok := mfParseAnswer(ans[2*i], len(c.h))
		fiN, atsN, imN, okN := mfParseAnswer(ans[2*i+1], len(c.h))
		if !ok || !okN {
			tAt.Cases++
			tAt.Disagreements++
			r.Violate(fmt.Sprintf("Cx.MetaFind model: malformed answer %.80q / %.80q", ans[2*i], ans[2*i+1]), replay(map[string]any{"correspondence": "Cx.MetaFind"}), true)
			continue
		}
		// engine choice: on a call that finds a match, the model's answer depends on the backtracker tables exactly when a
		// backtracker search ran inside the real call (every path of the model returns the backtracker's answer as it is)
		tEng := r.Tie(fmt.Sprintf("Cx.MetaFind consults a backtracker exactly when meta.Engine runs one (FindIndices, FindIndicesAt, IsMatch; calls with a match; %s)", ks))
		choice := func(api string, at int, withBT, withoutBT, real string, ran bool) {
			if withBT == "none" || withBT == "false" || withBT == "-" || withBT != real {
				tEng.Skipped++
				return
			}
			tEng.Cases++
			r.Dist["c02meta:engine choice:"+mfTag[k]+map[bool]string{true: ":a backtracker ran", false: ":no backtracker ran"}[ran]]++
			if (withBT != withoutBT) != ran {
				tEng.Disagreements++
				if once("engine\x00" + ks + t.p) {
					who := map[bool]string{true: "a backtracker", false: "no backtracker"}
					r.Violate(fmt.Sprintf("%s [%s]: %s of %q on %q at=%d: the code runs %s, the Lean model consults %s (answer %s either way)", ks, e.name(), api, t.p, c.h, at, who[ran], who[withBT != withoutBT], real),
						replay(map[string]any{"api": api, "at": at, "code_runs_backtracker": ran, "model_consults_backtracker": withBT != withoutBT, "request_without_backtracker": c.reqNoBT,
							"correspondence": "Cx.MetaFind (useBT / CanHandle / canMatchEmpty guards) vs meta/find_indices.go, meta/ismatch.go"}), true)
				}
			}
		}
		choice("FindIndices", 0, fi, fiN, c.realFI, c.ranFI)
		for at := range c.realAt {
			choice("FindIndicesAt", at, ats[at], atsN[at], c.realAt[at], c.ranAt[at])
		}
		choice("IsMatch", 0, im, imN, fmt.Sprint(c.realIs), c.ranIs)
		// FindIndices
		stdOK := c.realFI == c.ref[0]
		tStd.Cases++
		if e.longest {
			tLongest.Cases++
		}
		if !stdOK {
			tStd.Disagreements++
			if e.longest {
				tLongest.Disagreements++
			}
			if once("std\x00" + ks + t.p) {
				r.Violate(fmt.Sprintf("%s [%s]: FindIndices of %q on %q: coregex=%s regexp=%s (model=%s)", ks, e.name(), t.p, c.h, c.realFI, c.ref[0], fi),
					replay(map[string]any{"api": "FindIndices", "coregex": c.realFI, "regexp": c.ref[0], "model": fi}), false)
			}
		}
		tFI.Cases++
		if fi != c.realFI {
			tFI.Disagreements++
			if stdOK && once("model\x00"+ks+t.p) {
				r.Violate(fmt.Sprintf("%s [%s]: FindIndices: the code and the Lean model differ on %q, haystack %q: code=%s model=%s regexp=%s", ks, e.name(), t.p, c.h, c.realFI, fi, c.ref[0]),
					replay(map[string]any{"code": c.realFI, "model": fi, "correspondence": "Cx.MetaFind.findIndices vs meta/find_indices.go"}), true)
			}
		}
		// FindIndicesAt at every offset
		for at := range c.realAt {
			stdOK := c.realAt[at] == c.ref[at]
			tStd.Cases++
			if e.longest {
				tLongest.Cases++
			}
			if !stdOK {
				tStd.Disagreements++
				if e.longest {
					tLongest.Disagreements++
				}
				if once("std\x00" + ks + t.p) {
					r.Violate(fmt.Sprintf("%s [%s]: FindIndicesAt of %q on %q at=%d: coregex=%s regexp=%s (model=%s)", ks, e.name(), t.p, c.h, at, c.realAt[at], c.ref[at], ats[at]),
						replay(map[string]any{"api": "FindIndicesAt", "at": at, "coregex": c.realAt[at], "regexp": c.ref[at], "model": ats[at]}), false)
				}
			}
			tAt.Cases++
			if ats[at] != c.realAt[at] {
				tAt.Disagreements++
				if stdOK && once("model\x00"+ks+t.p) {
					r.Violate(fmt.Sprintf("%s [%s]: FindIndicesAt: the code and the Lean model differ on %q, haystack %q at=%d: code=%s model=%s regexp=%s", ks, e.name(), t.p, c.h, at, c.realAt[at], ats[at], c.ref[at]),
						replay(map[string]any{"at": at, "code": c.realAt[at], "model": ats[at], "correspondence": "Cx.MetaFind.findIndicesAt vs meta/find_indices.go"}), true)
				}
			}
		}
		// IsMatch
		refIs := c.ref[0] != "none"
		tStdIs.Cases++
		if e.longest {
			tLongest.Cases++
		}
		if c.realIs != refIs {
			tStdIs.Disagreements++
			if e.longest {
				tLongest.Disagreements++
			}
			if once("stdis\x00" + ks + t.p) {
				r.Violate(fmt.Sprintf("%s [%s]: IsMatch of %q on %q: coregex=%v regexp=%v (FindIndices: %s; model IsMatch: %s)", ks, e.name(), t.p, c.h, c.realIs, refIs, c.realFI, im),
					replay(map[string]any{"api": "Match", "coregex": fmt.Sprint(c.realIs), "regexp": fmt.Sprint(refIs)}), false)
			}
		}
		if im != "-" { // isMatchBoundedBacktracker is not modelled
			tIs := r.Tie(fmt.Sprintf("Cx.MetaFind.isMatch == meta.Engine.IsMatch (%s)", ks))
			tIs.Cases++
			if (im == "true") != c.realIs {
				tIs.Disagreements++
				if c.realIs == refIs && once("modelis\x00"+ks+t.p) {
					r.Violate(fmt.Sprintf("%s [%s]: IsMatch: the code and the Lean model differ on %q, haystack %q: code=%v model=%s", ks, e.name(), t.p, c.h, c.realIs, im),
						replay(map[string]any{"code": fmt.Sprint(c.realIs), "model": im, "correspondence": "Cx.MetaFind.isMatch vs meta/ismatch.go"}), true)
				}
			}
		}
	}
	r.Sample(map[string]any{"core_dispatch_tie": "shapes + mutants filed under the strategy they select; variants default / longest / squeeze / squeeze+longest",
		"nfa": mfShapes[meta.UseNFA][:4], "dfa": mfShapes[meta.UseDFA][:4], "both": mfShapes[meta.UseBoth][:3], "bt": mfShapes[meta.UseBoundedBacktracker][:4]})
}

var mfKinds = []meta.Strategy{meta.UseNFA, meta.UseDFA, meta.UseBoth, meta.UseBoundedBacktracker}

var mfTag = map[meta.Strategy]string{meta.UseNFA: "nfa", meta.UseDFA: "dfa", meta.UseBoth: "both", meta.UseBoundedBacktracker: "bt"}

// Shapes meta.Compile dispatches to each strategy (from the generator of tools/fidelity/metafind): with and without a prefilter,
// complete and incomplete prefilters, prefilters with FindMatch, nullable patterns, assertions, start-anchored patterns, lazy
// quantifiers (no reverse DFA), patterns with a dot (the ASCII backtracker exists), (?i) literals and counted dots with more
// than 100 NFA states.
var mfShapes = map[meta.Strategy][]string{
	meta.UseNFA: {`a*`, `a*b*`, `(?:|a)*`, `(?:a|)*`, `x?y?`, `(?:ab|a)*`, `a??b?`, `(a*)(b*)`, `a*|b`, `|a`, `(?m)^$`, `\B`, `(?m)^a*$`,
		`\ba`, `a\b`, `\bab\b`, `(?m)^ab$`, `\bfoo`, `foo\b`, `(?m)^foo|bar`, `\bfoo|bar\b`, `(?m)^ab+`, `\b(?:foo|bar)\b`, `\bfoo\d`, `(?:foo|fob|fab)\b`,
		`(?m)^a`, `\b\w+\b`, `(?m)^\w+`, `\ba+`, `\bab|cd\b`,
		`(?i)select|insert|update|delete`, `(?i)aaaaaaaaaaaaaaaaaaaaaaaaaaaa`, `(?i)foo\w{30}`, `a.{8}`, `(?i)abc\w{6}`},
	meta.UseDFA: {`a`, `ab`, `foo`, `abab`,
		`ab\d+`, `ab\w*`, `abx?`, `ab\d*z`, `ab+c`, `abc\d*abc`, `abc[^a]`,
		`ab[a-c]{2}`, `(foo|bar)x*`, `ab\d{2}`, `(?i)hello\d`,
		`ab.`, `foo.*bar`, `abc.?x`, `(?s)a.*b`, `a.*?b`, `\bfoo.`, `(?m)^a.b`,
		`ab+?`, `abc*?d`, `ab\w*?c`,
		`a|bc`, `(a|b)x*`, `a[a-c]{2}`, `a+b+c+`, `(?:abc)+d`, `([a-c])*?x`, `([ab])??c`, `^a|^b`,
		`a.{3}b.{3}`, `ab.{4}c`, `(?i)abc.*abcabcabcabcabcabc`, `(?i)abc[a-c]{60}`},
	meta.UseBoth: {`\w{6}$|\w{5}`, `\w{8}\b|\w{7}`, `\w{4}a\w{4}`, `(?:ab|cd)\w{8}`, `\b\w{9}`, `a\w{8}|b\w{8}`, `[a-c]x\w{9}`, `(?m)^\w{9}`,
		`.\b`, `(.)+`, `(.)(\d)`, `([a-c]|.)+`, `(\w|.)x`,
		`(?i)hello world`, `(?i)hello world foo bar`, `(?i)abcabcabcabcabcabc`, `(?i)abcdefghij\d`, `(?i)hello|world wide web stuff`, `(?i)abcabcabcabcabcabcx*`,
		`(?i)needle in a haystack`, `(?i)\bfoo bar baz qux\b`, `(?i)ab+c+d+e+f+g+h+i+j+k+`, `(?i)(?:abc|abd|abe|abf|abg|abh)xyz`, `a{60}`, `(?:ab){40}`},
	meta.UseBoundedBacktracker: {`a|b`, `(a|b)*`, `\d*`, `\Aab`, `^ab`, `^a+b`, `^a.*b`, `^(a|b)+`, `^\d+$`, `^a*`, `^a*b`, `^.*b`, `^.+`, `^(?:ab|a)c`, `^a?b?`, `^(a*)(b*)$`,
		`^\bab`, `^a\b`, `^[^a]b`, `^a+?b`, `^.*?b`, `^(?:|a)b`, `^a..b`,
		`(a|b|c)+`, `([a-c])+\d`, `([ab])([cd])`, `(a|b)(c|d)*`, `([a-c]+)(\d+)`, `(\w)+`, `([a-c]){1,2}\d`, `(a|b)+?`, `[a-c]+?`, `[a-c]*?\d`, `[a-z]??[a-z][0-9]*?`,
		`(?:\w\d){5}`},
}

func mfShapeKind(p string) meta.Strategy {
	for _, k := range mfKinds {
		for _, s := range mfShapes[k] {
			if s == p {
				return k
			}
		}
	}
	return meta.UseNFA
}

// the fields of meta.Engine / nfa.BoundedBacktracker the tie reads (a missing or retyped one is a structural change the model
// does not follow)
var mfEngineFields = map[string]reflect.Kind{"prefilter": reflect.Interface, "prefilterPartialCoverage": reflect.Bool, "dfa": reflect.Pointer, "reverseDFA": reflect.Pointer,
	"nfaStateCount": reflect.Int, "canMatchEmpty": reflect.Bool, "boundedBacktracker": reflect.Pointer, "asciiBoundedBacktracker": reflect.Pointer,
	"anchoredFirstBytes": reflect.Pointer, "nfa": reflect.Pointer, "isStartAnchored": reflect.Bool, "longest": reflect.Bool}

var (
	mfBTPtrType  = reflect.TypeOf((*nfa.BoundedBacktracker)(nil))
	mfFBPtrType  = reflect.TypeOf((*nfa.FirstByteSet)(nil))
	mfPrefilterT = reflect.TypeOf((*prefilter.Prefilter)(nil)).Elem()
)

type mfFindMatcher interface{ FindMatch([]byte, int) (int, int) }

// mfEngine: one compiled engine of a pattern in one variant, with everything the request tables are made of
type mfEngine struct {
	squeeze         int // 0 = not squeezed, else maxVisitedSize = squeeze x numStates
	eng             *meta.Engine
	flags           string
	pf              prefilter.Prefilter
	fm              mfFindMatcher
	litLen, states  int
	bt, abt         *nfa.BoundedBacktracker
	fbHex           string
	hasRev, longest bool
	abtLongest      bool
	partial, hasDFA bool
	canEmpty        bool
	anchored        bool
	// the pooled backtracker states a search of this engine can run on (engine-choice probe)
	engState *atomic.Pointer[meta.SearchState]
	btPools  []*atomic.Pointer[nfa.BacktrackerState]
}

// mfSig: what BoundedBacktracker.reset changes in a BacktrackerState — the generation counter goes up, or the visited table is
// reallocated (larger capacity) and the counter restarts
type mfSig struct {
	gen uint16
	cp  int
}

func mfSigOf(st *nfa.BacktrackerState) mfSig {
	if st == nil {
		return mfSig{}
	}
	return mfSig{st.Generation, cap(st.Visited)}
}

func (e *mfEngine) sigs() []mfSig {
	out := make([]mfSig, 0, 3)
	var st *nfa.BacktrackerState
	if ls := e.engState.Load(); ls != nil {
		if bf := reflect.ValueOf(ls).Elem().FieldByName("backtracker"); !bf.IsNil() {
			st = (*nfa.BacktrackerState)(unsafe.Pointer(bf.Pointer()))
		}
	}
	out = append(out, mfSigOf(st))
	for _, p := range e.btPools {
		out = append(out, mfSigOf(p.Load()))
	}
	return out
}

// btRan runs one call of the engine and reports whether a backtracker search (BoundedBacktracker.reset) happened inside it.
// Single goroutine per engine: the search state taken from the engine's / the backtrackers' one-slot caches goes back there.
func (e *mfEngine) btRan(call func()) bool {
	before := e.sigs()
	call()
	after := e.sigs()
	for i := range before {
		if before[i] != after[i] {
			return true
		}
	}
	return false
}

func (e *mfEngine) name() string {
	switch {
	case e.squeeze > 0 && e.longest:
		return "squeeze+longest"
	case e.squeeze > 0:
		return "squeeze"
	case e.longest:
		return "longest"
	}
	return "default"
}

func (e *mfEngine) features() []string {
	var fs []string
	mark := func(c bool, s string) {
		if c {
			fs = append(fs, s)
		}
	}
	mark(e.pf == nil, "no prefilter")
	mark(e.pf != nil && e.pf.IsComplete(), "prefilter complete")
	mark(e.pf != nil && e.pf.IsComplete() && e.litLen > 0, "prefilter complete, literalLen > 0")
	mark(e.pf != nil && !e.pf.IsComplete(), "prefilter incomplete")
	mark(e.fm != nil, "prefilter with FindMatch")
	mark(e.partial, "prefilter partial coverage")
	mark(e.hasDFA, "dfa")
	mark(e.hasRev, "reverseDFA")
	mark(e.canEmpty, "canMatchEmpty")
	mark(e.bt != nil, "backtracker")
	mark(e.abt != nil, "ascii backtracker")
	mark(e.fbHex != "*", "anchoredFirstBytes")
	mark(e.anchored, "alwaysAnchored")
	mark(e.states > 100, "nfa states > 100")
	return fs
}

type mfTarget struct {
	idx        int
	k          meta.Strategy
	p, base    string
	ast        *syntax.Regexp
	std, stdL  *regexp.Regexp // leftmost-first, leftmost-longest
	reFull     *regexp.Regexp // \A(?:p)\z
	ctx, ctxL  *mfCtx
	hasLook    bool
	vs         []*mfEngine
	cases      []*mfCase
	dist       map[string]int
	violations []Violation
	structural string
	skipped    string
	eng0       *meta.Engine // the engine the strategy was read from: becomes the default variant
}

type mfCase struct {
	t       *mfTarget
	e       *mfEngine
	h       []byte
	req     string
	ref     []string // regexp in the mode of the engine, per start offset
	reqNoBT string   // the same request with the tables of both backtrackers emptied
	realFI  string
	realAt  []string
	realIs  bool
	// did a backtracker search run inside the call (FindIndices, FindIndicesAt per offset, IsMatch)?
	ranFI, ranIs bool
	ranAt        []bool
}

// newMFTarget: the pattern must compile under regexp and go to one of the four strategies ("" = silently not ours)
func newMFTarget(p, base string) (*mfTarget, string) {
	std, err := regexp.Compile(p)
	if err != nil {
		return nil, ""
	}
	ast, err := syntax.Parse(p, syntax.Perl)
	if err != nil {
		return nil, ""
	}
	reFull, err := regexp.Compile(`\A(?:` + p + `)\z`)
	if err != nil {
		return nil, "regexp rejects the wrapped pattern"
	}
	var eng *meta.Engine
	if res := guard(stratTimeout, func() string {
		var e error
		eng, e = meta.Compile(p)
		if e != nil {
			return "ERR"
		}
		return ""
	}); res != "" || eng == nil {
		if res == "TIMEOUT" || strings.HasPrefix(res, "PANIC") {
			return nil, "meta.Compile " + strings.SplitN(res, ":", 2)[0]
		}
		return nil, ""
	}
	k := eng.Strategy()
	if _, ok := mfTag[k]; !ok {
		return nil, ""
	}
	stdL := regexp.MustCompile(p)
	stdL.Longest()
	return &mfTarget{k: k, p: p, base: base, ast: ast, std: std, stdL: stdL, reFull: reFull, ctx: &mfCtx{p: p, re: map[int]*regexp.Regexp{}},
		ctxL: &mfCtx{p: p, longest: true, re: map[int]*regexp.Regexp{}}, dist: map[string]int{}, eng0: eng}, ""
}

// newMFEngine compiles the pattern anew and reads the engine; (nil, why, false) = not usable; (nil, why, true) = the structs changed
func newMFEngine(t *mfTarget, variant string, squeeze int) (*mfEngine, string, bool) {
	eng := t.eng0
	t.eng0 = nil
	if eng == nil && (guard(stratTimeout, func() string {
		var e error
		eng, e = meta.Compile(t.p)
		if e != nil {
			return "ERR"
		}
		return ""
	}) != "" || eng == nil) {
		return nil, "meta.Compile failed the second time", false
	}
	if eng.Strategy() != t.k {
		return nil, "strategy not stable across compilations", false
	}
	ev := reflect.ValueOf(eng).Elem()
	names := make([]string, 0, len(mfEngineFields))
	for n := range mfEngineFields {
		names = append(names, n)
	}
	sort.Strings(names)
	for _, n := range names {
		if f := ev.FieldByName(n); !f.IsValid() || f.Kind() != mfEngineFields[n] {
			return nil, "meta.Engine." + n, true
		}
	}
	if ev.FieldByName("prefilter").Type() != mfPrefilterT || ev.FieldByName("nfa").Type() != nfaPtrType || ev.FieldByName("boundedBacktracker").Type() != mfBTPtrType ||
		ev.FieldByName("asciiBoundedBacktracker").Type() != mfBTPtrType || ev.FieldByName("anchoredFirstBytes").Type() != mfFBPtrType {
		return nil, "meta.Engine: type of prefilter / nfa / boundedBacktracker / asciiBoundedBacktracker / anchoredFirstBytes", true
	}
	if f := ev.FieldByName("localState"); !f.IsValid() || f.Type() != reflect.TypeOf((*atomic.Pointer[meta.SearchState])(nil)).Elem() {
		return nil, "meta.Engine.localState atomic.Pointer[SearchState]", true
	}
	if f, ok := reflect.TypeOf((*meta.SearchState)(nil)).Elem().FieldByName("backtracker"); !ok || f.Type != reflect.TypeOf((*nfa.BacktrackerState)(nil)) {
		return nil, "meta.SearchState.backtracker *nfa.BacktrackerState", true
	}
	ptr := func(name string) unsafe.Pointer {
		if f := ev.FieldByName(name); !f.IsNil() {
			return unsafe.Pointer(f.Pointer())
		}
		return nil
	}
	e := &mfEngine{eng: eng, fbHex: "*"}
	if pff := ev.FieldByName("prefilter"); !pff.IsNil() {
		e.pf = *(*prefilter.Prefilter)(unsafe.Pointer(pff.UnsafeAddr()))
		e.fm, _ = e.pf.(mfFindMatcher)
		e.litLen = e.pf.LiteralLen()
	}
	e.states = int(ev.FieldByName("nfaStateCount").Int())
	e.bt = (*nfa.BoundedBacktracker)(ptr("boundedBacktracker"))
	e.abt = (*nfa.BoundedBacktracker)(ptr("asciiBoundedBacktracker"))
	nf := (*nfa.NFA)(ptr("nfa"))
	if nf == nil {
		return nil, "meta.Engine.nfa is nil", true
	}
	if t.vs == nil {
		t.hasLook = len(lookKinds(nf)) > 0
	}
	if q := ptr("anchoredFirstBytes"); q != nil {
		fb := (*nfa.FirstByteSet)(q)
		var bs []byte
		for c := 0; c < 256; c++ {
			if fb.Contains(byte(c)) {
				bs = append(bs, byte(c))
			}
		}
		e.fbHex = hexOf(bs)
	}
	e.hasRev = ptr("reverseDFA") != nil
	e.hasDFA = ptr("dfa") != nil
	for _, b := range []*nfa.BoundedBacktracker{e.bt, e.abt} {
		if b == nil {
			continue
		}
		bv := reflect.ValueOf(b).Elem()
		for n, kd := range map[string]reflect.Kind{"numStates": reflect.Int, "maxVisitedSize": reflect.Int, "internalState": reflect.Struct} {
			if f := bv.FieldByName(n); !f.IsValid() || f.Kind() != kd {
				return nil, "nfa.BoundedBacktracker." + n, true
			}
		}
		if f := bv.FieldByName("internalState").FieldByName("Longest"); !f.IsValid() || f.Kind() != reflect.Bool {
			return nil, "nfa.BacktrackerState.Longest", true
		}
		f := bv.FieldByName("localState")
		if !f.IsValid() || f.Type() != reflect.TypeOf((*atomic.Pointer[nfa.BacktrackerState])(nil)).Elem() {
			return nil, "nfa.BoundedBacktracker.localState atomic.Pointer[BacktrackerState]", true
		}
		e.btPools = append(e.btPools, (*atomic.Pointer[nfa.BacktrackerState])(unsafe.Pointer(f.UnsafeAddr())))
	}
	e.engState = (*atomic.Pointer[meta.SearchState])(unsafe.Pointer(ev.FieldByName("localState").UnsafeAddr()))
	if squeeze > 0 {
		if e.bt == nil {
			return nil, "squeeze: no backtracker", false
		}
		e.squeeze = squeeze
		for _, b := range []*nfa.BoundedBacktracker{e.bt, e.abt} {
			if b != nil {
				bv := reflect.ValueOf(b).Elem()
				*(*int)(unsafe.Pointer(bv.FieldByName("maxVisitedSize").UnsafeAddr())) = squeeze * int(bv.FieldByName("numStates").Int())
			}
		}
	}
	if strings.Contains(variant, "longest") {
		eng.SetLongest(true)
	}
	e.longest = ev.FieldByName("longest").Bool()
	if e.longest != strings.Contains(variant, "longest") {
		return nil, "meta.Engine.longest does not follow SetLongest", true
	}
	if e.abt != nil {
		e.abtLongest = reflect.ValueOf(e.abt).Elem().FieldByName("internalState").FieldByName("Longest").Bool()
	}
	e.partial = ev.FieldByName("prefilterPartialCoverage").Bool()
	e.canEmpty = ev.FieldByName("canMatchEmpty").Bool()
	e.anchored = nf.IsAlwaysAnchored()
	// the model is told D = 0 for (UseBoundedBacktracker, longest): `!e.longest && e.dfa != nil && e.reverseDFA != nil` (see the top)
	tellDFA := e.hasDFA && !(t.k == meta.UseBoundedBacktracker && e.longest)
	e.flags = b01(e.longest) + b01(e.pf != nil) + b01(e.pf != nil && e.pf.IsComplete()) + b01(e.fm != nil) + b01(e.partial) + b01(tellDFA) + b01(e.hasRev) +
		b01(e.canEmpty) + b01(e.bt != nil) + b01(e.abt != nil) + b01(e.fbHex != "*") + b01(e.anchored) + b01(ev.FieldByName("isStartAnchored").Bool()) + "0"
	eng.IsMatch(nil) // warm-up: the engine's one-slot state cache is filled by the first search
	return e, "", false
}

// mfCtx: the end of regexp's match of the pattern that starts EXACTLY at byte offset s (leftmost-first, or the longest one), in
// the context of the whole haystack.  Haystacks are ASCII, so `(?s:.{s})` skips exactly s bytes.  -1 = none, -2 = no reference.
type mfCtx struct {
	p       string
	longest bool
	re      map[int]*regexp.Regexp
}

func (c *mfCtx) anchTable(h []byte) ([]int, bool) {
	a := make([]int, len(h)+1)
	for s := range a {
		re, ok := c.re[s]
		if !ok {
			re, _ = regexp.Compile(fmt.Sprintf(`\A(?s:.{%d})((?:%s))`, s, c.p))
			if re != nil && c.longest {
				re.Longest()
			}
			c.re[s] = re
		}
		if re == nil {
			return nil, false
		}
		a[s] = -1
		if loc := re.FindSubmatchIndex(h); loc != nil {
			a[s] = loc[3]
		}
	}
	return a, true
}

// span tables from an anchored table: per offset, the match at the least start >= offset
func mfSpans(anch []int) [][2]int {
	n := len(anch) - 1
	sp := make([][2]int, n+1)
	for at := n; at >= 0; at-- {
		switch {
		case anch[at] >= 0:
			sp[at] = [2]int{at, anch[at]}
		case at < n:
			sp[at] = sp[at+1]
		default:
			sp[at] = [2]int{-1, -1}
		}
	}
	return sp
}

func mfSpanStr(s [2]int, none string) string {
	if s[0] < 0 {
		return none
	}
	return fmt.Sprintf("%d.%d", s[0], s[1])
}

// evaluate: variants, haystacks, requests, real answers of one target
func (t *mfTarget) evaluate(rng *RNG, nGen, nHay int) {
	defer func() {
		if p := recover(); p != nil {
			t.violations = append(t.violations, Violation{What: fmt.Sprintf("%s: panic while evaluating %q: %v", t.k, t.p, p),
				Replay: map[string]any{"pattern": t.p, "strategy": t.k.String(), "panic": fmt.Sprint(p)}, NoFail: false})
		}
	}()
	vars := []struct {
		name string
		sq   int
	}{{"longest", 0}}
	if t.vs[0].bt != nil {
		sq := 4 + 3*(t.idx%2)
		vars = append(vars, struct {
			name string
			sq   int
		}{"squeeze", sq}, struct {
			name string
			sq   int
		}{"squeeze+longest", sq})
	}
	for _, v := range vars {
		e, why, structural := newMFEngine(t, v.name, v.sq)
		if structural {
			t.structural = why
			return
		}
		if e == nil {
			t.dist["c02meta:variant-skipped:"+why]++
			continue
		}
		t.vs = append(t.vs, e)
	}
	hays := mfHaystacks(rng, t, nGen, nHay)
	for _, h := range hays {
		n := len(h)
		anchF, ok := t.ctx.anchTable(h)
		if !ok {
			t.dist["c02meta:haystack-skipped:no in-context reference"]++
			continue
		}
		first := mfSpans(anchF)
		if mfSpanStr(first[0], "none") != stratSpan(t.std.FindIndex(h)) {
			t.violations = append(t.violations, Violation{What: fmt.Sprintf("harness: the in-context reference disagrees with regexp.FindIndex at offset 0 for %q on %q: %s vs %s", t.p, h, mfSpanStr(first[0], "none"), stratSpan(t.std.FindIndex(h))),
				Replay: map[string]any{"pattern": t.p, "haystack_hex": hexOf(h)}, NoFail: true})
			continue
		}
		var long [][2]int
		mt := ""
		for _, e := range t.vs {
			refs := first
			if e.longest {
				if long == nil {
					anchL, ok := t.ctxL.anchTable(h)
					if !ok {
						break
					}
					long = mfSpans(anchL)
					if mfSpanStr(long[0], "none") != stratSpan(t.stdL.FindIndex(h)) {
						t.violations = append(t.violations, Violation{What: fmt.Sprintf("harness: the in-context leftmost-longest reference disagrees with regexp.FindIndex at offset 0 for %q on %q: %s vs %s", t.p, h, mfSpanStr(long[0], "none"), stratSpan(t.stdL.FindIndex(h))),
							Replay: map[string]any{"pattern": t.p, "haystack_hex": hexOf(h)}, NoFail: true})
						break
					}
				}
				refs = long
			}
			if e.hasRev && mt == "" {
				mt = stratPairTable(t.reFull, h)
			}
			c := &mfCase{t: t, e: e, h: h, ref: make([]string, n+1), realAt: make([]string, n+1)}
			for a := range c.ref {
				c.ref[a] = mfSpanStr(refs[a], "none")
			}
			c.req, c.reqNoBT = t.request(e, h, first, refs, anchF, mt)
			if c.req == "" {
				t.dist["c02meta:haystack-skipped:CanHandle not monotone"]++
				continue
			}
			c.ranAt = make([]bool, n+1)
			c.ranFI = e.btRan(func() {
				s, en, ok := e.eng.FindIndices(h)
				c.realFI = stratSpan3(s, en, ok)
			})
			for at := 0; at <= n; at++ {
				c.ranAt[at] = e.btRan(func() {
					s, en, ok := e.eng.FindIndicesAt(h, at)
					c.realAt[at] = stratSpan3(s, en, ok)
				})
			}
			c.ranIs = e.btRan(func() { c.realIs = e.eng.IsMatch(h) })
			t.cases = append(t.cases, c)
			t.dist["c02meta:start offsets"] += n + 1
		}
	}
}

// request: the tables of one (engine, haystack) — port of tools/fidelity/metafind (*mfTarget).request
func (t *mfTarget) request(e *mfEngine, h []byte, first, refs [][2]int, anchF []int, mt string) (string, string) {
	n := len(h)
	pike, fwd, anch, im := make([]string, n+1), make([]string, n+1), make([]string, n+1), make([]byte, n+1)
	for a := 0; a <= n; a++ {
		pike[a] = mfSpanStr(refs[a], "x")
		fwd[a], im[a], anch[a] = "x", '0', "x"
		if first[a][0] >= 0 {
			fwd[a], im[a] = fmt.Sprint(first[a][1]), '1'
		}
		if anchF[a] >= 0 {
			anch[a] = fmt.Sprint(anchF[a])
		}
	}
	pf, pfm := "-", "-"
	if e.pf != nil {
		ps, ms := make([]string, n+1), make([]string, n+1)
		for a := 0; a <= n; a++ {
			ps[a], ms[a] = "x", "x"
			if p := e.pf.Find(h, a); p >= 0 {
				ps[a] = fmt.Sprint(p)
			}
			if e.fm != nil {
				if s, en := e.fm.FindMatch(h, a); s >= 0 {
					ms[a] = fmt.Sprintf("%d.%d", s, en)
				}
			}
		}
		pf = strings.Join(ps, ",")
		if e.fm != nil {
			pfm = strings.Join(ms, ",")
		}
	}
	// CanHandle(k) = k <= limit, read off the real object for every k that can occur
	limit := func(b *nfa.BoundedBacktracker) (int, bool) {
		lim, closed := -1, false
		for k := 0; k <= n; k++ {
			if b.CanHandle(k) {
				if closed {
					return 0, false
				}
				lim = k
			} else {
				closed = true
			}
		}
		if !closed {
			return n + 1<<20, true
		}
		return lim, lim >= 0
	}
	slices := func(b *nfa.BoundedBacktracker, re *regexp.Regexp, asciiOnly bool) (string, int) {
		max := b.MaxInputSize()
		var ss []string
		add := func(lo, hi int) {
			if l := re.FindIndex(h[lo:hi]); l != nil {
				ss = append(ss, fmt.Sprintf("%d.%d.%d.%d", lo, hi, l[0], l[1]))
			}
		}
		for a := 0; a <= n; a++ {
			if asciiOnly && !isASCIIBytes(h[a:]) {
				continue
			}
			add(a, n)
			if max > 0 && n-a > max {
				add(a, a+max)
			}
		}
		if len(ss) == 0 {
			return "-", max
		}
		return strings.Join(ss, ","), max
	}
	mode := func(longest bool) *regexp.Regexp {
		if longest {
			return t.stdL
		}
		return t.std
	}
	sl, asl := "-", "-"
	btLimit, btMax, aLimit, aMax := 0, 0, 0, 0
	if e.bt != nil {
		var ok bool
		if btLimit, ok = limit(e.bt); !ok {
			return "", ""
		}
		sl, btMax = slices(e.bt, mode(e.longest), false)
		if e.abt != nil {
			if aLimit, ok = limit(e.abt); !ok {
				return "", ""
			}
			asl, aMax = slices(e.abt, mode(e.abtLongest), true)
		}
	}
	if mt == "" {
		mt = "-"
	}
	// asciiCheckLimit: the whole remaining input is checked (see the top)
	nums := fmt.Sprintf("%d,%d,%d,%d,%d,%d,%d", e.litLen, e.states, n+1<<20, btLimit, aLimit, btMax, aMax)
	toks := []string{"metafind", "all." + mfTag[t.k], e.flags, nums, "*", hexOf(h), mt, strings.Join(pike, ","), strings.Join(fwd, ","),
		strings.Join(anch, ","), string(im), strings.Join(fwd, ","), pf, pfm, "=", sl, asl, e.fbHex}
	req := strings.Join(toks, " ")
	// the engine-choice probe: both backtrackers answer "no match" everywhere (bt, sl, asl); where the model's answer changes, the
	// model consulted a backtracker
	toks[14], toks[15], toks[16] = strings.TrimSuffix(strings.Repeat("x,", n+1), ","), "-", "-"
	return req, strings.Join(toks, " ")
}

func mfParseAnswer(a string, n int) (fi string, ats []string, im string, ok bool) {
	for _, f := range strings.Fields(a) {
		switch {
		case strings.HasPrefix(f, "fi="):
			fi = f[3:]
		case strings.HasPrefix(f, "at="):
			ats = strings.Split(f[3:], ";")
		case strings.HasPrefix(f, "im="):
			im = f[3:]
		}
	}
	return fi, ats, im, fi != "" && im != "" && len(ats) == n+1
}

// mfHaystacks: ASCII haystacks of at most 14 bytes (longer only when the pattern has no match that short): empty, derived from
// the literal the real prefilter looks for (alone, doubled, an occurrence that is NOT a match followed by a whole match), sampled
// matches with fillers around them, a match cut short followed by a whole one, and pattern-derived random ones.
func mfHaystacks(rng *RNG, t *mfTarget, nGen, nHay int) [][]byte {
	sample := func() []byte {
		b := 60
		return stratASCII(sampleMatch(rng, t.ast, nil, &b))
	}
	m, m2 := sample(), sample()
	for i := 0; i < 6; i++ { // prefer short samples that match
		if x := sample(); t.std.Match(x) && (!t.std.Match(m) || len(x) < len(m)) {
			m2, m = m, x
		}
	}
	maxLen := 14
	if len(m) > 10 {
		maxLen = len(m) + 4
		if maxLen > 44 {
			maxLen = 44
		}
		nHay = nHay*2/3 + 1
	}
	var hs [][]byte
	seen := map[string]bool{}
	limit := nHay - nGen // the fixed ones; the pattern-derived random ones fill up to nHay
	add := func(parts ...[]byte) {
		h := stratASCII(bytes.Join(parts, nil))
		if len(h) > maxLen {
			h = h[:maxLen]
		}
		if !seen[string(h)] && len(hs) < limit {
			seen[string(h)] = true
			hs = append(hs, h)
		}
	}
	// the literal: where the real prefilter finds its candidate in a sampled match
	L := m
	if pf := t.vs[0].pf; pf != nil && len(m) > 0 {
		if p := pf.Find(m, 0); p >= 0 && p < len(m) {
			L = m[p:]
		}
	}
	if lits := stratSeqBytes(stratExtractor().ExtractPrefixes(t.ast)); len(lits) > 0 && len(lits[0]) > 0 && isASCIIBytes(lits[0]) {
		L = lits[0]
	}
	if len(L) > 4 {
		L = L[:4]
	}
	f := []byte{'#'}
	for _, c := range []byte("#-x 9") {
		if !t.std.Match([]byte{c}) && !bytes.Contains(L, []byte{c}) {
			f = []byte{c}
			break
		}
	}
	nl := []byte("\n")
	cut := m
	if len(m) > 1 {
		cut = m[:len(m)-1]
	}
	add()
	add(m)
	add(cut, f, m)   // a candidate that is rejected, then an accepted one
	add(L, f, L, m2) // occurrences of the literal that are no match, then a whole match
	add(f, m, f)
	add(L)
	add(m, m2)
	add(f, f, cut, m)
	add(L, L)
	add(m, nl, m2)
	if len(m) > 1 {
		add(m[:len(m)/2], []byte(" "), m2)
		add(m[1:], m)
	}
	add(f, L, nl, f, f, m)
	add(bytes.ToUpper(m), f, m)
	limit = nHay
	for k, tries := 0, 0; k < nGen && tries < 40; tries++ {
		before := len(hs)
		g := GenHaystack(rng, t.ast, true)
		if len(g) > 4096 {
			g = g[:64]
		}
		add(g)
		if len(hs) > before {
			k++
		}
	}
	return hs
}
