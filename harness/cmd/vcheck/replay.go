package main

import (
	"encoding/hex"
	"regexp"
	"strconv"
	"strings"
	"time"

	"github.com/coregx/coregex"
)

// exampleReplayers re-run a finding's concrete witness by kind; default kind is "api-vs-regexp".
var exampleReplayers = map[string]func(f Finding) bool{}

func allObs() []Obs {
	var o []Obs
	o = append(o, obsMatch()...)
	o = append(o, obsFind()...)
	o = append(o, obsSubmatch()...)
	o = append(o, obsFindAll([]int{-1, 0, 1, 2, 3})...)
	o = append(o, obsReplace([]string{"X", "", "$0", "[$1]", "${1}x", "$$", "$na", "$10"})...)
	o = append(o, obsSplit([]int{-1, 0, 1, 2, 3})...)
	o = append(o, obsReader()...)
	o = append(o, obsExtra()...)
	return o
}

func obsByName(name string) *Obs {
	for _, o := range allObs() {
		if o.API == name {
			o := o
			return &o
		}
	}
	return nil
}

// stillFails: does the witness of an open finding still show coregex != regexp?
func stillFails(f Finding) bool {
	if k := f.Example["kind"]; k != "" && k != "api-vs-regexp" {
		if fn := exampleReplayers[k]; fn != nil {
			return fn(f)
		}
		return true // cannot replay: keep reporting it
	}
	p := f.Example["pattern"]
	h, err := hex.DecodeString(strings.TrimPrefix(f.Example["haystack_hex"], "-"))
	if err != nil {
		return true
	}
	o := obsByName(f.Example["api"])
	if o == nil {
		return true
	}
	std, err := regexp.Compile(p)
	if err != nil {
		return true
	}
	cx, err := coregex.Compile(p)
	if err != nil {
		return true
	}
	if lg, _ := strconv.ParseBool(f.Example["longest"]); lg {
		std.Longest()
		cx.Longest()
	}
	want := o.Fn(std, h)
	got := guard(20*time.Second, func() string { return o.Fn(cx, h) })
	return want != got
}

func init() {
	// findings whose witness is a relation between views or a configuration pair are re-evaluated by the run of the check
	// itself (their signature matches or not); stand-alone they are reported as listed.
	exampleReplayers["relation"] = func(f Finding) bool { return true }
	exampleReplayers["config"] = func(f Finding) bool { return true }
}
