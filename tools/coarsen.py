#!/usr/bin/env python3
"""For the end-to-end properties: strategies whose dispatch paths are wrong in many independent ways get ONE strategy-level finding
(signature {strategy}); the comparatively clean strategies keep (strategy, primary feature) findings."""
import json, sys
prop = sys.argv[1]
BROKEN = ["UseDFA", "UseBoth", "UseReverseSuffix", "UseReverseSuffixSet", "UseReverseInner", "UseReverseAnchored",
          "UseMultilineReverseSuffix", "UseBranchDispatch", "UseAnchoredLiteral", "UseDigitPrefilter"]
k = json.load(open('/verif/known_findings.json'))
keep = []
ex = {}
for f in k['findings']:
    if f['property'] == prop and f['id'].startswith(prop + '-e2e-') and f.get('signature', {}).get('strategy') in BROKEN:
        ex.setdefault(f['signature']['strategy'], f)
        continue
    keep.append(f)
for s, f in ex.items():
    keep.append({"id": "%s-e2e-%s" % (prop, s), "property": prop, "status": "open",
                 "what": "the dispatch paths of strategy %s disagree with regexp in several independent ways (look-around, anchors, case folding, lazy quantifiers, multi-byte input; see DESIGN.md findings); e.g. %s" % (s, f['what'].split('e.g. ', 1)[-1]),
                 "signature": {"strategy": s}, "example": f['example']})
k['findings'] = keep
json.dump(k, open('/verif/known_findings.json', 'w'), indent=1, ensure_ascii=False)
print(prop, 'strategy-level:', sorted(ex))
