#!/bin/bash
# tools/seedall.sh — run every stored change (seeded/<dir>) against its property's check and the checks named in meta.json "also_checks";
# writes seeded/<dir>/check_results.txt and prints one line per change.
cd /verif
for d in $(ls seeded); do
  [ -f seeded/$d/patch.diff ] || continue
  ids=$(jq -r '[.property] + (.also_checks // []) | join(" ")' seeded/$d/meta.json)
  res=$(tools/seedrun.sh seeded/$d $ids 2>&1 | grep -v '^$' | tail -3 | cut -c1-160 | tr '\n' '|')
  echo "$d :: $res"
done
