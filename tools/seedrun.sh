#!/bin/bash
# tools/seedrun.sh <seeded-dir> [check ids…]  — apply a stored change to /repo, run the named checks (default: the
# property in meta.json), print their verdict lines, and restore /repo.  Never commits anything to /repo.
set -u
d=$(cd "$1" && pwd); shift
cd /verif
if [ -n "$(git -C /repo status --porcelain)" ]; then echo "/repo is not clean; refusing"; exit 2; fi
ids="$*"
[ -z "$ids" ] && ids=$(jq -r .property "$d/meta.json")
git -C /repo apply "$d/patch.diff" || { echo "patch does not apply"; exit 2; }
trap 'git -C /repo checkout -- . ; git -C /repo clean -fdq' EXIT
out="$d/check_results.txt"; : > "$out"
for id in $ids; do
  s=$(date +%s)
  ./check "$id" --tier "${VERIF_TIER:-quick}" > /tmp/seedrun_$$.log 2>&1; rc=$?
  e=$(( $(date +%s) - s ))
  nv=$(grep -c '^VIOLATION' /tmp/seedrun_$$.log)
  first=$(grep -A1 -m1 '^VIOLATION' /tmp/seedrun_$$.log | tail -1 | cut -c1-300)
  echo "$id exit=$rc violations=$nv wall=${e}s first: $first" | tee -a "$out"
  rm -f /tmp/seedrun_$$.log
done
