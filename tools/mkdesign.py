#!/usr/bin/env python3
"""Regenerates the appendices of DESIGN.md (between the APPENDIX markers) from the artefacts in /verif and /repo."""
import json, os, re, subprocess, glob, importlib.util
V = os.path.dirname(os.path.dirname(os.path.abspath(__file__)))
spec = importlib.util.spec_from_file_location("mk", os.path.join(V, "tools", "mkmanifest.py"))
src = open(os.path.join(V, "tools", "mkmanifest.py")).read()
ns = {"__file__": os.path.join(V, "tools", "mkmanifest.py")}
exec(src[:src.index("checks = []")], ns)   # definitions only
CLAIMED, REGISTERED = ns["CLAIMED"], ns["REGISTERED"]
props = [json.loads(l) for l in open(os.path.join(V, "properties.jsonl"))]
NCORP = sum(1 for l in open(os.path.join(V, "harness", "cmd", "vcheck", "corpus_patterns.txt")) if l.strip())
out = []
w = out.append
w("## Appendix A — what is built, per property\n")
w("Layout: `lean/Cx/{Spec,Model,Proofs,Properties}` (Lean 4, core only in Spec/Model/Driver files; `lake build` from clean ≈ 5 min), "
  "`lean/Main.lean` = `cxdrv` (compiled line-protocol driver executing the models, specs and verified checkers), `harness/cmd/vcheck` "
  "(Go, built with `-tags verif` against `/repo`'s working tree on every run), `check` (proof step + harness build + run), `known_findings.json`, "
  "`seeded/`, `tools/`.\n")
w("Every check = (1) `lake build` of the whole library, a scan for `sorry|admit|native_decide|implemented_by|unsafe|axiom|maxHeartbeats 0`, and "
  "`#print axioms` for each theorem of `Cx/Properties/Cnn.lean` (allowed: `propext`, `Classical.choice`, `Quot.sound`; `bv_decide` certificates only in C18; "
  "thorough tier also runs `leanchecker`); (2) the correspondence ties between the Lean definitions and the code; (3) the search for a failing input. A broken "
  "proof step or model tie without a concrete failing input is reported as `VIOLATION … no-failing-input-found`.\n")
w("Departures from the design text of §2-§5 (the code is what counts):\n")
w("* the Go harness is one package (`harness/cmd/vcheck`: `gen.go` generators, `features.go` pattern/haystack features, `framework.go` report/evidence/known-finding matcher/driver "
  "pool, `replay.go`, one `cNN.go` per property, `e2e.go` shared end-to-end differential, `learn.go` maintenance tool) instead of `internal/*` packages;\n"
  "* the compiled driver is `lean/Main.lean` (a chain of per-model handlers `Cx/Driver*.lean`), the axiom audit is generated per run by `check` (`.build/Audit_Cnn.lean`) instead of a fixed `Cx/Audit.lean`;\n"
  "* shrinking exists only for end-to-end disagreements (`shrink.go`: haystack chunks, then AST reductions — child for node, dropped alternative/factor, lowered repeat bound, halved literal — then haystack again, 400 evaluations per case, first 25 violations of a run); "
  "the shrunk witness is added to the message and the replay, while the known-finding signature is computed from the case as generated (strategy, primary AST/haystack feature, API family); the component ties use exhaustive short inputs and need none;\n"
  "* the regression corpus is `harness/cmd/vcheck/corpus_patterns.txt` (" + str(NCORP) + " patterns harvested from the repository's tests and docs and from the demonstrations of seeded changes; the end-to-end checks replay it in full, in order, before generating anything; it is also a generator source) plus the `example` of every ledger entry, replayed at the start of each run; each end-to-end check also has a list of probe shapes aimed at its own mechanisms, run first and on haystacks stretched across the internal budgets and windows;\n"
  "* no hook had to be added to `/repo`: every tie uses exported API (`nfa.NFA` accessors, `lazy.DFA`, `onepass`, `literal.Extractor`, `prefilter`, `simd`, `meta.Engine.Strategy()`), so `hooks.source_commits` is empty; the harness is still built with `-tags verif`;\n"
  "* TLA+/Apalache/SPIN/Z3 are not used; `bv_decide` only in `Cx/Proofs/Swar.lean`.\n")
for p in props:
    pid = p["id"]
    c = CLAIMED[pid]
    pf = os.path.join(V, "lean", "Cx", "Properties", pid + ".lean")
    ths = re.findall(r"^theorem\s+(\S+)", open(pf).read(), flags=re.M) if os.path.exists(pf) else []
    pfb = os.path.join(V, "lean", "Cx", "Properties", pid + "b.lean")
    if os.path.exists(pfb):
        ths += re.findall(r"^theorem\s+(\S+)", open(pfb).read(), flags=re.M)
    w("### %s — %s\n" % (pid, p["title"]))
    w("*Registered in MANIFEST:* %s. *Technique:* %s.\n" % ("yes" if pid in REGISTERED else "no (see not_applicable reason in MANIFEST.json)", c["tech"]))
    w("*Theorems (`Cx/Properties/%s.lean`):* %s.\n" % (pid, ", ".join("`%s`" % t for t in ths) or "—"))
    w(c["text"] + "\n")
    w("*Limits:* " + c["note"].replace(ns.get("TB", ""), "").strip() + "\n")
w("## Appendix B — trusted base as built\n")
w(open(os.path.join(V, "docs", "trusted_base.md")).read() if os.path.exists(os.path.join(V, "docs", "trusted_base.md")) else "")
w("## Appendix C — findings and repairs\n")
kf = json.load(open(os.path.join(V, "known_findings.json")))["findings"]
w("Repairs committed to `/repo` (each a minimal `fix:` commit, suite unedited: 23461 pass / 115 skip before and after):\n")
log = subprocess.run(["git", "-C", "/repo", "log", "--format=%h %s", "--grep=^fix:"], capture_output=True, text=True).stdout.strip().split("\n")
for l in reversed(log):
    w("* `%s`" % l)
w("")
w("Ledger entries `fixed:` (a fixed entry suppresses nothing; the violation is reported again if it returns):\n")
for f in kf:
    if f["status"] == "fixed":
        w("* %s — %s" % (f["id"], f["what"]))
w("")
w("Open findings (genuine defects recorded, not repaired: the repair needs a redesign, a test pins the behaviour, or the defect lies in a dependency). "
  "Each is keyed by a signature over the failing case; a violation outside every signature is still reported:\n")
for f in kf:
    if f["status"] == "open":
        w("* **%s** (%s) — %s  \n  signature `%s`" % (f["id"], f["property"], f["what"], json.dumps(f.get("signature", {}), ensure_ascii=False)))
w("")
w("### What the proofs' forced hypotheses found\n")
w(open(os.path.join(V, "docs", "model_findings.md")).read())
w("## Appendix D — corrections to the machinery\n")
w(open(os.path.join(V, "docs", "corrections.md")).read())
w("## Appendix E — seeded changes and the checks that catch them\n")
w("Each change `Cnn_a` … `Cnn_f` was produced by a fresh sub-agent that saw only the property's text and its own scratch worktree of `/repo` (four rounds: a/b early, c/d "
  "after most repairs for all twenty properties, e/f at the end for C01, C02, C03, C10, C14, C19; a fourth round `g` for C04, C05, C07, C08, C09, C11, C12, C13, C15, C16, C17, C18, C20 — C20_g (a pooled reverse-DFA cache not returned on the success path of the reverse-inner searcher: allocations per match in Count / AppendAllIndex) is NOT yet reported by C20's quick check, an open gap described in its note; C07_g (a panic of the anchored-literal matcher when prefix and suffix literal overlap) was missed by C07 and C19 and led to the excision haystack family in both, C08_g led to new template pieces with non-ASCII digits, C16_g to the SWAR-borrow haystack family of C16; before that C16_g was reported by C18's check of the primitive only); it compiles and passes the repository's test suite. The `revert_<commit>` entries are not seeded: each is the reverse of one of the late `fix:` commits "
  "(a defect the model work or a seeding agent exposed), kept to show that the strengthened check now reports it. `tools/seedrun.sh seeded/<id> [checks]` applies a change to `/repo`, "
  "runs the property's check (and the checks named in `also_checks` of its meta.json) and restores the tree; `tools/seedall.sh` does it for all of them. Nothing here is committed to `/repo`. "
  "A change the property's own quick check missed at first led to a stronger check (notes in the last column, corrections in Appendix D); where another property's check is the one that "
  "reports it, both verdicts are shown.\n")
w("| change | files | mechanism | failing input | verdict of the property's quick check |")
w("|---|---|---|---|---|")
for d in sorted(glob.glob(os.path.join(V, "seeded", "*"))):
    mp = os.path.join(d, "meta.json")
    if not os.path.exists(mp):
        continue
    m = json.load(open(mp))
    res = ""
    rp = os.path.join(d, "check_results.txt")
    if os.path.exists(rp):
        res = "; ".join(re.sub(r" first:.*", "", l.strip()) for l in open(rp) if l.strip())
    note = ""
    np_ = os.path.join(d, "note.txt")
    if os.path.exists(np_):
        note = " — " + open(np_).read().strip()
    esc = lambda x: str(x).replace("|", "\\|").replace("\n", " ")
    w("| %s | %s | %s | %s | %s%s |" % (os.path.basename(d), esc(", ".join(m.get("files", []))), esc(m.get("mechanism", ""))[:300], esc(m.get("failing_input", ""))[:200], esc(res), esc(note)))
w("")
body = "\n".join(out)
p = os.path.join(V, "DESIGN.md")
s = open(p).read()
B, E = "<!-- APPENDIX BEGIN (generated by tools/mkdesign.py) -->", "<!-- APPENDIX END -->"
if B in s:
    s = s[:s.index(B)] + B + "\n\n" + body + "\n" + E + s[s.index(E) + len(E):]
else:
    s = s.rstrip("\n") + "\n\n" + "-" * 98 + "\n\n" + B + "\n\n" + body + "\n" + E + "\n"
open(p, "w").write(s)
print("appendices written:", len(body), "chars")
