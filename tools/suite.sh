#!/bin/bash
# Runs /repo's pinned test suite (guard off) the way /root/.vp/BASELINE.json does and prints a summary.
cd "${1:-/repo}" || exit 2
export GOFLAGS=-mod=mod GOPROXY=off
out=$(go test -mod=mod -json -vet=off -count=1 -timeout 25m ./... 2>&1)
echo "$out" | python3 -c '
import sys,json
p=f=s=0; fails=[]
for l in sys.stdin:
    try: e=json.loads(l)
    except Exception: continue
    if "Test" not in e: 
        if e.get("Action")=="fail": fails.append("PKG "+e.get("Package",""))
        continue
    a=e["Action"]
    if a=="pass": p+=1
    elif a=="fail": f+=1; fails.append(e["Package"]+"::"+e["Test"])
    elif a=="skip": s+=1
print("pass",p,"fail",f,"skip",s)
for x in fails[:40]: print("FAIL",x)
sys.exit(1 if f or fails else 0)
'
