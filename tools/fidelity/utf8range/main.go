// gocheck: differential check of the Lean model Cx.Utf8Range against the real class compiler of coregex.
//
//	export GOFLAGS=-mod=mod GOPROXY=off
//	go build -overlay overlay.json -o gocheck . && ./gocheck -n 5000 -nfa 1000      (needs ../.lake/build/bin/cxdrv)
//	go run ./confirm                                                                 (the deviations on the public API)
//
// overlay.json adds zz_verif_export.go.txt to package nfa at build time (exports compileUTF8Range); /repo is not modified.
package main

import (
	"bufio"
	"flag"
	"fmt"
	"math/rand"
	"os"
	"os/exec"
	"regexp/syntax"
	"sort"
	"strings"
	"unicode/utf8"

	"github.com/coregx/coregex/nfa"
)

type br struct{ lo, hi byte }

// paths enumerates, in DFS left-first order, the byte-range sequences along all paths from the anchored start to a match state.
func paths(n *nfa.NFA) [][]br {
	var out [][]br
	var walk func(id nfa.StateID, cur []br, depth int)
	walk = func(id nfa.StateID, cur []br, depth int) {
		if depth > 4000 {
			panic("path too deep (cycle?)")
		}
		if len(cur) > 8 {
			panic("sequence too long")
		}
		s := n.State(id)
		switch s.Kind() {
		case nfa.StateMatch:
			out = append(out, append([]br(nil), cur...))
		case nfa.StateByteRange:
			lo, hi, nx := s.ByteRange()
			walk(nx, append(cur, br{lo, hi}), depth+1)
		case nfa.StateSparse:
			for _, t := range s.Transitions() {
				walk(t.Next, append(cur[:len(cur):len(cur)], br{t.Lo, t.Hi}), depth+1)
			}
		case nfa.StateSplit:
			l, r := s.Split()
			walk(l, cur, depth+1)
			walk(r, cur, depth+1)
		case nfa.StateEpsilon:
			walk(s.Epsilon(), cur, depth+1)
		case nfa.StateCapture:
			_, _, nx := s.Capture()
			walk(nx, cur, depth+1)
		case nfa.StateFail:
		default:
			panic(fmt.Sprintf("unexpected state kind %v", s.Kind()))
		}
	}
	walk(n.StartAnchored(), nil, 0)
	return out
}

// dumpNFA serialises an NFA through its exported accessors in the format Cx.Driver.parseNfa reads (same as the vcheck harness).
func dumpNFA(n *nfa.NFA) string {
	var sb strings.Builder
	fmt.Fprintf(&sb, "%d/%d/", n.StartAnchored(), n.StartUnanchored())
	for i := 0; i < n.States(); i++ {
		if i > 0 {
			sb.WriteByte(';')
		}
		s := n.State(nfa.StateID(i))
		switch s.Kind() {
		case nfa.StateMatch:
			sb.WriteString("M")
		case nfa.StateByteRange:
			lo, hi, nx := s.ByteRange()
			fmt.Fprintf(&sb, "B.%d.%d.%d", lo, hi, nx)
		case nfa.StateSparse:
			sb.WriteString("S.")
			for j, t := range s.Transitions() {
				if j > 0 {
					sb.WriteByte('_')
				}
				fmt.Fprintf(&sb, "%d-%d-%d", t.Lo, t.Hi, t.Next)
			}
		case nfa.StateSplit:
			l, r := s.Split()
			fmt.Fprintf(&sb, "P.%d.%d", l, r)
		case nfa.StateEpsilon:
			fmt.Fprintf(&sb, "E.%d", s.Epsilon())
		case nfa.StateCapture:
			idx, st, nx := s.Capture()
			b := 0
			if st {
				b = 1
			}
			fmt.Fprintf(&sb, "C.%d.%d.%d", idx, b, nx)
		case nfa.StateFail:
			sb.WriteString("F")
		case nfa.StateLook:
			k, nx := s.Look()
			fmt.Fprintf(&sb, "L.%d.%d", int(k), nx)
		case nfa.StateRuneAny:
			fmt.Fprintf(&sb, "A.%d", s.RuneAny())
		case nfa.StateRuneAnyNotNL:
			fmt.Fprintf(&sb, "N.%d", s.RuneAnyNotNL())
		default:
			sb.WriteString("F")
		}
	}
	return sb.String()
}

func seqText(p []br) string {
	parts := make([]string, len(p))
	for i, r := range p {
		parts[i] = fmt.Sprintf("%02x-%02x", r.lo, r.hi)
	}
	return strings.Join(parts, ".")
}

func seqsText(ps [][]br) string {
	if len(ps) == 0 {
		return "-"
	}
	parts := make([]string, len(ps))
	for i, p := range ps {
		parts[i] = seqText(p)
	}
	return strings.Join(parts, "|")
}

func parseSeqs(s string) [][]br {
	if s == "-" {
		return nil
	}
	var out [][]br
	for _, q := range strings.Split(s, "|") {
		var p []br
		for _, r := range strings.Split(q, ".") {
			var lo, hi int
			if _, err := fmt.Sscanf(r, "%02x-%02x", &lo, &hi); err != nil {
				panic("bad seq text " + s)
			}
			p = append(p, br{byte(lo), byte(hi)})
		}
		out = append(out, p)
	}
	return out
}

// canon: canonical text of the LANGUAGE of a set of sequences (minimal-DFA shaped: elementary byte intervals with their
// residual languages, adjacent intervals with equal residuals merged). Equal languages <=> equal text.
func canon(ps [][]br) string {
	accEmpty := false
	cuts := map[int]bool{}
	var live [][]br
	for _, p := range ps {
		if len(p) == 0 {
			accEmpty = true
			continue
		}
		if p[0].lo > p[0].hi {
			continue
		}
		live = append(live, p)
		cuts[int(p[0].lo)] = true
		cuts[int(p[0].hi)+1] = true
	}
	var cs []int
	for c := range cuts {
		cs = append(cs, c)
	}
	sort.Ints(cs)
	type piece struct {
		lo, hi int
		res    string
	}
	var pieces []piece
	for i := 0; i+1 < len(cs); i++ {
		a, b := cs[i], cs[i+1]-1
		var tails [][]br
		for _, p := range live {
			if int(p[0].lo) <= a && b <= int(p[0].hi) {
				tails = append(tails, p[1:])
			}
		}
		if len(tails) == 0 {
			continue
		}
		res := canon(tails)
		if res == "0" {
			continue
		}
		if k := len(pieces); k > 0 && pieces[k-1].hi+1 == a && pieces[k-1].res == res {
			pieces[k-1].hi = b
		} else {
			pieces = append(pieces, piece{a, b, res})
		}
	}
	if len(pieces) == 0 {
		if accEmpty {
			return "e"
		}
		return "0"
	}
	var sb strings.Builder
	if accEmpty {
		sb.WriteString("e+")
	}
	sb.WriteString("(")
	for i, p := range pieces {
		if i > 0 {
			sb.WriteString(",")
		}
		fmt.Fprintf(&sb, "%02x-%02x:%s", p.lo, p.hi, p.res)
	}
	sb.WriteString(")")
	return sb.String()
}

func matches(ps [][]br, bs []byte) bool {
	for _, p := range ps {
		if len(p) != len(bs) {
			continue
		}
		ok := true
		for i := range p {
			if bs[i] < p[i].lo || bs[i] > p[i].hi {
				ok = false
				break
			}
		}
		if ok {
			return true
		}
	}
	return false
}

// runLean sends all requests to cxdrv and returns the answers.
func runLean(drv string, reqs []string) []string {
	cmd := exec.Command(drv)
	cmd.Stdin = strings.NewReader(strings.Join(reqs, "\n") + "\n")
	outp, err := cmd.Output()
	if err != nil {
		panic(err)
	}
	sc := bufio.NewScanner(strings.NewReader(string(outp)))
	sc.Buffer(make([]byte, 1<<20), 1<<28)
	var ans []string
	for sc.Scan() {
		ans = append(ans, sc.Text())
	}
	if len(ans) != len(reqs) {
		panic(fmt.Sprintf("cxdrv answered %d of %d requests", len(ans), len(reqs)))
	}
	return ans
}

func rangesArg(rs []rune) string {
	p := make([]string, 0, len(rs)/2)
	for i := 0; i+1 < len(rs); i += 2 {
		p = append(p, fmt.Sprintf("%d-%d", rs[i], rs[i+1]))
	}
	return strings.Join(p, "_")
}

func inClass(r rune, rs []rune) bool {
	for i := 0; i+1 < len(rs); i += 2 {
		if rs[i] <= r && r <= rs[i+1] {
			return true
		}
	}
	return false
}

func isSurr(r rune) bool { return 0xD800 <= r && r <= 0xDFFF }

var boundaries = []rune{0, 0x7F, 0x80, 0x7FF, 0x800, 0xFFF, 0x1000, 0xCFFF, 0xD000, 0xD7FF, 0xE000, 0xFFFF, 0x10000, 0x3FFFF, 0x40000, 0xFFFFF, 0x100000, 0x10FFFF}

func boundaryPoints() []rune {
	seen := map[rune]bool{}
	var out []rune
	for _, b := range boundaries {
		for d := rune(-1); d <= 1; d++ {
			v := b + d
			if v < 0 || v > 0x10FFFF || seen[v] {
				continue
			}
			seen[v] = true
			out = append(out, v)
		}
	}
	// the surrogate block edges as well
	for _, v := range []rune{0xD800, 0xD801, 0xDBFF, 0xDC00, 0xDFFE, 0xDFFF} {
		if !seen[v] {
			seen[v] = true
			out = append(out, v)
		}
	}
	sort.Slice(out, func(i, j int) bool { return out[i] < out[j] })
	return out
}

func randRune(rng *rand.Rand) rune {
	switch rng.Intn(6) {
	case 0:
		return rune(rng.Intn(0x80))
	case 1:
		return rune(rng.Intn(0x800))
	case 2:
		return rune(rng.Intn(0x10000))
	case 3:
		b := boundaries[rng.Intn(len(boundaries))] + rune(rng.Intn(200)-100)
		if b < 0 {
			b = 0
		}
		if b > 0x10FFFF {
			b = 0x10FFFF
		}
		return b
	default:
		return rune(rng.Intn(0x110000))
	}
}

type job struct {
	kind   string // "range" or "class"
	desc   string
	req    string
	got    [][]br
	rs     []rune // class ranges (flat) for the spec probe
	nfaReq string // Lean-side check of the dumped automaton (hypothesis of nfa_class_exact / nfa_range_exact); "" = not sampled
}

func compileClass(cfg nfa.CompilerConfig, rs []rune) (*nfa.NFA, error) {
	re := &syntax.Regexp{Op: syntax.OpCharClass, Rune: rs}
	return nfa.NewCompiler(cfg).CompileRegexp(re)
}

func main() {
	drv := flag.String("drv", "../.lake/build/bin/cxdrv", "path to cxdrv")
	nrand := flag.Int("n", 5000, "random pairs / classes")
	nnfa := flag.Int("nfa", 1000, "how many of the random instances of each family are also checked at NFA level inside Lean")
	seed := flag.Int64("seed", 1, "seed")
	flag.Parse()
	rng := rand.New(rand.NewSource(*seed))
	var jobs []job

	// A. compileUTF8Range directly (exported through the overlay file)
	pts := boundaryPoints()
	withNFA := true
	addRange := func(lo, hi rune) {
		n, _, err := nfa.VerifCompileUTF8Range(lo, hi)
		if err != nil {
			panic(err)
		}
		j := job{kind: "range", desc: fmt.Sprintf("range %#x-%#x", lo, hi), req: fmt.Sprintf("utf8range seqs %d %d", lo, hi), got: paths(n), rs: []rune{lo, hi}}
		if withNFA {
			j.nfaReq = fmt.Sprintf("utf8range nfarange %d %d %s", lo, hi, dumpNFA(n))
		}
		jobs = append(jobs, j)
	}
	nA := 0
	for _, lo := range pts {
		for _, hi := range pts {
			if lo <= hi {
				addRange(lo, hi)
				nA++
			}
		}
	}
	for i := 0; i < *nrand; i++ {
		withNFA = i < *nnfa
		a, b := randRune(rng), randRune(rng)
		if a > b {
			a, b = b, a
		}
		addRange(a, b)
	}
	// B. compileCharClass through the public API on hand-built class nodes
	def := nfa.DefaultCompilerConfig()
	addClass := func(desc string, cfg nfa.CompilerConfig, rs []rune) {
		n, err := compileClass(cfg, rs)
		if err != nil {
			panic(fmt.Sprintf("%s: %v", desc, err))
		}
		j := job{kind: "class", desc: desc + " " + rangesArg(rs), req: "utf8range class " + rangesArg(rs), got: paths(n), rs: rs}
		if withNFA {
			j.nfaReq = "utf8range nfa " + rangesArg(rs) + " " + dumpNFA(n)
		}
		jobs = append(jobs, j)
	}
	withNFA = true
	nB := 0
	for _, lo := range pts {
		for _, hi := range pts {
			if lo <= hi {
				addClass("single", def, []rune{lo, hi})
				// padded with three copies of the ASCII range: forces compileUnicodeClassLarge → compileUTF8Range(lo, hi) for lo ≥ 0x80
				addClass("padded", def, []rune{0, 0x7F, 0, 0x7F, 0, 0x7F, lo, hi})
				nB += 2
			}
		}
	}
	nBr := 0
	for i := 0; i < *nrand; i++ {
		withNFA = i < *nnfa
		k := 1 + rng.Intn(6)
		var v []rune
		for j := 0; j < 2*k; j++ {
			v = append(v, randRune(rng))
		}
		if rng.Intn(4) == 0 { // small classes: narrow ranges
			for j := 0; j < len(v); j += 2 {
				v[j+1] = v[j] + rune(rng.Intn(40))
				if v[j+1] > 0x10FFFF {
					v[j+1] = 0x10FFFF
				}
			}
		}
		// make it a syntax-style class: sorted, disjoint, non-adjacent
		var rs [][2]rune
		for j := 0; j < len(v); j += 2 {
			a, b := v[j], v[j+1]
			if a > b {
				a, b = b, a
			}
			rs = append(rs, [2]rune{a, b})
		}
		sort.Slice(rs, func(i, j int) bool { return rs[i][0] < rs[j][0] })
		var flat []rune
		for _, r := range rs {
			if l := len(flat); l > 0 && r[0] <= flat[l-1]+1 {
				if r[1] > flat[l-1] {
					flat[l-1] = r[1]
				}
				continue
			}
			flat = append(flat, r[0], r[1])
		}
		if rng.Intn(10) == 0 { // negation-like: complement
			var neg []rune
			next := rune(0)
			for j := 0; j < len(flat); j += 2 {
				if flat[j] > next {
					neg = append(neg, next, flat[j]-1)
				}
				next = flat[j+1] + 1
			}
			if next <= 0x10FFFF {
				neg = append(neg, next, 0x10FFFF)
			}
			if len(neg) > 0 {
				flat = neg
			}
		}
		cfg := def
		switch i % 3 {
		case 1:
			cfg.UseRuneStates = true
		case 2:
			cfg.Anchored = true
		}
		addClass(fmt.Sprintf("random(cfg%d)", i%3), cfg, flat)
		nBr++
	}
	// B2. surrogates on the small path (≤ 256 runes, alternation of literals): classes straddling the block edges, classes made
	// of surrogates only (single and multi-range: no alternative left → compileNoMatch), surrogate ranges mixed with other
	// small ranges, the 256/257 threshold with surrogate members, all three compiler configs
	withNFA = true
	nB2, nB2empty := 0, 0
	addSurr := func(desc string, rs []rune) {
		for ci := 0; ci < 3; ci++ {
			cfg := def
			switch ci {
			case 1:
				cfg.UseRuneStates = true
			case 2:
				cfg.Anchored = true
			}
			addClass(fmt.Sprintf("%s(cfg%d)", desc, ci), cfg, rs)
			nB2++
			if len(jobs[len(jobs)-1].got) == 0 {
				nB2empty++
			}
		}
	}
	for _, w := range []rune{0, 1, 2, 15, 63, 64, 127, 254, 255, 256} {
		for _, base := range []rune{0xD800, 0xD801, 0xDB00, 0xDBFF, 0xDC00, 0xDF00} {
			if base+w <= 0xDFFF {
				addSurr("allsurr", []rune{base, base + w})
			}
		}
		if w <= 254 {
			addSurr("straddle-lo", []rune{0xD7FF - w/2, 0xD7FF - w/2 + w})
			addSurr("straddle-hi", []rune{0xDFFF - w/2, 0xDFFF - w/2 + w})
		}
		addSurr("end-at-d7ff", []rune{0xD7FF - w, 0xD7FF})
		addSurr("start-at-e000", []rune{0xE000, 0xE000 + w})
		addSurr("end-at-d800", []rune{0xD800 - w, 0xD800})
		addSurr("start-at-dfff", []rune{0xDFFF, 0xDFFF + w})
	}
	addSurr("allsurr-multi", []rune{0xD800, 0xD80F, 0xDC00, 0xDC10})
	addSurr("allsurr-multi", []rune{0xD800, 0xD800, 0xD802, 0xD802, 0xDFFF, 0xDFFF})
	addSurr("allsurr-multi-256", []rune{0xD800, 0xD87F, 0xDC00, 0xDC7F})
	addSurr("allsurr-multi-257", []rune{0xD800, 0xD87F, 0xDC00, 0xDC80})
	addSurr("mixed", []rune{'a', 'c', 0xD800, 0xD803, 0x10000, 0x10002})
	addSurr("mixed", []rune{0xE9, 0xE9, 0xD7F0, 0xD810, 0xDFF0, 0xE010})
	addSurr("mixed", []rune{0x41, 0x41, 0xDBFF, 0xDC00})
	addSurr("mixed-one-left", []rune{0xD7FF, 0xD7FF, 0xD900, 0xD9FE})
	addSurr("mixed-one-left", []rune{0xD800, 0xD8FE, 0xE000, 0xE000})
	addSurr("mixed-257", []rune{0xD7FF, 0xD7FF, 0xD900, 0xD9FF})
	for i := 0; i < 300; i++ {
		k := 1 + rng.Intn(4)
		var flat []rune
		next := rune(0xD700 + rng.Intn(0x100))
		for j := 0; j < k && next <= 0xE100; j++ {
			a := next + rune(rng.Intn(0x300))
			b := a + rune(rng.Intn(70))
			flat = append(flat, a, b)
			next = b + 2
		}
		addSurr("random-near-surr", flat)
	}

	// C. pattern strings through syntax.Parse + Compile
	pats := []string{`\d`, `\D`, `\w`, `\W`, `\s`, `\S`, `[a-z]`, `[^a]`, `[^a-z0-9]`, `[[:alpha:]]`, `[[:^alpha:]]`, `[\x00-\x7f]`, `[^\x00-\x7f]`,
		`\pL`, `\PL`, `\pN`, `\p{Greek}`, `\P{Greek}`, `\p{Han}`, `\P{Han}`, `\pZ`, `\p{Lu}`, `\p{Cyrillic}`, `[é-ü]`, `[а-я]`, `[^а-я]`, `[a-zé]`, `[αβγ]`, `[世界]`,
		`(?i:[k])`, `(?i:[a-z])`, `(?i:\pL)`, `(?i:[я-яσ])`, `[^\n]`, `[\x{fffd}]`, `[^\x{fffd}]`, `[\x{d800}-\x{dfff}]`, `[\x{d7ff}-\x{d800}]`, `[\x{dfff}-\x{e000}]`, `[\x{d000}-\x{efff}]`, `[\x{d800}-\x{d8ff}]`, `[\x{d800}-\x{d900}]`, `[\x{d800}\x{dc00}]`, `\x{d800}`, `\x{dfff}`, `[a\x{d800}]`, `[\x{d800}-\x{d80f}\x{dc00}-\x{dc0f}]`,
		`\p{Emoji}`, `\p{Latin}`, `\p{Arabic}`, `\pS`, `\pP`, `\pM`, `\PM`, `\p{Cc}`, `\p{Co}`, `\P{Co}`, `\p{Cs}`, `\P{Cs}`}
	for _, lo := range pts {
		for _, hi := range pts {
			if lo <= hi {
				pats = append(pats, fmt.Sprintf(`[\x{%x}-\x{%x}]`, lo, hi))
			}
		}
	}
	nC := 0
	for _, p := range pats {
		re, err := syntax.Parse(p, syntax.Perl)
		if err != nil {
			continue
		}
		var rs []rune
		switch re.Op {
		case syntax.OpCharClass:
			rs = re.Rune
		case syntax.OpLiteral:
			if len(re.Rune) != 1 || re.Flags&syntax.FoldCase != 0 {
				continue
			}
			rs = []rune{re.Rune[0], re.Rune[0]}
		default:
			continue
		}
		n, err := nfa.NewDefaultCompiler().Compile(p)
		if err != nil {
			panic(fmt.Sprintf("%s: %v", p, err))
		}
		jobs = append(jobs, job{kind: "class", desc: "pattern " + p, req: "utf8range class " + rangesArg(rs), got: paths(n), rs: rs,
			nfaReq: "utf8range nfa " + rangesArg(rs) + " " + dumpNFA(n)})
		nC++
	}

	reqs := make([]string, len(jobs))
	for i, j := range jobs {
		reqs[i] = j.req
	}
	ans := runLean(*drv, reqs)
	var nfaReqs []string
	var nfaIdx []int
	for i, j := range jobs {
		if j.nfaReq != "" {
			nfaReqs = append(nfaReqs, j.nfaReq)
			nfaIdx = append(nfaIdx, i)
		}
	}
	nfaAns := runLean(*drv, nfaReqs)
	nfaBad := 0
	for k, a := range nfaAns {
		if a != "ok" {
			nfaBad++
			if nfaBad <= 10 {
				fmt.Printf("NFA-LEVEL DIFF %s: %.200s\n", jobs[nfaIdx[k]].desc, a)
			}
		}
	}
	structDiff, langDiff, specDiff, pikeDiff := 0, 0, 0, 0
	nseq, maxseq := 0, 0
	specProbes, pikeProbes := 0, 0
	shown := 0
	for i, j := range jobs {
		got := seqsText(j.got)
		nseq += len(j.got)
		if len(j.got) > maxseq {
			maxseq = len(j.got)
		}
		if got != ans[i] {
			structDiff++
			if canon(j.got) != canon(parseSeqs(ans[i])) {
				langDiff++
				if shown < 10 {
					shown++
					fmt.Printf("LANG DIFF %s\n  go:   %.300s\n  lean: %.300s\n", j.desc, got, ans[i])
				}
			} else if shown < 10 {
				shown++
				fmt.Printf("STRUCT DIFF (same language) %s\n  go:   %.300s\n  lean: %.300s\n", j.desc, got, ans[i])
			}
		}
	}
	// D. the real automaton against the SPEC (independent of Lean): probe runes around every range end + random runes, and
	// ill-formed strings.  Oracle = right-hand side of classSeqs_exact / compileUTF8Range_exact: encodings of the scalar
	// members, plus (class, large path, non-ASCII part = 0x80-0x10FFFF) any single byte 0x80-0xFF — nothing else (since
	// b9d1f3d the small path skips surrogate members).  Mismatches against the PLAIN spec (no extras) are counted separately.
	plainDiff, plainSurr, plainInvalid := 0, 0, 0
	illformed := [][]byte{{0xED, 0xA0, 0x80}, {0xED, 0xBF, 0xBF}, {0xED, 0xA3, 0x91}, {0xC0, 0x80}, {0xE0, 0x80, 0x80}, {0xF0, 0x80, 0x80, 0x80}, {0xF4, 0x90, 0x80, 0x80},
		{0xC1, 0xBF}, {0xE0, 0x9F, 0xBF}, {0xF0, 0x8F, 0xBF, 0xBF}, {0x80}, {0xBF}, {0xC2}, {0xFF}, {0xF5, 0x80, 0x80, 0x80}, {0xC2, 0x80, 0x80}, {0xE1, 0x80}, {}}
	for _, j := range jobs {
		var probes []rune
		for _, e := range j.rs {
			probes = append(probes, e-1, e, e+1)
		}
		probes = append(probes, 0x7F, 0x80, 0x7FF, 0x800, 0xD7FF, 0xE000, 0xFFFD, 0xFFFF, 0x10000, 0x10FFFF, randRune(rng), randRune(rng))
		covers := j.kind == "class" && largeCovers(j.rs)
		for _, r := range probes {
			if r < 0 || r > 0x10FFFF || isSurr(r) {
				continue
			}
			bs := []byte(string(r))
			want := inClass(r, j.rs)
			specProbes++
			if matches(j.got, bs) != want {
				specDiff++
				plainDiff++
				if shown < 20 {
					shown++
					fmt.Printf("SPEC DIFF %s rune %#x bytes % x: automaton %v, class membership %v\n", j.desc, r, bs, !want, want)
				}
			}
		}
		raws := illformed
		for _, e := range j.rs { // the raw 3-byte form of every surrogate range end (and its neighbours)
			for d := rune(-1); d <= 1; d++ {
				if sr := e + d; isSurr(sr) {
					raws = append(raws[:len(raws):len(raws)], []byte{0xED, byte(0x80 | (sr>>6)&0x3F), byte(0x80 | sr&0x3F)})
				}
			}
		}
		for _, raw := range raws {
			specProbes++
			got := matches(j.got, raw)
			want := false
			if covers && len(raw) == 1 && raw[0] >= 0x80 {
				want = true
			}
			if got {
				plainDiff++
				if len(raw) == 3 {
					plainSurr++
				} else {
					plainInvalid++
				}
			}
			if got != want {
				specDiff++
				if shown < 20 {
					shown++
					fmt.Printf("SPEC DIFF %s: ill-formed bytes % x: automaton %v, theorem %v\n", j.desc, raw, got, want)
				}
			}
		}
	}
	fmt.Printf("A compileUTF8Range direct: %d boundary pairs + %d random pairs\n", nA, *nrand)
	fmt.Printf("B compileCharClass on class nodes: %d boundary (single + padded) + %d random multi-range classes (3 compiler configs)\n", nB, nBr)
	fmt.Printf("B2 surrogates on the small path / around the block edges: %d class instances (3 compiler configs), %d of them compile to no sequence (Fail start)\n", nB2, nB2empty)
	fmt.Printf("C patterns through syntax.Parse + Compile: %d\n", nC)
	fmt.Printf("total instances %d, total sequences compared %d (largest automaton %d sequences)\n", len(jobs), nseq, maxseq)
	fmt.Printf("ordered structural mismatches model vs code: %d (of which language mismatches: %d)\n", structDiff, langDiff)
	fmt.Printf("Lean-side NFA-level checks (pathsOf N = model, hypothesis of nfa_class_exact / nfa_range_exact): %d, not ok: %d\n", len(nfaAns), nfaBad)
	fmt.Printf("probes on the real automata: %d; mismatches against the theorem's right-hand side: %d\n", specProbes, specDiff)
	fmt.Printf("  accepted strings that are NOT encodings of class members (plain spec): %d = %d raw surrogate forms (expected 0 since b9d1f3d) + %d lone bytes 0x80-0xFF in any-non-ASCII classes (deliberate)\n", plainDiff, plainSurr, plainInvalid)
	_ = pikeDiff
	_ = pikeProbes
	_ = utf8.RuneLen
	if structDiff+langDiff+specDiff+nfaBad > 0 {
		os.Exit(1)
	}
}

// largeCovers: compileUnicodeClassLarge with coversAllNonASCII
func largeCovers(rs []rune) bool {
	if smallPath(rs) {
		return false
	}
	all := true
	for _, r := range rs {
		if r > 127 {
			all = false
		}
	}
	if all {
		return false
	}
	var non [][2]rune
	for i := 0; i+1 < len(rs); i += 2 {
		lo, hi := rs[i], rs[i+1]
		switch {
		case hi < 0x80:
		case lo >= 0x80:
			non = append(non, [2]rune{lo, hi})
		default:
			non = append(non, [2]rune{0x80, hi})
		}
	}
	return len(non) == 1 && non[0][0] <= 0x80 && non[0][1] >= 0x10FFFF
}

func smallPath(rs []rune) bool {
	all := true
	for _, r := range rs {
		if r > 127 {
			all = false
		}
	}
	if all {
		return false
	}
	t := int64(0)
	for i := 0; i+1 < len(rs); i += 2 {
		t += int64(rs[i+1]-rs[i]) + 1
		if t > 256 {
			return false
		}
	}
	return true
}
