// confirm: the small-class surrogate defect on the real engines (public API), next to regexp.
package main

import (
	"fmt"
	"regexp"

	"github.com/coregx/coregex"
	"github.com/coregx/coregex/nfa"
)

func main() {
	cases := []struct{ pat, in string }{
		{`[\x{d7ff}-\x{d800}]`, "\xed\xa0\x80"},
		{`^[\x{d7ff}-\x{d800}]$`, "\xed\xa0\x80"},
		{`[\x{d800}-\x{d8ff}]`, "\xed\xa3\xbf"},
		{`\x{d800}`, "\xed\xa0\x80"},
		{`[\x{dfff}-\x{e000}]`, "\xed\xbf\xbf"},
		{`[\x{d000}-\x{efff}]`, "\xed\xa0\x80"}, // large path: surrogates skipped
		{`[\x{d7ff}-\x{d800}]`, "\xed\x9f\xbf"}, // U+D7FF itself: fine
		{`[^a]`, "\xff"},                        // coversAllNonASCII: lone invalid byte accepted (as regexp does)
		{`^[\x{80}-\x{10ffff}]$`, "\xff"},
		{`^[\x{81}-\x{10ffff}]$`, "\xff"},
	}
	for _, c := range cases {
		std := regexp.MustCompile(c.pat).MatchString(c.in)
		cx := coregex.MustCompile(c.pat).MatchString(c.in)
		n, err := nfa.NewDefaultCompiler().Compile(c.pat)
		if err != nil {
			panic(err)
		}
		s, e, ok := nfa.NewPikeVM(n).Search([]byte(c.in))
		fmt.Printf("%-26s on % x : regexp=%-5v coregex=%-5v pikevm=(%d,%d,%v)\n", c.pat, c.in, std, cx, s, e, ok)
	}
}
