// side finding: classCount is a byte; 8 Latin-1 parts with 255 distinct signatures wrap numClasses to 0
package main

import (
	"fmt"
	"regexp/syntax"
	"strings"

	"github.com/coregx/coregex/nfa"
)

func main() {
	var sb strings.Builder
	for i := 0; i < 8; i++ {
		sb.WriteString("[")
		for b := 1; b < 256; b++ {
			if b&(1<<i) != 0 {
				fmt.Fprintf(&sb, `\x{%02x}`, b)
			}
		}
		sb.WriteString("]+")
	}
	re, err := syntax.Parse(sb.String(), syntax.Perl)
	if err != nil {
		panic(err)
	}
	fmt.Println("IsCompositeSequenceDFAPattern:", nfa.IsCompositeSequenceDFAPattern(re), "IsCompositeCharClassPattern:", nfa.IsCompositeCharClassPattern(re))
	d := nfa.NewCompositeSequenceDFA(re)
	fmt.Println("constructed:", d != nil)
	defer func() { fmt.Println("recovered:", recover()) }()
	fmt.Println(d.SearchAt([]byte{0xff, 0xff, 0xff, 0xff, 0xff, 0xff, 0xff, 0xff}, 0))
}
