// confirms the two witnesses of Cx.Proofs.CompositeDfaCex on the real code
package main

import (
	"fmt"
	"regexp"
	"regexp/syntax"

	"github.com/coregx/coregex/nfa"
)

func main() {
	for _, c := range []struct {
		p string
		h []byte
	}{{`[ab]+[cd]+?`, []byte("acc")}, {`[a\x{e9}]+[cd]+`, []byte{0xe9, 'c'}}} {
		re, _ := syntax.Parse(c.p, syntax.Perl)
		d := nfa.NewCompositeSequenceDFA(re)
		s, e, ok := d.SearchAt(c.h, 0)
		fmt.Printf("%q on %q: IsCompositeSequenceDFAPattern=%v IsCompositeCharClassPattern=%v DFA=(%d,%d,%v) IsMatch=%v regexp=%v\n", c.p, c.h,
			nfa.IsCompositeSequenceDFAPattern(re), nfa.IsCompositeCharClassPattern(re), s, e, ok, d.IsMatch(c.h), regexp.MustCompile(c.p).FindIndex(c.h))
	}
}
