// CompositeSequenceDFA (nfa/composite_dfa.go): model tie and behaviour of the real code.  `go run . cdfa`
//
//   - model tie: nfa.IsCompositeSequenceDFAPattern / (nfa.NewCompositeSequenceDFA != nil) against the Lean model
//     (`re-cdfa pred` / `re-cdfa new`); for every pattern the real constructor accepts, IsMatch and SearchAt at every
//     offset on ALL haystacks over a 4-5 byte alphabet up to length 7 / 6 against `re-cdfa sweep` (token by token);
//     for patterns whose minimums do not fit into such short haystacks additionally a few long haystacks
//     (`re-cdfa search` / `re-cdfa ismatch`);
//   - behaviour of the real code against stdlib regexp on the same inputs, split in (a) patterns for which
//     nfa.IsCompositeCharClassPattern holds too (what meta requires before it builds the DFA; expected 0 mismatches)
//     and (b) patterns only IsCompositeSequenceDFAPattern accepts (non-greedy, Latin-1 classes, ...);
//   - every call into the real code is guarded by recover(): a panic is a finding, not a crash.
package main

import (
	"fmt"
	"os"
	"regexp"
	"regexp/syntax"
	"runtime"
	"sort"
	"strconv"
	"strings"
	"sync"
	"time"

	"github.com/coregx/coregex/nfa"
)

type cdfaPat struct {
	p, alpha string
	hand     bool // hand-written list (keeps the full depth)
	re       *syntax.Regexp
	std      *regexp.Regexp
	w        string
	L        int

	goPred, goNew, ccp bool
	d                  *nfa.CompositeSequenceDFA
	sumMin             int

	expected string // the sweep line as the real code answers it
	panics   []string
	nHays    int
	nSearch  int
	nIsMatch int
	nFound   int // SearchAt calls that found a match
	nLongHit int // ... on the extra long haystacks

	reBadSearch, reBadIsMatch int
	reFirst                   string

	long []cdfaLong // long haystacks (large minimums)
}

type cdfaLong struct {
	h       []byte
	at      int
	search  string
	isMatch string
}

// ---- patterns ------------------------------------------------------------------------------------------------------

func cdfaPatterns() (out []*cdfaPat, parseErrs []string) {
	seen := map[string]bool{}
	add := func(p, alpha string, hand bool) {
		if seen[p] {
			return
		}
		seen[p] = true
		re, err := syntax.Parse(p, syntax.Perl)
		if err != nil {
			parseErrs = append(parseErrs, fmt.Sprintf("%q: %v", p, err))
			return
		}
		std, err := regexp.Compile(p)
		if err != nil {
			parseErrs = append(parseErrs, fmt.Sprintf("%q (regexp.Compile): %v", p, err))
			return
		}
		L := 7
		if len(alpha) >= 5 {
			L = 6
		}
		if len(alpha) < 4 || len(alpha) > 5 {
			panic("alphabet of " + p + " must have 4 or 5 bytes")
		}
		out = append(out, &cdfaPat{p: p, alpha: alpha, hand: hand, re: re, std: std, w: ast(re), L: L})
	}
	hand := func(alpha string, ps ...string) {
		for _, p := range ps {
			add(p, alpha, true)
		}
	}

	// ---- hand-written
	hand("ab1 ", `[a-z]+[0-9]+`, `[a-z]{2,}[0-9]+`, `[a-z]+[0-9]{2,}`, `[a-z]{3,}[0-9]{2,}`, `[a-z]{1,}[0-9]{1,}`, `[0-9]+[a-z]+`,
		`[a-z]+[0-9]+[a-z]+`, `[a-z]+[0-9]+[a-z]+[0-9]+`, `[a-z]{2,}[0-9]{2,}[a-z]{2,}`, `[a-z0-9]+[0-9]+`, `[a-z]+[a-z0-9]+`, `[a-z0-9]+[a-z]+[0-9]+`,
		`[a-zA-Z]+[0-9]+`, `[a-zA-Z]+\d+`, `[a-z]+[^a-z]+`, `[^0-9]+[0-9]+`)
	hand("a1. ", `[a-z]+[0-9]+[a-z]+[.,]+`, `[a-z]+[0-9]+[.,]+`, `[a-z]+[.,]+[0-9]+`, `[a-z0-9]+[.,]+[a-z]+`, `[a-z]{2,}[0-9]+[a-z]{2,}[.,]+`)
	hand("a1. ", `[a-z]+[0-9]+[a-z]+[.,]{2,}`, `[a-z.]+[0-9.]+[a-z]+[.,]+`, `[a-z]+[0-9a-z]+[a-z]+[.,]+`)
	hand("ab1c ", `[ab]+[b1]+[cd]+`, `[ab]{2,}[b1]+[cd]+`, `[ab]+[b1]{2,}[cd]{2,}`, `[ab]+[b1c]+[cd]+`)
	hand("a1_ .", `\w+\d+\w+`, `\w+[0-9]+`, `\d+\s+\w+`, `\w+\s+\d+`, `\w+\d+`, `\d+\w+`, `\w{2,}\d+\w+`, `\w+\d{2,}\w+`, `\w+\d+\w{2,}`, `\w{2,}\d{2,}\w{2,}`,
		`\w+\d+\w+\d+`, `\w+\s+\w+`, `\S+\s+\S+`, `\w+\W+\w+`, `\D+\d+`, `\w+\d+\s+\w+\d+`, `\w+\w+`, `\w+\d+\d+`, `\w{3,}\d{3,}`)
	hand("abc1", `[ab]+[bc]+`, `[ab]{2,}[bc]+`, `[ab]+[bc]{2,}`, `[ab]+[ab]+`, `[ab]{2,}[ab]{3,}`, `[ab]{3,}[ab]{2,}`, `[ab]+[bc]+[ca]+`, `[ab]{2,}[bc]{2,}[ca]{2,}`,
		`[abc]+[bc]+[c]+`, `[abc]+[bc]+[c1]+`, `[abc]+[bc]+[bc]+`, `[ab]+[bc]+[ab]+[bc]+`, `[ab]+[ab]+[ab]+`, `[ab]{2,}[ab]{2,}[ab]{2,}`, `[bc]+[ab]+`, `[abc]+[ab]+[a1]+`,
		`[ab]+[bc]+[ca]+[ab]+[bc]+`, `[ab]{3,}[bc]+[ab]{2,}`, `[a-c]+[b-c]+[c-c1]+`)
	// 2 to 8 parts, and 9 (too many)
	hand("ab1 ", `[a-z]+[0-9]+[a-z]+[0-9]+[a-z]+`, `[a-z]+[0-9]+[a-z]+[0-9]+[a-z]+[0-9]+`, `[a-z]+[0-9]+[a-z]+[0-9]+[a-z]+[0-9]+[a-z]+`,
		`[a-z]+[0-9]+[a-z]+[0-9]+[a-z]+[0-9]+[a-z]+[0-9]+`, `[a-z]+[0-9]+[a-z]+[0-9]+[a-z]+[0-9]+[a-z]+[0-9]+[a-z]+`)
	hand("abc1", `[ab]+[bc]+[ca]+[ab]+[bc]+[ca]+`, `[ab]+[bc]+[ca]+[ab]+[bc]+[ca]+[ab]+`, `[ab]+[bc]+[ca]+[ab]+[bc]+[ca]+[ab]+[bc]+`,
		`[ab]+[bc]+[ca]+[ab]+[bc]+[ca]+[ab]+[bc]+[ca]+`, `[ab]+[ab]+[ab]+[ab]+[ab]+[ab]+[ab]+[ab]+`, `[ab]+[ab]+[ab]+[ab]+[ab]+[ab]+[ab]+[ab]+[ab]+`)
	// parts the DFA cannot do (the predicate must reject): bounded, bare, ?, *
	hand("ab1 ", `[a-z]{2,3}[0-9]+`, `[a-z]+[0-9]{2,3}`, `[a-z]{2}[0-9]+`, `[a-z]+[0-9]{2}`, `[a-z][0-9]+`, `[a-z]+[0-9]`, `[a-z][0-9]`, `[a-z]?[0-9]+`, `[a-z]+[0-9]?`,
		`[a-z]*[0-9]+`, `[a-z]+[0-9]*`, `[a-z]{0,}[0-9]+`, `[a-z]+[0-9]{0,}`, `[a-z]{0}[0-9]+`, `[a-z]+[0-9]{0}`, `[a-z]{1,1}[0-9]+`, `[a-z]{1}[0-9]+`, `[a-z]+[0-9]+[a-z]`,
		`[a-z]+[0-9]?[a-z]+`, `[a-z]+[0-9]*[a-z]+`, `[a-z]+[0-9]{1,2}[a-z]+`, `[a-z]+[0-9]{2}[a-z]+`, `[a-z]+[0-9][a-z]+`, `[a-z]{1,1000}[0-9]+`)
	// non-greedy
	hand("ab1 ", `[a-z]+?[0-9]+`, `[a-z]+[0-9]+?`, `[a-z]+?[0-9]+?`, `(?U)[a-z]+[0-9]+`, `(?U)[a-z]+?[0-9]+`, `(?U)[a-z]+[0-9]+?`, `[a-z]{2,}?[0-9]+`, `[a-z]+[0-9]{2,}?`,
		`(?U)[a-z]{2,}[0-9]{2,}`, `[a-z]+?[0-9]+?[a-z]+?`)
	hand("abc1", `[ab]+?[bc]+`, `[ab]+[bc]+?`, `(?U)[ab]+[bc]+`, `[ab]+?[bc]+?[ca]+?`, `(?U)[ab]{2,}[bc]+[ca]+`)
	hand("a1_ .", `\w+?\d+`, `\w+\d+?`, `(?U)\w+\d+\w+`, `\w+?\d+?\w+?`)
	// case folding
	hand("aA1k", `(?i)[a-c]+[0-9]+`, `(?i)[a-c]{2,}[0-9]+`, `(?i)[k]+[0-9]+`, `(?i)[j-l]+[0-9]+`, `(?i)[a-c]+[a-c]+`, `[a-c]+(?i:[a-c]+)`)
	hand("sS1\xc5\xbf", `(?i)[r-t]+[0-9]+`)
	// Latin-1 / non-ASCII classes
	hand("a1\xc3\xa9\xe9", `[a-z\x{e9}]+[0-9]+`, `[a-z]+[0-9\x{e9}]+`, `[a-z\x{e9}]{2,}[0-9]+`, `[\x{e9}\x{c3}]+[0-9]+`, `[a-z\x{c3}]+[\x{a9}0-9]+`, `[a-z\x{e9}]+[0-9\x{e9}]+`,
		`[a-z\x{a9}]+[0-9\x{a9}]+[a-z]+`, `[a-z]+[\x{80}-\x{ff}]+`, `[\x{80}-\x{ff}]+[0-9]+`)
	hand("a1\n\xc3\xa9", `[^a]+[0-9]+`, `[^a]+[^1]+`, `[a-z]+[^a-z]+[0-9]+`, `(?s)[^a]+[0-9]+`, `[^\n]+[0-9]+`, `[\x00-\x7f]+[0-9]+`, `[\x00-\x{ff}]+[0-9]+`, `[^a1]+[0-9]+`, `[^0-9]+[^a-z]+`)
	hand("a1\xd1\x8f", `[a-zя]+[0-9]+`, `[a-z\x{100}]+[0-9]+`, `[a-z]+[0-9\x{ff}-\x{100}]+`, `[a-z\x{ff}]+[0-9]+`)
	hand("a1\xc3\xbf\xff", `[a-z\x{ff}]+[0-9\x{c3}]+`, `[a-z\x{bf}]+[0-9\x{ff}]+`)
	// captures, literals, alternations, anchors, single parts, other shapes
	hand("a1x ", `([a-z]+)[0-9]+`, `[a-z]+([0-9]+)`, `([a-z]+[0-9]+)`, `(?:[a-z]+)[0-9]+`, `(?:[a-z]+[0-9]+)`, `[a-z]+x[0-9]+`, `x[a-z]+[0-9]+`, `[a-z]+[0-9]+x`, `[a-z]+[x]+[0-9]+`,
		`[a-z]+`, `[a-z]{2,}`, `[a-z]`, `[a-z]+|[0-9]+`, `^[a-z]+[0-9]+`, `[a-z]+[0-9]+$`, `[a-z]+\b[0-9]+`, `(?:[a-z]+[0-9]+)+`, `(?:[a-z]{2,})+[0-9]+`, `[a-z]+.+`, `[a-z]+(?s:.)+`,
		`[a-z]++[0-9]+`, `(?:[a-z]+){2,}[0-9]+`, `[a-z]+[1]+`, `[a-z]+1+`, `[a-z]+(?i:1)+`, `[a-z]+(?i:x)+`)

	// ---- {n,} with n from 1 to 70 (config limit 64: sum of the minimums)
	for n := 1; n <= 70; n++ {
		add(fmt.Sprintf(`[a-z]{%d,}[0-9]+`, n), "ab1 ", true)
	}
	for _, n := range []int{4, 5, 8, 16, 31, 32, 62, 63, 64, 65, 70} {
		add(fmt.Sprintf(`[a-z]+[0-9]{%d,}`, n), "ab1 ", true)
		add(fmt.Sprintf(`[ab]{%d,}[bc]+`, n), "abc1", true)
		add(fmt.Sprintf(`[ab]+[bc]{%d,}`, n), "abc1", true)
		add(fmt.Sprintf(`\w{%d,}\d+`, n), "a1_ .", true)
	}
	// sums of the minimums 63, 64, 65
	for _, c := range [][]string{{"[a-z]", "[0-9]", "ab1 "}, {"[ab]", "[bc]", "abc1"}, {"[ab]", "[ab]", "abc1"}, {`\w`, `\d`, "a1_ ."}} {
		x, y, al := c[0], c[1], c[2]
		for _, m := range [][]int{{31, 32}, {32, 32}, {32, 33}, {33, 32}, {1, 62}, {1, 63}, {1, 64}, {2, 62}, {10, 54}, {54, 10}, {10, 55}} {
			add(fmt.Sprintf(`%s{%d,}%s{%d,}`, x, m[0], y, m[1]), al, true)
		}
		for _, m := range [][]int{{21, 21, 21}, {21, 21, 22}, {22, 22, 21}, {22, 21, 20}, {1, 1, 61}, {1, 1, 62}, {1, 1, 63}, {61, 1, 1}, {62, 1, 1}, {63, 1, 1}, {1, 62, 1}, {1, 63, 1}} {
			add(fmt.Sprintf(`%s{%d,}%s{%d,}%s{%d,}`, x, m[0], y, m[1], x, m[2]), al, true)
		}
		// 8 parts
		for _, last := range []int{7, 8, 9} {
			var sb strings.Builder
			for i := 0; i < 8; i++ {
				cl := x
				if i%2 == 1 {
					cl = y
				}
				n := 8
				if i == 7 {
					n = last
				}
				fmt.Fprintf(&sb, `%s{%d,}`, cl, n)
			}
			add(sb.String(), al, true)
		}
	}
	// ---- candidates for "predicate true, constructor gives up" (more than 1024 states)
	hand("abc1", `[ab]{20,}[ab]{20,}[ab]{20,}`, `[ab]{30,}[bc]{30,}`, `[ab]{32,}[bc]{32,}`, `[ab]{20,}[bc]{20,}`, `[ab]{25,}[bc]{25,}`, `[ab]{20,}[bc]{20,}[ca]{20,}`, `[ab]{12,}[bc]{12,}[ca]{12,}`,
		`[ab]{8,}[bc]{8,}[ca]{8,}`, `[ab]{6,}[bc]{6,}[ca]{6,}`, `[ab]{5,}[bc]{5,}[ca]{5,}`, `[ab]{4,}[bc]{4,}[ca]{4,}`, `[ab]{10,}[bc]{10,}[ca]{10,}`,
		`[ab]{16,}[bc]{16,}[ca]{16,}[ab]{16,}`, `[ab]{10,}[bc]{10,}[ca]{10,}[ab]{10,}[bc]{10,}[ca]{10,}`, `[ab]{5,}[bc]{5,}[ca]{5,}[ab]{5,}[bc]{5,}[ca]{5,}`,
		`[ab]{3,}[bc]{3,}[ca]{3,}[ab]{3,}[bc]{3,}[ca]{3,}`, `[ab]{4,}[bc]{4,}[ca]{4,}[ab]{4,}[bc]{4,}[ca]{4,}`, `[ab]{3,}[bc]{3,}[ca]{3,}[ab]{3,}[bc]{3,}[ca]{3,}[ab]{3,}[bc]{3,}`,
		`[ab]{2,}[bc]{2,}[ca]{2,}[ab]{2,}[bc]{2,}[ca]{2,}[ab]{2,}[bc]{2,}`, `[abc]{21,}[bc]{21,}[c1]{21,}`, `[abc]{10,}[abc]{10,}[bc]{10,}[bc]{10,}`, `[abc]{16,}[ab]{16,}[bc]{16,}[ca]{16,}`,
		`[abc]{8,}[ab]{8,}[bc]{8,}[ca]{8,}`, `[abc]{6,}[ab]{6,}[bc]{6,}[ca]{6,}`, `[ab]{40,}[bc]{20,}`, `[ab]{20,}[bc]{40,}`, `[ab]{60,}[bc]{4,}`, `[ab]{4,}[bc]{60,}`, `[ab]{15,}[bc]{15,}`, `[ab]{10,}[bc]{10,}`)
	hand("a1_ .", `\w{20,}\d{20,}\w{20,}`, `\w{30,}\d{30,}`, `\w{10,}\d{10,}\w{10,}`, `\w{6,}\d{6,}\w{6,}`, `\w{8,}\d{8,}\w{8,}\d{8,}`, `\w{15,}\d{15,}\w{15,}\d{15,}`, `\w{5,}\d{5,}\w{5,}\d{5,}\w{5,}\d{5,}`,
		`\w{20,}\w{20,}\w{20,}`, `\w{32,}\s{32,}`, `\d{30,}\w{30,}`)
	hand("ab1 ", `[a-z]{40,}[0-9]{24,}`, `[a-z]{16,}[0-9]{16,}[a-z]{16,}[0-9]{16,}`, `[a-z0-9]{30,}[0-9]{30,}`, `[a-z0-9]{20,}[a-z]{20,}[0-9]{20,}`)

	// ---- generated: class families × quantifier sets × part counts
	type family struct {
		classes []string
		alpha   string
	}
	fams := []family{
		{[]string{`[a-z]`, `[0-9]`}, "ab1 "},
		{[]string{`[ab]`, `[bc]`, `[ca]`}, "abc1"},
		{[]string{`\w`, `\d`, `\s`}, "a1_ ."},
		{[]string{`[abc]`, `[bc]`, `[cd]`}, "abcd1"},
		{[]string{`[a-z]`, `[0-9]`, `[.,]`, `[a-z0-9]`}, "a1. "},
	}
	gen := func(alpha string, classes []string, quants []string) {
		var sb strings.Builder
		for i, c := range classes {
			sb.WriteString(c)
			sb.WriteString(quants[i])
		}
		add(sb.String(), alpha, false)
	}
	good := []string{`+`, `{2,}`, `{3,}`}
	for _, f := range fams {
		n := len(f.classes)
		// 2 parts: all ordered class pairs × all quantifier pairs
		for i := 0; i < n; i++ {
			for j := 0; j < n; j++ {
				for _, q1 := range good {
					for _, q2 := range good {
						gen(f.alpha, []string{f.classes[i], f.classes[j]}, []string{q1, q2})
					}
				}
			}
		}
	}
	q3 := [][]string{{`+`, `+`, `+`}, {`{2,}`, `+`, `{2,}`}, {`+`, `{2,}`, `+`}, {`{3,}`, `{2,}`, `+`}}
	for fi, f := range fams[:4] {
		n := len(f.classes)
		for i := 0; i < n; i++ {
			for j := 0; j < n; j++ {
				for k := 0; k < n; k++ {
					for qi, q := range q3 {
						if fi >= 2 && qi >= 2 {
							continue
						}
						gen(f.alpha, []string{f.classes[i], f.classes[j], f.classes[k]}, q)
					}
				}
			}
		}
	}
	// 4 to 9 parts: cyclic class sequences (forwards, backwards), all `+` and a mix
	for _, f := range fams {
		n := len(f.classes)
		for np := 4; np <= 9; np++ {
			for dir := 0; dir < 2; dir++ {
				for mix := 0; mix < 2; mix++ {
					var cs, qs []string
					for i := 0; i < np; i++ {
						k := i % n
						if dir == 1 {
							k = (n - 1) - k
						}
						cs = append(cs, f.classes[k])
						if mix == 1 {
							qs = append(qs, good[i%3])
						} else {
							qs = append(qs, `+`)
						}
					}
					gen(f.alpha, cs, qs)
				}
			}
		}
	}
	// parts the DFA cannot do, in every position of 2- and 3-part sequences
	bad := []string{``, `?`, `*`, `{2}`, `{1,3}`, `{0,}`, `{2,5}`, `+?`, `{2,}?`, `*?`, `??`}
	for _, f := range fams[:3] {
		for np := 2; np <= 3; np++ {
			for pos := 0; pos < np; pos++ {
				for _, b := range bad {
					var cs, qs []string
					for i := 0; i < np; i++ {
						cs = append(cs, f.classes[i%len(f.classes)])
						if i == pos {
							qs = append(qs, b)
						} else {
							qs = append(qs, `+`)
						}
					}
					gen(f.alpha, cs, qs)
				}
			}
		}
	}
	return
}

// ---- guarded calls into the real code ------------------------------------------------------------------------------

func cdfaGuard(what string, f func()) (pan string) {
	defer func() {
		if r := recover(); r != nil {
			pan = fmt.Sprintf("%s: panic: %v", what, r)
		}
	}()
	f()
	return ""
}

func cdfaTok(s, e int, ok bool) string {
	if !ok {
		return "n"
	}
	return fmt.Sprintf("%d,%d", s, e)
}

// cdfaLongHays: deterministic long haystacks for a pattern whose minimums do not fit in the swept haystacks: runs of
// the alphabet's bytes of lengths around the minimums.
func cdfaLongHays(pt *cdfaPat) [][]byte {
	al := []byte(pt.alpha)
	var out [][]byte
	seed := uint32(2463534242)
	for _, c := range []byte(pt.p) {
		seed = seed*31 + uint32(c)
	}
	rnd := func(n int) int {
		seed ^= seed << 13
		seed ^= seed >> 17
		seed ^= seed << 5
		return int(seed % uint32(n))
	}
	total := 2*pt.sumMin + 20
	for k := 0; k < 6; k++ {
		var h []byte
		for len(h) < total {
			b := al[rnd(len(al))]
			run := 1
			switch rnd(4) {
			case 0:
				run = 1 + rnd(3)
			case 1:
				run = pt.sumMin/2 + rnd(8)
			case 2:
				run = pt.sumMin/3 + rnd(5)
			default:
				run = 1 + rnd(pt.sumMin+4)
			}
			if k == 0 {
				run = pt.sumMin + 2 // long homogeneous runs of every byte in turn
				b = al[(len(h)/run)%len(al)]
			}
			for i := 0; i < run; i++ {
				h = append(h, b)
			}
		}
		out = append(out, h)
	}
	return out
}

// cdfaGo runs the real code on all inputs of one pattern.
func cdfaGo(pt *cdfaPat) {
	if pan := cdfaGuard("IsCompositeSequenceDFAPattern", func() { pt.goPred = nfa.IsCompositeSequenceDFAPattern(pt.re) }); pan != "" {
		pt.panics = append(pt.panics, pan)
	}
	if pan := cdfaGuard("IsCompositeCharClassPattern", func() { pt.ccp = nfa.IsCompositeCharClassPattern(pt.re) }); pan != "" {
		pt.panics = append(pt.panics, pan)
	}
	if pan := cdfaGuard("NewCompositeSequenceDFA", func() { pt.d = nfa.NewCompositeSequenceDFA(pt.re) }); pan != "" {
		pt.panics = append(pt.panics, pan)
		pt.d = nil
	}
	pt.goNew = pt.d != nil
	if pt.re.Op == syntax.OpConcat {
		for _, s := range pt.re.Sub {
			switch s.Op {
			case syntax.OpPlus:
				pt.sumMin++
			case syntax.OpRepeat:
				pt.sumMin += s.Min
			case syntax.OpCharClass:
				pt.sumMin++
			}
		}
	}
	if pt.d == nil {
		return
	}
	d := pt.d
	var sb strings.Builder
	first := true
	tok := func(t string) {
		if !first {
			sb.WriteByte(';')
		}
		first = false
		sb.WriteString(t)
	}
	reBad := func(isSearch bool, detail string) {
		if isSearch {
			pt.reBadSearch++
		} else {
			pt.reBadIsMatch++
		}
		if pt.reFirst == "" {
			pt.reFirst = detail
		}
	}
	one := func(h []byte, at int) (string, bool) {
		var s, e int
		var ok bool
		if pan := cdfaGuard(fmt.Sprintf("SearchAt(%q, %d)", h, at), func() { s, e, ok = d.SearchAt(h, at) }); pan != "" {
			if len(pt.panics) < 5 {
				pt.panics = append(pt.panics, pan)
			}
			return "", false
		}
		got := cdfaTok(s, e, ok)
		pt.nSearch++
		if ok {
			pt.nFound++
			if len(h) > pt.L {
				pt.nLongHit++
			}
		}
		loc := pt.std.FindIndex(h[at:])
		exp := "n"
		if loc != nil {
			exp = fmt.Sprintf("%d,%d", loc[0]+at, loc[1]+at)
		}
		if got != exp {
			reBad(true, fmt.Sprintf("SearchAt(%q, %d): DFA %s, regexp %s", h, at, got, exp))
		}
		return got, true
	}
	isM := func(h []byte) (string, bool) {
		var m bool
		if pan := cdfaGuard(fmt.Sprintf("IsMatch(%q)", h), func() { m = d.IsMatch(h) }); pan != "" {
			if len(pt.panics) < 5 {
				pt.panics = append(pt.panics, pan)
			}
			return "", false
		}
		pt.nIsMatch++
		if exp := pt.std.Match(h); m != exp {
			reBad(false, fmt.Sprintf("IsMatch(%q): DFA %v, regexp %v", h, m, exp))
		}
		if m {
			return "T", true
		}
		return "F", true
	}
	sweepOK := true
	for _, h := range hays(pt.alpha, pt.L) {
		pt.nHays++
		t, ok := isM(h)
		if !ok {
			sweepOK = false
		}
		tok(t)
		for at := 0; at <= len(h); at++ {
			t, ok := one(h, at)
			if !ok {
				sweepOK = false
			}
			tok(t)
		}
	}
	if sweepOK {
		pt.expected = sb.String()
	}
	if pt.sumMin > pt.L && len(pt.panics) == 0 {
		for _, h := range cdfaLongHays(pt) {
			pt.nHays++
			m, ok := isM(h)
			if !ok {
				continue
			}
			if m == "T" {
				m = "true"
			} else {
				m = "false"
			}
			for _, at := range []int{0, 1, len(h) / 3, len(h) / 2} {
				t, ok := one(h, at)
				if !ok {
					continue
				}
				if t == "n" {
					t = "nil"
				}
				pt.long = append(pt.long, cdfaLong{h: h, at: at, search: t, isMatch: m})
			}
		}
	}
}

// ---- the check -----------------------------------------------------------------------------------------------------

func cdfaCheck(reqs *[]req) func() {
	t0 := time.Now()
	ps, parseErrs := cdfaPatterns()
	if n, _ := strconv.Atoi(os.Getenv("CDFA_MAX")); n > 0 && n < len(ps) { // debugging aid: only the first n patterns
		ps = ps[:n]
	}

	// the real code, patterns in parallel (every pattern has its own DFA)
	var wg sync.WaitGroup
	ch := make(chan *cdfaPat)
	for i := 0; i < runtime.NumCPU(); i++ {
		wg.Add(1)
		go func() {
			defer wg.Done()
			for pt := range ch {
				cdfaGo(pt)
			}
		}()
	}
	for _, pt := range ps {
		ch <- pt
	}
	close(ch)
	wg.Wait()
	tGo := time.Since(t0)

	type tie struct{ n, bad int }
	ties := map[string]*tie{}
	tieAdd := func(k string, ok bool, detail string) {
		s := ties[k]
		if s == nil {
			s = &tie{}
			ties[k] = s
		}
		s.n++
		if !ok {
			s.bad++
			if s.bad <= 10 {
				fmt.Printf("MODEL MISMATCH %s: %s\n", k, detail)
			}
		}
	}
	driverBad := 0
	badAnswer := func(line, ans string) bool {
		switch {
		case ans == "" || strings.HasPrefix(ans, "bad") || ans == "none" || strings.HasPrefix(ans, "unknown") || strings.HasPrefix(ans, "error"):
			driverBad++
			if driverBad <= 10 {
				l := line
				if len(l) > 120 {
					l = l[:120] + "..."
				}
				fmt.Printf("HARNESS BUG? driver answered %q to %q\n", ans, l)
			}
			return true
		}
		return false
	}
	hook := func(line string, f func(ans string)) {
		reqHooks[len(*reqs)] = func(ans string) {
			if !badAnswer(line, ans) {
				f(ans)
			}
		}
		*reqs = append(*reqs, req{line: line, kind: "cdfa"})
	}

	const kPred, kNew, kIsM, kSearch, kLongS, kLongM = "IsCompositeSequenceDFAPattern", "NewCompositeSequenceDFA != nil", "sweep IsMatch", "sweep SearchAt", "long SearchAt", "long IsMatch"
	sweepSkipped := 0
	for _, pt := range ps {
		pt := pt
		hook("re-cdfa pred - "+pt.w, func(ans string) {
			tieAdd(kPred, ans == fmt.Sprint(pt.goPred), fmt.Sprintf("pattern %q: code %v, model %s", pt.p, pt.goPred, ans))
		})
		hook("re-cdfa new - "+pt.w, func(ans string) {
			tieAdd(kNew, ans == fmt.Sprint(pt.goNew), fmt.Sprintf("pattern %q: code %v, model %s", pt.p, pt.goNew, ans))
		})
		if pt.d == nil {
			continue
		}
		if pt.expected == "" {
			sweepSkipped++
			continue
		}
		hook(fmt.Sprintf("re-cdfa sweep %s %d %s", hx([]byte(pt.alpha)), pt.L, pt.w), func(ans string) {
			if ans == "nil-dfa" {
				tieAdd(kSearch, false, fmt.Sprintf("pattern %q: model constructor gives up, code does not (sweep not compared)", pt.p))
				return
			}
			g := strings.Split(pt.expected, ";")
			m := strings.Split(ans, ";")
			pt.expected = ""
			if len(g) != len(m) {
				driverBad++
				fmt.Printf("HARNESS BUG? sweep of %q: %d tokens from the model, %d from the code (first tokens %q)\n", pt.p, len(m), len(g), m[:min(len(m), 5)])
				return
			}
			i := 0
			for _, h := range hays(pt.alpha, pt.L) {
				tieAdd(kIsM, g[i] == m[i], fmt.Sprintf("pattern %q IsMatch(%q): code %s, model %s", pt.p, h, g[i], m[i]))
				i++
				for at := 0; at <= len(h); at++ {
					tieAdd(kSearch, g[i] == m[i], fmt.Sprintf("pattern %q SearchAt(%q = hex %s, %d): code %s, model %s", pt.p, h, hx(h), at, g[i], m[i]))
					i++
				}
			}
			if i != len(g) {
				driverBad++
				fmt.Printf("HARNESS BUG? sweep of %q: %d tokens used of %d\n", pt.p, i, len(g))
			}
		})
		lastM := ""
		for _, lg := range pt.long {
			lg := lg
			if string(lg.h) != lastM {
				lastM = string(lg.h)
				hook(fmt.Sprintf("re-cdfa ismatch %s %s", hx(lg.h), pt.w), func(ans string) {
					tieAdd(kLongM, ans == lg.isMatch, fmt.Sprintf("pattern %q IsMatch(%q): code %s, model %s", pt.p, lg.h, lg.isMatch, ans))
				})
			}
			hook(fmt.Sprintf("re-cdfa search %d %s %s", lg.at, hx(lg.h), pt.w), func(ans string) {
				tieAdd(kLongS, ans == lg.search, fmt.Sprintf("pattern %q SearchAt(%q, %d): code %s, model %s", pt.p, lg.h, lg.at, lg.search, ans))
			})
		}
	}
	fmt.Printf("cdfa: %d patterns, real code done in %v, %d driver requests\n", len(ps), tGo.Round(time.Millisecond), len(*reqs))

	return func() {
		fmt.Println("==== CompositeSequenceDFA ====")
		for _, e := range parseErrs {
			fmt.Println("  parse error (skipped):", e)
		}
		var nPred, nNew, nGaveUp, nCCP, nA, nB, nHays, nSearch, nIsMatch, nPan, nHand, nLongPats, nFound, nLongHit, nLongCalls int
		var gaveUp, largeBuilt, panicked, predOnly []string
		aS, aM, bS, bM := 0, 0, 0, 0 // regexp mismatches
		aNS, aNM, bNS, bNM := 0, 0, 0, 0
		var bList, aList []string
		for _, pt := range ps {
			if pt.hand {
				nHand++
			}
			if pt.goPred {
				nPred++
			}
			if pt.ccp {
				nCCP++
			}
			if pt.goNew {
				nNew++
			}
			if pt.goPred && !pt.goNew {
				nGaveUp++
				gaveUp = append(gaveUp, pt.p)
			}
			if !pt.goPred && pt.goNew {
				fmt.Printf("  NOTE constructor non-nil although the predicate rejects: %q\n", pt.p)
			}
			if pt.goNew && pt.sumMin >= 30 {
				largeBuilt = append(largeBuilt, pt.p)
			}
			if len(pt.long) > 0 {
				nLongPats++
			}
			if len(pt.panics) > 0 {
				nPan++
				panicked = append(panicked, fmt.Sprintf("%q: %s", pt.p, pt.panics[0]))
			}
			if !pt.goNew {
				continue
			}
			nHays += pt.nHays
			nSearch += pt.nSearch
			nIsMatch += pt.nIsMatch
			nFound += pt.nFound
			nLongHit += pt.nLongHit
			nLongCalls += len(pt.long)
			if pt.ccp {
				nA++
				aNS += pt.nSearch
				aNM += pt.nIsMatch
				aS += pt.reBadSearch
				aM += pt.reBadIsMatch
				if pt.reFirst != "" {
					aList = append(aList, fmt.Sprintf("%q (alphabet %q): %d SearchAt + %d IsMatch mismatches, first: %s", pt.p, pt.alpha, pt.reBadSearch, pt.reBadIsMatch, pt.reFirst))
				}
			} else {
				nB++
				predOnly = append(predOnly, pt.p)
				bNS += pt.nSearch
				bNM += pt.nIsMatch
				bS += pt.reBadSearch
				bM += pt.reBadIsMatch
				if pt.reFirst != "" {
					bList = append(bList, fmt.Sprintf("%q (alphabet %q): %d SearchAt + %d IsMatch mismatches, first: %s", pt.p, pt.alpha, pt.reBadSearch, pt.reBadIsMatch, pt.reFirst))
				}
			}
		}
		fmt.Printf("  patterns %d (hand-written %d, generated %d); IsCompositeSequenceDFAPattern true %d; constructed %d; gave up (predicate true, constructor nil) %d; IsCompositeCharClassPattern true %d\n",
			len(ps), nHand, len(ps)-nHand, nPred, nNew, nGaveUp, nCCP)
		fmt.Printf("  real code: haystacks %d, SearchAt calls %d, IsMatch calls %d (SearchAt found a match: %d); patterns with extra long haystacks: %d (%d SearchAt calls, %d found a match); sweeps skipped because of panics: %d\n",
			nHays, nSearch, nIsMatch, nFound, nLongPats, nLongCalls, nLongHit, sweepSkipped)
		var ks []string
		for k := range ties {
			ks = append(ks, k)
		}
		sort.Strings(ks)
		mm := 0
		for _, k := range ks {
			fmt.Printf("  model tie   %-32s comparisons %9d  mismatches %d\n", k, ties[k].n, ties[k].bad)
			mm += ties[k].bad
		}
		fmt.Printf("  model mismatches total %d; unusable driver answers (harness bugs) %d\n", mm, driverBad)
		fmt.Printf("  property (a) IsCompositeCharClassPattern too (%d patterns): DFA == regexp   SearchAt %d comparisons, %d mismatches; IsMatch %d comparisons, %d mismatches\n", nA, aNS, aS, aNM, aM)
		for _, l := range aList {
			fmt.Println("      (a)", l)
		}
		fmt.Printf("  property (b) only IsCompositeSequenceDFAPattern (%d patterns): DFA == regexp   SearchAt %d comparisons, %d mismatches; IsMatch %d comparisons, %d mismatches\n", nB, bNS, bS, bNM, bM)
		fmt.Printf("      (b) patterns: %q\n", predOnly)
		for _, l := range bList {
			fmt.Println("      (b)", l)
		}
		fmt.Printf("  panics: %d patterns\n", nPan)
		for _, l := range panicked {
			fmt.Println("      PANIC", l)
		}
		fmt.Printf("  gave up (%d): %q\n", len(gaveUp), gaveUp)
		fmt.Printf("  constructed with sum of minimums >= 30 (%d): %q\n", len(largeBuilt), largeBuilt)
		fmt.Printf("  cdfa runtime %v\n", time.Since(t0).Round(time.Second))
	}
}
