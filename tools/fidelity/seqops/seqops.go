// seqops — fidelity check of the Lean model Cx.Model.SeqOps against the real literal.Seq methods.
//
//	go run . [-drv path/to/cxdrv] [-seed n] [-random n]
//
// Enumerates ALL sequences of up to 3 literals over {a,b}^{0..3} x {complete, inexact} (lcp, lcs, minimize, dedup,
// keep n=-1..4), all pairs of sequences of up to 2 literals over {a,b}^{0..2} (cross), plus random sequences of up to
// 6 literals over {a,b,c}^{0..5}; a third family (up to 40 literals, so that sort.Slice leaves its insertion-sort
// regime) checks Minimize on byte strings only and counts how often the surviving flags differ.
package main

import (
	"bufio"
	"encoding/hex"
	"flag"
	"fmt"
	"math/rand"
	"os"
	"os/exec"
	"sort"
	"strings"

	"github.com/coregx/coregex/literal"
)

type lit struct {
	b []byte
	c bool
}

func mk(ls []lit) *literal.Seq {
	out := make([]literal.Literal, len(ls))
	for i, l := range ls {
		out[i] = literal.NewLiteral(append([]byte{}, l.b...), l.c)
	}
	return literal.NewSeq(out...)
}

func hx(b []byte) string {
	if len(b) == 0 {
		return "-"
	}
	return hex.EncodeToString(b)
}

func showLit(b []byte, c bool) string {
	if c {
		return hx(b) + ":1"
	}
	return hx(b) + ":0"
}

func showIn(ls []lit) string {
	if len(ls) == 0 {
		return "_"
	}
	p := make([]string, len(ls))
	for i, l := range ls {
		p[i] = showLit(l.b, l.c)
	}
	return strings.Join(p, ",")
}

func toks(s *literal.Seq) []string {
	p := make([]string, s.Len())
	for i := 0; i < s.Len(); i++ {
		l := s.Get(i)
		p[i] = showLit(l.Bytes, l.Complete)
	}
	return p
}

func showSeq(s *literal.Seq, sorted bool) string {
	if s.Len() == 0 {
		return "_"
	}
	p := toks(s)
	if sorted {
		sort.Strings(p)
	}
	return strings.Join(p, ",")
}

type req struct {
	line string
	want string
	kind string // "" exact compare, "bytes" compare the byte strings only (minimize, big sequences)
}

var reqs []req

func add(line, want, kind string) { reqs = append(reqs, req{line, want, kind}) }

func unary(ls []lit, keeps []int) {
	in := showIn(ls)
	add("seqops lcp 0 "+in, hx(mk(ls).LongestCommonPrefix()), "")
	add("seqops lcs 0 "+in, hx(mk(ls).LongestCommonSuffix()), "")
	s := mk(ls)
	s.Minimize()
	add("seqops minimize 0 "+in, showSeq(s, true), "")
	s = mk(ls)
	s.Dedup()
	add("seqops dedup 0 "+in, showSeq(s, false), "")
	for _, n := range keeps {
		s = mk(ls)
		s.KeepFirstBytes(n)
		add(fmt.Sprintf("seqops keep %d %s", n, in), showSeq(s, false), "")
	}
}

func cross(a, b []lit) {
	s := mk(a)
	s.CrossForward(mk(b))
	add("seqops cross 0 "+showIn(a)+"/"+showIn(b), showSeq(s, false), "")
}

func words(alpha string, maxLen int) [][]byte {
	out := [][]byte{{}}
	level := [][]byte{{}}
	for l := 1; l <= maxLen; l++ {
		var next [][]byte
		for _, w := range level {
			for i := 0; i < len(alpha); i++ {
				next = append(next, append(append([]byte{}, w...), alpha[i]))
			}
		}
		out = append(out, next...)
		level = next
	}
	return out
}

func lits(ws [][]byte) []lit {
	var out []lit
	for _, w := range ws {
		out = append(out, lit{w, true}, lit{w, false})
	}
	return out
}

func seqsUpTo(ls []lit, n int) [][]lit {
	out := [][]lit{{}}
	level := [][]lit{{}}
	for k := 1; k <= n; k++ {
		var next [][]lit
		for _, s := range level {
			for _, l := range ls {
				next = append(next, append(append([]lit{}, s...), l))
			}
		}
		out = append(out, next...)
		level = next
	}
	return out
}

func randSeq(r *rand.Rand, alpha string, maxLits, maxLen int) []lit {
	n := r.Intn(maxLits + 1)
	out := make([]lit, n)
	for i := range out {
		l := r.Intn(maxLen + 1)
		b := make([]byte, l)
		for j := range b {
			b[j] = alpha[r.Intn(len(alpha))]
		}
		out[i] = lit{b, r.Intn(2) == 0}
	}
	return out
}

func bytesOnly(s string) string {
	if s == "_" {
		return s
	}
	p := strings.Split(s, ",")
	for i := range p {
		p[i] = p[i][:strings.IndexByte(p[i], ':')]
	}
	sort.Strings(p)
	return strings.Join(p, ",")
}

func main() {
	drv := flag.String("drv", "../.lake/build/bin/cxdrv", "cxdrv binary")
	seed := flag.Int64("seed", 1, "random seed")
	nrand := flag.Int("random", 20000, "random sequences")
	nbig := flag.Int("big", 3000, "big random sequences (minimize, bytes only)")
	flag.Parse()

	// 1. exhaustive
	keeps := []int{-1, 0, 1, 2, 3, 4}
	ex := seqsUpTo(lits(words("ab", 3)), 3)
	for _, s := range ex {
		unary(s, keeps)
	}
	nEx := len(ex)
	small := seqsUpTo(lits(words("ab", 2)), 2)
	for _, a := range small {
		for _, b := range small {
			cross(a, b)
		}
	}
	nCross := len(small) * len(small)
	// 2. random
	r := rand.New(rand.NewSource(*seed))
	for i := 0; i < *nrand; i++ {
		unary(randSeq(r, "abc", 6, 5), []int{r.Intn(8) - 1})
		cross(randSeq(r, "abc", 6, 5), randSeq(r, "abc", 6, 5))
	}
	// 3. big sequences: Minimize only, byte strings only (sort.Slice not stable beyond 12 elements)
	for i := 0; i < *nbig; i++ {
		ls := randSeq(r, "ab", 40, 4)
		s := mk(ls)
		s.Minimize()
		add("seqops minimize 0 "+showIn(ls), showSeq(s, true), "bytes")
	}

	cmd := exec.Command(*drv)
	stdin, err := cmd.StdinPipe()
	if err != nil {
		panic(err)
	}
	stdout, err := cmd.StdoutPipe()
	if err != nil {
		panic(err)
	}
	cmd.Stderr = os.Stderr
	if err := cmd.Start(); err != nil {
		panic(err)
	}
	go func() {
		w := bufio.NewWriterSize(stdin, 1<<20)
		for _, q := range reqs {
			w.WriteString(q.line)
			w.WriteByte('\n')
		}
		w.Flush()
		stdin.Close()
	}()
	sc := bufio.NewScanner(stdout)
	sc.Buffer(make([]byte, 1<<20), 1<<24)
	i, mism, flagDiff, shown := 0, 0, 0, 0
	perOp := map[string]int{}
	for sc.Scan() {
		if i >= len(reqs) {
			fmt.Println("too many answers")
			os.Exit(1)
		}
		got := sc.Text()
		q := reqs[i]
		i++
		perOp[strings.Fields(q.line)[1]]++
		ok := got == q.want
		if q.kind == "bytes" {
			ok = bytesOnly(got) == bytesOnly(q.want)
			if ok && got != q.want {
				flagDiff++
				if flagDiff <= 3 {
					fmt.Printf("flag difference (unstable sort): %s\n   go  %s\n   lean %s\n", q.line, q.want, got)
				}
			}
		}
		if !ok {
			mism++
			if shown < 20 {
				shown++
				fmt.Printf("MISMATCH %s\n   go   %s\n   lean %s\n", q.line, q.want, got)
			}
		}
	}
	cmd.Wait()
	if i != len(reqs) {
		fmt.Printf("answers %d != requests %d\n", i, len(reqs))
		os.Exit(1)
	}
	fmt.Printf("exhaustive sequences: %d (x lcp,lcs,minimize,dedup,keep n=-1..4), exhaustive cross pairs: %d, random: %d, big(minimize, bytes only): %d\n",
		nEx, nCross, *nrand, *nbig)
	fmt.Printf("requests per op: %v\n", perOp)
	fmt.Printf("requests: %d  mismatches: %d  (big minimize: surviving flags differ in %d of %d)\n", len(reqs), mism, flagDiff, *nbig)
	if mism != 0 {
		os.Exit(1)
	}
}
