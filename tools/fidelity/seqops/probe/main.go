// probe — ExtractPrefixes with MaxLiterals=128 on `abcd|<72 literals pqrXy>|abcde`: the ">64 literals" trimming
// (KeepFirstBytes+Dedup, no markAllInexact) leaves "abcd" complete=true standing also for the dropped "abcde".
package main

import (
	"fmt"
	"regexp/syntax"
	"strings"

	"github.com/coregx/coregex/literal"
)

func main() {
	var alts []string
	alts = append(alts, "abcd")
	for _, a := range "ABCDEFGH" {
		for _, b := range "ijklmnopq" {
			alts = append(alts, "pqr"+string(a)+string(b))
		}
	}
	alts = append(alts, "abcde")
	pat := strings.Join(alts, "|")
	for _, maxLits := range []int{64, 128, 256} {
		re, err := syntax.Parse(pat, syntax.Perl)
		if err != nil {
			panic(err)
		}
		cfg := literal.DefaultConfig()
		cfg.MaxLiterals = maxLits
		cfg.CrossProductLimit = 1000
		seq := literal.New(cfg).ExtractPrefixes(re)
		fmt.Printf("MaxLiterals=%d: %d literals, AllComplete=%v partial=%v:", maxLits, seq.Len(), seq.AllComplete(), seq.IsPartialCoverage())
		for i := 0; i < seq.Len() && i < 12; i++ {
			fmt.Printf(" %s", seq.Get(i).String())
		}
		fmt.Println()
	}
}
