// gocheck: compile patterns of the modelled fragment with nfa.Compiler, print
//   pattern \t mode \t sexp \t dump
// (mode "a" = DefaultCompilerConfig + Anchored:true, "u" = DefaultCompilerConfig, "dN" = anchored with MaxRecursionDepth N).
// dump = "error" when compilation fails.
package main

import (
	"bufio"
	"fmt"
	"math/rand"
	"os"
	"regexp/syntax"
	"strings"
	"unicode/utf8"

	"github.com/coregx/coregex/nfa"
)

func dumpNFA(n *nfa.NFA) string {
	var sb strings.Builder
	fmt.Fprintf(&sb, "%d/%d/", n.StartAnchored(), n.StartUnanchored())
	for i := 0; i < n.States(); i++ {
		if i > 0 {
			sb.WriteByte(';')
		}
		s := n.State(nfa.StateID(i))
		switch s.Kind() {
		case nfa.StateMatch:
			sb.WriteString("M")
		case nfa.StateByteRange:
			lo, hi, nx := s.ByteRange()
			fmt.Fprintf(&sb, "B.%d.%d.%d", lo, hi, nx)
		case nfa.StateSparse:
			sb.WriteString("S.")
			for j, t := range s.Transitions() {
				if j > 0 {
					sb.WriteByte('_')
				}
				fmt.Fprintf(&sb, "%d-%d-%d", t.Lo, t.Hi, t.Next)
			}
		case nfa.StateSplit:
			l, r := s.Split()
			fmt.Fprintf(&sb, "P.%d.%d", l, r)
		case nfa.StateEpsilon:
			fmt.Fprintf(&sb, "E.%d", s.Epsilon())
		case nfa.StateCapture:
			idx, st, nx := s.Capture()
			b := 0
			if st {
				b = 1
			}
			fmt.Fprintf(&sb, "C.%d.%d.%d", idx, b, nx)
		case nfa.StateFail:
			sb.WriteString("F")
		case nfa.StateLook:
			k, nx := s.Look()
			fmt.Fprintf(&sb, "L.%d.%d", int(k), nx)
		case nfa.StateRuneAny:
			fmt.Fprintf(&sb, "A.%d", s.RuneAny())
		case nfa.StateRuneAnyNotNL:
			fmt.Fprintf(&sb, "N.%d", s.RuneAnyNotNL())
		default:
			sb.WriteString("F")
		}
	}
	return sb.String()
}

// sexp converts a parsed regexp to the model's AST syntax; ok=false when outside the modelled fragment.
func sexp(re *syntax.Regexp) (string, bool) {
	g := "1"
	if re.Flags&syntax.NonGreedy != 0 {
		g = "0"
	}
	sub := func() (string, bool) {
		if len(re.Sub) != 1 {
			return "", false
		}
		return sexp(re.Sub[0])
	}
	list := func(name string) (string, bool) {
		var sb strings.Builder
		sb.WriteString("(" + name)
		for _, s := range re.Sub {
			x, ok := sexp(s)
			if !ok {
				return "", false
			}
			sb.WriteString("," + x)
		}
		sb.WriteString(")")
		return sb.String(), true
	}
	switch re.Op {
	case syntax.OpEmptyMatch:
		return "(empty)", true
	case syntax.OpNoMatch:
		return "(nomatch)", true
	case syntax.OpLiteral:
		if re.Flags&syntax.FoldCase != 0 {
			return "", false
		}
		if len(re.Rune) == 0 {
			return "(lit,-)", true
		}
		var sb strings.Builder
		sb.WriteString("(lit,")
		buf := make([]byte, 4)
		for _, r := range re.Rune {
			if r < 0 || r > 0x10FFFF || (r >= 0xD800 && r <= 0xDFFF) {
				return "", false
			}
			n := utf8.EncodeRune(buf, r)
			for i := 0; i < n; i++ {
				fmt.Fprintf(&sb, "%02x", buf[i])
			}
		}
		sb.WriteString(")")
		return sb.String(), true
	case syntax.OpCharClass:
		if len(re.Rune) == 0 {
			return "(cls)", true
		}
		var parts []string
		for i := 0; i+1 < len(re.Rune); i += 2 {
			if re.Rune[i] > 127 || re.Rune[i+1] > 127 {
				return "", false
			}
			parts = append(parts, fmt.Sprintf("%02x-%02x", re.Rune[i], re.Rune[i+1]))
		}
		return "(cls," + strings.Join(parts, "_") + ")", true
	case syntax.OpBeginText:
		return "(look,0)", true
	case syntax.OpEndText:
		return "(look,1)", true
	case syntax.OpBeginLine:
		return "(look,2)", true
	case syntax.OpEndLine:
		return "(look,3)", true
	case syntax.OpWordBoundary:
		return "(look,4)", true
	case syntax.OpNoWordBoundary:
		return "(look,5)", true
	case syntax.OpCapture:
		x, ok := sub()
		if !ok {
			return "", false
		}
		return fmt.Sprintf("(cap,%d,%s)", re.Cap, x), true
	case syntax.OpStar, syntax.OpPlus, syntax.OpQuest:
		x, ok := sub()
		if !ok {
			return "", false
		}
		name := map[syntax.Op]string{syntax.OpStar: "star", syntax.OpPlus: "plus", syntax.OpQuest: "quest"}[re.Op]
		return fmt.Sprintf("(%s,%s,%s)", name, g, x), true
	case syntax.OpRepeat:
		x, ok := sub()
		if !ok {
			return "", false
		}
		mx := fmt.Sprint(re.Max)
		if re.Max == -1 {
			mx = "inf"
		}
		return fmt.Sprintf("(rep,%s,%d,%s,%s)", g, re.Min, mx, x), true
	case syntax.OpConcat:
		return list("cat")
	case syntax.OpAlternate:
		return list("alt")
	}
	return "", false
}

var fixed = []string{
	``, `a`, `abc`, `é`, `日本`, `\x{10FFFF}a`, `[a-z]`, `[a-c0-9_]`, `[^\x00-\x{10FFFF}]`, `[a-cx-z]+`, `\d`, `\w+`, `\s*`,
	`^`, `$`, `\A`, `\z`, `(?m)^`, `(?m)$`, `\b`, `\B`, `^abc$`, `(?m)^abc$`, `\bfoo\b`, `\Bx\B`,
	`a*`, `a*?`, `a+`, `a+?`, `a?`, `a??`, `(a)`, `(a)(b)`, `(?P<n>a)`, `(?:a)`, `()`, `(|a)`, `(a|)`, `a|b`, `a|b|c`, `a|b|c|d|e`,
	`ab|cd`, `(a|b)*`, `(a*)*`, `(a*)+`, `(a*)?`, `(a?)*`, `(a?)*?`, `(a|)*`, `(|a)*`, `(|a)+`, `(^)*`, `(\b)*`, `(^a|b)*`, `(a*b*)*`, `(a*|b)*`,
	`(?:)*`, `(?:)+`, `(?:)?`, `(?:){3}`, `(?:|a)*?`, `\A*`, `$*?`,
	`a{0}`, `a{1}`, `a{2}`, `a{3}`, `a{0,}`, `a{1,}`, `a{2,}`, `a{3,}?`, `a{0,1}`, `a{0,2}`, `a{1,2}`, `a{2,5}`, `a{2,5}?`, `a{0,3}?`,
	`(ab){2}`, `(ab){2,}`, `(ab){1,3}`, `(a|b){2,3}`, `(a*){2}`, `(a*){2,}`, `(a*){0,2}`, `(a?){2,3}?`, `[a-z]{2,4}`, `(?:a{2}){3}`, `(?:a{2,3}){2,}`,
	`(?:ab)*`, `(?:ab)+c`, `a(?:b|c)d`, `a(b|c)*d`, `(a+)(b+)`, `(a+|b+)*c`, `x*y*z*`, `x+y?z*`, `[ab]*c[de]+`, `a\b`, `^a|b$`, `(?m)^a$|^b$`,
	`((((a))))`, `((a)|(b))+`, `(a(b(c)))`, `(?:a|bc|def)+`, `[0-9]+\.[0-9]+`, `[a-z]+@[a-z]+`, `foo|bar|baz|qux`, `(foo|bar)+baz`,
	`\Aabc`, `(\Aabc)`, `\Aa|b`, `(?:\Aa)b`, `a\z`, `\Aa*\z`, `^$`, `^*`, `(?:^$)*`, `(?m:^$)+`,
	`[a-b][c-d][e-f]`, `[\x00-\x7f]`, `[\x00-\x7f]*`, `[\t\n]`, `[a-z&&b]`, `a[b]c`, `[a][b]`,
}

const alphabet = "abc"

func gen(r *rand.Rand, depth int) string {
	if depth <= 0 {
		switch r.Intn(9) {
		case 0:
			return "a"
		case 1:
			return "b"
		case 2:
			return "ab"
		case 3:
			return "[a-c]"
		case 4:
			return "[ac0-9]"
		case 5:
			return []string{`^`, `$`, `\b`, `\B`, `\A`, `\z`, `(?m:^)`, `(?m:$)`}[r.Intn(8)]
		case 6:
			return "(?:)"
		case 7:
			return "c"
		default:
			return "[^\\x00-\\x{10FFFF}]"
		}
	}
	switch r.Intn(11) {
	case 0:
		return gen(r, depth-1) + gen(r, depth-1)
	case 1:
		return "(?:" + gen(r, depth-1) + "|" + gen(r, depth-1) + ")"
	case 2:
		return "(?:" + gen(r, depth-1) + "|" + gen(r, depth-1) + "|" + gen(r, depth-1) + ")"
	case 3:
		return "(" + gen(r, depth-1) + ")"
	case 4:
		return "(?:" + gen(r, depth-1) + ")*" + []string{"", "?"}[r.Intn(2)]
	case 5:
		return "(?:" + gen(r, depth-1) + ")+" + []string{"", "?"}[r.Intn(2)]
	case 6:
		return "(?:" + gen(r, depth-1) + ")?" + []string{"", "?"}[r.Intn(2)]
	case 7:
		m := r.Intn(3)
		switch r.Intn(3) {
		case 0:
			return fmt.Sprintf("(?:%s){%d}", gen(r, depth-1), m)
		case 1:
			return fmt.Sprintf("(?:%s){%d,}%s", gen(r, depth-1), m, []string{"", "?"}[r.Intn(2)])
		default:
			return fmt.Sprintf("(?:%s){%d,%d}%s", gen(r, depth-1), m, m+r.Intn(3), []string{"", "?"}[r.Intn(2)])
		}
	case 8:
		return gen(r, depth-1) + gen(r, depth-1) + gen(r, depth-1)
	default:
		return gen(r, depth-1)
	}
}

var repBounds = []string{"{0,}", "{1,}", "{2,}", "{3,}", "{4,}", "{0}", "{1}", "{2}", "{3}", "{0,1}", "{0,2}", "{0,3}", "{1,2}", "{1,3}", "{1,4}", "{2,3}", "{2,5}", "{3,4}", "{0,5}"}

// genRepSub: operands for repeats — nullable ones, captures, alternations with empty branches, nested repeats
func genRepSub(r *rand.Rand, depth int) string {
	switch r.Intn(14) {
	case 0:
		return "a"
	case 1:
		return "(a)"
	case 2:
		return "(?:a*)"
	case 3:
		return "(a*)"
	case 4:
		return "(?:a|)"
	case 5:
		return "(|a)"
	case 6:
		return "(?:a|b|)"
	case 7:
		return "(?:(y)|x|[0-9a-f]*|(-))"
	case 8:
		return "(?:a?)"
	case 9:
		return "(?:)"
	case 10:
		return []string{`^`, `$`, `\b`, `(?m:^)`, "[a-c]", "[ac0-9]", "ab", "(ab|c)"}[r.Intn(8)]
	case 11:
		if depth > 0 {
			return "(?:" + genRep(r, depth-1) + ")"
		}
		return "[ab]"
	case 12:
		if depth > 0 {
			return "(" + genRep(r, depth-1) + ")"
		}
		return "(b)"
	default:
		if depth > 0 {
			return "(?:" + gen(r, depth) + ")"
		}
		return "(?:b|a*)"
	}
}

// genRep: a counted repeat (greedy or not) of such an operand, possibly in a context
func genRep(r *rand.Rand, depth int) string {
	x := genRepSub(r, depth) + repBounds[r.Intn(len(repBounds))] + []string{"", "?"}[r.Intn(2)]
	switch r.Intn(6) {
	case 0:
		return x + genRepSub(r, 0)
	case 1:
		return genRepSub(r, 0) + x
	case 2:
		return "(?:" + x + "|" + genRep(r, 0) + ")"
	case 3:
		if depth > 0 {
			return x + genRep(r, depth-1)
		}
		return x
	default:
		return x
	}
}

func nest(n int) string { // n nested non-capturing stars around a literal: depth n+1
	s := "a"
	for i := 0; i < n; i++ {
		s = "(?:" + s + ")*"
	}
	return s
}

func nestCap(n int) string {
	s := "a"
	for i := 0; i < n; i++ {
		s = "(" + s + ")"
	}
	return s
}

func main() {
	w := bufio.NewWriter(os.Stdout)
	defer w.Flush()
	seen := map[string]bool{}
	var pats []string
	add := func(p string) {
		if !seen[p] {
			seen[p] = true
			pats = append(pats, p)
		}
	}
	for _, p := range fixed {
		add(p)
	}
	r := rand.New(rand.NewSource(20260923))
	for len(pats) < 900 {
		add(gen(r, 1+r.Intn(4)))
	}
	for _, sub := range []string{"a", "(a)", "(?:a*)", "(a*)", "(?:a|)", "(|a)", "(?:a|b|)", "(?:(y)|x|[0-9a-f]*|(-))", "(?:a?)", "(?:)", "ab", "[a-c]", "[ac0-9]", "^", "(?:a{2,3})", "(?:a{1,})", "(a{0,2}?)", "(?:(a){0,2}){1,3}"} {
		for _, bd := range repBounds {
			add(sub + bd)
			add(sub + bd + "?")
			add("x" + sub + bd + "y")
		}
	}
	for len(pats) < 4200 {
		add(genRep(r, r.Intn(3)))
	}
	skipped, used := 0, 0
	emit := func(p, mode string, cfg nfa.CompilerConfig) {
		re, err := syntax.Parse(p, syntax.Perl)
		if err != nil {
			skipped++
			return
		}
		sx, ok := sexp(re)
		if !ok {
			skipped++
			return
		}
		used++
		n, err := nfa.NewCompiler(cfg).Compile(p)
		d := "error"
		if err == nil {
			d = dumpNFA(n)
		}
		fmt.Fprintf(w, "%q\t%s\t%s\t%s\n", p, mode, sx, d)
	}
	for _, p := range pats {
		cfg := nfa.DefaultCompilerConfig()
		cfg.Anchored = true
		emit(p, "a", cfg)
		emit(p, "u", nfa.DefaultCompilerConfig())
	}
	// recursion limit
	for _, d := range []int{1, 2, 3, 5} {
		for n := 0; n <= 6; n++ {
			cfg := nfa.DefaultCompilerConfig()
			cfg.Anchored = true
			cfg.MaxRecursionDepth = d
			emit(nest(n), fmt.Sprintf("d%d", d), cfg)
			emit(nestCap(n), fmt.Sprintf("d%d", d), cfg)
			emit(fmt.Sprintf("(?:%s){2,}", nestCap(n)), fmt.Sprintf("d%d", d), cfg)
			emit(fmt.Sprintf("(?:%s){0,}", nestCap(n)), fmt.Sprintf("d%d", d), cfg)
			emit(fmt.Sprintf("(?:%s){1,2}", nestCap(n)), fmt.Sprintf("d%d", d), cfg)
			emit(fmt.Sprintf("(?:%s){1}", nestCap(n)), fmt.Sprintf("d%d", d), cfg)
		}
	}
	for _, n := range []int{97, 98, 99, 100, 101} {
		cfg := nfa.DefaultCompilerConfig()
		cfg.Anchored = true
		emit(nestCap(n), "d100", cfg)
	}
	// hand-built ASTs the parser never produces, through CompileRegexp
	lit := func(s string) *syntax.Regexp { return &syntax.Regexp{Op: syntax.OpLiteral, Rune: []rune(s)} }
	mk := func(op syntax.Op, subs ...*syntax.Regexp) *syntax.Regexp { return &syntax.Regexp{Op: op, Sub: subs} }
	rep := func(min, max int, sub *syntax.Regexp) *syntax.Regexp {
		return &syntax.Regexp{Op: syntax.OpRepeat, Min: min, Max: max, Sub: []*syntax.Regexp{sub}}
	}
	hand := []*syntax.Regexp{
		mk(syntax.OpNoMatch), mk(syntax.OpConcat, lit("a"), mk(syntax.OpNoMatch)), mk(syntax.OpStar, mk(syntax.OpNoMatch)),
		mk(syntax.OpAlternate), mk(syntax.OpAlternate, lit("a")), mk(syntax.OpConcat), mk(syntax.OpConcat, lit("a")),
		mk(syntax.OpStar, mk(syntax.OpAlternate)), mk(syntax.OpConcat, lit("a"), mk(syntax.OpAlternate), lit("b")),
		rep(3, 2, lit("a")), rep(1, 0, lit("a")), rep(0, 0, lit("a")), rep(1, 1, mk(syntax.OpAlternate)),
		lit(""), mk(syntax.OpStar, lit("")), mk(syntax.OpPlus, lit("")),
		mk(syntax.OpStar, mk(syntax.OpConcat)), mk(syntax.OpStar, mk(syntax.OpConcat, mk(syntax.OpEmptyMatch), mk(syntax.OpStar, lit("a")))),
		mk(syntax.OpStar, mk(syntax.OpAlternate, lit("a"), mk(syntax.OpEmptyMatch))),
		mk(syntax.OpStar, rep(0, 2, lit("a"))), mk(syntax.OpStar, rep(1, 2, lit("a"))), mk(syntax.OpStar, rep(1, 2, mk(syntax.OpQuest, lit("a")))),
		mk(syntax.OpStar, mk(syntax.OpPlus, mk(syntax.OpQuest, lit("a")))), mk(syntax.OpStar, mk(syntax.OpPlus, lit("a"))),
		&syntax.Regexp{Op: syntax.OpCharClass, Rune: []rune{'a', 'a'}}, &syntax.Regexp{Op: syntax.OpCharClass, Rune: []rune{'b', 'a'}},
		&syntax.Regexp{Op: syntax.OpCharClass, Rune: []rune{'a', 'c', 'b', 'd'}}, &syntax.Regexp{Op: syntax.OpCharClass, Rune: []rune{'x', 'z', 'a', 'c'}},
		&syntax.Regexp{Op: syntax.OpCapture, Cap: 7, Sub: []*syntax.Regexp{lit("a")}},
	}
	for _, re := range hand {
		sx, ok := sexp(re)
		if !ok {
			skipped++
			continue
		}
		used++
		cfg := nfa.DefaultCompilerConfig()
		cfg.Anchored = true
		n, err := nfa.NewCompiler(cfg).CompileRegexp(re)
		d := "error"
		if err == nil {
			d = dumpNFA(n)
		}
		fmt.Fprintf(w, "%q\t%s\t%s\t%s\n", "hand:"+re.String(), "a", sx, d)
	}
	fmt.Fprintf(os.Stderr, "used=%d skipped=%d\n", used, skipped)
}
