#!/bin/sh
# Fidelity check of Cx.Model.Compile against nfa/compile.go (throw-away).
#  1. structure: Go dumps of nfa.NewCompiler(cfg).Compile / CompileRegexp  ==  model dumps, byte for byte
#  2. language:  acceptsSpan(model NFA, h, i, j)  ==  regexp (stdlib) on \A(?s:.{i})(?:p)(?s:.{n-j})\z, all h over {a,b,c,\n}, |h| <= 3
set -e
cd "$(dirname "$0")"
export GOFLAGS=-mod=mod GOPROXY=off
go run . > out.tsv
python3 cmp.py
(cd lang && go run . 20000 > oracle.tsv)
cut -f1 lang/oracle.tsv > /tmp/cx_sx.txt
cut -f2 lang/oracle.tsv > /tmp/cx_exp.txt
(cd .. && lake env lean --run gocheck/Lang.lean < /tmp/cx_sx.txt > /tmp/cx_out.txt)
python3 - <<'PY'
a=open('/tmp/cx_exp.txt').read().split('\n'); b=open('/tmp/cx_out.txt').read().split('\n')
bad=[k for k,(x,y) in enumerate(zip(a,b)) if x!=y]
print("language check: patterns",len([x for x in a if x]),"cells",sum(len(x) for x in a),"accepted cells",sum(x.count('1') for x in a),"mismatching patterns",len(bad))
PY
