import subprocess,sys
rows=[l.rstrip("\n").split("\t") for l in open("out.tsv")]
req=[]
for p,mode,sx,d in rows:
    if mode=="a": req.append("compile "+sx)
    elif mode=="u": req.append("compileu "+sx)
    else: req.append("compiled %s %s"%(mode[1:],sx))
res=subprocess.run(["lake","env","lean","--run","gocheck/Run.lean"],input="\n".join(req)+"\n",capture_output=True,text=True,cwd="..")
outs=res.stdout.split("\n")
if res.stderr: print(res.stderr[:2000])
ok=0;bad=[]
stats={}
for (p,mode,sx,d),o in zip(rows,outs):
    k=(mode if mode in("a","u") else "d", d=="error")
    if o==d:
        ok+=1; stats[k]=stats.get(k,0)+1
    else: bad.append((p,mode,sx,d,o))
print("rows",len(rows),"identical",ok,"different",len(bad))
print(stats)
for b in bad[:20]: print(b)
