import subprocess,sys
rows=[l.rstrip("\n").split("\t") for l in open("out.tsv")]
req=[]
for p,mode,sx,d in rows:
    if mode=="a": req.append("compile "+sx)
    elif mode=="u": req.append("compileu "+sx)
    else: req.append("compiled %s %s"%(mode[1:],sx))
import os
if os.path.exists("../.lake/build/bin/cxdrv"):   # the built driver (what the harness talks to)
    cmd=["./.lake/build/bin/cxdrv"]
else:
    cmd=["lake","env","lean","--run","gocheck/Run.lean"]
print("model:"," ".join(cmd))
res=subprocess.run(cmd,input="\n".join(req)+"\n",capture_output=True,text=True,cwd="..")
outs=res.stdout.split("\n")
if res.stderr: print(res.stderr[:2000])
ok=0;bad=[]
stats={}
for (p,mode,sx,d),o in zip(rows,outs):
    k=(mode if mode in("a","u") else "d", d=="error")
    if o==d:
        ok+=1; stats[k]=stats.get(k,0)+1
    else: bad.append((p,mode,sx,d,o))
print("rows",len(rows),"identical",ok,"different",len(bad))
import re as _re
def kinds(sx):
    out=set()
    for g,mn,mx in _re.findall(r"\(rep,([01]),(\d+),(\d+|inf),",sx):
        if mx=="inf": out.add("{0,}" if mn=="0" else "{1,}" if mn=="1" else "{m>=2,}")
        elif mn==mx: out.add("{n}")
        else: out.add("{0,n}" if mn=="0" else "{m,n}")
        if g=="0": out.add("non-greedy rep")
    if sx.count("(rep,")>=2: out.add("two or more reps")
    return out
cnt={}
for p,mode,sx,d in rows:
    ks=kinds(sx)
    if ks: cnt["any rep"]=cnt.get("any rep",0)+1
    for k in ks: cnt[k]=cnt.get(k,0)+1
print("rows with repeats:",cnt)
print(stats)
for b in bad[:20]: print(b)
