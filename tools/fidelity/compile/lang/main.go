// lang: oracle for the language check of run.sh.  Prints  sexp \t table  for N generated patterns of the modelled
// fragment, table[k] = '1' iff stdlib regexp matches \A(?s:.{i})(?:p)(?s:.{n-j})\z on h, in the order of Lang.lean
// (all h over {a,b,c,\n} with |h| = n <= 3, then i <= j <= n).
package main

import (
	"bufio"
	"fmt"
	"math/rand"
	"os"
	"regexp"
	"regexp/syntax"
	"strconv"
	"strings"
)

const alpha = "abc\n"

func sexp(re *syntax.Regexp) (string, bool) {
	g := "1"
	if re.Flags&syntax.NonGreedy != 0 {
		g = "0"
	}
	list := func(name string) (string, bool) {
		var sb strings.Builder
		sb.WriteString("(" + name)
		for _, s := range re.Sub {
			x, ok := sexp(s)
			if !ok {
				return "", false
			}
			sb.WriteString("," + x)
		}
		sb.WriteString(")")
		return sb.String(), true
	}
	switch re.Op {
	case syntax.OpEmptyMatch:
		return "(empty)", true
	case syntax.OpLiteral:
		if re.Flags&syntax.FoldCase != 0 {
			return "", false
		}
		var sb strings.Builder
		sb.WriteString("(lit,")
		for _, r := range re.Rune {
			if r > 127 {
				return "", false
			}
			fmt.Fprintf(&sb, "%02x", r)
		}
		sb.WriteString(")")
		return sb.String(), true
	case syntax.OpCharClass:
		if len(re.Rune) == 0 {
			return "(cls)", true
		}
		var parts []string
		for i := 0; i+1 < len(re.Rune); i += 2 {
			if re.Rune[i] > 127 || re.Rune[i+1] > 127 {
				return "", false
			}
			parts = append(parts, fmt.Sprintf("%02x-%02x", re.Rune[i], re.Rune[i+1]))
		}
		return "(cls," + strings.Join(parts, "_") + ")", true
	case syntax.OpBeginText:
		return "(look,0)", true
	case syntax.OpEndText:
		return "(look,1)", true
	case syntax.OpBeginLine:
		return "(look,2)", true
	case syntax.OpEndLine:
		return "(look,3)", true
	case syntax.OpWordBoundary:
		return "(look,4)", true
	case syntax.OpNoWordBoundary:
		return "(look,5)", true
	case syntax.OpCapture:
		x, ok := sexp(re.Sub[0])
		return fmt.Sprintf("(cap,%d,%s)", re.Cap, x), ok
	case syntax.OpStar, syntax.OpPlus, syntax.OpQuest:
		x, ok := sexp(re.Sub[0])
		name := map[syntax.Op]string{syntax.OpStar: "star", syntax.OpPlus: "plus", syntax.OpQuest: "quest"}[re.Op]
		return fmt.Sprintf("(%s,%s,%s)", name, g, x), ok
	case syntax.OpRepeat:
		x, ok := sexp(re.Sub[0])
		mx := fmt.Sprint(re.Max)
		if re.Max == -1 {
			mx = "inf"
		}
		return fmt.Sprintf("(rep,%s,%d,%s,%s)", g, re.Min, mx, x), ok
	case syntax.OpConcat:
		return list("cat")
	case syntax.OpAlternate:
		return list("alt")
	}
	return "", false
}

var bounds = []string{"{0,}", "{1,}", "{2,}", "{3,}", "{0}", "{1}", "{2}", "{3}", "{0,1}", "{0,2}", "{0,3}", "{1,2}", "{1,3}", "{2,3}", "{2,5}"}

func gen(r *rand.Rand, depth int) string {
	if depth <= 0 {
		return []string{"a", "b", "c", "ab", "[a-c]", "[ac]", `\n`, `^`, `$`, `\b`, `\B`, `\A`, `\z`, `(?m:^)`, `(?m:$)`, "(?:)", "[ab]"}[r.Intn(17)]
	}
	ng := []string{"", "?"}[r.Intn(2)]
	switch r.Intn(12) {
	case 0, 1:
		return gen(r, depth-1) + gen(r, depth-1)
	case 2:
		return "(?:" + gen(r, depth-1) + "|" + gen(r, depth-1) + ")"
	case 3:
		return "(?:" + gen(r, depth-1) + "|" + gen(r, depth-1) + "|)"
	case 4:
		return "(" + gen(r, depth-1) + ")"
	case 5:
		return "(?:" + gen(r, depth-1) + ")*" + ng
	case 6:
		return "(?:" + gen(r, depth-1) + ")+" + ng
	case 7:
		return "(?:" + gen(r, depth-1) + ")?" + ng
	case 8, 9, 10:
		return "(?:" + gen(r, depth-1) + ")" + bounds[r.Intn(len(bounds))] + ng
	default:
		return gen(r, depth-1)
	}
}

func main() {
	n := 2000
	if len(os.Args) > 1 {
		n, _ = strconv.Atoi(os.Args[1])
	}
	var hays []string
	for l := 0; l <= 3; l++ {
		total := 1
		for k := 0; k < l; k++ {
			total *= 4
		}
		for x := 0; x < total; x++ {
			b := make([]byte, l)
			y := x
			for k := l - 1; k >= 0; k-- {
				b[k] = alpha[y%4]
				y /= 4
			}
			hays = append(hays, string(b))
		}
	}
	w := bufio.NewWriter(os.Stdout)
	defer w.Flush()
	r := rand.New(rand.NewSource(7))
	seen := map[string]bool{}
	for done := 0; done < n; {
		p := gen(r, 1+r.Intn(3))
		if seen[p] {
			continue
		}
		seen[p] = true
		re, err := syntax.Parse(p, syntax.Perl)
		if err != nil {
			continue
		}
		sx, ok := sexp(re)
		if !ok {
			continue
		}
		var rx [4][4]*regexp.Regexp
		for i := 0; i <= 3; i++ {
			for k := 0; i+k <= 3; k++ {
				rx[i][k] = regexp.MustCompile(fmt.Sprintf(`\A(?s:.{%d})(?:%s)(?s:.{%d})\z`, i, p, k))
			}
		}
		var sb strings.Builder
		for _, h := range hays {
			for i := 0; i <= len(h); i++ {
				for j := i; j <= len(h); j++ {
					if rx[i][len(h)-j].MatchString(h) {
						sb.WriteByte('1')
					} else {
						sb.WriteByte('0')
					}
				}
			}
		}
		fmt.Fprintf(w, "%s\t%s\n", sx, sb.String())
		done++
	}
}
