module lang

go 1.25.4
