import Cx.DriverCompile
open Cx Cx.Nfa Cx.Compile Cx.DriverCompile

def alpha : Array Nat := #[97, 98, 99, 10]

def hays : List Bytes := Id.run do
  let mut out : Array Bytes := #[]
  for n in [0:4] do
    let total := 4 ^ n
    for x in [0:total] do
      let mut b : Array Nat := Array.replicate n 0
      let mut y := x
      for k' in [0:n] do
        let k := n - 1 - k'
        b := b.set! k (alpha[y % 4]!)
        y := y / 4
      out := out.push b
  return out.toList

def table (N : NFA) : String := Id.run do
  let mut s := ""
  for h in hays do
    let n := h.size
    for i in [0:n+1] do
      for j in [i:n+1] do
        s := s.push (if acceptsSpan N h i j then '1' else '0')
  return s

partial def loop (h : IO.FS.Stream) (out : IO.FS.Stream) : IO Unit := do
  let line ← h.getLine
  if line.isEmpty then return ()
  let sx := line.trimAscii.toString
  match parseSexp sx with
  | none => out.putStrLn "bad"
  | some re =>
    match compileTop { anchored := true } re with
    | none => out.putStrLn "error"
    | some N => out.putStrLn (table N)
  loop h out

def main : IO Unit := do
  let stdin ← IO.getStdin
  let stdout ← IO.getStdout
  loop stdin stdout
  stdout.flush
