module gocheck

go 1.25.4

require github.com/coregx/coregex v0.0.0

replace github.com/coregx/coregex => /repo
