import Cx.DriverCompile
partial def loop (h : IO.FS.Stream) (out : IO.FS.Stream) : IO Unit := do
  let line ← h.getLine
  if line.isEmpty then return ()
  let toks := (line.trimAscii.toString.splitOn " ").filter (· ≠ "")
  out.putStrLn ((Cx.DriverCompile.handle? toks).getD "bad-op")
  loop h out
def main : IO Unit := do
  let stdin ← IO.getStdin
  let stdout ← IO.getStdout
  loop stdin stdout
  stdout.flush
