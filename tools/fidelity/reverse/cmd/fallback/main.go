// fallback — lazy.DFA.SearchReverse falls back to nfaFallbackReverse when the reverse DFA gives up; that fallback runs the
// Pike VM of the REVERSE automaton forwards over the un-reversed haystack and reports the START of what it finds.
package main

import (
	"fmt"

	"github.com/coregx/coregex/dfa/lazy"
	"github.com/coregx/coregex/nfa"
)

func main() {
	for _, c := range []struct {
		pat string
		h   string
		e   int
	}{{"ab", "xab", 3}, {"ab", "ba", 2}, {"a+b", "xaab", 4}} {
		n, _ := nfa.NewDefaultCompiler().Compile(c.pat)
		r := nfa.ReverseAnchored(n)
		cfg := lazy.DefaultConfig()
		cfg.BreakAtMatch = false
		d1, err := lazy.CompileWithConfig(r, cfg)
		if err != nil {
			panic(err)
		}
		got1 := d1.SearchReverse(d1.NewCache(), []byte(c.h), 0, c.e)
		cfg2 := cfg.WithDeterminizationLimit(1)
		d2, err := lazy.CompileWithConfig(r, cfg2)
		if err != nil {
			fmt.Println("compile:", err)
			continue
		}
		got2 := d2.SearchReverse(d2.NewCache(), []byte(c.h), 0, c.e)
		fmt.Printf("pattern %q haystack %q end %d: reverse DFA start=%d ; with determinization limit 1 (fallback) start=%d\n", c.pat, c.h, c.e, got1, got2)
	}
}
