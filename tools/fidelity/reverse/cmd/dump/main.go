package main

import (
	"fmt"
	"os"

	"gocheck/dumper"

	"github.com/coregx/coregex/nfa"
)

func main() {
	for _, p := range os.Args[1:] {
		n, err := nfa.NewDefaultCompiler().Compile(p)
		if err != nil {
			fmt.Println("ERR", err)
			continue
		}
		fmt.Println("pattern", p)
		fmt.Println(" fwd ", dumper.DumpNFA(n))
		fmt.Println(" revA", dumper.DumpNFA(nfa.ReverseAnchored(n)))
		fmt.Println(" revU", dumper.DumpNFA(nfa.Reverse(n)))
	}
}
