// gocheck — fidelity of the Lean model Cx.Model.Reverse against nfa/reverse.go, and the reversal theorem's
// statement checked on the real code.
//
// For every look-free pattern (corpus of /verif/harness filtered + own list):
//  1. compile with the real compiler, dump forward NFA, dump nfa.ReverseAnchored(n) and nfa.Reverse(n);
//  2. ask the Lean driver (cxdrv: `rev nfa <anchored> <fwd>`) for the model's reverse automaton and compare the two
//     dumps state by state (string equality of the wire format);
//  3. language: for all strings w over representative bytes of the pattern up to length L:
//       real forward NFA accepts w (own set simulation over the exported accessors, anchored start, whole string,
//       every matching sparse transition followed)
//       ⇔ real reverse NFA accepts reverse(w)   (same simulation; both variants)
//       ⇔ real PikeVM on the real reverse NFA (longest mode) matches [0,len] of reverse(w)   (anchored variant)
//       and, on a sample, ⇔ model `rev accepts` (cxdrv);
//  4. start location on the real lazy DFA built as meta/compile.go:buildReverseDFA does (BreakAtMatch=false) from
//     nfa.ReverseAnchored: SearchReverse(h,0,e) = least s<e with forward accepts h[s:e] (reported separately).
package main

import (
	"bufio"
	"fmt"
	"io"
	"os"
	"os/exec"
	"regexp/syntax"
	"sort"
	"strconv"
	"strings"

	"gocheck/dumper"

	"github.com/coregx/coregex/dfa/lazy"
	"github.com/coregx/coregex/nfa"
)

var own = []string{
	`z*azb`, `a*b*c`, `(?:ab)*c`, `[a-z]*keyword`, `(a|ab)*c`, `abc`, `a`, ``, `a*`, `a+`, `a?`, `(?:xa|y[a-c])e`,
	`a|b|c`, `ab|cd`, `ab|ac`, `(?:a|b)*`, `(?:a|b)+c`, `(a*)*`, `(a*)+`, `(a+)*b`, `(?:a*b*)*c`, `x*`, `x*y*`, `x*y*z*`,
	`(?:x*y)*z`, `[ab]*a[ab]`, `[ab]*a[ab][ab]`, `[ab]*a[ab]{3}`, `a{2,4}`, `a{2,}`, `a{0,3}b`, `(?:ab){2,3}`, `(?:ab|cd){2}e`,
	`a*?b`, `a+?b`, `a??b`, `(?:a|b)*?c`, `a{2,4}?b`, `.*?x`, `.*x`, `.+x`, `.?x`, `(?s).*x`, `(?s).+`, `(?s:.)`, `.`, `..`,
	`[a-c]`, `[^a-c]`, `[a-cx-z]`, `[a-cx-z]+`, `[0-9]+`, `[0-9]+\.[0-9]+`, `[a-zA-Z_][a-zA-Z0-9_]*`, `\d+`, `\w+`, `\s+`,
	`\d+\s\w+`, `\D`, `\W+`, `\S*x`, `é`, `é+`, `[é]`, `[éè]`, `[à-ü]`, `[à-ü]+x`, `日本`, `日本語*`, `[日本]`, `[日-本]`, `[α-ω]+`,
	`[^é]`, `[^日]x`, `\p{Greek}`, `\p{Lu}x`, `a.b`, `a.*b`, `a.+b`, `a.?b`, `(a)(b)(c)`, `(a|b)(c|d)`, `((a|b)c)*d`,
	`(?:(?:a|b)c|d)*e`, `((a)|(b))*`, `(a(b(c)))`, `(a(b(c)?)?)?d`, `(?:a(?:b(?:c)?)?)?d`, `foo|foobar`, `foobar|foo`,
	`foo|bar|baz`, `(?:foo|bar)baz`, `baz(?:foo|bar)`, `(?:foo|bar)*baz`, `(?:foo|bar)+`, `f(?:oo|ee)d`, `[fb]oo`, `[fb]o*`,
	`o*[fb]`, `(?i)abc`, `(?i)a*b`, `(?i:a)b*`, `(?i)[a-c]+`, `ab*a`, `ab*`, `b*a`, `b*ab*`, `(?:b*a)*`, `(?:ab*)*`, `a*a`, `a*aa*`,
	`aa*`, `a*a*`, `a*a*a*b`, `(?:a*)*b`, `(?:a|aa)*b`, `(?:aa|a)*b`, `(?:a|ab|abc)*d`, `(?:abc|ab|a)*d`, `a(?:b|c)*d`,
	`a(?:b|c)+d`, `a(?:b|c)?d`, `a[bc]*d`, `(?:a[bc])*d`, `(?:[ab]c)*d`, `(?:[ab][cd])*e`, `[ab]*[cd]*`, `[ab]*[bc]*c`, `[ab]+[bc]+`,
	`x[ab]*[bc]*`, `(?:x|y)*(?:y|z)*z`, `(?:xy)*(?:yz)*`, `(?:xy|z)*(?:yz|x)*w`, `a*(?:b|c*)d`, `a*(?:b*|c*)*d`, `(?:a*|b*)*`,
	`(?:a*|b*)*c`, `(?:a?)*b`, `(?:a?b?)*c`, `(?:a?|b)*c`, `a?b?c?`, `a?b?c?d`, `(?:a?b?c?)*d`, `(?:|a)b`, `(?:a|)b`, `(?:a||b)c`,
	`(?:)`, `(?:)*`, `(?:)a`, `a(?:)`, `()`, `()*a`, `(|a)*b`, `(a|)*b`, `a**`, `a*+`, `(?:a+)+`, `(?:a+)?`, `(?:a?)+`, `(?:a*)?`,
	`(?:a+b+)+`, `(?:a+b*)+c`, `(?:a*b+)*c`, `key=(?:[a-z]+)`, `[a-z]+=[0-9]+`, `[a-z]+@[a-z]+\.com`, `https?://[a-z.]+`,
	`(?:[a-z]+\.)+com`, `(?:[a-z]+\.)*com`, `[a-z]*\.txt`, `[^/]*/[^/]*`, `(?:/[a-z]+)+`, `(?:/[a-z]*)*x`, `[0-9]{3}-[0-9]{4}`,
	`[0-9]{1,3}(?:\.[0-9]{1,3}){3}`, `0x[0-9a-f]+`, `(?:0|1)*1`, `(?:0|1)*1(?:0|1)`, `(?:0|1)*1(?:0|1){2}`, `(?:00|11)*`, `(?:01|10)*0?`,
	`[\x00-\x7f]`, `[\x00-\xff]` + ``, `(?s:.)*a`, `(?s:.)*?a`, `(?s:.*)a(?s:.*)`, `a(?s:.*)`, `\x00`, `\x00*\x01`, `[\x00\xff]`, `\xff`,
	`(?:\xc3\xa9)`, `[a\x80]`, `\n`, `[^\n]`, `[^\n]*\n`, `(?:a|[^\n])b`, `(?:ab|[a-c]d)e`, `(?:xa|y[a-c]|z[b-d])e`, `(?:a|[a-c]|[b-d])x`,
	`(?:ab|a[b-c])d`, `(?:[a-b]x|[b-c]x)y`, `(?:a|b|[a-b])c`, `[a-b]x|[b-c]y`, `(?:ax|[a-c]x)*y`, `(?:a|[a-c])*y`, `(?:a|a)*b`, `(?:a|a)b`,
	`aaa|aa|a`, `a|aa|aaa`, `(?:a|aa|aaa)*b`, `(?:aaa|aa|a)*`, `ab*c*d*`, `a*b*c*d`, `a+b+c+`, `(?:a+|b+)c`, `(?:a+|b+)*c`,
	`héllo`, `hé*llo`, `(?:hé)*llo`, `[hé]*llo`, `ü*ber`, `(?:über|unter)*x`, `€+`, `[€$]+`, `x[€$]*y`, `(?:€|\$)*`, `𝄞`, `𝄞*x`, `[𝄞a]+`,
	`[^a]*a`, `[^ab]*[ab]`, `[^a]*a[^a]*`, `"[^"]*"`, `'(?:[^'\\]|\\.)*'`, `/\*.*?\*/`, `<[a-z]+>`, `<[^>]*>`, `<(?:[a-z]+)(?: [a-z]+)*>`,
}

func hasLook(n *nfa.NFA) bool {
	for i := 0; i < n.States(); i++ {
		if n.State(nfa.StateID(i)).Kind() == nfa.StateLook {
			return true
		}
	}
	return false
}

func hasRune(n *nfa.NFA) bool {
	for i := 0; i < n.States(); i++ {
		k := n.State(nfa.StateID(i)).Kind()
		if k == nfa.StateRuneAny || k == nfa.StateRuneAnyNotNL {
			return true
		}
	}
	return false
}

// accepts: whole-string acceptance from the anchored start, every matching sparse transition followed.
func accepts(n *nfa.NFA, w []byte) bool {
	S := n.States()
	cur := make([]bool, S)
	var stack []nfa.StateID
	closure := func(set []bool, seeds []nfa.StateID) {
		stack = append(stack[:0], seeds...)
		for len(stack) > 0 {
			q := stack[len(stack)-1]
			stack = stack[:len(stack)-1]
			if q == nfa.InvalidState || int(q) >= S || set[q] {
				continue
			}
			set[q] = true
			s := n.State(q)
			switch s.Kind() {
			case nfa.StateEpsilon:
				stack = append(stack, s.Epsilon())
			case nfa.StateCapture:
				_, _, nx := s.Capture()
				stack = append(stack, nx)
			case nfa.StateSplit:
				l, r := s.Split()
				stack = append(stack, l, r)
			}
		}
	}
	closure(cur, []nfa.StateID{n.StartAnchored()})
	for _, c := range w {
		var tg []nfa.StateID
		for q := 0; q < S; q++ {
			if !cur[q] {
				continue
			}
			s := n.State(nfa.StateID(q))
			switch s.Kind() {
			case nfa.StateByteRange:
				lo, hi, nx := s.ByteRange()
				if lo <= c && c <= hi {
					tg = append(tg, nx)
				}
			case nfa.StateSparse:
				for _, t := range s.Transitions() {
					if t.Lo <= c && c <= t.Hi {
						tg = append(tg, t.Next)
					}
				}
			}
		}
		next := make([]bool, S)
		closure(next, tg)
		cur = next
	}
	for q := 0; q < S; q++ {
		if cur[q] && n.State(nfa.StateID(q)).Kind() == nfa.StateMatch {
			return true
		}
	}
	return false
}

// representative bytes: the ends of every byte range of the pattern part of the automaton, plus one byte outside
func alphabet(n *nfa.NFA, max int) []byte {
	seen := map[byte]bool{}
	covered := [256]bool{}
	add := func(lo, hi byte) {
		if lo == 0 && hi == 255 {
			return
		}
		seen[lo] = true
		seen[hi] = true
		for c := int(lo); c <= int(hi); c++ {
			covered[c] = true
		}
	}
	for i := 0; i < n.States(); i++ {
		s := n.State(nfa.StateID(i))
		switch s.Kind() {
		case nfa.StateByteRange:
			lo, hi, _ := s.ByteRange()
			add(lo, hi)
		case nfa.StateSparse:
			for _, t := range s.Transitions() {
				add(t.Lo, t.Hi)
			}
		}
	}
	var out []byte
	for b := range seen {
		out = append(out, b)
	}
	sort.Slice(out, func(i, j int) bool { return out[i] < out[j] })
	if len(out) > max-1 {
		// keep a spread
		step := float64(len(out)) / float64(max-1)
		var o2 []byte
		for i := 0; i < max-1; i++ {
			o2 = append(o2, out[int(float64(i)*step)])
		}
		out = o2
	}
	for c := 0; c < 256; c++ {
		if !covered[c] {
			out = append(out, byte(c))
			break
		}
	}
	if len(out) == 0 {
		out = []byte{'a'}
	}
	return out
}

func allStrings(alpha []byte, maxLen int) [][]byte {
	res := [][]byte{{}}
	prev := [][]byte{{}}
	for l := 1; l <= maxLen; l++ {
		var cur [][]byte
		for _, p := range prev {
			for _, c := range alpha {
				w := append(append([]byte{}, p...), c)
				cur = append(cur, w)
			}
		}
		res = append(res, cur...)
		prev = cur
	}
	return res
}

func rev(w []byte) []byte {
	r := make([]byte, len(w))
	for i := range w {
		r[len(w)-1-i] = w[i]
	}
	return r
}

func hexOf(w []byte) string {
	if len(w) == 0 {
		return "-"
	}
	return fmt.Sprintf("%x", w)
}

type drv struct {
	in  io.WriteCloser
	out *bufio.Reader
	cmd *exec.Cmd
}

func startDrv(path string) *drv {
	cmd := exec.Command(path)
	in, _ := cmd.StdinPipe()
	outp, _ := cmd.StdoutPipe()
	cmd.Stderr = os.Stderr
	if err := cmd.Start(); err != nil {
		panic(err)
	}
	return &drv{in: in, out: bufio.NewReaderSize(outp, 1<<20), cmd: cmd}
}

func main() {
	drvPath := "../.lake/build/bin/cxdrv"
	corpus := "/verif/harness/cmd/vcheck/corpus_patterns.txt"
	maxLen := 5
	if len(os.Args) > 1 {
		maxLen, _ = strconv.Atoi(os.Args[1])
	}
	var pats []string
	seenP := map[string]bool{}
	addP := func(p string) {
		if !seenP[p] {
			seenP[p] = true
			pats = append(pats, p)
		}
	}
	for _, p := range own {
		addP(p)
	}
	if f, err := os.Open(corpus); err == nil {
		sc := bufio.NewScanner(f)
		sc.Buffer(make([]byte, 1<<20), 1<<20)
		for sc.Scan() {
			p, err := strconv.Unquote(sc.Text())
			if err != nil {
				continue
			}
			bad := false
			for _, t := range []string{"^", "$", `\b`, `\B`, `\A`, `\z`} {
				if strings.Contains(p, t) {
					bad = true
				}
			}
			if !bad {
				addP(p)
			}
		}
		f.Close()
	}

	type item struct {
		pat              string
		n, ra, ru        *nfa.NFA
		fwd, dra, dru    string
		sample           [][]byte
		accFwd           []bool
	}
	var items []*item
	skippedCompile, skippedLook, skippedRune := 0, 0, 0
	for _, p := range pats {
		if _, err := syntax.Parse(p, syntax.Perl); err != nil {
			skippedCompile++
			continue
		}
		n, err := nfa.NewDefaultCompiler().Compile(p)
		if err != nil {
			skippedCompile++
			continue
		}
		if hasLook(n) {
			skippedLook++
			continue
		}
		if hasRune(n) {
			skippedRune++
			continue
		}
		it := &item{pat: p, n: n, ra: nfa.ReverseAnchored(n), ru: nfa.Reverse(n)}
		it.fwd = dumper.DumpNFA(n)
		it.dra = dumper.DumpNFA(it.ra)
		it.dru = dumper.DumpNFA(it.ru)
		items = append(items, it)
	}
	fmt.Printf("patterns: %d candidates, %d look-free compiled (skipped: %d compile errors, %d with look states, %d with rune states)\n",
		len(pats), len(items), skippedCompile, skippedLook, skippedRune)

	// ---- language checks on the real code
	langCases, langBad, pikeCases, pikeBad := 0, 0, 0, 0
	dfaCases, dfaBad := 0, 0
	dfaBadBy := map[string]int{}
	maxStates := 0
	for _, it := range items {
		if it.n.States() > maxStates {
			maxStates = it.n.States()
		}
		alpha := alphabet(it.n, 5)
		ws := allStrings(alpha, maxLen)
		pv := nfa.NewPikeVM(it.ra)
		pv.SetLongest(true)
		for k, w := range ws {
			a := accepts(it.n, w)
			rw := rev(w)
			ar := accepts(it.ra, rw)
			au := accepts(it.ru, rw)
			langCases += 2
			if a != ar {
				langBad++
				if langBad <= 20 {
					fmt.Printf("LANG MISMATCH (anchored) pattern %q w=%q fwd=%v rev=%v\n", it.pat, w, a, ar)
				}
			}
			if a != au {
				langBad++
				if langBad <= 20 {
					fmt.Printf("LANG MISMATCH (unanchored) pattern %q w=%q fwd=%v rev=%v\n", it.pat, w, a, au)
				}
			}
			// real Pike VM, longest, anchored automaton: whole string matched?
			s, e, ok := pv.SearchAt(rw, 0)
			pk := ok && s == 0 && e == len(rw)
			pikeCases++
			if pk != a {
				pikeBad++
				if pikeBad <= 20 {
					fmt.Printf("PIKE MISMATCH pattern %q w=%q fwd=%v pike(rev)=%v,%v,%v\n", it.pat, w, a, s, e, ok)
				}
			}
			if k%37 == 0 || a {
				if len(it.sample) < 60 {
					it.sample = append(it.sample, w)
					it.accFwd = append(it.accFwd, a)
				}
			}
		}
		// start location with the real reverse lazy DFA (as buildReverseDFA configures it)
		cfg := lazy.DefaultConfig()
		cfg.BreakAtMatch = false
		if d, err := lazy.CompileWithConfig(it.ra, cfg); err == nil && d != nil {
			cache := d.NewCache()
			for _, h := range ws {
				if len(h) != maxLen && len(h) != maxLen-1 {
					continue
				}
				for e := 1; e <= len(h); e++ {
					want := -1
					for s := 0; s < e; s++ {
						if accepts(it.n, h[s:e]) {
							want = s
							break
						}
					}
					got := d.SearchReverse(cache, h, 0, e)
					dfaCases++
					if got != want {
						// an empty match at e is reported as e by some paths; only s<e is compared
						if !(want == -1 && got == e) {
							dfaBad++
							dfaBadBy[it.pat]++
							if dfaBad <= 5 {
								fmt.Printf("REVDFA MISMATCH pattern %q h=%q e=%d leftmost start want=%d got=%d\n", it.pat, h, e, want, got)
							}
						}
					}
				}
			}
		}
	}
	fmt.Printf("real code, language: %d comparisons (forward accepts w <=> reverse automaton accepts reverse(w); both variants), %d mismatches\n", langCases, langBad)
	fmt.Printf("real code, Pike VM (longest) on ReverseAnchored: %d comparisons, %d mismatches\n", pikeCases, pikeBad)
	fmt.Printf("real code, reverse lazy DFA SearchReverse = leftmost start: %d comparisons, %d mismatches\n", dfaCases, dfaBad)
	for p, c := range dfaBadBy {
		fmt.Printf("  reverse lazy DFA mismatches: pattern %q: %d\n", p, c)
	}
	fmt.Printf("largest forward automaton: %d states\n", maxStates)

	// ---- model
	d := startDrv(drvPath)
	w := bufio.NewWriterSize(d.in, 1<<20)
	done := make(chan struct{})
	nreq := 0
	var answers []string
	go func() {
		for {
			line, err := d.out.ReadString('\n')
			if line != "" {
				answers = append(answers, strings.TrimRight(line, "\n"))
			}
			if err != nil {
				break
			}
		}
		close(done)
	}()
	for _, it := range items {
		fmt.Fprintf(w, "rev nfa 1 %s\n", it.fwd)
		fmt.Fprintf(w, "rev nfa 0 %s\n", it.fwd)
		fmt.Fprintf(w, "rev valid 1 %s\n", it.fwd)
		fmt.Fprintf(w, "rev valid 0 %s\n", it.fwd)
		fmt.Fprintf(w, "rev hyps %s\n", it.fwd)
		nreq += 5
		for _, s := range it.sample {
			fmt.Fprintf(w, "rev accepts 1 %s %s\n", hexOf(rev(s)), it.fwd)
			fmt.Fprintf(w, "rev accepts 0 %s %s\n", hexOf(rev(s)), it.fwd)
			nreq += 2
		}
	}
	w.Flush()
	d.in.Close()
	<-done
	d.cmd.Wait()
	if len(answers) != nreq {
		fmt.Printf("DRIVER: %d answers for %d requests\n", len(answers), nreq)
		os.Exit(1)
	}
	k := 0
	structCases, structBad, validBad, accCases, accBad := 0, 0, 0, 0, 0
	hypBad, fwdNotDisj, revANotDisj, revUNotDisj := 0, 0, 0, 0
	for _, it := range items {
		structCases += 2
		if answers[k] != it.dra {
			structBad++
			if structBad <= 10 {
				fmt.Printf("STRUCT MISMATCH (anchored) %q\n fwd   %s\n real  %s\n model %s\n", it.pat, it.fwd, it.dra, answers[k])
			}
		}
		if answers[k+1] != it.dru {
			structBad++
			if structBad <= 10 {
				fmt.Printf("STRUCT MISMATCH (unanchored) %q\n fwd   %s\n real  %s\n model %s\n", it.pat, it.fwd, it.dru, answers[k+1])
			}
		}
		if answers[k+2] != "true" || answers[k+3] != "true" {
			validBad++
		}
		hy := strings.Split(answers[k+4], ",")
		if len(hy) != 4 || hy[0] != "true" {
			hypBad++
			if hypBad <= 10 {
				fmt.Printf("HYPOTHESIS revHypB fails for %q: %s\n", it.pat, answers[k+4])
			}
		}
		if len(hy) == 4 {
			if hy[1] != "true" {
				fwdNotDisj++
			}
			if hy[2] != "true" {
				revANotDisj++
			}
			if hy[3] != "true" {
				revUNotDisj++
			}
		}
		k += 5
		for i := range it.sample {
			for v := 0; v < 2; v++ {
				accCases++
				want := "false"
				if it.accFwd[i] {
					want = "true"
				}
				if answers[k] != want {
					accBad++
					if accBad <= 10 {
						fmt.Printf("MODEL ACCEPT MISMATCH %q w=%q variant=%d model=%s forward=%s\n", it.pat, it.sample[i], v, answers[k], want)
					}
				}
				k++
			}
		}
	}
	fmt.Printf("model vs real, structure (state by state, wire format): %d automata (%d patterns x 2 variants), %d mismatches\n", structCases, len(items), structBad)
	fmt.Printf("model: Builder.Validate on the result fails for %d patterns\n", validBad)
	fmt.Printf("hypotheses of the Lean theorem (revHypB) fail for %d of %d compiled patterns\n", hypBad, len(items))
	fmt.Printf("sparse states with overlapping ranges: %d forward automata, %d ReverseAnchored, %d Reverse (of %d)\n", fwdNotDisj, revANotDisj, revUNotDisj, len(items))
	fmt.Printf("model `rev accepts` vs real forward acceptance: %d comparisons, %d mismatches\n", accCases, accBad)
	if langBad+pikeBad+structBad+validBad+accBad+hypBad > 0 {
		os.Exit(1)
	}
}
