// accel: state acceleration changes SearchAt results once SearchAtAnchored (which never runs the acceleration
// detection) has filled a state's transition row on the same cache.  Lean: Cx.Proofs.Dfa.accel_visible.
package main

import (
	"fmt"

	"github.com/coregx/coregex/dfa/lazy"
	"github.com/coregx/coregex/nfa"
)

func main() {
	for _, p := range []string{`[ab]*a[ab][ab]`, `(a|b)*a(a|b)(a|b)`} {
		n, _ := nfa.NewDefaultCompiler().Compile(p)
		d, _ := lazy.CompileWithConfig(n, lazy.DefaultConfig().WithPrefilter(false))
		target := []byte("abbab0bb")
		c := d.NewCache()
		for _, w := range []string{"aba", "abb", "abc", "ab0"} {
			d.SearchAtAnchored(c, []byte(w), 0)
		}
		fmt.Printf("%-20s SearchAt(%q,0): after 4 SearchAtAnchored calls on the same cache = %d, fresh cache = %d (reference 3)\n",
			p, target, d.SearchAt(c, target, 0), d.SearchAt(d.NewCache(), target, 0))
	}
}
