// The one way in which the answer of SearchReverseLimited depends on the cache (Cx.Proofs.DfaRevExamples.limited_cache_dependent,
// allowed by Cx.Proofs.DfaRev.searchReverseLimitedC_eq): pattern `ab`, reverse automaton nfa.Reverse, haystack "xxab",
// start 0, end 4, minStart 1.  The DFA loop ends in a dead-end match state exactly at the bound and answers -2
// (SearchReverseLimitedQuadratic); with a cache too small for a single state the NFA fallback (reverseWalk) returns the
// start 2 as soon as the thread set is empty.  Both answers are within the contract of the callers (-2 = ask another engine).
package main

import (
	"fmt"

	"github.com/coregx/coregex/dfa/lazy"
	"github.com/coregx/coregex/nfa"
)

func main() {
	n, _ := nfa.NewDefaultCompiler().Compile("ab")
	R := nfa.Reverse(n)
	for _, capb := range []int{2 << 20, 1} {
		cfg := lazy.DefaultConfig().WithCacheCapacity(capb).WithMaxCacheClears(0)
		cfg.BreakAtMatch = false
		d, _ := lazy.CompileWithConfig(R, cfg)
		fmt.Printf("cache capacity %7d: SearchReverseLimited(\"xxab\", start=0, end=4, minStart=1) = %d   SearchReverse(\"xxab\", 0, 4) = %d\n",
			capb, d.SearchReverseLimited(d.NewCache(), []byte("xxab"), 0, 4, 1), d.SearchReverse(d.NewCache(), []byte("xxab"), 0, 4))
	}
}
