// witness re-runs, on the real lazy DFA, the former deviations that Cx/Proofs/Dfa.lean now records as `_fixed` theorems
// (class_fixed, empty_at_end_fixed, wb_precheck_fixed(2), anchored_clear_fixed, wb_flags_fixed); every line must print the
// wanted value.
package main

import (
	"fmt"

	"github.com/coregx/coregex/dfa/lazy"
	"github.com/coregx/coregex/nfa"
)

func build(p string, capb, clears int) (*lazy.DFA, *lazy.DFACache) {
	n, err := nfa.NewDefaultCompiler().Compile(p)
	if err != nil {
		panic(err)
	}
	d, err := lazy.CompileWithConfig(n, lazy.DefaultConfig().WithCacheCapacity(capb).WithMaxCacheClears(clears).WithPrefilter(false))
	if err != nil {
		panic(err)
	}
	return d, d.NewCache()
}

func main() {
	{
		d, c := build(`abc`, 200, 2)
		fmt.Println(`abc      SearchAtAnchored("abc",0) cap=200 clears=2 (want 3):`, d.SearchAtAnchored(c, []byte("abc"), 0))
		d, c = build(`abc`, 2<<20, 5)
		fmt.Println(`abc      SearchAtAnchored("abc",0) default cache     (want 3):`, d.SearchAtAnchored(c, []byte("abc"), 0))
	}
	{
		d, c := build(`(?m)^a`, 2<<20, 5)
		fmt.Println(`(?m)^a   SearchAt("\n0a",0)  (want -1):`, d.SearchAt(c, []byte("\n0a"), 0))
		d, c = build(`(?m)^a`, 2<<20, 5)
		fmt.Println(`(?m)^a   SearchAt("0a",0)    (want -1):`, d.SearchAt(c, []byte("0a"), 0))
	}
	{
		d, c := build(`^`, 2<<20, 5)
		fmt.Println(`^        SearchAt("a",1)     (want -1):`, d.SearchAt(c, []byte("a"), 1))
	}
	{
		d, c := build(`\B`, 2<<20, 5)
		fmt.Println(`\B       IsMatch("  a")      (want true):`, d.IsMatch(c, []byte("  a")))
		fmt.Println(`\B       SearchAt("a",1)     (want -1):`, d.SearchAt(c, []byte("a"), 1))
	}
	{
		d, c := build(`\b`, 2<<20, 5)
		fmt.Println(`\b       SearchAt("a",1)     (want 1):`, d.SearchAt(c, []byte("a"), 1))
	}
	{
		d, c := build(`(?m)$`, 2<<20, 5)
		fmt.Println(`(?m)$    SearchAt("aaa\n",0) (want 3):`, d.SearchAt(c, []byte("aaa\n"), 0))
	}
	{
		d, c := build(`x*\b`, 2<<20, 5)
		fmt.Println(`x*\b     SearchAt("a\nx",2)  (want 3):`, d.SearchAt(c, []byte("a\nx"), 2))
		d, c = build(`a|\B`, 2<<20, 5)
		fmt.Println(`a|\B     SearchAt("aa",1)    (want 2):`, d.SearchAt(c, []byte("aa"), 1))
	}
	{
		d, c := build(`.\b.`, 2<<20, 5)
		fmt.Println(`.\b.     SearchAt("aa ",0)   (want 3):`, d.SearchAt(c, []byte("aa "), 0))
	}
}
