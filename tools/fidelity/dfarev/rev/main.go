// Fidelity check of the Lean model of the REVERSE lazy-DFA searches (Cx.Model.DfaRev) against the real dfa/lazy package.
//
// For every look-free pattern: compile the forward NFA with the compiler configuration of meta.CompileRegexp, build the
// reverse automata nfa.Reverse(N) and nfa.ReverseAnchored(N) and, exactly as meta does (lazy.DefaultConfig(),
// BreakAtMatch = false, lazy.CompileWithConfig), a reverse lazy DFA for each — in seven cache configurations (tiny
// caches force the NFA fallback `reverseWalk`, a determinization limit of 2 forces it in the middle of a scan).  A REAL
// session runs SearchReverse / SearchReverseLimited (every minStart in [0, end+1]) / IsMatchReverse for every
// (start, end) — end <= start and end > len included — on exhaustive short haystacks plus longer ones (4x unrolled block)
// on ONE cache, and the Lean model (`cxdrv`, command `dfa rev`) replays the session.
//
// Second part: the real reverse searches (default config, fresh cache) against the reference computed with package
// regexp: the least s in [start, end] such that the pattern matches exactly haystack[s:end].
package main

import (
	"bufio"
	"bytes"
	"encoding/hex"
	"flag"
	"fmt"
	"math/rand"
	"os"
	"os/exec"
	"regexp"
	"sort"
	"strconv"
	"strings"
	"sync"
	"unicode/utf8"

	"github.com/coregx/coregex/dfa/lazy"
	"github.com/coregx/coregex/nfa"
)

var (
	drv      = flag.String("drv", "../.lake/build/bin/cxdrv", "path to cxdrv")
	corpus   = flag.String("corpus", "/verif/harness/cmd/vcheck/corpus_patterns.txt", "quoted patterns, one per line")
	maxPat   = flag.Int("n", 300, "number of corpus patterns to sample (own patterns are always included)")
	seed     = flag.Int64("seed", 1, "sampling seed")
	workers  = flag.Int("j", 16, "parallel cxdrv processes")
	verbose  = flag.Int("v", 12, "mismatches to print per category")
	onlyPat  = flag.String("p", "", "run this single pattern only")
	showSess = flag.Bool("dump", false, "print the requests of mismatching sessions")
	batch    = flag.Int("batch", 24, "patterns per cxdrv batch")
)

var ownPatterns = []string{
	`a`, `ab`, `abc`, `a|ab`, `ab|a`, `a|b|c`, `abc|abd`, `a*`, `a+`, `a?`, `a*?`, `a+?`, `a??`, `(a|b)*c`, `(a|ab)(c|bcd)`,
	`(a*)*`, `(a*)+`, `(a|b)*?c`, `a*b`, `a*?b`, `a+?b`, `a+b+`, `a*b*`, `(ab)*`, `(ab)+?`, `(ab|a)*`, `(a|ab)*`, `(a|ab)*?c`,
	`[ab]`, `[ab]+`, `[^a]`, `[^a]*`, `[a-c]x`, `[a-c]+?x`, `x[a-c]*`, `.`, `.*`, `.+`, `.*?`, `.*a`, `.*?a`, `a.*b`, `a.*?b`,
	`a{2}`, `a{2,}`, `a{1,2}`, `a{1,2}?`, `(a{1,2}){2}`, `(?:a|b){2,3}c`, `aa*`, `a(b|c)*d`, `ab*c|ab*d`,
	`(?s).`, `(?s).*`, `(?s)a.b`, `a\nb`,
	`(a)(b)`, `(a)|(b)`, `(?:(a)|b)*`, `((a)*)*b`, `(a*)(a*)`, `(a*?)(a*)`, `(a*)(a*?)b`,
	`[[:alpha:]]+`, `\d+`, `\w+`, `\s*`, `\w+\s\w+`, `[0-9]+\.[0-9]+`, `foo|foobar`, `foobar|foo`, `(foo|foobar)baz`,
	`a|`, `|a`, `(|a)+`, `(a|)+`, `()`, `(?:)`, `a**`, `(a?)*`, `(a?)+b`, `(a|b?)*c`, `x(a|ab|abc)*y`,
	`é`, `[é]`, `é+`, `.é`, `[^é]`, `(?i)a`, `(?i)ab`, `(?i)[a-c]+`, `\x00`, `[\x00-\x02]+`, `(?s:.)`, `[^\n]`, `[^\n]*x`,
	`a.c`, `a..c`, `(a.)*c`, `a[^b]*b`, `"[^"]*"`, `(a|b)*abb`, `(a|b)*a(a|b)`, `(a|b)*a(a|b)(a|b)`, `(0|1)*1(0|1)(0|1)(0|1)`,
	`(?:xa|y[a-c])e`, `.*\.txt`, `[a-z]+z`, `.*connection.*?timeout`, `\w+@\w+\.com`, `(a|b)+c`, `x+y+z`, `.*b.c`, `(ab|cd)+e`,
}

type op struct {
	kind          byte // R L Q
	start, end, m int
	h             []byte
}

type session struct {
	pattern string
	variant string // Reverse | ReverseAnchored
	cfgName string
	kindTag string
	fresh   bool
	ops     []op
	real    []string
	req     string
}

func dumpNFA(n *nfa.NFA) string {
	var sb strings.Builder
	fmt.Fprintf(&sb, "%d/%d/", n.StartAnchored(), n.StartUnanchored())
	for i := 0; i < n.States(); i++ {
		if i > 0 {
			sb.WriteByte(';')
		}
		s := n.State(nfa.StateID(i))
		switch s.Kind() {
		case nfa.StateMatch:
			sb.WriteString("M")
		case nfa.StateByteRange:
			lo, hi, nx := s.ByteRange()
			fmt.Fprintf(&sb, "B.%d.%d.%d", lo, hi, nx)
		case nfa.StateSparse:
			sb.WriteString("S.")
			for j, t := range s.Transitions() {
				if j > 0 {
					sb.WriteByte('_')
				}
				fmt.Fprintf(&sb, "%d-%d-%d", t.Lo, t.Hi, t.Next)
			}
		case nfa.StateSplit:
			l, r := s.Split()
			fmt.Fprintf(&sb, "P.%d.%d", l, r)
		case nfa.StateEpsilon:
			fmt.Fprintf(&sb, "E.%d", s.Epsilon())
		case nfa.StateCapture:
			idx, st, nx := s.Capture()
			b := 0
			if st {
				b = 1
			}
			fmt.Fprintf(&sb, "C.%d.%d.%d", idx, b, nx)
		case nfa.StateFail:
			sb.WriteString("F")
		case nfa.StateLook:
			k, nx := s.Look()
			fmt.Fprintf(&sb, "L.%d.%d", int(k), nx)
		case nfa.StateRuneAny:
			fmt.Fprintf(&sb, "A.%d", s.RuneAny())
		case nfa.StateRuneAnyNotNL:
			fmt.Fprintf(&sb, "N.%d", s.RuneAnyNotNL())
		default:
			sb.WriteString("F")
		}
	}
	return sb.String()
}

func hexOf(b []byte) string {
	if len(b) == 0 {
		return "-"
	}
	return hex.EncodeToString(b)
}

// one representative per byte class of the FORWARD automaton (at most maxReps, preferring printable ones)
func alphabet(n *nfa.NFA, maxReps int) []byte {
	bc := n.ByteClasses()
	seen := map[byte]bool{}
	var reps []byte
	for _, b := range []byte("abcxyz019_ .\n") {
		c := bc.Get(b)
		if !seen[c] {
			seen[c] = true
			reps = append(reps, b)
		}
	}
	for b := 0; b < 256; b++ {
		c := bc.Get(byte(b))
		if !seen[c] {
			seen[c] = true
			reps = append(reps, byte(b))
		}
	}
	if len(reps) > maxReps {
		reps = reps[:maxReps]
	}
	return reps
}

func haystacks(rng *rand.Rand, alpha []byte) [][]byte {
	var hays [][]byte
	L := 4
	if len(alpha) > 3 {
		L = 3
	}
	var gen func(prefix []byte, l int)
	gen = func(prefix []byte, l int) {
		hays = append(hays, append([]byte(nil), prefix...))
		if l == 0 {
			return
		}
		for _, b := range alpha {
			gen(append(prefix, b), l-1)
		}
	}
	gen(nil, L)
	// longer ones: the unrolled block of SearchReverse needs at >= start+3
	for k := 0; k < 10; k++ {
		n := 5 + rng.Intn(7)
		h := make([]byte, n)
		for i := range h {
			h[i] = alpha[rng.Intn(len(alpha))]
		}
		hays = append(hays, h)
	}
	// class members that are not representatives (byte-class soundness)
	for k := 0; k < 5; k++ {
		n := 1 + rng.Intn(6)
		h := make([]byte, n)
		for i := range h {
			if rng.Intn(2) == 0 {
				h[i] = alpha[rng.Intn(len(alpha))]
			} else {
				h[i] = byte(rng.Intn(256))
			}
		}
		hays = append(hays, h)
	}
	return hays
}

func guard(f func() string) (res string) {
	defer func() {
		if r := recover(); r != nil {
			res = "panic"
		}
	}()
	return f()
}

func boolStr(b bool) string {
	if b {
		return "t"
	}
	return "f"
}

type cfgT struct {
	name   string
	capb   int
	clears int
	det    int
}

var cfgs = []cfgT{
	{"cap=2097152,clears=5,det=1000", 2 << 20, 5, 1000},
	{"cap=1,clears=0,det=1000", 1, 0, 1000},
	{"cap=1,clears=2,det=1000", 1, 2, 1000},
	{"cap=700,clears=0,det=1000", 700, 0, 1000},
	{"cap=700,clears=3,det=1000", 700, 3, 1000},
	{"cap=2500,clears=2,det=1000", 2500, 2, 1000},
	{"cap=2097152,clears=5,det=2", 2 << 20, 5, 2},
}

func runLean(lines []string) ([]string, error) {
	k := *workers
	if len(lines) < k {
		k = 1
	}
	parts := make([][]string, k)
	for i, l := range lines {
		parts[i%k] = append(parts[i%k], l)
	}
	res := make([][]string, k)
	errs := make([]error, k)
	var wg sync.WaitGroup
	for i := 0; i < k; i++ {
		wg.Add(1)
		go func(i int) {
			defer wg.Done()
			var in bytes.Buffer
			for _, l := range parts[i] {
				in.WriteString(l)
				in.WriteByte('\n')
			}
			cmd := exec.Command(*drv)
			cmd.Stdin = &in
			out, err := cmd.Output()
			if err != nil {
				errs[i] = err
				return
			}
			sc := bufio.NewScanner(bytes.NewReader(out))
			sc.Buffer(make([]byte, 1<<20), 1<<28)
			for sc.Scan() {
				res[i] = append(res[i], sc.Text())
			}
			if len(res[i]) != len(parts[i]) {
				errs[i] = fmt.Errorf("cxdrv answered %d lines for %d requests", len(res[i]), len(parts[i]))
			}
		}(i)
	}
	wg.Wait()
	out := make([]string, len(lines))
	for i := 0; i < k; i++ {
		if errs[i] != nil {
			return nil, errs[i]
		}
		for j, a := range res[i] {
			out[j*k+i] = a
		}
	}
	return out, nil
}

type stat struct{ total, agree int }

var (
	stats       = map[string]*stat{}
	printed     = map[string]int{}
	misPatterns = map[string]map[string]bool{}
)

type refStat struct {
	cases, rOK, lExact, lCut, lBad, qOK, cutNeedless int
}

var refStats = map[string]*refStat{}
var refPrinted = map[string]int{}

func isASCII(h []byte) bool {
	for _, b := range h {
		if b >= 0x80 {
			return false
		}
	}
	return true
}

type patInfo struct {
	pattern string
	variant string
	dump    string
	cls     string
}

func main() {
	flag.Parse()
	rng := rand.New(rand.NewSource(*seed))
	var patterns []string
	if *onlyPat != "" {
		patterns = []string{*onlyPat}
	} else {
		patterns = append(patterns, ownPatterns...)
		data, err := os.ReadFile(*corpus)
		if err == nil {
			var all []string
			for _, l := range strings.Split(string(data), "\n") {
				l = strings.TrimSpace(l)
				if l == "" {
					continue
				}
				p, err := strconv.Unquote(l)
				if err != nil {
					continue
				}
				all = append(all, p)
			}
			rng.Shuffle(len(all), func(i, j int) { all[i], all[j] = all[j], all[i] })
			patterns = append(patterns, all...)
		}
	}
	seenP := map[string]bool{}
	var good []string
	var fwds []*nfa.NFA
	skipped, withLook := 0, 0
	corpusTaken := 0
	for i, p := range patterns {
		if seenP[p] {
			continue
		}
		seenP[p] = true
		if i >= len(ownPatterns) && *onlyPat == "" && corpusTaken >= *maxPat {
			break
		}
		n, err := nfa.NewCompiler(nfa.CompilerConfig{UTF8: true, Anchored: false, DotNewline: false, MaxRecursionDepth: 100}).Compile(p)
		if err != nil || n.States() > 120 {
			skipped++
			continue
		}
		hasLook := false
		for i := 0; i < n.States(); i++ {
			if n.State(nfa.StateID(i)).Kind() == nfa.StateLook {
				hasLook = true
			}
		}
		if hasLook {
			withLook++
			continue
		}
		if _, err := regexp.Compile(p); err != nil {
			skipped++
			continue
		}
		if i >= len(ownPatterns) {
			corpusTaken++
		}
		good = append(good, p)
		fwds = append(fwds, n)
	}
	fmt.Printf("look-free patterns: %d (skipped %d, with look-around %d)\n", len(good), skipped, withLook)

	var infos []patInfo
	totalSessions := 0
	for b0 := 0; b0 < len(good); b0 += *batch {
		b1 := b0 + *batch
		if b1 > len(good) {
			b1 = len(good)
		}
		var sessions []*session
		for pi := b0; pi < b1; pi++ {
			p, fwd := good[pi], fwds[pi]
			alpha := alphabet(fwd, 3)
			hays := haystacks(rng, alpha)
			ref := regexp.MustCompile(`\A(?:` + p + `)\z`)
			for _, variant := range []string{"Reverse", "ReverseAnchored"} {
				var R *nfa.NFA
				if variant == "Reverse" {
					R = nfa.Reverse(fwd)
				} else {
					R = nfa.ReverseAnchored(fwd)
				}
				bc := R.ByteClasses()
				cls := make([]byte, 256)
				for b := 0; b < 256; b++ {
					cls[b] = bc.Get(byte(b))
				}
				info := patInfo{pattern: p, variant: variant, dump: dumpNFA(R), cls: hex.EncodeToString(cls)}
				infos = append(infos, info)
				for ci, cf := range cfgs {
					cfg := lazy.DefaultConfig().WithCacheCapacity(cf.capb).WithMaxCacheClears(cf.clears).WithDeterminizationLimit(cf.det)
					cfg.BreakAtMatch = false
					d, err := lazy.CompileWithConfig(R, cfg)
					if err != nil {
						fmt.Printf("COMPILE ERROR %q %s: %v\n", p, variant, err)
						continue
					}
					stride := d.AlphabetLen()
					mk := func(tag string, fresh bool, kinds string) *session {
						s := &session{pattern: p, variant: variant, cfgName: cf.name, kindTag: tag, fresh: fresh}
						c := d.NewCache()
						for _, h := range hays {
							h := h
							for end := 0; end <= len(h)+1; end++ {
								for start := 0; start <= end && start <= len(h); start++ {
									if end == len(h)+1 && start > 0 {
										continue
									}
									for _, k := range []byte(kinds) {
										start, end := start, end
										switch k {
										case 'R':
											if fresh {
												c = d.NewCache()
											}
											s.ops = append(s.ops, op{'R', start, end, 0, h})
											s.real = append(s.real, guard(func() string { return strconv.Itoa(d.SearchReverse(c, h, start, end)) }))
										case 'Q':
											if fresh {
												c = d.NewCache()
											}
											s.ops = append(s.ops, op{'Q', start, end, 0, h})
											s.real = append(s.real, guard(func() string { return boolStr(d.IsMatchReverse(c, h, start, end)) }))
										case 'L':
											for m := 0; m <= end+1; m++ {
												m := m
												if fresh {
													c = d.NewCache()
												}
												s.ops = append(s.ops, op{'L', start, end, m, h})
												s.real = append(s.real, guard(func() string { return strconv.Itoa(d.SearchReverseLimited(c, h, start, end, m)) }))
											}
										}
									}
								}
							}
						}
						var sb strings.Builder
						for i, o := range s.ops {
							if i > 0 {
								sb.WriteByte(';')
							}
							if fresh {
								sb.WriteString("X.0.-;")
							}
							if o.kind == 'L' {
								fmt.Fprintf(&sb, "L.%d.%d.%d.%s", o.start, o.end, o.m, hexOf(o.h))
							} else {
								fmt.Fprintf(&sb, "%c.%d.%d.%s", o.kind, o.start, o.end, hexOf(o.h))
							}
						}
						s.req = fmt.Sprintf("dfa rev %d %d %d %d %s %s %s", stride, cf.capb, cf.clears, cf.det, info.cls, info.dump, sb.String())
						return s
					}
					sessions = append(sessions, mk("SearchReverse", false, "R"))
					sessions = append(sessions, mk("SearchReverseLimited", false, "L"))
					sessions = append(sessions, mk("IsMatchReverse", false, "Q"))
					sessions = append(sessions, mk("mixed(R,L,Q on one cache)", false, "RLQ"))
					if ci == 0 || ci == 4 {
						sessions = append(sessions, mk("mixed(R,L,Q)", true, "RLQ"))
					}
					// ---- real reverse searches vs the regexp reference (default config, fresh cache) ----
					if ci == 0 {
						for _, h := range hays {
							class := variant + ", ASCII haystack"
							if !isASCII(h) {
								class = variant + ", well-formed UTF-8 haystack with multi-byte runes (spans may cut a rune)"
								if !utf8.Valid(h) {
									class = variant + ", ill-formed UTF-8 haystack"
								}
							}
							st := refStats[class]
							if st == nil {
								st = &refStat{}
								refStats[class] = st
							}
							for end := 1; end <= len(h); end++ {
								// acc[s] = the pattern matches exactly h[s:end]
								acc := make([]bool, end+1)
								for s := 0; s <= end; s++ {
									acc[s] = ref.Match(h[s:end])
								}
								for start := 0; start < end; start++ {
									want := -1
									for s := start; s <= end; s++ {
										if acc[s] {
											want = s
											break
										}
									}
									st.cases++
									gotR := d.SearchReverse(d.NewCache(), h, start, end)
									if gotR == want {
										st.rOK++
									} else if refPrinted["R"+class] < *verbose {
										refPrinted["R"+class]++
										fmt.Printf("REF-DEVIATION [%s] pattern %q hay=%q start=%d end=%d: SearchReverse=%d reference=%d\n", class, p, h, start, end, gotR, want)
									}
									gotQ := d.IsMatchReverse(d.NewCache(), h, start, end)
									if gotQ == (want >= 0) {
										st.qOK++
									} else if refPrinted["Q"+class] < *verbose {
										refPrinted["Q"+class]++
										fmt.Printf("REF-DEVIATION [%s] pattern %q hay=%q start=%d end=%d: IsMatchReverse=%v reference=%d\n", class, p, h, start, end, gotQ, want)
									}
									for m := 0; m <= end+1; m++ {
										gotL := d.SearchReverseLimited(d.NewCache(), h, start, end, m)
										switch {
										case gotL == want:
											st.lExact++
										case gotL == lazy.SearchReverseLimitedQuadratic && m > start:
											st.lCut++
										default:
											st.lBad++
											if refPrinted["L"+class] < *verbose {
												refPrinted["L"+class]++
												fmt.Printf("REF-DEVIATION [%s] pattern %q hay=%q start=%d end=%d minStart=%d: SearchReverseLimited=%d reference=%d\n", class, p, h, start, end, m, gotL, want)
											}
										}
									}
								}
							}
						}
					}
				}
			}
		}
		totalSessions += len(sessions)
		var reqs []string
		for _, s := range sessions {
			reqs = append(reqs, s.req)
		}
		ans, err := runLean(reqs)
		if err != nil {
			fmt.Println("cxdrv failed:", err)
			os.Exit(2)
		}
		for i, s := range sessions {
			key := s.variant + " / " + s.kindTag
			if s.fresh {
				key += " [fresh cache per call]"
			} else {
				key += " [one cache]"
			}
			st := stats[key]
			if st == nil {
				st = &stat{}
				stats[key] = st
			}
			parts := strings.Split(ans[i], ",")
			if s.fresh {
				var keep []string
				for _, p := range parts {
					if p != "x" {
						keep = append(keep, p)
					}
				}
				parts = keep
			}
			if len(parts) != len(s.ops) {
				fmt.Printf("BAD ANSWER for %q %s %s: %.80q\n", s.pattern, s.variant, s.cfgName, ans[i])
				st.total += len(s.ops)
				continue
			}
			firstBad := true
			for j, o := range s.ops {
				st.total++
				if parts[j] == s.real[j] {
					st.agree++
					continue
				}
				if misPatterns[key] == nil {
					misPatterns[key] = map[string]bool{}
				}
				misPatterns[key][s.pattern] = true
				if firstBad && printed[key] < *verbose {
					printed[key]++
					firstBad = false
					fmt.Printf("MISMATCH [%s] pattern %q %s call #%d %c start=%d end=%d minStart=%d hay=%q: real=%s model=%s\n",
						key, s.pattern, s.cfgName, j, o.kind, o.start, o.end, o.m, o.h, s.real[j], parts[j])
					if *showSess {
						fmt.Println("   ", s.req)
					}
				}
			}
		}
		fmt.Fprintf(os.Stderr, "batch %d-%d done\n", b0, b1)
	}

	var keys []string
	for k := range stats {
		keys = append(keys, k)
	}
	sort.Strings(keys)
	fmt.Printf("\nsessions: %d\n== model (cached, replaying the session) vs real reverse lazy DFA ==\n", totalSessions)
	tot, agr := 0, 0
	for _, k := range keys {
		st := stats[k]
		tot += st.total
		agr += st.agree
		fmt.Printf("%-70s calls=%9d agree=%9d mismatches=%5d (patterns %d)\n", k, st.total, st.agree, st.total-st.agree, len(misPatterns[k]))
	}
	fmt.Printf("TOTAL calls=%d agree=%d mismatches=%d\n", tot, agr, tot-agr)

	// ---- hypotheses of the theorems on every reverse automaton ----
	var hreqs []string
	for _, pi := range infos {
		hreqs = append(hreqs, "dfa hyps "+pi.dump)
		hreqs = append(hreqs, "dfa classcompat "+pi.cls+" "+pi.dump)
	}
	hans, err := runLean(hreqs)
	if err != nil {
		fmt.Println("cxdrv failed:", err)
		os.Exit(2)
	}
	nAut, lfnr, compat, disjoint := 0, 0, 0, 0
	for i, pi := range infos {
		hy := strings.Split(hans[2*i], ",")
		if len(hy) != 8 {
			fmt.Printf("BAD hyps answer for %q: %s\n", pi.pattern, hans[2*i])
			continue
		}
		nAut++
		if hy[1] == "true" && hy[2] == "true" {
			lfnr++
		} else {
			fmt.Printf("reverse automaton NOT look-free/rune-free: %q %s: %s\n", pi.pattern, pi.variant, hans[2*i])
		}
		if hy[3] == "true" {
			disjoint++
		}
		if hans[2*i+1] == "true,true" {
			compat++
		} else {
			fmt.Printf("CLASS-INCOMPATIBLE reverse automaton %q %s: %s\n", pi.pattern, pi.variant, hans[2*i+1])
		}
	}
	fmt.Printf("\nreverse automata: %d; lookFreeB && noRuneB: %d; classCompatB && classStepB on their real byte classes: %d; sparseDisjointB (NOT needed): %d\n",
		nAut, lfnr, compat, disjoint)

	fmt.Println("\n== real reverse searches (default config, fresh cache) vs regexp reference (least s in [start,end] with a match of exactly h[s:end]) ==")
	var rkeys []string
	for k := range refStats {
		rkeys = append(rkeys, k)
	}
	sort.Strings(rkeys)
	for _, k := range rkeys {
		st := refStats[k]
		fmt.Printf("%-100s (start,end) cases=%8d SearchReverse==ref %8d IsMatchReverse==ref %8d | SearchReverseLimited: exact %9d, -2 with minStart>start %9d, WRONG %d\n",
			k, st.cases, st.rOK, st.qOK, st.lExact, st.lCut, st.lBad)
	}
}
