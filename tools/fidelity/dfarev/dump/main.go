// dump prints, for each pattern given on the command line, the NFA in the wire format of Cx.Driver.parseNfa,
// the alphabet length of the lazy DFA and the byte-class map as ranges.
package main

import (
	"fmt"
	"os"
	"strings"

	"github.com/coregx/coregex/dfa/lazy"
	"github.com/coregx/coregex/nfa"
)

func main() {
	for _, p := range os.Args[1:] {
		n, err := nfa.NewDefaultCompiler().Compile(p)
		if err != nil {
			fmt.Println(p, "ERR", err)
			continue
		}
		var sb strings.Builder
		fmt.Fprintf(&sb, "%d/%d/", n.StartAnchored(), n.StartUnanchored())
		for i := 0; i < n.States(); i++ {
			if i > 0 {
				sb.WriteByte(';')
			}
			s := n.State(nfa.StateID(i))
			switch s.Kind() {
			case nfa.StateMatch:
				sb.WriteString("M")
			case nfa.StateByteRange:
				lo, hi, nx := s.ByteRange()
				fmt.Fprintf(&sb, "B.%d.%d.%d", lo, hi, nx)
			case nfa.StateSparse:
				sb.WriteString("S.")
				for j, t := range s.Transitions() {
					if j > 0 {
						sb.WriteByte('_')
					}
					fmt.Fprintf(&sb, "%d-%d-%d", t.Lo, t.Hi, t.Next)
				}
			case nfa.StateSplit:
				l, r := s.Split()
				fmt.Fprintf(&sb, "P.%d.%d", l, r)
			case nfa.StateEpsilon:
				fmt.Fprintf(&sb, "E.%d", s.Epsilon())
			case nfa.StateCapture:
				idx, st, nx := s.Capture()
				b := 0
				if st {
					b = 1
				}
				fmt.Fprintf(&sb, "C.%d.%d.%d", idx, b, nx)
			case nfa.StateFail:
				sb.WriteString("F")
			case nfa.StateLook:
				k, nx := s.Look()
				fmt.Fprintf(&sb, "L.%d.%d", int(k), nx)
			case nfa.StateRuneAny:
				fmt.Fprintf(&sb, "A.%d", s.RuneAny())
			case nfa.StateRuneAnyNotNL:
				fmt.Fprintf(&sb, "N.%d", s.RuneAnyNotNL())
			default:
				sb.WriteString("F")
			}
		}
		d, _ := lazy.CompileWithConfig(n, lazy.DefaultConfig().WithPrefilter(false))
		bc := n.ByteClasses()
		var cl strings.Builder
		start := 0
		for b := 1; b <= 256; b++ {
			if b == 256 || bc.Get(byte(b)) != bc.Get(byte(start)) {
				fmt.Fprintf(&cl, "[%d-%d]=%d ", start, b-1, bc.Get(byte(start)))
				start = b
			}
		}
		fmt.Printf("%q\n  nfa: %s\n  stride: %d classes: %s\n", p, sb.String(), d.AlphabetLen(), cl.String())
	}
}
