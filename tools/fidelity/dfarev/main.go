// Fidelity check of the Lean lazy-DFA model (Cx.Model.Dfa) against the real dfa/lazy package.
//
// For every pattern: compile the NFA with the real compiler, dump it (wire format of Cx.Driver.parseNfa) together
// with its byte-class map, run the REAL lazy DFA (several cache configurations, one cache reused over a whole
// session of calls) on short exhaustive haystacks plus a few longer ones at every start offset, and ask the Lean
// model (`cxdrv`, command `dfa run`) to replay the same session.  Where the model answers `G` (the code gives up
// and falls back to the NFA) the expected value is what the real Pike VM returns for that call.
// Additionally the real DFA and the uncached model are compared with the reference `btSearchAt` (`bt search`).
package main

import (
	"bufio"
	"bytes"
	"encoding/hex"
	"flag"
	"fmt"
	"math/rand"
	"os"
	"os/exec"
	"sort"
	"strconv"
	"strings"
	"sync"

	"github.com/coregx/coregex/dfa/lazy"
	"github.com/coregx/coregex/nfa"
)

var (
	drv      = flag.String("drv", "../.lake/build/bin/cxdrv", "path to cxdrv")
	corpus   = flag.String("corpus", "/verif/harness/cmd/vcheck/corpus_patterns.txt", "quoted patterns, one per line")
	maxPat   = flag.Int("n", 400, "number of corpus patterns to sample (own patterns are always included)")
	seed     = flag.Int64("seed", 1, "sampling seed")
	workers  = flag.Int("j", 16, "parallel cxdrv processes")
	verbose  = flag.Int("v", 12, "mismatches to print per category")
	onlyPat  = flag.String("p", "", "run this single pattern only")
	showSess = flag.Bool("dump", false, "print the requests of mismatching sessions")
)

var ownPatterns = []string{
	`a`, `ab`, `a|ab`, `ab|a`, `a|b|c`, `abc|abd`, `a*`, `a+`, `a?`, `a*?`, `a+?`, `a??`, `(a|b)*c`, `(a|ab)(c|bcd)`,
	`(a*)*`, `(a*)+`, `(a|b)*?c`, `a*b`, `a*?b`, `a+?b`, `a+b+`, `a*b*`, `(ab)*`, `(ab)+?`, `(ab|a)*`, `(a|ab)*`, `(a|ab)*?c`,
	`[ab]`, `[ab]+`, `[^a]`, `[^a]*`, `[a-c]x`, `[a-c]+?x`, `x[a-c]*`, `.`, `.*`, `.+`, `.*?`, `.*a`, `.*?a`, `a.*b`, `a.*?b`,
	`a{2}`, `a{2,}`, `a{1,2}`, `a{1,2}?`, `(a{1,2}){2}`, `(?:a|b){2,3}c`, `aa*`, `a(b|c)*d`, `ab*c|ab*d`,
	`^a`, `^a*`, `a$`, `^a$`, `^$`, `^`, `$`, `(?m)^a`, `(?m)a$`, `(?m)^$`, `(?m)^a$`, `(?m)^`, `(?m)$`, `\Aa`, `a\z`,
	`(?s).`, `(?s).*`, `(?s)a.b`, `a\nb`, `(?m)a$\nb`, `(?m)^a|b`, `^a|b`, `a|^b`, `a$|b`, `(?m)(^a|b)+`,
	`\b`, `\B`, `\ba`, `a\b`, `\Ba`, `a\B`, `\ba\b`, `\bab`, `a\bb`, `a\Bb`, `\b\b`, `\B\B`, `(\b|a)+`, `\b.\b`, `.\b.`, `.\B.`,
	`a\b|ab`, `(a|\b)b`, `x*\b`, `\bx*`, `\B|a`, `a|\B`,
	`\b^a`, `(?m)$^`, `(?m)$\n^`, `a$\b`, `\b$`, `(?m)^\b`, `(?m)\Ba$`, `(?m)^a*$`, `(?m)(a$\n)+b`, `\Aa\b`, `a\z|ab`, `(?m)^\B`,
	`(\ba|b)+$`, `(?m)(^|a)b`, `x*$`, `(?m)x*$`, `\bx+\b|\By`, `(?m)^(a|\b)\n`, `(?m)^.*$`, `\b\w+\b`, `(?m)^\w+$`, `\B\w\B`,
	`(a)(b)`, `(a)|(b)`, `(?:(a)|b)*`, `((a)*)*b`, `(a*)(a*)`, `(a*?)(a*)`, `(a*)(a*?)b`,
	`[[:alpha:]]+`, `\d+`, `\w+`, `\s*`, `\w+\s\w+`, `[0-9]+\.[0-9]+`, `foo|foobar`, `foobar|foo`, `(foo|foobar)baz`,
	`a|`, `|a`, `(|a)+`, `(a|)+`, `()`, `(?:)`, `a**`, `(a?)*`, `(a?)+b`, `(a|b?)*c`, `x(a|ab|abc)*y`,
	`é`, `[é]`, `é+`, `.é`, `[^é]`, `(?i)a`, `(?i)ab`, `(?i)[a-c]+`, `\x00`, `[\x00-\x02]+`, `\xff`, `(?s:.)`, `[^\n]`, `[^\n]*x`,
	`a.c`, `a..c`, `(a.)*c`, `a[^b]*b`, `"[^"]*"`, `(a|b)*abb`, `(a|b)*a(a|b)`, `(a|b)*a(a|b)(a|b)`, `(0|1)*1(0|1)(0|1)(0|1)`,
}

type op struct {
	kind byte // S A M I
	at   int
	h    []byte
}

type session struct {
	pattern string
	cfgName string
	kindTag string // which entry points the session mixes
	fresh   bool   // fresh cache for every call
	ops     []op
	real    []string // real results
	fall    []string // what the NFA fallback returns for that call
	req     string
}

type patInfo struct {
	pattern string
	dump    string
	cls     string
	stride  int
	hyps    string
}

func dumpNFA(n *nfa.NFA) string {
	var sb strings.Builder
	fmt.Fprintf(&sb, "%d/%d/", n.StartAnchored(), n.StartUnanchored())
	for i := 0; i < n.States(); i++ {
		if i > 0 {
			sb.WriteByte(';')
		}
		s := n.State(nfa.StateID(i))
		switch s.Kind() {
		case nfa.StateMatch:
			sb.WriteString("M")
		case nfa.StateByteRange:
			lo, hi, nx := s.ByteRange()
			fmt.Fprintf(&sb, "B.%d.%d.%d", lo, hi, nx)
		case nfa.StateSparse:
			sb.WriteString("S.")
			for j, t := range s.Transitions() {
				if j > 0 {
					sb.WriteByte('_')
				}
				fmt.Fprintf(&sb, "%d-%d-%d", t.Lo, t.Hi, t.Next)
			}
		case nfa.StateSplit:
			l, r := s.Split()
			fmt.Fprintf(&sb, "P.%d.%d", l, r)
		case nfa.StateEpsilon:
			fmt.Fprintf(&sb, "E.%d", s.Epsilon())
		case nfa.StateCapture:
			idx, st, nx := s.Capture()
			b := 0
			if st {
				b = 1
			}
			fmt.Fprintf(&sb, "C.%d.%d.%d", idx, b, nx)
		case nfa.StateFail:
			sb.WriteString("F")
		case nfa.StateLook:
			k, nx := s.Look()
			fmt.Fprintf(&sb, "L.%d.%d", int(k), nx)
		case nfa.StateRuneAny:
			fmt.Fprintf(&sb, "A.%d", s.RuneAny())
		case nfa.StateRuneAnyNotNL:
			fmt.Fprintf(&sb, "N.%d", s.RuneAnyNotNL())
		default:
			sb.WriteString("F")
		}
	}
	return sb.String()
}

func hexOf(b []byte) string {
	if len(b) == 0 {
		return "-"
	}
	return hex.EncodeToString(b)
}

// alphabet: one representative per byte class (at most maxReps, preferring printable ones), plus bytes that matter
// for look-around when the pattern has look states.
func alphabet(n *nfa.NFA, hasLook bool, maxReps int) []byte {
	bc := n.ByteClasses()
	seen := map[byte]bool{}
	var reps []byte
	for _, b := range []byte("abcxyz019_ .\n") {
		c := bc.Get(b)
		if !seen[c] {
			seen[c] = true
			reps = append(reps, b)
		}
	}
	for b := 0; b < 256; b++ {
		c := bc.Get(byte(b))
		if !seen[c] {
			seen[c] = true
			reps = append(reps, byte(b))
		}
	}
	if len(reps) > maxReps {
		reps = reps[:maxReps]
	}
	have := map[byte]bool{}
	for _, b := range reps {
		have[b] = true
	}
	if hasLook {
		for _, b := range []byte{'\n', 'a', ' '} {
			if !have[b] && len(reps) < maxReps+2 {
				have[b] = true
				reps = append(reps, b)
			}
		}
	}
	return reps
}

func haystacks(rng *rand.Rand, alpha []byte) [][]byte {
	var hays [][]byte
	L := 4
	if len(alpha) > 3 {
		L = 3
	}
	if len(alpha) > 6 {
		L = 2
	}
	var gen func(prefix []byte, l int)
	gen = func(prefix []byte, l int) {
		hays = append(hays, append([]byte(nil), prefix...))
		if l == 0 {
			return
		}
		for _, b := range alpha {
			gen(append(prefix, b), l-1)
		}
	}
	gen(nil, L)
	// longer ones: the unrolled block needs pos+3 < len
	for k := 0; k < 14; k++ {
		n := 5 + rng.Intn(9)
		h := make([]byte, n)
		for i := range h {
			h[i] = alpha[rng.Intn(len(alpha))]
		}
		hays = append(hays, h)
	}
	// class members that are not representatives (byte-class soundness)
	for k := 0; k < 6; k++ {
		n := 1 + rng.Intn(6)
		h := make([]byte, n)
		for i := range h {
			if rng.Intn(2) == 0 {
				h[i] = alpha[rng.Intn(len(alpha))]
			} else {
				h[i] = byte(rng.Intn(256))
			}
		}
		hays = append(hays, h)
	}
	return hays
}

func endStr(e int) string { return strconv.Itoa(e) }
func boolStr(b bool) string {
	if b {
		return "t"
	}
	return "f"
}

func guard(f func() string) (res string) {
	defer func() {
		if r := recover(); r != nil {
			res = "panic"
		}
	}()
	return f()
}

type cfgT struct {
	name   string
	capb   int
	clears int
}

var cfgs = []cfgT{
	{"cap=2097152,clears=5", 2 << 20, 5},
	{"cap=1,clears=0", 1, 0},
	{"cap=1,clears=2", 1, 2},
	{"cap=700,clears=0", 700, 0},
	{"cap=700,clears=3", 700, 3},
	{"cap=2500,clears=2", 2500, 2},
}

func runLean(lines []string) ([]string, error) {
	k := *workers
	if len(lines) < k {
		k = 1
	}
	parts := make([][]string, k)
	for i, l := range lines {
		parts[i%k] = append(parts[i%k], l)
	}
	res := make([][]string, k)
	errs := make([]error, k)
	var wg sync.WaitGroup
	for i := 0; i < k; i++ {
		wg.Add(1)
		go func(i int) {
			defer wg.Done()
			var in bytes.Buffer
			for _, l := range parts[i] {
				in.WriteString(l)
				in.WriteByte('\n')
			}
			cmd := exec.Command(*drv)
			cmd.Stdin = &in
			out, err := cmd.Output()
			if err != nil {
				errs[i] = err
				return
			}
			sc := bufio.NewScanner(bytes.NewReader(out))
			sc.Buffer(make([]byte, 1<<20), 1<<28)
			for sc.Scan() {
				res[i] = append(res[i], sc.Text())
			}
			if len(res[i]) != len(parts[i]) {
				errs[i] = fmt.Errorf("cxdrv answered %d lines for %d requests", len(res[i]), len(parts[i]))
			}
		}(i)
	}
	wg.Wait()
	out := make([]string, len(lines))
	for i := 0; i < k; i++ {
		if errs[i] != nil {
			return nil, errs[i]
		}
		for j, a := range res[i] {
			out[j*k+i] = a
		}
	}
	return out, nil
}

func main() {
	flag.Parse()
	rng := rand.New(rand.NewSource(*seed))
	var patterns []string
	if *onlyPat != "" {
		patterns = []string{*onlyPat}
	} else {
		patterns = append(patterns, ownPatterns...)
		data, err := os.ReadFile(*corpus)
		if err == nil {
			var all []string
			for _, l := range strings.Split(string(data), "\n") {
				l = strings.TrimSpace(l)
				if l == "" {
					continue
				}
				p, err := strconv.Unquote(l)
				if err != nil {
					continue
				}
				all = append(all, p)
			}
			rng.Shuffle(len(all), func(i, j int) { all[i], all[j] = all[j], all[i] })
			if len(all) > *maxPat {
				all = all[:*maxPat]
			}
			patterns = append(patterns, all...)
		}
	}
	seenP := map[string]bool{}
	var infos []*patInfo
	var sessions []*session
	type refCase struct {
		pat  *patInfo
		h    []byte
		at   int
		real string // real DFA SearchAt, default config, fresh cache
		realA string // real DFA SearchAtAnchored, default config, fresh cache
		realI string // real DFA IsMatchAt, default config, fresh cache
	}
	var refs []refCase
	skipped := 0
	for _, p := range patterns {
		if seenP[p] {
			continue
		}
		seenP[p] = true
		n, err := nfa.NewDefaultCompiler().Compile(p)
		if err != nil || n.States() > 120 {
			skipped++
			continue
		}
		bc := n.ByteClasses()
		cls := make([]byte, 256)
		for b := 0; b < 256; b++ {
			cls[b] = bc.Get(byte(b))
		}
		hasLook := false
		for i := 0; i < n.States(); i++ {
			if n.State(nfa.StateID(i)).Kind() == nfa.StateLook {
				hasLook = true
			}
		}
		pi := &patInfo{pattern: p, dump: dumpNFA(n), cls: hex.EncodeToString(cls)}
		alpha := alphabet(n, hasLook, 4)
		hays := haystacks(rng, alpha)
		pike := nfa.NewPikeVM(n)
		for ci, cf := range cfgs {
			cfg := lazy.DefaultConfig().WithCacheCapacity(cf.capb).WithMaxCacheClears(cf.clears).WithPrefilter(false)
			d, err := lazy.CompileWithConfig(n, cfg)
			if err != nil {
				continue
			}
			pi.stride = d.AlphabetLen()
			mk := func(tag string, fresh bool, kindsAll string) *session {
				s := &session{pattern: p, cfgName: cf.name, kindTag: tag, fresh: fresh}
				c := d.NewCache()
				// "A>SMI": a first pass of SearchAtAnchored calls over all haystacks, then a pass of the others
				passes := strings.Split(kindsAll, ">")
				for _, kinds := range passes {
					for _, h := range hays {
						h := h
						for at := 0; at <= len(h); at++ {
							at := at
							for _, k := range []byte(kinds) {
								if (k == 'M') && at > 0 {
									continue
								}
								if fresh {
									c = d.NewCache()
								}
								var real, fall string
								switch k {
								case 'S':
									real = guard(func() string { return endStr(d.SearchAt(c, h, at)) })
									fall = guard(func() string {
										_, e, ok := pike.SearchAt(h, at)
										if !ok {
											return "-1"
										}
										return endStr(e)
									})
								case 'A':
									real = guard(func() string { return endStr(d.SearchAtAnchored(c, h, at)) })
									// the anchored entry point falls back to the ANCHORED Pike VM search
									fall = guard(func() string {
										_, e, ok := pike.SearchAtAnchored(h, at)
										if !ok {
											return "-1"
										}
										return endStr(e)
									})
								case 'M':
									real = guard(func() string { return boolStr(d.IsMatch(c, h)) })
									fall = guard(func() string {
										s, e, ok := pike.SearchAt(h, 0)
										return boolStr(ok && s >= 0 && e >= s)
									})
								case 'I':
									real = guard(func() string { return boolStr(d.IsMatchAt(c, h, at)) })
									fall = guard(func() string {
										s, e, ok := pike.SearchAt(h, at)
										return boolStr(ok && s >= 0 && e >= s)
									})
								}
								s.ops = append(s.ops, op{k, at, h})
								s.real = append(s.real, real)
								s.fall = append(s.fall, fall)
							}
						}
					}
				}
				var sb strings.Builder
				for i, o := range s.ops {
					if i > 0 {
						sb.WriteByte(';')
					}
					if fresh {
						sb.WriteString("X.0.-;")
					}
					fmt.Fprintf(&sb, "%c.%d.%s", o.kind, o.at, hexOf(o.h))
				}
				s.req = fmt.Sprintf("dfa run %d %d %d %s %s %s", pi.stride, cf.capb, cf.clears, pi.cls, pi.dump, sb.String())
				return s
			}
			sessions = append(sessions, mk("SearchAt", false, "S"))
			sessions = append(sessions, mk("IsMatch/IsMatchAt", false, "MI"))
			sessions = append(sessions, mk("SearchAtAnchored", false, "A"))
			if ci == 0 || ci == 4 {
				sessions = append(sessions, mk("SearchAt", true, "S"))
				sessions = append(sessions, mk("IsMatch/IsMatchAt", true, "MI"))
				sessions = append(sessions, mk("SearchAtAnchored", true, "A"))
			}
			if ci == 0 || ci == 5 {
				sessions = append(sessions, mk("mixed(S,M,I,A on one cache)", false, "SMIA"))
				sessions = append(sessions, mk("anchored pass, then S,M,I (acceleration)", false, "A>SMI"))
			}
			if ci == 0 {
				for _, h := range hays {
					for at := 0; at <= len(h); at++ {
						h, at := h, at
						refs = append(refs, refCase{pi, h, at,
							guard(func() string { return endStr(d.SearchAt(d.NewCache(), h, at)) }),
							guard(func() string { return endStr(d.SearchAtAnchored(d.NewCache(), h, at)) }),
							guard(func() string { return boolStr(d.IsMatchAt(d.NewCache(), h, at)) })})
					}
				}
			}
		}
		infos = append(infos, pi)
	}
	fmt.Printf("patterns: %d compiled (%d skipped), sessions: %d\n", len(infos), skipped, len(sessions))

	// ---- model vs real ----
	var reqs []string
	for _, s := range sessions {
		reqs = append(reqs, s.req)
	}
	ans, err := runLean(reqs)
	if err != nil {
		fmt.Println("cxdrv failed:", err)
		os.Exit(2)
	}
	type stat struct{ total, agree, gaveUp, gaveUpAgree int }
	stats := map[string]*stat{}
	printed := map[string]int{}
	misPatterns := map[string]map[string]bool{}
	for i, s := range sessions {
		key := s.kindTag
		if s.fresh {
			key += " [fresh cache per call]"
		} else {
			key += " [one cache]"
		}
		st := stats[key]
		if st == nil {
			st = &stat{}
			stats[key] = st
		}
		parts := strings.Split(ans[i], ",")
		if s.fresh {
			var keep []string
			for _, p := range parts {
				if p != "x" {
					keep = append(keep, p)
				}
			}
			parts = keep
		}
		if len(parts) != len(s.ops) {
			fmt.Printf("BAD ANSWER for %q %s: %q\n", s.pattern, s.cfgName, ans[i])
			continue
		}
		firstBad := true
		for j, o := range s.ops {
			st.total++
			want := parts[j]
			if want == "G" {
				st.gaveUp++
				want = s.fall[j]
				if want == s.real[j] {
					st.gaveUpAgree++
				}
			}
			if want == s.real[j] {
				st.agree++
				continue
			}
			if misPatterns[key] == nil {
				misPatterns[key] = map[string]bool{}
			}
			misPatterns[key][s.pattern] = true
			if firstBad && printed[key] < *verbose {
				printed[key]++
				firstBad = false
				fmt.Printf("MISMATCH [%s] pattern %q %s call #%d %c at=%d hay=%q: real=%s model=%s (fallback=%s)\n",
					key, s.pattern, s.cfgName, j, o.kind, o.at, o.h, s.real[j], parts[j], s.fall[j])
				if *showSess {
					fmt.Println("   ", s.req)
				}
			}
		}
	}
	var keys []string
	for k := range stats {
		keys = append(keys, k)
	}
	sort.Strings(keys)
	fmt.Println("\n== model (cached, replaying the session) vs real lazy DFA ==")
	for _, k := range keys {
		st := stats[k]
		fmt.Printf("%-58s calls=%7d agree=%7d mismatches=%5d (patterns %d)  model-gave-up=%d (fallback agrees %d)\n",
			k, st.total, st.agree, st.total-st.agree, len(misPatterns[k]), st.gaveUp, st.gaveUpAgree)
	}

	// ---- real DFA (default config, fresh cache) and uncached model vs reference ----
	var rreqs []string
	for _, r := range refs {
		rreqs = append(rreqs, fmt.Sprintf("bt search %d %s %s", r.at, hexOf(r.h), r.pat.dump))
		rreqs = append(rreqs, fmt.Sprintf("dfa search %d %s %s", r.at, hexOf(r.h), r.pat.dump))
		rreqs = append(rreqs, fmt.Sprintf("dfa btfirst %d %s %s", r.at, hexOf(r.h), r.pat.dump))
	}
	var hreqs []string
	for _, pi := range infos {
		hreqs = append(hreqs, "dfa hyps "+pi.dump)
		hreqs = append(hreqs, "dfa classcompat "+pi.cls+" "+pi.dump)
		hreqs = append(hreqs, "dfa anchoredhead "+pi.dump)
	}
	hans, err := runLean(hreqs)
	if err != nil {
		fmt.Println("cxdrv failed:", err)
		os.Exit(2)
	}
	lookFree, lfAll, lfCompat := 0, 0, 0
	lookAround, laAll, laCompat := 0, 0, 0
	anchoredN, anchoredHead := 0, 0
	for i, pi := range infos {
		pi.hyps = hans[3*i]
		hy := strings.Split(pi.hyps, ",")
		if len(hy) != 8 {
			continue
		}
		if hy[7] == "true" {
			anchoredN++
			if hans[3*i+2] == "true" {
				anchoredHead++
			} else {
				fmt.Printf("ALWAYS-ANCHORED automaton without \\A head state: %q\n", pi.pattern)
			}
		}
		// hy[7] (alwaysAnchored) is replaced by the stronger decidable anchoredHeadB for the theorem's hypothesis
		if hy[7] == "true" && hans[3*i+2] != "true" {
			hy[7] = "false"
			pi.hyps = strings.Join(hy, ",")
		}
		allHyps := hy[0] == "true" && hy[2] == "true" && hy[3] == "true" && (hy[4] == "true" || hy[7] == "true")
		if hy[1] == "true" {
			lookFree++
			if allHyps {
				lfAll++
			}
			if hans[3*i+1] == "true,true" {
				lfCompat++
			} else {
				fmt.Printf("CLASS-INCOMPATIBLE look-free pattern %q: %s\n", pi.pattern, hans[3*i+1])
			}
		} else {
			lookAround++
			if allHyps {
				laAll++
			}
			if hans[3*i+1] == "true,true" {
				laCompat++
			} else {
				fmt.Printf("CLASS-INCOMPATIBLE look-around pattern %q: %s\n", pi.pattern, hans[3*i+1])
			}
		}
	}
	fmt.Printf("\nlook-free NFAs: %d; of these wf+noRune+sparseDisjoint+(prefixOK|anchored): %d; classCompatB and classStepB (real byte classes): %d\n", lookFree, lfAll, lfCompat)
	fmt.Printf("always-anchored NFAs: %d; of these anchoredHeadB (start state is \\A): %d\n", anchoredN, anchoredHead)
	fmt.Printf("NFAs with look-around: %d; of these wf+noRune+sparseDisjoint+(prefixOK|anchored): %d; classCompatB and classStepB (real byte classes, incl. \\n / word-byte separation): %d\n", lookAround, laAll, laCompat)
	rans, err := runLean(rreqs)
	if err != nil {
		fmt.Println("cxdrv failed:", err)
		os.Exit(2)
	}
	type rstat struct{ total, realOK, modelOK, realAOK, realIOK int }
	rstats := map[string]*rstat{}
	devPat := map[string]map[string]bool{}
	rprinted := map[string]int{}
	devPat2 := map[string]bool{}
	modelDevLt := 0
	for i, r := range refs {
		ref := rans[3*i]
		if ref == "nil" {
			ref = "-1"
		} else {
			ref = ref[strings.IndexByte(ref, ',')+1:]
		}
		model := rans[3*i+1]
		refA := rans[3*i+2]
		hy := strings.Split(r.pat.hyps, ",")
		class := "other"
		if len(hy) == 8 {
			theoremHyps := hy[0] == "true" && hy[2] == "true" && hy[3] == "true" && (hy[4] == "true" || hy[7] == "true")
			kind := "look-free"
			switch {
			case hy[1] == "true":
			case hy[5] == "true":
				kind = "has \\b or \\B"
			default:
				kind = "has ^ $ \\A \\z only"
			}
			switch {
			case theoremHyps && hy[7] != "true":
				class = "theorem (b) hypotheses hold (prefixOK), " + kind
			case theoremHyps:
				class = "theorem (b) hypotheses hold (anchoredHead), " + kind
			default:
				class = "hypotheses fail (rune states / overlapping sparse), " + kind
			}
		}
		st := rstats[class]
		if st == nil {
			st = &rstat{}
			rstats[class] = st
		}
		st.total++
		if r.real == ref {
			st.realOK++
		}
		if r.realA == refA {
			st.realAOK++
		} else if rprinted["A"+class] < *verbose {
			rprinted["A"+class]++
			fmt.Printf("ANCHORED-DEVIATION [%s] pattern %q at=%d hay=%q: real SearchAtAnchored=%s reference btFirst=%s\n", class, r.pat.pattern, r.at, r.h, r.realA, refA)
		}
		if r.realI == boolStr(ref != "-1") {
			st.realIOK++
		} else if rprinted["I"+class] < *verbose {
			rprinted["I"+class]++
			fmt.Printf("ISMATCH-DEVIATION [%s] pattern %q at=%d hay=%q: real IsMatchAt=%s reference=%s\n", class, r.pat.pattern, r.at, r.h, r.realI, ref)
		}
		if model == ref || model == "G" {
			st.modelOK++
		}
		if model != ref && model != "G" && r.at < len(r.h) {
			k := "uncached-model(at<len) " + class
			if !devPat2[k+r.pat.pattern] && rprinted[k] < *verbose {
				rprinted[k]++
				fmt.Printf("MODEL-DEVIATION [%s] pattern %q at=%d hay=%q: uncached model end=%s reference end=%s (real %s)\n",
					class, r.pat.pattern, r.at, r.h, model, ref, r.real)
			}
			devPat2[k+r.pat.pattern] = true
			modelDevLt++
		}
		if r.real != ref {
			if devPat[class] == nil {
				devPat[class] = map[string]bool{}
			}
			if !devPat[class][r.pat.pattern] && rprinted[class] < *verbose {
				rprinted[class]++
				fmt.Printf("DEVIATION [%s] pattern %q at=%d hay=%q: real DFA end=%s reference end=%s (uncached model %s)\n",
					class, r.pat.pattern, r.at, r.h, r.real, ref, model)
			}
			devPat[class][r.pat.pattern] = true
		}
	}
	fmt.Printf("\nuncached per-byte model != reference with at < len: %d cases\n", modelDevLt)
	fmt.Println("\n== SearchAt, default config, fresh cache: real DFA / uncached model vs reference btSearchAt (end) ==")
	var rkeys []string
	for k := range rstats {
		rkeys = append(rkeys, k)
	}
	sort.Strings(rkeys)
	for _, k := range rkeys {
		st := rstats[k]
		fmt.Printf("%-62s cases=%7d SearchAt real==ref %7d (deviating patterns %d) model==ref %7d | SearchAtAnchored real==btFirst %7d | IsMatchAt real==ref %7d\n",
			k, st.total, st.realOK, len(devPat[k]), st.modelOK, st.realAOK, st.realIOK)
	}
}
