// Throw-away fidelity check: the Lean model of Cx.Model.Fast (through cxdrv) vs the real Go functions
// around the fixes (ExtractCharClassRanges / isValidCompositePart / anchored literal / BranchDispatcher).
// `go run .` runs everything, `go run . bd` only the BranchDispatcher part, `go run . fb` only the first-byte filter (fb.go).
package main

import (
	"bufio"
	"bytes"
	"encoding/hex"
	"fmt"
	"os"
	"os/exec"
	"regexp"
	"regexp/syntax"
	"sort"
	"strings"

	"github.com/coregx/coregex/meta"
	"github.com/coregx/coregex/nfa"
)

func ast(re *syntax.Regexp) string {
	var nodes []string
	var walk func(r *syntax.Regexp)
	walk = func(r *syntax.Regexp) {
		fl := 0
		if r.Flags&syntax.NonGreedy != 0 {
			fl |= 1
		}
		if r.Flags&syntax.FoldCase != 0 {
			fl |= 2
		}
		rs := make([]string, len(r.Rune))
		for i, x := range r.Rune {
			rs[i] = fmt.Sprint(int(x))
		}
		nodes = append(nodes, fmt.Sprintf("%d/%d/%d/%s/%d/%d", int(r.Op), fl, len(r.Sub), strings.Join(rs, "."), r.Min, r.Max))
		for _, s := range r.Sub {
			walk(s)
		}
	}
	walk(re)
	return strings.Join(nodes, ",")
}

func hx(b []byte) string {
	if len(b) == 0 {
		return "-"
	}
	return hex.EncodeToString(b)
}

func tbl(t *[256]bool) string {
	if t == nil {
		return "-"
	}
	out := make([]byte, 32)
	for b := 0; b < 256; b++ {
		if t[b] {
			out[b/8] |= 1 << (b % 8)
		}
	}
	return hex.EncodeToString(out)
}

func span(s, e int, ok bool) string {
	if !ok {
		return "nil"
	}
	return fmt.Sprintf("%d,%d", s, e)
}

type pat struct {
	p     string
	alpha string // haystack alphabet
	group string
}

var pats = []pat{
	// ---- (1) char-class searcher: greedy / lazy / (?U) / star / non-ASCII / fold
	{`[a-c]+`, "ab1 ", "ccs"}, {`[a-c]+?`, "ab1 ", "ccs"}, {`(?U)[a-c]+`, "ab1 ", "ccs"}, {`(?U)[a-c]+?`, "ab1 ", "ccs"},
	{`\d+`, "ab1 ", "ccs"}, {`\d+?`, "ab1 ", "ccs"}, {`\w+`, "ab1 _", "ccs"}, {`\w+?`, "ab1 _", "ccs"},
	{`[a-c]*`, "ab1 ", "ccs"}, {`[a-c]*?`, "ab1 ", "ccs"}, {`[a-c]{1,}`, "ab1 ", "ccs"}, {`[a-c]{1,}?`, "ab1 ", "ccs"},
	{`[a-b\x{e9}]+`, "ab\xc3\xa9\xe9", "ccs"}, {`[a-b\x{e9}]+?`, "ab\xc3\xa9\xe9", "ccs"}, {`[a-bя]+`, "ab\xd1\x8f", "ccs"},
	{`(?i)[a-c]+`, "abAB1", "ccs"}, {`(?i)[a-c]+?`, "abAB1", "ccs"}, {`(?s)[^a]+`, "ab\n1", "ccs"}, {`[\x00-\x7f]+?`, "ab\n\xc3", "ccs"},
	{`([a-c])+`, "ab1 ", "ccs"}, {`a+`, "ab1 ", "ccs"}, {`a+?`, "ab1 ", "ccs"},
	// ---- (2) composite: greedy / lazy parts / {0} / {0,0} / {n,m} / Latin-1 / non-ASCII / fold
	{`[a-c]+[0-9]+`, "ab1 2", "comp"}, {`[a-c]+[0-9]+?`, "ab1 2", "comp"}, {`[a-c]+?[0-9]+`, "ab1 2", "comp"}, {`[a-c]*?[0-9]?`, "ab1 2", "comp"},
	{`(?U)[a-c]+[0-9]+`, "ab1 2", "comp"}, {`(?U)[a-c]+?[0-9]+?`, "ab1 2", "comp"}, {`[a-c]??[0-9]`, "ab1 2", "comp"}, {`[a-c]{1,2}?[0-9]`, "ab1 2", "comp"},
	{`[ab]{0}[bc]+`, "abc1", "comp"}, {`[ab]{0,0}[bc]+`, "abc1", "comp"}, {`[bc]+[ab]{0}`, "abc1", "comp"}, {`[ab]{0,1}[bc]+`, "abc1", "comp"},
	{`[ab]{0,}[bc]+`, "abc1", "comp"}, {`[ab]{2}[bc]+`, "abc1", "comp"}, {`[ab]{1,2}[bc]{2,}`, "abc1", "comp"}, {`[ab]{0}?[bc]+`, "abc1", "comp"},
	{`[a-b\x{e9}]+[0-9]+`, "a1\xc3\xa9\xe9", "comp"}, {`[a-b]+[0-9\x{e9}]+`, "a1\xc3\xa9\xe9", "comp"}, {`[a-b\x{e9}][0-9]+`, "a1\xc3\xa9\xe9", "comp"},
	{`[a-b\x{ff}]*[0-9]`, "a1\xc3\xbf\xff", "comp"}, {`[a-bя]+[0-9]+`, "a1\xd1\x8f", "comp"}, {`[a-b\x{100}]+[0-9]+`, "a1\xc4\x80", "comp"},
	{`[\x00-\x7f]+[0-9]`, "a1\n\xc3", "comp"}, {`[\x00-\x80]+[0-9]`, "a1\xc2\x80", "comp"}, {`[^a]+[0-9]`, "a1\n\xc3\xa9", "comp"},
	{`(?i)[a-b]+[0-9]+`, "aA1k", "comp"}, {`(?i)[k]+[0-9]+`, "kK1\xe2\x84\xaa", "comp"}, {`\w+\s\d+`, "a 1_", "comp"}, {`\w+?\s\d+`, "a 1_", "comp"},
	{`[ab][bc]`, "abc1", "comp"}, {`[ab]+[bc]+[cd]?`, "abcd", "comp"}, {`[ab]+[bc]+?[cd]?`, "abcd", "comp"}, {`[ab]+x`, "abx1", "comp"}, {`([ab]+)[bc]+`, "abc1", "comp"},
	// ---- (3) anchored literal: (?i), (?s), (?m), Latin-1 / non-ASCII literal, class bridge (ASCII, Latin-1, with \n), \n in haystack
	{`^a.*b$`, "ab\nx", "anch"}, {`(?s)^a.*b$`, "ab\nx", "anch"}, {`^a.+b$`, "ab\nx", "anch"}, {`(?s)^a.+b$`, "ab\nx", "anch"},
	{`^.*b$`, "ab\nx", "anch"}, {`(?s)^.*b$`, "ab\nx", "anch"}, {`\Aa.*b\z`, "ab\nx", "anch"}, {`(?m)^a.*b$`, "ab\nx", "anch"},
	{`(?i)^a.*b$`, "abAB\n", "anch"}, {`(?i)^.*b$`, "abAB\n", "anch"}, {`^(?i:a).*b$`, "abAB\n", "anch"}, {`^a.*(?i:b)$`, "abAB\n", "anch"}, {`(?i)^1.*2$`, "12a\n", "anch"},
	{`^.*\x{e9}$`, "a\xc3\xa9\xe9\n", "anch"}, {`^\x{e9}.*a$`, "a\xc3\xa9\xe9\n", "anch"}, {`^.*я$`, "a\xd1\x8f\n", "anch"}, {`^.*\x{ff}a$`, "a\xc3\xbf\xff", "anch"}, {`^.*\x{7f}$`, "a\x7f\n", "anch"}, {`^.*\x{80}$`, "a\xc2\x80", "anch"},
	{`^a.*[bc]+x$`, "abx\n", "anch"}, {`(?s)^a.*[bc]+x$`, "abx\n", "anch"}, {`^a.+[bc]+x$`, "abx\n", "anch"}, {`^a.*[b\n]+x$`, "abx\n", "anch"}, {`^a.+[b\n]+x$`, "abx\n", "anch"}, {`^.*\s+x$`, "a x\n", "anch"},
	{`^a.*[b\x{e9}]+x$`, "abx\xc3\xa9\xe9", "anch"}, {`^a.*[bя]+x$`, "abx\xd1\x8f", "anch"}, {`^a.*[^b]+x$`, "abx\n", "anch"}, {`(?i)^a.*[bc]+x$`, "abxB", "anch"}, {`^a.*(?i:[bc]+)x$`, "abxB", "anch"},
	{`^a.*?b$`, "ab\nx", "anch"}, {`^a.*[bc]*x$`, "abx\n", "anch"}, {`^a.*b.*c$`, "abc\n", "anch"}, {`^ab.*cd$`, "abcd\n", "anch"}, {`^a(?s:.)*b$`, "ab\nx", "anch"}, {`^a[^\n]*b$`, "ab\nx", "anch"},
}

type req struct {
	line, want, kind, pat string
}

// reqHooks[i]: the answer to request i is handed over instead of being compared with `want`
var reqHooks = map[int]func(ans string){}

func hays(alpha string, L int) [][]byte {
	var out [][]byte
	al := []byte(alpha)
	var gen func(pre []byte, l int)
	gen = func(pre []byte, l int) {
		out = append(out, append([]byte(nil), pre...))
		if l == 0 {
			return
		}
		for _, b := range al {
			gen(append(pre, b), l-1)
		}
	}
	gen(nil, L)
	return out
}

// ---- BranchDispatcher -------------------------------------------------------------------------------------------

var bdSeeds = []string{`^(foo|bar|baz|qux)`, `^(\d+|UUID|hex)`, `^(alpha|beta|gamma|delta)`, `^(\d+|UUID)`}

// bdPatterns: the pinned patterns and their mutations (deduplicated, parseable ones only).
func bdPatterns() []string {
	var out []string
	seen := map[string]bool{}
	add := func(q string) {
		if seen[q] {
			return
		}
		if _, err := syntax.Parse(q, syntax.Perl); err != nil {
			return
		}
		seen[q] = true
		out = append(out, q)
	}
	for _, p := range bdSeeds {
		inner := p[2 : len(p)-1] // the alternation text
		add(p)
		// trailing / leading parts, flags, anchors
		for _, t := range []string{"e", `\b`, "$", "?", "+", "*", "{2}", `\z`, "()", "(?:)", "x{0}"} {
			add(p + t)
		}
		for _, f := range []string{"(?i)", "(?U)", "(?m)", "(?s)", "(?i)(?U)", `\b`, "x", `\A`, "^"} {
			add(f + p)
		}
		add(`\A(` + inner + `)`)
		add(`(?m)\A(` + inner + `)`)
		add(`^(?:` + inner + `)`)
		add(`^((` + inner + `))`)
		add(`^(?:(` + inner + `))`)
		add(`^((?:(((` + inner + `)))))`)
		add(`(^(` + inner + `))`)
		add(`^(?P<n>` + inner + `)`)
		add(`^(` + inner + `)(` + inner + `)`)
		add(`(` + inner + `)`)
		add(inner)
		// empty / optional / overlapping / nested branches
		for _, b := range []string{"", "x?", "x*", "x{0}", "x{0,0}", "x{0}y", "(?:)", "()", "foo2", "f", "[f-g]x", "[^a]", ".", "xy|xz", "(?:xy|xz)", "(x|y)", "x+", "x+y", "x+?", "x*y", "xy+", "xy*", "xy?", "xy??",
			"x{2}", "x{2}?", "x{2,3}", "x{2,3}?", "x{2,}", "x{2,}y", "(?:x{2}){3}", "(?:x{1}){3}", "(?:x{1})+", "(?:x?)+", "(x)+", "((x))+y", "(?:xy)+", "(?:xy){2}", "[xy]", "[xy]+", "[xy]{1,2}z", "[x-z]{3}", "[xyé]", "[x-é]+", "[[:alpha:]]",
			"é", "éa", "aé", "日本", "日+", `\x{fffd}`, `\x{e9}+`, `\x{10ffff}`, `\x{80}`, `\x{7f}`, "(?i:x)", "(?i:1)", "(?i:1é)", "(?i:1€)", "(?i:k)", "(?i:ǆ)", "(?i:1)+", "(?i:[12])", "(?i:[xy])",
			`x\b`, `\bx`, "x$", "^x", `(?s:.)`, `\d`, `\D`, `\s+`, `\w+`, `\W`, `\n`, `\x00`, `[\x00-\x09]+`, "x|y", "x|", "|"} {
			add(`^(` + inner + `|` + b + `)`)
		}
		add(`^(|` + inner + `)`)
		add(`^(` + inner + `|)`)
		// mutations of the repetition
		for _, r := range []string{`\d+?`, `\d*`, `\d?`, `\d{2}`, `\d{2,3}`, `\d{2,}`, `\d{0}`, `\d{0,0}x`, `\d{2}?`, `\d{1,2}?`, `[0-9a-f]+`, `\d+x`, `x\d+`, `x\d*`, `x\d?`, `(\d)+`, `(?:\d)+`, `(?:\d\d)+`, `\d+\d`, `\d\d+`,
			`\d{2}\d+`, `\d+\d{0}`, `\d+(?:)`, `\d+()`, `(\d+)`, `((\d)+)`, `[^a]+`, `\d+|\d`, `[0-9é]+`, `[\d]{1,3}`, `\d{3,1000}`, `\d{1000}`, `(?i:\d+)`, `(?U:\d+)`, `(?U:\d+?)`} {
			add(strings.Replace(p, `\d+`, r, 1))
		}
		// mutations of a literal branch
		for _, r := range []string{"fo+", "f+oo", "(f)(oo)", "f(?:o)o", "f(?:oo|ab)", "[fF]oo", "f[o0]{2}", "f[a-c]x{2,3}", "FOO", "(?i:foo)", "fo(?i:o)", "fo{2}", "fo{0}o", "f.o", `f\.o`, "foo|fab", "é", "aé"} {
			add(strings.Replace(p, "foo", r, 1))
			add(strings.Replace(p, "UUID", r, 1))
		}
	}
	// branch-count limits: 127 vs 128 branches with pairwise distinct first bytes
	mk := func(n int) string {
		var bs []string
		for i := 0; i < n; i++ {
			if i < 126 {
				bs = append(bs, fmt.Sprintf(`\x%02x0`, i+1))
			} else if i == 126 {
				bs = append(bs, "é0")
			} else {
				bs = append(bs, "日0")
			}
		}
		return `^(` + strings.Join(bs, "|") + `)`
	}
	add(mk(127))
	add(mk(128))
	add(`^(a0|b1)`)
	add(`^(a0)`)
	add(`(?i)^(1|2)`)
	add(`(?i)^(12|3€)`)
	add(`(?i)^(12|3é)`)
	return out
}

// bdHays: exhaustive short haystacks over the pattern's own bytes + '\n' + C3 A9 FF, plus words of the pattern.
func bdHays(p string) [][]byte {
	var al []byte
	for _, c := range []byte(p) {
		if (c >= 'a' && c <= 'z' || c >= 'A' && c <= 'Z' || c >= '0' && c <= '9') && !bytes.Contains(al, []byte{c}) {
			al = append(al, c)
		}
	}
	special := []byte{'\n', 0xC3, 0xA9, 0xFF}
	seen := map[string]bool{}
	var out [][]byte
	addH := func(h []byte) {
		if !seen[string(h)] {
			seen[string(h)] = true
			out = append(out, append([]byte(nil), h...))
		}
	}
	a1 := al
	if len(a1) > 8 {
		a1 = a1[:8]
	}
	for _, h := range hays(string(a1)+string(special), 3) {
		addH(h)
	}
	a2 := al
	if len(a2) > 3 {
		a2 = a2[:3]
	}
	if !bytes.Contains(a2, []byte{'1'}) {
		a2 = append(append([]byte(nil), a2...), '1')
	}
	for _, h := range hays(string(a2)+string(special), 4) {
		addH(h)
	}
	// words: maximal alphanumeric runs of the pattern and simple variations
	var words []string
	cur := ""
	for _, r := range p + "|" {
		if r >= 'a' && r <= 'z' || r >= 'A' && r <= 'Z' || r >= '0' && r <= '9' || r > 0x7f {
			cur += string(r)
		} else if cur != "" {
			words = append(words, cur)
			cur = ""
		}
	}
	words = append(words, "123", "1", "12x", "bar", "baz", "UUID", "hex32", "x", "xx", "xxx", "xy", "xyy", "xxy", "foo", "FOO", "Foo", "k", "K", "\u212a", "é", "É", "日本", "日日", "\ufffd", "€", "1€", "1é", "3€", "\x00", "ǆ", "ǅ")
	for _, w := range words {
		addH([]byte(w))
		addH([]byte(w + "x"))
		addH([]byte(w + "1"))
		addH([]byte(w + w))
		addH([]byte(w + "\n"))
		addH([]byte("x" + w))
		addH([]byte("\n" + w))
		if len(w) > 1 {
			addH([]byte(w[:len(w)-1]))
			addH([]byte(strings.ToUpper(w)))
			addH([]byte(strings.ToLower(w)))
		}
	}
	return out
}

func bdCheck(reqs *[]req, propAdd func(k string, ok bool, detail string)) (npat int, acc []string) {
	for _, p := range bdPatterns() {
		re, err := syntax.Parse(p, syntax.Perl)
		if err != nil {
			continue
		}
		npat++
		std := regexp.MustCompile(p)
		w := ast(re)
		is := nfa.IsBranchDispatchPattern(re)
		*reqs = append(*reqs, req{"re-bd is - " + w, fmt.Sprint(is), "IsBranchDispatchPattern", p})
		// the dispatcher exactly as meta/compile.go builds it
		var d *nfa.BranchDispatcher
		if re.Op == syntax.OpConcat && len(re.Sub) == 2 && re.Sub[0].Op == syntax.OpBeginText {
			d = nfa.NewBranchDispatcher(re.Sub[1])
		}
		propAdd("IsBranchDispatchPattern == (meta's dispatcher != nil)", is == (d != nil), p)
		if eng, err := meta.Compile(p); err == nil {
			propAdd("IsBranchDispatchPattern == (meta strategy is UseBranchDispatch)", is == (eng.Strategy() == meta.UseBranchDispatch), p)
		}
		if d == nil {
			*reqs = append(*reqs, req{"re-bd search 61 " + w, "nil-searcher", "BranchDispatcher.Search", p})
			continue
		}
		acc = append(acc, p)
		eng, engErr := meta.Compile(p)
		for _, h := range bdHays(p) {
			s, e, ok := d.Search(h)
			got := span(s, e, ok)
			*reqs = append(*reqs, req{fmt.Sprintf("re-bd search %s %s", hx(h), w), got, "BranchDispatcher.Search", p})
			*reqs = append(*reqs, req{fmt.Sprintf("re-bd ismatch %s %s", hx(h), w), fmt.Sprint(d.IsMatch(h)), "BranchDispatcher.IsMatch", p})
			loc := std.FindIndex(h)
			exp := "nil"
			if loc != nil {
				exp = fmt.Sprintf("%d,%d", loc[0], loc[1])
			}
			propAdd("accepted ⇒ BranchDispatcher.Search == regexp.FindIndex", got == exp, fmt.Sprintf("%q %q got %s want %s", p, h, got, exp))
			propAdd("accepted ⇒ BranchDispatcher.IsMatch == regexp.Match", d.IsMatch(h) == std.Match(h), fmt.Sprintf("%q %q", p, h))
			if engErr == nil {
				s2, e2, ok2 := eng.FindIndices(h)
				propAdd("accepted ⇒ meta.FindIndices == regexp.FindIndex", span(s2, e2, ok2) == exp, fmt.Sprintf("%q %q got %s want %s", p, h, span(s2, e2, ok2), exp))
			}
			// the reference matcher the theorem is stated against, on the same inputs
			*reqs = append(*reqs, req{fmt.Sprintf("re-ref 0 %s %s", hx(h), w), exp, "Ref.refFind (Lean) == regexp, accepted BD patterns", p})
		}
	}
	return
}

func main() {
	var reqs []req
	type propStat struct{ n, bad int }
	prop := map[string]*propStat{}
	propAdd := func(k string, ok bool, detail string) {
		s := prop[k]
		if s == nil {
			s = &propStat{}
			prop[k] = s
		}
		s.n++
		if !ok {
			s.bad++
			if s.bad <= 5 {
				fmt.Println("PROPERTY MISMATCH", k, detail)
			}
		}
	}
	accepted := map[string][]string{}
	runPats := pats
	mode := ""
	if len(os.Args) > 1 {
		mode = os.Args[1]
	}
	if mode == "csim" {
		csimCheck()
		return
	}
	if mode == "bd" || mode == "fb" {
		runPats = nil
	}
	for _, pt := range runPats {
		re, err := syntax.Parse(pt.p, syntax.Perl)
		if err != nil {
			fmt.Println("parse error", pt.p, err)
			continue
		}
		std := regexp.MustCompile(pt.p)
		w := ast(re)
		L := 4
		if len(pt.alpha) >= 6 {
			L = 3
		}
		hs := hays(pt.alpha, L)

		// --- ExtractCharClassRanges
		rs := nfa.ExtractCharClassRanges(re)
		want := "nil"
		if rs != nil {
			var parts []string
			for _, r := range rs {
				parts = append(parts, fmt.Sprintf("%d-%d", r[0], r[1]))
			}
			want = strings.Join(parts, "_")
			accepted["ccs"] = append(accepted["ccs"], pt.p)
		}
		reqs = append(reqs, req{"re-ccs " + w, want, "ExtractCharClassRanges", pt.p})
		if rs != nil {
			s := nfa.NewCharClassSearcher(rs, 1)
			for _, h := range hs {
				for at := 0; at <= len(h); at++ {
					a, b, ok := s.SearchAt(h, at)
					loc := std.FindIndex(h[at:])
					exp := "nil"
					if loc != nil {
						exp = fmt.Sprintf("%d,%d", loc[0]+at, loc[1]+at)
					}
					propAdd("CharClassSearcher.SearchAt == regexp", span(a, b, ok) == exp, fmt.Sprintf("%q %q at=%d got %s want %s", pt.p, h, at, span(a, b, ok), exp))
				}
			}
		}

		// --- IsCompositeCharClassPattern / NewCompositeSearcher
		isc := nfa.IsCompositeCharClassPattern(re)
		reqs = append(reqs, req{"re-composite is 0 - " + w, fmt.Sprint(isc), "IsCompositeCharClassPattern", pt.p})
		if isc {
			accepted["comp"] = append(accepted["comp"], pt.p)
		}
		cs := nfa.NewCompositeSearcher(re)
		if pt.group != "anch" {
			for _, h := range hs {
				for at := 0; at <= len(h); at++ {
					want := "nil-searcher"
					if cs != nil {
						a, b, ok := cs.SearchAt(h, at)
						want = span(a, b, ok)
						if isc {
							loc := std.FindIndex(h[at:])
							exp := "nil"
							if loc != nil {
								exp = fmt.Sprintf("%d,%d", loc[0]+at, loc[1]+at)
							}
							propAdd("accepted ⇒ CompositeSearcher.SearchAt == regexp", want == exp, fmt.Sprintf("%q %q at=%d got %s want %s", pt.p, h, at, want, exp))
						}
					}
					reqs = append(reqs, req{fmt.Sprintf("re-composite search %d %s %s", at, hx(h), w), want, "CompositeSearcher.SearchAt", pt.p})
					if cs == nil {
						break
					}
				}
				if cs == nil {
					break
				}
			}
		} else {
			want := "nil-searcher"
			if cs != nil {
				a, b, ok := cs.SearchAt([]byte("ab"), 0)
				want = span(a, b, ok)
			}
			reqs = append(reqs, req{"re-composite search 0 6162 " + w, want, "CompositeSearcher.SearchAt", pt.p})
		}

		// --- DetectAnchoredLiteral / MatchAnchoredLiteral
		info := meta.DetectAnchoredLiteral(re)
		want = "nil"
		if info != nil {
			nl := 0
			if info.WildcardMatchesNewline {
				nl = 1
			}
			want = fmt.Sprintf("%s/%s/%s/%d/%d/%d/%d", hx(info.Prefix), hx(info.Suffix), tbl(info.CharClassTable), info.CharClassMin, info.WildcardMin, info.MinLength, nl)
			accepted["anch"] = append(accepted["anch"], pt.p)
		}
		reqs = append(reqs, req{"re-anchlit info - " + w, want, "DetectAnchoredLiteral", pt.p})
		if pt.group == "anch" {
			for _, h := range hs {
				want := "nil"
				if info != nil {
					m := meta.MatchAnchoredLiteral(h, info)
					want = fmt.Sprint(m)
					if !strings.Contains(pt.p, "(?m)") {
						propAdd("detected ⇒ MatchAnchoredLiteral == regexp.Match", m == std.Match(h), fmt.Sprintf("%q %q got %v", pt.p, h, m))
					}
				}
				reqs = append(reqs, req{fmt.Sprintf("re-anchlit match %s %s", hx(h), w), want, "MatchAnchoredLiteral", pt.p})
				if info == nil {
					break
				}
			}
		}
	}

	nbd, bdAcc := 0, []string(nil)
	if mode != "fb" {
		nbd, bdAcc = bdCheck(&reqs, propAdd)
	}
	fbReport := func() {}
	if mode != "bd" {
		fbReport = fbCheck(&reqs)
	}

	// run the driver
	cmd := exec.Command("../.lake/build/bin/cxdrv")
	var in bytes.Buffer
	for _, r := range reqs {
		in.WriteString(r.line)
		in.WriteByte('\n')
	}
	cmd.Stdin = &in
	outp, err := cmd.Output()
	if err != nil {
		fmt.Println("driver error", err)
		os.Exit(1)
	}
	sc := bufio.NewScanner(bytes.NewReader(outp))
	sc.Buffer(make([]byte, 1<<20), 1<<20)
	type st struct{ n, bad int }
	stats := map[string]*st{}
	i := 0
	for sc.Scan() {
		if i >= len(reqs) {
			fmt.Println("too many answers")
			break
		}
		r := reqs[i]
		i++
		s := stats[r.kind]
		if s == nil {
			s = &st{}
			stats[r.kind] = s
		}
		s.n++
		if hook := reqHooks[i-1]; hook != nil {
			hook(sc.Text())
			continue
		}
		if sc.Text() != r.want {
			s.bad++
			if s.bad <= 8 {
				fmt.Printf("MODEL MISMATCH %s pattern %q request %q: model %q, code %q\n", r.kind, r.pat, r.line, sc.Text(), r.want)
			}
		}
	}
	if i != len(reqs) {
		fmt.Printf("answers %d != requests %d\n", i, len(reqs))
	}
	fmt.Printf("patterns: %d (+ %d BranchDispatcher patterns, %d accepted)   requests: %d\n", len(runPats), nbd, len(bdAcc), len(reqs))
	var ks []string
	for k := range stats {
		ks = append(ks, k)
	}
	sort.Strings(ks)
	for _, k := range ks {
		fmt.Printf("  model tie   %-28s comparisons %7d  mismatches %d\n", k, stats[k].n, stats[k].bad)
	}
	ks = ks[:0]
	for k := range prop {
		ks = append(ks, k)
	}
	sort.Strings(ks)
	for _, k := range ks {
		fmt.Printf("  property    %-50s comparisons %7d  mismatches %d\n", k, prop[k].n, prop[k].bad)
	}
	for _, g := range []string{"ccs", "comp", "anch"} {
		fmt.Printf("  accepted by %s predicate (%d): %q\n", g, len(accepted[g]), accepted[g])
	}
	if mode != "fb" {
		fmt.Printf("  accepted by IsBranchDispatchPattern (%d of %d): %q\n", len(bdAcc), nbd, bdAcc)
	}
	fbReport()
}
