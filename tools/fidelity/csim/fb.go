// First-byte rejection filter (nfa/firstbytes.go): model tie and soundness on the real code.  `go run . fb`
//
//   - model tie: nfa.ExtractFirstBytes(syntax.Parse(p, Perl)) — nil?, Count(), IsComplete(), the 256 answers of
//     Contains — against the Lean model (`re-fb`), for every generated pattern and for `(?i)\x{r}` for EVERY rune r
//     with a case variant (the whole generated orbit table of the driver);
//   - soundness on the real code: whenever the set is non-nil and complete, for every haystack of an exhaustive small
//     set on which stdlib `^(?:p)` matches, the first byte must be in the set — counted separately for non-empty matches
//     and for all matches of a non-empty haystack (what the callers need), and separately for the patterns satisfying
//     the Lean side conditions `fbFrag` (must be 0: the theorem replayed on the real code) and the others (since the
//     assertion fix: only patterns with a literal U+FFFD, which regexp matches against an ill-formed byte and coregex's
//     engines never do); failures on a haystack that begins with a WELL-FORMED rune must be 0 for every pattern;
//   - reachability: when meta actually installs the filter (start-anchored, UseBoundedBacktracker, IsUseful), the public
//     coregex FindIndex is compared with stdlib on the same haystacks.
package main

import (
	"bytes"
	"fmt"
	"os"
	"regexp"
	"regexp/syntax"
	"sort"
	"strings"
	"unicode"
	"unicode/utf8"

	"github.com/coregx/coregex"
	"github.com/coregx/coregex/meta"
	"github.com/coregx/coregex/nfa"
)

func fbPatterns() []string {
	var out []string
	seen := map[string]bool{}
	add := func(q string) {
		if seen[q] {
			return
		}
		if _, err := syntax.Parse(q, syntax.Perl); err != nil {
			return
		}
		if _, err := regexp.Compile("^(?:" + q + ")"); err != nil {
			return
		}
		seen[q] = true
		out = append(out, q)
	}
	atoms := []string{`a`, `ab`, `k`, `s`, `K`, `é`, `я`, `\x{212A}`, `ſ`, `€x`, `[a-c]`, `[^a]`, `[é-ë]`, `[a-cя]`, `[^\x00-\x7f]`,
		`[k]`, `[^\n]`, `\d`, `\w`, `\pN`, `\s`, `.`, `(?s:.)`, `a|b`, `ab|k|é`, `[a-c]|\d`, `\x{FFFD}`, `\x{10FFFF}`, `\x7f`, `\x{80}`}
	wraps := []string{`%s`, `(?i)%s`, `(%s)`, `(?:%s)+`, `(?:%s){2}`, `(?:%s){1,3}`, `(?:%s){0,2}`, `(?:%s)*`, `(?:%s)?`, `(?:%s)+?`, `(?i:%s)+`}
	ctxs := []string{`^%s`, `%s`, `^%sx`, `^(?:%s|x)`, `^(?:%s|^)`, `^(?:%s|$)`, `^(?m:%s|$)`, `(?m)^%s$`, `\b%s`, `^\b%s`, `^(?:|%s)b`,
		`^(^)%s`, `^(?:x|(^)%s)`, `^(?:x|(?m:^)%s)`, `^%s*b`, `\A%s\z`, `^(?:x|(?m:$)\n%s)`, `^(?:%s|\z)`, `^(?:x|(?:^)+%s)`, `^(?:%s)(?:^)`}
	// assertion-in-first-position shapes (after "an assertion in first position must not make the first-byte set look
	// complete"): anchors inside alternation branches, captures, repeats, nested groups; `\b` / `\B` first; empty
	// alternatives; assertion-only prefixes that isAssertionOnly does and does not recognise
	ctxs = append(ctxs,
		// anchors as / in alternation branches
		`^(?:^%s|x)`, `^(?:$|%s)`, `^(?:\A|%s)`, `^(?:%s|\z)x`, `^(?:%s|^|$)`, `^(?m:^|%s)x`, `^(?m:%s|$)x`, `^(?m:$\n|%s)`, `^(?:$%s|^%s)`,
		`^(?:(?:^)%s|$)`, `(?m)^(?:%s|$)`, `(?m)(?:^|x)%s`, `(?m)(?:^%s|$\n%s)`, `(?:^|%s)`, `(?:%s|$)`, `(?:\A%s|\z)`,
		// anchors in captures and nested groups
		`^((^)|%s)`, `^((?m:^)%s)`, `^(($)%s)`, `^(((^))((%s)))`, `^(?:(?:(?:(^)))%s|x)`, `^((\A)($))%s`, `^(?:x|((?m:^$))\n%s)`, `^((^)%s|(\z)x)`,
		// anchors under repeats
		`^(?:(^))+%s`, `^(?:^$)+%s`, `^((^)+)%s`, `^(?:^)*%s`, `^(?:^)?%s`, `^(?:^){2}%s`, `^(?:^){1,2}%s`, `^(?:(?:^)+|x)%s`, `^(?:^|$)%s`, `^(?:^|$)+%s`,
		`^(?:%s|^)+x`, `^(?:^|%s)+x`, `^(?:%s|$)+`, `^(?:(?:^)+%s)+`, `^(?:(^)%s){2}`, `^(?:(?m:$)%s)+`, `^(?:(?:^)+?%s|x)`,
		// \b and \B first
		`^\B%s`, `\B%s`, `^(?:\b%s|x)`, `^(?:x|\B%s)`, `^(\b)%s`, `^(?:\b)+%s`, `^(?:%s|\b)`, `^(?:%s|\B)x`, `^(?:^\b)%s`, `^(^)\b%s`,
		// empty alternatives, empty groups
		`^(?:|%s)`, `^(?:%s|)x`, `^(?:%s||x)`, `^(?:(?:)%s|x)`, `^()%s`, `^(?:()|%s)`, `^(?:(^)()%s|x)`, `^(?:(?:|^)%s|x)`,
		// end assertions in front (can only hold at the end / before a line feed)
		`$%s`, `(?m)$%s`, `(?m)$\n%s`, `\z%s`, `^(?:x|\z%s)`, `^(?m:$)+\n%s`)
	for _, a := range atoms {
		for _, w := range wraps {
			for _, c := range ctxs {
				e := fmt.Sprintf(w, a)
				if strings.Count(c, "%s") == 2 {
					add(fmt.Sprintf(c, e, e))
				} else {
					add(fmt.Sprintf(c, e))
				}
			}
		}
	}
	// isAssertionOnly has no depth bound, extractFirstBytesRecursive has (20)
	for _, n := range []int{1, 5, 19, 20, 21, 22, 25, 40} {
		add("^" + strings.Repeat("(", n) + "^" + strings.Repeat(")", n) + "a")
		add("^(?:x|" + strings.Repeat("(", n) + "^" + strings.Repeat(")", n) + "a)")
		add("^" + strings.Repeat("(", n) + "^a" + strings.Repeat(")", n))
		add("^" + strings.Repeat("(?:(", n) + "^" + strings.Repeat(")+)", n) + "a")
		add("^" + strings.Repeat("(", n) + "a|^" + strings.Repeat(")", n))
	}
	for _, p := range []string{`^(\d+|UUID|hex32)`, `^(?i)(hello)$`, `^\pN`, `^é+x`, `^/.*\.php$`, `^(?:ab|^)+x`, `^$`, `^`, `$`, `(?m)^`, `^a*b`, `^(?:|a)b`,
		`^\bab`, `^\Bab`, `^(?i:k)`, `^(?i:s)`, `^(?i:ǆ)`, `^(?i:ι)`, `^(?i:µ)`, `^(?i:ß)`, `^[[:alpha:]]+\d`, `^(?:[a-c]|[x-z]){2}`, `^(((((a)))))`,
		`^((((((((((((((((((((((a))))))))))))))))))))))`, `^(?:a|b|c|d|e|f)g`, `^(?s).+x`, `^.+x`, `^[^\n]`, `^(?i)[k]`, `^(?i)[s-t]`, `^x{0}a`,
		`^a{0}`, `^(?:a{2,}|b{1})`, `^(?:a|(?:b|(?:c|(?:d|e))))`, `^(?:a$|b)`, `^(?:$a|b)`, `^(?m:$\n|b)`, `^(?:(?:)|b)`, `^(?:a|)`, `^[^\x00-\x{10FFFF}]`, `^(?:a|[^\x00-\x{10FFFF}])`,
		`^(?:a|^)`, `^(?m:a|$)`, `^(?m:x|$\na)`, `^(?:x|(^)a)`, `^(?:a|$)`, `^(?:a|$b)`, `^(?:(?:^)+|a)`, `^(?:^$|a)`, `^(?:(?m:^$)\n|a)`, `(?m)^$\na`, `^(?:a|\b)`,
		`^(?:a|\B)b`, `(?m:^)+((\A)(?m:$))a`, `(?m:^)+((\A)(?m:$))`, `^(?:\ba|x)`, `^(?:(?:^)*a|x)`, `^(?:(?:^|$)a|x)`, `^(?:(?:^){2}a|x)`, `^(?:(?:^)+?a|x)`,
		`^(?:(?:^)+)+a`, `^(?:a|(?:b|(?:^)))`, `^(?:a|(?:b|(?:^c)))`, `^(?:a|(?:b|(?:(?:^)+c|$\n)))`, `(?m)^(?:a|(?:b|(?:(?:^)+c|$\n)))`, `^(?:^a|$b|\Ac|\zd)`,
		`(?m)^(?:^a|$b|\Ac|\zd|$\ne)`, `^(?i:^k|$s)`, `^(?:(^)é|($)я)`, `^(?:^|a)*b`, `^(?:^a)*b`, `^(?:^a)+b`, `^(?:^a){2}b`, `^(?:^a){0,2}b`} {
		add(p)
	}
	return out
}

// fbHays: every byte string of length <= 3 over (ASCII letters/digits of the pattern, capped) + k K a b x \n + the bytes
// of U+212A, U+017F, é and of the non-ASCII runes of the pattern.
func fbHays(p string) [][]byte {
	var al []byte
	addB := func(c byte) {
		if !bytes.Contains(al, []byte{c}) {
			al = append(al, c)
		}
	}
	n := 0
	for _, c := range []byte(p) {
		if (c >= 'a' && c <= 'z' || c >= 'A' && c <= 'Z' || c >= '0' && c <= '9') && n < 4 {
			if !bytes.Contains(al, []byte{c}) {
				n++
			}
			addB(c)
		}
	}
	for _, c := range []byte("kKab\n\xe2\x84\xaa\xc5\xbf\xc3\xa9") {
		addB(c)
	}
	for _, r := range p {
		if r > 0x7f && r != unicode.ReplacementChar {
			for _, c := range []byte(string(r)) {
				addB(c)
			}
		}
	}
	if strings.Contains(p, "FFFD") || strings.Contains(p, "\\x{80}") || strings.Contains(p, "^\\x00") || strings.Contains(p, "[^") {
		addB(0xFF)
		addB(0xC2)
		addB(0x80)
	}
	return hays(string(al), 3)
}

type fbRow struct {
	p                string
	nonNil, useful   bool
	frag             bool
	nMatch           int
	failNE, failAny  int
	exNE, exAny      string
	failWF           int // failing haystacks that BEGIN with a well-formed rune (not an ill-formed byte read as U+FFFD)
	exWF             string
	installed        bool
	apiBad, apiOther int // coregex != regexp on a haystack the filter rejected / on another haystack
	exAPI, exOther   string
	exOtherValid     string // … on a haystack that is valid UTF-8
}

func fbCheck(reqs *[]req) func() {
	var rows []*fbRow
	ps := fbPatterns()
	nOrbit := 0
	for _, p := range ps {
		re, err := syntax.Parse(p, syntax.Perl)
		if err != nil {
			continue
		}
		w := ast(re)
		fb := nfa.ExtractFirstBytes(re)
		want := "nil"
		row := &fbRow{p: p}
		rows = append(rows, row)
		if fb != nil {
			var t [256]bool
			for b := 0; b < 256; b++ {
				t[b] = fb.Contains(byte(b))
			}
			want = fmt.Sprintf("%d/%v/%s", fb.Count(), fb.IsComplete(), tbl(&t))
			row.nonNil = true
			row.useful = fb.IsUseful()
		}
		*reqs = append(*reqs, req{"re-fb " + w, want, "ExtractFirstBytes", p})
		reqHooks[len(*reqs)] = func(ans string) { row.frag = ans == "true" }
		*reqs = append(*reqs, req{"re-fbfrag " + w, "", "fbFrag (answers collected, not compared)", p})
		if fb == nil || !fb.IsComplete() {
			continue
		}
		std := regexp.MustCompile("^(?:" + p + ")")
		var cx *coregex.Regex
		if eng, err := meta.Compile(p); err == nil && eng.IsStartAnchored() && eng.Strategy() == meta.UseBoundedBacktracker && fb.IsUseful() {
			row.installed = true
			cx, _ = coregex.Compile(p)
		}
		var stdP *regexp.Regexp
		if cx != nil {
			stdP = regexp.MustCompile(p)
		}
		for _, h := range fbHays(p) {
			if len(h) == 0 {
				continue
			}
			loc := std.FindIndex(h)
			if loc != nil {
				row.nMatch++
				if !fb.Contains(h[0]) {
					row.failAny++
					if row.exAny == "" {
						row.exAny = fmt.Sprintf("%q -> %v", h, loc)
					}
					if r, w := utf8.DecodeRune(h); !(r == utf8.RuneError && w == 1) {
						row.failWF++
						if row.exWF == "" {
							row.exWF = fmt.Sprintf("%q -> %v", h, loc)
						}
					}
					if loc[1] > 0 {
						row.failNE++
						if row.exNE == "" {
							row.exNE = fmt.Sprintf("%q -> %v", h, loc)
						}
					}
				}
			}
			if cx != nil {
				a, b := stdP.FindIndex(h), cx.FindIndex(h)
				if fmt.Sprint(a) != fmt.Sprint(b) {
					if fb.Contains(h[0]) {
						row.apiOther++ // not the filter's doing (e.g. `.` on ill-formed UTF-8)
						if row.exOther == "" {
							row.exOther = fmt.Sprintf("%q regexp %v coregex %v", h, a, b)
						}
						if utf8.Valid(h) && row.exOtherValid == "" {
							row.exOtherValid = fmt.Sprintf("%q regexp %v coregex %v", h, a, b)
						}
					} else {
						row.apiBad++
						if row.exAPI == "" {
							row.exAPI = fmt.Sprintf("%q regexp %v coregex %v", h, a, b)
						}
					}
				}
			}
		}
	}
	// the whole fold-orbit table: `(?i)\x{r}` for every rune with a case variant
	for r := rune(0); r <= unicode.MaxRune; r++ {
		if unicode.SimpleFold(r) == r {
			continue
		}
		p := fmt.Sprintf(`(?i)\x{%X}x`, r)
		re, err := syntax.Parse(p, syntax.Perl)
		if err != nil {
			continue
		}
		fb := nfa.ExtractFirstBytes(re)
		want := "nil"
		if fb != nil {
			var t [256]bool
			for b := 0; b < 256; b++ {
				t[b] = fb.Contains(byte(b))
			}
			want = fmt.Sprintf("%d/%v/%s", fb.Count(), fb.IsComplete(), tbl(&t))
		}
		nOrbit++
		*reqs = append(*reqs, req{"re-fb " + ast(re), want, "ExtractFirstBytes, (?i)\\x{r}x, every rune with a case variant", p})
	}
	return func() {
		var nNonNil, nUseful, nFragNonNil, nInst, nIncomplete int
		var badNE, badAny, badFrag, badAPI, badWF []*fbRow
		matches := 0
		for _, r := range rows {
			if r.nonNil {
				nNonNil++
				matches += r.nMatch
			}
			if r.useful {
				nUseful++
			}
			if r.nonNil && r.frag {
				nFragNonNil++
			}
			if r.installed {
				nInst++
			}
			if r.failNE > 0 {
				badNE = append(badNE, r)
			}
			if r.failAny > 0 {
				badAny = append(badAny, r)
				if r.frag {
					badFrag = append(badFrag, r)
				}
			}
			if r.apiBad > 0 {
				badAPI = append(badAPI, r)
			}
			if r.failWF > 0 {
				badWF = append(badWF, r)
			}
		}
		_ = nIncomplete
		fmt.Printf("first-byte filter: %d patterns (+ %d orbit patterns); set non-nil for %d (IsUseful %d; non-nil and in fbFrag %d); filter installed by meta for %d\n",
			len(rows), nOrbit, nNonNil, nUseful, nFragNonNil, nInst)
		fmt.Printf("  soundness on the real code, %d (pattern, non-empty haystack) pairs with a stdlib match at 0:\n", matches)
		fmt.Printf("    non-empty match, first byte NOT in the set: %d patterns\n", len(badNE))
		fmt.Printf("    any match (what the callers assume), first byte NOT in the set: %d patterns, of which inside fbFrag: %d\n", len(badAny), len(badFrag))
		nFFFD := 0
		for _, r := range badAny {
			if strings.Contains(r.p, "FFFD") {
				nFFFD++
			}
		}
		fmt.Printf("      of these, patterns with a literal U+FFFD (regexp reads an ill-formed byte as U+FFFD; outside fbFrag): %d\n", nFFFD)
		fmt.Printf("      failing on a haystack that begins with a WELL-FORMED rune (any pattern; must be 0): %d patterns\n", len(badWF))
		for _, r := range badWF {
			fmt.Printf("    REAL-CODE SOUNDNESS FAILURE %q haystack %s\n", r.p, r.exWF)
		}
		nUsefulBad, nInstBad, other := 0, 0, 0
		for _, r := range badAny {
			if r.useful {
				nUsefulBad++
			}
			if r.installed {
				nInstBad++
			}
		}
		otherValid := 0
		for _, r := range rows {
			if r.apiOther > 0 {
				other++
				if os.Getenv("FB_VERBOSE") != "" {
					fmt.Printf("    OTHER   %-28q %s\n", r.p, r.exOther)
				}
				if r.exOtherValid != "" {
					otherValid++
					if os.Getenv("FB_VERBOSE") != "" {
						fmt.Printf("    OTHERVALID %-28q %s\n", r.p, r.exOtherValid)
					}
				}
			}
		}
		fmt.Printf("      of the unsound patterns: IsUseful (so a caller would use the set) %d, filter actually installed by meta %d\n", nUsefulBad, nInstBad)
		fmt.Printf("    coregex.FindIndex != regexp.FindIndex on a haystack the installed filter rejected: %d patterns\n", len(badAPI))
		fmt.Printf("      (coregex != regexp on haystacks the filter let through, i.e. other causes: %d patterns — not counted)\n", other)
		fmt.Printf("      (of those other causes, on a haystack that is valid UTF-8: %d patterns)\n", otherValid)
		sort.Slice(badAny, func(i, j int) bool { return len(badAny[i].p) < len(badAny[j].p) })
		for i, r := range badAny {
			if i >= 40 {
				fmt.Printf("    … %d more\n", len(badAny)-i)
				break
			}
			ex := r.exAny
			if r.exNE != "" {
				ex = r.exNE
			}
			fmt.Printf("    UNSOUND %-28q haystack %s (fbFrag=%v, installed=%v, failing haystacks %d, non-empty-match ones %d)\n", r.p, ex, r.frag, r.installed, r.failAny, r.failNE)
		}
		for _, r := range badFrag {
			fmt.Printf("    THEOREM VIOLATED ON REAL CODE %q %s\n", r.p, r.exAny)
		}
		sort.Slice(badAPI, func(i, j int) bool { return len(badAPI[i].p) < len(badAPI[j].p) })
		for i, r := range badAPI {
			if i >= 25 {
				fmt.Printf("    … %d more\n", len(badAPI)-i)
				break
			}
			fmt.Printf("    API     %-28q %s (filter unsound on this pattern: %v; mismatching haystacks %d)\n", r.p, r.exAPI, r.failAny > 0, r.apiBad)
		}
	}
}
