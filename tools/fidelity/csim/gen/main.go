// Generates the Unicode tables of Cx/DriverFast.lean from Go's `unicode` package.
//   go run ./gen          -> simpleFoldRanges (all runes with unicode.SimpleFold(r) != r, as ranges)
//   go run ./gen orbits   -> simpleFoldOrbits (every case-folding orbit with more than one member, ascending)
package main

import (
	"fmt"
	"os"
	"runtime"
	"sort"
	"unicode"
)

func ranges() {
	var rs [][2]int
	start := -1
	n := 0
	for r := 0; r <= unicode.MaxRune+1; r++ {
		has := r <= unicode.MaxRune && unicode.SimpleFold(rune(r)) != rune(r)
		if has {
			n++
		}
		if has && start < 0 {
			start = r
		}
		if !has && start >= 0 {
			rs = append(rs, [2]int{start, r - 1})
			start = -1
		}
	}
	fmt.Printf("-- %s, Unicode %s: %d runes in %d ranges\n", runtime.Version(), unicode.Version, n, len(rs))
	for i, p := range rs {
		if i%8 == 0 {
			fmt.Printf("\n  ")
		}
		fmt.Printf("(0x%X, 0x%X)", p[0], p[1])
		if i != len(rs)-1 {
			fmt.Printf(", ")
		}
	}
	fmt.Println()
}

// orbits: for every rune r with SimpleFold(r) != r, the orbit {r, SimpleFold(r), SimpleFold(SimpleFold(r)), …}.
// unicode.SimpleFold returns "the smallest rune > r if one exists, or else the smallest rune >= 0" of the orbit, so
// the loop `for f := SimpleFold(r); f != r; f = SimpleFold(f)` visits the members above r in ascending order, then the
// members below r in ascending order; the generator CHECKS that against the real function for every rune.
func orbits() {
	seen := map[rune]bool{}
	var orbs [][]rune
	nr := 0
	for r := rune(0); r <= unicode.MaxRune; r++ {
		if unicode.SimpleFold(r) == r || seen[r] {
			continue
		}
		o := []rune{r}
		for f := unicode.SimpleFold(r); f != r; f = unicode.SimpleFold(f) {
			o = append(o, f)
		}
		sort.Slice(o, func(i, j int) bool { return o[i] < o[j] })
		for _, m := range o {
			seen[m] = true
		}
		nr += len(o)
		orbs = append(orbs, o)
	}
	// check the rotation property
	for _, o := range orbs {
		for i, r := range o {
			var want []rune
			want = append(want, o[i+1:]...)
			want = append(want, o[:i]...)
			var got []rune
			for f := unicode.SimpleFold(r); f != r; f = unicode.SimpleFold(f) {
				got = append(got, f)
			}
			if fmt.Sprint(got) != fmt.Sprint(want) {
				fmt.Fprintln(os.Stderr, "ROTATION PROPERTY FAILS", r, got, want)
				os.Exit(1)
			}
		}
	}
	mx := 0
	for _, o := range orbs {
		if len(o) > mx {
			mx = len(o)
		}
	}
	fmt.Printf("-- %s, Unicode %s: %d runes in %d orbits (largest %d)\n", runtime.Version(), unicode.Version, nr, len(orbs), mx)
	col := 0
	fmt.Printf("  ")
	for i, o := range orbs {
		s := "["
		for j, m := range o {
			if j > 0 {
				s += ","
			}
			s += fmt.Sprintf("0x%X", m)
		}
		s += "]"
		if i != len(orbs)-1 {
			s += ", "
		}
		if col+len(s) > 116 {
			fmt.Printf("\n  ")
			col = 0
		}
		fmt.Print(s)
		col += len(s)
	}
	fmt.Println()
}

func main() {
	if len(os.Args) > 1 && os.Args[1] == "orbits" {
		orbits()
		return
	}
	ranges()
}
