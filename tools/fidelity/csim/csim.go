// `go run . csim`: the model of the REWRITTEN nfa/composite.go (Cx.Model.CompositeSim, requests `re-csim …`) vs the real
// nfa.NewCompositeSearcher(re).SearchAt / IsMatch.
package main

import (
	"bufio"
	"bytes"
	"fmt"
	"math/rand"
	"os"
	"os/exec"
	"regexp"
	"regexp/syntax"
	"sort"
	"strings"

	"github.com/coregx/coregex/nfa"
)

var csimClasses = []string{`[ab]`, `[bc]`, `[a-c]`, `[a-d]`, `[cd]`, `[bd]`, `[ad]`, `[b-d]`, `[0-9]`, `\w`, `[a-z]`, `[^a]`, `[ac]`}
var csimQuants = []string{`+`, `*`, `?`, ``, `{2}`, `{3}`, `{1,2}`, `{2,3}`, `{0,2}`, `{2,}`, `{0,}`, `{1,}`, `{3,}`, `{1,4}`, `{0,1}`, `{5,}`, `{4,6}`, `{7}`, `{12,}`, `{10,20}`}

// fixed seeds: the shapes the task names
var csimSeeds = []string{
	`[a-z]+[0-9]{2,4}\w*`, `[a-z]+[a-z]+[0-9]`, `[a-c]+[a-c]+[0-9]`, `[ab]*[ab]*[ab]*`, `[ab]?[ab]?[ab]?[ab]?[ab]?`,
	`[ab]*[bc]*`, `[ab]+[bc]+[cd]+`, `[ab]{2,}[bc]{2,}`, `[ab]{0,2}[ab]{2}`, `[ab]{2}[ab]{0,2}[bc]`, `[a-d]*[bc]{3}[a-d]*`,
	`[a-d]+[bc]{2,3}[cd]?`, `[ab]{1,2}[ab]{1,2}[ab]{1,2}`, `[a-d]{3,}[ab]`, `[a-d]*[ab][a-d]{2}`, `[ab][bc]`, `[ab][bc][cd]`,
	`[a-d]{12,}[ab]+`, `[a-d]{10,20}[cd]{2}`, `[ab]{7}[a-d]*`, `\w+[0-9]+`, `[^a]+[ab]`, `[^a]*[^a]*[a-d]`,
}

func csimReps(re *syntax.Regexp) []byte {
	// one representative per membership vector of the pattern's classes, over a small candidate set
	cands := []byte("abcd1_ xz")
	parts := re.Sub
	seen := map[string]bool{}
	var out []byte
	for _, b := range cands {
		key := ""
		for _, p := range parts {
			cc := p
			if p.Op != syntax.OpCharClass {
				cc = p.Sub[0]
			}
			in := false
			for i := 0; i+1 < len(cc.Rune); i += 2 {
				if rune(b) >= cc.Rune[i] && rune(b) <= cc.Rune[i+1] {
					in = true
				}
			}
			if in {
				key += "1"
			} else {
				key += "0"
			}
		}
		if !seen[key] {
			seen[key] = true
			out = append(out, b)
		}
	}
	return out
}

func csimLong(r *rand.Rand, alpha []byte, n int) []byte {
	// runs of one letter with random lengths (so that large minimums are reached), mixed with noise
	var out []byte
	for len(out) < n {
		b := alpha[r.Intn(len(alpha))]
		l := 1 + r.Intn(4)
		switch r.Intn(6) {
		case 0:
			l = 5 + r.Intn(20)
		case 1:
			l = 1
		}
		for i := 0; i < l && len(out) < n; i++ {
			if r.Intn(5) == 0 {
				out = append(out, alpha[r.Intn(len(alpha))])
			} else {
				out = append(out, b)
			}
		}
	}
	return out
}

func csimCheck() {
	r := rand.New(rand.NewSource(20260923))
	seen := map[string]bool{}
	var patterns []string
	add := func(p string) {
		if seen[p] {
			return
		}
		seen[p] = true
		re, err := syntax.Parse(p, syntax.Perl)
		if err != nil {
			return
		}
		if nfa.NewCompositeSearcher(re) == nil {
			return
		}
		patterns = append(patterns, p)
	}
	for _, p := range csimSeeds {
		add(p)
	}
	for len(patterns) < 700 {
		k := 2 + r.Intn(4)
		var sb strings.Builder
		small := r.Intn(3) != 0 // mostly the overlapping classes over a..d
		for i := 0; i < k; i++ {
			var c string
			if small {
				c = csimClasses[r.Intn(8)]
			} else {
				c = csimClasses[r.Intn(len(csimClasses))]
			}
			q := csimQuants[r.Intn(len(csimQuants))]
			if r.Intn(3) != 0 {
				q = csimQuants[r.Intn(12)] // mostly the small quantifiers
			}
			sb.WriteString(c + q)
		}
		add(sb.String())
	}

	type creq struct {
		line, want, pat, kind string
	}
	var reqs []creq
	nPropBad, nProp := 0, 0
	nullable, bigMin, nHay, nSearch := 0, 0, 0, 0
	byParts := map[int]int{}
	for _, p := range patterns {
		re, _ := syntax.Parse(p, syntax.Perl)
		w := ast(re)
		cs := nfa.NewCompositeSearcher(re)
		isc := nfa.IsCompositeCharClassPattern(re)
		std := regexp.MustCompile(p)
		byParts[len(re.Sub)]++
		if std.MatchString("") {
			nullable++
		}
		for _, s := range re.Sub {
			if s.Op == syntax.OpRepeat && s.Min >= 5 {
				bigMin++
				break
			}
		}
		reps := csimReps(re)
		L := 6
		if len(reps) >= 5 {
			L = 5
		}
		if len(reps) >= 7 {
			L = 4
		}
		hs := hays(string(reps), L)
		var sb strings.Builder
		first := true
		put := func(s string) {
			if !first {
				sb.WriteByte(';')
			}
			first = false
			sb.WriteString(s)
		}
		for _, h := range hs {
			nHay++
			if cs.IsMatch(h) {
				put("T")
			} else {
				put("F")
			}
			for at := 0; at <= len(h); at++ {
				a, b, ok := cs.SearchAt(h, at)
				nSearch++
				if ok {
					put(fmt.Sprintf("%d,%d", a, b))
				} else {
					put("n")
				}
				if isc {
					loc := std.FindIndex(h[at:])
					exp := "nil"
					if loc != nil {
						exp = fmt.Sprintf("%d,%d", loc[0]+at, loc[1]+at)
					}
					nProp++
					if span(a, b, ok) != exp {
						nPropBad++
						if nPropBad <= 5 {
							fmt.Printf("PROPERTY MISMATCH SearchAt != regexp: %q %q at=%d got %s want %s\n", p, h, at, span(a, b, ok), exp)
						}
					}
				}
			}
		}
		reqs = append(reqs, creq{fmt.Sprintf("re-csim sweep %s %d %s", hx(reps), L, w), sb.String(), p, "sweep (exhaustive haystacks, every at, IsMatch)"})
		// long haystacks
		for j := 0; j < 8; j++ {
			n := 40 + r.Intn(400)
			if j == 7 {
				n = 3000
			}
			h := csimLong(r, reps, n)
			nHay++
			reqs = append(reqs, creq{fmt.Sprintf("re-csim ismatch %s %s", hx(h), w), fmt.Sprint(cs.IsMatch(h)), p, "long IsMatch"})
			ats := []int{0, 1, n / 3, n / 2, n - 2, n - 1, n, r.Intn(n + 1), r.Intn(n + 1)}
			// and right after the previous match (FindAll-like iteration)
			at := 0
			for it := 0; it < 6 && at <= n; it++ {
				a, b, ok := cs.SearchAt(h, at)
				if !ok {
					break
				}
				_ = a
				if b > at {
					at = b
				} else {
					at++
				}
				ats = append(ats, at)
			}
			for _, at := range ats {
				if at < 0 || at > n {
					continue
				}
				a, b, ok := cs.SearchAt(h, at)
				nSearch++
				reqs = append(reqs, creq{fmt.Sprintf("re-csim search %d %s %s", at, hx(h), w), span(a, b, ok), p, "long SearchAt"})
				if isc {
					loc := std.FindIndex(h[at:])
					exp := "nil"
					if loc != nil {
						exp = fmt.Sprintf("%d,%d", loc[0]+at, loc[1]+at)
					}
					nProp++
					if span(a, b, ok) != exp {
						nPropBad++
						if nPropBad <= 5 {
							fmt.Printf("PROPERTY MISMATCH SearchAt != regexp: %q len %d at=%d got %s want %s\n", p, n, at, span(a, b, ok), exp)
						}
					}
				}
			}
		}
		// at > len(h)
		reqs = append(reqs, creq{fmt.Sprintf("re-csim search 5 %s %s", hx([]byte("ab")), w), func() string { a, b, ok := cs.SearchAt([]byte("ab"), 5); return span(a, b, ok) }(), p, "at > len"})
	}

	cmd := exec.Command("../.lake/build/bin/cxdrv")
	var in bytes.Buffer
	for _, q := range reqs {
		in.WriteString(q.line)
		in.WriteByte('\n')
	}
	cmd.Stdin = &in
	outp, err := cmd.Output()
	if err != nil {
		fmt.Println("driver error", err)
		os.Exit(1)
	}
	sc := bufio.NewScanner(bytes.NewReader(outp))
	sc.Buffer(make([]byte, 1<<26), 1<<26)
	type st struct{ n, bad, items, badItems int }
	stats := map[string]*st{}
	i := 0
	for sc.Scan() {
		if i >= len(reqs) {
			fmt.Println("too many answers")
			break
		}
		q := reqs[i]
		i++
		s := stats[q.kind]
		if s == nil {
			s = &st{}
			stats[q.kind] = s
		}
		s.n++
		got := sc.Text()
		if strings.HasPrefix(q.kind, "sweep") {
			g, w := strings.Split(got, ";"), strings.Split(q.want, ";")
			s.items += len(w)
			if len(g) != len(w) {
				s.badItems += len(w)
			} else {
				for k := range w {
					if g[k] != w[k] {
						s.badItems++
					}
				}
			}
		} else {
			s.items++
			if got != q.want {
				s.badItems++
			}
		}
		if got != q.want {
			s.bad++
			if s.bad <= 5 {
				l := q.line
				if len(l) > 200 {
					l = l[:200] + "…"
				}
				g, w := got, q.want
				if len(g) > 120 {
					g = g[:120] + "…"
				}
				if len(w) > 120 {
					w = w[:120] + "…"
				}
				fmt.Printf("MODEL MISMATCH %s pattern %q request %q: model %q, code %q\n", q.kind, q.pat, l, g, w)
			}
		}
	}
	if i != len(reqs) {
		fmt.Printf("answers %d != requests %d\n", i, len(reqs))
	}
	fmt.Printf("csim: patterns %d (by number of parts %v; nullable %d; with a minimum >= 5: %d), haystacks %d, SearchAt calls %d, requests %d\n",
		len(patterns), byParts, nullable, bigMin, nHay, nSearch, len(reqs))
	var ks []string
	for k := range stats {
		ks = append(ks, k)
	}
	sort.Strings(ks)
	for _, k := range ks {
		fmt.Printf("  model tie   %-50s requests %6d  compared values %9d  mismatches %d\n", k, stats[k].n, stats[k].items, stats[k].badItems)
	}
	// step counts of the instrumented model: new search vs old backtracking model on `[a-c]+[a-c]+[0-9]` / a^n
	{
		re, _ := syntax.Parse(`[a-c]+[a-c]+[0-9]`, syntax.Perl)
		w := ast(re)
		var in2 bytes.Buffer
		ns := []int{4, 8, 16, 32, 64, 128}
		for _, n := range ns {
			fmt.Fprintf(&in2, "re-csim steps 0 %s %s\n", hx(bytes.Repeat([]byte("a"), n)), w)
		}
		c2 := exec.Command("../.lake/build/bin/cxdrv")
		c2.Stdin = &in2
		o2, _ := c2.Output()
		fmt.Printf("  steps new/old/nconfigs for [a-c]+[a-c]+[0-9] on a^n, n=%v: %s\n", ns, strings.Join(strings.Fields(string(o2)), " "))
	}
	fmt.Printf("  property    accepted by IsCompositeCharClassPattern => SearchAt == regexp   comparisons %d  mismatches %d\n", nProp, nPropBad)
}
