// Replays the `decide` witnesses of Cx.Proofs.FastCex (first-byte filter) on the real code: `go run ./probe`
package main

import (
	"fmt"
	"regexp"
	"regexp/syntax"

	"github.com/coregx/coregex"
	"github.com/coregx/coregex/meta"
	"github.com/coregx/coregex/nfa"
)

func main() {
	cases := []struct{ name, p, h string }{
		{"firstBytes_beginAnchor_fixed", `^(?:a|^)`, "b"},
		{"firstBytes_emptyBranch_fixed", `^(?:ab|^)+x`, "x"},
		{"firstBytes_endLine_fixed", `^(?m:x|$\na)`, "\na"},
		{"firstBytes_endLine_fixed (2)", `^(?m:a|$)`, "\nb"},
		{"firstBytes_captureAnchor_fixed", `^(?:x|(^)a)`, "a"},
		{"firstBytes_captureAnchor_fixed (2)", `(?m:^)+((\A)(?m:$))a`, "a"},
		{"firstBytes_captureAnchor_fixed (3)", `(?m:^)+((\A)(?m:$))`, "a"},
		{"firstBytes_notAssertionOnly_nil", `^(?:\ba|x)`, "a"},
		{"firstBytes_notAssertionOnly_nil (2)", `^(?:(?:^)*a|x)`, "a"},
		{"firstBytes_notAssertionOnly_nil (3)", `^(?:(?:^|$)a|x)`, "a"},
		{"firstBytes_runeError_counterexample", `^\x{FFFD}`, "\xff"},
		{"  control: same literal, no filter", `(?:\x{FFFD})`, "\xff"},
		{"  control: same literal, no filter", `x|\x{FFFD}`, "\xff"},
		{"firstBytes_foldCase_fixed", `(?i)^ab`, "ab"},
		{"firstBytes_foldCase_fixed (k)", `^(?i:k)`, "K"},
		{"firstBytes_latin1_fixed", `^[é-ë]x`, "éx"},
		{"firstBytes_latin1_fixed (literal)", `^éx`, "éx"},
		{"firstBytes_endText_nil", `^(?:a|$)`, "b"},
		{"firstBytes_endText_nil (2)", `^(?:a|$b)`, "b"},
	}
	for _, c := range cases {
		re, err := syntax.Parse(c.p, syntax.Perl)
		if err != nil {
			fmt.Println(c.p, err)
			continue
		}
		fb := nfa.ExtractFirstBytes(re)
		eng, _ := meta.Compile(c.p)
		desc := "nil"
		if fb != nil {
			desc = fmt.Sprintf("count=%d complete=%v useful=%v contains(h[0])=%v", fb.Count(), fb.IsComplete(), fb.IsUseful(), fb.Contains(c.h[0]))
		}
		fmt.Printf("%-42s %-16q h=%-8q %s | regexp %v coregex %v (%v)\n", c.name, c.p, c.h, desc,
			regexp.MustCompile(c.p).FindStringIndex(c.h), coregex.MustCompile(c.p).FindStringIndex(c.h), eng.Strategy())
	}
}
