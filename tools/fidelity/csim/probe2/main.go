package main

import (
	"fmt"
	"regexp"

	"github.com/coregx/coregex"
	"github.com/coregx/coregex/meta"
)

func main() {
	for _, c := range []struct{ p, h string }{
		{`^(?:[^a]){2}`, "ń"}, {`[^a]{2}`, "ń"}, {`^[^a][^a]`, "ń"}, {`^[^a]{2}`, "ń"}, {`^[^a]{2}`, "℄"}, {`^[^a]{2}$`, "ń"}, {`^[^a]{3}`, "℄"},
		{`^[^\x00-\x7f]{2}`, "ń"}, {`^.{2}`, "ń"}, {`^(?:[^a]){2}`, "ńń"},
	} {
		eng, _ := meta.Compile(c.p)
		fmt.Printf("%-22q h=%-6q regexp %v coregex %v (%v)\n", c.p, c.h, regexp.MustCompile(c.p).FindStringIndex(c.h),
			coregex.MustCompile(c.p).FindStringIndex(c.h), eng.Strategy())
	}
}
