package main

import (
	"fmt"
	"runtime"
	"unicode"
)

func main() {
	var rs [][2]int
	start := -1
	n := 0
	for r := 0; r <= unicode.MaxRune+1; r++ {
		has := r <= unicode.MaxRune && unicode.SimpleFold(rune(r)) != rune(r)
		if has {
			n++
		}
		if has && start < 0 {
			start = r
		}
		if !has && start >= 0 {
			rs = append(rs, [2]int{start, r - 1})
			start = -1
		}
	}
	fmt.Printf("-- %s, Unicode %s: %d runes in %d ranges\n", runtime.Version(), unicode.Version, n, len(rs))
	for i, p := range rs {
		if i%8 == 0 {
			fmt.Printf("\n  ")
		}
		fmt.Printf("(0x%X, 0x%X)", p[0], p[1])
		if i != len(rs)-1 {
			fmt.Printf(", ")
		}
	}
	fmt.Println()
}
