// Throw-away fidelity check: the Lean model of Cx.Model.Fast (through cxdrv) vs the real Go functions
// around the three fixes (ExtractCharClassRanges / isValidCompositePart / anchored literal).
package main

import (
	"bufio"
	"bytes"
	"encoding/hex"
	"fmt"
	"os"
	"os/exec"
	"regexp"
	"regexp/syntax"
	"sort"
	"strings"

	"github.com/coregx/coregex/meta"
	"github.com/coregx/coregex/nfa"
)

func ast(re *syntax.Regexp) string {
	var nodes []string
	var walk func(r *syntax.Regexp)
	walk = func(r *syntax.Regexp) {
		fl := 0
		if r.Flags&syntax.NonGreedy != 0 {
			fl |= 1
		}
		if r.Flags&syntax.FoldCase != 0 {
			fl |= 2
		}
		rs := make([]string, len(r.Rune))
		for i, x := range r.Rune {
			rs[i] = fmt.Sprint(int(x))
		}
		nodes = append(nodes, fmt.Sprintf("%d/%d/%d/%s/%d/%d", int(r.Op), fl, len(r.Sub), strings.Join(rs, "."), r.Min, r.Max))
		for _, s := range r.Sub {
			walk(s)
		}
	}
	walk(re)
	return strings.Join(nodes, ",")
}

func hx(b []byte) string {
	if len(b) == 0 {
		return "-"
	}
	return hex.EncodeToString(b)
}

func tbl(t *[256]bool) string {
	if t == nil {
		return "-"
	}
	out := make([]byte, 32)
	for b := 0; b < 256; b++ {
		if t[b] {
			out[b/8] |= 1 << (b % 8)
		}
	}
	return hex.EncodeToString(out)
}

func span(s, e int, ok bool) string {
	if !ok {
		return "nil"
	}
	return fmt.Sprintf("%d,%d", s, e)
}

type pat struct {
	p     string
	alpha string // haystack alphabet
	group string
}

var pats = []pat{
	// ---- (1) char-class searcher: greedy / lazy / (?U) / star / non-ASCII / fold
	{`[a-c]+`, "ab1 ", "ccs"}, {`[a-c]+?`, "ab1 ", "ccs"}, {`(?U)[a-c]+`, "ab1 ", "ccs"}, {`(?U)[a-c]+?`, "ab1 ", "ccs"},
	{`\d+`, "ab1 ", "ccs"}, {`\d+?`, "ab1 ", "ccs"}, {`\w+`, "ab1 _", "ccs"}, {`\w+?`, "ab1 _", "ccs"},
	{`[a-c]*`, "ab1 ", "ccs"}, {`[a-c]*?`, "ab1 ", "ccs"}, {`[a-c]{1,}`, "ab1 ", "ccs"}, {`[a-c]{1,}?`, "ab1 ", "ccs"},
	{`[a-b\x{e9}]+`, "ab\xc3\xa9\xe9", "ccs"}, {`[a-b\x{e9}]+?`, "ab\xc3\xa9\xe9", "ccs"}, {`[a-bя]+`, "ab\xd1\x8f", "ccs"},
	{`(?i)[a-c]+`, "abAB1", "ccs"}, {`(?i)[a-c]+?`, "abAB1", "ccs"}, {`(?s)[^a]+`, "ab\n1", "ccs"}, {`[\x00-\x7f]+?`, "ab\n\xc3", "ccs"},
	{`([a-c])+`, "ab1 ", "ccs"}, {`a+`, "ab1 ", "ccs"}, {`a+?`, "ab1 ", "ccs"},
	// ---- (2) composite: greedy / lazy parts / {0} / {0,0} / {n,m} / Latin-1 / non-ASCII / fold
	{`[a-c]+[0-9]+`, "ab1 2", "comp"}, {`[a-c]+[0-9]+?`, "ab1 2", "comp"}, {`[a-c]+?[0-9]+`, "ab1 2", "comp"}, {`[a-c]*?[0-9]?`, "ab1 2", "comp"},
	{`(?U)[a-c]+[0-9]+`, "ab1 2", "comp"}, {`(?U)[a-c]+?[0-9]+?`, "ab1 2", "comp"}, {`[a-c]??[0-9]`, "ab1 2", "comp"}, {`[a-c]{1,2}?[0-9]`, "ab1 2", "comp"},
	{`[ab]{0}[bc]+`, "abc1", "comp"}, {`[ab]{0,0}[bc]+`, "abc1", "comp"}, {`[bc]+[ab]{0}`, "abc1", "comp"}, {`[ab]{0,1}[bc]+`, "abc1", "comp"},
	{`[ab]{0,}[bc]+`, "abc1", "comp"}, {`[ab]{2}[bc]+`, "abc1", "comp"}, {`[ab]{1,2}[bc]{2,}`, "abc1", "comp"}, {`[ab]{0}?[bc]+`, "abc1", "comp"},
	{`[a-b\x{e9}]+[0-9]+`, "a1\xc3\xa9\xe9", "comp"}, {`[a-b]+[0-9\x{e9}]+`, "a1\xc3\xa9\xe9", "comp"}, {`[a-b\x{e9}][0-9]+`, "a1\xc3\xa9\xe9", "comp"},
	{`[a-b\x{ff}]*[0-9]`, "a1\xc3\xbf\xff", "comp"}, {`[a-bя]+[0-9]+`, "a1\xd1\x8f", "comp"}, {`[a-b\x{100}]+[0-9]+`, "a1\xc4\x80", "comp"},
	{`[\x00-\x7f]+[0-9]`, "a1\n\xc3", "comp"}, {`[\x00-\x80]+[0-9]`, "a1\xc2\x80", "comp"}, {`[^a]+[0-9]`, "a1\n\xc3\xa9", "comp"},
	{`(?i)[a-b]+[0-9]+`, "aA1k", "comp"}, {`(?i)[k]+[0-9]+`, "kK1\xe2\x84\xaa", "comp"}, {`\w+\s\d+`, "a 1_", "comp"}, {`\w+?\s\d+`, "a 1_", "comp"},
	{`[ab][bc]`, "abc1", "comp"}, {`[ab]+[bc]+[cd]?`, "abcd", "comp"}, {`[ab]+[bc]+?[cd]?`, "abcd", "comp"}, {`[ab]+x`, "abx1", "comp"}, {`([ab]+)[bc]+`, "abc1", "comp"},
	// ---- (3) anchored literal: (?i), (?s), (?m), Latin-1 / non-ASCII literal, class bridge (ASCII, Latin-1, with \n), \n in haystack
	{`^a.*b$`, "ab\nx", "anch"}, {`(?s)^a.*b$`, "ab\nx", "anch"}, {`^a.+b$`, "ab\nx", "anch"}, {`(?s)^a.+b$`, "ab\nx", "anch"},
	{`^.*b$`, "ab\nx", "anch"}, {`(?s)^.*b$`, "ab\nx", "anch"}, {`\Aa.*b\z`, "ab\nx", "anch"}, {`(?m)^a.*b$`, "ab\nx", "anch"},
	{`(?i)^a.*b$`, "abAB\n", "anch"}, {`(?i)^.*b$`, "abAB\n", "anch"}, {`^(?i:a).*b$`, "abAB\n", "anch"}, {`^a.*(?i:b)$`, "abAB\n", "anch"}, {`(?i)^1.*2$`, "12a\n", "anch"},
	{`^.*\x{e9}$`, "a\xc3\xa9\xe9\n", "anch"}, {`^\x{e9}.*a$`, "a\xc3\xa9\xe9\n", "anch"}, {`^.*я$`, "a\xd1\x8f\n", "anch"}, {`^.*\x{ff}a$`, "a\xc3\xbf\xff", "anch"}, {`^.*\x{7f}$`, "a\x7f\n", "anch"}, {`^.*\x{80}$`, "a\xc2\x80", "anch"},
	{`^a.*[bc]+x$`, "abx\n", "anch"}, {`(?s)^a.*[bc]+x$`, "abx\n", "anch"}, {`^a.+[bc]+x$`, "abx\n", "anch"}, {`^a.*[b\n]+x$`, "abx\n", "anch"}, {`^a.+[b\n]+x$`, "abx\n", "anch"}, {`^.*\s+x$`, "a x\n", "anch"},
	{`^a.*[b\x{e9}]+x$`, "abx\xc3\xa9\xe9", "anch"}, {`^a.*[bя]+x$`, "abx\xd1\x8f", "anch"}, {`^a.*[^b]+x$`, "abx\n", "anch"}, {`(?i)^a.*[bc]+x$`, "abxB", "anch"}, {`^a.*(?i:[bc]+)x$`, "abxB", "anch"},
	{`^a.*?b$`, "ab\nx", "anch"}, {`^a.*[bc]*x$`, "abx\n", "anch"}, {`^a.*b.*c$`, "abc\n", "anch"}, {`^ab.*cd$`, "abcd\n", "anch"}, {`^a(?s:.)*b$`, "ab\nx", "anch"}, {`^a[^\n]*b$`, "ab\nx", "anch"},
}

type req struct {
	line, want, kind, pat string
}

func hays(alpha string, L int) [][]byte {
	var out [][]byte
	al := []byte(alpha)
	var gen func(pre []byte, l int)
	gen = func(pre []byte, l int) {
		out = append(out, append([]byte(nil), pre...))
		if l == 0 {
			return
		}
		for _, b := range al {
			gen(append(pre, b), l-1)
		}
	}
	gen(nil, L)
	return out
}

func main() {
	var reqs []req
	type propStat struct{ n, bad int }
	prop := map[string]*propStat{}
	propAdd := func(k string, ok bool, detail string) {
		s := prop[k]
		if s == nil {
			s = &propStat{}
			prop[k] = s
		}
		s.n++
		if !ok {
			s.bad++
			if s.bad <= 5 {
				fmt.Println("PROPERTY MISMATCH", k, detail)
			}
		}
	}
	accepted := map[string][]string{}
	for _, pt := range pats {
		re, err := syntax.Parse(pt.p, syntax.Perl)
		if err != nil {
			fmt.Println("parse error", pt.p, err)
			continue
		}
		std := regexp.MustCompile(pt.p)
		w := ast(re)
		L := 4
		if len(pt.alpha) >= 6 {
			L = 3
		}
		hs := hays(pt.alpha, L)

		// --- ExtractCharClassRanges
		rs := nfa.ExtractCharClassRanges(re)
		want := "nil"
		if rs != nil {
			var parts []string
			for _, r := range rs {
				parts = append(parts, fmt.Sprintf("%d-%d", r[0], r[1]))
			}
			want = strings.Join(parts, "_")
			accepted["ccs"] = append(accepted["ccs"], pt.p)
		}
		reqs = append(reqs, req{"re-ccs " + w, want, "ExtractCharClassRanges", pt.p})
		if rs != nil {
			s := nfa.NewCharClassSearcher(rs, 1)
			for _, h := range hs {
				for at := 0; at <= len(h); at++ {
					a, b, ok := s.SearchAt(h, at)
					loc := std.FindIndex(h[at:])
					exp := "nil"
					if loc != nil {
						exp = fmt.Sprintf("%d,%d", loc[0]+at, loc[1]+at)
					}
					propAdd("CharClassSearcher.SearchAt == regexp", span(a, b, ok) == exp, fmt.Sprintf("%q %q at=%d got %s want %s", pt.p, h, at, span(a, b, ok), exp))
				}
			}
		}

		// --- IsCompositeCharClassPattern / NewCompositeSearcher
		isc := nfa.IsCompositeCharClassPattern(re)
		reqs = append(reqs, req{"re-composite is 0 - " + w, fmt.Sprint(isc), "IsCompositeCharClassPattern", pt.p})
		if isc {
			accepted["comp"] = append(accepted["comp"], pt.p)
		}
		cs := nfa.NewCompositeSearcher(re)
		if pt.group != "anch" {
			for _, h := range hs {
				for at := 0; at <= len(h); at++ {
					want := "nil-searcher"
					if cs != nil {
						a, b, ok := cs.SearchAt(h, at)
						want = span(a, b, ok)
						if isc {
							loc := std.FindIndex(h[at:])
							exp := "nil"
							if loc != nil {
								exp = fmt.Sprintf("%d,%d", loc[0]+at, loc[1]+at)
							}
							propAdd("accepted ⇒ CompositeSearcher.SearchAt == regexp", want == exp, fmt.Sprintf("%q %q at=%d got %s want %s", pt.p, h, at, want, exp))
						}
					}
					reqs = append(reqs, req{fmt.Sprintf("re-composite search %d %s %s", at, hx(h), w), want, "CompositeSearcher.SearchAt", pt.p})
					if cs == nil {
						break
					}
				}
				if cs == nil {
					break
				}
			}
		} else {
			want := "nil-searcher"
			if cs != nil {
				a, b, ok := cs.SearchAt([]byte("ab"), 0)
				want = span(a, b, ok)
			}
			reqs = append(reqs, req{"re-composite search 0 6162 " + w, want, "CompositeSearcher.SearchAt", pt.p})
		}

		// --- DetectAnchoredLiteral / MatchAnchoredLiteral
		info := meta.DetectAnchoredLiteral(re)
		want = "nil"
		if info != nil {
			nl := 0
			if info.WildcardMatchesNewline {
				nl = 1
			}
			want = fmt.Sprintf("%s/%s/%s/%d/%d/%d/%d", hx(info.Prefix), hx(info.Suffix), tbl(info.CharClassTable), info.CharClassMin, info.WildcardMin, info.MinLength, nl)
			accepted["anch"] = append(accepted["anch"], pt.p)
		}
		reqs = append(reqs, req{"re-anchlit info - " + w, want, "DetectAnchoredLiteral", pt.p})
		if pt.group == "anch" {
			for _, h := range hs {
				want := "nil"
				if info != nil {
					m := meta.MatchAnchoredLiteral(h, info)
					want = fmt.Sprint(m)
					if !strings.Contains(pt.p, "(?m)") {
						propAdd("detected ⇒ MatchAnchoredLiteral == regexp.Match", m == std.Match(h), fmt.Sprintf("%q %q got %v", pt.p, h, m))
					}
				}
				reqs = append(reqs, req{fmt.Sprintf("re-anchlit match %s %s", hx(h), w), want, "MatchAnchoredLiteral", pt.p})
				if info == nil {
					break
				}
			}
		}
	}

	// run the driver
	cmd := exec.Command("../.lake/build/bin/cxdrv")
	var in bytes.Buffer
	for _, r := range reqs {
		in.WriteString(r.line)
		in.WriteByte('\n')
	}
	cmd.Stdin = &in
	outp, err := cmd.Output()
	if err != nil {
		fmt.Println("driver error", err)
		os.Exit(1)
	}
	sc := bufio.NewScanner(bytes.NewReader(outp))
	sc.Buffer(make([]byte, 1<<20), 1<<20)
	type st struct{ n, bad int }
	stats := map[string]*st{}
	i := 0
	for sc.Scan() {
		if i >= len(reqs) {
			fmt.Println("too many answers")
			break
		}
		r := reqs[i]
		i++
		s := stats[r.kind]
		if s == nil {
			s = &st{}
			stats[r.kind] = s
		}
		s.n++
		if sc.Text() != r.want {
			s.bad++
			if s.bad <= 8 {
				fmt.Printf("MODEL MISMATCH %s pattern %q request %q: model %q, code %q\n", r.kind, r.pat, r.line, sc.Text(), r.want)
			}
		}
	}
	if i != len(reqs) {
		fmt.Printf("answers %d != requests %d\n", i, len(reqs))
	}
	fmt.Printf("patterns: %d   requests: %d\n", len(pats), len(reqs))
	var ks []string
	for k := range stats {
		ks = append(ks, k)
	}
	sort.Strings(ks)
	for _, k := range ks {
		fmt.Printf("  model tie   %-28s comparisons %7d  mismatches %d\n", k, stats[k].n, stats[k].bad)
	}
	ks = ks[:0]
	for k := range prop {
		ks = append(ks, k)
	}
	sort.Strings(ks)
	for _, k := range ks {
		fmt.Printf("  property    %-50s comparisons %7d  mismatches %d\n", k, prop[k].n, prop[k].bad)
	}
	for _, g := range []string{"ccs", "comp", "anch"} {
		fmt.Printf("  accepted by %s predicate (%d): %q\n", g, len(accepted[g]), accepted[g])
	}
}
