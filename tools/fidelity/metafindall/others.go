// Fidelity of the Lean models Cx.Model.RevAnchored / RevSuffixSet / MultilineRevSuffix against
// meta/reverse_anchored.go, meta/reverse_suffix_set.go, meta/reverse_suffix_multiline.go (same method as inner.go).
package main

import (
	"bytes"
	"fmt"
	"regexp"
	"sort"
	"strings"
	"sync"
	"unsafe"

	"github.com/coregx/coregex/literal"
	"github.com/coregx/coregex/meta"
)

type simpleStats struct {
	requests, findCmp, isMatchCmp int
	modelVsReal, modelVsRegexp    int
	engineVsSearcher              int
	pfContract                    int
	lineViol                      int
	examples                      []string
}

func (s *simpleStats) note(f string, a ...any) {
	if len(s.examples) < 40 {
		s.examples = append(s.examples, fmt.Sprintf(f, a...))
	}
}

func (s *simpleStats) add(o *simpleStats) {
	s.requests += o.requests
	s.findCmp += o.findCmp
	s.isMatchCmp += o.isMatchCmp
	s.modelVsReal += o.modelVsReal
	s.modelVsRegexp += o.modelVsRegexp
	s.engineVsSearcher += o.engineVsSearcher
	s.pfContract += o.pfContract
	s.lineViol += o.lineViol
	for _, e := range o.examples {
		s.note("%s", e)
	}
}

func (s *simpleStats) print(what string) {
	fmt.Printf("%s comparisons: %d, IsMatch comparisons: %d, model requests: %d\n", what, s.findCmp, s.isMatchCmp, s.requests)
	fmt.Printf("model != real searcher: %d\nmodel != regexp: %d\nengine != searcher: %d\n", s.modelVsReal, s.modelVsRegexp, s.engineVsSearcher)
}

func alphaOf(parts ...[]byte) []byte {
	var a []byte
	for _, p := range parts {
		for _, c := range p {
			if !bytes.Contains(a, []byte{c}) {
				a = append(a, c)
			}
		}
	}
	return a
}

func exhaustiveFor(alpha []byte, short bool) [][]byte {
	maxLen := 4
	switch {
	case len(alpha) <= 2:
		maxLen = 10
	case len(alpha) == 3:
		maxLen = 8
	case len(alpha) == 4:
		maxLen = 6
	case len(alpha) == 5:
		maxLen = 5
	case len(alpha) == 6:
		maxLen = 4
	default:
		alpha = alpha[:7]
		maxLen = 4
	}
	if short {
		maxLen--
	}
	return exhaustive(alpha, maxLen)
}

// ---------------------------------------------------------------------------------------------------------------------
// UseReverseAnchored

type anchTarget struct {
	pat        string
	eng        *meta.Engine
	srch       *meta.ReverseAnchoredSearcher
	re, reFull *regexp.Regexp
	fill       []byte
}

func anchoredPatterns() (pats []string, fill map[string][]byte) {
	fill = map[string][]byte{}
	type part struct {
		s string
		f []byte
	}
	bodies := []part{
		{`abc`, []byte("abc")}, {`a+`, []byte("ab")}, {`[a-z]+`, []byte("a0")}, {`.*foo`, []byte("fo")}, {`(?:a|b)`, []byte("abc")},
		{`(a|ab)(c|bcd)`, []byte("abcd")}, {`\d+\.\d+`, []byte("1.")}, {`.*`, []byte("a")}, {`a*`, []byte("ab")}, {``, []byte("a")},
		{`.+`, []byte("a")}, {`a.*b`, []byte("ab")}, {`a.*?b`, []byte("ab")}, {`(?s).*a`, []byte("ab")}, {`[^a]+`, []byte("ab")},
		{`\w+@\w+`, []byte("a@")}, {`a?b?`, []byte("ab")}, {`(?:ab)+`, []byte("ab")}, {`(a+)(b*)`, []byte("ab")}, {`a|bc`, []byte("abc")},
		{`.*\.txt`, []byte("a.tx")}, {`[a-c]{2,3}`, []byte("abcd")}, {`x*yz`, []byte("xyz")}, {`(?i)ab`, []byte("aAb")}, {`a\n?`, []byte("a")},
		{`[ab]*a`, []byte("ab")}, {`(?:a|ab)+`, []byte("ab")}, {`a+?`, []byte("ab")}, {`.?a`, []byte("ab")}, {`(?:|a)b`, []byte("ab")},
		{`\s+`, []byte(" a")}, {`a{2}`, []byte("ab")}, {`(?U)a+`, []byte("ab")}, {`[a\n]+`, []byte("ab")}, {`(?s:.)a`, []byte("ab")},
		{`ab*c?`, []byte("abc")}, {`(?:a*b)*`, []byte("ab")}, {`.{2,3}`, []byte("ab")}, {`\S+\s\S+`, []byte("a ")}, {`(a)(b)?`, []byte("ab")},
		{`b+a`, []byte("ab")}, {`[^\n]*`, []byte("ab")}, {`a.`, []byte("ab")}, {`.a.`, []byte("ab")}, {`(?:aa|a)`, []byte("ab")},
		{`a[ab]*b`, []byte("ab")}, {`(?:ab|b)a*`, []byte("ab")}, {`a*b*`, []byte("ab")}, {`a+b+`, []byte("ab")}, {`(?:a|b)*c`, []byte("abc")},
		{`foo|fo`, []byte("fo")}, {`f(?:oo|o)`, []byte("fo")}, {`[0-9]+[a-z]*`, []byte("1a")}, {`-?\d+`, []byte("-1")}, {`(?:a.)+`, []byte("ab")},
	}
	ends := []string{`$`, `\z`, `(?:$)`, `($)`}
	for _, b := range bodies {
		for _, e := range ends {
			for _, w := range []string{"%s%s", "(?:%s)%s", "(%s)%s"} {
				pat := fmt.Sprintf(w, b.s, e)
				if _, dup := fill[pat]; dup {
					continue
				}
				pats = append(pats, pat)
				fill[pat] = b.f
			}
		}
	}
	extra := map[string][]byte{
		`a$|b$`: []byte("ab"), `(?:a$|bc$)`: []byte("abc"), `(a$)|(b\z)`: []byte("ab"), `a+$|b`: []byte("ab"), `(?m)a$`: []byte("a"),
		`a$$`: []byte("ab"), `.*a$|.*b$`: []byte("ab"), `(?:a|b$)`: []byte("ab"), `a*$|b+$`: []byte("ab"), `(?s).*$`: []byte("a"),
	}
	var ks []string
	for k := range extra {
		ks = append(ks, k)
	}
	sort.Strings(ks)
	for _, k := range ks {
		if _, dup := fill[k]; !dup {
			pats = append(pats, k)
			fill[k] = extra[k]
		}
	}
	return
}

func runAnchored(drv string, workers int, only string, listOnly, short bool) {
	pats, fill := anchoredPatterns()
	if only != "" {
		pats = []string{only}
		if fill[only] == nil {
			fill[only] = []byte("ab")
		}
	}
	var targets []*anchTarget
	skipped := map[string]int{}
	for _, p := range pats {
		re, err := regexp.Compile(p)
		if err != nil {
			skipped["regexp error"]++
			continue
		}
		eng, err := meta.Compile(p)
		if err != nil {
			skipped["coregex error"]++
			continue
		}
		if eng.Strategy() != meta.UseReverseAnchored {
			skipped["strategy "+eng.Strategy().String()]++
			if listOnly {
				fmt.Printf("skip %-24q %s\n", p, eng.Strategy())
			}
			continue
		}
		sf := searcherField(eng, "reverseSearcher")
		if !sf.IsValid() || sf.IsNil() {
			skipped["no searcher"]++
			continue
		}
		if listOnly {
			fmt.Printf("use  %-24q\n", p)
		}
		targets = append(targets, &anchTarget{pat: p, eng: eng, re: re, reFull: regexp.MustCompile(`\A(?:` + p + `)\z`), fill: fill[p],
			srch: (*meta.ReverseAnchoredSearcher)(unsafe.Pointer(sf.Pointer()))})
	}
	fmt.Printf("patterns generated: %d, selecting UseReverseAnchored: %d, skipped: %v\n", len(pats), len(targets), skipped)
	if listOnly {
		return
	}
	var total simpleStats
	var fd findings
	var mu sync.Mutex
	nh := 0
	parallel(targets, workers, func(t *anchTarget) {
		d := newDriver(drv)
		var st simpleStats
		alpha := alphaOf(t.fill, []byte{'\n'})
		hays := exhaustiveFor(alpha, short)
		hays = append(hays, bytes.Repeat(t.fill, 7), append(bytes.Repeat(t.fill[:1], 20), t.fill...), append([]byte("é"), t.fill...))
		var reqs []string
		type q struct {
			h             []byte
			real, ref     string
			realIs, refIs bool
		}
		var qs []q
		for _, h := range hays {
			real := "none"
			if m := t.srch.Find(h); m != nil {
				real = fmt.Sprintf("%d.%d", m.Start(), m.End())
			}
			realIs := t.srch.IsMatch(h)
			ref := span(t.re.FindIndex(h))
			refIs := t.re.Match(h)
			if comparable(t.pat, h) {
				if real != ref {
					fd.add(finding{"Find", t.pat, string(h), 0, real, ref})
				}
				if realIs != refIs {
					fd.add(finding{"IsMatch", t.pat, string(h), 0, fmt.Sprint(realIs), fmt.Sprint(refIs)})
				}
			}
			s2, e2, ok2 := t.eng.FindIndices(h)
			er := "none"
			if ok2 {
				er = fmt.Sprintf("%d.%d", s2, e2)
			}
			if er != real || t.eng.IsMatch(h) != realIs {
				st.engineVsSearcher++
				st.note("ENGINE != searcher pat=%q hay=%q engine=%s searcher=%s", t.pat, h, er, real)
			}
			reqs = append(reqs, fmt.Sprintf("revanch run %s %s %s", hx(h), pairTable(t.reFull, h), strings.ReplaceAll(ref, "none", "x")))
			qs = append(qs, q{h, real, ref, realIs, refIs})
		}
		ans := d.ask(reqs)
		st.requests += len(reqs)
		for i, a := range ans {
			fs := strings.Fields(a)
			if len(fs) != 2 {
				st.modelVsReal++
				st.note("BAD ANSWER %q", a)
				continue
			}
			st.findCmp++
			st.isMatchCmp++
			if fs[0] != qs[i].real || (fs[1] == "true") != qs[i].realIs {
				st.modelVsReal++
				st.note("model=%s/%s real=%s/%v regexp=%s pat=%q hay=%q", fs[0], fs[1], qs[i].real, qs[i].realIs, qs[i].ref, t.pat, qs[i].h)
			}
			if fs[0] != qs[i].ref || (fs[1] == "true") != qs[i].refIs {
				st.modelVsRegexp++
				st.note("model=%s/%s regexp=%s/%v pat=%q hay=%q", fs[0], fs[1], qs[i].ref, qs[i].refIs, t.pat, qs[i].h)
			}
		}
		mu.Lock()
		total.add(&st)
		nh += len(hays)
		mu.Unlock()
	})
	fmt.Printf("haystacks: %d\n", nh)
	total.print("Find")
	fd.print()
	for _, e := range total.examples {
		fmt.Println("  ", e)
	}
}

// ---------------------------------------------------------------------------------------------------------------------
// UseReverseSuffixSet

type setTarget struct {
	pat        string
	eng        *meta.Engine
	srch       *meta.ReverseSuffixSetSearcher
	re, reFull *regexp.Regexp
	lits       [][]byte
	mz, lb     bool
	rec        *recPf
	fill       []byte
}

func setPatterns() (pats []string, fill map[string][]byte) {
	fill = map[string][]byte{}
	type part struct {
		s string
		f []byte
	}
	pres := []part{
		{`.*`, []byte("a0")}, {`.+`, []byte("a0")}, {`[a-z]+`, []byte("a0")}, {`\w+`, []byte("a-")}, {`.*?`, []byte("a0")}, {`(?s).*`, []byte("a0")},
		{`[^\n]+`, []byte("a0")}, {`[a-z.]+`, []byte("a0")}, {`[0-9][a-z.]+`, []byte("0a")}, {`(.*)`, []byte("a0")}, {`.+?`, []byte("a0")},
		{`[a-z]*`, []byte("a0")}, {`(?s:.+)`, []byte("a0")}, {`.*[0-9]`, []byte("a0")}, {`a.*`, []byte("ab")}, {`[^a]+`, []byte("ba")},
		{`\S+`, []byte("a ")}, {`[a-z]{2,}`, []byte("a0")}, {`.*\d?`, []byte("a0")}, {`(?i)[a-z]+`, []byte("aA")}, {`(?:a|b)+`, []byte("ab")},
		{`.*a+`, []byte("ab")}, {`[ab]+?`, []byte("ab")}, {`(?U).*`, []byte("a0")}, {`.{1,3}`, []byte("a0")},
		{`[a-z]+\d*`, []byte("a0")}, {`.*x?`, []byte("ax")}, {`\w+\s*`, []byte("a ")}, {`[^\n]*`, []byte("a0")}, {`(.+)`, []byte("a0")},
		{`(?s).+?`, []byte("a0")}, {`.*[a-z]`, []byte("a0")}, {`[a-z0-9]+`, []byte("a0")}, {`.+a*`, []byte("ab")}, {`([a-z]+)`, []byte("a0")},
	}
	alts := []string{`\.(?:txt|log|md)`, `(?:foo|bar)`, `(?:ab|cd|ef)`, `(?:\.txt|\.csv)`, `(?:ab|ba)`, `(?:aab|aba)`, `\.(txt|log)`, `(?:xy|yx|zz)`,
		`(?:ab|b!)`, `(?:\.c|\.h)`, `(?:txt|log)\b?`, `(foo|bar|baz)`, `(?:abc|xbd)`, `(?:\.cpp|\.c)`, `(?:ab|ac)`, `_(?:one|two)`,
		`(?:\.go|\.rs|\.py)`, `(?:aa|bb)`}
	for _, p := range pres {
		for _, a := range alts {
			pat := p.s + a
			if _, dup := fill[pat]; dup {
				continue
			}
			pats = append(pats, pat)
			fill[pat] = p.f
		}
	}
	return
}

func runSet(drv string, workers int, only string, listOnly, short bool, mutate string) {
	pats, fill := setPatterns()
	if only != "" {
		pats = []string{only}
		if fill[only] == nil {
			fill[only] = []byte("a0")
		}
	}
	var targets []*setTarget
	skipped := map[string]int{}
	for _, p := range pats {
		re, err := regexp.Compile(p)
		if err != nil {
			skipped["regexp error"]++
			continue
		}
		eng, err := meta.Compile(p)
		if err != nil {
			skipped["coregex error"]++
			continue
		}
		if eng.Strategy() != meta.UseReverseSuffixSet {
			skipped["strategy "+eng.Strategy().String()]++
			if listOnly {
				fmt.Printf("skip %-30q %s\n", p, eng.Strategy())
			}
			continue
		}
		sf := searcherField(eng, "reverseSuffixSetSearcher")
		if !sf.IsValid() || sf.IsNil() {
			skipped["no searcher"]++
			continue
		}
		s := sf.Elem()
		t := &setTarget{pat: p, eng: eng, re: re, reFull: regexp.MustCompile(`\A(?:` + p + `)\z`), fill: fill[p],
			srch: (*meta.ReverseSuffixSetSearcher)(unsafe.Pointer(sf.Pointer()))}
		seq := (*literal.Seq)(unsafe.Pointer(s.FieldByName("suffixLiterals").Pointer()))
		t.lits = seqBytes(seq)
		t.mz = s.FieldByName("matchStartZero").Bool()
		t.lb = s.FieldByName("lineBounded").Bool()
		t.rec = wrapPrefilter(s)
		if listOnly {
			fmt.Printf("use  %-30q lits=%q matchStartZero=%v lineBounded=%v\n", p, t.lits, t.mz, t.lb)
		}
		switch mutate {
		case "mz":
			t.mz = !t.mz
		case "lb":
			t.lb = true
		}
		targets = append(targets, t)
	}
	fmt.Printf("patterns generated: %d, selecting UseReverseSuffixSet: %d, skipped: %v\n", len(pats), len(targets), skipped)
	nmz, nlb := 0, 0
	for _, t := range targets {
		if t.mz {
			nmz++
		}
		if t.lb {
			nlb++
		}
	}
	fmt.Printf("  matchStartZero: %d, lineBounded: %d\n", nmz, nlb)
	if listOnly {
		return
	}
	var total simpleStats
	var fd findings
	var mu sync.Mutex
	nh := 0
	pols := []string{"00", "10", "20", "01", "11", "21"}
	parallel(targets, workers, func(t *setTarget) {
		d := newDriver(drv)
		var st simpleStats
		hays := setHaystacks(t, short)
		var reqs []string
		type q struct {
			h             []byte
			pol           string
			real, ref     []string
			realIs, refIs bool
		}
		var qs []q
		reqBytes := 0
		flush := func() {
			if len(reqs) == 0 {
				return
			}
			ans := d.ask(reqs)
			st.requests += len(reqs)
			for i, a := range ans {
				im, as, ok := splitAnswers(a)
				if !ok || len(as) != len(qs[i].h)+1 {
					st.modelVsReal++
					st.note("BAD ANSWER %q", a[:min(len(a), 100)])
					continue
				}
				st.isMatchCmp++
				if im != qs[i].realIs {
					st.modelVsReal++
					st.note("ISMATCH model=%v real=%v pat=%q hay=%q pol=%s", im, qs[i].realIs, t.pat, qs[i].h, qs[i].pol)
				}
				if im != qs[i].refIs {
					st.modelVsRegexp++
					st.note("ISMATCH model=%v regexp=%v pat=%q hay=%q pol=%s", im, qs[i].refIs, t.pat, qs[i].h, qs[i].pol)
				}
				for at, sp := range as {
					st.findCmp++
					if sp != qs[i].real[at] {
						st.modelVsReal++
						st.note("FIND model=%s real=%s regexp=%s pat=%q hay=%q at=%d pol=%s", sp, qs[i].real[at], qs[i].ref[at], t.pat, qs[i].h, at, qs[i].pol)
					}
					if sp != qs[i].ref[at] {
						st.modelVsRegexp++
						st.note("FIND model=%s regexp=%s pat=%q hay=%q at=%d pol=%s", sp, qs[i].ref[at], t.pat, qs[i].h, at, qs[i].pol)
					}
				}
			}
			reqs, qs, reqBytes = reqs[:0], qs[:0], 0
		}
		for hi, h := range hays {
			mt := pairTable(t.reFull, h)
			rt, refs := refTable(t.re, h)
			n := len(h)
			cmp := comparable(t.pat, h)
			realIs := t.srch.IsMatch(h)
			refIs := refs[0] != nil
			if realIs != refIs && cmp {
				fd.add(finding{"IsMatch", t.pat, string(h), 0, fmt.Sprint(realIs), fmt.Sprint(refIs)})
			}
			if t.eng.IsMatch(h) != realIs {
				st.engineVsSearcher++
			}
			real := make([]string, n+1)
			ref := make([]string, n+1)
			for at := 0; at <= n; at++ {
				t.rec.calls = t.rec.calls[:0]
				s, e, ok := t.srch.FindIndicesAt(h, at)
				real[at] = "none"
				if ok {
					real[at] = fmt.Sprintf("%d.%d", s, e)
				}
				for _, c := range t.rec.calls {
					if want := firstLit(h, t.lits, c[0]); c[1] != want {
						st.pfContract++
						st.note("PREFILTER Find(%q,%d)=%d want %d pat=%q lits=%q", h, c[0], c[1], want, t.pat, t.lits)
					}
				}
				ref[at] = span(refs[at])
				if real[at] != ref[at] && cmp {
					fd.add(finding{"FindIndicesAt", t.pat, string(h), at, real[at], ref[at]})
				}
				s2, e2, ok2 := t.eng.FindIndicesAt(h, at)
				if ok2 != ok || (ok && (s2 != s || e2 != e)) {
					st.engineVsSearcher++
					st.note("ENGINE FindIndicesAt != searcher pat=%q hay=%q at=%d", t.pat, h, at)
				}
			}
			for _, pol := range []string{pols[hi%len(pols)], pols[(hi/len(pols)+1)%len(pols)]} {
				r := fmt.Sprintf("revsfxset run * %s %s %s%s%s %s %s", hx(h), hexList(t.lits), b01(t.mz), b01(t.lb), pol, mt, rt)
				reqBytes += len(r)
				reqs = append(reqs, r)
				qs = append(qs, q{h, pol, real, ref, realIs, refIs})
			}
			if len(reqs) >= 5000 || reqBytes >= 8<<20 {
				flush()
			}
		}
		flush()
		mu.Lock()
		total.add(&st)
		nh += len(hays)
		mu.Unlock()
	})
	fmt.Printf("haystacks: %d\n", nh)
	total.print("FindIndicesAt")
	fmt.Printf("real prefilter answers != leftmost literal occurrence: %d\n", total.pfContract)
	fd.print()
	for _, e := range total.examples {
		fmt.Println("  ", e)
	}
}

func setHaystacks(t *setTarget, short bool) [][]byte {
	var hays [][]byte
	tokens := [][]byte{}
	for _, l := range t.lits {
		tokens = append(tokens, l)
		if len(l) > 1 {
			tokens = append(tokens, l[:1], l[:len(l)-1])
		}
	}
	for _, f := range t.fill {
		tokens = append(tokens, []byte{f})
	}
	tokens = append(tokens, []byte{'\n'})
	maxL := 0
	for _, l := range t.lits {
		if len(l) > maxL {
			maxL = len(l)
		}
	}
	lim := 6000
	if short {
		lim = 1200
	}
	for ml := maxL + 1; ml <= maxL+7; ml++ {
		hs := tokenHays(tokens, ml)
		if len(hs) > lim {
			break
		}
		hays = hs
	}
	alpha := alphaOf(bytes.Join(t.lits, nil), t.fill, []byte{'\n'})
	if len(alpha) <= 5 {
		hays = append(hays, exhaustiveFor(alpha, short)...)
	}
	rep := func(b []byte, k int) []byte { return bytes.Repeat(b, k) }
	cat := func(parts ...[]byte) []byte { return bytes.Join(parts, nil) }
	f := t.fill[0]
	l0, l1 := t.lits[0], t.lits[len(t.lits)-1]
	for _, k := range []int{5, 12} {
		hays = append(hays,
			rep(l0, k), rep(cat(l0, l1), k), cat([]byte{f}, rep(l1, k)), rep(cat([]byte{f}, l0), k),
			rep(cat([]byte{f, f}, l1, []byte{'\n'}), k/2), cat(rep([]byte{'\n'}, 2), rep(l0, k), []byte{'\n', f}, l1),
			cat(rep(cat([]byte{'0'}, l0), k), []byte{f}, l1, l0), cat([]byte{f}, l0, l1, []byte{f}, l1, l0),
		)
	}
	hays = append(hays, cat([]byte("é"), l0), cat([]byte{f}, []byte("日"), l1))
	return dedupe(hays)
}

// ---------------------------------------------------------------------------------------------------------------------
// UseMultilineReverseSuffix

type mlTarget struct {
	pat         string
	eng         *meta.Engine
	srch        *meta.MultilineReverseSuffixSearcher
	lits        [][]byte
	prefix, suf []byte
	shape       bool
	minGap      int
	rec         *recPf
	fill        []byte
	anchRe      map[int]*regexp.Regexp
	mu          sync.Mutex
}

// the end of the leftmost-first match of the pattern starting exactly at s, in the context of the whole haystack
func (t *mlTarget) anchAt(h []byte, s int) int {
	t.mu.Lock()
	re := t.anchRe[s]
	if re == nil {
		re = regexp.MustCompile(fmt.Sprintf(`\A(?s:.{%d})((?:%s))`, s, t.pat))
		t.anchRe[s] = re
	}
	t.mu.Unlock()
	loc := re.FindSubmatchIndex(h)
	if loc == nil {
		return -1
	}
	return loc[3]
}

func mlPatterns() (pats []string, fill map[string][]byte) {
	fill = map[string][]byte{}
	type part struct {
		s string
		f []byte
	}
	heads := []part{{``, nil}, {`/`, []byte("/")}, {`a`, []byte("a")}, {`ab`, []byte("ab")}, {`(?:a|b)`, []byte("ab")}, {`\d`, []byte("1")}, {`[a-c]`, []byte("abc")}}
	wilds := []part{{`.*`, []byte("x")}, {`.+`, []byte("x")}, {`[a-z]+`, []byte("x1")}, {`.*?`, []byte("x")}, {`.*[\w-]+`, []byte("x-")},
		{`[^\n]+`, []byte("x")}, {`.*a.*`, []byte("ax")}, {`\w+\s.*`, []byte("x ")}, {`(.*)`, []byte("x")}, {`.+?`, []byte("x")}, {`[a-z]+\d*`, []byte("x1")},
		{`.*\d`, []byte("x1")}}
	sufs := []string{`\.php`, `z`, `xy`, `\.t`, `!`, `zz`, `(?:\.php)`, `end`}
	for _, hd := range heads {
		for _, w := range wilds {
			for _, s := range sufs {
				pat := `(?m)^` + hd.s + w.s + s
				if _, dup := fill[pat]; dup {
					continue
				}
				pats = append(pats, pat)
				fill[pat] = append(append([]byte{}, hd.f...), w.f...)
			}
		}
	}
	extra := map[string][]byte{
		`(?m)^(/.*\.php)`: []byte("/x"), `((?m)^.*z)`: []byte("x"), `(?m:^).*z`: []byte("x"), `(?m)^.*z$`: []byte("x"), `(?m)(?:^).+z`: []byte("x"),
		`(?m)^.*z|^.*y`: []byte("xy"), `(?m)^(?:.*z)`: []byte("x"), `(?m)^.*(?:y|x)z`: []byte("xy"), `(?m)^a*.*z`: []byte("ax"),
	}
	var ks []string
	for k := range extra {
		ks = append(ks, k)
	}
	sort.Strings(ks)
	for _, k := range ks {
		if _, dup := fill[k]; !dup {
			pats = append(pats, k)
			fill[k] = extra[k]
		}
	}
	return
}

func runMultiline(drv string, workers int, only string, listOnly, short bool, mutate string) {
	pats, fill := mlPatterns()
	if only != "" {
		pats = []string{only}
		if fill[only] == nil {
			fill[only] = []byte("x/")
		}
	}
	var targets []*mlTarget
	skipped := map[string]int{}
	for _, p := range pats {
		if _, err := regexp.Compile(p); err != nil {
			skipped["regexp error"]++
			continue
		}
		eng, err := meta.Compile(p)
		if err != nil {
			skipped["coregex error"]++
			continue
		}
		if eng.Strategy() != meta.UseMultilineReverseSuffix {
			skipped["strategy "+eng.Strategy().String()]++
			if listOnly {
				fmt.Printf("skip %-30q %s\n", p, eng.Strategy())
			}
			continue
		}
		sf := searcherField(eng, "multilineReverseSuffixSearcher")
		if !sf.IsValid() || sf.IsNil() {
			skipped["no searcher"]++
			continue
		}
		s := sf.Elem()
		t := &mlTarget{pat: p, eng: eng, fill: fill[p], anchRe: map[int]*regexp.Regexp{},
			srch: (*meta.MultilineReverseSuffixSearcher)(unsafe.Pointer(sf.Pointer()))}
		t.lits = seqBytes(newExtractor().ExtractSuffixes(parsePerl(p)))
		if pb := s.FieldByName("prefixBytes"); !pb.IsNil() {
			t.prefix = append([]byte{}, pb.Bytes()...)
		}
		t.suf = append([]byte{}, s.FieldByName("suffixBytes").Bytes()...)
		if int(s.FieldByName("suffixLen").Int()) != len(t.suf) {
			skipped["suffixLen != len(suffixBytes)"]++
			continue
		}
		t.shape = s.FieldByName("literalShape").Bool()
		t.minGap = int(s.FieldByName("minGap").Int())
		t.rec = wrapPrefilter(s)
		if listOnly {
			fmt.Printf("use  %-30q lits=%q prefix=%q suffix=%q literalShape=%v minGap=%d\n", p, t.lits, t.prefix, t.suf, t.shape, t.minGap)
		}
		switch mutate {
		case "shape":
			t.shape = !t.shape
		case "prefix":
			t.prefix = []byte("q")
		}
		targets = append(targets, t)
	}
	fmt.Printf("patterns generated: %d, selecting UseMultilineReverseSuffix: %d, skipped: %v\n", len(pats), len(targets), skipped)
	ns, np := 0, 0
	for _, t := range targets {
		if t.shape {
			ns++
		}
		if len(t.prefix) > 0 {
			np++
		}
	}
	fmt.Printf("  literalShape: %d, with prefixBytes: %d\n", ns, np)
	if listOnly {
		return
	}
	var total simpleStats
	var fd findings
	var mu sync.Mutex
	nh := 0
	parallel(targets, workers, func(t *mlTarget) {
		d := newDriver(drv)
		var st simpleStats
		hays := mlHaystacks(t, short)
		var reqs []string
		type q struct {
			h             []byte
			real, ref     []string
			realIs, refIs bool
		}
		var qs []q
		reqBytes := 0
		flush := func() {
			if len(reqs) == 0 {
				return
			}
			ans := d.ask(reqs)
			st.requests += len(reqs)
			for i, a := range ans {
				im, as, ok := splitAnswers(a)
				if !ok || len(as) != len(qs[i].h)+1 {
					st.modelVsReal++
					st.note("BAD ANSWER %q for %s", a[:min(len(a), 100)], reqs[i][:min(len(reqs[i]), 150)])
					continue
				}
				st.isMatchCmp++
				if im != qs[i].realIs {
					st.modelVsReal++
					st.note("ISMATCH model=%v real=%v pat=%q hay=%q", im, qs[i].realIs, t.pat, qs[i].h)
				}
				if im != qs[i].refIs {
					st.modelVsRegexp++
					st.note("ISMATCH model=%v regexp=%v pat=%q hay=%q", im, qs[i].refIs, t.pat, qs[i].h)
				}
				for at, one := range as {
					sp := one
					if k := strings.IndexByte(one, '/'); k >= 0 {
						sp = one[:k]
					}
					st.findCmp++
					if sp != qs[i].real[at] {
						st.modelVsReal++
						st.note("FIND model=%s real=%s regexp=%s pat=%q hay=%q at=%d", sp, qs[i].real[at], qs[i].ref[at], t.pat, qs[i].h, at)
					}
					if sp != qs[i].ref[at] {
						st.modelVsRegexp++
						st.note("FIND model=%s regexp=%s pat=%q hay=%q at=%d", sp, qs[i].ref[at], t.pat, qs[i].h, at)
					}
					// linearity: the lines handed to matchLine are disjoint and ordered
					prev := -1
					if ls := slashField(one, "lines"); ls != "-" && ls != "" {
						for _, w := range strings.Split(ls, ",") {
							var lo, hi int
							fmt.Sscanf(w, "%d.%d", &lo, &hi)
							if lo <= prev || hi < lo {
								st.lineViol++
								st.note("LINES %s pat=%q hay=%q at=%d", ls, t.pat, qs[i].h, at)
							}
							prev = hi
						}
					}
				}
			}
			reqs, qs, reqBytes = reqs[:0], qs[:0], 0
		}
		for _, h := range hays {
			n := len(h)
			anch := make([]int, n+1)
			as := make([]string, n+1)
			for s := 0; s <= n; s++ {
				anch[s] = t.anchAt(h, s)
				as[s] = "x"
				if anch[s] >= 0 {
					as[s] = fmt.Sprint(anch[s])
				}
			}
			real := make([]string, n+1)
			ref := make([]string, n+1)
			for at := n; at >= 0; at-- {
				if anch[at] >= 0 {
					ref[at] = fmt.Sprintf("%d.%d", at, anch[at])
				} else if at < n {
					ref[at] = ref[at+1]
				} else {
					ref[at] = "none"
				}
			}
			realIs := t.srch.IsMatch(h)
			refIs := ref[0] != "none"
			if realIs != refIs {
				fd.add(finding{"IsMatch", t.pat, string(h), 0, fmt.Sprint(realIs), fmt.Sprint(refIs)})
			}
			if t.eng.IsMatch(h) != realIs {
				st.engineVsSearcher++
			}
			for at := 0; at <= n; at++ {
				t.rec.calls = t.rec.calls[:0]
				s, e, ok := t.srch.FindIndicesAt(h, at)
				real[at] = "none"
				if ok {
					real[at] = fmt.Sprintf("%d.%d", s, e)
				}
				for _, c := range t.rec.calls {
					if want := firstLit(h, t.lits, c[0]); c[1] != want {
						st.pfContract++
						st.note("PREFILTER Find(%q,%d)=%d want %d pat=%q lits=%q", h, c[0], c[1], want, t.pat, t.lits)
					}
				}
				if real[at] != ref[at] {
					fd.add(finding{"FindIndicesAt", t.pat, string(h), at, real[at], ref[at]})
				}
				s2, e2, ok2 := t.eng.FindIndicesAt(h, at)
				if ok2 != ok || (ok && (s2 != s || e2 != e)) {
					st.engineVsSearcher++
					st.note("ENGINE FindIndicesAt != searcher pat=%q hay=%q at=%d", t.pat, h, at)
				}
			}
			r := fmt.Sprintf("mlrevsfx run * %s %s %s %s %s %d %s", hx(h), hexList(t.lits), hx(t.prefix), hx(t.suf), b01(t.shape), t.minGap, strings.Join(as, ","))
			reqBytes += len(r)
			reqs = append(reqs, r)
			qs = append(qs, q{h, real, ref, realIs, refIs})
			if len(reqs) >= 5000 || reqBytes >= 8<<20 {
				flush()
			}
		}
		flush()
		mu.Lock()
		total.add(&st)
		nh += len(hays)
		mu.Unlock()
	})
	fmt.Printf("haystacks: %d\n", nh)
	total.print("FindIndicesAt")
	fmt.Printf("real prefilter answers != leftmost literal occurrence: %d; model line windows not disjoint/ordered: %d\n", total.pfContract, total.lineViol)
	fd.print()
	for _, e := range total.examples {
		fmt.Println("  ", e)
	}
}

func mlHaystacks(t *mlTarget, short bool) [][]byte {
	alpha := alphaOf(t.suf, t.prefix, t.fill, []byte{'\n'})
	var hays [][]byte
	if len(alpha) <= 5 {
		hays = exhaustiveFor(alpha, short)
	}
	tokens := [][]byte{t.suf, {'\n'}}
	if len(t.suf) > 1 {
		tokens = append(tokens, t.suf[:1], t.suf[:len(t.suf)-1])
	}
	if len(t.prefix) > 0 {
		tokens = append(tokens, t.prefix)
	}
	for _, f := range t.fill {
		tokens = append(tokens, []byte{f})
	}
	lim := 5000
	if short {
		lim = 1000
	}
	var th [][]byte
	for ml := len(t.suf) + 2; ml <= len(t.suf)+8; ml++ {
		hs := tokenHays(tokens, ml)
		if len(hs) > lim {
			break
		}
		th = hs
	}
	hays = append(hays, th...)
	rep := func(b []byte, k int) []byte { return bytes.Repeat(b, k) }
	cat := func(parts ...[]byte) []byte { return bytes.Join(parts, nil) }
	f := []byte{t.fill[len(t.fill)-1]}
	line := cat(t.prefix, f, t.suf)
	for _, k := range []int{4, 10} {
		hays = append(hays, rep(cat(line, []byte{'\n'}), k), rep(cat(f, t.suf, []byte{'\n'}), k), cat(rep(t.suf, k), []byte{'\n'}, line),
			cat(rep(cat(f, []byte{'\n'}), k), line, t.suf, []byte{'\n'}, line), rep(cat(t.prefix, t.suf, []byte{'\n'}), k))
	}
	var out [][]byte
	for _, h := range dedupe(hays) {
		if isASCII(h) {
			out = append(out, h)
		}
	}
	return out
}
