// Fidelity of the Lean model Cx.Model.MetaFind against meta/find_indices.go (strategies UseNFA / UseDFA / UseBoth /
// UseBoundedBacktracker): `-strategy metafind`.
//
// For every generated pattern that the real meta.Compile dispatches to one of the four strategies, the engine's flags are read
// by reflection (prefilter, prefilterPartialCoverage, dfa, reverseDFA, nfaStateCount, canMatchEmpty, boundedBacktracker,
// asciiBoundedBacktracker, anchoredFirstBytes, nfa.IsAlwaysAnchored(), isStartAnchored) and the component oracles are supplied
// as tables: the prefilter's answers come from the REAL prefilter object (Find from every offset, IsComplete, LiteralLen,
// FindMatch if implemented), the first-byte set from the real FirstByteSet, CanHandle / MaxInputSize from the real backtrackers;
// the engines (Pike VM, DFAs, backtrackers) are brute-forced from `regexp` IN CONTEXT (leftmost-first span from every offset,
// match relation for the reverse DFA, slices for the sliced backtracker calls).  The Lean driver runs the MODEL's dispatch
// (`metafind all.<strategy>`); its answers are compared with the real Engine.FindIndices / FindIndicesAt at every offset, and
// the real engine with regexp.
//
// Variants: `squeeze` shrinks maxVisitedSize of the real backtrackers (unexported field, via unsafe) so that CanHandle fails on
// haystacks longer than 3 bytes and the fallback branches run on short inputs; `longest` calls SetLongest(true) (the Pike VM and
// backtracker oracles then are regexp's leftmost-longest answers, the DFA oracles stay leftmost-first).
package main

import (
	"fmt"
	"math/rand"
	"os"
	"reflect"
	"regexp"
	"sort"
	"strings"
	"sync"
	"unicode/utf8"
	"unsafe"

	"github.com/coregx/coregex/meta"
	"github.com/coregx/coregex/nfa"
	"github.com/coregx/coregex/prefilter"
)

type mfTarget struct {
	pat      string
	variant  string // "", "squeeze", "longest", "squeeze+longest"
	eng      *meta.Engine
	re       *regexp.Regexp // leftmost-first
	reL      *regexp.Regexp // leftmost-longest
	reFull   *regexp.Regexp
	strat    string
	flags    string
	pf       prefilter.Prefilter
	fm       interface{ FindMatch([]byte, int) (int, int) }
	litLen   int
	states   int
	bt, abt  *nfa.BoundedBacktracker
	fb       *nfa.FirstByteSet
	hasRev   bool
	hasBT    bool
	longest  bool
	lookFree bool
	ctxCache map[int]*regexp.Regexp
	ctxCacheL map[int]*regexp.Regexp
	mtCache  map[[2]int]*regexp.Regexp
}

func fieldPtr(ev reflect.Value, name string) unsafe.Pointer {
	f := ev.FieldByName(name)
	if !f.IsValid() || f.IsNil() {
		return nil
	}
	return unsafe.Pointer(f.Pointer())
}

func setUnexportedInt(obj any, name string, v int) {
	f := reflect.ValueOf(obj).Elem().FieldByName(name)
	*(*int)(unsafe.Pointer(f.UnsafeAddr())) = v
}

func getUnexportedInt(obj any, name string) int {
	f := reflect.ValueOf(obj).Elem().FieldByName(name)
	return int(f.Int())
}

var lookRe = regexp.MustCompile(`\\b|\\B|\^|\$|\\A|\\z`)

func compileMF(p, variant string) (*mfTarget, string) {
	re, err := regexp.Compile(p)
	if err != nil {
		return nil, "regexp error"
	}
	eng, err := meta.Compile(p)
	if err != nil {
		return nil, "coregex error"
	}
	var strat string
	switch eng.Strategy() {
	case meta.UseNFA:
		strat = "nfa"
	case meta.UseDFA:
		strat = "dfa"
	case meta.UseBoth:
		strat = "both"
	case meta.UseBoundedBacktracker:
		strat = "bt"
	default:
		return nil, "strategy " + eng.Strategy().String()
	}
	t := &mfTarget{pat: p, variant: variant, eng: eng, re: re, strat: strat, reFull: regexp.MustCompile(`\A(?:` + p + `)\z`),
		ctxCache: map[int]*regexp.Regexp{}, ctxCacheL: map[int]*regexp.Regexp{}, mtCache: map[[2]int]*regexp.Regexp{}}
	t.reL = regexp.MustCompile(p)
	t.reL.Longest()
	t.lookFree = !lookRe.MatchString(p)
	ev := reflect.ValueOf(eng).Elem()
	pff := ev.FieldByName("prefilter")
	if !pff.IsNil() {
		t.pf = *(*prefilter.Prefilter)(unsafe.Pointer(pff.UnsafeAddr()))
		if fm, ok := t.pf.(interface{ FindMatch([]byte, int) (int, int) }); ok {
			t.fm = fm
		}
		t.litLen = t.pf.LiteralLen()
	}
	t.states = int(ev.FieldByName("nfaStateCount").Int())
	if q := fieldPtr(ev, "boundedBacktracker"); q != nil {
		t.bt = (*nfa.BoundedBacktracker)(q)
		t.hasBT = true
	}
	if q := fieldPtr(ev, "asciiBoundedBacktracker"); q != nil {
		t.abt = (*nfa.BoundedBacktracker)(q)
	}
	if q := fieldPtr(ev, "anchoredFirstBytes"); q != nil {
		t.fb = (*nfa.FirstByteSet)(q)
	}
	nf := (*nfa.NFA)(fieldPtr(ev, "nfa"))
	t.hasRev = fieldPtr(ev, "reverseDFA") != nil
	if strings.Contains(variant, "squeeze") {
		if t.bt == nil {
			return nil, "squeeze: no backtracker"
		}
		setUnexportedInt(t.bt, "maxVisitedSize", 4*getUnexportedInt(t.bt, "numStates"))
		if t.abt != nil {
			setUnexportedInt(t.abt, "maxVisitedSize", 4*getUnexportedInt(t.abt, "numStates"))
		}
	}
	if strings.Contains(variant, "longest") {
		eng.SetLongest(true)
		t.longest = true
	}
	t.flags = b01(t.longest) + b01(t.pf != nil) + b01(t.pf != nil && t.pf.IsComplete()) + b01(t.fm != nil) +
		b01(ev.FieldByName("prefilterPartialCoverage").Bool()) + b01(fieldPtr(ev, "dfa") != nil) + b01(t.hasRev) +
		b01(ev.FieldByName("canMatchEmpty").Bool()) + b01(t.bt != nil) + b01(t.abt != nil) + b01(t.fb != nil) +
		b01(nf.IsAlwaysAnchored()) + b01(ev.FieldByName("isStartAnchored").Bool()) + "0"
	// sanity check of the harness: MF_MUTATE=<index> flips one flag digit told to the MODEL
	if m := os.Getenv("MF_MUTATE"); m != "" {
		var i int
		fmt.Sscanf(m, "%d", &i)
		b := []byte(t.flags)
		b[i] = '0' + ('1' - b[i])
		t.flags = string(b)
	}
	return t, ""
}

// leftmost-first (or leftmost-longest) span with start >= a, in the context of the whole haystack; ok=false if `a` is not on a
// rune boundary of a valid prefix (the `.{k}` trick counts runes)
func (t *mfTarget) refAt(h []byte, a int, longest bool) (loc []int, ok bool) {
	if !utf8.Valid(h[:a]) || (a < len(h) && !utf8.RuneStart(h[a])) {
		if t.lookFree {
			re := t.re
			if longest {
				re = t.reL
			}
			l := re.FindIndex(h[a:])
			if l == nil {
				return nil, true
			}
			return []int{l[0] + a, l[1] + a}, true
		}
		return nil, false
	}
	k := utf8.RuneCount(h[:a])
	cache := t.ctxCache
	if longest {
		cache = t.ctxCacheL
	}
	r := cache[k]
	if r == nil {
		if longest {
			// leftmost-longest on the whole expression would also maximize the lazy skip: find the leftmost start with the
			// leftmost-first regexp, the end with a second anchored leftmost-longest one
			r = regexp.MustCompile(fmt.Sprintf(`(?s:\A.{%d})(%s)`, k, t.pat))
			r.Longest()
		} else {
			r = regexp.MustCompile(fmt.Sprintf(`(?s:\A.{%d}.*?)(%s)`, k, t.pat))
		}
		cache[k] = r
	}
	if !longest {
		m := r.FindSubmatchIndex(h)
		if m == nil {
			return nil, true
		}
		return []int{m[2], m[3]}, true
	}
	// longest: leftmost start from the leftmost-first search, then the longest match anchored there
	first, ok1 := t.refAt(h, a, false)
	if !ok1 {
		return nil, false
	}
	if first == nil {
		return nil, true
	}
	s := first[0]
	if !utf8.Valid(h[:s]) {
		return nil, false
	}
	ks := utf8.RuneCount(h[:s])
	rl := t.ctxCacheL[ks]
	if rl == nil {
		rl = regexp.MustCompile(fmt.Sprintf(`(?s:\A.{%d})(%s)`, ks, t.pat))
		rl.Longest()
		t.ctxCacheL[ks] = rl
	}
	m := rl.FindSubmatchIndex(h)
	if m == nil {
		return nil, false
	}
	return []int{m[2], m[3]}, true
}

// the match relation in context (only used by the reverse DFA, which exists for look-free patterns only)
func (t *mfTarget) mtPairs(h []byte) string {
	if !t.hasRev {
		return "-"
	}
	return pairTable(t.reFull, h)
}

func spanStr(loc []int) string {
	if loc == nil {
		return "x"
	}
	return fmt.Sprintf("%d.%d", loc[0], loc[1])
}

func ansStr(loc []int) string {
	if loc == nil {
		return "none"
	}
	return fmt.Sprintf("%d.%d", loc[0], loc[1])
}

type mfStats struct {
	requests, cmp, cmpFI, cmpIM            int
	modelVsReal, realVsRegexp, skippedAts  int
	byStrat                                map[string]int
	examples                               []string
}

func (s *mfStats) note(f string, a ...any) {
	if len(s.examples) < 60 {
		s.examples = append(s.examples, fmt.Sprintf(f, a...))
	}
}

// one request per haystack
func (t *mfTarget) request(h []byte) (req string, refs [][]int, refOK []bool, ok bool) {
	n := len(h)
	refs = make([][]int, n+1)   // the reference in the engine's mode
	refOK = make([]bool, n+1)
	first := make([][]int, n+1) // leftmost-first (what the DFAs report)
	pike := make([]string, n+1)
	fwd := make([]string, n+1)
	im := make([]byte, n+1)
	for a := 0; a <= n; a++ {
		f, ok1 := t.refAt(h, a, false)
		r := f
		ok2 := true
		if t.longest {
			r, ok2 = t.refAt(h, a, true)
		}
		if !ok1 || !ok2 {
			return "", nil, nil, false // a haystack whose offsets cannot all be referenced: skip it
		}
		refs[a], first[a], refOK[a] = r, f, true
		pike[a] = spanStr(r)
		if f == nil {
			fwd[a], im[a] = "x", '0'
		} else {
			fwd[a], im[a] = fmt.Sprintf("%d", f[1]), '1'
		}
	}
	pf, pfm := "-", "-"
	if t.pf != nil {
		ps := make([]string, n+1)
		ms := make([]string, n+1)
		for a := 0; a <= n; a++ {
			if p := t.pf.Find(h, a); p >= 0 {
				ps[a] = fmt.Sprintf("%d", p)
			} else {
				ps[a] = "x"
			}
			ms[a] = "x"
			if t.fm != nil {
				if s, e := t.fm.FindMatch(h, a); s >= 0 {
					ms[a] = fmt.Sprintf("%d.%d", s, e)
				}
			}
		}
		pf = strings.Join(ps, ",")
		if t.fm != nil {
			pfm = strings.Join(ms, ",")
		}
	}
	sl, asl := "-", "-"
	btLimit, btMax, aLimit, aMax := 0, 0, 0, 0
	if t.bt != nil {
		btMax = t.bt.MaxInputSize()
		btLimit = btMax
		re := t.re
		if t.longest {
			re = t.reL
		}
		var ss []string
		add := func(lo, hi int) {
			if l := re.FindIndex(h[lo:hi]); l != nil {
				ss = append(ss, fmt.Sprintf("%d.%d.%d.%d", lo, hi, l[0], l[1]))
			}
		}
		for a := 0; a <= n; a++ {
			add(a, n)
			if btMax > 0 && n-a > btMax {
				add(a, a+btMax)
			}
		}
		if len(ss) > 0 {
			sl = strings.Join(ss, ",")
		}
		if t.abt != nil {
			aMax = t.abt.MaxInputSize()
			aLimit = aMax
			var as []string
			// the ASCII backtracker is not told about SetLongest (engine.go:250-256): it always answers leftmost-first
			are := t.re
			for a := 0; a <= n; a++ {
				if isASCII(h[a:]) {
					if l := are.FindIndex(h[a:]); l != nil {
						as = append(as, fmt.Sprintf("%d.%d.%d.%d", a, n, l[0], l[1]))
					}
					if aMax > 0 && n-a > aMax {
						if l := are.FindIndex(h[a : a+aMax]); l != nil {
							as = append(as, fmt.Sprintf("%d.%d.%d.%d", a, a+aMax, l[0], l[1]))
						}
					}
				}
			}
			if len(as) > 0 {
				asl = strings.Join(as, ",")
			}
		}
	}
	fb := "*"
	if t.fb != nil {
		var bs []byte
		for c := 0; c < 256; c++ {
			if t.fb.Contains(byte(c)) {
				bs = append(bs, byte(c))
			}
		}
		fb = hx(bs)
	}
	nums := fmt.Sprintf("%d,%d,4096,%d,%d,%d,%d", t.litLen, t.states, btLimit, aLimit, btMax, aMax)
	req = strings.Join([]string{"metafind", "all." + t.strat, t.flags, nums, "*", hx(h), t.mtPairs(h), strings.Join(pike, ","),
		strings.Join(fwd, ","), "-", string(im), strings.Join(fwd, ","), pf, pfm, "=", sl, asl, fb}, " ")
	return req, refs, refOK, true
}

func (t *mfTarget) check(hays [][]byte, d *driver, st *mfStats, fd *findings) {
	var reqs []string
	type q struct {
		h    []byte
		refs [][]int
	}
	var qs []q
	bytesN := 0
	flush := func() {
		if len(reqs) == 0 {
			return
		}
		ans := d.ask(reqs)
		st.requests += len(reqs)
		for i, a := range ans {
			h := qs[i].h
			fi := field(a, "fi")
			ats := strings.Split(field(a, "at"), ";")
			if fi == "" || len(ats) != len(h)+1 {
				st.modelVsReal++
				st.note("BAD ANSWER %q pat=%q hay=%q", a, t.pat, h)
				continue
			}
			s, e, f := t.eng.FindIndices(h)
			real := "none"
			if f {
				real = fmt.Sprintf("%d.%d", s, e)
			}
			st.cmpFI++
			if fi != real {
				st.modelVsReal++
				st.note("FindIndices model=%s real=%s regexp=%s pat=%q[%s %s] hay=%q flags=%s", fi, real, ansStr(qs[i].refs[0]), t.pat, t.strat, t.variant, h, t.flags)
			}
			if real != ansStr(qs[i].refs[0]) {
				st.realVsRegexp++
				fd.add(finding{"FindIndices[" + t.strat + " " + t.variant + "]", t.pat, string(h), 0, real, ansStr(qs[i].refs[0])})
			}
			if im := field(a, "im"); im != "-" {
				realIs := t.eng.IsMatch(h)
				st.cmpIM++
				if (im == "true") != realIs {
					st.modelVsReal++
					st.note("IsMatch model=%s real=%v regexp=%v pat=%q[%s %s] hay=%q flags=%s", im, realIs, qs[i].refs[0] != nil, t.pat, t.strat, t.variant, h, t.flags)
				}
				if realIs != (qs[i].refs[0] != nil) {
					st.realVsRegexp++
					fd.add(finding{"IsMatch[" + t.strat + " " + t.variant + "]", t.pat, string(h), 0, fmt.Sprint(realIs), fmt.Sprint(qs[i].refs[0] != nil)})
				}
			}
			for at := 0; at <= len(h); at++ {
				s, e, f := t.eng.FindIndicesAt(h, at)
				real := "none"
				if f {
					real = fmt.Sprintf("%d.%d", s, e)
				}
				st.cmp++
				if ats[at] != real {
					st.modelVsReal++
					st.note("FindIndicesAt model=%s real=%s regexp=%s pat=%q[%s %s] hay=%q at=%d flags=%s", ats[at], real, ansStr(qs[i].refs[at]), t.pat, t.strat, t.variant, h, at, t.flags)
				}
				if real != ansStr(qs[i].refs[at]) {
					st.realVsRegexp++
					fd.add(finding{"FindIndicesAt[" + t.strat + " " + t.variant + "]", t.pat, string(h), at, real, ansStr(qs[i].refs[at])})
				}
			}
		}
		reqs, qs, bytesN = reqs[:0], qs[:0], 0
	}
	for _, h := range hays {
		req, refs, _, ok := t.request(h)
		if !ok {
			st.skippedAts++
			continue
		}
		reqs = append(reqs, req)
		qs = append(qs, q{h, refs})
		bytesN += len(req)
		if bytesN > 4<<20 {
			flush()
		}
	}
	flush()
}

// ---- patterns -------------------------------------------------------------------------------------------------------------

func metaFindPatterns() []string {
	var ps []string
	add := func(xs ...string) { ps = append(ps, xs...) }
	lits := []string{"ab", "abc", "a", "foo", "xy", "ba"}
	tails := []string{`\d+`, `\w*`, `[a-c]+`, `.`, `x?`, `(?:c|d)`, `[a-c]{2}`, `\d*z`, `b*`, `(?:ab)+`, ``}
	for _, l := range lits {
		for _, tl := range tails {
			add(l + tl)
		}
	}
	// alternations of literals: equal and unequal lengths, prefixes of each other, with tails
	alts := []string{`a|b`, `a|bc`, `ab|cd`, `ab|abc`, `abc|ab`, `abc|abd`, `foo|bar`, `foo|foobar`, `foobar|foo`, `abc|xyz|bca`, `ab|b`,
		`abc|bcd|cda`, `aaa|aab|abb`, `abcd|bc`, `fo|foo|fooo`}
	for _, a := range alts {
		add(a, `(?:`+a+`)\d`, `(?:`+a+`)+`, `(`+a+`)x*`, `x(?:`+a+`)`)
	}
	// nullable / small NFA
	add(`a*`, `a*b*`, `(?:|a)*`, `(?:a|)*`, `(a|b)*`, `x?y?`, `\d*`, `[a-c]*x?`, `(?:ab)*`, `a*?`, `a??b?`, `(?:a*)*`, `(?:a|b)*?c?`, `a{0,2}`,
		`(?:ab|a)*`, `(?:a|ab)*c?`, `b*a?`, `(a*)(b*)`, `(?:)`, `a*|b`, `|a`, `a|`)
	// assertions
	add(`\ba`, `a\b`, `\bab\b`, `\Ba`, `a\B`, `(?m)^a`, `(?m)^ab$`, `(?m)a$`, `a$`, `ab$`, `\bfoo`, `foo\b`, `\b\w+\b`, `(?m)^\w+`, `(?m)^foo|bar`,
		`(?m)^foo|^bar`, `(?m)^(?:foo|bar)`, `\bfoo|bar\b`, `a\bb`, `(?m)^$`, `\b`, `\B`, `(?m)^`, `$`, `(?m)$`, `a+$`, `\w+$`, `\ba+`, `\d+\b`, `\bab|cd\b`,
		`(?m)^ab+`, `(?m)^a*$`, `\Aab`, `ab\z`, `\b(?:foo|bar)\b`, `(?m)^abc|^abd`, `\bfoo\d`, `foo\d\b`)
	// start-anchored: UseBoundedBacktracker / branch dispatch / anchored literal
	add(`^ab`, `^a+b`, `^a.*b`, `^[a-c]+\d`, `^(a|b)+`, `^\d+$`, `^a`, `^a*`, `^a*b`, `^.*b`, `^.+`, `^(?:ab|a)c`, `^\w+\s`, `^a.b`, `^a?b?`, `^(a*)(b*)$`,
		`^[a-c]{2,}x`, `^x[a-c]*`, `^.`, `^ab*c`, `^(ab)+`, `^a|^b`, `^(?:a|bc)d`, `^\bab`, `^a\b`, `^a.*$`, `^ab.*c`, `^a(?:b|c)*d`, `^[^a]b`, `^a+?b`,
		`^a*?b`, `^.*?b`, `^(?:|a)b`, `^\d{2}`, `^[ab][ab]`, `^a.?b`, `^.a`, `^..`, `^a..b`)
	// simple char-class shapes: UseBoundedBacktracker without anchors (DFA pair available)
	add(`(a|b|c)+`, `([a-c])+\d`, `([a-c])+`, `(\d)+x?`, `[a-c]+[x-z]*\d?`, `([ab])([cd])`, `(a|b)(c|d)*`, `([a-c])*x`, `([a-c]+)(\d+)`, `(\w)+`, `(\w)(\d)`,
		`([a-c]){2}`, `([a-c]){1,2}\d`, `(a|b)+?`, `([a-c])+?\d`, `([a-c])*?x`, `(\d)+?`, `[a-c]+?`, `[a-c]*?\d`, `([ab])??c`, `[a-c]+?[0-9]??`, `[a-z]??[a-z][0-9]*?`)
	// medium NFA without good literals: UseBoth
	add(`\w{6}$|\w{5}`, `[a-c]{3}[x-z]{4}\d`, `ab\w{8}`, `[a-c]\w{7}`, `\w{3}\d{3}\w`, `(?:[a-c]{2}\d){2}x`, `\w{8}\b|\w{7}`, `[a-c]{2}\w{6}[x-z]`, `a\w{9}`,
		`\w{5}[a-c]\w{3}`, `(?:\w\d){5}`, `[ab]{4}\d{4}`, `\d{3}[a-c]{3}x{2}\w`, `x\w{9}`, `ab[a-c]{8}`, `\w{4}a\w{4}`, `(?:a|b)\w{8}`, `[a-c]{10}`, `\d\w{8}`,
		`ab\w{4}(?:x|y)\w{3}`, `a[a-c]{4}\d{4}`, `(?:ab|cd)\w{8}`, `\w{2}\d\w{2}\d\w{2}`, `a.{3}b.{3}`, `ab.{4}c`, `\w{9}$`, `\b\w{9}`, `a\w{4}b\w{4}`,
		`ab\w{3}\d{3}x?`, `[a-c]{5}x?[a-c]{4}`)
	// large NFAs: (?i) literals, unicode classes
	add(`(?i)hello world foo bar`, `(?i)abcabcabcabcabcabc`, `(?i)the quick brown fox`, `(?i)abcdefghij\d`, `(?i)foo(?:bar|baz)qux quux`, `(?i)aaaaaaaaaaaaaaaaaaaaaaaaaaaa`,
		`(?i)hello|world wide web stuff`, `(?i)abcabcabcabcabcabcx*`, `(?i)ab(?:cd|ef)gh(?:ij|kl)mn(?:op|qr)st`, `(?i)needle in a haystack`, `(?i)select|insert|update|delete`,
		`(?i)\bfoo bar baz qux\b`, `(?i)abcdefghijklmnopqrstuvwxyz`, `(?i)abc.*abcabcabcabcabcabc`, `\pL{3}\d`, `\pL+\d`, `[\p{Greek}a-c]+x`, `(?i)straße`,
		`\w+@\w+\.\w+`, `\d+\.\d+\.\d+`, `[a-c]+@[a-c]+`, `\w+\s+\w+`, `(?:\w+\s)+x`, `(?i)ab+c+d+e+f+g+h+i+j+k+`, `(?i)(?:abc|abd|abe|abf|abg|abh)xyz`,
		`(?i)foo\w{30}`, `foo\w{40}`, `ab\w{60}`, `(?:abc|abd)\w{50}`, `a{60}`, `(?:ab){40}`, `abc[a-c]{100}`, `(?i)abc[a-c]{60}`, `\w{60}abc`)
	// many literals (Teddy / Aho-Corasick prefilters), incomplete
	add(`(?:foo|bar|baz|qux)\d+`, `(?:abc|bcd|cde|def|efg)x`, `(?:foo|bar)[a-c]*z`, `(?:abc|abd|abe)+`, `(?:foo|bar)(?:baz|qux)`, `(?:aaa|bbb|ccc)\w`,
		`(?:abc|cba)b*`, `(?:foo|fob|fab)\b`, `\b(?:foo|bar)`, `(?:foo|bar)$`, `(?m)^(?:foo|bar)\d`, `(?:fooo|barr|bazz)`, `(?:abca|bcab|cabc)`, `(?:foo|bar|baz)`)
	// more DFA shapes: literal inside, suffix, classes
	add(`a[a-c]*b`, `ab[a-c]*ba`, `abc\d*abc`, `ab+c`, `a+b+c+`, `abc+`, `(?:abc)+d`, `ab?c`, `ab{2,3}c`, `foo.*bar`, `foo.+`, `abc.?x`, `ab(?:c|d)+e`, `ab\d{2}`,
		`abc[^a]`, `ab[^\n]*c`, `abca*`, `abab`, `aaaa`, `abcabc`, `ab.ab`, `aba+`, `abc|abd\d`, `a[bc]d`, `a[bc]+d`, `[ab]c`, `[ab]cd`, `[a-c]bc\d`, `ab[cd]ef`,
		`(?s)ab.c`, `(?s)a.*b`, `a.*?b`, `ab+?`, `abc*?d`, `ab(?:cd)*?e`, `a\d+?b`, `abc\w+?`, `ab\w*?c`)
	return ps
}

func mfAlphabet(p string) []byte {
	var al []byte
	has := func(c byte) bool {
		for _, x := range al {
			if x == c {
				return true
			}
		}
		return false
	}
	esc := false
	for i := 0; i < len(p) && len(al) < 3; i++ {
		c := p[i]
		if esc {
			esc = false
			continue
		}
		if c == '\\' {
			esc = true
			continue
		}
		if c == '(' && i+1 < len(p) && p[i+1] == '?' { // skip flag groups `(?i)`, `(?m:`
			for i < len(p) && p[i] != ')' && p[i] != ':' {
				i++
			}
			continue
		}
		if (c >= 'a' && c <= 'z' || c >= 'A' && c <= 'Z' || c >= '0' && c <= '9' || c == '@' || c == ' ') && !has(c) {
			al = append(al, c)
		}
	}
	if strings.Contains(p, `\d`) && !has('1') {
		al = append(al, '1')
	}
	if (strings.Contains(p, "(?i)")) && len(al) > 0 && al[0] >= 'a' && al[0] <= 'z' {
		al = append(al, al[0]-32)
	}
	al = append(al, '#')
	if strings.Contains(p, "(?m)") || strings.Contains(p, `\s`) || strings.Contains(p, "[^") || strings.Contains(p, ".") {
		al = append(al, '\n')
	}
	return al
}

// haystacks: exhaustive short ones over the pattern's alphabet, random longer ones that contain a match, a few fixed ones
func mfHaystacks(t *mfTarget, short bool, rng *rand.Rand) [][]byte {
	al := mfAlphabet(t.pat)
	maxLen := 5
	switch {
	case len(al) <= 3:
		maxLen = 7
	case len(al) == 4:
		maxLen = 6
	case len(al) >= 6:
		maxLen = 4
	}
	if short {
		maxLen -= 2
	}
	hays := exhaustive(al, maxLen)
	// literal-derived / matching longer haystacks: random strings over the alphabet that match, with fillers around them
	found := 0
	for tries := 0; tries < 4000 && found < 40; tries++ {
		n := 6 + rng.Intn(70)
		w := make([]byte, n)
		for i := range w {
			w[i] = al[rng.Intn(len(al))]
			if rng.Intn(3) > 0 {
				w[i] = al[rng.Intn(min(len(al), 3))]
			}
		}
		if loc := t.re.FindIndex(w); loc != nil && loc[1] > loc[0] {
			found++
			m := w[loc[0]:loc[1]]
			if len(m) <= 90 {
				hays = append(hays, append([]byte(nil), m...), append([]byte("#"), m...), append(append([]byte("##"), m...), "#"...),
					append(append([]byte(nil), m...), m...))
			}
			if len(w) <= 24 {
				hays = append(hays, w)
			}
		}
	}
	// fixed: non-ASCII context, the empty haystack is in `exhaustive`
	for _, s := range []string{"é", "aéb", "éab", "abé", "ab\xffab", "日本", "añb1", "AbC", "ABC abc", "foo bar", "hello world foo bar", "HELLO WORLD FOO BAR"} {
		hays = append(hays, []byte(s))
	}
	return dedupe(hays)
}

func runMetaFind(drv string, workers int, only string, listOnly, short bool, maxPats int) {
	pats := metaFindPatterns()
	if only != "" {
		pats = []string{only}
	}
	{
		seen := map[string]bool{}
		var u []string
		for _, p := range pats {
			if !seen[p] {
				seen[p] = true
				u = append(u, p)
			}
		}
		pats = u
	}
	if maxPats > 0 && len(pats) > maxPats {
		step := float64(len(pats)) / float64(maxPats)
		var sel []string
		for i := 0; i < maxPats; i++ {
			sel = append(sel, pats[int(float64(i)*step)])
		}
		pats = sel
	}
	var targets []*mfTarget
	skipped := map[string]int{}
	byStrat := map[string]int{}
	feat := map[string]int{}
	for _, p := range pats {
		t, why := compileMF(p, "")
		if t == nil {
			skipped[why]++
			if listOnly {
				fmt.Printf("skip %-40q %s\n", p, why)
			}
			continue
		}
		byStrat[t.strat]++
		f := t.flags
		desc := []string{}
		mark := func(c bool, s string) {
			if c {
				feat[t.strat+":"+s]++
				desc = append(desc, s)
			}
		}
		mark(f[1] == '1', "prefilter")
		mark(f[1] == '1' && f[2] == '1', "complete")
		mark(f[1] == '1' && f[2] == '1' && t.litLen > 0, "literalLen>0")
		mark(f[1] == '1' && f[2] == '0', "incomplete")
		mark(f[3] == '1', "FindMatch")
		mark(f[6] == '1', "reverseDFA")
		mark(f[7] == '1', "canMatchEmpty")
		mark(f[8] == '1', "BT")
		mark(f[9] == '1', "asciiBT")
		mark(f[10] == '1', "firstBytes")
		mark(f[11] == '1', "alwaysAnchored")
		mark(t.states > 100, "states>100")
		if listOnly {
			fmt.Printf("use  %-40q %-4s states=%-4d flags=%s %v\n", p, t.strat, t.states, t.flags, desc)
		}
		targets = append(targets, t)
		// variants
		if tl, _ := compileMF(p, "longest"); tl != nil {
			targets = append(targets, tl)
		}
		if t.hasBT {
			if ts, _ := compileMF(p, "squeeze"); ts != nil {
				targets = append(targets, ts)
			}
			if ts, _ := compileMF(p, "squeeze+longest"); ts != nil {
				targets = append(targets, ts)
			}
		}
	}
	np := 0
	for _, c := range byStrat {
		np += c
	}
	fmt.Printf("patterns generated: %d, dispatched to the four strategies: %d %v (targets incl. variants: %d), skipped: %v\n", len(pats), np, byStrat, len(targets), skipped)
	var fk []string
	for k := range feat {
		fk = append(fk, k)
	}
	sort.Strings(fk)
	for _, k := range fk {
		fmt.Printf("   %-28s %d\n", k, feat[k])
	}
	if listOnly {
		return
	}
	var total mfStats
	perVariant := map[string]*mfStats{}
	var fd findings
	var mu sync.Mutex
	nh := 0
	parallel(targets, workers, func(t *mfTarget) {
		d := newDriver(drv)
		var st mfStats
		rng := rand.New(rand.NewSource(int64(len(t.pat))*7919 + 17))
		hays := mfHaystacks(t, short || t.variant != "", rng)
		t.check(hays, d, &st, &fd)
		mu.Lock()
		defer mu.Unlock()
		nh += len(hays)
		agg := func(dst *mfStats) {
			dst.requests += st.requests
			dst.cmp += st.cmp
			dst.cmpFI += st.cmpFI
			dst.cmpIM += st.cmpIM
			dst.modelVsReal += st.modelVsReal
			dst.realVsRegexp += st.realVsRegexp
			dst.skippedAts += st.skippedAts
			for _, e := range st.examples {
				dst.note("%s", e)
			}
		}
		agg(&total)
		k := t.strat + "/" + t.variant
		if perVariant[k] == nil {
			perVariant[k] = &mfStats{}
		}
		agg(perVariant[k])
	})
	fmt.Printf("haystacks: %d (skipped %d with unreferencable offsets), model requests: %d\n", nh, total.skippedAts, total.requests)
	fmt.Printf("FindIndices comparisons: %d, FindIndicesAt comparisons: %d, IsMatch comparisons: %d\n", total.cmpFI, total.cmp, total.cmpIM)
	fmt.Printf("MODEL != REAL: %d\nreal != regexp: %d\n", total.modelVsReal, total.realVsRegexp)
	var ks []string
	for k := range perVariant {
		ks = append(ks, k)
	}
	sort.Strings(ks)
	for _, k := range ks {
		s := perVariant[k]
		fmt.Printf("   %-22s requests=%-8d cmp=%-9d model!=real=%-4d real!=regexp=%d\n", k, s.requests, s.cmp+s.cmpFI+s.cmpIM, s.modelVsReal, s.realVsRegexp)
	}
	for _, e := range total.examples {
		fmt.Println("  ", e)
	}
	fd.print()
}
