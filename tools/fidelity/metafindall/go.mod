module rsfxcheck

go 1.25.4

require (
	github.com/coregx/ahocorasick v0.3.0
	github.com/coregx/coregex v0.0.0
)

require golang.org/x/sys v0.40.0 // indirect

replace github.com/coregx/coregex => /repo
