// Fidelity of the Lean model Cx.Model.MetaFindAll against meta/findall.go (FindAllIndicesStreaming / findAllIndicesLoop, Count,
// findSubmatchAtWithState, FindAllSubmatch): `-strategy metafindall`.
//
// For every generated pattern (whatever strategy meta.Compile selects — all strategies take part) and the variants default /
// `longest` (SetLongest(true)), the engine's fields that findall.go reads are obtained by reflection (strategy, longest, dfa,
// reverseDFA, nfa.IsAlwaysAnchored(), isStartAnchored, charClassSearcher, onepass, nfa.CaptureCount()) and the single-search
// oracles are supplied as tables recorded from the REAL components:
//   findat   (*Engine).findIndicesAtWithState(h, a, state) for every offset a (unexported: reached with go:linkname, on a state
//            from getSearchState);  fi = Engine.FindIndices(h)
//   fwd/rev  e.dfa.SearchAt(cache, h, a) for every a, and e.reverseDFA.SearchReverse(cache, h, a, end) for every a whose forward
//            answer is a non-empty-window end (the only questions the direct branch asks) — the engine's own DFA objects
//            (unexported fields), fresh caches
//   cc       e.charClassSearcher.FindAllIndices(h, nil)
//   onepass  e.onepass.Search / SearchLongest(h, cache);  pikecaps = state.pikevm.SearchWithSlotTableCapturesAt(h, a) for every a;
//            inspan = state.pikevm.SearchWithCapturesInSpan(h, s, e) for every span of findat
// The Lean driver runs the MODEL's loops (`metafindall both|sub|subat`); its answers are compared with the real
// Engine.FindAllIndicesStreaming(h, n, nil), Engine.Count(h, n), the spans of Engine.FindAllSubmatch(h, n) for
// n ∈ {-1, 0, 1, 2, 3}, and findSubmatchAtWithState at every offset; and the real engine with regexp.FindAllIndex /
// FindAllSubmatchIndex (leftmost-longest regexp for the `longest` variant).
// Also checked on the recorded tables (hypotheses of the theorems on real data): FindOK of findat (by the driver), and
// DirectOK: fwd[a] = end of findat[a], rev = start of findat[a], whenever the engine takes the direct branch.
//
// FA_MUTATE=noguard asks the model for Count WITHOUT the `!e.longest` guard (sanity check of the harness: the `longest` variants of
// UseDFA patterns must then show model != real).
package main

import (
	"fmt"
	"math/rand"
	"os"
	"reflect"
	"regexp"
	"sort"
	"strings"
	"sync"
	"unicode/utf8"
	"unsafe"

	"github.com/coregx/coregex/dfa/lazy"
	"github.com/coregx/coregex/dfa/onepass"
	"github.com/coregx/coregex/meta"
	"github.com/coregx/coregex/nfa"
)

//go:linkname faFindIndicesAtWithState github.com/coregx/coregex/meta.(*Engine).findIndicesAtWithState
func faFindIndicesAtWithState(e *meta.Engine, haystack []byte, at int, state *meta.SearchState) (start, end int, found bool)

//go:linkname faFindSubmatchAtWithState github.com/coregx/coregex/meta.(*Engine).findSubmatchAtWithState
func faFindSubmatchAtWithState(e *meta.Engine, haystack []byte, at int, state *meta.SearchState) *meta.MatchWithCaptures

//go:linkname faGetSearchState github.com/coregx/coregex/meta.(*Engine).getSearchState
func faGetSearchState(e *meta.Engine) *meta.SearchState

//go:linkname faPutSearchState github.com/coregx/coregex/meta.(*Engine).putSearchState
func faPutSearchState(e *meta.Engine, s *meta.SearchState)

var faStratNames = map[meta.Strategy]string{
	meta.UseNFA: "nfa", meta.UseDFA: "dfa", meta.UseBoth: "both", meta.UseReverseAnchored: "reverseAnchored",
	meta.UseReverseSuffix: "reverseSuffix", meta.UseOnePass: "onePass", meta.UseReverseInner: "reverseInner",
	meta.UseBoundedBacktracker: "boundedBacktracker", meta.UseTeddy: "teddy", meta.UseReverseSuffixSet: "reverseSuffixSet",
	meta.UseCharClassSearcher: "charClassSearcher", meta.UseCompositeSearcher: "compositeSearcher",
	meta.UseBranchDispatch: "branchDispatch", meta.UseDigitPrefilter: "digitPrefilter", meta.UseAhoCorasick: "ahoCorasick",
	meta.UseAnchoredLiteral: "anchoredLiteral", meta.UseMultilineReverseSuffix: "multilineReverseSuffix",
}

type faTarget struct {
	pat      string
	variant  string // "" | "longest"
	eng      *meta.Engine
	re       *regexp.Regexp // the mode's regexp (leftmost-first, or Longest())
	strat    string
	flags    string
	longest  bool
	dfa      *lazy.DFA
	rdfa     *lazy.DFA
	ccs      *nfa.CharClassSearcher
	op       *onepass.DFA
	ncap     int
	anchored bool
	direct   bool // the engine's useDFADirect, recomputed here from its fields (reporting only; the model computes its own)
	asciiPat bool
}

func compileFA(p, variant string) (*faTarget, string) {
	re, err := regexp.Compile(p)
	if err != nil {
		return nil, "regexp error"
	}
	eng, err := meta.Compile(p)
	if err != nil {
		return nil, "coregex error"
	}
	name, ok := faStratNames[eng.Strategy()]
	if !ok {
		return nil, "strategy " + eng.Strategy().String()
	}
	t := &faTarget{pat: p, variant: variant, eng: eng, re: re, strat: name, asciiPat: isASCII([]byte(p))}
	if variant == "longest" {
		eng.SetLongest(true)
		t.longest = true
		t.re = regexp.MustCompile(p)
		t.re.Longest()
	}
	ev := reflect.ValueOf(eng).Elem()
	if q := fieldPtr(ev, "dfa"); q != nil {
		t.dfa = (*lazy.DFA)(q)
	}
	if q := fieldPtr(ev, "reverseDFA"); q != nil {
		t.rdfa = (*lazy.DFA)(q)
	}
	if q := fieldPtr(ev, "charClassSearcher"); q != nil {
		t.ccs = (*nfa.CharClassSearcher)(q)
	}
	if q := fieldPtr(ev, "onepass"); q != nil {
		t.op = (*onepass.DFA)(q)
	}
	nf := (*nfa.NFA)(fieldPtr(ev, "nfa"))
	t.ncap = nf.CaptureCount()
	t.anchored = nf.IsAlwaysAnchored()
	t.flags = name + ":" + b01(t.longest) + b01(t.dfa != nil) + b01(t.rdfa != nil) + b01(t.anchored) +
		b01(ev.FieldByName("isStartAnchored").Bool()) + b01(t.ccs != nil) + b01(t.op != nil) + fmt.Sprintf(":%d", t.ncap)
	// the state's caches as newSearchState allocates them
	st := faGetSearchState(eng)
	sv := reflect.ValueOf(st).Elem()
	t.direct = !t.longest && (eng.Strategy() == meta.UseDFA || eng.Strategy() == meta.UseBoth) && t.dfa != nil && t.rdfa != nil &&
		!sv.FieldByName("dfaCache").IsNil() && !sv.FieldByName("revDFACache").IsNil()
	faPutSearchState(eng, st)
	return t, ""
}

var faNs = []int{-1, 0, 1, 2, 3}

type faStats struct {
	requests, cmpAll, cmpCount, cmpSub, cmpSubAt int
	modelVsReal, realVsRegexp                    int
	realVsRegexpASCII                            int
	findOKViol, directViol, directHays           int
	directOn                                     int
	examples                                     []string
	classes                                      map[string]int
}

func (s *faStats) byClass(c string) {
	if s.classes == nil {
		s.classes = map[string]int{}
	}
	s.classes[c]++
}

func (s *faStats) note(f string, a ...any) {
	if len(s.examples) < 80 {
		s.examples = append(s.examples, fmt.Sprintf(f, a...))
	}
}

func spansStr(ms [][2]int) string {
	if len(ms) == 0 {
		return "-"
	}
	ss := make([]string, len(ms))
	for i, m := range ms {
		ss[i] = fmt.Sprintf("%d.%d", m[0], m[1])
	}
	return strings.Join(ss, ",")
}

func locsStr(ms [][]int) string {
	if len(ms) == 0 {
		return "-"
	}
	ss := make([]string, len(ms))
	for i, m := range ms {
		ss[i] = fmt.Sprintf("%d.%d", m[0], m[1])
	}
	return strings.Join(ss, ",")
}

type faQuery struct {
	h       []byte
	findat  []string
	subReal []string // real findSubmatchAtWithState span from every offset
}

// the tables of one haystack and the two requests (`both`, `sub`+`subat`)
func (t *faTarget) requests(h []byte, st *faStats) (reqs []string, q faQuery) {
	n := len(h)
	eng := t.eng
	state := faGetSearchState(eng)
	defer faPutSearchState(eng, state)
	findat := make([]string, n+1)
	spans := make([][2]int, n+1)
	found := make([]bool, n+1)
	for a := 0; a <= n; a++ {
		s, e, f := faFindIndicesAtWithState(eng, h, a, state)
		findat[a] = "x"
		if f {
			findat[a] = fmt.Sprintf("%d.%d", s, e)
			spans[a], found[a] = [2]int{s, e}, true
		}
	}
	fi := "x"
	if s, e, f := eng.FindIndices(h); f {
		fi = fmt.Sprintf("%d.%d", s, e)
	}
	fwd, rev := "-", "-"
	if t.dfa != nil && t.rdfa != nil {
		fc, rc := t.dfa.NewCache(), t.rdfa.NewCache()
		fs := make([]string, n+1)
		var rs []string
		viol := false
		for a := 0; a <= n; a++ {
			e := t.dfa.SearchAt(fc, h, a)
			fs[a] = "x"
			if e >= 0 {
				fs[a] = fmt.Sprintf("%d", e)
				if e != a {
					if s := t.rdfa.SearchReverse(rc, h, a, e); s >= 0 {
						rs = append(rs, fmt.Sprintf("%d.%d.%d", a, e, s))
						if !(found[a] && spans[a] == [2]int{s, e}) {
							viol = true
						}
					} else {
						viol = true
					}
				} else if !(found[a] && spans[a] == [2]int{a, a}) {
					viol = true
				}
			} else if found[a] {
				viol = true
			}
		}
		fwd = strings.Join(fs, ",")
		if len(rs) > 0 {
			rev = strings.Join(rs, ",")
		}
		if t.direct {
			st.directHays++
			if viol {
				st.directViol++
				st.note("DirectOK violated on real data: pat=%q[%s %s] hay=%q findat=%s fwd=%s rev=%s", t.pat, t.strat, t.variant, h, strings.Join(findat, ","), fwd, rev)
			}
		}
	}
	cc := "-"
	if t.ccs != nil {
		cc = spansStr(t.ccs.FindAllIndices(h, nil))
	}
	// capture-producing oracles
	op := "x"
	if t.op != nil && t.ncap > 0 {
		cache := onepass.NewCache(t.ncap)
		var slots []int
		if t.longest {
			slots = t.op.SearchLongest(h, cache)
		} else {
			slots = t.op.Search(h, cache)
		}
		if slots != nil && len(slots) >= 2 && slots[0] >= 0 && slots[1] >= 0 {
			op = fmt.Sprintf("%d.%d", slots[0], slots[1])
		}
	}
	pv := (*nfa.PikeVM)(unsafe.Pointer(reflect.ValueOf(state).Elem().FieldByName("pikevm").Pointer()))
	pk := make([]string, n+1)
	var ins []string
	seen := map[[2]int]bool{}
	for a := 0; a <= n; a++ {
		pk[a] = "x"
		if m := pv.SearchWithSlotTableCapturesAt(h, a); m != nil {
			pk[a] = fmt.Sprintf("%d.%d", m.Start, m.End)
		}
		if found[a] && !seen[spans[a]] {
			seen[spans[a]] = true
			if m := pv.SearchWithCapturesInSpan(h, spans[a][0], spans[a][1]); m != nil {
				ins = append(ins, fmt.Sprintf("%d.%d.%d.%d", spans[a][0], spans[a][1], m.Start, m.End))
			}
		}
	}
	inspan := "-"
	if len(ins) > 0 {
		inspan = strings.Join(ins, ",")
	}
	subReal := make([]string, n+1)
	for a := 0; a <= n; a++ {
		subReal[a] = "none"
		if m := faFindSubmatchAtWithState(eng, h, a, state); m != nil {
			subReal[a] = fmt.Sprintf("%d.%d", m.Start(), m.End())
		}
	}
	ns := make([]string, len(faNs))
	for i, k := range faNs {
		ns[i] = fmt.Sprint(k)
	}
	base := []string{t.flags, strings.Join(ns, ","), hx(h), strings.Join(findat, ","), fi, fwd, rev, cc}
	fn := "both"
	if os.Getenv("FA_MUTATE") == "noguard" {
		fn = "countnoguard"
	}
	caps := []string{op, strings.Join(pk, ","), inspan}
	reqs = []string{
		"metafindall " + fn + " " + strings.Join(base, " "),
		"metafindall sub " + strings.Join(append(append([]string{}, base...), caps...), " "),
		"metafindall subat " + strings.Join(append(append([]string{}, base...), caps...), " "),
	}
	return reqs, faQuery{h: h, findat: findat, subReal: subReal}
}

func (t *faTarget) check(hays [][]byte, d *driver, st *faStats, fd *findings) {
	var reqs []string
	var qs []faQuery
	bytesN := 0
	mutate := os.Getenv("FA_MUTATE") == "noguard"
	tag := "[" + t.strat + " " + t.variant + "]"
	flush := func() {
		if len(reqs) == 0 {
			return
		}
		ans := d.ask(reqs)
		st.requests += len(reqs)
		for i, q := range qs {
			h := q.h
			aBoth := strings.Split(ans[3*i], " | ")
			aSub := strings.Split(ans[3*i+1], " | ")
			aSubAt := strings.Split(ans[3*i+2], ";")
			if len(aBoth) != len(faNs) || len(aSub) != len(faNs) || len(aSubAt) != len(h)+1 {
				st.modelVsReal++
				st.note("BAD ANSWER %q / %q / %q pat=%q hay=%q", ans[3*i], ans[3*i+1], ans[3*i+2], t.pat, h)
				continue
			}
			ascii := isASCII(h) && t.asciiPat
			for j, n := range faNs {
				realAll := spansStr(t.eng.FindAllIndicesStreaming(h, n, nil))
				realCount := t.eng.Count(h, n)
				var subs [][2]int
				for _, m := range t.eng.FindAllSubmatch(h, n) {
					subs = append(subs, [2]int{m.Start(), m.End()})
				}
				realSub := spansStr(subs)
				if mutate {
					st.cmpCount++
					if aBoth[j] != fmt.Sprint(realCount) {
						st.modelVsReal++
						st.note("Count(no guard) n=%d model=%s real=%d pat=%q%s hay=%q", n, aBoth[j], realCount, t.pat, tag, h)
					}
					continue
				}
				mAll, mCount := field(aBoth[j], "all"), field(aBoth[j], "count")
				if j == 0 {
					if field(aBoth[j], "findok") != "1" {
						st.findOKViol++
						st.note("FindOK violated by the real findIndicesAtWithState table: pat=%q%s hay=%q findat=%s", t.pat, tag, h, strings.Join(q.findat, ","))
					}
					if (field(aBoth[j], "direct") == "1") != t.direct {
						st.modelVsReal++
						st.note("useDFADirect model=%s real=%v pat=%q%s flags=%s", field(aBoth[j], "direct"), t.direct, t.pat, tag, t.flags)
					}
				}
				st.cmpAll++
				if mAll != realAll {
					st.modelVsReal++
					st.note("FindAllIndicesStreaming n=%d model=%s real=%s pat=%q%s hay=%q flags=%s", n, mAll, realAll, t.pat, tag, h, t.flags)
				}
				st.cmpCount++
				if mCount != fmt.Sprint(realCount) {
					st.modelVsReal++
					st.note("Count n=%d model=%s real=%d pat=%q%s hay=%q flags=%s", n, mCount, realCount, t.pat, tag, h, t.flags)
				}
				st.cmpSub++
				if aSub[j] != realSub {
					st.modelVsReal++
					st.note("FindAllSubmatch n=%d model=%s real=%s pat=%q%s hay=%q flags=%s", n, aSub[j], realSub, t.pat, tag, h, t.flags)
				}
				// real vs regexp (the engine's n = 0 is "no limit" for FindAllIndicesStreaming: compare with regexp's -1)
				rn := n
				if n == 0 {
					rn = -1
				}
				wantAll := locsStr(t.re.FindAllIndex(h, rn))
				wantN := len(t.re.FindAllIndex(h, n))
				wantSub := locsStr(t.re.FindAllSubmatchIndex(h, n))
				bad := func(kind, real, want string) {
					st.realVsRegexp++
					class := "ASCII"
					switch {
					case ascii:
						st.realVsRegexpASCII++
					case !utf8.Valid(h):
						class = "invalid UTF-8 haystack"
					case t.asciiPat:
						class = "valid multi-byte haystack, ASCII pattern"
					default:
						class = "valid multi-byte haystack, non-ASCII pattern"
					}
					st.byClass(class)
					fd.add(finding{class + ": " + kind + "[" + t.strat + "]", t.pat, string(h), 0, fmt.Sprintf("%s (n=%d %s)", real, n, t.variant), want})
				}
				if realAll != wantAll {
					bad("FindAllIndicesStreaming", realAll, wantAll)
				}
				if realCount != wantN {
					bad("Count", fmt.Sprint(realCount), fmt.Sprint(wantN))
				}
				if realSub != wantSub {
					bad("FindAllSubmatch", realSub, wantSub)
				}
			}
			if !mutate {
				for a := 0; a <= len(h); a++ {
					st.cmpSubAt++
					if aSubAt[a] != q.subReal[a] {
						st.modelVsReal++
						st.note("findSubmatchAtWithState at=%d model=%s real=%s pat=%q%s hay=%q flags=%s", a, aSubAt[a], q.subReal[a], t.pat, tag, h, t.flags)
					}
				}
			}
		}
		reqs, qs, bytesN = reqs[:0], qs[:0], 0
	}
	for _, h := range hays {
		rs, q := t.requests(h, st)
		reqs = append(reqs, rs...)
		qs = append(qs, q)
		for _, r := range rs {
			bytesN += len(r)
		}
		if bytesN > 4<<20 {
			flush()
		}
	}
	flush()
}

// ---- patterns -------------------------------------------------------------------------------------------------------------

func faOwnPatterns() []string {
	return []string{
		// nullable
		`a*`, `a*?`, `(?:a|b)*`, `[a-c]*`, `\w*`, `\d*`, `(?:ab)*`, `a?`, `a??`, `x*y*`, `(a*)(b*)`, `(?:)`, `|a`, `a|`, `a*|b`, `(?:a*)*`, `[^a]*`,
		`.*`, `.*?`, `(?s).*`, `\s*`, `a{0,2}`, `(?:a|)+`, `\b`, `\B`, `(?m)^`, `(?m)$`, `$`, `^`, `\z`, `(?m)^$`, `^$`, `a*$`, `\ba*`, `(?i)a*`, `(?i)[a-c]*x?`,
		`é*`, `(?:é|a)*`, `[é日]*`, `[^é]*`,
		// char-class runs, composites
		`\w+`, `\d+`, `[a-z]+`, `[a-c]+`, `\s+`, `[^a]+`, `[a-zA-Z0-9_]+`, `\d+[a-z]+`, `[a-z]+\d+`, `[a-c]+[x-z]+\d+`, `\w+\s+`, `[a-c]+\d*`, `(?i)[a-c]+`,
		// start-anchored
		`^a`, `^a*`, `^a+b`, `^abc`, `^(a|b)+`, `^\d+`, `^\w+`, `^.*`, `^.*b`, `^a?b?`, `\Aab`, `^(a)(b)?`, `^(?:ab|a)c`, `^[a-c]+\d`, `^ab|^cd`, `^a|^b`,
		`^(foo|bar|baz)`, `^(?:foo|bar|baz)\d`, `^foo`, `^foo.*bar$`, `^abc$`, `^a.*z$`, `^(\w+)\s(\w+)`, `^(\d+)-(\d+)`, `^(a+)(b+)`, `^a\w{20}`, `^abc\w{30}x?`,
		`(?i)^abc`, `(?i)^(foo|bar)`, `(?m)^a`, `(?m)^a*`, `(?m)^\w+`, `(?m)^foo$`,
		// end-anchored, suffix, inner
		`a$`, `ab$`, `\w+$`, `a+$`, `.*z`, `.*\.txt`, `\w+\.com`, `[a-z]+xy`, `a.*b.*c`, `foo.*bar.*baz`, `err.*conn.*time`, `(?m).*z$`, `(?m)\w+\.txt$`,
		// (?i)
		`(?i)abc`, `(?i)foo|bar`, `(?i)a+b`, `(?i)hello world`, `(?i)ab*c`, `(?i)(?:foo|bar)\d`, `(?i)a[bc]d`, `(?i)\bfoo\b`, `(?i)select|insert|update`,
		`(?i)abcabcabcabcabcabc`, `(?i)the quick brown fox`,
		// overlapping alternations (leftmost-first vs longest)
		`[ab]|[ab][ab]`, `a|ab`, `ab|a`, `a|ab|abc`, `abc|ab|a`, `(?:a|ab)(?:c|bcd)`, `(a|ab)(c|bcd)(d*)`, `a*|ab`, `(?:a|ab)+`, `x*|xy`, `\d|\d\d`, `mon|month`,
		`foo|foobar`, `foobar|foo`, `[a-c]|[a-c]{2}`, `(?:ab|abc|abcd)x?`,
		// captures (two-phase / onepass)
		`(a)(b)`, `(a+)(b*)`, `(\w+)@(\w+)`, `(\d+)\.(\d+)`, `(a|b)(c|d)`, `(foo|bar)(\d+)`, `(?:(a)|(b))+`, `(a*)b`, `(ab)+`, `((a)|(b))c`, `(.*)z`, `(\w+)\.txt`,
		`(a.*)(b.*)c`, `(?i)(abc)(\d)`, `(foo)|(bar)|(baz)`, `(abc|abd)(x)`, `^(\w+)=(\w*)$`, `(\d\d)-(\d\d)`, `(a)|b`, `(é+)(a*)`,
		// digits, literals, misc
		`\d+\.\d+`, `\d{2}:\d{2}`, `1\d*`, `foo|bar|baz`, `foo|bar|baz|qux|quux|corge|grault|garply|waldo`, `abc`, `a`, `ab+c`, `a[bc]+d`, `abc\d+`, `a.c`, `a\wc`,
		`\bfoo\b`, `\b\w+\b`, `\ba`, `a\b`, `é`, `é+`, `日本`, `[é-ü]+`, `\pL+`, `[^\x00-\x7f]+`, `a.b`, `(?s)a.b`, `.`, `(?s).`, `..`, `\C`,
		`\w{6}$|\w{5}`, `[a-c]{3}[x-z]{4}\d`, `ab\w{8}`, `\w{3}\d{3}\w`, `a\w{9}`, `(?:\w\d){5}`,
	}
}

func faPatterns() []string {
	var ps []string
	ps = append(ps, faOwnPatterns()...)
	ps = append(ps, metaFindPatterns()...)
	ps = append(ps, digitCandidates()...)
	ps = append(ps, teddyCandidates()...)
	ps = append(ps, ahoCandidates()...)
	ps = append(ps, btCandidates()...)
	for _, f := range []func() ([]string, map[string][]byte){patterns, innerPatterns, anchoredPatterns, setPatterns, mlPatterns} {
		p, _ := f()
		ps = append(ps, p...)
	}
	seen := map[string]bool{}
	var u []string
	for _, p := range ps {
		if !seen[p] && len(p) <= 3000 {
			seen[p] = true
			u = append(u, p)
		}
	}
	return u
}

// haystacks: exhaustive short byte strings over the pattern's alphabet; exhaustive short TOKEN strings with multi-byte runes (the
// empty-match stepping), invalid bytes; a few fixed and random longer ones
func faHaystacks(t *faTarget, short bool, rng *rand.Rand) [][]byte {
	al := mfAlphabet(t.pat)
	if len(al) > 5 {
		al = al[:5]
	}
	maxLen := 5
	switch {
	case len(al) <= 2:
		maxLen = 7
	case len(al) == 3:
		maxLen = 6
	case len(al) >= 5:
		maxLen = 4
	}
	if short {
		maxLen--
	}
	hays := exhaustive(al, maxLen)
	// tokens: two letters of the alphabet, a 2-byte rune, a 3-byte rune, a 4-byte rune, an invalid byte
	toks := [][]byte{{al[0]}, []byte("é"), []byte("日"), []byte("\U0001F600"), {0xff}}
	if len(al) > 1 {
		toks = append(toks, []byte{al[1]})
	}
	tl := 4
	if short {
		tl = 3
	}
	prev := [][]byte{{}}
	for l := 1; l <= tl; l++ {
		var cur [][]byte
		for _, p := range prev {
			for _, tk := range toks {
				cur = append(cur, append(append([]byte(nil), p...), tk...))
			}
		}
		hays = append(hays, cur...)
		prev = cur
	}
	for _, s := range []string{"aaa", "abab", "aab", "foo bar baz", "foobar", "ab12 cd34", "a1b2c3", "x.txt y.txt", "a@b.com", "12:34", "1.5 22.75",
		"abc\nabc\n", "\n\n", "foo\nbar", "éa日b", "aéé", "日本語", "aé", "éa", "ABC abc", "Hello World", "month", "abcd", "abcbcd", "é\xffa", "\x80a", "a\xc3",
		"error connection timeout", "foo1 bar22 baz333"} {
		hays = append(hays, []byte(s))
	}
	// random longer ones containing matches
	found := 0
	for tries := 0; tries < 1500 && found < 25; tries++ {
		n := 6 + rng.Intn(40)
		w := make([]byte, n)
		for i := range w {
			w[i] = al[rng.Intn(len(al))]
		}
		if t.re.Match(w) {
			found++
			hays = append(hays, w)
		}
	}
	return dedupe(hays)
}

func runMetaFindAll(drv string, workers int, only string, listOnly, short bool, maxPats int) {
	pats := faPatterns()
	if only != "" {
		pats = []string{only}
	}
	perStrat := 45
	if maxPats > 0 {
		perStrat = maxPats
	}
	var targets []*faTarget
	skipped := map[string]int{}
	byStrat := map[string]int{}
	feat := map[string]int{}
	np := 0
	for _, p := range pats {
		t, why := compileFA(p, "")
		if t == nil {
			skipped[why]++
			continue
		}
		// the hand-written list (first in `pats`) is always used; the borrowed generators fill every strategy up to perStrat
		if byStrat[t.strat] >= perStrat && np >= len(faOwnPatterns()) {
			skipped["strategy quota"]++
			continue
		}
		np++
		byStrat[t.strat]++
		mark := func(c bool, s string) {
			if c {
				feat[s]++
			}
		}
		mark(t.direct, "useDFADirect")
		mark(t.anchored, "alwaysAnchored")
		mark(t.ccs != nil && t.strat == "charClassSearcher", "streaming (CharClassSearcher)")
		mark(t.op != nil, "onepass")
		mark(t.ncap > 1, "captures")
		mark(t.re.MatchString(""), "nullable")
		mark(strings.Contains(p, "(?i)"), "(?i)")
		mark(t.dfa != nil && t.rdfa != nil, "DFA pair present")
		if listOnly {
			fmt.Printf("use  %-44q %-22s flags=%s direct=%v\n", clipS(p), t.strat, t.flags, t.direct)
		}
		targets = append(targets, t)
		if tl, _ := compileFA(p, "longest"); tl != nil {
			targets = append(targets, tl)
		}
	}
	fmt.Printf("patterns generated: %d, used: %d (targets incl. longest variants: %d), skipped: %v\n", len(pats), np, len(targets), skipped)
	var sk []string
	for k, v := range byStrat {
		sk = append(sk, fmt.Sprintf("%s=%d", k, v))
	}
	sort.Strings(sk)
	fmt.Printf("   by strategy: %s\n", strings.Join(sk, " "))
	var fk []string
	for k, v := range feat {
		fk = append(fk, fmt.Sprintf("%s=%d", k, v))
	}
	sort.Strings(fk)
	fmt.Printf("   features: %s\n", strings.Join(fk, ", "))
	if listOnly {
		return
	}
	var total faStats
	per := map[string]*faStats{}
	var fd findings
	var mu sync.Mutex
	nh, nhMB := 0, 0
	parallel(targets, workers, func(t *faTarget) {
		d := newDriver(drv)
		var st faStats
		rng := rand.New(rand.NewSource(int64(len(t.pat))*7919 + 23))
		hays := faHaystacks(t, short || t.variant != "", rng)
		t.check(hays, d, &st, &fd)
		mu.Lock()
		defer mu.Unlock()
		nh += len(hays)
		for _, h := range hays {
			if !isASCII(h) && utf8.Valid(h) {
				nhMB++
			}
		}
		agg := func(dst *faStats) {
			dst.requests += st.requests
			dst.cmpAll += st.cmpAll
			dst.cmpCount += st.cmpCount
			dst.cmpSub += st.cmpSub
			dst.cmpSubAt += st.cmpSubAt
			dst.modelVsReal += st.modelVsReal
			dst.realVsRegexp += st.realVsRegexp
			dst.realVsRegexpASCII += st.realVsRegexpASCII
			dst.findOKViol += st.findOKViol
			dst.directViol += st.directViol
			dst.directHays += st.directHays
			for _, e := range st.examples {
				dst.note("%s", e)
			}
			for c, k := range st.classes {
				if dst.classes == nil {
					dst.classes = map[string]int{}
				}
				dst.classes[c] += k
			}
		}
		agg(&total)
		k := t.strat + "/" + t.variant
		if per[k] == nil {
			per[k] = &faStats{}
		}
		agg(per[k])
	})
	fmt.Printf("haystacks: %d (valid UTF-8 with multi-byte runes: %d), model requests: %d\n", nh, nhMB, total.requests)
	fmt.Printf("comparisons: FindAllIndicesStreaming %d, Count %d, FindAllSubmatch %d, findSubmatchAtWithState %d\n", total.cmpAll, total.cmpCount, total.cmpSub, total.cmpSubAt)
	fmt.Printf("MODEL != REAL: %d\n", total.modelVsReal)
	fmt.Printf("hypotheses on real data: FindOK(findIndicesAtWithState table) violated on %d haystacks; DirectOK violated on %d of %d haystacks of direct-branch targets\n",
		total.findOKViol, total.directViol, total.directHays)
	fmt.Printf("real != regexp: %d comparisons (on ASCII pattern + ASCII haystack: %d) by class: %v\n", total.realVsRegexp, total.realVsRegexpASCII, total.classes)
	var ks []string
	for k := range per {
		ks = append(ks, k)
	}
	sort.Strings(ks)
	for _, k := range ks {
		s := per[k]
		fmt.Printf("   %-32s requests=%-8d cmp=%-9d model!=real=%-4d real!=regexp=%d (ASCII %d)\n", k, s.requests, s.cmpAll+s.cmpCount+s.cmpSub+s.cmpSubAt, s.modelVsReal, s.realVsRegexp, s.realVsRegexpASCII)
	}
	for _, e := range total.examples {
		fmt.Println("  ", e)
	}
	fd.print()
}
