// Fidelity of the Lean model Cx.Model.RevInner against meta/reverse_inner.go.
//
// For every generated pattern that meta.Compile dispatches to UseReverseInner: the searcher's parameters (innerLen,
// dotStarLiteral, prefixNullable, startAnchored, exactStart, lineBounded) are read from the engine by reflection, the
// split (PrefixAST / SuffixAST / inner literals) is recomputed with the extractor configuration of meta/compile.go.
// For every haystack the match relations (whole pattern, PREFIX portion: regexp `\A(?:…)\z` on every substring), the
// reference table (regexp leftmost-first from every offset) and the anchored table (regexp `\A(?:…)` from every offset)
// are exported to the Lean driver, which derives the component oracles and runs the MODEL at every offset; the model's
// answers are compared with the real searcher (FindIndicesAt at every offset, IsMatch), with the engine, and with regexp.
package main

import (
	"bytes"
	"fmt"
	"regexp"
	"sort"
	"strings"
	"sync"
	"unsafe"

	"github.com/coregx/coregex/meta"
)

type innerTarget struct {
	pat                            string
	eng                            *meta.Engine
	srch                           *meta.ReverseInnerSearcher
	re, reFull, reAnch, rePre      *regexp.Regexp
	lits                           [][]byte
	innerLen                       int
	dsl                            []byte
	nullable, startAnch, exact, lb bool
	rec                            *recPf
	fill                           []byte
	prefixSrc, suffixSrc           string
}

func compileInner(p string, fill []byte) (*innerTarget, string) {
	re, err := regexp.Compile(p)
	if err != nil {
		return nil, "regexp: " + err.Error()
	}
	eng, err := meta.Compile(p)
	if err != nil {
		return nil, "coregex: " + err.Error()
	}
	if eng.Strategy() != meta.UseReverseInner {
		return nil, "strategy " + eng.Strategy().String()
	}
	sf := searcherField(eng, "reverseInnerSearcher")
	if !sf.IsValid() || sf.IsNil() {
		return nil, "no searcher"
	}
	s := sf.Elem()
	info := newExtractor().ExtractInnerForReverseSearch(parsePerl(p))
	if info == nil || info.PrefixAST == nil {
		return nil, "no inner info"
	}
	t := &innerTarget{pat: p, eng: eng, re: re, fill: fill,
		reFull: regexp.MustCompile(`\A(?:` + p + `)\z`), reAnch: regexp.MustCompile(`\A(?:` + p + `)`)}
	t.srch = (*meta.ReverseInnerSearcher)(unsafe.Pointer(sf.Pointer()))
	t.prefixSrc, t.suffixSrc = info.PrefixAST.String(), info.SuffixAST.String()
	t.rePre, err = regexp.Compile(`\A(?:` + t.prefixSrc + `)\z`)
	if err != nil {
		return nil, "prefix AST does not print to a pattern: " + err.Error()
	}
	t.lits = seqBytes(info.Literals)
	t.innerLen = int(s.FieldByName("innerLen").Int())
	if d := s.FieldByName("dotStarLiteral"); !d.IsNil() {
		t.dsl = append([]byte{}, d.Bytes()...)
	}
	t.nullable = s.FieldByName("prefixNullable").Bool()
	t.startAnch = s.FieldByName("startAnchored").Bool()
	t.exact = s.FieldByName("exactStart").Bool()
	t.lb = s.FieldByName("lineBounded").Bool()
	t.rec = wrapPrefilter(s)
	return t, ""
}

func b01(x bool) string {
	if x {
		return "1"
	}
	return "0"
}

var innerPolicies = []string{"000", "101", "212", "010", "122", "201", "111", "020", "202"}

type innerStats struct {
	requests, findCmp, isMatchCmp           int
	modelVsReal, modelVsRegexp              int
	engineVsSearcher                        int
	pfContract, pfCallsChecked, pfCallsViol int
	costViol                                int
	giveUps, shapes                         int
	examples                                []string
}

func (s *innerStats) note(f string, a ...any) {
	if len(s.examples) < 40 {
		s.examples = append(s.examples, fmt.Sprintf(f, a...))
	}
}

func (s *innerStats) add(o *innerStats) {
	s.requests += o.requests
	s.findCmp += o.findCmp
	s.isMatchCmp += o.isMatchCmp
	s.modelVsReal += o.modelVsReal
	s.modelVsRegexp += o.modelVsRegexp
	s.engineVsSearcher += o.engineVsSearcher
	s.pfContract += o.pfContract
	s.pfCallsChecked += o.pfCallsChecked
	s.pfCallsViol += o.pfCallsViol
	s.costViol += o.costViol
	s.giveUps += o.giveUps
	s.shapes += o.shapes
	for _, e := range o.examples {
		s.note("%s", e)
	}
}

type innerQuery struct {
	h       []byte
	pol     string
	real    []string // FindIndicesAt of the searcher at every offset
	ref     []string
	pfCalls []int
	realIs  bool
	refIs   bool
}

func checkInner(t *innerTarget, hays [][]byte, d *driver, st *innerStats, fd *findings, mutate string) {
	var reqs []string
	var qs []innerQuery
	reqBytes := 0
	flush := func() {
		reqBytes = 0
		if len(reqs) == 0 {
			return
		}
		ans := d.ask(reqs)
		st.requests += len(reqs)
		for i, a := range ans {
			q := qs[i]
			im, as, ok := splitAnswers(a)
			if !ok || len(as) != len(q.h)+1 {
				st.modelVsReal++
				st.note("BAD ANSWER %q for %s", a[:min(len(a), 80)], reqs[i][:min(len(reqs[i]), 160)])
				continue
			}
			st.isMatchCmp++
			if im != q.realIs {
				st.modelVsReal++
				st.note("ISMATCH model=%v real=%v pat=%q hay=%q pol=%s", im, q.realIs, t.pat, q.h, q.pol)
			}
			if im != q.refIs {
				st.modelVsRegexp++
				st.note("ISMATCH model=%v regexp=%v pat=%q hay=%q pol=%s", im, q.refIs, t.pat, q.h, q.pol)
			}
			for at, one := range as {
				sp := one
				if k := strings.IndexByte(one, '/'); k >= 0 {
					sp = one[:k]
				}
				st.findCmp++
				if sp != q.real[at] {
					st.modelVsReal++
					st.note("FIND model=%s real=%s regexp=%s pat=%q hay=%q at=%d pol=%s", sp, q.real[at], q.ref[at], t.pat, q.h, at, q.pol)
				}
				if sp != q.ref[at] {
					st.modelVsRegexp++
					st.note("FIND model=%s regexp=%s pat=%q hay=%q at=%d pol=%s", sp, q.ref[at], t.pat, q.h, at, q.pol)
				}
				var rc, ac, pf int
				fmt.Sscanf(slashField(one, "rc"), "%d", &rc)
				fmt.Sscanf(slashField(one, "ac"), "%d", &ac)
				fmt.Sscanf(slashField(one, "pf"), "%d", &pf)
				n := len(q.h)
				if rc > 2*(n-at) || ac > 2*(n-at) || pf > n+1-at {
					st.costViol++
					st.note("COST rc=%d ac=%d pf=%d n-at=%d pat=%q hay=%q at=%d pol=%s", rc, ac, pf, n-at, t.pat, q.h, at, q.pol)
				}
				if slashField(one, "fwd") != "-" {
					st.giveUps++
				}
				// the never-cut / stop-at-`at` policy makes the most prefilter calls, the real searcher at most that many
				if q.pol == "001" {
					st.pfCallsChecked++
					if q.pfCalls[at] > pf {
						st.pfCallsViol++
						st.note("PFCALLS real=%d > model(never give up)=%d pat=%q hay=%q at=%d", q.pfCalls[at], pf, t.pat, q.h, at)
					}
				}
			}
		}
		reqs, qs = reqs[:0], qs[:0]
	}
	nullable, startAnch, exact, lb := t.nullable, t.startAnch, t.exact, t.lb
	dsl := "x"
	if t.dsl != nil {
		dsl = hx(t.dsl)
	}
	switch mutate {
	case "lb":
		lb = true
	case "exact":
		exact = true
	case "nullable":
		nullable = !nullable
	case "dsl":
		if t.dsl == nil {
			dsl = hx(t.lits[0])
		} else {
			dsl = "x"
		}
	}
	for hi, h := range hays {
		mt := pairTable(t.reFull, h)
		pre := pairTable(t.rePre, h)
		rt, refs := refTable(t.re, h)
		an := anchTable(t.reAnch, h)
		n := len(h)
		cmp := comparable(t.pat, h)
		realIs := t.srch.IsMatch(h)
		refIs := refs[0] != nil
		if realIs != refIs && cmp {
			fd.add(finding{"IsMatch", t.pat, string(h), 0, fmt.Sprint(realIs), fmt.Sprint(refIs)})
		}
		if t.eng.IsMatch(h) != realIs {
			st.engineVsSearcher++
			st.note("ENGINE IsMatch != searcher pat=%q hay=%q", t.pat, h)
		}
		real := make([]string, n+1)
		ref := make([]string, n+1)
		pfc := make([]int, n+1)
		for at := 0; at <= n; at++ {
			t.rec.calls = t.rec.calls[:0]
			s, e, ok := t.srch.FindIndicesAt(h, at)
			real[at] = "none"
			if ok {
				real[at] = fmt.Sprintf("%d.%d", s, e)
			}
			pfc[at] = len(t.rec.calls)
			for _, c := range t.rec.calls {
				if want := firstLit(h, t.lits, c[0]); c[1] != want {
					st.pfContract++
					st.note("PREFILTER Find(%q,%d)=%d want %d pat=%q lits=%q", h, c[0], c[1], want, t.pat, t.lits)
				}
			}
			ref[at] = span(refs[at])
			if real[at] != ref[at] && cmp {
				fd.add(finding{"FindIndicesAt", t.pat, string(h), at, real[at], ref[at]})
			}
			s2, e2, ok2 := t.eng.FindIndicesAt(h, at)
			if ok2 != ok || (ok && (s2 != s || e2 != e)) {
				st.engineVsSearcher++
				st.note("ENGINE FindIndicesAt != searcher pat=%q hay=%q at=%d", t.pat, h, at)
			}
		}
		if t.dsl != nil {
			st.shapes++
		}
		pols := []string{"001", innerPolicies[hi%len(innerPolicies)], innerPolicies[(hi/len(innerPolicies)+3)%len(innerPolicies)]}
		for _, pol := range pols {
			flags := b01(nullable) + b01(startAnch) + b01(exact) + b01(lb) + pol
			r := fmt.Sprintf("revinner run * %s %s %d %s %s %s %s %s %s", hx(h), hexList(t.lits), t.innerLen, dsl, flags, mt, pre, rt, an)
			reqBytes += len(r)
			reqs = append(reqs, r)
			qs = append(qs, innerQuery{h: h, pol: pol, real: real, ref: ref, pfCalls: pfc, realIs: realIs, refIs: refIs})
		}
		if len(reqs) >= 5000 || reqBytes >= 8<<20 {
			flush()
		}
	}
	flush()
}

func innerHaystacks(t *innerTarget, short bool) [][]byte {
	lit := t.lits[0]
	ld := distinct(bytes.Join(t.lits, nil))
	var hays [][]byte
	alpha := append([]byte{}, ld...)
	for _, f := range t.fill {
		if !bytes.Contains(alpha, []byte{f}) {
			alpha = append(alpha, f)
		}
	}
	if !bytes.Contains(alpha, []byte{'\n'}) {
		alpha = append(alpha, '\n')
	}
	maxLen := 6
	switch {
	case len(alpha) <= 3:
		maxLen = 8
	case len(alpha) == 4:
		maxLen = 6
	case len(alpha) == 5:
		maxLen = 5
	default:
		alpha = alpha[:6]
		maxLen = 4
	}
	if short {
		maxLen -= 1
	}
	hays = exhaustive(alpha, maxLen)
	// token haystacks: the literals, their proper prefixes, the fillers, newline
	tokens := [][]byte{}
	for _, l := range t.lits {
		tokens = append(tokens, l)
		if len(l) > 1 {
			tokens = append(tokens, l[:1], l[:len(l)-1])
		}
	}
	for _, f := range t.fill {
		tokens = append(tokens, []byte{f})
	}
	tokens = append(tokens, []byte{'\n'})
	for ml := len(lit) + 2; ml <= len(lit)+7; ml++ {
		hs := tokenHays(tokens, ml)
		lim := 4000
		if short {
			lim = 800
		}
		if len(hs) > lim {
			break
		}
		hays = append(hays, hs...)
	}
	// long candidate-dense inputs
	rep := func(b []byte, k int) []byte { return bytes.Repeat(b, k) }
	cat := func(parts ...[]byte) []byte { return bytes.Join(parts, nil) }
	f := t.fill[0]
	g := f
	if len(t.fill) > 1 {
		g = t.fill[1]
	}
	for _, k := range []int{6, 15} {
		hays = append(hays,
			rep(lit, k),
			cat([]byte{f}, rep(lit, k), []byte{f}),
			rep(cat([]byte{f}, lit), k),
			rep(cat([]byte{f}, lit, []byte{g}), k),
			rep(cat([]byte{f, f}, lit, []byte{f, '\n'}), k/2),
			cat(rep([]byte{f}, k), lit, rep([]byte{g}, 3), lit, rep([]byte{f}, k)),
			cat(rep(cat([]byte{g}, lit), k), []byte{f}, lit, []byte{f, f}),
			cat(rep(cat(lit, []byte{'\n'}), k), []byte{f}, lit, []byte{f}),
			cat([]byte{f}, rep(cat(lit, []byte{g}), k), lit, []byte{'1'}),
		)
	}
	// multibyte filler (valid UTF-8)
	hays = append(hays, cat([]byte("é"), lit, []byte("é")), cat([]byte{f}, []byte("日"), lit, []byte{f}), cat([]byte{f}, lit, []byte("日"), []byte{f}))
	return dedupe(hays)
}

func innerPatterns() (pats []string, fill map[string][]byte) {
	fill = map[string][]byte{}
	type part struct {
		s string
		f []byte
	}
	pres := []part{
		{`.*`, []byte("a0")}, {`.+`, []byte("a0")}, {`[a-z]+`, []byte("a0")}, {`\w+`, []byte("a-")}, {`[^\n]+`, []byte("a0")},
		{`(?s).*`, []byte("a0")}, {`(?s:.+)`, []byte("a0")}, {`[ab]+`, []byte("ab")}, {`.*?`, []byte("a0")}, {`.+?`, []byte("a0")},
		{`[a-z]+?`, []byte("a0")}, {`(.*)`, []byte("a0")}, {`([a-z]+)`, []byte("a0")}, {`[a-z]+\d*`, []byte("a0")}, {`.*a?`, []byte("a0")},
		{`\w+\s*`, []byte("a ")}, {`[a-c]+b*`, []byte("ab")}, {`.*[ab]`, []byte("ab")}, {`(?i)[a-z]+`, []byte("aA")}, {`[\x00-\x7f]+`, []byte("a0")},
		{`[a-z]+[a-z]{2,}`, []byte("a0")}, {`.+\d{1,2}`, []byte("a0")}, {`[^a]+`, []byte("ba")}, {`.*(?:a|bb)`, []byte("ab")}, {`[a-z0-9]+`, []byte("a0")},
	}
	lits := []string{`@`, `foo`, `ab`, `aa`, `aba`, `x`, `fo[ob]`, `=`, `::`, `(?:foo|fob)`, `(@)`, `a@`}
	posts := []part{
		{`.*`, nil}, {`.+`, nil}, {`[a-z]+`, nil}, {`\d+`, []byte("1")}, {`\w*`, nil}, {`[0-9]*x?`, []byte("1")}, {`.*?`, nil},
		{`(?s:.*)`, nil}, {`[a-z]*`, nil}, {`.+?`, nil}, {`\d*[a-z]*`, []byte("1")}, {`[ab]*`, []byte("b")}, {`.*\d`, []byte("1")}, {`(.*)`, nil},
		{`[^\n]*`, nil}, {`a*`, nil}, {`(?:a|b)*`, []byte("b")}, {`\w+\.\w+`, []byte(".")}, {`.{0,2}`, nil}, {`[a-z]+?`, nil},
	}
	for _, p := range pres {
		for _, l := range lits {
			for _, q := range posts {
				pat := p.s + l + q.s
				if _, dup := fill[pat]; dup {
					continue
				}
				pats = append(pats, pat)
				fill[pat] = append(append([]byte{}, p.f...), q.f...)
			}
		}
	}
	extra := map[string][]byte{
		`.*connection.*`: []byte("a0"), `(.*)(foo)(.*)`: []byte("a0"), `[a-z]+@[a-z]+\.[a-z]+`: []byte("a."), `\w+@\w+\.\w+`: []byte("a."),
		`.*=.*;.*`: []byte("a;"), `.+foo.+bar.+`: []byte("ab"), `[a-z]+foo[a-z]+foo[a-z]*`: []byte("a0"), `(?i).*foo.*`: []byte("aF"),
		`.*\.\d+`: []byte("a1"), `.+@.+`: []byte("a0"), `(?U).*foo.*`: []byte("a0"), `(?U)[a-z]+foo[a-z]+`: []byte("a0"),
		`.*(foo).*`: []byte("a0"), `(.*foo.*)`: []byte("a0"), `(?:.*)foo(?:.*)`: []byte("a0"), `.*foo.*\n?`: []byte("a0"),
		`.*foo(?s:.)*`: []byte("a0"), `.*\nfoo.*`: []byte("a0"), `.*fo\no.*`: []byte("a0"),
	}
	var ks []string
	for k := range extra {
		ks = append(ks, k)
	}
	sort.Strings(ks)
	for _, k := range ks {
		if _, dup := fill[k]; !dup {
			pats = append(pats, k)
			fill[k] = extra[k]
		}
	}
	return
}

func runInner(drv string, workers int, only string, listOnly, short bool, mutate string, maxPats int) {
	pats, fill := innerPatterns()
	if only != "" {
		pats = []string{only}
		if fill[only] == nil {
			fill[only] = []byte("a0")
		}
	}
	var targets []*innerTarget
	skipped := map[string]int{}
	for _, p := range pats {
		t, why := compileInner(p, fill[p])
		if t == nil {
			skipped[why]++
			if listOnly {
				fmt.Printf("skip %-30q %s\n", p, why)
			}
			continue
		}
		if listOnly {
			fmt.Printf("use  %-30q prefix=%q suffix=%q lits=%q innerLen=%d dsl=%q nullable=%v startAnchored=%v exactStart=%v lineBounded=%v\n",
				p, t.prefixSrc, t.suffixSrc, t.lits, t.innerLen, t.dsl, t.nullable, t.startAnch, t.exact, t.lb)
		}
		targets = append(targets, t)
	}
	// keep a spread of at most maxPats targets
	if maxPats > 0 && len(targets) > maxPats {
		step := float64(len(targets)) / float64(maxPats)
		var sel []*innerTarget
		picked := map[*innerTarget]bool{}
		for i := 0; i < maxPats; i++ {
			t := targets[int(float64(i)*step)]
			sel = append(sel, t)
			picked[t] = true
		}
		// the `.*literal.*` shortcut is rare: keep every pattern that takes it
		for _, t := range targets {
			if t.dsl != nil && !picked[t] {
				sel = append(sel, t)
			}
		}
		targets = sel
	}
	fmt.Printf("patterns generated: %d, selecting UseReverseInner: (used) %d, skipped: %v\n", len(pats), len(targets), skipped)
	cnt := map[string]int{}
	for _, t := range targets {
		if t.dsl != nil {
			cnt["dotStarLiteral"]++
		}
		if t.nullable {
			cnt["prefixNullable"]++
		}
		if t.exact {
			cnt["exactStart"]++
		}
		if t.lb {
			cnt["lineBounded"]++
		}
		if len(t.lits) > 1 {
			cnt["multi-literal"]++
		}
	}
	fmt.Printf("  %v\n", cnt)
	if listOnly {
		return
	}
	var total innerStats
	var fd findings
	var mu sync.Mutex
	nh := 0
	parallel(targets, workers, func(t *innerTarget) {
		d := newDriver(drv)
		var st innerStats
		hs := innerHaystacks(t, short)
		checkInner(t, hs, d, &st, &fd, mutate)
		mu.Lock()
		total.add(&st)
		nh += len(hs)
		mu.Unlock()
	})
	fmt.Printf("haystacks: %d, model requests: %d\n", nh, total.requests)
	fmt.Printf("FindIndicesAt comparisons: %d, IsMatch comparisons: %d\n", total.findCmp, total.isMatchCmp)
	fmt.Printf("model != real searcher: %d\nmodel != regexp: %d\nengine != searcher: %d\n", total.modelVsReal, total.modelVsRegexp, total.engineVsSearcher)
	fmt.Printf("real prefilter answers != leftmost literal occurrence: %d\n", total.pfContract)
	fmt.Printf("prefilter call counts checked: %d, real > model under the never-give-up policy: %d\n", total.pfCallsChecked, total.pfCallsViol)
	fmt.Printf("model cost bound violations (rc, ac > 2(n-at) or pf > n+1-at): %d; model answers through searchSpan: %d\n", total.costViol, total.giveUps)
	fd.print()
	for _, e := range total.examples {
		fmt.Println("  ", e)
	}
}
