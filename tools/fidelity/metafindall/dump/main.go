// dump — the compiled automaton of a pattern in the wire format of Cx.Driver.parseNfa
package main

import (
	"fmt"
	"os"

	"rsfxcheck/dumper"

	"github.com/coregx/coregex/nfa"
)

func main() {
	for _, p := range os.Args[1:] {
		n, err := nfa.NewDefaultCompiler().Compile(p)
		if err != nil {
			fmt.Println(p, err)
			continue
		}
		fmt.Printf("%q %s\n", p, dumper.DumpNFA(n))
	}
}
