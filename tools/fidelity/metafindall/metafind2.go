// Fidelity of the Lean model Cx.Model.MetaFind2 against meta/find_indices.go, meta/ismatch.go, meta/find.go (strategies
// UseDigitPrefilter / UseTeddy / UseAhoCorasick, and IsMatch of UseBoundedBacktracker): `-strategy metafind2`.
//
// For every generated pattern that the real meta.Compile dispatches to one of the four strategies, the engine's flags are read
// by reflection (prefilter, prefilterPartialCoverage, dfa, canMatchEmpty, boundedBacktracker, asciiBoundedBacktracker,
// anchoredFirstBytes, anchoredSuffix, nfa.IsAlwaysAnchored(), digitPrefilter, digitRunSkipSafe, ahoCorasick, fatTeddyFallback,
// ahoCorasickNested, ahoCorasickMaxLen — the last two travel in the optional trailing `ac` field of the request)
// and the component oracles are supplied as tables:
//   * the prefilter's answers come from the REAL objects: digitPrefilter.Find, prefilter.Find / FindMatch / IsComplete /
//     LiteralLen, ahoCorasick.Find / IsMatch, fatTeddyFallback.Find / FindAt / IsMatch, the FirstByteSet, MaxInputSize();
//   * `stop` of SearchAtAnchoredStopAt comes from the REAL lazy DFA (there is nothing in `regexp` to brute-force it from);
//     its `end` is brute-forced and compared with the real DFA's (component contract check);
//   * the engines (Pike VM, IsMatchAt, FindAt, backtrackers) are brute-forced from `regexp`.
// The automata of github.com/coregx/ahocorasick (the strategy's, the Fat Teddy fallback, the one inside
// prefilter.AhoCorasickPrefilter) are checked against the contracts of Cx.Proofs.MetaFind2Lits on their literal lists:
// EndsFirstOK (Find = an occurrence with the least end among those starting at or after `at`; and, not needed by the proofs, the
// LONGEST such), AnchOccOK (FindAt answers iff a literal starts there), AcSetOK (maxLen bounds the literals, nested = the naive
// nesting test = the Lean `hasNestedLiteral`, asked from the driver), regexp = refLit (leftmost start, first literal in list
// order), fatTeddyFallback != nil only without nesting; prefilter.AhoCorasickPrefilter.Find is compared with the Lean model
// `ahoPrefilterFind` (`metafind2 acpf`) and with the least start of an occurrence.
// The Lean driver runs the MODEL (`metafind2 all.<strategy>`); its answers are compared with the real Engine.FindIndices,
// FindIndicesAt (every offset on short inputs), IsMatch, FindAt (find.go), and — through a simulation of the FindAll loop over the
// model's findIndicesAtWithState answers — FindAllIndicesStreaming; and the real engine with regexp.
//
// Variants: `longest` calls SetLongest(true) (searchStrategy() then answers UseNFA; the Pike VM oracle is regexp's leftmost-longest
// answer); `squeeze` (UseBoundedBacktracker) shrinks maxVisitedSize of the real backtrackers so that CanHandle fails on haystacks
// longer than 3 bytes.
package main

import (
	"bytes"
	"fmt"
	"math/rand"
	"os"
	"reflect"
	"regexp"
	"sort"
	"strings"
	"sync"
	"unsafe"

	"github.com/coregx/ahocorasick"
	"github.com/coregx/coregex/dfa/lazy"
	"github.com/coregx/coregex/meta"
	"github.com/coregx/coregex/nfa"
	"github.com/coregx/coregex/prefilter"
)

type m2Target struct {
	pat     string
	variant string
	eng     *meta.Engine
	strat   string // digit | teddy | aho | bt
	mf      *mfTarget
	flags   string
	pf      prefilter.Prefilter
	fm      interface{ FindMatch([]byte, int) (int, int) }
	litLen  int
	dp      *prefilter.DigitPrefilter
	dfa     *lazy.DFA
	cache   *lazy.DFACache
	aho     *ahocorasick.Automaton
	fat     *ahocorasick.Automaton
	bt, abt *nfa.BoundedBacktracker
	fb      *nfa.FirstByteSet
	suffix  []byte
	longest bool
	skip    bool
	fatFlag bool
	acNested bool
	acMaxLen int
	ahoLits  [][]byte // the literal list of ahoCorasick
	fatLits  [][]byte // … of fatTeddyFallback
	acp      *ahocorasick.Automaton // the automaton inside prefilter.AhoCorasickPrefilter
	acpLits  [][]byte
	acpNested bool
	acpMaxLen int
}

func autoLits(a *ahocorasick.Automaton) [][]byte {
	var ls [][]byte
	for i := 0; i < a.PatternCount(); i++ {
		ls = append(ls, a.Pattern(i))
	}
	return ls
}

// naive twin of prefilter.HasNestedLiteral
func naiveNested(lits [][]byte) bool {
	for i, a := range lits {
		for j, b := range lits {
			if i != j && len(a) <= len(b) && bytes.Contains(b, a) {
				return true
			}
		}
	}
	return false
}

func litAt(h []byte, l []byte, p int) bool { return p+len(l) <= len(h) && bytes.Equal(h[p:p+len(l)], l) }

// the leftmost-first reference of an alternation of literals: leftmost start, first literal in list order
func naiveRefLit(lits [][]byte, h []byte, a int) string {
	for p := a; p <= len(h); p++ {
		for _, l := range lits {
			if litAt(h, l, p) {
				return fmt.Sprintf("%d.%d", p, p+len(l))
			}
		}
	}
	return "x"
}

// all occurrences with the least end among those starting at or after a: (least end, starts in increasing order)
func naiveEndsFirst(lits [][]byte, h []byte, a int) (end int, starts []int) {
	for e := a; e <= len(h); e++ {
		for s := a; s <= e; s++ {
			for _, l := range lits {
				if s+len(l) == e && litAt(h, l, s) {
					starts = append(starts, s)
					break
				}
			}
		}
		if len(starts) > 0 {
			return e, starts
		}
	}
	return -1, nil
}

func naiveAnyAt(lits [][]byte, h []byte, p int) bool {
	for _, l := range lits {
		if litAt(h, l, p) {
			return true
		}
	}
	return false
}

// checkEndsFirst compares one answer of Automaton.Find with EndsFirstOK; it returns the table entry
func checkEndsFirst(name string, au *ahocorasick.Automaton, lits [][]byte, h []byte, a int, st *m2Stats, pat string) string {
	v := "x"
	m, f := au.Find(h, a)
	if f {
		v = fmt.Sprintf("%d.%d", m.Start, m.End)
	}
	st.endsFirstChecked++
	end, starts := naiveEndsFirst(lits, h, a)
	if a >= len(h) {
		end, starts = -1, nil // Find answers "not found" for start >= len (no literal is empty)
	}
	okSome, okLongest := false, false
	if !f {
		okSome, okLongest = end < 0, end < 0
	} else if end == m.End {
		for _, s := range starts {
			if s == m.Start {
				okSome = true
			}
		}
		okLongest = okSome && starts[0] == m.Start
	}
	if !okSome {
		st.contractEndsFirst++
		st.cnote("%s.Find pat=%q hay=%q at=%d: %s, least end %d starts %v", name, clipS(pat), clip(h), a, v, end, starts)
	}
	if !okLongest {
		st.contractLongest++
	}
	return v
}

func compileM2(p, variant string) (*m2Target, string) {
	re, err := regexp.Compile(p)
	if err != nil {
		return nil, "regexp error"
	}
	eng, err := meta.Compile(p)
	if err != nil {
		return nil, "coregex error"
	}
	var strat string
	switch eng.Strategy() {
	case meta.UseDigitPrefilter:
		strat = "digit"
	case meta.UseTeddy:
		strat = "teddy"
	case meta.UseAhoCorasick:
		strat = "aho"
	case meta.UseBoundedBacktracker:
		strat = "bt"
	default:
		return nil, "strategy " + eng.Strategy().String()
	}
	mf := &mfTarget{pat: p, re: re, reFull: regexp.MustCompile(`\A(?:` + p + `)\z`),
		ctxCache: map[int]*regexp.Regexp{}, ctxCacheL: map[int]*regexp.Regexp{}, mtCache: map[[2]int]*regexp.Regexp{}}
	mf.reL = regexp.MustCompile(p)
	mf.reL.Longest()
	mf.lookFree = !lookRe.MatchString(p)
	t := &m2Target{pat: p, variant: variant, eng: eng, strat: strat, mf: mf}
	ev := reflect.ValueOf(eng).Elem()
	pff := ev.FieldByName("prefilter")
	if !pff.IsNil() {
		t.pf = *(*prefilter.Prefilter)(unsafe.Pointer(pff.UnsafeAddr()))
		if fm, ok := t.pf.(interface{ FindMatch([]byte, int) (int, int) }); ok {
			t.fm = fm
		}
		t.litLen = t.pf.LiteralLen()
	}
	if q := fieldPtr(ev, "boundedBacktracker"); q != nil {
		t.bt = (*nfa.BoundedBacktracker)(q)
	}
	if q := fieldPtr(ev, "asciiBoundedBacktracker"); q != nil {
		t.abt = (*nfa.BoundedBacktracker)(q)
	}
	if q := fieldPtr(ev, "anchoredFirstBytes"); q != nil {
		t.fb = (*nfa.FirstByteSet)(q)
	}
	if q := fieldPtr(ev, "digitPrefilter"); q != nil {
		t.dp = (*prefilter.DigitPrefilter)(q)
	}
	if q := fieldPtr(ev, "dfa"); q != nil {
		t.dfa = (*lazy.DFA)(q)
		t.cache = t.dfa.NewCache()
	}
	if q := fieldPtr(ev, "ahoCorasick"); q != nil {
		t.aho = (*ahocorasick.Automaton)(q)
	}
	if q := fieldPtr(ev, "fatTeddyFallback"); q != nil {
		t.fat = (*ahocorasick.Automaton)(q)
		t.fatLits = autoLits(t.fat)
	}
	if t.aho != nil {
		t.ahoLits = autoLits(t.aho)
	}
	t.acNested = ev.FieldByName("ahoCorasickNested").Bool()
	t.acMaxLen = int(ev.FieldByName("ahoCorasickMaxLen").Int())
	if acp, ok := t.pf.(*prefilter.AhoCorasickPrefilter); ok {
		pv := reflect.ValueOf(acp).Elem()
		t.acp = (*ahocorasick.Automaton)(fieldPtr(pv, "ac"))
		t.acpLits = autoLits(t.acp)
		t.acpNested = pv.FieldByName("nested").Bool()
		t.acpMaxLen = int(pv.FieldByName("maxLen").Int())
	}
	t.suffix = append([]byte(nil), ev.FieldByName("anchoredSuffix").Bytes()...)
	t.skip = ev.FieldByName("digitRunSkipSafe").Bool()
	nf := (*nfa.NFA)(fieldPtr(ev, "nfa"))
	if strings.Contains(variant, "squeeze") {
		if t.bt == nil {
			return nil, "squeeze: no backtracker"
		}
		setUnexportedInt(t.bt, "maxVisitedSize", 4*getUnexportedInt(t.bt, "numStates"))
		if t.abt != nil {
			setUnexportedInt(t.abt, "maxVisitedSize", 4*getUnexportedInt(t.abt, "numStates"))
		}
	}
	if strings.Contains(variant, "longest") {
		eng.SetLongest(true)
		t.longest = true
		mf.longest = true
	}
	// LPCMVDENAFYGSHT
	t.flags = b01(t.longest) + b01(t.pf != nil) + b01(t.pf != nil && t.pf.IsComplete()) + b01(t.fm != nil) +
		b01(ev.FieldByName("prefilterPartialCoverage").Bool()) + b01(t.dfa != nil) +
		b01(ev.FieldByName("canMatchEmpty").Bool()) + b01(t.bt != nil) + b01(t.abt != nil) + b01(t.fb != nil) +
		b01(nf.IsAlwaysAnchored()) + b01(t.dp != nil) + b01(t.skip) + b01(t.aho != nil) + b01(t.fat != nil)
	if m := os.Getenv("MF_MUTATE"); m != "" {
		var i int
		fmt.Sscanf(m, "%d", &i)
		b := []byte(t.flags)
		b[i] = '0' + ('1' - b[i])
		t.flags = string(b)
	}
	return t, ""
}

type m2Stats struct {
	requests, cmpFI, cmpAt, cmpIM, cmpFA, cmpAll int
	modelVsReal, realVsRegexp, skipped           int
	contractDigit, contractAnch, contractStop    int // real component != its contract
	contractPfm, contractAho, contractFat        int
	endsFirstChecked, contractEndsFirst, contractLongest int // Automaton.Find vs EndsFirstOK / "the longest with the least end"
	anchOccChecked, contractAnchOcc                  int // Automaton.FindAt vs AnchOccOK
	setChecked, contractSet                          int // AcSetOK: maxLen, nested (engine fields vs naive vs Lean)
	refLitChecked, contractRefLit                    int // regexp vs refLit(literal list)
	acpfChecked, acpfModel, acpfLeast                int // AhoCorasickPrefilter.Find vs the Lean model / vs the least start
	fatNested                                        int // fatTeddyFallback built for a nested set
	pfmChecked, ahoChecked, anchChecked          int
	budgetExhausted, costChecked, costViol       int
	statsChecked, statsViol                      int
	maxCostRatio                                 float64
	examples                                     []string
	contractEx                                   []string
}

func (s *m2Stats) note(f string, a ...any) {
	if len(s.examples) < 60 {
		s.examples = append(s.examples, fmt.Sprintf(f, a...))
	}
}

func (s *m2Stats) cnote(f string, a ...any) {
	if len(s.contractEx) < 40 {
		s.contractEx = append(s.contractEx, fmt.Sprintf(f, a...))
	}
}

func (s *m2Stats) add(o *m2Stats) {
	s.requests += o.requests
	s.cmpFI += o.cmpFI
	s.cmpAt += o.cmpAt
	s.cmpIM += o.cmpIM
	s.cmpFA += o.cmpFA
	s.cmpAll += o.cmpAll
	s.modelVsReal += o.modelVsReal
	s.realVsRegexp += o.realVsRegexp
	s.skipped += o.skipped
	s.contractDigit += o.contractDigit
	s.contractAnch += o.contractAnch
	s.contractStop += o.contractStop
	s.contractPfm += o.contractPfm
	s.contractAho += o.contractAho
	s.contractFat += o.contractFat
	s.endsFirstChecked += o.endsFirstChecked
	s.contractEndsFirst += o.contractEndsFirst
	s.contractLongest += o.contractLongest
	s.anchOccChecked += o.anchOccChecked
	s.contractAnchOcc += o.contractAnchOcc
	s.setChecked += o.setChecked
	s.contractSet += o.contractSet
	s.refLitChecked += o.refLitChecked
	s.contractRefLit += o.contractRefLit
	s.acpfChecked += o.acpfChecked
	s.acpfModel += o.acpfModel
	s.acpfLeast += o.acpfLeast
	s.fatNested += o.fatNested
	s.pfmChecked += o.pfmChecked
	s.ahoChecked += o.ahoChecked
	s.anchChecked += o.anchChecked
	s.budgetExhausted += o.budgetExhausted
	s.costChecked += o.costChecked
	s.costViol += o.costViol
	s.statsChecked += o.statsChecked
	s.statsViol += o.statsViol
	if o.maxCostRatio > s.maxCostRatio {
		s.maxCostRatio = o.maxCostRatio
	}
	for _, e := range o.examples {
		s.note("%s", e)
	}
	for _, e := range o.contractEx {
		s.cnote("%s", e)
	}
}

// run-length encoding of a table: `lo-hi=v,…` (entries equal to dflt are dropped)
func sparse(vals []string, dflt string) string {
	var items []string
	for i := 0; i < len(vals); {
		j := i
		for j+1 < len(vals) && vals[j+1] == vals[i] {
			j++
		}
		if vals[i] != dflt {
			if j == i {
				items = append(items, fmt.Sprintf("%d=%s", i, vals[i]))
			} else {
				items = append(items, fmt.Sprintf("%d-%d=%s", i, j, vals[i]))
			}
		}
		i = j + 1
	}
	if len(items) == 0 {
		return "-"
	}
	return strings.Join(items, ",")
}

func naiveDigit(h []byte, a int) int {
	for i := a; i < len(h); i++ {
		if h[i] >= '0' && h[i] <= '9' {
			return i
		}
	}
	return -1
}

// reference spans from every offset.  Short haystacks: in context (`refAt`); long ones: look-around-free patterns only, one regexp
// search per distinct match (the answer from `a` is the answer from every offset up to its start)
func (t *m2Target) refs(h []byte, long bool) (refs [][]int, first [][]int, ok bool) {
	n := len(h)
	refs = make([][]int, n+1)
	first = make([][]int, n+1)
	if !long {
		for a := 0; a <= n; a++ {
			f, ok1 := t.mf.refAt(h, a, false)
			r := f
			ok2 := true
			if t.longest {
				r, ok2 = t.mf.refAt(h, a, true)
			}
			if !ok1 || !ok2 {
				return nil, nil, false
			}
			refs[a], first[a] = r, f
		}
		return refs, first, true
	}
	if !t.mf.lookFree {
		return nil, nil, false
	}
	fill := func(re *regexp.Regexp, out [][]int) {
		for a := 0; a <= n; {
			loc := re.FindIndex(h[a:])
			if loc == nil {
				break
			}
			s, e := loc[0]+a, loc[1]+a
			for b := a; b <= s; b++ {
				out[b] = []int{s, e}
			}
			a = s + 1
		}
	}
	fill(t.mf.re, first)
	if t.longest {
		fill(t.mf.reL, refs)
	} else {
		copy(refs, first)
	}
	return refs, first, true
}

func spanTab(v [][]int) string {
	ss := make([]string, len(v))
	for i, l := range v {
		ss[i] = spanStr(l)
	}
	return sparse(ss, "x")
}

type m2Query struct {
	h     []byte
	refs  [][]int
	long  bool
	exh   bool // the model's trace left the candidate loop through the budget fallback
}

// one request per haystack; st collects the component contract checks
func (t *m2Target) request(h []byte, long bool, st *m2Stats) (req string, q m2Query, ok bool) {
	n := len(h)
	refs, first, ok := t.refs(h, long)
	if !ok {
		return "", q, false
	}
	q = m2Query{h: h, refs: refs, long: long}
	pike := spanTab(refs)
	imv := make([]string, n+1)
	findv := make([]string, n+1)
	for a := 0; a <= n; a++ {
		if first[a] != nil {
			imv[a], findv[a] = "1", fmt.Sprintf("%d", first[a][1])
		} else {
			imv[a], findv[a] = "0", "x"
		}
	}
	im, find := sparse(imv, "0"), sparse(findv, "x")
	dig, anch := "-", "-"
	if t.dp != nil {
		dv := make([]string, n+1)
		for a := 0; a <= n; a++ {
			p := t.dp.Find(h, a)
			if p != naiveDigit(h, a) {
				st.contractDigit++
				st.cnote("digitPrefilter.Find(%q, %d) = %d, naive %d", h, a, p, naiveDigit(h, a))
			}
			if p >= 0 {
				dv[a] = fmt.Sprintf("%d", p)
			} else {
				dv[a] = "x"
			}
		}
		dig = sparse(dv, "x")
		if t.dfa != nil {
			av := make([]string, n+1)
			for a := 0; a <= n; a++ {
				av[a] = "x"
				if a < n && h[a] >= '0' && h[a] <= '9' {
					// brute-forced end: the leftmost-FIRST match that starts exactly here
					want := -1
					if first[a] != nil && first[a][0] == a {
						want = first[a][1]
					}
					end, stop := t.dfa.SearchAtAnchoredStopAt(t.cache, h, a)
					st.anchChecked++
					if end != want {
						st.contractAnch++
						st.cnote("SearchAtAnchoredStopAt pat=%q hay=%q at=%d: end=%d, regexp %d", t.pat, clip(h), a, end, want)
					}
					if stop <= a || stop > n {
						st.contractStop++
						st.cnote("SearchAtAnchoredStopAt pat=%q hay=%q at=%d: stop=%d outside (at, len]", t.pat, clip(h), a, stop)
					}
					if want >= 0 {
						av[a] = fmt.Sprintf("%d:%d", want, stop)
					} else {
						av[a] = fmt.Sprintf("x:%d", stop)
					}
				}
			}
			anch = sparse(av, "x")
		}
	}
	pf, pfm := "-", "-"
	if t.pf != nil {
		ps := make([]string, n+1)
		ms := make([]string, n+1)
		for a := 0; a <= n; a++ {
			if p := t.pf.Find(h, a); p >= 0 {
				ps[a] = fmt.Sprintf("%d", p)
			} else {
				ps[a] = "x"
			}
			ms[a] = "x"
			if t.fm != nil {
				if s, e := t.fm.FindMatch(h, a); s >= 0 {
					ms[a] = fmt.Sprintf("%d.%d", s, e)
				}
				if t.strat == "teddy" && !t.longest {
					st.pfmChecked++
					if ms[a] != spanStr(first[a]) {
						st.contractPfm++
						st.cnote("FindMatch pat=%q hay=%q at=%d: %s, reference %s", t.pat, clip(h), a, ms[a], spanStr(first[a]))
					}
				}
			}
		}
		pf = sparse(ps, "x")
		if t.fm != nil {
			pfm = sparse(ms, "x")
		}
	}
	aho, fat, fatat := "-", "-", "-"
	bools := []byte("00000")
	is := first[0] != nil
	if is {
		bools[0], bools[1], bools[2] = '1', '1', '1'
	}
	if t.aho != nil {
		vs := make([]string, n+1)
		for a := 0; a <= n; a++ {
			vs[a] = checkEndsFirst("ahoCorasick", t.aho, t.ahoLits, h, a, st, t.pat)
			if !t.longest {
				// the contract the code as of a92eaaa needed (AhoOK): Find IS the reference search — counted, no longer required
				st.ahoChecked++
				if vs[a] != spanStr(first[a]) {
					st.contractAho++
				}
				// the reference of the alternation of the literal list = regexp
				st.refLitChecked++
				if r := naiveRefLit(t.ahoLits, h, a); r != spanStr(first[a]) {
					st.contractRefLit++
					st.cnote("refLit pat=%q hay=%q at=%d: %s, regexp %s", clipS(t.pat), clip(h), a, r, spanStr(first[a]))
				}
			}
		}
		aho = sparse(vs, "x")
		if t.aho.IsMatch(h) {
			bools[3] = '1'
		}
	}
	if t.fat != nil {
		vs := make([]string, n+1)
		va := make([]string, n+1)
		for a := 0; a <= n; a++ {
			va[a] = "x"
			vs[a] = checkEndsFirst("fatTeddyFallback", t.fat, t.fatLits, h, a, st, t.pat)
			if m, f := t.fat.FindAt(h, a); f {
				va[a] = fmt.Sprintf("%d.%d", m.Start, m.End)
			}
			// HEAD: findTeddy(At) SEARCH with Find; the fallback exists only for sets without nesting: Find = reference
			if !t.longest && n < 64 && a < n && vs[a] != spanStr(first[a]) {
				st.contractFat++
				st.cnote("fatTeddyFallback.Find pat=%q hay=%q at=%d: %s, reference %s", clipS(t.pat), clip(h), a, vs[a], spanStr(first[a]))
			}
		}
		fat, fatat = sparse(vs, "x"), sparse(va, "x")
		if t.fat.IsMatch(h) {
			bools[4] = '1'
		}
	}
	fb := "*"
	if t.fb != nil {
		var bs []byte
		for c := 0; c < 256; c++ {
			if t.fb.Contains(byte(c)) {
				bs = append(bs, byte(c))
			}
		}
		fb = hx(bs)
	}
	btLimit, aLimit := 0, 0
	if t.bt != nil {
		btLimit = t.bt.MaxInputSize()
	}
	if t.abt != nil {
		aLimit = t.abt.MaxInputSize()
	}
	budget := "32,4096"
	if b := os.Getenv("M2_BUDGET"); b != "" { // sanity check of the harness: tell the MODEL other budget constants
		budget = b
	}
	nums := fmt.Sprintf("%d,%d,%d,%s,64", t.litLen, btLimit, aLimit, budget)
	suffix := t.suffix
	if os.Getenv("M2_BADSUFFIX") != "" && len(suffix) > 0 { // sanity check of the harness: tell the MODEL a wrong anchoredSuffix
		suffix = append(append([]byte(nil), suffix...), 'x')
	}
	req = strings.Join([]string{"metafind2", "all." + t.strat, t.flags, nums, "*", hx(h), hx(suffix), pike, im, find, dig, anch, pf, pfm,
		aho, fat, fatat, string(bools), fb}, " ")
	if os.Getenv("M2_NOAC") == "" { // M2_NOAC=1: sanity check of the harness — the old protocol (the model then assumes nested=0)
		nested, maxLen := t.acNested, t.acMaxLen
		if os.Getenv("M2_BADAC") == "nested" { // sanity: tell the MODEL the opposite flag
			nested = !nested
		}
		if os.Getenv("M2_BADAC") == "maxlen" { // sanity: tell the MODEL a bound that is too small
			maxLen = 1
		}
		req += fmt.Sprintf(" %s,%d", b01(nested), maxLen)
	}
	return req, q, true
}

func clip(h []byte) string {
	if len(h) > 80 {
		return fmt.Sprintf("%s…(%d bytes)", h[:60], len(h))
	}
	return string(h)
}

func clipS(s string) string {
	if len(s) > 100 {
		return s[:100] + "…"
	}
	return s
}

func realSpan(s, e int, f bool) string {
	if !f {
		return "none"
	}
	return fmt.Sprintf("%d.%d", s, e)
}

func (t *m2Target) check(hays [][]byte, long bool, d *driver, st *m2Stats, fd *findings) {
	var reqs []string
	var qs []m2Query
	bytesN := 0
	tag := "[" + t.strat + " " + t.variant + "]"
	flush := func() {
		if len(reqs) == 0 {
			return
		}
		ans := d.ask(reqs)
		st.requests += len(reqs)
		for i, a := range ans {
			h := qs[i].h
			n := len(h)
			refs := qs[i].refs
			if strings.HasPrefix(reqs[i], "metafind2 cost.") {
				// the instrumented twin: cost against the bound, and whether the budget fallback ran
				st.costChecked++
				var cost, bound int
				fmt.Sscanf(slashField(a, "cost"), "%d", &cost)
				fmt.Sscanf(slashField(a, "bound"), "%d", &bound)
				if slashField(a, "cost") == "" || cost > bound {
					st.costViol++
					st.note("COST %q pat=%q hay=%q", a, t.pat, clip(h))
				}
				if slashField(a, "im") != "-" {
					st.budgetExhausted++
				}
				// tie the LOOP (not only its answer) to the real one: the engine's statistics count one DFASearches per anchored
				// verification scan and one NFASearches per Pike VM fallback
				nScans := 0
				if sc := slashField(a, "scans"); sc != "-" && sc != "" {
					nScans = len(strings.Split(sc, ","))
				}
				t.eng.ResetStats()
				isIM := strings.HasPrefix(reqs[i], "metafind2 cost.ismatch")
				if isIM {
					t.eng.IsMatch(h)
				} else {
					t.eng.FindIndices(h)
				}
				rs := t.eng.Stats()
				st.statsChecked++
				wantNFA := uint64(0)
				if slashField(a, "pike") != "-" {
					wantNFA = 1
				}
				if rs.DFASearches != uint64(nScans) || (!isIM && rs.NFASearches != wantNFA) {
					st.statsViol++
					st.note("STATS real DFASearches=%d NFASearches=%d, model scans=%d pike=%s: %s pat=%q hay=%q", rs.DFASearches, rs.NFASearches, nScans, slashField(a, "pike"), reqs[i][:22], t.pat, clip(h))
				}
				if n > 0 {
					if r := float64(cost) / float64(n); r > st.maxCostRatio {
						st.maxCostRatio = r
					}
				}
				continue
			}
			if t.strat == "bt" {
				im := field(a, "im")
				realIs := t.eng.IsMatch(h)
				st.cmpIM++
				if im != fmt.Sprint(realIs) {
					st.modelVsReal++
					st.note("IsMatch model=%s real=%v regexp=%v pat=%q%s hay=%q flags=%s", im, realIs, refs[0] != nil, t.pat, tag, clip(h), t.flags)
				}
				if realIs != (refs[0] != nil) {
					st.realVsRegexp++
					fd.add(finding{"IsMatch" + tag, t.pat, clip(h), 0, fmt.Sprint(realIs), fmt.Sprint(refs[0] != nil)})
				}
				continue
			}
			fi := field(a, "fi")
			ats := strings.Split(field(a, "at"), ";")
			wss := strings.Split(field(a, "ws"), ";")
			fas := strings.Split(field(a, "fa"), ";")
			if fi == "" || len(ats) != n+1 || len(wss) != n+1 || len(fas) != n+2 {
				st.modelVsReal++
				st.note("BAD ANSWER %q pat=%q hay=%q", clipS(a), t.pat, clip(h))
				continue
			}
			real := realSpan(t.eng.FindIndices(h))
			st.cmpFI++
			if fi != real {
				st.modelVsReal++
				st.note("FindIndices model=%s real=%s regexp=%s pat=%q%s hay=%q flags=%s", fi, real, ansStr(refs[0]), clipS(t.pat), tag, clip(h), t.flags)
			}
			if real != ansStr(refs[0]) {
				st.realVsRegexp++
				fd.add(finding{"FindIndices" + tag, clipS(t.pat), clip(h), 0, real, ansStr(refs[0])})
			}
			realIs := t.eng.IsMatch(h)
			st.cmpIM++
			if field(a, "im") != fmt.Sprint(realIs) {
				st.modelVsReal++
				st.note("IsMatch model=%s real=%v regexp=%v pat=%q%s hay=%q flags=%s", field(a, "im"), realIs, refs[0] != nil, clipS(t.pat), tag, clip(h), t.flags)
			}
			if realIs != (refs[0] != nil) {
				st.realVsRegexp++
				fd.add(finding{"IsMatch" + tag, clipS(t.pat), clip(h), 0, fmt.Sprint(realIs), fmt.Sprint(refs[0] != nil)})
			}
			var atList []int
			if !qs[i].long {
				for at := 0; at <= n; at++ {
					atList = append(atList, at)
				}
			} else {
				atList = []int{0, 1, 2, n / 3, n / 2, n - 100, n - 2, n - 1, n}
			}
			for _, at := range atList {
				if at < 0 || at > n {
					continue
				}
				real := realSpan(t.eng.FindIndicesAt(h, at))
				st.cmpAt++
				if ats[at] != real {
					st.modelVsReal++
					st.note("FindIndicesAt model=%s real=%s regexp=%s pat=%q%s hay=%q at=%d flags=%s", ats[at], real, ansStr(refs[at]), clipS(t.pat), tag, clip(h), at, t.flags)
				}
				if real != ansStr(refs[at]) {
					st.realVsRegexp++
					fd.add(finding{"FindIndicesAt" + tag, clipS(t.pat), clip(h), at, real, ansStr(refs[at])})
				}
				m := t.eng.FindAt(h, at)
				realF := "none"
				if m != nil {
					realF = fmt.Sprintf("%d.%d", m.Start(), m.End())
				}
				st.cmpFA++
				if fas[at] != realF {
					st.modelVsReal++
					st.note("FindAt model=%s real=%s regexp=%s pat=%q%s hay=%q at=%d flags=%s", fas[at], realF, ansStr(refs[at]), clipS(t.pat), tag, clip(h), at, t.flags)
				}
				if realF != ansStr(refs[at]) {
					st.realVsRegexp++
					fd.add(finding{"FindAt" + tag, clipS(t.pat), clip(h), at, realF, ansStr(refs[at])})
				}
			}
			if m := t.eng.FindAt(h, n+1); m != nil || fas[n+1] != "none" {
				st.modelVsReal++
				st.note("FindAt(len+1) model=%s real=%v pat=%q", fas[n+1], m, t.pat)
			}
			// FindAll: simulate findAllIndicesLoop over the model's findIndicesAtWithState answers (matches are non-empty here)
			var sim []string
			for pos := 0; pos <= n; {
				w := wss[pos]
				if w == "none" {
					break
				}
				var s, e int
				fmt.Sscanf(w, "%d.%d", &s, &e)
				sim = append(sim, w)
				if e > pos {
					pos = e
				} else {
					pos++
				}
			}
			var realAll, wantAll []string
			for _, m := range t.eng.FindAllIndicesStreaming(h, -1, nil) {
				realAll = append(realAll, fmt.Sprintf("%d.%d", m[0], m[1]))
			}
			re := t.mf.re
			if t.longest {
				re = t.mf.reL
			}
			for _, m := range re.FindAllIndex(h, -1) {
				wantAll = append(wantAll, fmt.Sprintf("%d.%d", m[0], m[1]))
			}
			st.cmpAll++
			if strings.Join(sim, ",") != strings.Join(realAll, ",") {
				st.modelVsReal++
				st.note("FindAll model=%v real=%v regexp=%v pat=%q%s hay=%q", sim, realAll, wantAll, clipS(t.pat), tag, clip(h))
			}
			if strings.Join(realAll, ",") != strings.Join(wantAll, ",") {
				st.realVsRegexp++
				fd.add(finding{"FindAll" + tag, clipS(t.pat), clip(h), 0, strings.Join(realAll, ","), strings.Join(wantAll, ",")})
			}
		}
		reqs, qs, bytesN = reqs[:0], qs[:0], 0
	}
	for _, h := range hays {
		req, q, ok := t.request(h, long, st)
		if !ok {
			st.skipped++
			continue
		}
		reqs = append(reqs, req)
		qs = append(qs, q)
		bytesN += len(req)
		if t.strat == "digit" && !t.longest && (long || len(h) >= 24) {
			// the instrumented twins
			for _, fn := range []string{"cost.digit", "cost.ismatch"} {
				r2 := strings.Replace(req, "metafind2 all.digit", "metafind2 "+fn, 1)
				fs := strings.SplitN(r2, " ", 6)
				fs[4] = "0"
				reqs = append(reqs, strings.Join(fs, " "))
				qs = append(qs, q)
				bytesN += len(req)
			}
		}
		if bytesN > 4<<20 {
			flush()
		}
	}
	flush()
}

// checkLits: the set-level facts (AcSetOK) of the three automata against the naive twins and the Lean definitions, and
// prefilter.AhoCorasickPrefilter.Find against the Lean model `ahoPrefilterFind` and against "the least start of an occurrence"
func (t *m2Target) checkLits(hays [][]byte, d *driver, st *m2Stats) {
	hexList := func(ls [][]byte) string {
		ss := make([]string, len(ls))
		for i, l := range ls {
			ss[i] = hx(l)
		}
		return strings.Join(ss, ",")
	}
	type set struct {
		name   string
		lits   [][]byte
		nested bool
		maxLen int
	}
	var sets []set
	if t.aho != nil {
		sets = append(sets, set{"ahoCorasick", t.ahoLits, t.acNested, t.acMaxLen})
	}
	if t.acp != nil {
		sets = append(sets, set{"AhoCorasickPrefilter", t.acpLits, t.acpNested, t.acpMaxLen})
	}
	if t.fat != nil {
		// the fallback has no flags: compile.go builds it only without nesting; maxLen is not used
		mx := 0
		for _, l := range t.fatLits {
			if len(l) > mx {
				mx = len(l)
			}
		}
		sets = append(sets, set{"fatTeddyFallback", t.fatLits, false, mx})
	}
	var reqs []string
	for _, s := range sets {
		reqs = append(reqs, "metafind2 lits nested 0 - "+hexList(s.lits), "metafind2 lits maxlen 0 - "+hexList(s.lits))
	}
	if len(reqs) > 0 {
		ans := d.ask(reqs)
		st.requests += len(reqs)
		for i, s := range sets {
			st.setChecked++
			mx := 0
			for _, l := range s.lits {
				if len(l) > mx {
					mx = len(l)
				}
			}
			nn := naiveNested(s.lits)
			if ans[2*i] != b01(nn) || ans[2*i+1] != fmt.Sprint(mx) || s.nested != nn || s.maxLen != mx {
				st.contractSet++
				st.cnote("AcSetOK %s pat=%q: engine nested=%v maxLen=%d, naive nested=%v maxLen=%d, Lean nested=%s maxLen=%s", s.name, clipS(t.pat), s.nested, s.maxLen, nn, mx, ans[2*i], ans[2*i+1])
			}
			if s.name == "fatTeddyFallback" && nn {
				st.fatNested++
			}
		}
	}
	if t.acp == nil {
		return
	}
	reqs = reqs[:0]
	var qh [][]byte
	flush := func() {
		if len(reqs) == 0 {
			return
		}
		ans := d.ask(reqs)
		st.requests += len(reqs)
		for i, a := range ans {
			h := qh[i]
			got := strings.Split(a, ";")
			if len(got) != len(h)+1 {
				st.acpfModel++
				st.cnote("acpf BAD ANSWER %q pat=%q hay=%q", clipS(a), clipS(t.pat), clip(h))
				continue
			}
			for at := 0; at <= len(h); at++ {
				st.acpfChecked++
				real := "x"
				if p := t.pf.Find(h, at); p >= 0 {
					real = fmt.Sprint(p)
				}
				if got[at] != real {
					st.acpfModel++
					st.cnote("AhoCorasickPrefilter.Find model=%s real=%s pat=%q hay=%q at=%d", got[at], real, clipS(t.pat), clip(h), at)
				}
				least := "x"
				for p := at; p < len(h); p++ {
					if naiveAnyAt(t.acpLits, h, p) {
						least = fmt.Sprint(p)
						break
					}
				}
				if real != least {
					st.acpfLeast++
					st.cnote("AhoCorasickPrefilter.Find pat=%q hay=%q at=%d: %s, least start of an occurrence %s", clipS(t.pat), clip(h), at, real, least)
				}
			}
		}
		reqs, qh = reqs[:0], qh[:0]
	}
	for _, h := range hays {
		n := len(h)
		vs := make([]string, n+1)
		va := make([]string, n+1)
		for a := 0; a <= n; a++ {
			vs[a] = checkEndsFirst("AhoCorasickPrefilter.ac", t.acp, t.acpLits, h, a, st, t.pat)
			va[a] = "x"
			m, f := t.acp.FindAt(h, a)
			if f {
				va[a] = fmt.Sprintf("%d.%d", m.Start, m.End)
			}
			if a < n {
				st.anchOccChecked++
				if f != naiveAnyAt(t.acpLits, h, a) {
					st.contractAnchOcc++
					st.cnote("ac.FindAt pat=%q hay=%q at=%d: found=%v, a literal starts there: %v", clipS(t.pat), clip(h), a, f, !f)
				}
			}
		}
		nested := t.acpNested
		if os.Getenv("M2_BADAC") == "nested" {
			nested = !nested
		}
		reqs = append(reqs, fmt.Sprintf("metafind2 acpf %s,%d %s %s %s", b01(nested), t.acpMaxLen, hx(h), sparse(vs, "x"), sparse(va, "x")))
		qh = append(qh, h)
		if len(reqs) >= 2000 {
			flush()
		}
	}
	flush()
}

// ---- patterns -------------------------------------------------------------------------------------------------------------

func digitCandidates() []string {
	var ps []string
	heads := []string{`\d`, `[0-9]`, `\d+`, `[0-9]+`, `\d{2}`, `\d{1,3}`, `\d{2,}`, `[0-5]`, `[0-5]+`, `[1-9]\d*`, `(\d+)`, `(?:\d\d)+`, `\d*\d`,
		`[0-9]?[0-9]`, `(?:1|2)`, `(?:12|3)`, `(?:\d|\d\d)`, `\d+?`, `\d*?\d`, `1?2`, `[0-9]*[0-9]`, `(\d)(\d)`, `[1-9]`, `\d{3}`, `(?:\d{2})?\d`,
		`[0-9]{1,2}`, `(?:0|1\d)`, `[13579]`, `\d\d?`}
	tails := []string{`\.\d+`, `[a-z]*X`, `[a-z0-9]*X`, `-\d{4}`, `\b`, `[a-z]+`, `(?:st|nd|rd|th)`, `\s\w+`, `:\d\d`, `x?y`, `[^0-9]`, `.`,
		`(?:\.\d+)?`, `%`, `[a-c]`, `,\d{3}`, `\w*z`, `\D+`, ` +[a-z]`, `(?:a|b)c`, `$`, `\b\w`, `[a-c]+\d`, `(?:[a-c]\d)+`, `[a-c]?\d`, `\.\d*`,
		`[a-c]{2}`, `(?:x|yz)`, `\s*,`, `[a-z]*\d[a-z]*X`, `[x-z]+[a-c]`, `[.,]\d`, `\D\d`, `(?s:.)x`, `[a-c]*?\d`, `a+b+`, ``}
	for _, h := range heads {
		for _, tl := range tails {
			ps = append(ps, h+tl)
		}
	}
	ps = append(ps, `1a2b|2c`, `\d+a|\d+b`, `[0-9]+\.[0-9]+|[0-9]+`, `\d{3}-\d{4}`, `\d{4}-\d{2}-\d{2}`, `\d{1,2}:\d{2}`, `\d+\.\d+\.\d+`,
		`\d{1,3}\.\d{1,3}\.\d{1,3}\.\d{1,3}`, `(?:25[0-5]|2[0-4]\d|1?\d?\d)\.\d+`, `\d+(?:,\d{3})*`, `\d+[eE][+-]?\d+`, `(\d+)-(\d+)`,
		`\d+(?:\.\d+)?[a-z]`, `[0-9][a-z0-9]*X`, `\d[a-z]*X`, `\d+\s*(?:kb|mb|gb)`, `\d+(?:px|em|pt)`, `0x[0-9a-f]+`, `0[0-7]*[89]`,
		`\d+:\d+:\d+`, `\d+/\d+`, `1\d*2`, `\d[a-c]\d|\d[x-z]`, `(?:\d[a-c])+x`, `\d(?:[a-c]|\d)*z`, `\d+[a-c]*\d+[x-z]`, `[0-4]\d*[5-9][a-c]`)
	return ps
}

func wordPool(rng *rand.Rand, alpha string, n, minLen, maxLen int) []string {
	seen := map[string]bool{}
	var ws []string
	for len(ws) < n {
		l := minLen + rng.Intn(maxLen-minLen+1)
		b := make([]byte, l)
		for i := range b {
			b[i] = alpha[rng.Intn(len(alpha))]
		}
		if !seen[string(b)] {
			seen[string(b)] = true
			ws = append(ws, string(b))
		}
	}
	return ws
}

func teddyCandidates() []string {
	rng := rand.New(rand.NewSource(4711))
	ps := []string{`foo|bar|baz`, `foo|bar`, `rdqs1b|dqs`, `(foo|bar|baz)`, `foo|foobar`, `foobar|foo`, `abc|abcd|abcde`, `abcde|abcd|abc`,
		`abc|bcd|cde`, `aaa|aab|aba`, `abcd|bcd`, `bcd|abcd`, `abab|baba`, `hello|world`, `(?:abc|abd)`, `(abc)|(abd)`, `abc|xbc`, `xyz|abcxyz`,
		`abcxyz|xyz`, `aaaa|aaa`, `aaa|aaaa`, `ab[cd]e|xyz`, `ab[cd]|[cd]ab`, `(?i)abc`, `(?i)foo|bar`, `(?m)^foo|^bar`, `(?m)^(?:foo|bar)`,
		`foo|bar|`, `25[0-5]|2[0-4][0-9]`, `mon|month`, `month|mon`, `abc|abc`, `a[bc]d|a[bc]de`, `tic|tac|toe`, `cat|dog|cow|pig|hen`,
		`[ab][cd][ef]`, `x[ab]y|y[ab]x`, `abca|bcab|cabc`, `error|warn|info|debug|trace`, `GET|POST|PUT|DELETE|PATCH`}
	alphas := []string{"ab", "abc", "abcd", "ab1", "rdqs1b"}
	for i := 0; i < 260; i++ {
		al := alphas[i%len(alphas)]
		var k int
		switch {
		case i%5 == 4:
			k = 33 + rng.Intn(32) // Fat Teddy
		case i%5 == 3:
			k = 9 + rng.Intn(24)
		default:
			k = 2 + rng.Intn(7)
		}
		maxLen := 5
		if k > 20 {
			maxLen = 7
		}
		if len(al) == 2 && k > 40 {
			maxLen = 8
		}
		ps = append(ps, strings.Join(wordPool(rng, al, k, 3, maxLen), "|"))
	}
	// Fat Teddy sets (33..64 literals) WITHOUT nesting: only these get the small-haystack fallback automaton
	for i := 0; i < 60; i++ {
		al := []string{"abcd", "abcde", "rdqs1b", "abcdef"}[i%4]
		ps = append(ps, strings.Join(noNestPool(rng, al, 33+rng.Intn(32), 3+i%2, 5+i%3), "|"))
	}
	return ps
}

// distinct words none of which occurs inside another one
func noNestPool(rng *rand.Rand, alpha string, n, minLen, maxLen int) []string {
	var ws []string
	for tries := 0; len(ws) < n && tries < 200000; tries++ {
		l := minLen + rng.Intn(maxLen-minLen+1)
		b := make([]byte, l)
		for i := range b {
			b[i] = alpha[rng.Intn(len(alpha))]
		}
		w := string(b)
		ok := true
		for _, v := range ws {
			if strings.Contains(v, w) || strings.Contains(w, v) {
				ok = false
				break
			}
		}
		if ok {
			ws = append(ws, w)
		}
	}
	return ws
}

func ahoCandidates() []string {
	rng := rand.New(rand.NewSource(1234))
	var ps []string
	alphas := []string{"abcdefghijkl", "abcdefghijklmnop", "abcdefghijklmnopqrst", "abcdefghijklmnopqrstuvwxyz", "rdqs1bxyzwvu", "abcdefghijklmnopqrstuvwxyz0123456789"}
	for i := 0; i < 420; i++ {
		al := alphas[i%len(alphas)]
		k := 65 + rng.Intn(60)
		minLen, maxLen := 2, 6
		if i%3 == 0 {
			minLen, maxLen = 3, 5
		}
		if i%7 == 0 {
			minLen, maxLen = 1, 4
		}
		ws := wordPool(rng, al, k, minLen, maxLen)
		// plant related words: infixes, suffixes, prefixes and extensions of words of the set, in both orders
		seen := map[string]bool{}
		for _, w := range ws {
			seen[w] = true
		}
		for j := 0; j < 6; j++ {
			w := ws[rng.Intn(len(ws))]
			var v string
			switch rng.Intn(4) {
			case 0:
				if len(w) >= 3 {
					v = w[1 : len(w)-1]
				}
			case 1:
				v = w[1:]
			case 2:
				v = w[:len(w)-1]
			default:
				v = w + string(al[rng.Intn(len(al))]) + string(al[rng.Intn(len(al))])
			}
			if v != "" && !seen[v] {
				seen[v] = true
				if rng.Intn(2) == 0 {
					ws = append(ws, v)
				} else {
					ws = append([]string{v}, ws...)
				}
			}
		}
		ps = append(ps, strings.Join(ws, "|"))
	}
	// nested sets whose literals are all >= 3 bytes long: these also get prefilter.AhoCorasickPrefilter (the NFA path of Longest())
	for i := 0; i < 40; i++ {
		al := alphas[i%len(alphas)]
		ws := wordPool(rng, al, 66+rng.Intn(30), 4, 7)
		seen := map[string]bool{}
		for _, w := range ws {
			seen[w] = true
		}
		for j := 0; j < 8; j++ {
			w := ws[rng.Intn(len(ws))]
			lo := rng.Intn(len(w) - 2)
			hi := lo + 3 + rng.Intn(len(w)-lo-2)
			v := w[lo:hi]
			if j%3 == 2 {
				v = w + string(al[rng.Intn(len(al))])
			}
			if !seen[v] {
				seen[v] = true
				if rng.Intn(2) == 0 {
					ws = append(ws, v)
				} else {
					ws = append([]string{v}, ws...)
				}
			}
		}
		ps = append(ps, strings.Join(ws, "|"))
	}
	// sets WITHOUT nesting (the automaton's answer is returned as it is), 65+ literals
	for i := 0; i < 40; i++ {
		al := alphas[i%len(alphas)]
		ps = append(ps, strings.Join(noNestPool(rng, al, 65+rng.Intn(40), 2+i%3, 5+i%2), "|"))
	}
	return ps
}

func btCandidates() []string {
	var ps []string
	bodies := []string{`a+b`, `a.*b`, `[a-c]+\d`, `(a|b)+`, `\d+`, `a*`, `a*b`, `.*b`, `.+`, `(?:ab|a)c`, `\w+\s`, `a.b`, `a?b?`, `(a*)(b*)`,
		`[a-c]{2,}x`, `x[a-c]*`, `.`, `ab*c`, `(ab)+`, `(?:a|bc)d`, `a.*`, `ab.*c`, `a(?:b|c)*d`, `[^a]b`, `a+?b`, `a*?b`, `.*?b`, `(?:|a)b`, `\d{2}`,
		`[ab][ab]`, `a.?b`, `.a`, `..`, `a..b`, `/.*\.php`, `/.*[\w-]+\.php`, `a.*bc`, `.*abc`, `[a-c]*abc`, `\w+@\w+\.com`, `(\d+|ab|c)`,
		`(?:\d+|ab)x`, `.*\.txt`, `a[a-c]*bb`, `(a|b)*abb`, `x.*yz`, `[a-c]+cba`, `.+ab`, `\d+px`, `a+`, `(a+)(b+)`, `.*`}
	for _, b := range bodies {
		ps = append(ps, `^`+b, `^`+b+`$`, `^(?:`+b+`)$`, `\A`+b+`\z`)
	}
	// unanchored simple char-class shapes
	ps = append(ps, `(a|b|c)+`, `([a-c])+\d`, `([a-c])+`, `(\d)+x?`, `[a-c]+[x-z]*\d?`, `([ab])([cd])`, `(a|b)(c|d)*`, `([a-c])*x`, `([a-c]+)(\d+)`, `(\w)+`,
		`(\w)(\d)`, `([a-c]){2}`, `([a-c]){1,2}\d`, `(a|b)+?`, `([a-c])+?\d`, `([a-c])*?x`, `(\d)+?`, `[a-c]+?`, `[a-c]*?\d`, `([ab])??c`, `[a-c]+?[0-9]??`)
	return ps
}

func m2Alphabet(t *m2Target) []byte {
	switch t.strat {
	case "digit":
		al := []byte{'1', '2'}
		for _, c := range []byte("aXx.-:, %z") {
			if strings.IndexByte(t.pat, c) >= 0 && len(al) < 5 {
				al = append(al, c)
			}
		}
		if strings.Contains(t.pat, "[0-5]") || strings.Contains(t.pat, "[0-4]") || strings.Contains(t.pat, "[1-9]") {
			al = append(al, '9', '0')
		}
		if len(al) < 4 {
			al = append(al, 'a')
		}
		if len(al) < 4 {
			al = append(al, '#')
		}
		return al
	case "teddy", "aho":
		seen := map[byte]bool{}
		var al []byte
		for i := 0; i < len(t.pat) && len(al) < 4; i++ {
			c := t.pat[i]
			if (c >= 'a' && c <= 'z' || c >= '0' && c <= '9') && !seen[c] {
				seen[c] = true
				al = append(al, c)
			}
		}
		if len(al) < 4 {
			al = append(al, '#')
		}
		return al
	}
	return mfAlphabet(t.pat)
}

// words of an alternation of plain literals (for literal-derived haystacks)
func litWords(p string) []string {
	p = strings.TrimPrefix(p, "(")
	p = strings.TrimSuffix(p, ")")
	var ws []string
	for _, w := range strings.Split(p, "|") {
		ok := w != ""
		for i := 0; i < len(w); i++ {
			if !(w[i] >= 'a' && w[i] <= 'z' || w[i] >= '0' && w[i] <= '9' || w[i] >= 'A' && w[i] <= 'Z') {
				ok = false
			}
		}
		if ok {
			ws = append(ws, w)
		}
	}
	return ws
}

func m2Haystacks(t *m2Target, short bool, rng *rand.Rand) [][]byte {
	al := m2Alphabet(t)
	maxLen := 5
	switch {
	case len(al) <= 3:
		maxLen = 7
	case len(al) == 4:
		maxLen = 6
	case len(al) >= 6:
		maxLen = 4
	}
	if short {
		maxLen -= 2
	}
	hays := exhaustive(al, maxLen)
	// matching longer haystacks
	found := 0
	for tries := 0; tries < 3000 && found < 30; tries++ {
		n := 6 + rng.Intn(70)
		w := make([]byte, n)
		for i := range w {
			w[i] = al[rng.Intn(len(al))]
		}
		if loc := t.mf.re.FindIndex(w); loc != nil && loc[1] > loc[0] {
			found++
			m := w[loc[0]:loc[1]]
			hays = append(hays, append([]byte(nil), m...), append([]byte("#"), m...), append(append([]byte("##"), m...), "#"...),
				append(append([]byte(nil), m...), m...))
			if len(w) <= 40 {
				hays = append(hays, w)
			}
		}
	}
	// literal-derived: every word alone, every pair of words concatenated / overlapped, words inside long fillers (>= 64 bytes:
	// past the Fat Teddy small-haystack threshold; >= 128: past the Aho-Corasick skip-ahead threshold)
	if ws := litWords(t.pat); len(ws) > 0 {
		for i, w := range ws {
			if i < 40 || !short {
				hays = append(hays, []byte(w), []byte("#"+w), []byte(w[:len(w)-1]), []byte(w[1:]+w))
			}
		}
		for k := 0; k < 60; k++ {
			a, b := ws[rng.Intn(len(ws))], ws[rng.Intn(len(ws))]
			hays = append(hays, []byte(a+b), []byte(a[:len(a)-1]+b), []byte(a[:1+rng.Intn(len(a))]+b+"#"+a))
		}
		for _, fl := range []int{70, 140, 300} {
			for k := 0; k < 6; k++ {
				w := ws[rng.Intn(len(ws))]
				f := bytes.Repeat([]byte("#"), fl)
				pos := rng.Intn(fl)
				h := append(append(append([]byte(nil), f[:pos]...), w...), f[pos:]...)
				hays = append(hays, h)
				// random text over the alphabet with a word planted
				r := make([]byte, fl)
				for i := range r {
					r[i] = al[rng.Intn(len(al))]
				}
				hays = append(hays, r, append(append(append([]byte(nil), r[:pos]...), w...), r[pos:]...))
			}
			hays = append(hays, bytes.Repeat([]byte("#"), fl))
		}
	}
	if t.strat == "digit" {
		// digit-derived: runs of digits with separators
		for k := 0; k < 40; k++ {
			n := 8 + rng.Intn(60)
			w := make([]byte, n)
			for i := range w {
				switch rng.Intn(5) {
				case 0:
					w[i] = al[rng.Intn(len(al))]
				default:
					w[i] = byte('0' + rng.Intn(10))
				}
			}
			hays = append(hays, w)
		}
	}
	if t.strat == "bt" {
		for _, s := range []string{"é", "aéb", "éab", "abé", "ab\xffab", "/foo.php", "/foo/bar.php", "/foo.phpx", "a@b.com", "12px", "file.txt", "abcabc"} {
			hays = append(hays, []byte(s))
		}
	}
	return dedupe(hays)
}

// LONG digit-dense haystacks (>= 5000 bytes, and four boundary ones of 2081..4097 bytes) on which failed anchored scans run far: the budget is exhausted
func m2LongHays(t *m2Target, rng *rand.Rand) [][]byte {
	var hays [][]byte
	mk := func(n int, f func(i int) byte) []byte {
		w := make([]byte, n)
		for i := range w {
			w[i] = f(i)
		}
		return w
	}
	hays = append(hays, mk(5000, func(i int) byte { return byte('0' + i%10) }))
	hays = append(hays, mk(6000, func(i int) byte {
		if i%97 == 96 {
			return 'a'
		}
		return byte('1' + i%9)
	}))
	hays = append(hays, mk(5200, func(i int) byte {
		if rng.Intn(6) == 0 {
			return "ab.-:x "[rng.Intn(7)]
		}
		return byte('0' + rng.Intn(10))
	}))
	// digits and lower-case letters (the `[0-9][a-z0-9]*X` shape), a match at the very end / none
	base := mk(7000, func(i int) byte {
		if i%3 == 0 {
			return byte('0' + i%10)
		}
		return byte('a' + i%26)
	})
	hays = append(hays, base, append(append([]byte(nil), base...), 'X'), append(append([]byte(nil), base...), []byte(".5 12:30 1-2345 7z")...))
	// boundary haystacks: when every failed scan reads to the end (`[0-9][a-z0-9]*X`), the budget test
	// `spent <= 32*(pos-origin)+4096` is met with equality / missed by one: a first scan of exactly 4096 / 4097 bytes; digits at 0 and
	// 2 and 2n-2 = 4160 / 4162 (these tell the constants 32 and 4096 from their neighbours)
	for _, n := range []int{4096, 4097, 2081, 2082} {
		hays = append(hays, mk(n, func(i int) byte {
			if i == 1 {
				return 'a'
			}
			return byte('0' + i%10)
		}))
	}
	return hays
}

func runMetaFind2(drv string, workers int, only string, listOnly, short, noLong bool, maxPats int) {
	groups := map[string][]string{"digit": digitCandidates(), "teddy": teddyCandidates(), "aho": ahoCandidates(), "bt": btCandidates()}
	order := []string{"digit", "bt", "teddy", "aho"}
	if only != "" {
		groups = map[string][]string{"only": {only}}
		order = []string{"only"}
	} else if g := os.Getenv("M2_GROUPS"); g != "" { // restrict the run to some strategies: M2_GROUPS=digit,bt
		order = strings.Split(g, ",")
	}
	var targets []*m2Target
	skipped := map[string]int{}
	byStrat := map[string]int{}
	feat := map[string]int{}
	for _, g := range order {
		seen := map[string]bool{}
		kept := 0
		for _, p := range groups[g] {
			if seen[p] {
				continue
			}
			seen[p] = true
			t, why := compileM2(p, "")
			if t == nil || (g != "only" && t.strat != g) {
				if t != nil {
					why = "other group: " + t.strat
				}
				skipped[g+": "+why]++
				if listOnly {
					fmt.Printf("skip %-40q %s\n", clipS(p), why)
				}
				continue
			}
			if maxPats > 0 && kept >= maxPats {
				continue
			}
			kept++
			byStrat[t.strat]++
			f := t.flags
			mark := func(c bool, s string) {
				if c {
					feat[t.strat+":"+s]++
				}
			}
			mark(f[3] == '1', "FindMatch")
			mark(f[1] == '1' && t.litLen > 0, "literalLen>0")
			mark(f[5] == '1', "dfa")
			mark(f[8] == '1', "asciiBT")
			mark(f[9] == '1', "firstBytes")
			mark(len(t.suffix) > 0, "anchoredSuffix")
			mark(f[10] == '1', "alwaysAnchored")
			mark(f[12] == '1', "digitRunSkipSafe")
			mark(f[14] == '1', "fatTeddyFallback")
			_, isFat := t.pf.(*prefilter.FatTeddy)
			mark(isFat, "FatTeddy")
			mark(t.acp != nil, "AhoCorasickPrefilter")
			mark(t.acp != nil && t.acpNested, "AhoCorasickPrefilter nested")
			mark(t.aho != nil && t.acNested, "ahoCorasickNested")
			mark(t.aho != nil && !t.acNested, "ahoCorasick not nested")
			mark(!t.mf.lookFree, "look-around")
			if listOnly {
				fmt.Printf("use  %-40q %-5s flags=%s suffix=%q litLen=%d\n", clipS(p), t.strat, t.flags, t.suffix, t.litLen)
				if d := os.Getenv("M2_DUMP"); d != "" && strings.HasPrefix(p, d) { // print one generated pattern in full
					fmt.Printf("FULL %s\n", p)
				}
			}
			targets = append(targets, t)
			if t.strat != "bt" {
				if tl, _ := compileM2(p, "longest"); tl != nil {
					targets = append(targets, tl)
				}
			} else if ts, _ := compileM2(p, "squeeze"); ts != nil {
				targets = append(targets, ts)
			}
		}
	}
	fmt.Printf("patterns dispatched: %v (targets incl. variants: %d)\n   not used: %v\n", byStrat, len(targets), skipped)
	var fk []string
	for k := range feat {
		fk = append(fk, k)
	}
	sort.Strings(fk)
	for _, k := range fk {
		fmt.Printf("   %-28s %d\n", k, feat[k])
	}
	if listOnly {
		return
	}
	var total m2Stats
	per := map[string]*m2Stats{}
	var fd findings
	var mu sync.Mutex
	nh, nl := 0, 0
	parallel(targets, workers, func(t *m2Target) {
		d := newDriver(drv)
		var st m2Stats
		rng := rand.New(rand.NewSource(int64(len(t.pat))*7919 + 17))
		hays := m2Haystacks(t, short || t.variant != "", rng)
		t.check(hays, false, d, &st, &fd)
		if t.variant == "" {
			t.checkLits(hays, d, &st)
		}
		var longs [][]byte
		if t.strat == "digit" && !noLong {
			longs = m2LongHays(t, rng)
			t.check(longs, true, d, &st, &fd)
		}
		mu.Lock()
		defer mu.Unlock()
		nh += len(hays)
		nl += len(longs)
		total.add(&st)
		k := t.strat + "/" + t.variant
		if per[k] == nil {
			per[k] = &m2Stats{}
		}
		per[k].add(&st)
	})
	fmt.Printf("haystacks: %d short + %d long (>= 5000 bytes; 4 boundary ones per pattern of 2081..4097 bytes) (skipped %d with unreferencable offsets), model requests: %d\n", nh, nl, total.skipped, total.requests)
	fmt.Printf("comparisons: FindIndices %d, FindIndicesAt %d, IsMatch %d, FindAt %d, FindAll %d\n", total.cmpFI, total.cmpAt, total.cmpIM, total.cmpFA, total.cmpAll)
	fmt.Printf("MODEL != REAL: %d\nreal != regexp: %d\n", total.modelVsReal, total.realVsRegexp)
	var ks []string
	for k := range per {
		ks = append(ks, k)
	}
	sort.Strings(ks)
	for _, k := range ks {
		s := per[k]
		fmt.Printf("   %-16s requests=%-8d cmp=%-9d model!=real=%-4d real!=regexp=%d\n", k, s.requests, s.cmpFI+s.cmpAt+s.cmpIM+s.cmpFA+s.cmpAll, s.modelVsReal, s.realVsRegexp)
	}
	fmt.Printf("digit loop, instrumented twin: %d runs, budget fallback taken in %d, cost > bound: %d, max cost/len: %.2f\n", total.costChecked, total.budgetExhausted, total.costViol, total.maxCostRatio)
	fmt.Printf("   number of anchored scans / Pike VM fallbacks of the model's trace vs the real engine's Stats(): %d checked, %d differ\n", total.statsChecked, total.statsViol)
	fmt.Printf("component contracts on the REAL components:\n")
	fmt.Printf("   digitPrefilter.Find != least digit position: %d\n", total.contractDigit)
	fmt.Printf("   SearchAtAnchoredStopAt: %d calls, end != regexp anchored end: %d, stop outside (at, len]: %d\n", total.anchChecked, total.contractAnch, total.contractStop)
	fmt.Printf("   Teddy FindMatch != reference (PfMatchOK): %d of %d\n", total.contractPfm, total.pfmChecked)
	fmt.Printf("   Automaton.Find (ahoCorasick, fatTeddyFallback, AhoCorasickPrefilter.ac) vs EndsFirstOK: %d calls, not an occurrence with the least end: %d; not the LONGEST of them: %d\n", total.endsFirstChecked, total.contractEndsFirst, total.contractLongest)
	fmt.Printf("   Automaton.FindAt vs AnchOccOK (found iff a literal starts there): %d calls, differ: %d\n", total.anchOccChecked, total.contractAnchOcc)
	fmt.Printf("   AcSetOK (engine nested/maxLen = naive = Lean hasNestedLiteral/litMaxLen): %d sets, differ: %d; fatTeddyFallback built for a nested set: %d\n", total.setChecked, total.contractSet, total.fatNested)
	fmt.Printf("   regexp != refLit(literal list) (leftmost start, first literal in list order): %d of %d\n", total.contractRefLit, total.refLitChecked)
	fmt.Printf("   ahoCorasick.Find != reference (the OLD contract AhoOK, no longer required): %d of %d\n", total.contractAho, total.ahoChecked)
	fmt.Printf("   fatTeddyFallback.Find != reference on haystacks < 64 bytes: %d\n", total.contractFat)
	fmt.Printf("   AhoCorasickPrefilter.Find: %d calls, Lean model ahoPrefilterFind != real: %d, real != least start of an occurrence: %d\n", total.acpfChecked, total.acpfModel, total.acpfLeast)
	for _, e := range total.contractEx {
		fmt.Println("     ", e)
	}
	for _, e := range total.examples {
		fmt.Println("  ", e)
	}
	fd.print()
}
