// Package dumper writes an NFA in the wire format of /verif/harness/cmd/vcheck/c14.go:dumpNFA
// (the format Cx.Driver.parseNfa reads).
package dumper

import (
	"fmt"
	"strings"

	"github.com/coregx/coregex/nfa"
)

// DumpNFA is a copy of dumpNFA in /verif/harness/cmd/vcheck/c14.go.
func DumpNFA(n *nfa.NFA) string {
	var sb strings.Builder
	fmt.Fprintf(&sb, "%d/%d/", n.StartAnchored(), n.StartUnanchored())
	for i := 0; i < n.States(); i++ {
		if i > 0 {
			sb.WriteByte(';')
		}
		s := n.State(nfa.StateID(i))
		switch s.Kind() {
		case nfa.StateMatch:
			sb.WriteString("M")
		case nfa.StateByteRange:
			lo, hi, nx := s.ByteRange()
			fmt.Fprintf(&sb, "B.%d.%d.%d", lo, hi, nx)
		case nfa.StateSparse:
			sb.WriteString("S.")
			for j, t := range s.Transitions() {
				if j > 0 {
					sb.WriteByte('_')
				}
				fmt.Fprintf(&sb, "%d-%d-%d", t.Lo, t.Hi, t.Next)
			}
		case nfa.StateSplit:
			l, r := s.Split()
			fmt.Fprintf(&sb, "P.%d.%d", l, r)
		case nfa.StateEpsilon:
			fmt.Fprintf(&sb, "E.%d", s.Epsilon())
		case nfa.StateCapture:
			idx, st, nx := s.Capture()
			b := 0
			if st {
				b = 1
			}
			fmt.Fprintf(&sb, "C.%d.%d.%d", idx, b, nx)
		case nfa.StateFail:
			sb.WriteString("F")
		case nfa.StateLook:
			k, nx := s.Look()
			fmt.Fprintf(&sb, "L.%d.%d", int(k), nx)
		case nfa.StateRuneAny:
			fmt.Fprintf(&sb, "A.%d", s.RuneAny())
		case nfa.StateRuneAnyNotNL:
			fmt.Fprintf(&sb, "N.%d", s.RuneAnyNotNL())
		default:
			sb.WriteString("F")
		}
	}
	return sb.String()
}
