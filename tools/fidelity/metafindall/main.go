// rsfxcheck — fidelity of the Lean model Cx.Model.RevSuffix against meta/reverse_suffix.go.
//
// For every pattern that selects UseReverseSuffix: the real searcher's parameters (suffixBytes, matchStartZero,
// lineBounded) are read from the compiled engine by reflection; its prefilter is wrapped by a recorder (the only
// component that is an interface).  For every haystack the match relation Mt (regexp `\A(?:p)\z` on every substring)
// and the reference table (regexp leftmost-first from every offset) are exported to the Lean driver, which derives the
// component oracles from them and runs the MODEL; the model's answers are compared with the real coregex engine
// (FindIndicesAt at every offset, IsMatch) and with regexp; the number of prefilter.Find calls of the real searcher is
// compared with the model's under the two extreme cut-off policies.
package main

import (
	"bufio"
	"bytes"
	"encoding/hex"
	"flag"
	"fmt"
	"os"
	"os/exec"
	"reflect"
	"regexp"
	"sort"
	"strings"
	"sync"
	"unsafe"

	"github.com/coregx/coregex/meta"
	"github.com/coregx/coregex/prefilter"
)

type recPf struct {
	inner prefilter.Prefilter
	calls [][2]int // (start, result)
}

func (r *recPf) Find(h []byte, start int) int {
	p := r.inner.Find(h, start)
	r.calls = append(r.calls, [2]int{start, p})
	return p
}
func (r *recPf) IsComplete() bool { return r.inner.IsComplete() }
func (r *recPf) LiteralLen() int  { return r.inner.LiteralLen() }
func (r *recPf) HeapBytes() int   { return r.inner.HeapBytes() }
func (r *recPf) IsFast() bool     { return r.inner.IsFast() }

type target struct {
	pat    string
	eng    *meta.Engine
	re     *regexp.Regexp
	reFull *regexp.Regexp
	suffix []byte
	mz, lb bool
	rec    *recPf
}

func compileTarget(p string) (*target, string) {
	re, err := regexp.Compile(p)
	if err != nil {
		return nil, "regexp: " + err.Error()
	}
	eng, err := meta.Compile(p)
	if err != nil {
		return nil, "coregex: " + err.Error()
	}
	if eng.Strategy() != meta.UseReverseSuffix {
		return nil, "strategy " + eng.Strategy().String()
	}
	ev := reflect.ValueOf(eng).Elem()
	sf := ev.FieldByName("reverseSuffixSearcher")
	if !sf.IsValid() || sf.IsNil() {
		return nil, "no searcher"
	}
	s := sf.Elem()
	t := &target{pat: p, eng: eng, re: re, reFull: regexp.MustCompile(`\A(?:` + p + `)\z`)}
	t.suffix = append([]byte(nil), s.FieldByName("suffixBytes").Bytes()...)
	t.mz = s.FieldByName("matchStartZero").Bool()
	t.lb = s.FieldByName("lineBounded").Bool()
	if int(s.FieldByName("suffixLen").Int()) != len(t.suffix) {
		return nil, "suffixLen != len(suffixBytes)"
	}
	pf := s.FieldByName("prefilter")
	ptr := (*prefilter.Prefilter)(unsafe.Pointer(pf.UnsafeAddr()))
	t.rec = &recPf{inner: *ptr}
	*ptr = t.rec
	return t, ""
}

func hx(b []byte) string {
	if len(b) == 0 {
		return "-"
	}
	return hex.EncodeToString(b)
}

// tables: Mt pairs and the reference from every offset
func tables(t *target, h []byte) (string, string, [][]int) {
	n := len(h)
	var mt []string
	for s := 0; s <= n; s++ {
		for e := s; e <= n; e++ {
			if t.reFull.Match(h[s:e]) {
				mt = append(mt, fmt.Sprintf("%d.%d", s, e))
			}
		}
	}
	refs := make([][]int, n+1)
	rs := make([]string, n+1)
	for a := 0; a <= n; a++ {
		loc := t.re.FindIndex(h[a:])
		if loc == nil {
			rs[a] = "x"
		} else {
			refs[a] = []int{loc[0] + a, loc[1] + a}
			rs[a] = fmt.Sprintf("%d.%d", loc[0]+a, loc[1]+a)
		}
	}
	m := "-"
	if len(mt) > 0 {
		m = strings.Join(mt, ",")
	}
	return m, strings.Join(rs, ","), refs
}

type driver struct {
	path string
}

func newDriver(path string) *driver { return &driver{path: path} }

// ask runs one driver process over a batch (the driver's stdout is block-buffered: it must see EOF)
func (d *driver) ask(reqs []string) []string {
	cmd := exec.Command(d.path)
	wc, _ := cmd.StdinPipe()
	rc, _ := cmd.StdoutPipe()
	cmd.Stderr = os.Stderr
	if err := cmd.Start(); err != nil {
		panic(err)
	}
	go func() {
		w := bufio.NewWriterSize(wc, 1<<20)
		for _, r := range reqs {
			w.WriteString(r)
			w.WriteByte('\n')
		}
		w.Flush()
		wc.Close()
	}()
	out := bufio.NewReaderSize(rc, 1<<20)
	res := make([]string, 0, len(reqs))
	for {
		line, err := out.ReadString('\n')
		if line != "" {
			res = append(res, strings.TrimRight(line, "\n"))
		}
		if err != nil {
			break
		}
	}
	cmd.Wait()
	if len(res) != len(reqs) {
		panic(fmt.Sprintf("driver answered %d of %d requests", len(res), len(reqs)))
	}
	return res
}

type stats struct {
	requests, findCmp, isMatchCmp            int
	modelVsReal, modelVsRegexp, realVsRegexp int
	pfViol, pfChecked, pfContract            int
	costViol                                 int
	realCut, realPastCut                     int
	examples                                 []string
}

func (s *stats) add(o *stats) {
	s.requests += o.requests
	s.findCmp += o.findCmp
	s.isMatchCmp += o.isMatchCmp
	s.modelVsReal += o.modelVsReal
	s.modelVsRegexp += o.modelVsRegexp
	s.realVsRegexp += o.realVsRegexp
	s.pfViol += o.pfViol
	s.pfChecked += o.pfChecked
	s.pfContract += o.pfContract
	s.costViol += o.costViol
	s.realCut += o.realCut
	s.realPastCut += o.realPastCut
	for _, e := range o.examples {
		if len(s.examples) < 40 {
			s.examples = append(s.examples, e)
		}
	}
}

func (s *stats) note(f string, a ...any) {
	if len(s.examples) < 40 {
		s.examples = append(s.examples, fmt.Sprintf(f, a...))
	}
}

var policies = []string{"00", "10", "20", "01", "11", "21"}

func span(loc []int) string {
	if loc == nil {
		return "none"
	}
	return fmt.Sprintf("%d.%d", loc[0], loc[1])
}

type query struct {
	h       []byte
	at      int
	pol     string
	real    string
	ref     string
	realIs  bool
	refIs   bool
	pfCalls int
}

func field(ans, key string) string {
	for _, f := range strings.Fields(ans) {
		if strings.HasPrefix(f, key+"=") {
			return f[len(key)+1:]
		}
	}
	return ""
}

// check runs one target over its haystacks
func check(t *target, hays [][]byte, allAts bool, d *driver, st *stats) {
	var reqs []string
	var qs []query
	reqBytes := 0
	flush := func() {
		reqBytes = 0
		if len(reqs) == 0 {
			return
		}
		ans := d.ask(reqs)
		st.requests += len(reqs)
		// group the answers of one (h, at) to compare the prefilter call counts of the extreme policies
		type key struct {
			h  string
			at int
		}
		pfByPol := map[key]map[string]int{}
		for i, a := range ans {
			q := qs[i]
			fs := strings.Fields(a)
			if len(fs) < 7 {
				st.modelVsReal++
				st.note("BAD ANSWER %q for %s", a, reqs[i][:min(len(reqs[i]), 120)])
				continue
			}
			st.findCmp++
			if fs[0] != q.real {
				st.modelVsReal++
				st.note("FIND model=%s real=%s regexp=%s pat=%q hay=%q at=%d pol=%s", fs[0], q.real, q.ref, t.pat, q.h, q.at, q.pol)
			}
			if fs[0] != q.ref {
				st.modelVsRegexp++
				st.note("FIND model=%s regexp=%s pat=%q hay=%q at=%d pol=%s", fs[0], q.ref, t.pat, q.h, q.at, q.pol)
			}
			if q.at == 0 {
				st.isMatchCmp++
				if (fs[1] == "true") != q.realIs {
					st.modelVsReal++
					st.note("ISMATCH model=%s real=%v pat=%q hay=%q pol=%s", fs[1], q.realIs, t.pat, q.h, q.pol)
				}
				if (fs[1] == "true") != q.refIs {
					st.modelVsRegexp++
					st.note("ISMATCH model=%s regexp=%v pat=%q hay=%q pol=%s", fs[1], q.refIs, t.pat, q.h, q.pol)
				}
			}
			var pf, cost int
			fmt.Sscanf(field(a, "pf"), "%d", &pf)
			fmt.Sscanf(field(a, "cost"), "%d", &cost)
			if cost > 2*(len(q.h)-q.at) && q.at <= len(q.h) {
				st.costViol++
				st.note("COST %d > 2*(%d-%d) pat=%q hay=%q", cost, len(q.h), q.at, t.pat, q.h)
			}
			k := key{string(q.h), q.at}
			if pfByPol[k] == nil {
				pfByPol[k] = map[string]int{"real": q.pfCalls}
			}
			pfByPol[k][q.pol] = pf
		}
		for k, m := range pfByPol {
			lo, okLo := m["10"]
			hi, okHi := m["00"]
			if okLo && okHi {
				st.pfChecked++
				if m["real"] < hi {
					st.realCut++ // the real reverse DFA answered "quadratic" where the exact policy went on
				}
				if m["real"] > lo {
					st.realPastCut++ // the real reverse DFA died before minStart where the eager policy cut off
				}
				if !(lo <= m["real"] && m["real"] <= hi) {
					st.pfViol++
					st.note("PFCALLS real=%d not in [%d,%d] pat=%q hay=%q at=%d", m["real"], lo, hi, t.pat, k.h, k.at)
				}
			}
		}
		reqs, qs = reqs[:0], qs[:0]
	}
	flags := func(pol string) string {
		b := func(x bool) string {
			if x {
				return "1"
			}
			return "0"
		}
		return b(t.mz) + b(t.lb) + pol
	}
	for hi, h := range hays {
		mt, rt, refs := tables(t, h)
		realIs := t.eng.IsMatch(h)
		refIs := refs[0] != nil
		if realIs != refIs {
			st.realVsRegexp++
			st.note("REAL ISMATCH coregex=%v regexp=%v pat=%q hay=%q", realIs, refIs, t.pat, h)
		}
		n := len(h)
		var ats []int
		if allAts {
			for a := 0; a <= n; a++ {
				ats = append(ats, a)
			}
		} else {
			ats = []int{0, 1, n / 3, n / 2, n - 1, n}
		}
		for ai, at := range ats {
			if at < 0 || at > n {
				continue
			}
			t.rec.calls = t.rec.calls[:0]
			s, e, ok := t.eng.FindIndicesAt(h, at)
			real := "none"
			if ok {
				real = fmt.Sprintf("%d.%d", s, e)
			}
			calls := len(t.rec.calls)
			// the prefilter contract (PfSpec) on the real prefilter
			for _, c := range t.rec.calls {
				want := -1
				if c[0] <= n {
					if i := bytes.Index(h[c[0]:], t.suffix); i >= 0 {
						want = c[0] + i
					}
				}
				if c[1] != want {
					st.pfContract++
					st.note("PREFILTER Find(%q,%d)=%d want %d pat=%q", h, c[0], c[1], want, t.pat)
				}
			}
			ref := span(refs[at])
			if real != ref {
				st.realVsRegexp++
				st.note("REAL FIND coregex=%s regexp=%s pat=%q hay=%q at=%d", real, ref, t.pat, h, at)
			}
			var pols []string
			if !allAts {
				pols = []string{"00", "10", policies[2+(hi+ai)%4]}
			} else if at == 0 {
				pols = policies
			} else {
				// the two extreme policies (prefilter call bracket) plus one rotating
				pols = []string{"00", "10", policies[2+(hi+ai)%4]}
			}
			for _, pol := range pols {
				r := fmt.Sprintf("revsuffix run %d %s %s %s %s %s", at, hx(h), hx(t.suffix), flags(pol), mt, rt)
				reqBytes += len(r)
				reqs = append(reqs, r)
				qs = append(qs, query{h: h, at: at, pol: pol, real: real, ref: ref, realIs: realIs, refIs: refIs, pfCalls: calls})
			}
		}
		if len(reqs) >= 20000 || reqBytes >= 16<<20 {
			flush()
		}
	}
	flush()
}

// exhaustive haystacks over alphabet, length <= maxLen
func exhaustive(alpha []byte, maxLen int) [][]byte {
	res := [][]byte{{}}
	prev := [][]byte{{}}
	for l := 1; l <= maxLen; l++ {
		var cur [][]byte
		for _, p := range prev {
			for _, c := range alpha {
				w := append(append([]byte(nil), p...), c)
				cur = append(cur, w)
			}
		}
		res = append(res, cur...)
		prev = cur
	}
	return res
}

// token-exhaustive haystacks: concatenations of tokens, total length <= maxLen
func tokenHays(tokens [][]byte, maxLen int) [][]byte {
	seen := map[string]bool{"": true}
	res := [][]byte{{}}
	frontier := [][]byte{{}}
	for len(frontier) > 0 {
		var next [][]byte
		for _, p := range frontier {
			for _, tk := range tokens {
				if len(p)+len(tk) > maxLen {
					continue
				}
				w := append(append([]byte(nil), p...), tk...)
				if !seen[string(w)] {
					seen[string(w)] = true
					res = append(res, w)
					next = append(next, w)
				}
			}
		}
		frontier = next
	}
	return res
}

func distinct(b []byte) []byte {
	m := map[byte]bool{}
	var r []byte
	for _, c := range b {
		if !m[c] {
			m[c] = true
			r = append(r, c)
		}
	}
	return r
}

func haystacksFor(t *target, fillers []byte) [][]byte {
	sd := distinct(t.suffix)
	var hays [][]byte
	if len(sd) == 1 {
		alpha := append(append([]byte{}, sd...), fillers[0], '\n')
		hays = exhaustive(alpha, 7) // 3 letters, 3280
		if len(fillers) > 1 {
			alpha4 := append(alpha, fillers[1])
			hays = append(hays, exhaustive(alpha4, 6)...) // 4 letters, 5461
		}
	} else if len(sd) == 2 {
		alpha := append(append([]byte{}, sd...), fillers[0], '\n')
		hays = exhaustive(alpha, 6) // 4 letters
		tokens := [][]byte{t.suffix, {fillers[0]}, {'\n'}, t.suffix[:1]}
		if len(fillers) > 1 {
			tokens = append(tokens, []byte{fillers[1]})
		}
		hays = append(hays, tokenHays(tokens, 7)...)
	} else {
		tokens := [][]byte{t.suffix, {fillers[0]}, {'\n'}, t.suffix[:1], t.suffix[len(t.suffix)-1:], t.suffix[:2]}
		if len(fillers) > 1 {
			tokens = append(tokens, []byte{fillers[1]})
		}
		for ml := len(t.suffix) + 1; ml <= len(t.suffix)+6; ml++ {
			hs := tokenHays(tokens, ml)
			if len(hs) > 9000 {
				break
			}
			hays = hs
		}
	}
	// dedupe
	seen := map[string]bool{}
	var out [][]byte
	for _, h := range hays {
		if !seen[string(h)] {
			seen[string(h)] = true
			out = append(out, h)
		}
	}
	return out
}

// long candidate-dense inputs
func longHays(t *target, fillers []byte) [][]byte {
	suf := t.suffix
	f := fillers[0]
	var hays [][]byte
	rep := func(b []byte, k int) []byte { return bytes.Repeat(b, k) }
	cat := func(parts ...[]byte) []byte { return bytes.Join(parts, nil) }
	for _, k := range []int{8, 24} {
		hays = append(hays,
			rep(suf, k),                                       // nothing but candidates
			cat([]byte{f}, rep(suf, k)),                       // one filler, then candidates
			rep(cat([]byte{f}, suf), k),                       // filler+suffix repeated
			rep(cat([]byte{f, f, f}, suf, []byte{'\n'}), k/2), // one match per line
			cat(rep(suf[:1], k), rep(suf, k/3)),
			cat(rep([]byte{'\n'}, 3), rep(suf, k), []byte{'\n', f}, suf),
			cat(rep(cat(suf, []byte{'\n'}), k), []byte{f, f}, suf),
			cat(rep(cat([]byte{'0'}, suf), k), []byte{f}, suf, rep(suf, 3)),
			cat([]byte{'0', f}, rep(suf, k), []byte{'\n'}, rep(suf, 2)),
		)
		if len(fillers) > 1 {
			g := fillers[1]
			hays = append(hays,
				rep(cat([]byte{g}, suf), k),
				cat(rep(cat([]byte{g}, suf), k), []byte{f}, suf),
				cat([]byte{f}, rep(cat(suf, []byte{g}), k), suf),
			)
		}
	}
	return hays
}

func patterns() (pats []string, fillers map[string][]byte) {
	fillers = map[string][]byte{}
	type pre struct {
		s string
		f []byte // bytes worth putting in the haystack: first one the wildcard matches, second one it may not
	}
	pres := []pre{
		{`[a-z]+`, []byte("a0")}, {`.*`, []byte("a0")}, {`.*?`, []byte("a0")}, {`.+`, []byte("a0")}, {`.+?`, []byte("a0")},
		{`\w+`, []byte("a-")}, {`[^\n]+`, []byte("a0")}, {`[^a]+`, []byte("ba")}, {`(?s).*`, []byte("a0")}, {`(?s).+?`, []byte("a0")},
		{`(?s:.)+`, []byte("a0")}, {`[a\n]+`, []byte("a0")}, {`[ab]+`, []byte("ab")}, {`(a|b)+`, []byte("ab")}, {`(?:a|bc)+`, []byte("abc")},
		{`[a-z]{2,4}`, []byte("a0")}, {`a.*`, []byte("ab")}, {`a+.*?`, []byte("ab")}, {`[0-9][a-z.]+`, []byte("0a")}, {`\w+@\w+`, []byte("a@")},
		{`(a|ab).*`, []byte("ab")}, {`.*a+`, []byte("ab")}, {`.*?a*`, []byte("ab")}, {`(.*)`, []byte("a0")}, {`(.+?)b*`, []byte("ab")},
		{`[a-z]+?`, []byte("a0")}, {`a*[a-z]+`, []byte("ab")}, {`(?:a+|b)+`, []byte("ab")}, {`.*b.*`, []byte("ab")}, {`.+?a.+`, []byte("ab")},
		{`[^b\n]+`, []byte("ab")}, {`\S+`, []byte("a ")}, {`[a-c]+b?`, []byte("ab")}, {`(?s).*a`, []byte("ab")}, {`.{1,3}`, []byte("a0")},
		{`.{2,}?`, []byte("a0")}, {`a{1,2}.+`, []byte("ab")}, {`(?:.*a|b+)`, []byte("ab")}, {`(?:a|.+b)`, []byte("ab")}, {`[a-z]+\d*`, []byte("a0")},
		{`(?i)[a-z]+`, []byte("aA")}, {`\d+[a-z]*`, []byte("0a")}, {`(a+)(b*)`, []byte("ab")}, {`(?:[a-z]+\n?)+`, []byte("a0")}, {`[\n-z]+`, []byte("a ")},
		{`(?s).+`, []byte("a0")}, {`.*\n?.*`, []byte("a0")}, {`a.+?b*`, []byte("ab")}, {`[ab]+?`, []byte("ab")}, {`.*?[ab]+`, []byte("ab")},
		{`[a-z]+[.]?`, []byte("a0")}, {`.*[a-z]`, []byte("a0")}, {`.+[^a]`, []byte("ab")}, {`(?:ab?)+`, []byte("ab")}, {`(?s:a.)+`, []byte("ab")},
	}
	sufs := []string{`z`, `xy`, `\.t`, `\.txt`, `kw`, `\.com`, `zz`, `!`}
	for _, p := range pres {
		for _, s := range sufs {
			pat := p.s + s
			pats = append(pats, pat)
			fillers[pat] = p.f
		}
	}
	// a few whole-pattern variants: capture groups around everything, the shortcut shape wrapped
	extra := map[string][]byte{
		`(.*z)`: []byte("a0"), `(.*)(z)`: []byte("a0"), `(?:.*)z`: []byte("a0"), `.*(?:z)`: []byte("a0"), `(?i).*z`: []byte("aZ"),
		`.*zz*`: []byte("a0"), `.*z+`: []byte("a0"), `(?U).*z`: []byte("a0"), `(?U).+z`: []byte("a0"), `(?s-s:.*)z`: []byte("a0"),
		`\w+@\w+\.com`: []byte("a@"), `[0-9][a-z.]+\.txt`: []byte("0a"), `.+keyword`: []byte("a0"), `(?s).*z`: []byte("a0"),
		`(?:ab|cd)+xy`: []byte("ab"), `(?:a|b|c)+z`: []byte("ab"), `(?:foo|fo)+z`: []byte("fo"), `.*(a)z`: []byte("ab"),
	}
	var ks []string
	for k := range extra {
		ks = append(ks, k)
	}
	sort.Strings(ks)
	for _, k := range ks {
		if _, dup := fillers[k]; !dup {
			pats = append(pats, k)
			fillers[k] = extra[k]
		}
	}
	return
}

func main() {
	drv := flag.String("drv", "../.lake/build/bin/cxdrv", "Lean driver")
	workers := flag.Int("j", 12, "parallel drivers")
	only := flag.String("only", "", "single pattern")
	listOnly := flag.Bool("list", false, "only list strategies")
	short := flag.Bool("short", false, "fewer haystacks")
	noLong := flag.Bool("nolong", false, "skip the long haystacks")
	mutate := flag.String("mutate", "", "sanity check of the harness: tell the MODEL a wrong flag (mz | lb | exact | nullable | dsl)")
	strategy := flag.String("strategy", "suffix", "suffix | inner | anchored | set | multiline | metafind | metafind2 | metafindall")
	maxPats := flag.Int("maxpats", 0, "use at most this many patterns (spread over the generated list)")
	flag.Parse()
	switch *strategy {
	case "inner":
		runInner(*drv, *workers, *only, *listOnly, *short, *mutate, *maxPats)
		return
	case "anchored":
		runAnchored(*drv, *workers, *only, *listOnly, *short)
		return
	case "set":
		runSet(*drv, *workers, *only, *listOnly, *short, *mutate)
		return
	case "multiline":
		runMultiline(*drv, *workers, *only, *listOnly, *short, *mutate)
		return
	case "metafind":
		runMetaFind(*drv, *workers, *only, *listOnly, *short, *maxPats)
		return
	case "metafind2":
		runMetaFind2(*drv, *workers, *only, *listOnly, *short, *noLong, *maxPats)
		return
	case "metafindall":
		runMetaFindAll(*drv, *workers, *only, *listOnly, *short, *maxPats)
		return
	}

	pats, fillers := patterns()
	if *only != "" {
		pats = []string{*only}
		if fillers[*only] == nil {
			fillers[*only] = []byte("a0")
		}
	}
	var targets []*target
	skipped := map[string]int{}
	for _, p := range pats {
		t, why := compileTarget(p)
		if t == nil {
			skipped[why]++
			if *listOnly {
				fmt.Printf("skip %-28q %s\n", p, why)
			}
			continue
		}
		if *listOnly {
			fmt.Printf("use  %-28q suffix=%q matchStartZero=%v lineBounded=%v\n", p, t.suffix, t.mz, t.lb)
		}
		switch *mutate {
		case "mz":
			t.mz = !t.mz
		case "lb":
			t.lb = true
		}
		targets = append(targets, t)
	}
	fmt.Printf("patterns generated: %d, selecting UseReverseSuffix: %d, skipped: %v\n", len(pats), len(targets), skipped)
	nmz, nlb := 0, 0
	for _, t := range targets {
		if t.mz {
			nmz++
		}
		if t.lb {
			nlb++
		}
	}
	fmt.Printf("  matchStartZero: %d, lineBounded: %d\n", nmz, nlb)
	if *listOnly {
		return
	}

	var total stats
	var mu sync.Mutex
	var wg sync.WaitGroup
	ch := make(chan *target)
	nh := 0
	for w := 0; w < *workers; w++ {
		wg.Add(1)
		go func() {
			defer wg.Done()
			d := newDriver(*drv)
			for t := range ch {
				var st stats
				hs := haystacksFor(t, fillers[t.pat])
				if *short {
					hs = hs[:min(len(hs), 400)]
				}
				check(t, hs, true, d, &st)
				var ls [][]byte
				if !*noLong {
					ls = longHays(t, fillers[t.pat])
					check(t, ls, false, d, &st)
				}
				mu.Lock()
				total.add(&st)
				nh += len(hs) + len(ls)
				mu.Unlock()
			}
		}()
	}
	for _, t := range targets {
		ch <- t
	}
	close(ch)
	wg.Wait()

	fmt.Printf("haystacks: %d, model requests: %d\n", nh, total.requests)
	fmt.Printf("FindIndicesAt comparisons: %d, IsMatch comparisons: %d\n", total.findCmp, total.isMatchCmp)
	fmt.Printf("model != real coregex: %d\nmodel != regexp: %d\nreal coregex != regexp: %d\n", total.modelVsReal, total.modelVsRegexp, total.realVsRegexp)
	fmt.Printf("prefilter call count checked: %d, outside [always-cut, never-cut] bracket: %d\n", total.pfChecked, total.pfViol)
	fmt.Printf("  queries where the real search left the loop through the cut-off branch: %d; where it went on although minStart > at allowed a cut-off: %d\n", total.realCut, total.realPastCut)
	fmt.Printf("real prefilter answers != bytes.Index: %d\nmodel cost > 2(n-at): %d\n", total.pfContract, total.costViol)
	for _, e := range total.examples {
		fmt.Println("  ", e)
	}
}
