// Shared helpers of the strategy fidelity checks (inner / anchored / set / multiline).
package main

import (
	"fmt"
	"reflect"
	"regexp"
	"regexp/syntax"
	"sort"
	"strings"
	"sync"
	"unicode/utf8"
	"unsafe"

	"github.com/coregx/coregex/literal"
	"github.com/coregx/coregex/meta"
	"github.com/coregx/coregex/prefilter"
)

// the extractor configuration of meta/compile.go (buildReverseSearchers, default Config)
func newExtractor() *literal.Extractor {
	return literal.New(literal.ExtractorConfig{MaxLiterals: 256, MaxLiteralLen: 64, MaxClassSize: 10})
}

func parsePerl(p string) *syntax.Regexp {
	re, err := syntax.Parse(p, syntax.Perl)
	if err != nil {
		panic(err)
	}
	return re
}

func seqBytes(s *literal.Seq) [][]byte {
	var out [][]byte
	if s == nil {
		return out
	}
	for i := 0; i < s.Len(); i++ {
		out = append(out, append([]byte(nil), s.Get(i).Bytes...))
	}
	return out
}

func hexList(bs [][]byte) string {
	if len(bs) == 0 {
		return "-"
	}
	var ss []string
	for _, b := range bs {
		ss = append(ss, hx(b))
	}
	return strings.Join(ss, ",")
}

// searcherField returns the unexported pointer field `name` of the engine
func searcherField(eng *meta.Engine, name string) reflect.Value {
	return reflect.ValueOf(eng).Elem().FieldByName(name)
}

// wrapPrefilter replaces the `prefilter` field of the searcher struct by a recorder
func wrapPrefilter(s reflect.Value) *recPf {
	pf := s.FieldByName("prefilter")
	ptr := (*prefilter.Prefilter)(unsafe.Pointer(pf.UnsafeAddr()))
	rec := &recPf{inner: *ptr}
	*ptr = rec
	return rec
}

// leftmost position >= start where one of the literals occurs (the contract of prefilter.Find), -1 if none
func firstLit(h []byte, lits [][]byte, start int) int {
	for p := start; p <= len(h); p++ {
		for _, l := range lits {
			if p+len(l) <= len(h) && string(h[p:p+len(l)]) == string(l) {
				return p
			}
		}
	}
	return -1
}

// pairs of a match relation: every (s, e) with re.Match(h[s:e]) — re must be `\A(?:…)\z`
func pairTable(re *regexp.Regexp, h []byte) string {
	n := len(h)
	var mt []string
	for s := 0; s <= n; s++ {
		for e := s; e <= n; e++ {
			if re.Match(h[s:e]) {
				mt = append(mt, fmt.Sprintf("%d.%d", s, e))
			}
		}
	}
	if len(mt) == 0 {
		return "-"
	}
	return strings.Join(mt, ",")
}

// reference table: leftmost-first span from every offset (look-around free patterns: h[a:] is the context)
func refTable(re *regexp.Regexp, h []byte) (string, [][]int) {
	n := len(h)
	refs := make([][]int, n+1)
	rs := make([]string, n+1)
	for a := 0; a <= n; a++ {
		loc := re.FindIndex(h[a:])
		if loc == nil {
			rs[a] = "x"
		} else {
			refs[a] = []int{loc[0] + a, loc[1] + a}
			rs[a] = fmt.Sprintf("%d.%d", loc[0]+a, loc[1]+a)
		}
	}
	return strings.Join(rs, ","), refs
}

// anchored table: end of the leftmost-first match starting exactly at every offset — reA must be `\A(?:…)`
func anchTable(reA *regexp.Regexp, h []byte) string {
	n := len(h)
	rs := make([]string, n+1)
	for a := 0; a <= n; a++ {
		loc := reA.FindIndex(h[a:])
		if loc == nil {
			rs[a] = "x"
		} else {
			rs[a] = fmt.Sprintf("%d", loc[1]+a)
		}
	}
	return strings.Join(rs, ",")
}

func isASCII(b []byte) bool {
	for _, c := range b {
		if c >= 0x80 {
			return false
		}
	}
	return true
}

// haystack is valid UTF-8; and if it has multibyte runes the pattern has no non-ASCII class (known discrepancies)
func comparable(pat string, h []byte) bool {
	if !utf8.Valid(h) {
		return false
	}
	if !isASCII(h) && !isASCII([]byte(pat)) {
		return false
	}
	return true
}

type finding struct {
	kind, pat, hay string
	at             int
	real, want     string
}

type findings struct {
	mu   sync.Mutex
	seen map[string]bool
	list []finding
	n    int
}

func (f *findings) add(x finding) {
	f.mu.Lock()
	defer f.mu.Unlock()
	f.n++
	if f.seen == nil {
		f.seen = map[string]bool{}
	}
	k := x.kind + "|" + x.pat
	if f.seen[k] {
		return
	}
	f.seen[k] = true
	f.list = append(f.list, x)
}

func (f *findings) print() {
	sort.Slice(f.list, func(i, j int) bool { return f.list[i].pat < f.list[j].pat })
	fmt.Printf("real-vs-regexp mismatches: %d total, %d distinct (kind, pattern)\n", f.n, len(f.list))
	for _, x := range f.list {
		fmt.Printf("   %s pat=%q hay=%q at=%d coregex=%s regexp=%s\n", x.kind, x.pat, x.hay, x.at, x.real, x.want)
	}
}

// splitAnswers splits the `*` answer of a driver: "im=<b> A;A;…"
func splitAnswers(ans string) (im bool, as []string, ok bool) {
	fs := strings.SplitN(ans, " ", 2)
	if len(fs) != 2 || !strings.HasPrefix(fs[0], "im=") {
		return false, nil, false
	}
	return fs[0] == "im=true", strings.Split(fs[1], ";"), true
}

func slashField(a, key string) string {
	for _, f := range strings.Split(a, "/") {
		if strings.HasPrefix(f, key+"=") {
			return f[len(key)+1:]
		}
	}
	return ""
}

// run targets in parallel
func parallel[T any](items []T, workers int, f func(T)) {
	var wg sync.WaitGroup
	ch := make(chan T)
	for w := 0; w < workers; w++ {
		wg.Add(1)
		go func() {
			defer wg.Done()
			for t := range ch {
				f(t)
			}
		}()
	}
	for _, t := range items {
		ch <- t
	}
	close(ch)
	wg.Wait()
}

func dedupe(hays [][]byte) [][]byte {
	seen := map[string]bool{}
	var out [][]byte
	for _, h := range hays {
		if !seen[string(h)] {
			seen[string(h)] = true
			out = append(out, h)
		}
	}
	return out
}
