// look — side experiment: patterns WITH look-around that select UseReverseSuffix, real coregex vs regexp (with context),
// FindIndicesAt at every offset and IsMatch.  Not part of the model check: the model takes the components as oracles.
package main

import (
	"fmt"
	"regexp"

	"github.com/coregx/coregex/meta"
)

func exhaustive(alpha []byte, maxLen int) [][]byte {
	res := [][]byte{{}}
	prev := [][]byte{{}}
	for l := 1; l <= maxLen; l++ {
		var cur [][]byte
		for _, p := range prev {
			for _, c := range alpha {
				cur = append(cur, append(append([]byte(nil), p...), c))
			}
		}
		res = append(res, cur...)
		prev = cur
	}
	return res
}

func main() {
	pats := []string{`\b\w+z`, `\w+\bz`, `\B\w+z`, `(?m)^\w+z`, `(?m).+$z`, `.+\bz`, `[a-z]+\Bz`, `(?m)\w+$\nz`, `\b.+z`, `(?m:^).*z`, `.*\bz`, `(?m)[a-z]+^z`,
		`[a-z ]+\bz`, `\w+\b z`, `(?m)[a-z\n]+^z`, `\b[a-z]+\.t`, `[a-z]+\b\.t`, `(?m)^[a-z]+\.t`, `.+\B\.t`, `(?s).+\b\.t`}
	hays := exhaustive([]byte("az \n."), 6)
	for _, p := range pats {
		eng, err := meta.Compile(p)
		if err != nil {
			fmt.Println(p, err)
			continue
		}
		if eng.Strategy() != meta.UseReverseSuffix {
			fmt.Printf("%-22q %s (skipped)\n", p, eng.Strategy())
			continue
		}
		bad, n := 0, 0
		ex := ""
		for _, h := range hays {
			for at := 0; at <= len(h); at++ {
				re := regexp.MustCompile(fmt.Sprintf(`\A(?s:.{%d})(?s:.*?)(%s)`, at, p))
				loc := re.FindSubmatchIndex(h)
				want := "none"
				if loc != nil {
					want = fmt.Sprintf("%d.%d", loc[2], loc[3])
				}
				s, e, ok := eng.FindIndicesAt(h, at)
				got := "none"
				if ok {
					got = fmt.Sprintf("%d.%d", s, e)
				}
				n++
				if got != want {
					bad++
					if ex == "" {
						ex = fmt.Sprintf("hay=%q at=%d coregex=%s regexp=%s", h, at, got, want)
					}
				}
				if at == 0 && eng.IsMatch(h) != (loc != nil) {
					bad++
					if ex == "" {
						ex = fmt.Sprintf("hay=%q IsMatch coregex=%v regexp=%v", h, eng.IsMatch(h), loc != nil)
					}
				}
			}
		}
		fmt.Printf("%-22q UseReverseSuffix: %d queries, %d differ %s\n", p, n, bad, ex)
	}
}
