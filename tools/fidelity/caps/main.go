// Throw-away fidelity check: real PikeVM capture search (nfa/pikevm.go SearchWithSlotTableCapturesAt) and the
// one-pass DFA (dfa/onepass) vs the Lean models Cx.Caps, and both vs Go's regexp.FindSubmatchIndex.
// Writes req.txt (one request per line), exp.txt (expected answer per line), meta.txt (tag/pattern/haystack/at).
package main

import (
	"bufio"
	"encoding/hex"
	"fmt"
	"os"
	"regexp"
	"regexp/syntax"
	"strings"

	"github.com/coregx/coregex"
	"github.com/coregx/coregex/dfa/onepass"
	"github.com/coregx/coregex/nfa"
)

// anchoredNFA compiles the pattern the way meta.buildOnePassDFA does
func anchoredNFA(p string) (*nfa.NFA, error) {
	re, err := syntax.Parse(p, syntax.Perl)
	if err != nil {
		return nil, err
	}
	c := nfa.NewCompiler(nfa.CompilerConfig{UTF8: true, Anchored: true, DotNewline: false, MaxRecursionDepth: 100})
	return c.CompileRegexp(re)
}

func classesOf(n *nfa.NFA) string {
	bc := n.ByteClasses()
	s := make([]string, 256)
	for b := 0; b < 256; b++ {
		s[b] = fmt.Sprint(int(bc.Get(byte(b))))
	}
	return strings.Join(s, ",")
}

func dumpNFA(n *nfa.NFA) string {
	var sb strings.Builder
	fmt.Fprintf(&sb, "%d/%d/", n.StartAnchored(), n.StartUnanchored())
	for i := 0; i < n.States(); i++ {
		if i > 0 {
			sb.WriteByte(';')
		}
		s := n.State(nfa.StateID(i))
		switch s.Kind() {
		case nfa.StateMatch:
			sb.WriteString("M")
		case nfa.StateByteRange:
			lo, hi, nx := s.ByteRange()
			fmt.Fprintf(&sb, "B.%d.%d.%d", lo, hi, nx)
		case nfa.StateSparse:
			sb.WriteString("S.")
			for j, t := range s.Transitions() {
				if j > 0 {
					sb.WriteByte('_')
				}
				fmt.Fprintf(&sb, "%d-%d-%d", t.Lo, t.Hi, t.Next)
			}
		case nfa.StateSplit:
			l, r := s.Split()
			fmt.Fprintf(&sb, "P.%d.%d", l, r)
		case nfa.StateEpsilon:
			fmt.Fprintf(&sb, "E.%d", s.Epsilon())
		case nfa.StateCapture:
			idx, st, nx := s.Capture()
			b := 0
			if st {
				b = 1
			}
			fmt.Fprintf(&sb, "C.%d.%d.%d", idx, b, nx)
		case nfa.StateFail:
			sb.WriteString("F")
		case nfa.StateLook:
			k, nx := s.Look()
			fmt.Fprintf(&sb, "L.%d.%d", int(k), nx)
		case nfa.StateRuneAny:
			fmt.Fprintf(&sb, "A.%d", s.RuneAny())
		case nfa.StateRuneAnyNotNL:
			fmt.Fprintf(&sb, "N.%d", s.RuneAnyNotNL())
		default:
			sb.WriteString("F")
		}
	}
	return sb.String()
}

func hx(b []byte) string {
	if len(b) == 0 {
		return "-"
	}
	return hex.EncodeToString(b)
}

func ints(a []int) string {
	if a == nil {
		return "nil"
	}
	s := make([]string, len(a))
	for i, v := range a {
		s[i] = fmt.Sprint(v)
	}
	return strings.Join(s, ",")
}

func capsOf(m *nfa.MatchWithCaptures, ngroups int) []int {
	if m == nil {
		return nil
	}
	out := make([]int, 0, 2*ngroups)
	for i := 0; i < ngroups; i++ {
		if i < len(m.Captures) && m.Captures[i] != nil {
			out = append(out, m.Captures[i][0], m.Captures[i][1])
		} else {
			out = append(out, -1, -1)
		}
	}
	return out
}

func stdAt(re *regexp.Regexp, h []byte, at int) []int {
	m := re.FindSubmatchIndex(h[at:])
	if m == nil {
		return nil
	}
	out := make([]int, len(m))
	for i, v := range m {
		if v >= 0 {
			out[i] = v + at
		} else {
			out[i] = -1
		}
	}
	return out
}

func hasLookBehind(p string) bool {
	return strings.Contains(p, "^") && !onlyInClass(p) || strings.Contains(p, "\\b") || strings.Contains(p, "\\B") || strings.Contains(p, "\\A")
}

// `^` only as class negation `[^`
func onlyInClass(p string) bool {
	for i := 0; i < len(p); i++ {
		if p[i] == '^' && (i == 0 || p[i-1] != '[') {
			return false
		}
	}
	return true
}

func patterns() []string {
	base := []string{
		// plain groups
		"(a)", "(a)(b)", "(a)|(b)", "(a|b)", "((a))", "((a)(b))", "(a(b)c)", "(a)(b)(c)", "((a)|(b))", "(((a)))", "(a(b(c)))", "((a)b)c",
		"()", "()()", "(())", "()a", "a()", "a()b", "(|a)", "(a|)", "(a||b)", "(?:a)(b)", "(?:(a))", "(?:(a)|b)", "(?:a|(b))",
		// named
		"(?P<x>a)", "(?P<x>a)(?P<y>b)", "(?P<x>a|b)+",
		// repeated groups
		"(a)*", "(a)+", "(a)?", "(a)*?", "(a)+?", "(a)??", "(a)*b", "(a)+b", "(a)?b", "(a)*?b", "(a)+?b", "(a)??b",
		"(a|b)*", "(a|b)+", "(a|b)?", "(a|b)*?", "(a|b)+?", "(a|b)*c", "(a|b)+c", "(a|b)+?c", "(ab|a)*", "(a|ab)*", "(ab|a)+b", "(a|ab)+b",
		"(a*)*", "(a*)+", "(a+)*", "(a+)+", "(a?)*", "(a?)+", "(a*)?", "(a*?)*", "(a+?)*", "(a+?)+", "(a??)*", "(a*)*b", "(a*)+b", "(a+)*b", "(a?)*b",
		"(a|)*", "(|a)*", "(a|)+", "(|a)+", "(|a)+b", "(a|)+b", "(a|b|)*", "(|a|b)+",
		"((a)|b)*", "((a)|(b))*", "((a)|(b))+", "(a|(b))*", "((a)*|b)+", "((a)+|b)*", "((a|b)*c)*", "((a)|b)+c", "((a)|(b))+c",
		"(?:(a)|b)*", "(?:(a)|(b))*", "(?:(a)|(b))+", "(?:(a)|(b)|(c))+", "(?:(a)|b)+b", "(?:a|(b))+a", "(?:(a)b|(a)c)+", "(?:(a)x|ay)*", "(?:(a)|(ab))(?:(c)|(bc))",
		"(a){2}", "(a){2,}", "(a){1,2}", "(a){1,2}?", "(a){0,2}b", "(ab){1,2}", "(a|ab){2}", "(a){0}", "(a){0,1}", "(a|b){2,3}", "((a){2}){2}", "(a{2}){2}", "(?:(a){1,2}){2}",
		// lazy / greedy interplay
		"(a+?)", "(a+?)b", "(a+?)(a*)", "(a*?)(a*)", "(a*)(a*?)", "(a*)(a*)", "(a+)(a+)", "(a+?)(a+)", "(a+)(a+?)", "(a|aa)(a|aa)", "(aa|a)(aa|a)", "(a|aa)+", "(aa|a)+", "(aa|a)+?",
		"(a*)ab", "(a*?)ab", "(a+)ab", "(a+?)ab", "(a??)(ab??)", "(a?)(ab?)(abc?)", "(.*)b", "(.*?)b", "(.+)b", "(.+?)b", "(.*)(b*)", "(.*?)(b+)", "a(.*)b", "a(.*?)b", "a(.*)b(.*)c",
		"(.*)", "(.+)", "(.?)", "(.*?)", "(.+?)", "(.)(.)", "(.)*", "(.)+?", "(?s)(.*)", "(?s)(.)+",
		// optional
		"(a)?b", "a(b)?", "a(b)?c", "(a)?(b)?", "(a)?(b)?c", "(a)?(a)?a", "(a?)(a?)a", "(a)?a", "(a?)a", "(a)??a", "(?:(a)|b)?c", "((a)?b)?c", "(a(b)?)?c", "(a(b)?)+", "((a)?(b)?)*", "((a)?b)+",
		// alternation of groups
		"(a)|b", "a|(b)", "(a)|(b)|(c)", "(a|b)|(c)", "(ab)|(a)", "(a)|(ab)", "(a)|(ab)|(abc)", "(abc)|(ab)|(a)", "(a)(b)|(a)(c)", "(a)b|(a)c", "a(b)|a(c)", "(a|ab)(c|bcd)", "(a|ab)(bc|c)?", "(a|ab)(c|bcd)(d*)",
		"((a)|(ab))((c)|(bc))", "(a|b)(c|d)", "(a|b)(c|d)?", "(ac|ad|bc)", "(a(b(c)?)?)", "(a|ab|abc|abcd)e?", "(abcd|abc|ab|a)e?", "(a|ab|abc|abcd)d",
		// classes
		"([ab])", "([ab]+)", "([ab]*)c", "([^a]+)", "([a-c]+)([b-d]+)", "(\\w+)", "(\\w+) (\\w+)", "(\\w+)\\s(\\w+)", "(\\d+)-(\\d+)", "(\\d+)\\.(\\d+)", "(\\w+)@(\\w+)", "(\\w+)@(\\w+)\\.(\\w+)", "([a-z]+)([0-9]+)", "([a-z]*)([0-9]*)", "([0-9]+)|([a-z]+)", "(\\s*)(\\S+)", "(\\S+)\\s*", "(\\w)(\\w)?",
		// anchors
		"^(a)", "(a)$", "^(a)$", "^(a*)$", "^(a)|b", "(^a)|b", "a|(^b)", "(a$)|b", "^(a|b)*$", "^(\\w+)@(\\w+)$", "^(\\w+)\\s(\\w+)$", "^(\\d+)-(\\d+)$", "^(a+)(b+)$", "^(a|b)+c$", "^(a)?b$", "^(?:(a)|b)*$", "^(a)(b)?(c)?$", "^([a-z]+)=([0-9]+)$",
		"(^)", "($)", "(^)*", "($)*", "(^)+a", "a($)+", "(^|a)b", "a(b|$)", "(^a)+", "(?m)(^a)", "(?m)(a$)", "(?m)^(a*)$", "(?m)^(.*)$", "(?m)(^|a)b", "(?m)a(b|$)", "(?m)^(\\w+)$", "(?m)(\\w+)$", "(?m)^(\\w+)",
		"(\\b)", "(\\B)", "(\\b)a", "a(\\b)", "\\b(a)\\b", "(\\ba)", "(a\\b)", "\\b(\\w+)\\b", "(\\w+)\\b", "(\\b)*a", "(\\b|a)+", "(\\B|a)*b", "(?:\\b|_)(x)", "\\b(x)|(y)\\b", "\\b(x|y)\\b",
		"\\A(a)", "(a)\\z", "\\A(a*)\\z", "\\A(a|ab)", "\\A(?:(a)|(b))+",
		// case folding, flags
		"(?i)(a)", "(?i)(ab|b)", "(?i:(a))b", "(?U)(a+)", "(?U)(a+?)", "(?U)(a*)b", "(?U)(a|ab)*", "(?s:(.))a",
		// multibyte
		"(é)", "(é+)", "([é])", "([^é])", "(日)", "(日本)", "([日本]+)", "(.)日", "日(.)", "(\\p{L})", "(\\p{L}+)", "(α|αβ)", "(αβ|α)", "(α*)", "(α+)(β)", "((α)|(β))+", "(α)(.)(β)", "(日)*本", "((日)|(本))*", "(日)?(本)?",
		// practical
		"(foo)|(foobar)", "(foobar)|(foo)", "(fo*)", "(f)(o+)", "f((oo)*)", "(f|fo|foo)", "(foo|fo|f)", "(f|fo|foo)b", "(foo|fo|f)o*b", "(\\w+)=(\\w*)", "(\\w+):(\\d+)", "([^:]*):(.*)", "([^,]*),([^,]*)", "(a+)(b+)?(c+)?", "((a+)(b+))+", "(x*)(y*)", "(x*)(y+)", "((x|y)*)z", "((xy)*)x", "(x)((yx)*)", "((x*)(y*))*", "((x+)(y*))+", "((x?)(y?))*z",
		// loops at the very start (the anchored start state is re-entered by a byte transition)
		"a*(b)", "(?:a|b)*(c)", "a*(b)c", "a*(b)?", "[ab]*(c)", "x*(y)(z)",
		// assertions in the middle
		"(a)\\b(b)", "(a)\\B(b)", "(a)\\b( )", "(\\w+)\\B", "(a)$(b)", "(a)^(b)", "(?m)(a)$\\n(b)", "(\\d+)\\b(px|em)",
		// end looks / start looks through the one-pass `atEnd` / `endMatches` machinery
		"(a|\\z)", "(\\z|a)", "(a*)\\z", "(?:a\\z)*", "(?:(a)|\\z)+", "(a)?$", "(a|b$)", "\\A(a)$", "(?m)^(a)", "^(?:(a)|^b)", "(a)(?:$|b)", "(a+?)$", "(a*?)$", "(a|ab)$", "(a|ab)(c|$)", "(?:(a)|(b)$)", "(a)\\z|(a)b", "(a$)?", "(^)?(a)", "(a)(\\z)", "(x*)(y*)$", "(a+?)(b|$)",
		// no groups (CaptureCount = 1)
		"a", "a*", "a|b", "ab", "",
	}
	base = append(base, randomPatterns(120)...)
	seen := map[string]bool{}
	var out []string
	for _, p := range base {
		if !seen[p] {
			seen[p] = true
			out = append(out, p)
		}
	}
	return out
}

// randomPatterns: small random capture-bearing regexes from a fixed-seed LCG
func randomPatterns(n int) []string {
	seed := uint64(0x9E3779B97F4A7C15)
	next := func(k int) int {
		seed = seed*6364136223846793005 + 1442695040888963407
		return int((seed >> 33) % uint64(k))
	}
	atoms := []string{"a", "b", "ab", ".", "[ab]", "[^a]", "\\b", "^", "$", "\\w", "()", "a?", "b*", "x", "(a)", "(b)", "(a|b)", "(a*)", "(b+?)"}
	var gen func(d int) string
	gen = func(d int) string {
		if d <= 0 {
			return atoms[next(len(atoms))]
		}
		switch next(10) {
		case 0, 1:
			return gen(d-1) + gen(d-1)
		case 2:
			return "(" + gen(d-1) + "|" + gen(d-1) + ")"
		case 3:
			return "(" + gen(d-1) + ")*"
		case 4:
			return "(" + gen(d-1) + ")*?"
		case 5:
			return "(" + gen(d-1) + ")+"
		case 6:
			return "(" + gen(d-1) + ")?"
		case 7:
			return "(?:" + gen(d-1) + "){1,2}"
		case 8:
			return "(?:" + gen(d-1) + "|" + gen(d-1) + ")+"
		default:
			return atoms[next(len(atoms))]
		}
	}
	var out []string
	for i := 0; i < n; i++ {
		out = append(out, gen(1+next(3)))
	}
	return out
}

func haystacks() [][]byte {
	strs := []string{
		"", "a", "b", "ab", "ba", "aa", "aab", "aba", "abab", "abc", "abcd", "abbc", "aaa", "aaab", "abb", "babb", "ac", "bc", "aac", "abac",
		"a\nb", "\n", "a\n", " a b", "ab ab", "a_b c", "x", "xy", "xyz", "yxyx", "xxyyz", "ay", "axay", "axayax",
		"foo", "foobar", "fob", "foo bar", "FOO", "a@b", "ab@cd.ef", "12-34", "1.5", "k=12", "key=", "a:1", "a:b:c", "a,b", "ab12", "x1",
		"é", "aéb", "éé", "日本", "a日本b", "日", "αβ", "ααβ", "αxβ", "acd", "abd", "ad", "bcd", "abcbc",
	}
	var out [][]byte
	for _, s := range strs {
		out = append(out, []byte(s))
	}
	return out
}

type finding struct {
	pat  string
	h    []byte
	at   int
	got  string
	want string
}

func main() {
	rf, _ := os.Create("req.txt")
	ef, _ := os.Create("exp.txt")
	mf, _ := os.Create("meta.txt")
	ff, _ := os.Create("findings.txt")
	rw, ew, mw, fw := bufio.NewWriter(rf), bufio.NewWriter(ef), bufio.NewWriter(mf), bufio.NewWriter(ff)
	defer func() { rw.Flush(); ew.Flush(); mw.Flush(); fw.Flush(); rf.Close(); ef.Close(); mf.Close(); ff.Close() }()

	lines := 0
	emit := func(req, exp, meta string) {
		fmt.Fprintln(rw, req)
		fmt.Fprintln(ew, exp)
		fmt.Fprintln(mw, meta)
		lines++
	}

	hs := haystacks()
	nPat, nCases, nStdCmp, nStdDiff, nStdDiffAtEnd, nStdDiffOther := 0, 0, 0, 0, 0, 0
	patWithDiff := map[string]bool{}
	patWithOtherDiff := map[string]bool{}
	var firstOther []finding
	for _, p := range patterns() {
		n, err := nfa.NewDefaultCompiler().Compile(p)
		if err != nil {
			fmt.Fprintf(os.Stderr, "skip %q: %v\n", p, err)
			continue
		}
		re, err := regexp.Compile(p)
		if err != nil {
			fmt.Fprintf(os.Stderr, "skip(std) %q: %v\n", p, err)
			continue
		}
		nPat++
		if n.IsAnchored() != (n.StartAnchored() == n.StartUnanchored()) {
			fmt.Fprintf(os.Stderr, "ANCHOR-FLAG mismatch %q\n", p)
		}
		ng := n.CaptureCount()
		if ng != re.NumSubexp()+1 {
			fmt.Fprintf(os.Stderr, "GROUP COUNT mismatch %q: %d vs %d\n", p, ng, re.NumSubexp()+1)
		}
		d := dumpNFA(n)
		emit(fmt.Sprintf("caps hyp 0 %d - %s", 2*ng, d), "-", fmt.Sprintf("hyp\t%q\t\t", p))
		lb := hasLookBehind(p)
		vm := nfa.NewPikeVM(n)
		for _, h := range hs {
			hh := hx(h)
			for at := 0; at <= len(h); at++ {
				nCases++
				var got []int
				func() {
					defer func() {
						if r := recover(); r != nil {
							fmt.Fprintf(os.Stderr, "PANIC %q %q at=%d: %v\n", p, h, at, r)
						}
					}()
					got = capsOf(vm.SearchWithSlotTableCapturesAt(h, at), ng)
				}()
				gs := ints(got)
				emit(fmt.Sprintf("caps pike %d %d %s %s", at, 2*ng, hh, d), gs, fmt.Sprintf("pike\t%q\t%q\t%d", p, h, at))
				{
					// theorem (c) instance (every at <= len): the reference on the dumped NFA vs the real Pike VM
					emit(fmt.Sprintf("caps ref %d %d %s %s", at, 2*ng, hh, d), gs, fmt.Sprintf("ref-gopike\t%q\t%q\t%d", p, h, at))
				}
				if at == 0 || !lb {
					want := ints(stdAt(re, h, at))
					nStdCmp++
					// the reference model on the dumped NFA vs stdlib
					emit(fmt.Sprintf("caps ref %d %d %s %s", at, 2*ng, hh, d), want, fmt.Sprintf("ref-std\t%q\t%q\t%d", p, h, at))
					if gs != want {
						nStdDiff++
						patWithDiff[p] = true
						fmt.Fprintf(fw, "PIKE!=STD\t%q\t%q\tat=%d\tpike=%s\tstd=%s\n", p, h, at, gs, want)
						if at == len(h) {
							nStdDiffAtEnd++
						} else {
							nStdDiffOther++
							if !patWithOtherDiff[p] {
								firstOther = append(firstOther, finding{p, h, at, gs, want})
							}
							patWithOtherDiff[p] = true
						}
					}
				}
			}
		}
	}
	// ---- one-pass DFA ----
	nOPBuilt, nOPRejected, nOPCases, nOPStdDiff, nOPNilButMatch, nOPWrong, nE2E, nE2EDiff := 0, 0, 0, 0, 0, 0, 0, 0
	nOPLCases, nOPLDiff := 0, 0
	opWrongPats := map[string]bool{}
	e2ePats := map[string]bool{}
	for _, p := range patterns() {
		an, err := anchoredNFA(p)
		if err != nil {
			continue
		}
		re, err := regexp.Compile(p)
		if err != nil {
			continue
		}
		reA := regexp.MustCompile(`^(?:` + p + `)`)
		ng := an.CaptureCount()
		d := dumpNFA(an)
		emit(fmt.Sprintf("caps classes 0 %d - %s", 2*ng, d), classesOf(an), fmt.Sprintf("classes\t%q\t\t", p))
		emit(fmt.Sprintf("caps hyp 0 %d - %s", 2*ng, d), "-", fmt.Sprintf("hyp-anch\t%q\t\t", p))
		dfa, berr := onepass.Build(an)
		if berr != nil {
			nOPRejected++
			emit(fmt.Sprintf("caps onepass-build 0 %d - %s", 2*ng, d), "reject", fmt.Sprintf("op-build\t%q\t\t", p))
		} else {
			nOPBuilt++
			emit(fmt.Sprintf("caps onepass-build 0 %d - %s", 2*ng, d), "ok", fmt.Sprintf("op-build\t%q\t\t", p))
			emit(fmt.Sprintf("caps ophyp 0 %d - %s", 2*ng, d), "-", fmt.Sprintf("ophyp\t%q\t\t", p))
		}
		var cx *coregex.Regex
		if ng > 1 {
			cx, _ = coregex.Compile(p)
		}
		for _, h := range hs {
			hh := hx(h)
			stdA := ints(reA.FindSubmatchIndex(h))
			// anchored reference model vs stdlib anchored
			emit(fmt.Sprintf("caps refa 0 %d %s %s", 2*ng, hh, d), stdA, fmt.Sprintf("refa-std\t%q\t%q\t0", p, h))
			if dfa != nil {
				nOPCases++
				cache := onepass.NewCache(dfa.NumCaptures())
				got := dfa.Search(h, cache)
				var gs string
				if got == nil {
					gs = "nil"
				} else {
					gs = ints(append([]int(nil), got...))
				}
				emit(fmt.Sprintf("caps onepass 0 %d %s %s", 2*ng, hh, d), gs, fmt.Sprintf("onepass\t%q\t%q\t0", p, h))
				emit(fmt.Sprintf("caps arun 0 %d %s %s", 2*ng, hh, d), gs, fmt.Sprintf("arun\t%q\t%q\t0", p, h))
				// theorem instance: anchored reference on the dumped NFA vs the real one-pass DFA
				emit(fmt.Sprintf("caps refa 0 %d %s %s", 2*ng, hh, d), gs, fmt.Sprintf("refa-goonepass\t%q\t%q\t0", p, h))
				cacheL := onepass.NewCache(dfa.NumCaptures())
				gotL := dfa.SearchLongest(h, cacheL)
				gl := "nil"
				if gotL != nil {
					gl = ints(append([]int(nil), gotL...))
				}
				emit(fmt.Sprintf("caps onepass-longest 0 %d %s %s", 2*ng, hh, d), gl, fmt.Sprintf("onepass-longest\t%q\t%q\t0", p, h))
				emit(fmt.Sprintf("caps arun-longest 0 %d %s %s", 2*ng, hh, d), gl, fmt.Sprintf("arun-longest\t%q\t%q\t0", p, h))
				emit(fmt.Sprintf("caps onepass-ismatch 0 %d %s %s", 2*ng, hh, d), fmt.Sprint(dfa.IsMatch(h)), fmt.Sprintf("onepass-ismatch\t%q\t%q\t0", p, h))
				// leftmost-longest oracle
				reL := regexp.MustCompile(`^(?:` + p + `)`)
				reL.Longest()
				stdL := ints(reL.FindSubmatchIndex(h))
				nOPLCases++
				if gl != stdL {
					nOPLDiff++
					fmt.Fprintf(fw, "ONEPASS-LONGEST!=STD\t%q\t%q\tonepass=%s\tstd(anchored,longest)=%s\n", p, h, gl, stdL)
				}
				if gs != stdA {
					nOPStdDiff++
					if gs == "nil" {
						nOPNilButMatch++
					} else {
						nOPWrong++
						opWrongPats[p] = true
						fmt.Fprintf(fw, "ONEPASS!=STD\t%q\t%q\tonepass=%s\tstd(anchored)=%s\n", p, h, gs, stdA)
					}
				}
			}
			if cx != nil {
				nE2E++
				e2e := ints(cx.FindSubmatchIndex(h))
				std := ints(re.FindSubmatchIndex(h))
				if e2e != std {
					nE2EDiff++
					e2ePats[p] = true
					fmt.Fprintf(fw, "ENGINE!=STD\t%q\t%q\tcoregex=%s\tstd=%s\n", p, h, e2e, std)
				}
			}
		}
	}
	fmt.Fprintf(os.Stderr, "one-pass: built %d, rejected %d; searches %d, differ from anchored stdlib %d (nil where stdlib matches: %d, wrong non-nil answer: %d, patterns with wrong answers: %d)\n",
		nOPBuilt, nOPRejected, nOPCases, nOPStdDiff, nOPNilButMatch, nOPWrong, len(opWrongPats))
	fmt.Fprintf(os.Stderr, "one-pass SearchLongest vs anchored stdlib Longest(): compared %d, differ %d\n", nOPLCases, nOPLDiff)
	fmt.Fprintf(os.Stderr, "engine coregex.FindSubmatchIndex vs regexp (patterns with groups): compared %d, differ %d, patterns %d\n", nE2E, nE2EDiff, len(e2ePats))
	fmt.Fprintf(os.Stderr, "patterns: %d, (pattern,haystack,at) cases: %d, request lines: %d\n", nPat, nCases, lines)
	fmt.Fprintf(os.Stderr, "Go PikeVM captures vs regexp.FindSubmatchIndex: compared %d, differ %d (at==len: %d, at<len: %d), patterns affected %d (at<len: %d)\n",
		nStdCmp, nStdDiff, nStdDiffAtEnd, nStdDiffOther, len(patWithDiff), len(patWithOtherDiff))
	for _, f := range firstOther {
		fmt.Fprintf(os.Stderr, "  at<len finding: %q on %q at=%d: pike=%s std=%s\n", f.pat, f.h, f.at, f.got, f.want)
	}
}
